import NeatviVerif.Lemmas.C05fV
/-!
# C05f: no trap is reachable in vi mode

`Res.trap` is the model's value for a place where the C code would read or write out of bounds, dereference
NULL, compare pointers into different objects or loop without bound.  This file proves that, from a state
with the invariant `ViOk`, **one iteration of the command loop of `vi()` never traps and re-establishes the
invariant** — for *every* key sequence, command by command (all motions; the operators `d y c > < ! g~ gu gU`;
`x X D C s S Y ~ p P J r`; the inserts `i a I A o O` with everything that can be typed in insert mode; `.` `@`;
`u ^R`; the scrolls `^F ^B ^D ^U ^E ^Y z`; marks and jumps; the searches `/ ? n N ^A`; `:` and `ZZ`) — hence no
trap along any run (`iterate`, and the loop of the driver `runModel`).

**The invariant** `ViOk s` (at the start of every iteration): the current buffer exists; every line ends in its
newline, has no other newline and no NUL; the undo history is consistent (`Lemmas/HistInv`) with no command in
progress, and all texts it can bring back are free of NUL; no register holds a NUL; the cursor row is a row of
the buffer (row 0 of an empty one) and the cursor column is not beyond its line; both counts are in
`[0, 999999999]`.  Valid UTF-8 is *not* needed: the theorems hold for arbitrary bytes in the lines and the keys.

**No assumption about the regular-expression layer is left**: for a pattern without NUL, `rstr_make` and `rstr_find` do
not trap (`engine_no_trap`, proved from `Lemmas/C05e`), and a hit of `lbuf_search` lies on an existing line at a
column `≤` the number of its characters (`search_hit_in`, proved outright).  The former hypothesis `EngineOk` was false
(`Props/C05h.lean`); it, `ExNoTrap` and `ExKeeps` are still *defined* (C05h states its refutations about them) but no
theorem here uses them.

**Hypotheses per state an iteration starts from** (`StepHyp`; none is an invariant of `ViOk`, see section 5):
* `MarksIn` (also after the caret mark is set): a mark whose row lies beyond the buffer has column `≤ 0`.  It fails
  after the undo of an append at the end of the buffer (the marks `` `* `` `` `^ `` become `(len, column)`); an
  operator with the motion `` `* `` then traps *in the model*.  The C code is safe there (`lbuf_get` = NULL, both
  `uc_chr` return the same `""`): the model is stricter than the code — reported.
* `SearchOk`, three clauses:
  `slash` — no counted `/` search that can be typed from the pending keys has a first match that reaches the end
  of its line.  Otherwise `lbuf_search` is restarted beyond the line; `uc_chr` returns its static `""` and the
  pointer difference `"" - s` is formed (undefined, harmless at run time: `2/w[[:space:]]<CR>`);
  `kwd` — the remembered pattern has no NUL (in truth an invariant of the editor, part of C05e's `Safe`; C05f's `SOk`
  does not carry it and C05h's `sok_not_safe` pins that down.  Needed: `\` NUL makes `rstr_make` trap);
  `pos` — the pattern in force after the prompt of a search `? n N ^A` typed from the pending keys matches *inside*
  every line (`PatIn`: decidable, per pattern and line).  Needed only to *restart* a repeated search (`2n`) from its
  previous hit: on a line that ends in a truncated multi-byte character `x*$` matches on the terminator, and the
  second search of `2n` then starts beyond the line (witness: `Props/C05i.lean`, `repeated_search_overrun`).
* `ColonOk` — the ex command the `:` prompt returns for the pending keys (and the `x` of `ZZ`) does not trap and keeps
  the buffer / register part of the invariant (`ExCallOk line state`).  `Props/C05i.lean` derives the first half from
  C05e for the lines of its class `ColonLineOk`.

**Found on the way and repaired in the C code (and the model) before these proofs were finished** — both were real
crashes (SIGSEGV in `uc_sub`): an operator with the motion `` `x `` when the marked line had become shorter
(``$ma0Dd`a``), and a NUL key inside an operator's motion (`$d2^@l`: the row moved, the column did not).  With the
repairs (`` `x `` clamps the column; `vi_motionln` takes the doubled operator letter only for `cmd != 0`) the
positive statements below hold without any hypothesis about them: see `motion_no_trap`.

Byte strings are lists of character codes.
-/
set_option linter.unusedSimpArgs false
set_option linter.unusedVariables false

namespace Neatvi.Props.C05f
open Neatvi Neatvi.Uc Neatvi.Lbuf Neatvi.Ex Neatvi.Mot Neatvi.Vi Neatvi.Rset
open Neatvi.Lemmas.C05f
open Neatvi.Props.C05c (iterate)

export Neatvi.Lemmas.C05f (wp NoNul LineOk HistOk BufsOk RegsOk SOk RowOk CursorOk ViOk StepHyp EngineOk ExNoTrap
  ExKeeps ReOk ReTot HitIn PatIn hitInside MarksIn SearchOk SearchAt searchKeys specialKeys SlashAt ExCallOk ColonOk ColonAt
  CurOk PosIn markCaret allQ OpPost CtPost isTrap oneLine trapsAfter NotTrap sPre)

/-! ## 1. one iteration -/

/-- **one iteration of the loop of `vi()`** from a state with the invariant: it does not trap, and unless the
    editor is quitting the invariant holds again — for every key sequence -/
theorem step_safe {s : VS} (hv : ViOk s) (hm1 : MarksIn s) (hm2 : MarksIn (markCaret s)) (hsl : SearchOk s)
    (hcol : ColonOk s) : wp viStep (fun _ s' => s'.ed.xquit = false → ViOk s') s :=
  viStep_safe hv hm1 hm2 hsl hcol

/-- **no trap**: `ViOk s → viStep s ≠ Res.trap` -/
theorem step_no_trap {s : VS} (hv : ViOk s) (hm1 : MarksIn s) (hm2 : MarksIn (markCaret s)) (hsl : SearchOk s)
    (hcol : ColonOk s) : viStep s ≠ Res.trap :=
  viStep_no_trap hv hm1 hm2 hsl hcol

/-- **preservation**: `ViOk s → viStep s = Res.ok () s' → ViOk s'` (unless the editor is quitting: then `vi()`
    leaves its loop) -/
theorem step_keeps {s s' : VS} (hv : ViOk s) (hm1 : MarksIn s) (hm2 : MarksIn (markCaret s)) (hsl : SearchOk s)
    (hcol : ColonOk s) (h : viStep s = Res.ok () s') (hq : s'.ed.xquit = false) : ViOk s' :=
  viStep_keeps hv hm1 hm2 hsl hcol h hq

/-! ## 2. runs -/

/-- **the invariant holds along every run** whose iterations start from states with `StepHyp` -/
theorem run_invariant (n : Nat) (s₀ s : VS) (h0 : ViOk s₀)
    (hh : ∀ k t, k ≤ n → iterate k s₀ = some t → StepHyp t) (h : iterate n s₀ = some s) : ViOk s :=
  viOk_iterate n s₀ s h0 hh h

/-- **no trap along any run**: the state after `n` completed commands does not trap on the next one -/
theorem run_no_trap (n : Nat) (s₀ s : VS) (h0 : ViOk s₀)
    (hh : ∀ k t, k ≤ n → iterate k s₀ = some t → StepHyp t) (h : iterate n s₀ = some s) : viStep s ≠ Res.trap :=
  no_trap_iterate n s₀ s h0 hh h

open Neatvi.Drive.ViD in
/-- **the loop of the driver** (`runModel.loop`: stop at end of keys, trap, `xquit` or out of fuel) never ends in a
    trap, when the states it records satisfy `StepHyp` -/
theorem driver_no_trap (n f : Nat) (s : VS) (bds : List Bd)
    (sts : List VS) (um : Option Nat) (hv : ViOk s)
    (hh : ∀ t ∈ (runModel.loop n f s bds sts um).states, StepHyp t) : NotTrap (runModel.loop n f s bds sts um).fin :=
  loop_no_trap n f s bds sts um hv hh

/-! ## 3. command by command -/

/-- **the regular-expression layer on C strings** (what replaces the false `EngineOk`; proved from `Lemmas/C05e`):
    compiling a pattern without NUL does not trap, and its matcher never traps, on any subject -/
theorem engine_no_trap (kw : Bytes) (flg : Nat) (h0 : NoNul kw) :
    ∃ r, rstrMake kw flg = some r ∧ ∀ re, r = some re → ReTot re := engine_c_strings kw flg h0

/-- **`lbuf_search`** with a pattern without NUL, started on an existing character, never traps — whatever the bytes
    of the lines -/
theorem lbuf_search_no_trap (ls : Lines) (kw : Bytes) (ic : Bool) (dir r o : Int) (h0 : NoNul kw) (ho : o < slenAt ls r) :
    search ls kw ic dir r o ≠ none := by
  obtain ⟨res, h⟩ := search_total_c ls kw ic dir r o h0 ho
  rw [h]; exact fun h => by cases h

/-- **a hit of `lbuf_search`** lies on an existing line at a column `≤` the number of its characters (no hypothesis;
    `=` is possible: C05h `search_hit_beyond_last_char`; `vi` then clamps the column) -/
theorem search_hit_in (ls : Lines) (kw : Bytes) (ic : Bool) (dir r o : Int) (res : Option (Int × Int × Int))
    (h : search ls kw ic dir r o = some res) : HitIn ls res := Lemmas.C05f.search_hit_in ls kw ic dir r o res h

/-- … and on a character of its line when the pattern matches inside the lines (`PatIn`, decidable) -/
theorem search_hit_strict (ls : Lines) (kw : Bytes) (ic : Bool) (dir r o : Int) (hl : ∀ l ∈ ls, LineOk l)
    (hp : PatIn kw ic ls) (res : Option (Int × Int × Int)) (h : search ls kw ic dir r o = some res) :
    ∀ r' o' len, res = some (r', o', len) → 0 ≤ r' ∧ r' < ls.length ∧ 0 ≤ o' ∧ o' < slenAt ls r' :=
  Lemmas.C05f.search_hit_strict ls kw ic dir r o hl hp res h

/-- **every motion** (`h j k l w b e W B E 0 ^ $ | f t F T ; , { } [[ ]] % G H L M + - _ ' ` / ? n N ^A space DEL`,
    and "no motion"): no trap, and a motion that succeeds returns a position inside the buffer -/
theorem motion_no_trap (row off : Int) (s : VS) {c : Prop} (hs : SOk s c) (hcur : CurOk s row off)
    (hmk : MarksIn s) (hsl : SearchOk s) :
    viMotion row off s ≠ Res.trap ∧
    ∀ mv r o s', viMotion row off s = Res.ok (mv, r, o) s' → 0 < mv → PosIn (lines s) r o :=
  viMotion_no_trap row off s hs hcur hmk hsl

/-- **the searches** `/ ? n N ^A` started on the cursor, with a remembered pattern without NUL: the traps are the
    counted `/` (hypothesis `hsl`) and the restart of a repeated `? n N` from a hit on the end of its line (`hpos`) -/
theorem search_no_trap (cmd : Nat) (cnt r o : Int) (s : VS) {c : Prop} (hs : SOk s c) (hkw : NoNul s.ed.xkwd)
    (hp : PosIn (lines s) r o) (ho : lenOf s ≠ 0 → o < slenAt (lines s) r)
    (hsl : cmd = 47 → 2 ≤ cnt → viSearch cmd cnt r o s ≠ Res.trap)
    (hpos : cmd ≠ 47 → 2 ≤ cnt → ∀ ab s1, sPre cmd s = Res.ok ab s1 → ∀ ic, PatIn s1.ed.xkwd ic (lines s)) :
    viSearch cmd cnt r o s ≠ Res.trap :=
  viSearch_no_trap cmd cnt r o s hs hkw hp ho hsl hpos

/-- … in particular **no search without a count ever traps** (`/ ? n N ^A`): the only hypothesis is that the
    remembered pattern is a C string -/
theorem search_no_trap_uncounted (cmd : Nat) (cnt r o : Int) (s : VS) {c : Prop} (hs : SOk s c) (hkw : NoNul s.ed.xkwd)
    (hp : PosIn (lines s) r o) (ho : lenOf s ≠ 0 → o < slenAt (lines s) r) (h : cnt ≤ 1) :
    viSearch cmd cnt r o s ≠ Res.trap := viSearch_no_trap_uncounted cmd cnt r o s hs hkw hp ho h

/-- **an operator with its motion** (`d y c > < ! g~ gu gU`, and through them `x X D C s S Y ~`) -/
theorem operator_no_trap (cmd : Nat) {s : VS} {c : Prop} (hs : SOk s c) (hr : RowOk s)
    (hmk : MarksIn s) (hsl : SearchOk s) : wp (vcMotion cmd) (fun _ s' => SOk s' False) s :=
  wp_vcMotion cmd hs hr hmk hsl _ (fun _ _ h => h.1)

/-- the operators on any region inside the buffer -/
theorem operators_on_region {s : VS} {c : Prop} (hs : SOk s c) (cmd : Nat) (r1 o1 r2 o2 : Int) (ln : Bool)
    (hr1 : 0 ≤ r1) (hr : r1 ≤ r2) (h1 : o1 ≤ slenAt (lines s) r1) (h2 : o2 ≤ slenAt (lines s) r2) :
    viYank r1 o1 r2 o2 ln s ≠ Res.trap ∧ viDelete r1 o1 r2 o2 ln s ≠ Res.trap ∧ viChange r1 o1 r2 o2 ln s ≠ Res.trap ∧
    viCase r1 o1 r2 o2 ln cmd s ≠ Res.trap ∧ viShift r1 r2 1 s ≠ Res.trap ∧ viShift r1 r2 (-1) s ≠ Res.trap :=
  operators_no_trap hs cmd r1 o1 r2 o2 ln hr1 hr h1 h2

/-- **`i a I A o O`**, whatever is typed in insert mode -/
theorem insert_no_trap (cmd : Nat) {s : VS} {c : Prop} (hs : SOk s c) (hr : RowOk s) :
    wp (vcInsert cmd) (fun _ s' => SOk s' False) s := wp_vcInsert cmd hs hr _ (fun _ _ h => h.1)

/-- **`p P`** from any register, **`J`**, **`r`** with any character -/
theorem put_join_replace_no_trap (cmd : Nat) {s : VS} {c : Prop} (hs : SOk s c) (hr : RowOk s) :
    wp (vcPut cmd) (fun _ s' => SOk s' False) s ∧ wp vcJoin (fun _ s' => SOk s' False) s ∧
    wp vcReplace (fun _ s' => SOk s' False) s :=
  ⟨wp_vcPut cmd hs hr _ (fun _ _ h => h.1), wp_vcJoin hs hr _ (fun _ _ h => h.1), wp_vcReplace hs hr _ (fun _ _ h => h.1)⟩

/-- **the command switch** (everything that is not a plain motion, including `u ^R . @ : ZZ m z ^F ^B ^D ^U ^E ^Y`) -/
theorem command_switch_no_trap {s : VS} (hs : SOk s True) (hr : RowOk s)
    (hoff : s.ed.xoff ≤ slenAt (lines s) s.ed.xrow) (hmk : MarksIn (markCaret s)) (hsl : SearchOk s) (hcol : ColonOk s) :
    wp commandTail CtPost s := wp_commandTail hs hr hoff hmk hsl hcol _ (fun _ _ h => h)

/-- **`vi_wfix()`** never traps and puts the cursor back into the buffer, from any row and column -/
theorem wfix_restores_cursor {s : VS} {c : Prop} (hs : SOk s c) :
    wp viWfix (fun _ s' => SOk s' c ∧ CursorOk s') s := wp_viWfix hs _ (fun _ h1 h2 _ => ⟨h1, h2⟩)

/-- **the text typed in insert mode or at a prompt holds no NUL**, whatever the keys are (`^V`, `^K`, `^P`, `^R`,
    keymaps, raw bytes …) -/
theorem typed_text_has_no_nul (pref post ai0 : Bytes) (aiMax : Nat) (im ex : Bool) (s : VS) {c : Prop} (hs : SOk s c)
    (hai : NoNul ai0) (hnl : 10 ∉ ai0) : wp (ledLine pref post ai0 aiMax im ex) (fun r _ => NoNul r.1 ∧ NoNul r.2.2) s :=
  wp_ledLine pref post ai0 aiMax im ex s hs.paste hai hnl _ (fun _ _ _ _ _ h1 h2 _ => ⟨h1, h2⟩)

/-- **the bookkeeping of insert mode**: the rows `vi_nextline()` goes down match the newlines of the text, so that
    `vc_insert` and `vi_change` hand `lbuf_edit` a row that is not negative -/
theorem insert_rows_match_newlines (pref post : Bytes) (s : VS) {c : Prop} (hs : SOk s c) (hp : NoNul pref) (hq : NoNul post) :
    wp (viInput pref post) (fun r s' => NoNul r.1 ∧
      (s'.ed.xrow : Int) - r.2.1 = s.ed.xrow - nlCount pref - nlCount post) s :=
  wp_viInput pref post s hs.textOk hp hq _ (fun _ _ _ _ _ h1 h2 => ⟨h1, h2⟩)

/-! ## 4. the hypotheses are satisfiable -/

/-- the example state of `Props/C08b.lean` (lines `hello w`, `b`; cursor at the start) has the invariant … -/
theorem example_state_ok (keys : Bytes) : ViOk (Props.C08b.exSt keys 0 0) := exSt_viOk keys

/-- … and the per-state hypotheses, for every key sequence without the keys `/ ? n N ^A : Z` -/
theorem example_state_hyp (keys : Bytes) (h : ∀ k ∈ specialKeys, k ∉ keys) : StepHyp (Props.C08b.exSt keys 0 0) :=
  exSt_stepHyp keys h

/-- so — **without any assumption on another layer** — no such key sequence makes the first command trap -/
theorem example_first_step (keys : Bytes) (h : ∀ k ∈ specialKeys, k ∉ keys) :
    viStep (Props.C08b.exSt keys 0 0) ≠ Res.trap := exSt_no_trap keys h

example : viStep (Props.C08b.exSt [100, 119, 120] 0 0) ≠ Res.trap := example_first_step _ (by decide)

/-- a buffer whose history is empty (a fresh literal buffer) with well-formed lines has the history invariant -/
theorem fresh_buffer_ok (lb : Lb) (hh : lb.hist = []) (hu : lb.histU = 0) (hl : ∀ l ∈ lb.lines, LineOk l) :
    HistOk lb True := histOk_of_no_hist lb hh hu hl

/-- `SearchOk` holds when no search key (`/ ? n N ^A`) is pending and the remembered pattern has no NUL -/
theorem searchOk_without_search {s : VS} (h : ∀ k ∈ searchKeys, k ∉ allQ s) (hk : NoNul s.ed.xkwd) : SearchOk s :=
  searchOk_of_no_search h hk

/-- `ColonOk` holds when neither `:` nor `Z` is pending -/
theorem colonOk_without_colon {s : VS} (h1 : (58 : Int) ∉ allQ s) (h2 : (90 : Int) ∉ allQ s) : ColonOk s :=
  colonOk_of_no_colon h1 h2

/-- `MarksIn` survives setting the caret mark when the cursor is inside its line (mark tables of equal length) -/
theorem marksIn_after_caret {s : VS} {c : Prop} (hs : SOk s c) (hm : MarksIn s)
    (hlen : ∀ lb, s.ed.lb = some lb → lb.mark.length = lb.markOff.length)
    (hoff : s.ed.xoff ≤ slenAt (lines s) s.ed.xrow) : MarksIn (markCaret s) := marksIn_caret hs hm hlen hoff

/-- on the literal fast path of `rstr.c` — a pattern without regular-expression characters (`rstr_simple`; the word
    search of `^A` is one) — matches start inside the subject: the position clause that fails in general -/
theorem literal_matches_inside (kw : Bytes) (flg : Nat) (h : (simple kw).isSome = true) :
    ∃ r, rstrMake kw flg = some r ∧ ∀ re, r = some re → ReOk re := engineOk_simple kw flg h

/-! ## 5. the traps that remain in the model -/

/-- **witness 1** (kernel-checked): ``$ oxyz<ESC> u d`*`` on the one-line buffer `hello w` — the fourth command
    traps in the model (`MarksIn` fails after the undo); the first three do not.  `/repo/vi` does *not* crash here:
    the line is NULL and both `uc_chr` return `""`; the model is stricter than the C code -/
theorem mark_beyond_buffer_traps :
    trapsAfter 3 (oneLine [36, 111, 120, 121, 122, 27, 117, 100, 96, 42]) = true ∧
    trapsAfter 2 (oneLine [36, 111, 120, 121, 122, 27, 117, 100, 96, 42]) = false :=
  ⟨Lemmas.C05f.mark_beyond_buffer_traps, Lemmas.C05f.mark_beyond_buffer_prefix_ok⟩

/-- **witness 2**: a search restarted beyond the end of a line traps (`uc_chr` returns its static `""`) … -/
theorem search_beyond_line_traps (ls : Lines) (kw : Bytes) (ic : Bool) (r o : Int) (l : Bytes) (re : RStr)
    (hre : rstrMake kw (if ic then RE_ICASE else 0) = some (some re))
    (hl : lineAt ls r = some l) (ho : (ucSlen l : Int) ≤ o) : search ls kw ic 1 r o = none :=
  Lemmas.C05f.search_beyond_line_traps ls kw ic r o l re hre hl ho

/-- … so a `/` with a count ≥ 2 traps whenever its first match reaches the end of its line — `2/w[[:space:]]<CR>`
    on `hello w` (the match `w\n` is characters 6–7 of 8); on `/repo/vi` this is harmless at run time (rc 0, clean
    under valgrind), the pointer difference `"" - s` is undefined behaviour only on paper -/
theorem counted_slash_overrun (cnt : Int) (s : VS) (kwd : Bytes) (r o r' o' len : Int) (l : Bytes) (hcnt : 2 ≤ cnt)
    (h1 : search (lines s) kwd (s.ed.xic != 0) 1 r o = some (some (r', o', len)))
    (hl : lineAt (lines s) r' = some l) (hend : (ucSlen l : Int) ≤ o' + len) :
    viSearch.rep 47 cnt s kwd 1 (cnt.toNat + 1) r o 0 = none :=
  Lemmas.C05f.counted_slash_overrun cnt s kwd r o r' o' len l hcnt h1 hl hend

end Neatvi.Props.C05f
