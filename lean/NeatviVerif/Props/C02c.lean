import NeatviVerif.Lemmas.C02cPlus
/-!
# C02c  `:e` never drops a buffer with unsaved changes to make room

When all 16 slots of the buffer table are in use, `bufs_open` reuses the last slot (`Ed.findRoom`,
`C20.room_policy`, `C20.open_full_evicts_last`).  `ec_edit` used to call it even when the buffer in
that slot had unsaved changes.  Now (`ecEdit`, the stage `editGuard2`) it first asks
`bufs_modified(bufs_findroom(), "last buffer modified")` — unless `writeany` is set — and returns 1 when
that reports a modified buffer that could not be written.

* F1 `bufsOpen_drops_only_findRoom`: `bufs_open` changes slot `findRoom` only.
* F2 `ecEdit_refuses_to_drop_modified`: the buffer `bufs_open` would drop is modified ⇒ `:e` returns 1,
  nothing is opened, every slot keeps its buffer (id, path, text, dirty flag), no file changes.
* F3 `ecEdit_keeps_modified_buffers_noplus`: for EVERY result of `:e` (any command word, `!` or not, any
  argument without `+cmd`): every modified buffer other than the current one is still in the table,
  with its id, path, text and dirty flag.  `ecEdit_keeps_modified_buffers_upto_plus`: with a `+cmd` the
  same holds of the state in which `ec_edit` hands over to `ex_command(+cmd)`.  The statement for the
  final state of `:e +cmd path` is FALSE, because the `+cmd` may be any command line, e.g. `:b !`
  (`bufs_shift`, which drops the current buffer without asking): see `plus_cmd_may_drop` and
  `ecEdit_keeps_modified_buffers_full_is_false` below.
* F4 concrete editors with 16 buffers.
-/
namespace Neatvi.Props.C02c
open Neatvi Neatvi.Lbuf Neatvi.Ex Neatvi.Lemmas.C02Ex Neatvi.Lemmas.C02c

export Neatvi.Lemmas.C02c (plusSplit editGuard2 editOpen editRead editFinish editPlus ecEdit_stages
  bufView slotView SameTable)

/-! ## F1: `bufs_open` changes the slot `bufs_findroom()` chose, and no other -/

/-- `(ed.bufsOpen p).2.bufs` differs from `ed.bufs` at index `ed.findRoom` only (this is
    `C20.open_uses_free_slot`, restated): the slot returned is `findRoom`, the table keeps its length,
    every other slot is unchanged, and slot `findRoom` holds the fresh buffer -/
theorem bufsOpen_drops_only_findRoom (ed : Ed) (p : Bytes) :
    (ed.bufsOpen p).1 = ed.findRoom ∧
    (ed.bufsOpen p).2.bufs.length = ed.bufs.length ∧
    (∀ j, j ≠ ed.findRoom → (ed.bufsOpen p).2.bufs.getD j none = ed.bufs.getD j none) ∧
    (0 < ed.bufs.length → (ed.bufsOpen p).2.bufs.getD ed.findRoom none = some (C20.newBuf ed p)) := by
  obtain ⟨h1, h2, _, _, _, _, h7, h8⟩ := C20.open_uses_free_slot ed p
  exact ⟨h1, by rw [h2, List.length_set], h7, h8⟩

/-- so a buffer is dropped by `bufs_open` only if it sat in slot `findRoom` -/
theorem bufsOpen_keeps_other_slots (ed : Ed) (p : Bytes) (j : Nat) (b : Buf) (hj : j ≠ ed.findRoom)
    (hb : ed.bufs.getD j none = some b) : (ed.bufsOpen p).2.bufs.getD j none = some b := by
  rw [(bufsOpen_drops_only_findRoom ed p).2.2.1 j hj, hb]

/-! ## F2: the second guard -/

/-- every slot of `ed'` holds what it held in `ed`: empty stays empty, a buffer keeps its path, id,
    text and dirty flag (sequence counters may have been bumped by `lbuf_modified`) -/
def SlotsKept (ed ed' : Ed) : Prop :=
  ed'.bufs.length = ed.bufs.length ∧
  ∀ i, (ed.bufs.getD i none = none → ed'.bufs.getD i none = none) ∧
    ∀ b, ed.bufs.getD i none = some b →
      ∃ b', ed'.bufs.getD i none = some b' ∧ b'.path = b.path ∧ b'.id = b.id ∧ b'.lb.lines = b.lb.lines ∧
        (modified b'.lb).1 = (modified b.lb).1

theorem slotsKept_of_sameTable {ed ed' : Ed} (h : SameTable ed ed') : SlotsKept ed ed' := by
  refine ⟨h.length, fun i => ⟨?_, ?_⟩⟩
  · intro hn
    have := h.slots i
    rw [hn] at this
    cases hx : ed'.bufs.getD i none with
    | none => rfl
    | some x => rw [hx] at this; cases this
  · intro b hb
    have := h.slots i
    rw [hb] at this
    obtain ⟨b', hb', hv⟩ := slotView_some this
    simp only [bufView, Prod.mk.injEq] at hv
    exact ⟨b', hb', hv.2.1, hv.1, hv.2.2.1, hv.2.2.2⟩

/-- the general form, on the state `ed2` that reaches the second guard: the first guard passed (`hg`:
    the current buffer is clean, or `!`, or there is none), the path expanded to a non-empty `path`
    (`hp`, `hne`) which no open buffer has (`hf`), and the slot `bufs_open` would reuse holds a modified
    buffer `b`.  Then `ec_edit` returns 1 in the state `ed2` with that buffer's counter bumped and the
    message "last buffer modified" shown; compared with the INITIAL state `ed` every slot keeps its
    buffer and no file changes. -/
theorem ecEdit_refuses_at_guard2 (f : Nat) (ed ed1 ed2 : Ed) (cmd arg path : Bytes) (b : Buf)
    (hwa : ed.xwa = 0) (haw : ed.xaw = 0)
    (hg : C20.editGuard ed cmd = some (false, ed1))
    (hp : pathExpand ed1 (plusSplit arg).2 false = some (some path, ed2))
    (hne : path ≠ []) (hf : ed2.bufsFind path < 0)
    (hb : ed2.bufs.getD ed2.findRoom none = some b) (hd : (modified b.lb).1 = true) :
    ecEdit (f + 1) ed cmd arg = some (1, (bumpAt ed2 ed2.findRoom b).show (strOf "last buffer modified")) ∧
    SameTable ed ((bumpAt ed2 ed2.findRoom b).show (strOf "last buffer modified")) := by
  have T2 : SameTable ed ed2 :=
    (editGuard_sameTable _ _ _ _ haw hg).trans (pathExpand_sameTable _ _ _ _ _ hp)
  have hpre : C20.ewPre ed2 cmd path = ed2 := ewPre_of_notFound _ _ _ hf
  have hfind : (!path.isEmpty && decide (ed2.bufsFind path ≥ 0)) = false := by
    have : decide (ed2.bufsFind path ≥ 0) = false := by rw [decide_eq_false_iff_not]; omega
    rw [this, Bool.and_false]
  refine ⟨?_, T2.trans ((sameTable_bumpAt _ _ _ hb).trans (sameTable_show _ _))⟩
  rw [ecEdit_stages]
  simp only [hg, hp, hpre, hfind, Bool.false_eq_true, if_false,
    editGuard2_refuses ed2 path b (by rw [T2.xwa, hwa]) (by rw [T2.xaw, haw]) (Or.inl hne) hb hd]

/-- **F2**: stated on the initial state `ed`.  `writeany` and `autowrite` off.  The earlier stages pass:
    the first guard lets the command through (`hg`; `ed1` is `ed` with at most the counter of slot 0
    bumped) and the argument expands to a non-empty path (`hp`, `hne`) that no open buffer has (`hf`).
    The slot `bufs_findroom()` designates holds a buffer `b` with unsaved changes.  Then `:e` returns 1:
    * the slot still holds that buffer: same text, same path, same id, still modified;
    * nothing was opened: every slot keeps its buffer (`SlotsKept`), no file changed;
    * the message "last buffer modified" is the last one shown. -/
theorem ecEdit_refuses_to_drop_modified (f : Nat) (ed ed1 ed2 : Ed) (cmd arg path : Bytes) (b : Buf)
    (hwa : ed.xwa = 0) (haw : ed.xaw = 0)
    (hg : C20.editGuard ed cmd = some (false, ed1))
    (hp : pathExpand ed1 (plusSplit arg).2 false = some (some path, ed2))
    (hne : path ≠ []) (hf : ed.bufsFind path < 0)
    (hb : ed.bufs.getD ed.findRoom none = some b) (hd : (modified b.lb).1 = true) :
    ∃ ed' b', ecEdit (f + 1) ed cmd arg = some (1, ed') ∧
      ed'.bufs.getD ed.findRoom none = some b' ∧
      b'.lb.lines = b.lb.lines ∧ b'.path = b.path ∧ b'.id = b.id ∧ (modified b'.lb).1 = true ∧
      SlotsKept ed ed' ∧ ed'.files = ed.files ∧ ed'.bufsCnt = ed.bufsCnt ∧
      ed'.msg = ed2.msg ++ strOf "last buffer modified" ++ [10] := by
  have T2 : SameTable ed ed2 :=
    (editGuard_sameTable _ _ _ _ haw hg).trans (pathExpand_sameTable _ _ _ _ _ hp)
  have hfr : ed2.findRoom = ed.findRoom := T2.findRoom
  have hv2 : slotView (ed2.bufs.getD ed2.findRoom none) = some (bufView b) := by
    rw [hfr, T2.slots, hb]; rfl
  obtain ⟨b2, hb2, hview⟩ := slotView_some hv2
  simp only [bufView, Prod.mk.injEq] at hview
  have hd2 : (modified b2.lb).1 = true := by rw [hview.2.2.2, hd]
  obtain ⟨he, T⟩ := ecEdit_refuses_at_guard2 f ed ed1 ed2 cmd arg path b2 hwa haw hg hp hne
    (by rw [T2.bufsFind]; exact hf) hb2 hd2
  have hcnt : ed2.bufsCnt = ed.bufsCnt := by
    have h1 : ed1.bufsCnt = ed.bufsCnt := by
      unfold C20.editGuard at hg
      split at hg
      · rcases bufsModified_cases _ _ _ _ _ haw hg with ⟨_, _, rfl⟩ | ⟨_, _, _, _, rfl⟩ | ⟨_, _, _, hr, _⟩
        · rfl
        · rfl
        · cases hr
      · cases hg; rfl
    rcases pathExpand_cases _ _ _ _ _ hp with rfl | ⟨m, rfl⟩
    · exact h1
    · exact h1
  obtain ⟨hlt, _⟩ := getD_some hb2
  refine ⟨_, { b2 with lb := (modified b2.lb).2 }, he, ?_, hview.2.2.1, hview.2.1, hview.1, hd2,
    slotsKept_of_sameTable T, T.files, hcnt, rfl⟩
  rw [← hfr]
  exact getD_set_self _ _ _ hlt

/-! ## F3: no form of `:e` loses a modified buffer other than the current one -/

/-- `ed` shows in some slot a buffer with the id, path, text and dirty flag of `b` -/
def HoldsCopy (ed : Ed) (b : Buf) : Prop :=
  ∃ k b', ed.bufs.getD k none = some b' ∧ b'.id = b.id ∧ b'.path = b.path ∧ b'.lb.lines = b.lb.lines ∧
    (modified b'.lb).1 = (modified b.lb).1

theorem holdsCopy_of_held {ed : Ed} {b : Buf} (h : Held ed (bufView b)) : HoldsCopy ed b := by
  obtain ⟨k, hk⟩ := h.getD
  obtain ⟨b', hb', hv⟩ := slotView_some hk
  simp only [bufView, Prod.mk.injEq] at hv
  exact ⟨k, b', hb', hv.1, hv.2.1, hv.2.2.1, hv.2.2.2⟩

/-- **F3, up to the `+cmd`**: `writeany` and `autowrite` off, any command word (`e`, `e!`, `ew`, …), any
    argument.  For every result of `:e` and every modified buffer `b` in a slot `i ≥ 1`: there is a state
    `edm` that still holds `b` (id, path, text, dirty flag), and either `edm` is the final state, or the
    argument had a `+cmd` and the final state is what `ex_command(cmd)` makes of `edm`. -/
theorem ecEdit_keeps_modified_buffers_upto_plus (f : Nat) (ed ed' : Ed) (cmd arg : Bytes) (rc : Int)
    (hwa : ed.xwa = 0) (haw : ed.xaw = 0) (h : ecEdit (f + 1) ed cmd arg = some (rc, ed'))
    (i : Nat) (b : Buf) (hi : 1 ≤ i) (hb : ed.bufs.getD i none = some b) (hd : (modified b.lb).1 = true) :
    ∃ edm, HoldsCopy edm b ∧
      (ed' = edm ∨
        ((plusSplit arg).1.headD 0 = 43 ∧ exCommand f edm ((plusSplit arg).1.drop 1) = some (rc, ed'))) := by
  have hheld : HeldTail ed (bufView b) := heldTail_of_getD (k := i) (by omega) (by rw [hb]; rfl)
  obtain ⟨edm, hm, hor⟩ := ecEdit_core f ed ed' cmd arg rc (bufView b) hwa haw hd hheld h
  refine ⟨edm, holdsCopy_of_held hm, ?_⟩
  rcases hor with hor | hor
  · exact Or.inl hor
  · unfold editPlus at hor
    split at hor
    · rename_i h43
      exact Or.inr ⟨by simpa using h43, hor⟩
    · cases hor; exact Or.inl rfl

/-- **F3, no `+cmd`** (the argument does not start with `+`): `writeany` and `autowrite` off.  For EVERY
    result `ecEdit (f+1) ed cmd arg = some (rc, ed')` — whatever the command word, with or without `!`,
    whether the command succeeded, was refused or failed — and every slot `i ≥ 1` holding a buffer `b`
    with unsaved changes: some slot `k` of `ed'` holds a buffer with the same id, path and text, still
    modified.  `:e` never makes a modified non-current buffer disappear or change. -/
theorem ecEdit_keeps_modified_buffers_noplus (f : Nat) (ed ed' : Ed) (cmd arg : Bytes) (rc : Int)
    (hwa : ed.xwa = 0) (haw : ed.xaw = 0) (hplus : (arg.dropWhile (· == 32)).headD 0 ≠ 43)
    (h : ecEdit (f + 1) ed cmd arg = some (rc, ed'))
    (i : Nat) (b : Buf) (hi : 1 ≤ i) (hb : ed.bufs.getD i none = some b) (hd : (modified b.lb).1 = true) :
    ∃ k b', ed'.bufs.getD k none = some b' ∧ b'.id = b.id ∧ b'.path = b.path ∧ b'.lb.lines = b.lb.lines ∧
      (modified b'.lb).1 = true := by
  obtain ⟨edm, ⟨k, b', h1, h2, h3, h4, h5⟩, hor⟩ :=
    ecEdit_keeps_modified_buffers_upto_plus f ed ed' cmd arg rc hwa haw h i b hi hb hd
  have hed : ed' = edm := by
    rcases hor with hor | ⟨h43, _⟩
    · exact hor
    · rw [plusSplit_noplus arg hplus] at h43
      exact absurd h43 (by decide)
  subst hed
  exact ⟨k, b', h1, h2, h3, h4, by rw [h5, hd]⟩

/-- the same through the dispatcher: `:e`, `:e!`, `:ew`, … as `ex_exec` runs them -/
theorem e_keeps_modified_buffers_noplus (f : Nat) (ed ed' : Ed) (loc cmd arg : Bytes) (txt : Option Bytes) (rc : Int)
    (hwa : ed.xwa = 0) (haw : ed.xaw = 0) (hplus : (arg.dropWhile (· == 32)).headD 0 ≠ 43)
    (h : runCmd (f + 2) ed "ec_edit" loc cmd arg txt = some (rc, ed'))
    (i : Nat) (b : Buf) (hi : 1 ≤ i) (hb : ed.bufs.getD i none = some b) (hd : (modified b.lb).1 = true) :
    ∃ k b', ed'.bufs.getD k none = some b' ∧ b'.id = b.id ∧ b'.path = b.path ∧ b'.lb.lines = b.lb.lines ∧
      (modified b'.lb).1 = true := by
  rw [runCmd_edit] at h
  exact ecEdit_keeps_modified_buffers_noplus f ed ed' cmd arg rc hwa haw hplus h i b hi hb hd

/- OPEN PART, and why it stays open.  The full statement

     theorem ecEdit_keeps_modified_buffers (f ed ed' cmd arg rc) (hwa : ed.xwa = 0) (haw : ed.xaw = 0)
       (h : ecEdit (f + 1) ed cmd arg = some (rc, ed')) (i b) (hi : 1 ≤ i)
       (hb : ed.bufs.getD i none = some b) (hd : (modified b.lb).1 = true) :
       ∃ k b', ed'.bufs.getD k none = some b' ∧ b'.id = b.id ∧ b'.path = b.path ∧
         b'.lb.lines = b.lb.lines ∧ (modified b'.lb).1 = true

   is FALSE in the model (and in the C code): the `+cmd` of `:e +cmd path` is an arbitrary command
   line handed to `ex_command`, and `:b !` (`bufs_shift`) drops the current buffer without any guard, and
   `:b ~` renumbers the ids.  `plus_cmd_may_drop` below is the counterexample and
   `ecEdit_keeps_modified_buffers_full_is_false` the refutation.  What holds for the `+cmd`
   forms is `ecEdit_keeps_modified_buffers_upto_plus`: `ec_edit` itself loses nothing; what happens
   afterwards is the business of the command given after `+`. -/

/-! ### the current buffer -/

/-- the current buffer: without `!` (and `writeany`, `autowrite` off) a modified current buffer makes
    `:e` return 1 at the first guard; the state differs from the initial one only by the bumped counter
    of slot 0 and the message "buffer modified" (this is `C02.Ex.edit_refused_when_dirty`); with `!`
    the user asked for the changes to be discarded -/
theorem ecEdit_refuses_modified_current (f : Nat) (ed : Ed) (cmd arg : Bytes) (b : Buf)
    (hb : ed.bufs.getD 0 none = some b) (hd : (modified b.lb).1 = true)
    (haw : ed.xaw = 0) (hwa : ed.xwa = 0) (hbang : hasBang cmd = false) :
    ecEdit (f + 1) ed cmd arg = some (1, (bumpAt ed 0 b).show (strOf "buffer modified")) ∧
    SlotsKept ed ((bumpAt ed 0 b).show (strOf "buffer modified")) ∧
    ((bumpAt ed 0 b).show (strOf "buffer modified")).files = ed.files :=
  ⟨C02.Ex.edit_refused_when_dirty f ed cmd arg b hb hd haw hwa hbang,
    slotsKept_of_sameTable ((sameTable_bumpAt ed 0 b hb).trans (sameTable_show _ _)), rfl⟩

/-- altogether, without `!` and without `+cmd`: EVERY modified buffer of the table — the current one
    included — is still in the table after `:e`, whatever its result -/
theorem ecEdit_keeps_all_modified_buffers_nobang_noplus (f : Nat) (ed ed' : Ed) (cmd arg : Bytes) (rc : Int)
    (hwa : ed.xwa = 0) (haw : ed.xaw = 0) (hbang : hasBang cmd = false)
    (hplus : (arg.dropWhile (· == 32)).headD 0 ≠ 43)
    (h : ecEdit (f + 1) ed cmd arg = some (rc, ed'))
    (i : Nat) (b : Buf) (hb : ed.bufs.getD i none = some b) (hd : (modified b.lb).1 = true) :
    ∃ k b', ed'.bufs.getD k none = some b' ∧ b'.id = b.id ∧ b'.path = b.path ∧ b'.lb.lines = b.lb.lines ∧
      (modified b'.lb).1 = true := by
  cases i with
  | succ j => exact ecEdit_keeps_modified_buffers_noplus f ed ed' cmd arg rc hwa haw hplus h (j + 1) b (by omega) hb hd
  | zero =>
    obtain ⟨he, hk, _⟩ := ecEdit_refuses_modified_current f ed cmd arg b hb hd haw hwa hbang
    rw [he] at h
    cases h
    obtain ⟨b', h1, h2, h3, h4, h5⟩ := (hk.2 0).2 b hb
    exact ⟨0, b', h1, h3, h2, h4, by rw [h5, hd]⟩

/-! ## F4: non-vacuity

The mutual block of `ecEdit` is compiled by well-founded recursion; `ecEdit_stages` turns a call into
its (kernel-evaluable) stages first. -/

/-- buffer number `i`: path the letter `a + i`, one line of text, id `i + 1`; `dirty`: `lbuf_unsaved` -/
def mkBuf (i : Nat) (dirty : Bool) : Buf :=
  { path := [97 + i], lb := if dirty then unsavedMark { lines := [[120, 10]] } else { lines := [[120, 10]] },
    id := i + 1 }

/-- sixteen named buffers `a` … `p`, all slots in use; the last one (`p`) modified or not -/
def ed16 (lastDirty : Bool) : Ed :=
  { bufs := (List.range 16).map (fun i => some (mkBuf i (i == 15 && lastDirty))), bufsCnt := 16 }

/-- what the examples observe of a result: return code and message; (path, id, dirty) slot by slot; the
    text slot by slot -/
def exRc (r : Int × Ed) : Int × Bytes := (r.1, r.2.msg)
def exTab (r : Int × Ed) : List (Option (Bytes × Int × Bool)) :=
  r.2.bufs.map (·.map (fun b => (b.path, b.id, (modified b.lb).1)))
def exTexts (r : Int × Ed) : List (Option (List Bytes)) := r.2.bufs.map (·.map (fun b => b.lb.lines))

-- the table is full: `bufs_findroom()` answers the last slot, which holds the modified `p`; no buffer `z`
example : (ed16 true).findRoom = 15 ∧
    ((ed16 true).bufs.getD 15 none).map (fun b => (b.path, (modified b.lb).1)) = some ([112], true) ∧
    (ed16 true).bufsFind [122] = -1 := by decide +kernel

-- `:e z` with the last buffer modified: return code 1, "last buffer modified", all 16 buffers as they were
example :
    (ecEdit 5 (ed16 true) (strOf "e") (strOf "z")).map exRc = some (1, strOf "last buffer modified\n") ∧
    (ecEdit 5 (ed16 true) (strOf "e") (strOf "z")).map exTab =
      some ((List.range 16).map (fun i => some ([97 + i], Int.ofNat (i + 1), i == 15))) ∧
    (ecEdit 5 (ed16 true) (strOf "e") (strOf "z")).map exTexts = some (List.replicate 16 (some [[120, 10]])) := by
  rw [ecEdit_stages]; decide +kernel

-- the same through the dispatcher
example : (runCmd 6 (ed16 true) "ec_edit" [] (strOf "e") (strOf "z") none).map
    (fun r => (r.1, r.2.msg, (r.2.bufs.getD 15 none).map (fun b => (b.path, (modified b.lb).1)))) =
    some (1, strOf "last buffer modified\n", some ([112], true)) := by
  rw [runCmd_edit, ecEdit_stages]; decide +kernel

-- `:e! z` does not override the second guard: `!` is about the current buffer
example : (ecEdit 5 (ed16 true) (strOf "e!") (strOf "z")).map (fun r => (r.1, r.2.msg)) =
    some (1, strOf "last buffer modified\n") := by rw [ecEdit_stages]; decide +kernel

-- with `writeany` the user has asked not to be asked: the last buffer goes
example : (ecEdit 5 { ed16 true with xwa := 1 } (strOf "e") (strOf "z")).map
    (fun r => (r.1, r.2.bufs.map (·.map (·.path)))) =
    some (0, some [122] :: (List.range 15).map (fun i => some [97 + i])) := by
  rw [ecEdit_stages]; decide +kernel

-- the last buffer unmodified: `:e z` succeeds, the new buffer `z` (id 17) is current, `a` … `o` are
-- shifted down by one, `p` — which sat in the last slot — has been replaced
example :
    (ecEdit 5 (ed16 false) (strOf "e") (strOf "z")).map exRc = some (0, []) ∧
    (ecEdit 5 (ed16 false) (strOf "e") (strOf "z")).map exTab =
      some (some ([122], 17, false) :: (List.range 15).map (fun i => some ([97 + i], Int.ofNat (i + 1), false))) ∧
    (ecEdit 5 (ed16 false) (strOf "e") (strOf "z")).map exTexts =
      some (some [] :: List.replicate 15 (some [[120, 10]])) := by
  rw [ecEdit_stages]; decide +kernel

-- the hypotheses of F2 (`ecEdit_refuses_to_drop_modified`) all hold for `:e z` (`e` = 101, `z` = 122)
-- in `ed16 true`
example : ∃ ed1 ed2 path b,
    (ed16 true).xwa = 0 ∧ (ed16 true).xaw = 0 ∧
    C20.editGuard (ed16 true) [101] = some (false, ed1) ∧
    pathExpand ed1 (plusSplit [122]).2 false = some (some path, ed2) ∧
    path ≠ [] ∧ (ed16 true).bufsFind path < 0 ∧
    (ed16 true).bufs.getD (ed16 true).findRoom none = some b ∧ (modified b.lb).1 = true :=
  ⟨bumpAt (ed16 true) 0 (mkBuf 0 false), bumpAt (ed16 true) 0 (mkBuf 0 false), [122], mkBuf 15 true,
    rfl, rfl, rfl, rfl, by decide, by decide +kernel, rfl, by decide +kernel⟩

-- ... and its conclusion, instantiated
example : ∃ ed' b', ecEdit 5 (ed16 true) [101] [122] = some (1, ed') ∧
    ed'.bufs.getD 15 none = some b' ∧ b'.lb.lines = [[120, 10]] ∧ b'.path = [112] ∧ b'.id = 16 ∧
    (modified b'.lb).1 = true ∧ SlotsKept (ed16 true) ed' ∧ ed'.files = [] := by
  obtain ⟨ed', b', h1, h2, h3, h4, h5, h6, h7, h8, _⟩ :=
    ecEdit_refuses_to_drop_modified 4 (ed16 true) (bumpAt (ed16 true) 0 (mkBuf 0 false))
      (bumpAt (ed16 true) 0 (mkBuf 0 false)) [101] [122] [122] (mkBuf 15 true)
      rfl rfl rfl rfl (by decide) (by decide +kernel) rfl (by decide +kernel)
  exact ⟨ed', b', h1, h2, h3, h4, h5, h6, h7, h8⟩

/-- three buffers, the second one (`b`, not current) modified -/
def ed3 : Ed :=
  { bufs := [some (mkBuf 0 false), some (mkBuf 1 true), some (mkBuf 2 false)] ++ List.replicate 13 none,
    bufsCnt := 3 }

-- F3 at work where something does happen: `:e! c` (a switch) and `:e z` (a new buffer) keep the modified `b`
example : (ecEdit 5 ed3 (strOf "e!") (strOf "c")).map
    (fun r => (r.1, (r.2.bufs.take 4).map (·.map (fun b => (b.path, (modified b.lb).1))))) =
    some (0, [some ([99], false), some ([97], false), some ([98], true), none]) := by
  rw [ecEdit_stages]; decide +kernel
example : (ecEdit 5 ed3 (strOf "e") (strOf "z")).map
    (fun r => (r.1, (r.2.bufs.take 5).map (·.map (fun b => (b.path, (modified b.lb).1))))) =
    some (0, [some ([122], false), some ([97], false), some ([98], true), some ([99], false), none]) := by
  rw [ecEdit_stages]; decide +kernel

/-- **why F3 stops at the `+cmd`**: `:e +b\ !\|b\ !\|b\ ! z` opens `z` and then runs `:b !` three times;
    `bufs_shift` drops `z`, `a` and the modified `b` without asking.  `writeany` and `autowrite` are off,
    `b` sits in slot 1 ≥ 1 with unsaved changes, the command returns 0, and the only buffer left is `c`:
    the conclusion of F3 fails for the final state (it holds for the state handed to the `+cmd`,
    `ecEdit_keeps_modified_buffers_upto_plus`). -/
theorem plus_cmd_may_drop :
    ed3.xwa = 0 ∧ ed3.xaw = 0 ∧
    (ed3.bufs.getD 1 none).map (fun b => (b.path, (modified b.lb).1)) = some ([98], true) ∧
    (ecEdit 8 ed3 (strOf "e") (strOf "+b\\ !\\|b\\ !\\|b\\ ! z")).map
      (fun r => (r.1, r.2.bufs.map (·.map (·.path)))) =
      some (0, some [99] :: List.replicate 15 none) := by
  refine ⟨rfl, rfl, by decide +kernel, ?_⟩
  have hps : (plusSplit (strOf "+b\\ !\\|b\\ !\\|b\\ ! z")).1 = 43 :: bang3 := by decide +kernel
  rw [ecEdit_stages, hps]
  simp only [editPlus, List.headD_cons, List.drop_succ_cons, List.drop_zero, beq_self_eq_true, if_true,
    exCommand_bang3]
  decide +kernel

/-- the full statement of F3 — for every argument, `+cmd` included — does not hold -/
theorem ecEdit_keeps_modified_buffers_full_is_false :
    ¬ (∀ (f : Nat) (ed ed' : Ed) (cmd arg : Bytes) (rc : Int), ed.xwa = 0 → ed.xaw = 0 →
        ecEdit (f + 1) ed cmd arg = some (rc, ed') →
        ∀ (i : Nat) (b : Buf), 1 ≤ i → ed.bufs.getD i none = some b → (modified b.lb).1 = true →
          ∃ k b', ed'.bufs.getD k none = some b' ∧ b'.id = b.id ∧ b'.path = b.path ∧
            b'.lb.lines = b.lb.lines ∧ (modified b'.lb).1 = true) := by
  intro H
  obtain ⟨_, _, _, hres⟩ := plus_cmd_may_drop
  cases hr : ecEdit 8 ed3 (strOf "e") (strOf "+b\\ !\\|b\\ !\\|b\\ ! z") with
  | none => rw [hr] at hres; cases hres
  | some r =>
    obtain ⟨rc, ed'⟩ := r
    rw [hr] at hres
    simp only [Option.map_some, Option.some.injEq, Prod.mk.injEq] at hres
    obtain ⟨k, b', hb', _, hp, _, _⟩ := H 7 ed3 ed' _ _ rc rfl rfl hr 1 (mkBuf 1 true) (by omega) rfl (by decide)
    have hm : some b' ∈ ed'.bufs := (C20.mem_of_getD _ _ _ hb').1
    have hm2 : some [98] ∈ ed'.bufs.map (·.map (·.path)) :=
      List.mem_map.2 ⟨some b', hm, by simp [hp, mkBuf]⟩
    rw [hres.2] at hm2
    exact absurd hm2 (by decide)

end Neatvi.Props.C02c
