import NeatviVerif.Lemmas.C16cLed
/-!
# C16c: edits keep the text valid UTF-8 — the roll-up over the editing commands

`Props/C16.lean` proves the helpers of `uc.c` against the reference encoder, `Props/C16b.lean` that `:s` keeps a
line valid.  Here: **every line of every buffer, every register, the undo history and the files stay valid
UTF-8** (`IsU8`, the predicate of C16b; decidable: `isU8_iff_check`) under the editing commands.

Vocabulary (`Lemmas/C16cLbuf`, `C16cEd`, `C16cVi`):
* `BufValid lb` — every line of the buffer is valid UTF-8; `LinesNl lb` — every line ends with its newline;
  `HistValid lb` — every text of the undo history is valid; `LbOk lb` — the three together;
* `RegsValid r` — every register holds valid UTF-8;
* `EdOk ed` — the state of `ex.c`: all buffers `LbOk` with valid path names, `RegsValid`, and valid input lines,
  shell-oracle outputs and files; no system-call fault scheduled (a failed `write` leaves a truncated file);
* `VsOk s` — the state of `vi.c`: `EdOk s.ed`.

**(a) ex** — through `exCommand`: `exCommand_valid` for every command line the decidable check `okLine d` accepts
(the line is split as `ex_exec` splits it and every command passes `okH`): all of `a i c d y pu k r rs s g v u redo
e w q wq x ! = p b se ec` and unknown commands, with `g`/`v` nested `d` deep.  Excluded (`okH`): `@`/`ra`
(run a register as commands), `e +cmd`, `s` with an empty or invalid pattern.  neatvi's ex has no `m`, `co`/`t`,
`j`, `>`, `<` commands.  Per command: `ex_*_valid` (dispatcher level).  `pu` from every register, also the
computed ones `; # ^` (`all_registers_valid`); `pu ;` used to cut the line at 1023 bytes, possibly inside a
character — a defect found by this module, repaired in c41ab90 (`pu_semicolon_whole`).

**(b) vi** — operator level, for *all* arguments: `vi_yank_valid vi_delete_valid vi_case_valid vi_shift_valid
vc_join_valid vc_put_valid` unconditionally; `vc_replace_valid`, `vi_change_valid`, `vc_insert_valid` given that
the typed character / text is valid (`TypedTextValid`).  **Key level, every valid key stream without `^V`**
(`KeysOk`: backspace, `^U ^W ^T ^D`, `^P`, `^R` + any register, `^K` + any two characters, `^F ^E` keymaps,
multi-byte characters, newlines …): `led_line_keys_valid`, `vi_input_keys_valid`, `typed_keys_valid_text`,
`vc_insert_keys_valid` (`i a I A o O`), `vi_change_keys_valid`, `vc_replace_keys_valid`; the special case of
typed lines of printable characters: `typed_lines_valid_text`, `vc_insert_lines_valid`, `vi_change_lines_valid`,
`vc_replace_typed_valid`.  `vc_motion_valid`: any operator with any motion, given that reading the count and the
motion leaves the state valid.  From the end-to-end
specifications of C08f (text and registers only): `row_delete_valid`, `line_delete_valid`, `x_valid`, `dw_valid`,
`dd_valid`, `yy_valid`.  `u`/`^R`: `vi_undo_valid`; `:` from vi: `ex_from_vi_valid`.
Not at all: `!` filters (not modelled), the searches `/ ?` (the typed pattern goes to a register), `.` and `@`
(they replay keys).  `^K` and `^R` used to read their arguments byte by byte and so put a lone continuation
byte into the line (`i^K中`, `i^Ré`): defects found by this module, repaired in 90b14db (`led_readkey`); the old
witnesses are now the examples `digraph_key_whole_char`, `register_key_whole_char`.

**(c)** `cut_valid_iff`, `cut_inside_invalid`, `cut_codepoints`, `cut_example`.

`:s` goes through `Lemmas/C16cSubst.lean` only (`ex_subst_valid`, and the `ec_substitute` case of
`ex_dispatch_valid` / `exCommand_valid`).
-/
set_option linter.unusedSimpArgs false
set_option linter.unusedVariables false

namespace Neatvi.Props.C16c
open Neatvi Neatvi.Uc Neatvi.Spec Neatvi.Lbuf Neatvi.LbufIo Neatvi.Ex Neatvi.Vi Neatvi.Props.C11b Neatvi.Props.C16b
open Neatvi.Lemmas.C16c

export Neatvi.Lemmas.C16c (BufValid LinesNl HistValid LbOk OptValid RegsValid EdOk VsOk okH okLine okCmds substOk
  TypedTextValid KeysOk u8chk)

/-! ## 0. the running example -/

/-- two buffers: `aé` / `中b` (with an undo record) and an empty one; a register holding `é`; a file; an input line -/
def exLb : Lb := { lines := [[0x61, 0xc3, 0xa9, 10], [0xe4, 0xb8, 0xad, 0x62, 10]],
                   hist := [⟨0, 1, 0, some [0xc3, 0xa9, 10], none, 1, 0, none⟩], histU := 1 }
def exEd : Ed :=
  { bufs := [some { path := [0x61, 0xc3, 0xa9], lb := exLb }, some { path := [], lb := Lbuf.make }],
    regs := ({} : Regs).put 97 [0xc3, 0xa9] 0,
    files := [⟨[102], [0xe4, 0xb8, 0xad, 10], 1⟩], input := [[0xc3, 0xa9]] }
def exVs (keys : Bytes) : VS := { ed := exEd, typed := keys }
/-- the lines of the current buffer after an ex command -/
def linesOf (r : R Int) : List Bytes := match r with | some (_, ed) => (ed.lb.map (·.lines)).getD [] | none => []
/-- the lines after a vi command -/
def linesAfter {α : Type} (r : Res α) : List Bytes := match r with | Res.ok _ s => Vi.lines s | _ => []
/-- is the state a vi command returns valid? -/
def okAfter {α : Type} (r : Res α) : Bool := match r with | Res.ok _ s => decide (VsOk s) | _ => false

theorem exEd_ok : EdOk exEd := by decide +kernel
theorem exVs_ok (keys : Bytes) : VsOk (exVs keys) := exEd_ok

/-! ## 1. valid UTF-8: the check, lines, character offsets, the case loop -/

/-- `IsU8` is decidable: a byte string is valid iff the reference decoder yields code points U+0001..U+10FFFF
whose encoding gives the string back (the check of the test harness) -/
theorem isU8_iff_check (s : Bytes) : u8chk s = true ↔ IsU8 s := u8chk_iff s

/-- a valid text cut at an ASCII byte (a newline, a blank, a delimiter): both sides are valid -/
theorem cut_at_ascii {a b : Bytes} {c : Nat} (h : IsU8 (a ++ c :: b)) (hc : c < 128) : IsU8 a ∧ IsU8 b :=
  isU8_split_ascii h hc

/-- the lines `lbuf_replace` cuts out of a valid text are valid -/
theorem splitLines_keeps_valid {s : Bytes} (h : IsU8 s) : ∀ l ∈ splitLines s, IsU8 l := splitLines_valid h

/-- `uc_chr` points at a character boundary of a valid line — for every offset -/
theorem uc_chr_boundary {s : Bytes} (h : IsU8 s) {off : Int} {i : Nat} (hc : chrI s off = some i) : IsBd s i := chrI_isBd h hc

/-- `uc_sub` of a valid line is valid — for all offsets (also reversed or out of range) -/
theorem uc_sub_valid {s : Bytes} (h : IsU8 s) {b e : Int} {x : Bytes} (hs : subI s b e = some x) : IsU8 x := subI_valid h hs

/-- the case loop of `~ gu gU g~` on valid text: only ASCII letters change, the result is valid -/
theorem case_loop_valid (cmd : Nat) {x : Bytes} (h : IsU8 x) : IsU8 (caseMap cmd (x.length + 1) x) := caseMap_valid cmd h

/-- `~` on `aéZ`: `AÉz`?  No: `Aéz` — the non-ASCII letter is left alone (its bytes are copied) -/
example : caseMap 126 5 [0x61, 0xc3, 0xa9, 0x5a] = [0x41, 0xc3, 0xa9, 0x7a] := by decide

/-! ## 2. `lbuf.c` -/

/-- `lbuf_replace` with a valid text (or NULL) -/
theorem lbuf_replace_valid {lb lb' : Lb} {s : Option Bytes} {pos nDel : Nat} (h : LbOk lb) (hs : OptValid s)
    (hr : replace lb s pos nDel = some lb') : LbOk lb' := replace_ok h hs hr

/-- `lbuf_edit` with a valid text: lines and the new undo record are valid -/
theorem lbuf_edit_valid {lb lb' : Lb} {buf : Option Bytes} {b e : Nat} (h : LbOk lb) (hb : OptValid buf)
    (hr : Lbuf.edit lb buf b e = some lb') : LbOk lb' := edit_ok h hb hr

/-- `lbuf_undo` puts back valid lines (the history holds only valid text) -/
theorem lbuf_undo_valid {lb lb' : Lb} {rc : Nat} (h : LbOk lb) (hr : Lbuf.undo lb = some (rc, lb')) : LbOk lb' := undo_ok h hr

/-- `lbuf_redo` -/
theorem lbuf_redo_valid {lb lb' : Lb} {rc : Nat} (h : LbOk lb) (hr : Lbuf.redo lb = some (rc, lb')) : LbOk lb' := redo_ok h hr

/-- `lbuf_rd` of a valid file, whatever way the kernel chunks the reads -/
theorem lbuf_rd_valid {lb lb' : Lb} {chunks : List Bytes} {finErr : Bool} {b e rc : Nat} (h : LbOk lb)
    (hc : IsU8 chunks.flatten) (hr : LbufIo.rd lb chunks finErr b e = some (rc, lb')) : LbOk lb' := rd_ok h hc hr

example : LbOk exLb := by decide +kernel
example : (Lbuf.undo exLb).isSome = true ∧ OptValid (some [0xe4, 0xb8, 0xad, 10]) := by decide +kernel

/-! ## 3. ex -/

/-- **the dispatcher** on one parsed command that `okH` accepts, with a valid text argument — every fuel -/
theorem ex_dispatch_valid {f d : Nat} {ed ed' : Ed} {hd : String} {loc cmd arg : Bytes} {txt : Option Bytes} {r : Int}
    (hok : okH (okLine d) hd arg = true) (htxt : OptValid txt) (hi : EdOk ed)
    (h : runCmd f ed hd loc cmd arg txt = some (r, ed')) : EdOk ed' := runCmd_ok hok htxt hi h

/-- `:d` — the lines go to the register, the rest stays -/
theorem ex_delete_valid {f : Nat} {ed ed' : Ed} {loc cmd arg : Bytes} {r : Int} (hi : EdOk ed)
    (h : runCmd f ed "ec_delete" loc cmd arg none = some (r, ed')) : EdOk ed' :=
  runCmd_ok (d := 0) (by rfl) optValid_none hi h

/-- a run: `:d` on the example state deletes `aé` (the dispatcher returns, so the theorem applies) -/
example : linesOf (runCmd 1 exEd "ec_delete" [] [100] [] none) = [[0xe4, 0xb8, 0xad, 0x62, 10]] := by
  rw [runCmd]
  simp (config := {decide := true}) only []

/-- `:y` -/
theorem ex_yank_valid {f : Nat} {ed ed' : Ed} {loc cmd arg : Bytes} {r : Int} (hi : EdOk ed)
    (h : runCmd f ed "ec_yank" loc cmd arg none = some (r, ed')) : EdOk ed' :=
  runCmd_ok (d := 0) (by rfl) optValid_none hi h

/-- `:pu` from any register: a stored one, the current line `;`, the numbers `#` `^` -/
theorem ex_put_valid {f : Nat} {ed ed' : Ed} {loc cmd arg : Bytes} {r : Int}
    (hi : EdOk ed) (h : runCmd f ed "ec_put" loc cmd arg none = some (r, ed')) : EdOk ed' :=
  runCmd_ok (d := 0) (by rfl) optValid_none hi h

/-- `:a`, `:i`, `:c` with a valid typed text -/
theorem ex_insert_valid {f : Nat} {ed ed' : Ed} {loc cmd arg : Bytes} {txt : Option Bytes} {r : Int} (htxt : OptValid txt)
    (hi : EdOk ed) (h : runCmd f ed "ec_insert" loc cmd arg txt = some (r, ed')) : EdOk ed' :=
  runCmd_ok (d := 0) (by rfl) htxt hi h

/-- `:r file` and `:r !cmd` with a valid argument: the files and the outputs of the shell oracle are valid -/
theorem ex_read_valid {f : Nat} {ed ed' : Ed} {loc cmd arg : Bytes} {r : Int} (harg : IsU8 arg)
    (hi : EdOk ed) (h : runCmd f ed "ec_read" loc cmd arg none = some (r, ed')) : EdOk ed' :=
  runCmd_ok (d := 0) (show okH _ "ec_read" arg = true from (u8chk_iff arg).mpr harg) optValid_none hi h

/-- `:u` -/
theorem ex_undo_valid {f : Nat} {ed ed' : Ed} {loc cmd arg : Bytes} {r : Int} (hi : EdOk ed)
    (h : runCmd f ed "ec_undo" loc cmd arg none = some (r, ed')) : EdOk ed' :=
  runCmd_ok (d := 0) (by rfl) optValid_none hi h

/-- `:redo` -/
theorem ex_redo_valid {f : Nat} {ed ed' : Ed} {loc cmd arg : Bytes} {r : Int} (hi : EdOk ed)
    (h : runCmd f ed "ec_redo" loc cmd arg none = some (r, ed')) : EdOk ed' :=
  runCmd_ok (d := 0) (by rfl) optValid_none hi h

/-- `:g` / `:v` with a command list that `okLine d` accepts -/
theorem ex_glob_valid {f d : Nat} {ed ed' : Ed} {loc cmd arg : Bytes} {r : Int} (hbody : okLine d (reRead arg).2 = true)
    (hi : EdOk ed) (h : runCmd f ed "ec_glob" loc cmd arg none = some (r, ed')) : EdOk ed' :=
  runCmd_ok (d := d) (show okH _ "ec_glob" arg = true from hbody) optValid_none hi h

/-- `:s` with a non-empty valid pattern and a valid replacement (`substOk`) — via `C16b.subst_keeps_valid_ed` -/
theorem ex_subst_valid {f : Nat} {ed ed' : Ed} {loc cmd arg : Bytes} {r : Int} (hs : substOk arg = true)
    (hi : EdOk ed) (h : runCmd f ed "ec_substitute" loc cmd arg none = some (r, ed')) : EdOk ed' :=
  runCmd_ok (d := 0) (show okH _ "ec_substitute" arg = true from hs) optValid_none hi h

/-- `:w` with a valid file name: the file written holds the (valid) lines -/
theorem ex_write_valid {f : Nat} {ed ed' : Ed} {loc cmd arg : Bytes} {r : Int} (harg : IsU8 arg)
    (hi : EdOk ed) (h : runCmd f ed "ec_write" loc cmd arg none = some (r, ed')) : EdOk ed' :=
  runCmd_ok (d := 0) (show okH _ "ec_write" arg = true from (u8chk_iff arg).mpr harg) optValid_none hi h

/-- `:!cmd` on a range: the closed shell of the harness (and every oracle entry) maps valid text to valid text -/
theorem ex_filter_valid {f : Nat} {ed ed' : Ed} {loc cmd arg : Bytes} {r : Int} (harg : IsU8 arg)
    (hi : EdOk ed) (h : runCmd f ed "ec_exec" loc cmd arg none = some (r, ed')) : EdOk ed' :=
  runCmd_ok (d := 0) (show okH _ "ec_exec" arg = true from (u8chk_iff arg).mpr harg) optValid_none hi h

/-- **`ex_command`**: a command line `okLine d` accepts, run on a valid state, leaves a valid state —
all buffers, registers, files, the undo history — for every fuel -/
theorem exCommand_valid {f d : Nat} {ed ed' : Ed} {ln : Bytes} {r : Int} (hq : okLine d ln = true) (hi : EdOk ed)
    (h : exCommand f ed ln = some (r, ed')) : EdOk ed' := exCommand_ok hq hi h

/-- one round of the `ex()` loop -/
theorem exStep_valid {d : Nat} {ed ed' : Ed} {r : Int} (hi : EdOk ed)
    (hq : ∀ ln rest, ed.input = ln :: rest → okLine d ln = true) (h : exStep ed = some (r, ed')) : EdOk ed' :=
  exStep_ok hi hq h

/-- what `okLine` accepts: `g/é/d`, `1,2d|pu`, `s/é/中/g`, `g/a/s/b/é/|d`, nested `g`, `w é.txt`, `r !cat`,
`rs a` with inline text, `u|redo|ya|d x|1k a`, `pu ;` … -/
example : okLine 1 [112, 117, 32, 59] = true := by decide +kernel
example : okLine 1 [103, 47, 0xc3, 0xa9, 47, 100] = true := by decide +kernel
example : okLine 0 [49, 44, 50, 100, 124, 112, 117] = true := by decide +kernel
example : okLine 0 [115, 47, 0xc3, 0xa9, 47, 0xe4, 0xb8, 0xad, 47, 103] = true := by decide +kernel
example : okLine 2 [103, 47, 97, 47, 103, 47, 98, 47, 100] = true := by decide +kernel
example : okLine 0 [119, 32, 0xc3, 0xa9, 46, 116, 120, 116] = true := by decide +kernel
/-- … and what it refuses: `@a`, `e +3 foo`, `g` deeper than `d`, and a `:s` whose delimiter is a lead byte (a
delimiter of 0x80 and above never closes the pattern, so the pattern is the rest of the line, starting with the
continuation byte of the delimiter's character) -/
example : okLine 1 [64, 97] = false := by decide +kernel
example : okLine 0 [103, 47, 97, 47, 100] = false := by decide +kernel
example : okLine 1 [0x73, 0xc3, 0xa9, 0x2a, 0xc3, 0xa9, 0x79] = false := by decide +kernel
/-- `re_read` with the delimiter `C3` (the lead byte of `é`), on `é*éy`: as in the C code (`delim` is read as
`unsigned char`, the bytes compared with it as `char`) the second `C3` does not close the pattern — the pattern
is everything after the first byte.  (The model used to stop there: a disagreement with the C code found by this
module; the model was corrected.) -/
theorem reRead_lead_byte_delimiter :
    reRead [0xc3, 0xa9, 0x2a, 0xc3, 0xa9, 0x79] = (some [0xa9, 0x2a, 0xc3, 0xa9, 0x79], []) := by decide +kernel

/-! ### the computed register `;` -/

/-- **whatever `reg_get` hands out is valid UTF-8**: the stored registers, the current line `;` (whole, whatever its
length), the numbers `#` and `^` -/
theorem all_registers_valid {ed : Ed} (h : EdOk ed) (c : Nat) : OptValid (regGet ed c) := regGet_valid h c

/-- the register `;` (the current line without its newline) is valid, whatever the length of the line -/
theorem line_register_valid {ed : Ed} (h : EdOk ed) : OptValid (regGet ed 59) := regGet_line_valid h

/-- a line of 1022 `a`, `é`, `b` -/
def longLine : Bytes := List.replicate 1022 97 ++ [0xc3, 0xa9, 98, 10]
def edLong : Ed := { bufs := [some { path := [], lb := { lines := [longLine] } }] }

theorem edLong_ok : EdOk edLong := by decide +kernel

set_option maxRecDepth 100000 in
/-- **`:pu ;` on a long line puts the whole line.**  `reg_get(';')` used to copy the line through a buffer of 1024
bytes: on this line the cut fell inside `é` and `:pu ;` wrote `… a a C3` — invalid UTF-8, in the model and in the
real editor (a defect found by this module: `pu_semicolon_invalid`, `ex_put_any_register_is_false` in its first
version; repaired in c41ab90).  Now the second line is the first. -/
theorem pu_semicolon_whole :
    linesOf (runCmd 1 edLong "ec_put" [] [112, 117] [59] none) = [longLine, longLine] ∧ IsU8 longLine := by
  refine ⟨?_, by decide +kernel⟩
  rw [runCmd]
  simp (config := {decide := true}) only [if_false, if_true]

/-! ## 4. vi -/

/-- `vi_yank` on any region -/
theorem vi_yank_valid (r1 o1 r2 o2 : Int) (ln : Bool) (s s' : VS) (a : Nat) (hs : VsOk s)
    (h : viYank r1 o1 r2 o2 ln s = Res.ok a s') : VsOk s' := pres_viYank r1 o1 r2 o2 ln s a s' hs h

/-- `vi_delete` on any region, line-wise or character-wise -/
theorem vi_delete_valid (r1 o1 r2 o2 : Int) (ln : Bool) (s s' : VS) (a : Nat) (hs : VsOk s)
    (h : viDelete r1 o1 r2 o2 ln s = Res.ok a s') : VsOk s' := pres_viDelete r1 o1 r2 o2 ln s a s' hs h

/-- `vi_case` (`~ gu gU g~`) on any region -/
theorem vi_case_valid (r1 o1 r2 o2 : Int) (ln : Bool) (cmd : Nat) (s s' : VS) (a : Nat) (hs : VsOk s)
    (h : viCase r1 o1 r2 o2 ln cmd s = Res.ok a s') : VsOk s' := pres_viCase r1 o1 r2 o2 ln cmd s a s' hs h

/-- `vi_shift` (`>` `<`) on any rows -/
theorem vi_shift_valid (r1 r2 dir : Int) (s s' : VS) (a : Nat) (hs : VsOk s)
    (h : viShift r1 r2 dir s = Res.ok a s') : VsOk s' := pres_viShift r1 r2 dir s a s' hs h

/-- `vc_join` (`J`, any count): the blanks dropped and put in are ASCII, the newline cut is ASCII -/
theorem vc_join_valid (s s' : VS) (a : Nat) (hs : VsOk s) (h : vcJoin s = Res.ok a s') : VsOk s' := pres_vcJoin s a s' hs h

/-- `vc_put` (`p P`, any count, line-wise and character-wise) from any register, also `"; "# "^` -/
theorem vc_put_valid (cmd : Nat) (s s' : VS) (a : Nat) (hs : VsOk s)
    (h : vcPut cmd s = Res.ok a s') : VsOk s' := vcPut_ok cmd s s' a hs h

/-- `vc_replace` (`r`, any count) when the character read is valid -/
theorem vc_replace_valid (s s' : VS) (a : Nat) (hs : VsOk s) (hchar : ∀ cs s1, viChar s = Res.ok (some cs) s1 → IsU8 cs)
    (h : vcReplace s = Res.ok a s') : VsOk s' := vcReplace_ok s s' a hs hchar h

/-- insert mode and the line editor only read keys: they change nothing the invariant reads -/
theorem insert_mode_keeps_state (pref post : Bytes) (s s' : VS) (r : Bytes × Int × Int) (hs : VsOk s)
    (h : viInput pref post s = Res.ok r s') : VsOk s' := pres_viInput pref post s r s' hs h

/-- `vi_change` (`c` + any region, `cc s S C`) when the typed text will be valid -/
theorem vi_change_valid (r1 o1 r2 o2 : Int) (ln : Bool) (s s' : VS) (a : Nat) (hs : VsOk s) (ht : TypedTextValid s)
    (h : viChange r1 o1 r2 o2 ln s = Res.ok a s') : VsOk s' := presT_viChange r1 o1 r2 o2 ln s a s' hs ht h

/-- `vc_insert` (`i a I A o O`) when the typed text will be valid -/
theorem vc_insert_valid (cmd : Nat) (s s' : VS) (a : Nat) (hs : VsOk s) (ht : TypedTextValid s)
    (h : vcInsert cmd s = Res.ok a s') : VsOk s' := presT_vcInsert cmd s a s' hs ht h

/-- the operator dispatch of `vc_motion` -/
theorem apply_op_valid (cmd : Nat) (r1 o1 r2 o2 : Int) (ln : Bool) (s s' : VS) (a : Nat) (hs : VsOk s)
    (ht : cmd = 99 → TypedTextValid s) (h : Lemmas.C08f.applyOp cmd r1 o1 r2 o2 ln s = Res.ok a s') : VsOk s' :=
  applyOp_ok cmd r1 o1 r2 o2 ln s s' a hs ht h

/-- `vc_motion`: any operator with any motion, given that reading the count and the motion leaves a valid state
(and, for `c`, one in which the typed text will be valid) -/
theorem vc_motion_valid (cmd : Nat) (s s' : VS) (a : Nat) (hs : VsOk s) (h : vcMotion cmd s = Res.ok a s')
    (hread : ∀ a2 sp res sm, viPrefix s = Res.ok a2 sp →
      Lemmas.C08f.readMotion cmd s.ed.xrow (noeol s s.ed.xrow s.ed.xoff) { sp with arg2 := a2 } = Res.ok res sm →
      VsOk sm ∧ (cmd = 99 → TypedTextValid sm)) : VsOk s' := vcMotion_ok cmd s s' a hs h hread

/-- the example state after `x` was pressed: `d` with SPC pushed back -/
def exX : VS := { exVs [] with vibuf := [32] }

/-- the hypothesis of `vc_motion_valid` holds there (the motion SPC does not touch the editor record) … -/
example : ∀ a2 sp res sm, viPrefix exX = Res.ok a2 sp →
      Lemmas.C08f.readMotion 100 exX.ed.xrow (noeol exX exX.ed.xrow exX.ed.xoff) { sp with arg2 := a2 } = Res.ok res sm →
      VsOk sm ∧ ((100 : Nat) = 99 → TypedTextValid sm) := by
  intro a2 sp res sm hp hr
  refine ⟨?_, fun h => absurd h (by decide)⟩
  have e1 : viPrefix exX = Res.ok 0 exX := by rfl
  rw [e1] at hp
  cases hp
  have e2 : okAfter (Lemmas.C08f.readMotion 100 exX.ed.xrow (noeol exX exX.ed.xrow exX.ed.xoff) { exX with arg2 := 0 }) = true := by
    decide +kernel
  rw [hr] at e2
  exact of_decide_eq_true e2

/-- … and `x` on `aé` leaves `é`, valid -/
example : okAfter (vcMotion 100 exX) = true ∧
    linesAfter (vcMotion 100 exX) = [[0xc3, 0xa9, 10], [0xe4, 0xb8, 0xad, 0x62, 10]] := by decide +kernel

/-- `"ap` on the example state puts `é` after `a`; `~` on `a` gives `Aé` -/
example : okAfter (vcPut 112 { exVs [] with ybuf := 97 }) = true ∧
    linesAfter (vcPut 112 { exVs [] with ybuf := 97 }) = [[0x61, 0xc3, 0xa9, 0xc3, 0xa9, 10], [0xe4, 0xb8, 0xad, 0x62, 10]] ∧
    linesAfter (viCase 0 0 0 2 false 126 (exVs [])) = [[0x41, 0xc3, 0xa9, 10], [0xe4, 0xb8, 0xad, 0x62, 10]] := by
  decide +kernel

/-- `u` and `^R` -/
theorem vi_undo_valid (s : VS) (lb lb' : Lb) (rc : Nat) (redo : Bool) (hs : VsOk s) (hlb : s.ed.lb = some lb)
    (h : (if redo then Lbuf.redo lb else Lbuf.undo lb) = some (rc, lb')) : VsOk { s with ed := s.ed.setLb lb' } :=
  vi_undo_ok s lb lb' rc redo hs hlb h

/-- `:` from vi with a line `okLine` accepts -/
theorem ex_from_vi_valid (ln : Bytes) (d : Nat) (s s' : VS) (rc : Int) (hs : VsOk s) (hq : okLine d ln = true)
    (h : exCommandV ln s = Res.ok rc s') : VsOk s' := exCommandV_ok ln d s s' rc hs hq h

/-! ### typed text -/

/-- the text insert mode returns for typed lines is valid when the text around the insertion point is -/
theorem input_text_valid (xai : Bool) {pref post : Bytes} (hp : IsU8 pref) (hq : IsU8 post) (ls : List (List Nat))
    (last : List Nat) (hv : ∀ l ∈ last :: ls, ∀ c ∈ l, ValidCp c) : IsU8 (Props.C08e.inputText xai pref post ls last) :=
  inputText_valid xai hp hq ls last hv

/-- **typed lines**: lines of printable characters and tabs (any valid code point ≥ U+0020 but DEL), each ended
by a newline, the last by ESC, under the default keymap — then `TypedTextValid` holds -/
theorem typed_lines_valid_text (s : VS) (ls : List (List Nat)) (last : List Nat) (rest : Bytes)
    (hp : Lemmas.C09.pending s = (ls.map (fun l => encStr l ++ [10])).flatten ++ encStr last ++ [27] ++ rest)
    (hpl : ∀ l ∈ last :: ls, Lemmas.C08e.TLine l) (hlen : ls.length < 100000) (hk : s.xkmap = 0) : TypedTextValid s :=
  typedTextValid_of_lines s ls last rest hp hpl hlen hk

/-- `i a I A o O`, key level: the command with such typed lines pending -/
theorem vc_insert_lines_valid (cmd : Nat) (s s' : VS) (a : Nat) (ls : List (List Nat)) (last : List Nat) (rest : Bytes)
    (hs : VsOk s)
    (hp : Lemmas.C09.pending s = (ls.map (fun l => encStr l ++ [10])).flatten ++ encStr last ++ [27] ++ rest)
    (hpl : ∀ l ∈ last :: ls, Lemmas.C08e.TLine l) (hlen : ls.length < 100000) (hk : s.xkmap = 0)
    (h : vcInsert cmd s = Res.ok a s') : VsOk s' := vcInsert_lines_ok cmd s s' a ls last rest hs hp hpl hlen hk h

/-- `c` on a region with such typed lines pending -/
theorem vi_change_lines_valid (r1 o1 r2 o2 : Int) (ln : Bool) (s s' : VS) (a : Nat) (ls : List (List Nat))
    (last : List Nat) (rest : Bytes) (hs : VsOk s)
    (hp : Lemmas.C09.pending s = (ls.map (fun l => encStr l ++ [10])).flatten ++ encStr last ++ [27] ++ rest)
    (hpl : ∀ l ∈ last :: ls, Lemmas.C08e.TLine l) (hlen : ls.length < 100000) (hk : s.xkmap = 0)
    (h : viChange r1 o1 r2 o2 ln s = Res.ok a s') : VsOk s' :=
  viChange_lines_ok r1 o1 r2 o2 ln s s' a ls last rest hs hp hpl hlen hk h

/-- `r` followed by a printable character -/
theorem vc_replace_typed_valid (s s' : VS) (a : Nat) (c : Nat) (rest : Bytes) (hs : VsOk s)
    (hc : ValidCp c ∧ 32 ≤ c ∧ c ≠ 127) (hp : Lemmas.C09.pending s = enc c ++ rest) (hk : s.xkmap = 0)
    (h : vcReplace s = Res.ok a s') : VsOk s' := vcReplace_typed_ok s s' a c rest hs hc hp hk h

/-- the hypotheses hold of a concrete run: `i`, the keys `é`, newline, tab `中`, ESC on the example state -/
example : VsOk (exVs [0xc3, 0xa9, 10, 9, 0xe4, 0xb8, 0xad, 27]) ∧
    Lemmas.C09.pending (exVs [0xc3, 0xa9, 10, 9, 0xe4, 0xb8, 0xad, 27]) =
      ([[0xe9]].map (fun l => encStr l ++ [10])).flatten ++ encStr [9, 0x4e2d] ++ [27] ++ [] ∧
    (∀ l ∈ [9, 0x4e2d] :: [[0xe9]], Lemmas.C08e.TLine l) := by decide +kernel

/-- … and the conclusion, evaluated: the buffer becomes `é` / TAB `中aé` / `中b` -/
example : (match vcInsert 105 (exVs [0xc3, 0xa9, 10, 9, 0xe4, 0xb8, 0xad, 27]) with
    | Res.ok _ s' => (Vi.lines s', decide (VsOk s'))
    | _ => ([], false)) =
    ([[0xc3, 0xa9, 10], [9, 0xe4, 0xb8, 0xad, 0x61, 0xc3, 0xa9, 10], [0xe4, 0xb8, 0xad, 0x62, 10]], true) := by
  decide +kernel

/-! ### every valid key stream without `^V` -/

/-- **the line editor `led_line`** (insert mode, the `:` prompt, the search prompt) on a valid key stream without
`^V`: the text it returns is valid UTF-8, the auto-indent is made of blanks, the state and the keys to come stay
valid — backspace, `^U ^W ^T ^D`, `^P`, `^R` + any register name, `^K` + any two characters, `^F ^E`, `^A`,
multi-byte characters -/
theorem led_line_keys_valid (pref post ai0 : Bytes) (aiMax : Nat) (ins ex : Bool) (s s' : VS) (r : Bytes × Int × Bytes)
    (hs : VsOk s) (hq : KeysOk s) (hai : ∀ c ∈ ai0, isBlankC c = true)
    (h : ledLine pref post ai0 aiMax ins ex s = Res.ok r s') :
    IsU8 r.1 ∧ (∀ c ∈ r.2.2, isBlankC c = true) ∧ VsOk s' ∧ KeysOk s' := ledLine_keys pref post ai0 aiMax ins ex s s' r hs hq hai h

/-- **insert mode `vi_input`** on such a key stream, between valid texts: the text is valid, the keys to come stay valid -/
theorem vi_input_keys_valid (pref post : Bytes) (s s' : VS) (r : Bytes × Int × Int) (hs : VsOk s) (hq : KeysOk s)
    (hp : IsU8 pref) (hpost : IsU8 post) (h : viInput pref post s = Res.ok r s') : IsU8 r.1 ∧ VsOk s' ∧ KeysOk s' :=
  viInput_keys pref post s s' r hs hq hp hpost h

/-- … so `TypedTextValid` holds -/
theorem typed_keys_valid_text {s : VS} (hq : KeysOk s) : TypedTextValid s := typedTextValid_of_keys hq

/-- **`i a I A o O`, key level, every valid key stream without `^V`** -/
theorem vc_insert_keys_valid (cmd : Nat) (s s' : VS) (a : Nat) (hs : VsOk s) (hq : KeysOk s)
    (h : vcInsert cmd s = Res.ok a s') : VsOk s' := vcInsert_keys_ok cmd s s' a hs hq h

/-- **`c` on a region**, every valid key stream without `^V` -/
theorem vi_change_keys_valid (r1 o1 r2 o2 : Int) (ln : Bool) (s s' : VS) (a : Nat) (hs : VsOk s) (hq : KeysOk s)
    (h : viChange r1 o1 r2 o2 ln s = Res.ok a s') : VsOk s' := viChange_keys_ok r1 o1 r2 o2 ln s s' a hs hq h

/-- **`r`**, every valid key stream without `^V` (the character may come from `^K` or a keymap) -/
theorem vc_replace_keys_valid (s s' : VS) (a : Nat) (hs : VsOk s) (hq : KeysOk s) (h : vcReplace s = Res.ok a s') : VsOk s' :=
  vcReplace_keys_ok s s' a hs hq h

/-- `KeysOk` is decidable; the streams of the two old witnesses satisfy it -/
example : KeysOk (exVs [11, 0xe4, 0xb8, 0xad, 0x61, 27]) ∧ KeysOk (exVs [18, 0xc3, 0xa9, 27]) ∧
    ¬ KeysOk (exVs [22, 0xc3, 27]) := by decide +kernel

/-- **`^K` reads whole characters**: `i ^K 中 a ESC` takes `中` and `a` for the two digraph characters; no such
digraph: nothing is inserted.  (`^K` used to read two *bytes*, `E4 B8`, and the remaining continuation byte `AD`
went into the line — invalid UTF-8 from a valid key stream, in the model and in the real editor: a defect found
by this module, `digraph_key_splits_char` in its first version; repaired in 90b14db.) -/
theorem digraph_key_whole_char :
    linesAfter (vcInsert 105 (exVs [11, 0xe4, 0xb8, 0xad, 0x61, 27])) =
      [[0x61, 0xc3, 0xa9, 10], [0xe4, 0xb8, 0xad, 0x62, 10]] ∧
    okAfter (vcInsert 105 (exVs [11, 0xe4, 0xb8, 0xad, 0x61, 27])) = true := by decide +kernel

/-- **`^R` reads the register name as a whole character**: `i ^R é ESC` names the (empty) register `C3`; nothing
is inserted (before the repair `A9` was: `register_key_splits_char` in the first version of this module).  And
`^K a :` (`ä`), `^R ;` (the line), `^R #` (the line number) insert valid text. -/
theorem register_key_whole_char :
    linesAfter (vcInsert 105 (exVs [18, 0xc3, 0xa9, 27])) = [[0x61, 0xc3, 0xa9, 10], [0xe4, 0xb8, 0xad, 0x62, 10]] ∧
    linesAfter (vcInsert 105 (exVs [11, 0x61, 0x3a, 18, 0x3b, 18, 0x23, 27])) =
      [[0xc3, 0xa4, 0x61, 0xc3, 0xa9, 0x31, 0x61, 0xc3, 0xa9, 10], [0xe4, 0xb8, 0xad, 0x62, 10]] ∧
    okAfter (vcInsert 105 (exVs [11, 0x61, 0x3a, 18, 0x3b, 18, 0x23, 27])) = true := by decide +kernel

/-- `^V` is rightly excluded: it inserts the next byte raw — `i ^V C3 ESC` -/
theorem literal_key_raw_byte :
    linesAfter (vcInsert 105 (exVs [22, 0xc3, 27])) = [[0xc3, 0x61, 0xc3, 0xa9, 10], [0xe4, 0xb8, 0xad, 0x62, 10]] ∧
    ¬ IsU8 [0xc3, 0x61, 0xc3, 0xa9, 10] := by decide +kernel

/-! ### from the end-to-end specifications of C08f (text and registers) -/

/-- a deletion inside one row (`row_delete`: `x X D d0 dw de dfc dtc dl dh` …) -/
theorem row_delete_valid {s sm s' : VS} {r : Int} {body : List Nat} {a b : Nat}
    (h : Props.C08f.RowDeleted s sm s' r body a b) (hb : ∀ c ∈ body, ValidCp c)
    (hl : ∀ l ∈ Vi.lines s, IsU8 l) (hr : RegsValid s.ed.regs) :
    (∀ l ∈ Vi.lines s', IsU8 l) ∧ RegsValid s'.ed.regs := RowDeleted.valid h hb hl hr

/-- a line-wise deletion (`line_delete`: `dd d_ dj dk dG d+ d-` …) -/
theorem line_delete_valid {s sm s' : VS} {lo hi : Int} (h : Props.C08f.LineDeleted s sm s' lo hi)
    (hl : ∀ l ∈ Vi.lines s, IsU8 l) (hr : RegsValid s.ed.regs) :
    (∀ l ∈ Vi.lines s', IsU8 l) ∧ RegsValid s'.ed.regs := LineDeleted.valid h hl hr

/-- **`x`** (`[count]x`), key level -/
theorem x_valid (s s1 : VS) (a2 : Int) (body : List Nat) (o : Nat) (hk : Props.C08f.Prefixed s a2 32 s1)
    (hrow : Props.C08f.OnRow s body o) (hl : ∀ l ∈ Vi.lines s, IsU8 l) (hr : RegsValid s.ed.regs) :
    ∃ s', vcMotion 100 s = Res.ok VC_OK s' ∧ (∀ l ∈ Vi.lines s', IsU8 l) ∧ RegsValid s'.ed.regs := by
  obtain ⟨s', e, h⟩ := Props.C08f.x_spec s s1 a2 body o hk hrow
  exact ⟨s', e, RowDeleted.valid h hrow.valid hl hr⟩

/-- **`dw`** landing on the same row, key level -/
theorem dw_valid (s s1 : VS) (a2 : Int) (body : List Nat) (o t : Nat) (hk : Props.C08f.Prefixed s a2 119 s1)
    (hrow : Props.C08f.OnRow s body o) (hu : Props.C07c.Utf8Buf (Vi.lines s))
    (href : Motion.wordFwdRaw false (Props.C07c.refBufU (Vi.lines s)) ⟨s.ed.xrow.toNat, o⟩ (Props.C08f.opCount s a2).toNat =
      ⟨s.ed.xrow.toNat, t⟩)
    (hl : ∀ l ∈ Vi.lines s, IsU8 l) (hr : RegsValid s.ed.regs) :
    ∃ s', vcMotion 100 s = Res.ok VC_OK s' ∧ (∀ l ∈ Vi.lines s', IsU8 l) ∧ RegsValid s'.ed.regs := by
  obtain ⟨s', e, h⟩ := Props.C08f.dw_spec s s1 a2 body o t hk hrow hu href
  exact ⟨s', e, RowDeleted.valid h hrow.valid hl hr⟩

/-- **`dd`** (`[count]dd`), key level -/
theorem dd_valid (s s1 : VS) (a2 : Int) (lb : Lb) (hlb : s.ed.lb = some lb) (hk : Props.C08f.Prefixed s a2 100 s1)
    (ha : 0 ≤ s.arg1) (h0 : 0 ≤ s.ed.xrow) (h1 : s.ed.xrow < lenOf s)
    (hl : ∀ l ∈ Vi.lines s, IsU8 l) (hr : RegsValid s.ed.regs) :
    ∃ s', vcMotion 100 s = Res.ok VC_OK s' ∧ (∀ l ∈ Vi.lines s', IsU8 l) ∧ RegsValid s'.ed.regs := by
  obtain ⟨s', e, h⟩ := Props.C08f.dd_spec s s1 a2 lb hlb hk ha h0 h1
  exact ⟨s', e, LineDeleted.valid h hl hr⟩

/-- **`yy`**, key level: the text is unchanged, the register receives valid lines -/
theorem yy_valid (s s1 : VS) (a2 : Int) (hk : Props.C08f.Prefixed s a2 121 s1) (ha : 0 ≤ s.arg1)
    (h0 : 0 ≤ s.ed.xrow) (h1 : s.ed.xrow < lenOf s) (hl : ∀ l ∈ Vi.lines s, IsU8 l) (hr : RegsValid s.ed.regs) :
    ∃ s', vcMotion 121 s = Res.ok VC_COL s' ∧ (∀ l ∈ Vi.lines s', IsU8 l) ∧ RegsValid s'.ed.regs :=
  ⟨_, Props.C08f.yy_spec s s1 a2 hk ha h0 h1, yankedRows_valid s _ _ _ hl hr⟩

/-! ## 5. cutting at a character boundary, and inside a character -/

/-- each piece of a valid string cut inside it is valid exactly when the cut is at a character boundary -/
theorem cut_valid_iff {s : Bytes} (h : IsU8 s) {k : Nat} (hk : k < s.length) :
    (IsU8 (s.take k) ↔ IsBd s k) ∧ (IsU8 (s.drop k) ↔ IsBd s k) := Lemmas.C16c.cut_valid_iff h hk

/-- cutting inside a multi-byte character gives two invalid pieces: the invariant is not vacuous -/
theorem cut_inside_invalid {s : Bytes} (h : IsU8 s) {k : Nat} (hk : k < s.length) (hnb : ¬ IsBd s k) :
    ¬ IsU8 (s.take k) ∧ ¬ IsU8 (s.drop k) := Lemmas.C16c.cut_inside_invalid h hk hnb

/-- in code points: cutting `encStr cs` at the byte offset of character `j` gives `encStr` of the two parts' bytes, both valid -/
theorem cut_codepoints {cs : List Nat} (hv : Valid cs) (j : Nat) :
    IsU8 ((encStr cs).take (byteOff cs j)) ∧ IsU8 ((encStr cs).drop (byteOff cs j)) := Lemmas.C16c.cut_codepoints hv j

/-- `aéb`: the boundaries are 0, 1, 3, 4; a cut at 2 — inside `é` — leaves `a C3` and `A9 b` -/
theorem cut_example : IsU8 C16b.lineE ∧ IsBd C16b.lineE 1 ∧ IsBd C16b.lineE 3 ∧ ¬ IsBd C16b.lineE 2 ∧
    ¬ IsU8 (C16b.lineE.take 2) ∧ ¬ IsU8 (C16b.lineE.drop 2) := by
  refine ⟨C16b.lineE_valid, ?_, ?_, C16b.not_isBd_inside, ?_, ?_⟩
  · exact ⟨by decide +kernel, by decide +kernel⟩
  · exact ⟨by decide +kernel, by decide +kernel⟩
  · decide +kernel
  · decide +kernel

end Neatvi.Props.C16c
