import NeatviVerif.Lemmas.C08bSim
import NeatviVerif.Lemmas.C08bInput
import NeatviVerif.Lemmas.C08bInsert
import NeatviVerif.Lemmas.C08bOpen
import NeatviVerif.Lemmas.C08bChange
import NeatviVerif.Lemmas.C08bJoin
import NeatviVerif.Lemmas.C08bCase
import NeatviVerif.Lemmas.C08bWord
import NeatviVerif.Lemmas.C08bInput2
import NeatviVerif.Lemmas.C08bInsert2
/-!
# C08 (second part): insert mode and the remaining editing commands

1. the line editor `led_line` on a key stream: `ledLine_script` (the reference semantics `runScript` of
   the insert-mode keys), `ledLine_plain`, `ledLine_utf8`, `ledLine_backspace`, `ledLine_killline`,
   `ledLine_killword` (+ `lastWord_ascii`), `ledLine_literal`;
2. `led_input` / `vi_input` for an insertion that ends on its first line; `Inputs K cs`;
3. `vc_insert`: `vcInsert_{i,a,A,I,o,O}_spec`, `vcInsert_emptyline_spec`, `vcInsert_i_plain`,
   `vcInsert_i_backspace`, `vcInsert_i_newline_spec`;
4. `vi_change`: `viChange_char_spec`, `viChange_line_spec`;
5. `vc_join`: `vcJoin_spec`, `vcJoin_count_spec` (any count), `vcJoin_short`, `joinSpaces_spec`;
6. `vcReplace_spec`, `caseMap_spec` / `caseCp_spec` / `viCase_line_spec`, `viShift_spec` / `shiftLine_spec`;
7. what is not proved (`*_full`), and concrete runs.

All statements are about the model (`Model/Vi.lean`, `Model/ViCmd.lean`), total (the command returns
`Res.ok`, no trap), for every state satisfying the stated hypotheses.

Vocabulary (`Lemmas/C08bLed.lean`, `Lemmas/C08bSim.lean`):
* `pending s`: the key stream the editor is going to see (C09);
* `Reads ins used s s'`: `s'` is `s` after reading the keys `used`: only the queue fields
  (`ibuf`, `ibufPos`, `typed`), `icmd` (= `icmdAfterL s.icmd used`: the keys appended, up to the 4096
  limit of `term.c`) and, when `ins`, `ed.xleft` differ (`reads_iff`);
* `Ev`, `runScript`: the events of an insert session and their reference semantics.
-/
namespace Neatvi.Props.C08b
open Neatvi Neatvi.Uc Neatvi.Vi Neatvi.Ex Neatvi.Spec Neatvi.Lemmas.C08 Neatvi.Lemmas.C08b Neatvi.Lemmas.C09

/-! ## 1. `led_line` -/

/-- what `Reads` says, field by field -/
theorem reads_iff (ins : Bool) (used : Bytes) (s s' : VS) : Reads ins used s s' ↔
    ∃ ib ip ty xl, s' = { s with ibuf := ib, ibufPos := ip, typed := ty, icmd := icmdAfterL s.icmd used,
                                 ed := { s.ed with xleft := xl } } ∧ (ins = false → xl = s.ed.xleft) := Iff.rfl

/-- below the 4096 limit `icmd` simply grows by the keys read -/
theorem reads_icmd {ins : Bool} {used : Bytes} {s s' : VS} (h : Reads ins used s s')
    (hl : s.icmd.length + used.length ≤ 4096) : s'.icmd = s.icmd ++ used := by
  obtain ⟨ib, ip, ty, xl, rfl, -⟩ := h
  exact icmdAfterL_room _ _ hl

/-- **the line editor computes the reference semantics of the editing keys.**  If the pending keys are
those of the edit script `evs` followed by an ending key `e` (newline, ESC or `^C`), under the default
keymap, `led_line` returns the text and auto-indent `runScript` computes from `([], ai0)`, with the
ending key; the keys up to and including `e` are consumed and nothing else changes.
(`scriptSteps evs < 100000`: the bound of the model's loop.) -/
theorem ledLine_script (pref post ai0 : Bytes) (aiMax : Nat) (ins ex : Bool) (s : VS) (evs : List Ev)
    (e : Nat) (rest : Bytes)
    (hp : pending s = scriptKeys evs ++ e :: rest) (hok : ∀ ev ∈ evs, ev.ok) (he : e = 10 ∨ e = 27 ∨ e = 3)
    (hfuel : scriptSteps evs < 100000) (hk : (if ex then s.exKmap else s.xkmap) = 0) :
    ∃ s', ledLine pref post ai0 aiMax ins ex s =
        Res.ok ((runScript pref.isEmpty aiMax evs ([], ai0)).1, (e : Int), (runScript pref.isEmpty aiMax evs ([], ai0)).2) s' ∧
      pending s' = rest ∧ Reads ins (scriptKeys evs ++ [e]) s s' :=
  Lemmas.C08b.ledLine_script pref post ai0 aiMax ins ex s evs e rest hp hok he hfuel hk

/-- `ledLine_plain`: printable ASCII text and ESC -/
theorem ledLine_plain (pref post ai : Bytes) (aiMax : Nat) (ins : Bool) (s : VS) (txt rest : Bytes)
    (hp : pending s = txt ++ [27] ++ rest) (hpl : ∀ b ∈ txt, 32 ≤ b ∧ b < 127)
    (hlen : txt.length < 100000) (hk : s.xkmap = 0) :
    ∃ s', ledLine pref post ai aiMax ins false s = Res.ok (txt, 27, ai) s' ∧ pending s' = rest ∧
      Reads ins (txt ++ [27]) s s' := by
  have henc : encStr txt = txt := encStr_ascii txt (fun b hb => by have := hpl b hb; omega)
  obtain ⟨s', h1, h2, h3⟩ := ledLine_script pref post ai aiMax ins false s [Ev.text txt] 27 rest
    (by simp [scriptKeys, Ev.keys, henc] at hp ⊢; exact hp)
    (by intro ev hev; simp at hev; subst hev; exact fun c hc => typable_of_plain (hpl c hc))
    (by simp) (by simpa [scriptSteps, Ev.steps] using hlen) hk
  refine ⟨s', ?_, h2, ?_⟩
  · simpa [runScript, Ev.apply, henc] using h1
  · simpa [scriptKeys, Ev.keys, henc] using h3

/-- the same for valid UTF-8 text: the code points `cs` (valid, ≥ 32, not DEL) sent as their encoding -/
theorem ledLine_utf8 (pref post ai : Bytes) (aiMax : Nat) (ins : Bool) (s : VS) (cs : List Nat) (rest : Bytes)
    (hp : pending s = encStr cs ++ [27] ++ rest) (hpl : ∀ c ∈ cs, ValidCp c ∧ 32 ≤ c ∧ c ≠ 127)
    (hlen : cs.length < 100000) (hk : s.xkmap = 0) :
    ∃ s', ledLine pref post ai aiMax ins false s = Res.ok (encStr cs, 27, ai) s' ∧ pending s' = rest ∧
      Reads ins (encStr cs ++ [27]) s s' := by
  obtain ⟨s', h1, h2, h3⟩ := ledLine_script pref post ai aiMax ins false s [Ev.text cs] 27 rest
    (by simp [scriptKeys, Ev.keys] at hp ⊢; exact hp)
    (by intro ev hev; simp at hev; subst hev; exact hpl)
    (by simp) (by simpa [scriptSteps, Ev.steps] using hlen) hk
  refine ⟨s', ?_, h2, ?_⟩
  · simpa [runScript, Ev.apply] using h1
  · simpa [scriptKeys, Ev.keys] using h3

private theorem scriptKeys3 (a b c : Ev) : scriptKeys [a, b, c] = a.keys ++ b.keys ++ c.keys := by
  simp [scriptKeys]
private theorem scriptSteps3 (a b c : Ev) : scriptSteps [a, b, c] = a.steps + b.steps + c.steps := by
  simp [scriptSteps]; omega
private theorem runScript3 (pe : Bool) (m : Nat) (a b c : Ev) (st : Bytes × Bytes) :
    runScript pe m [a, b, c] st = c.apply pe m (b.apply pe m (a.apply pe m st)) := rfl
private theorem keys_text (cs : List Nat) : (Ev.text cs).keys = encStr cs := rfl
private theorem steps_text (cs : List Nat) : (Ev.text cs).steps = cs.length := rfl
private theorem apply_text (pe : Bool) (m : Nat) (cs : List Nat) (st : Bytes × Bytes) :
    (Ev.text cs).apply pe m st = (st.1 ++ encStr cs, st.2) := rfl

private theorem backspace_aux (ev : Ev) (k : Nat) (hkeys : ev.keys = [k]) (hsteps : ev.steps = 1) (hevok : ev.ok)
    (happly : ∀ (pe : Bool) (aiMax : Nat) (st : Bytes × Bytes), ev.apply pe aiMax st = (st.1.take (lastChar st.1), st.2))
    (pref post ai : Bytes) (aiMax : Nat) (ins : Bool) (s : VS) (cs : List Nat) (c : Nat)
    (cs2 : List Nat) (rest : Bytes)
    (hp : pending s = encStr (cs ++ [c]) ++ [k] ++ encStr cs2 ++ [27] ++ rest)
    (hpl : ∀ d ∈ cs ++ [c] ++ cs2, ValidCp d ∧ 32 ≤ d ∧ d ≠ 127)
    (hlen : cs.length + cs2.length + 2 < 100000) (hk : s.xkmap = 0) :
    ∃ s', ledLine pref post ai aiMax ins false s = Res.ok (encStr (cs ++ cs2), 27, ai) s' ∧ pending s' = rest ∧
      Reads ins (encStr (cs ++ [c]) ++ [k] ++ encStr cs2 ++ [27]) s s' := by
  have hc : ValidCp c := (hpl c (by simp)).1
  have hkeys' : scriptKeys [Ev.text (cs ++ [c]), ev, Ev.text cs2] = encStr (cs ++ [c]) ++ [k] ++ encStr cs2 := by
    rw [scriptKeys3, keys_text, keys_text, hkeys]
  obtain ⟨s', h1, h2, h3⟩ := ledLine_script pref post ai aiMax ins false s
    [Ev.text (cs ++ [c]), ev, Ev.text cs2] 27 rest
    (by rw [hkeys', hp]; simp)
    (by
      intro ev' hev
      simp only [List.mem_cons, List.not_mem_nil, or_false] at hev
      rcases hev with rfl | rfl | rfl
      · exact fun d hd => hpl d (List.mem_append_left _ hd)
      · exact hevok
      · exact fun d hd => hpl d (List.mem_append_right _ hd))
    (by simp)
    (by rw [scriptSteps3, steps_text, steps_text, hsteps]; simp; omega) hk
  have hrun : runScript pref.isEmpty aiMax [Ev.text (cs ++ [c]), ev, Ev.text cs2] ([], ai) =
      (encStr (cs ++ cs2), ai) := by
    rw [runScript3, apply_text, happly, apply_text]
    simp only [List.nil_append]
    rw [encStr_append, encStr_cons, encStr_nil, List.append_nil, take_lastChar_enc _ c hc, encStr_append]
  refine ⟨s', ?_, h2, ?_⟩
  · rw [hrun] at h1; exact h1
  · rw [← hkeys']; exact h3

/-- `ledLine_backspace`: `^H` (or DEL) after the text `cs ++ [c]` removes the character `c`; typing
goes on after it.  (ASCII: the last byte is removed, `take_lastChar_ascii`.) -/
theorem ledLine_backspace (pref post ai : Bytes) (aiMax : Nat) (ins : Bool) (s : VS) (cs : List Nat) (c : Nat)
    (cs2 : List Nat) (k : Nat) (rest : Bytes) (hkey : k = 8 ∨ k = 127)
    (hp : pending s = encStr (cs ++ [c]) ++ [k] ++ encStr cs2 ++ [27] ++ rest)
    (hpl : ∀ d ∈ cs ++ [c] ++ cs2, ValidCp d ∧ 32 ≤ d ∧ d ≠ 127)
    (hlen : cs.length + cs2.length + 2 < 100000) (hk : s.xkmap = 0) :
    ∃ s', ledLine pref post ai aiMax ins false s = Res.ok (encStr (cs ++ cs2), 27, ai) s' ∧ pending s' = rest ∧
      Reads ins (encStr (cs ++ [c]) ++ [k] ++ encStr cs2 ++ [27]) s s' := by
  rcases hkey with rfl | rfl
  · exact backspace_aux Ev.bs 8 rfl rfl trivial (fun _ _ _ => rfl) pref post ai aiMax ins s cs c cs2 rest hp hpl hlen hk
  · exact backspace_aux Ev.del 127 rfl rfl trivial (fun _ _ _ => rfl) pref post ai aiMax ins s cs c cs2 rest hp hpl hlen hk

/-- `ledLine_killline`: `^U` empties the text typed so far -/
theorem ledLine_killline (pref post ai : Bytes) (aiMax : Nat) (ins : Bool) (s : VS) (cs cs2 : List Nat) (rest : Bytes)
    (hp : pending s = encStr cs ++ [21] ++ encStr cs2 ++ [27] ++ rest)
    (hpl : ∀ d ∈ cs ++ cs2, ValidCp d ∧ 32 ≤ d ∧ d ≠ 127)
    (hlen : cs.length + cs2.length + 1 < 100000) (hk : s.xkmap = 0) :
    ∃ s', ledLine pref post ai aiMax ins false s = Res.ok (encStr cs2, 27, ai) s' ∧ pending s' = rest ∧
      Reads ins (encStr cs ++ [21] ++ encStr cs2 ++ [27]) s s' := by
  obtain ⟨s', h1, h2, h3⟩ := ledLine_script pref post ai aiMax ins false s
    [Ev.text cs, Ev.killLine, Ev.text cs2] 27 rest
    (by simp [scriptKeys, Ev.keys] at hp ⊢; exact hp)
    (by
      intro ev hev
      simp only [List.mem_cons, List.not_mem_nil, or_false] at hev
      rcases hev with rfl | rfl | rfl
      · exact fun d hd => hpl d (List.mem_append_left _ hd)
      · trivial
      · exact fun d hd => hpl d (List.mem_append_right _ hd))
    (by simp) (by simp [scriptSteps, Ev.steps]; omega) hk
  refine ⟨s', ?_, h2, ?_⟩
  · simpa [runScript, Ev.apply] using h1
  · simpa [scriptKeys, Ev.keys] using h3

/-- `ledLine_killword`: `^W` cuts the text at `led_lastword` (see `lastWord_ascii` for what that is) -/
theorem ledLine_killword (pref post ai : Bytes) (aiMax : Nat) (ins : Bool) (s : VS) (cs cs2 : List Nat) (rest : Bytes)
    (hp : pending s = encStr cs ++ [23] ++ encStr cs2 ++ [27] ++ rest)
    (hpl : ∀ d ∈ cs ++ cs2, ValidCp d ∧ 32 ≤ d ∧ d ≠ 127)
    (hlen : cs.length + cs2.length + 1 < 100000) (hk : s.xkmap = 0) :
    ∃ s', ledLine pref post ai aiMax ins false s =
        Res.ok ((encStr cs).take (lastWord (encStr cs)) ++ encStr cs2, 27, ai) s' ∧ pending s' = rest ∧
      Reads ins (encStr cs ++ [23] ++ encStr cs2 ++ [27]) s s' := by
  obtain ⟨s', h1, h2, h3⟩ := ledLine_script pref post ai aiMax ins false s
    [Ev.text cs, Ev.killWord, Ev.text cs2] 27 rest
    (by simp [scriptKeys, Ev.keys] at hp ⊢; exact hp)
    (by
      intro ev hev
      simp only [List.mem_cons, List.not_mem_nil, or_false] at hev
      rcases hev with rfl | rfl | rfl
      · exact fun d hd => hpl d (List.mem_append_left _ hd)
      · trivial
      · exact fun d hd => hpl d (List.mem_append_right _ hd))
    (by simp) (by simp [scriptSteps, Ev.steps]; omega) hk
  refine ⟨s', ?_, h2, ?_⟩
  · simpa [runScript, Ev.apply] using h1
  · simpa [scriptKeys, Ev.keys] using h3

/-- `led_lastword` on ASCII text: from the end, skip the white space, then the run of characters of the
same kind (word characters / punctuation) as the last non-blank (`lastWordRef`) -/
theorem lastWord_ascii (s : Bytes) (h : ∀ b ∈ s, 0 < b ∧ b < 128) : lastWord s = lastWordRef s :=
  Lemmas.C08b.lastWord_ascii s h

/-- `^W` on printable ASCII text: the text is cut at `lastWordRef` -/
theorem ledLine_killword_ascii (pref post ai : Bytes) (aiMax : Nat) (ins : Bool) (s : VS) (txt txt2 rest : Bytes)
    (hp : pending s = txt ++ [23] ++ txt2 ++ [27] ++ rest)
    (hpl : ∀ b ∈ txt ++ txt2, 32 ≤ b ∧ b < 127)
    (hlen : txt.length + txt2.length + 1 < 100000) (hk : s.xkmap = 0) :
    ∃ s', ledLine pref post ai aiMax ins false s = Res.ok (txt.take (lastWordRef txt) ++ txt2, 27, ai) s' ∧
      pending s' = rest ∧ Reads ins (txt ++ [23] ++ txt2 ++ [27]) s s' := by
  have h1 : encStr txt = txt := encStr_ascii txt (fun b hb => by have := hpl b (List.mem_append_left _ hb); omega)
  have h2 : encStr txt2 = txt2 := encStr_ascii txt2 (fun b hb => by have := hpl b (List.mem_append_right _ hb); omega)
  have := ledLine_killword pref post ai aiMax ins s txt txt2 rest (by rw [h1, h2]; exact hp)
    (fun d hd => by have := hpl d hd; exact ⟨⟨by omega, by omega⟩, by omega, by omega⟩) hlen hk
  rw [h1, h2, lastWord_ascii txt (fun b hb => by have := hpl b (List.mem_append_left _ hb); omega)] at this
  exact this

-- `foo bar  ` ^W → `foo `;  `foo.bar` ^W → `foo.`;  `   ` ^W → nothing left
example : lastWordRef [102, 111, 111, 32, 98, 97, 114, 32, 32] = 4 := by decide
example : lastWordRef [102, 111, 111, 46, 98, 97, 114] = 4 := by decide
example : lastWordRef [32, 32, 32] = 0 := by decide

/-- `ledLine_literal`: `^V d` inserts the byte `d` (any key but NUL, also ESC or an editing key) -/
theorem ledLine_literal (pref post ai : Bytes) (aiMax : Nat) (ins : Bool) (s : VS) (cs cs2 : List Nat) (d : Nat)
    (rest : Bytes) (hd : 0 < d ∧ d < 256)
    (hp : pending s = encStr cs ++ [22, d] ++ encStr cs2 ++ [27] ++ rest)
    (hpl : ∀ d ∈ cs ++ cs2, ValidCp d ∧ 32 ≤ d ∧ d ≠ 127)
    (hlen : cs.length + cs2.length + 1 < 100000) (hk : s.xkmap = 0) :
    ∃ s', ledLine pref post ai aiMax ins false s = Res.ok (encStr cs ++ [d] ++ encStr cs2, 27, ai) s' ∧
      pending s' = rest ∧ Reads ins (encStr cs ++ [22, d] ++ encStr cs2 ++ [27]) s s' := by
  obtain ⟨s', h1, h2, h3⟩ := ledLine_script pref post ai aiMax ins false s
    [Ev.text cs, Ev.lit d, Ev.text cs2] 27 rest
    (by simp [scriptKeys, Ev.keys] at hp ⊢; exact hp)
    (by
      intro ev hev
      simp only [List.mem_cons, List.not_mem_nil, or_false] at hev
      rcases hev with rfl | rfl | rfl
      · exact fun d hd => hpl d (List.mem_append_left _ hd)
      · trivial
      · exact fun d hd => hpl d (List.mem_append_right _ hd))
    (by simp) (by simp [scriptSteps, Ev.steps]; omega) hk
  have hd' : d % 256 = d := by omega
  have hd0 : d ≠ 0 := by omega
  refine ⟨s', ?_, h2, ?_⟩
  · simpa [runScript, Ev.apply, hd', hd0] using h1
  · simpa [scriptKeys, Ev.keys] using h3

/-! ## 2. `led_input`, `vi_input`: an insertion ended by ESC on its first line

`aiOf pref` is the auto-indent (the leading blanks of `pref`, at most 127), `prefRest pref` the rest;
`inputLine pref post ln ai = (if keepAi pref post ln then ai else []) ++ prefRest pref ++ ln ++ post`. -/

/-- the auto-indent and the rest make up the prefix -/
theorem aiOf_prefRest (pref : Bytes) : aiOf pref ++ prefRest pref = pref := aiOf_append_prefRest pref

/-- the auto-indent is dropped only for a blank typed line, after an all-blank prefix, with nothing but
(at most) the newline after it -/
theorem keepAi_eq_false_iff (pref post ln : Bytes) : keepAi pref post ln = false ↔
    (ln.takeWhile isBlankC).length = ln.length ∧ prefRest pref = [] ∧ (post = [] ∨ post.headD 0 = 10) := by
  have hle : (ln.takeWhile isBlankC).length ≤ ln.length := (List.takeWhile_sublist _).length_le
  unfold keepAi
  cases hpr : prefRest pref <;> cases post <;> simp <;> omega

/-- with the auto-indent kept, the text is prefix ++ typed line ++ rest of the line -/
theorem inputLine_keep (pref post ln : Bytes) (h : keepAi pref post ln = true) :
    inputLine pref post ln (aiOf pref) = pref ++ ln ++ post := Lemmas.C08b.inputLine_keep pref post ln h

/-- a typed line that starts with a non-blank keeps the auto-indent -/
theorem keepAi_of_nonblank (pref post : Bytes) (b : Nat) (t : Bytes) (hb : isBlankC b = false) :
    keepAi pref post (b :: t) = true := by
  unfold keepAi
  simp [hb]

/-- `led_input` for an edit script ended by ESC / `^C` (no literal newline in the resulting line):
the line returned by `led_line` is put between the prefix and the rest of the line -/
theorem ledInput_single_line_script (pref post : Bytes) (s : VS) (evs : List Ev) (e : Nat) (rest : Bytes)
    (hp : pending s = scriptKeys evs ++ e :: rest) (hok : ∀ ev ∈ evs, ev.ok) (he : e = 27 ∨ e = 3)
    (hfuel : scriptSteps evs < 100000) (hk : s.xkmap = 0)
    (hnl : nlCount (runScript (prefRest pref).isEmpty 127 evs ([], aiOf pref)).1 = 0) :
    ∃ s', ledInput pref post s =
        Res.ok (inputLine pref post (runScript (prefRest pref).isEmpty 127 evs ([], aiOf pref)).1
                  (runScript (prefRest pref).isEmpty 127 evs ([], aiOf pref)).2, post) s' ∧
      pending s' = rest ∧ Reads true (scriptKeys evs ++ [e]) s s' :=
  ledInput_script pref post s evs e rest hp hok he hfuel hk hnl

/-- `ledInput_single_line`: typed text `cs` (valid UTF-8, no control characters) and ESC -/
theorem ledInput_single_line (pref post : Bytes) (s : VS) (cs : List Nat) (rest : Bytes)
    (hp : pending s = encStr cs ++ [27] ++ rest) (hpl : ∀ c ∈ cs, ValidCp c ∧ 32 ≤ c ∧ c ≠ 127)
    (hlen : cs.length < 100000) (hk : s.xkmap = 0) :
    ∃ s', ledInput pref post s = Res.ok (inputLine pref post (encStr cs) (aiOf pref), post) s' ∧
      pending s' = rest ∧ Reads true (encStr cs ++ [27]) s s' :=
  ledInput_text pref post s cs rest hp hpl hlen hk

/-- `viInput_single_line`: prefix `encStr ps` (no newline), rest of the line `encStr qs`, typed text
`cs`, auto-indent kept: the replacement text is prefix ++ text ++ rest, the row count is the number of
newlines of the rest (1 for the rest of a buffer line), the offset that of the last typed character -/
theorem viInput_single_line (ps qs : List Nat) (s : VS) (cs : List Nat) (rest : Bytes)
    (hps : ∀ c ∈ ps, ValidCp c) (hqs : ∀ c ∈ qs, ValidCp c) (hps10 : 10 ∉ ps)
    (hp : pending s = encStr cs ++ [27] ++ rest) (hpl : ∀ c ∈ cs, ValidCp c ∧ 32 ≤ c ∧ c ≠ 127)
    (hlen : cs.length < 100000) (hk : s.xkmap = 0)
    (hkeep : keepAi (encStr ps) (encStr qs) (encStr cs) = true) :
    ∃ s', viInput (encStr ps) (encStr qs) s =
        Res.ok (encStr (ps ++ cs ++ qs), (nlCount (encStr qs) : Int),
          if ((ps.length + cs.length : Nat) : Int) - 1 < 0 then 0 else ((ps.length + cs.length : Nat) : Int) - 1) s' ∧
      pending s' = rest ∧ Reads true (encStr cs ++ [27]) s s' :=
  viInput_single_line_aux ps qs s _ cs rest hps hqs hps10 (inputs_text cs hpl hlen) hp (fun c hc => (hpl c hc).1)
    (fun h => by have := hpl 10 h; omega) hk hkeep

/-- `ledInput_two_lines`: text, newline, text, ESC.  `led_input` returns prefix ++ first line ++ newline ++
auto-indent ++ second line ++ rest, where with `autoindent` the auto-indent is `aiOf pref` and the rest of
the line loses its leading blanks (`aiAfterNl`, `postAfterNl`; without it: none, unchanged).  The cursor
row has moved down by one (`vi_nextline`); the text and the registers are untouched. -/
theorem ledInput_two_lines (pref post : Bytes) (s : VS) (cs1 cs2 : List Nat) (rest : Bytes)
    (hp : pending s = encStr cs1 ++ [10] ++ encStr cs2 ++ [27] ++ rest)
    (hpl : ∀ c ∈ cs1 ++ cs2, ValidCp c ∧ 32 ≤ c ∧ c ≠ 127)
    (hne1 : cs1.head? ≠ none ∧ cs1.head? ≠ some 32) (hne2 : cs2.head? ≠ none ∧ cs2.head? ≠ some 32)
    (hlen1 : cs1.length < 100000) (hlen2 : cs2.length < 100000) (hk : s.xkmap = 0) :
    ∃ s', ledInput pref post s =
        Res.ok (pref ++ encStr cs1 ++ [10] ++ aiAfterNl s pref ++ encStr cs2 ++ postAfterNl s post, postAfterNl s post) s' ∧
      pending s' = rest ∧ ReadsEd (encStr cs1 ++ [10] ++ encStr cs2 ++ [27]) s s' ∧
      lines s' = lines s ∧ s'.ed.xrow = s.ed.xrow + 1 ∧ s'.ed.regs = s.ed.regs :=
  Lemmas.C08b.ledInput_two_lines pref post s cs1 cs2 rest hp hpl hne1 hne2 hlen1 hlen2 hk

/-! ### the keys of an insertion

`Inputs K cs`: on every state whose pending keys start with `K` (default keymap), `led_input` consumes
exactly `K` and returns the text `cs` between the prefix and the rest of the line.  The commands below
are stated for any such `K`. -/

/-- what `Inputs` says -/
theorem inputs_iff (K : Bytes) (cs : List Nat) : Inputs K cs ↔
    ∀ (pref post : Bytes) (s : VS) (rest : Bytes), pending s = K ++ rest → s.xkmap = 0 →
      ∃ s', ledInput pref post s = Res.ok (inputLine pref post (encStr cs) (aiOf pref), post) s' ∧
        pending s' = rest ∧ Reads true K s s' := Iff.rfl

/-- plain text (valid UTF-8, no control characters) and ESC -/
theorem inputs_text (cs : List Nat) (hpl : ∀ c ∈ cs, ValidCp c ∧ 32 ≤ c ∧ c ≠ 127) (hlen : cs.length < 100000) :
    Inputs (encStr cs ++ [27]) cs := Lemmas.C08b.inputs_text cs hpl hlen

/-- any script of text / `^H` / DEL / `^U` / `^W` / `^V c` events that types `cs` (`Types evs cs`: the
events are well formed, fewer than 100000 loop iterations, and `runScript` leaves the encoding of `cs`),
followed by ESC -/
theorem inputs_script (evs : List Ev) (cs : List Nat) (hty : Types evs cs) (h10 : 10 ∉ cs) :
    Inputs (scriptKeys evs ++ [27]) cs := Lemmas.C08b.inputs_script evs cs hty h10

/-- e.g. text, a backspace, more text -/
theorem types_backspace (cs : List Nat) (c : Nat) (cs2 : List Nat)
    (h : ∀ d ∈ cs ++ [c] ++ cs2, ValidCp d ∧ 32 ≤ d ∧ d ≠ 127) (hlen : cs.length + cs2.length + 2 < 100000) :
    Types [Ev.text (cs ++ [c]), Ev.bs, Ev.text cs2] (cs ++ cs2) := Lemmas.C08b.types_backspace cs c cs2 h hlen

/-! ## 3. `vc_insert`: `i a I A` on an existing line

The line under the cursor is `encStr (body ++ [10])` (valid UTF-8; ASCII is the special case
`encStr_ascii`).  The keys `K` type the text `cs` and leave insert mode (`Inputs K cs`): e.g. the plain
text `cs` and ESC (`inputs_text`), or any script of text / `^H` / DEL / `^U` / `^W` / `^V c` events whose
net result is `cs`, and ESC (`inputs_script`).  `cs` is non-empty and does not start with a blank.
`Inserted used s s' r new del row off`: the rows `r .. r+del-1` of `s` were replaced by the lines `new`,
the cursor is `(row, off)`, the registers are unchanged, and apart from the editor record only the key
queue and `icmd` (the keys `used`) differ. -/

/-- what `Inserted` says -/
theorem inserted_iff (used : Bytes) (s s' : VS) (r : Int) (new : List Bytes) (del : Nat) (row off : Int) :
    Inserted used s s' r new del row off ↔
      lines s' = (lines s).take r.toNat ++ new ++ (lines s).drop (r.toNat + del) ∧
      s'.ed.xrow = row ∧ s'.ed.xoff = off ∧ s'.ed.regs = s.ed.regs ∧
      ∃ ib ip ty, s' = { s with ibuf := ib, ibufPos := ip, typed := ty, icmd := icmdAfterL s.icmd used, ed := s'.ed } :=
  ⟨fun h => ⟨h.lines, h.xrow, h.xoff, h.regs, h.frame⟩, fun h => ⟨h.1, h.2.1, h.2.2.1, h.2.2.2.1, h.2.2.2.2⟩⟩

/-- `vcInsert_i_spec`: `i` with the cursor on character `o` inserts the text before that character;
the cursor ends on the last typed character -/
theorem vcInsert_i_spec (s : VS) (body cs : List Nat) (o : Nat) (K rest : Bytes)
    (hr0 : 0 ≤ s.ed.xrow) (hline : (lines s)[s.ed.xrow.toNat]? = some (encStr (body ++ [10])))
    (hb : ∀ c ∈ body, ValidCp c) (hb10 : 10 ∉ body) (ho : s.ed.xoff = (o : Int)) (hol : o < body.length)
    (hin : Inputs K cs) (hp : pending s = K ++ rest) (hpl : ∀ c ∈ cs, ValidCp c) (h10 : 10 ∉ cs)
    (hne : cs.head? ≠ none ∧ cs.head? ≠ some 32 ∧ cs.head? ≠ some 9) (hk : s.xkmap = 0) :
    ∃ s', vcInsert 105 s = Res.ok VC_OK s' ∧ pending s' = rest ∧
      Inserted K s s' s.ed.xrow [encStr (body.take o ++ cs ++ (body.drop o ++ [10]))] 1 s.ed.xrow
        ((o : Int) + cs.length - 1) := by
  obtain ⟨c0, t0, rfl⟩ : ∃ c t, body = c :: t := by
    cases body with
    | nil => simp at hol
    | cons c t => exact ⟨c, t, rfl⟩
  have hl := lineOf_of_get s _ _ hr0 hline
  have hhd := headD_line_ne_ten c0 t0 hb10
  have hx := renNoeol_body (c0 :: t0) hb hb10 o hol
  obtain ⟨e1, e2⟩ := subI_line (c0 :: t0) hb o (by omega)
  rw [vcInsert_i_red s _ _ _ hl (by rw [hhd, ho, hx]; exact e1) (by rw [hhd, ho, hx]; exact e2)]
  exact insertTail_at s _ (c0 :: t0) cs o K rest hr0 hline hb hb10 (by omega) hin hp hpl h10 hne hk

/-- `vcInsert_a_spec`: `a` inserts after the cursor character -/
theorem vcInsert_a_spec (s : VS) (body cs : List Nat) (o : Nat) (K rest : Bytes)
    (hr0 : 0 ≤ s.ed.xrow) (hline : (lines s)[s.ed.xrow.toNat]? = some (encStr (body ++ [10])))
    (hb : ∀ c ∈ body, ValidCp c) (hb10 : 10 ∉ body) (ho : s.ed.xoff = (o : Int)) (hol : o < body.length)
    (hin : Inputs K cs) (hp : pending s = K ++ rest) (hpl : ∀ c ∈ cs, ValidCp c) (h10 : 10 ∉ cs)
    (hne : cs.head? ≠ none ∧ cs.head? ≠ some 32 ∧ cs.head? ≠ some 9) (hk : s.xkmap = 0) :
    ∃ s', vcInsert 97 s = Res.ok VC_OK s' ∧ pending s' = rest ∧
      Inserted K s s' s.ed.xrow
        [encStr (body.take (o + 1) ++ cs ++ (body.drop (o + 1) ++ [10]))] 1 s.ed.xrow ((o : Int) + cs.length) := by
  obtain ⟨c0, t0, rfl⟩ : ∃ c t, body = c :: t := by
    cases body with
    | nil => simp at hol
    | cons c t => exact ⟨c, t, rfl⟩
  have hl := lineOf_of_get s _ _ hr0 hline
  have hhd := headD_line_ne_ten c0 t0 hb10
  have hx := renNoeol_body (c0 :: t0) hb hb10 o hol
  obtain ⟨e1, e2⟩ := subI_line (c0 :: t0) hb (o + 1) (by omega)
  rw [vcInsert_a_red s _ _ _ hl (by rw [hhd, ho, hx]; exact e1) (by rw [hhd, ho, hx]; exact e2)]
  obtain ⟨s', h1, h2, h3⟩ := insertTail_at s (Ren.renNoeol (encStr (c0 :: t0 ++ [10])) s.ed.xoff) (c0 :: t0) cs (o + 1)
    K rest hr0 hline hb hb10 (by omega) hin hp hpl h10 hne hk
  refine ⟨s', h1, h2, ?_⟩
  rw [show (o : Int) + cs.length = ((o + 1 : Nat) : Int) + cs.length - 1 by omega]
  exact h3

/-- `vcInsert_A_spec`: `A` appends at the end of the (non-empty) line, wherever the cursor is -/
theorem vcInsert_A_spec (s : VS) (body cs : List Nat) (K rest : Bytes)
    (hr0 : 0 ≤ s.ed.xrow) (hline : (lines s)[s.ed.xrow.toNat]? = some (encStr (body ++ [10])))
    (hb : ∀ c ∈ body, ValidCp c) (hb10 : 10 ∉ body) (hbne : body ≠ [])
    (hin : Inputs K cs) (hp : pending s = K ++ rest) (hpl : ∀ c ∈ cs, ValidCp c) (h10 : 10 ∉ cs)
    (hne : cs.head? ≠ none ∧ cs.head? ≠ some 32 ∧ cs.head? ≠ some 9) (hk : s.xkmap = 0) :
    ∃ s', vcInsert 65 s = Res.ok VC_OK s' ∧ pending s' = rest ∧
      Inserted K s s' s.ed.xrow [encStr (body ++ cs ++ [10])] 1 s.ed.xrow
        ((body.length : Int) + cs.length - 1) := by
  obtain ⟨c0, t0, rfl⟩ : ∃ c t, body = c :: t := by
    cases body with
    | nil => exact absurd rfl hbne
    | cons c t => exact ⟨c, t, rfl⟩
  have hl := lineOf_of_get s _ _ hr0 hline
  have hhd := headD_line_ne_ten c0 t0 hb10
  have he := eol_line s _ (c0 :: t0) hr0 hb hline
  have hx := renNoeol_eol (c0 :: t0) hb hbne
  obtain ⟨e1, e2⟩ := subI_line (c0 :: t0) hb (c0 :: t0).length (Nat.le_refl _)
  have hoff : Ren.renNoeol (encStr (c0 :: t0 ++ [10])) (Mot.eol (lines s) s.ed.xrow) + 1 = ((c0 :: t0).length : Int) := by
    rw [he, hx]; omega
  rw [vcInsert_A_red s _ _ _ hl (by rw [hhd]; simp only [Bool.false_eq_true, if_false]; rw [hoff]; exact e1)
    (by rw [hhd]; simp only [Bool.false_eq_true, if_false]; rw [hoff]; exact e2)]
  obtain ⟨s', h1, h2, h3⟩ := insertTail_at s (Ren.renNoeol (encStr (c0 :: t0 ++ [10])) (Mot.eol (lines s) s.ed.xrow))
    (c0 :: t0) cs (c0 :: t0).length K rest hr0 hline hb hb10 (Nat.le_refl _) hin hp hpl h10 hne hk
  refine ⟨s', h1, h2, ?_⟩
  rw [List.take_length, List.drop_length, List.nil_append] at h3
  exact h3

/-- `vcInsert_I_spec`: `I` inserts before the first non-blank character (at character offset `k`, the
number of leading white-space characters; the line is not all blank) -/
theorem vcInsert_I_spec (s : VS) (body cs : List Nat) (K rest : Bytes)
    (hr0 : 0 ≤ s.ed.xrow) (hline : (lines s)[s.ed.xrow.toNat]? = some (encStr (body ++ [10])))
    (hb : ∀ c ∈ body, ValidCp c) (hb10 : 10 ∉ body)
    (hk' : (body.takeWhile ucIsSpace).length < body.length)
    (hin : Inputs K cs) (hp : pending s = K ++ rest) (hpl : ∀ c ∈ cs, ValidCp c) (h10 : 10 ∉ cs)
    (hne : cs.head? ≠ none ∧ cs.head? ≠ some 32 ∧ cs.head? ≠ some 9) (hk : s.xkmap = 0) :
    ∃ s', vcInsert 73 s = Res.ok VC_OK s' ∧ pending s' = rest ∧
      Inserted K s s' s.ed.xrow
        [encStr (body.take (body.takeWhile ucIsSpace).length ++ cs ++ (body.drop (body.takeWhile ucIsSpace).length ++ [10]))]
        1 s.ed.xrow (((body.takeWhile ucIsSpace).length : Int) + cs.length - 1) := by
  obtain ⟨c0, t0, rfl⟩ : ∃ c t, body = c :: t := by
    cases body with
    | nil => simp at hk'
    | cons c t => exact ⟨c, t, rfl⟩
  have hl := lineOf_of_get s _ _ hr0 hline
  have hhd := headD_line_ne_ten c0 t0 hb10
  have hi := indents_line s _ (c0 :: t0) hr0 hb hb10 hline hk'
  have hx := renNoeol_body (c0 :: t0) hb hb10 _ hk'
  obtain ⟨e1, e2⟩ := subI_line (c0 :: t0) hb _ (Nat.le_of_lt hk')
  rw [vcInsert_I_red s _ _ _ hl (by rw [hhd, hi, hx]; exact e1) (by rw [hhd, hi, hx]; exact e2)]
  exact insertTail_at s _ (c0 :: t0) cs _ K rest hr0 hline hb hb10 (Nat.le_of_lt hk') hin hp hpl h10 hne hk

/-- on an empty line `i`, `a`, `I`, `A` all type the text at its start -/
theorem vcInsert_emptyline_spec (cmd : Nat) (hcmd : cmd = 105 ∨ cmd = 97 ∨ cmd = 73 ∨ cmd = 65)
    (s : VS) (cs : List Nat) (K rest : Bytes)
    (hr0 : 0 ≤ s.ed.xrow) (hline : (lines s)[s.ed.xrow.toNat]? = some [10])
    (hin : Inputs K cs) (hp : pending s = K ++ rest) (hpl : ∀ c ∈ cs, ValidCp c) (h10 : 10 ∉ cs)
    (hne : cs.head? ≠ none ∧ cs.head? ≠ some 32 ∧ cs.head? ≠ some 9) (hk : s.xkmap = 0) :
    ∃ s', vcInsert cmd s = Res.ok VC_OK s' ∧ pending s' = rest ∧
      Inserted K s s' s.ed.xrow [encStr (cs ++ [10])] 1 s.ed.xrow ((cs.length : Int) - 1) := by
  have hl := lineOf_of_get s _ _ hr0 hline
  have e1 : subI [10] 0 0 = some [] := (subI_line [] (by simp) 0 (Nat.le_refl _)).1
  have e2 : subI [10] 0 (-1) = some [10] := (subI_line [] (by simp) 0 (Nat.le_refl _)).2
  have hh : (([10] : Bytes).headD 0 == 10) = true := rfl
  have key : ∀ x : Int, ∃ s', insertTail [] [10] { s with ed := { s.ed with xoff := x } } = Res.ok VC_OK s' ∧
      pending s' = rest ∧
      Inserted K s s' s.ed.xrow [encStr (cs ++ [10])] 1 s.ed.xrow ((cs.length : Int) - 1) := by
    intro x
    obtain ⟨s', h1, h2, h3⟩ := insertTail_at s x [] cs 0 K rest hr0 hline (by simp) (by simp) (Nat.le_refl _) hin hp hpl h10 hne hk
    refine ⟨s', h1, h2, ?_⟩
    simpa using h3
  rcases hcmd with rfl | rfl | rfl | rfl
  · rw [vcInsert_i_red s _ _ _ hl (by rw [hh]; exact e1) (by rw [hh]; exact e2)]; exact key _
  · rw [vcInsert_a_red s _ _ _ hl (by rw [hh]; exact e1) (by rw [hh]; exact e2)]; exact key _
  · rw [vcInsert_I_red s _ _ _ hl (by rw [hh]; exact e1) (by rw [hh]; exact e2)]; exact key _
  · rw [vcInsert_A_red s _ _ _ hl (by rw [hh]; exact e1) (by rw [hh]; exact e2)]; exact key _

/-- `vcInsert_i_plain`: the ASCII form.  The line is `w ++ [10]` (bytes 1..127, no newline), the cursor
is on byte `o`, the keys are the printable text `txt` (non-empty, not starting with a space) and ESC:
the line becomes `w.take o ++ txt ++ w.drop o ++ [10]`, the other lines are unchanged, the cursor ends
on the last typed character -/
theorem vcInsert_i_plain (s : VS) (w txt : Bytes) (o : Nat) (rest : Bytes)
    (hr0 : 0 ≤ s.ed.xrow) (hline : (lines s)[s.ed.xrow.toNat]? = some (w ++ [10]))
    (hw : ∀ b ∈ w, 0 < b ∧ b < 128 ∧ b ≠ 10) (ho : s.ed.xoff = (o : Int)) (hol : o < w.length)
    (hp : pending s = txt ++ [27] ++ rest) (hpl : ∀ b ∈ txt, 32 ≤ b ∧ b < 127)
    (hne : txt ≠ [] ∧ txt.head? ≠ some 32) (hlen : txt.length < 100000) (hk : s.xkmap = 0) :
    ∃ s', vcInsert 105 s = Res.ok VC_OK s' ∧ pending s' = rest ∧
      lines s' = (lines s).take s.ed.xrow.toNat ++ [w.take o ++ txt ++ w.drop o ++ [10]] ++
        (lines s).drop (s.ed.xrow.toNat + 1) ∧
      s'.ed.xrow = s.ed.xrow ∧ s'.ed.xoff = (o : Int) + txt.length - 1 ∧ s'.ed.regs = s.ed.regs := by
  have e1 : encStr (w ++ [10]) = w ++ [10] := encStr_ascii _ (fun b hb => by
    rcases List.mem_append.mp hb with hb | hb
    · exact (hw b hb).2.1
    · simp at hb; omega)
  have e2 : encStr txt = txt := encStr_ascii _ (fun b hb => by have := hpl b hb; omega)
  have e3 : encStr (w.take o ++ txt ++ (w.drop o ++ [10])) = w.take o ++ txt ++ w.drop o ++ [10] := by
    rw [encStr_ascii _ (fun b hb => by
      rcases List.mem_append.mp hb with hb | hb
      · rcases List.mem_append.mp hb with hb | hb
        · exact (hw b (List.mem_of_mem_take hb)).2.1
        · have := hpl b hb; omega
      · rcases List.mem_append.mp hb with hb | hb
        · exact (hw b (List.mem_of_mem_drop hb)).2.1
        · simp at hb; omega)]
    simp
  have hplv : ∀ c ∈ txt, ValidCp c ∧ 32 ≤ c ∧ c ≠ 127 := fun c hc => by
    have := hpl c hc; exact ⟨⟨by omega, by omega⟩, by omega, by omega⟩
  obtain ⟨s', h1, h2, h3⟩ := vcInsert_i_spec s w txt o (txt ++ [27]) rest hr0 (by rw [e1]; exact hline)
    (fun c hc => ⟨(hw c hc).1, by have := (hw c hc).2.1; omega⟩) (fun h => (hw 10 h).2.2 rfl) ho hol
    (by have := inputs_text txt hplv hlen; rw [e2] at this; exact this) (by rw [hp])
    (fun c hc => (hplv c hc).1) (fun h => by have := hpl 10 h; omega)
    (by
      cases txt with
      | nil => exact absurd rfl hne.1
      | cons b t =>
        have := hpl b (by simp)
        refine ⟨by simp, hne.2, ?_⟩
        simp; omega) hk
  rw [e3] at h3
  exact ⟨s', h1, h2, h3.lines, h3.xrow, h3.xoff, h3.regs⟩

/-- an instance with an editing key: `i`, the text `cs ++ [c]`, `^H`, the text `cs2`, ESC inserts `cs ++ cs2` -/
theorem vcInsert_i_backspace (s : VS) (body cs : List Nat) (c : Nat) (cs2 : List Nat) (o : Nat) (rest : Bytes)
    (hr0 : 0 ≤ s.ed.xrow) (hline : (lines s)[s.ed.xrow.toNat]? = some (encStr (body ++ [10])))
    (hb : ∀ c ∈ body, ValidCp c) (hb10 : 10 ∉ body) (ho : s.ed.xoff = (o : Int)) (hol : o < body.length)
    (hp : pending s = encStr (cs ++ [c]) ++ [8] ++ encStr cs2 ++ [27] ++ rest)
    (hpl : ∀ d ∈ cs ++ [c] ++ cs2, ValidCp d ∧ 32 ≤ d ∧ d ≠ 127)
    (hne : (cs ++ cs2).head? ≠ none ∧ (cs ++ cs2).head? ≠ some 32)
    (hlen : cs.length + cs2.length + 2 < 100000) (hk : s.xkmap = 0) :
    ∃ s', vcInsert 105 s = Res.ok VC_OK s' ∧ pending s' = rest ∧
      Inserted (encStr (cs ++ [c]) ++ [8] ++ encStr cs2 ++ [27]) s s' s.ed.xrow
        [encStr (body.take o ++ (cs ++ cs2) ++ (body.drop o ++ [10]))] 1 s.ed.xrow
        ((o : Int) + (cs ++ cs2).length - 1) := by
  have hmem : ∀ d ∈ cs ++ cs2, d ∈ cs ++ [c] ++ cs2 := by
    intro d hd
    rcases List.mem_append.mp hd with hd | hd
    · exact List.mem_append_left _ (List.mem_append_left _ hd)
    · exact List.mem_append_right _ hd
  have h10 : 10 ∉ cs ++ cs2 := fun h => by have := hpl 10 (hmem 10 h); omega
  have hin := inputs_script _ _ (types_backspace cs c cs2 hpl hlen) h10
  have hkeys : scriptKeys [Ev.text (cs ++ [c]), Ev.bs, Ev.text cs2] ++ [27] =
      encStr (cs ++ [c]) ++ [8] ++ encStr cs2 ++ [27] := by simp [scriptKeys, Ev.keys]
  rw [hkeys] at hin
  exact vcInsert_i_spec s body (cs ++ cs2) o _ rest hr0 hline hb hb10 ho hol hin (by rw [hp])
    (fun d hd => (hpl d (hmem d hd)).1) h10
    (by
      refine ⟨hne.1, hne.2, ?_⟩
      cases hh : (cs ++ cs2) with
      | nil => simp
      | cons b t =>
        have := hpl b (hmem b (by rw [hh]; simp))
        simp; omega) hk

/-- `vcInsert_i_newline_spec`: `i`, text, newline, text, ESC splits the line at the cursor: the row
becomes head ++ first text, and a new row below holds auto-indent ++ second text ++ tail, where with
`autoindent` the auto-indent is the leading blanks of the head (at most 127) and the tail loses its leading
blanks (`aiCp`, `postCp`); the cursor goes to the last typed character on the new row -/
theorem vcInsert_i_newline_spec (s : VS) (body cs1 cs2 : List Nat) (o : Nat) (rest : Bytes)
    (hr0 : 0 ≤ s.ed.xrow) (hline : (lines s)[s.ed.xrow.toNat]? = some (encStr (body ++ [10])))
    (hb : ∀ c ∈ body, ValidCp c) (hb10 : 10 ∉ body) (ho : s.ed.xoff = (o : Int)) (hol : o < body.length)
    (hp : pending s = encStr cs1 ++ [10] ++ encStr cs2 ++ [27] ++ rest)
    (hpl : ∀ c ∈ cs1 ++ cs2, ValidCp c ∧ 32 ≤ c ∧ c ≠ 127)
    (hne1 : cs1.head? ≠ none ∧ cs1.head? ≠ some 32) (hne2 : cs2.head? ≠ none ∧ cs2.head? ≠ some 32)
    (hlen1 : cs1.length < 100000) (hlen2 : cs2.length < 100000) (hk : s.xkmap = 0) :
    ∃ s', vcInsert 105 s = Res.ok VC_OK s' ∧ pending s' = rest ∧
      Inserted (encStr cs1 ++ [10] ++ encStr cs2 ++ [27]) s s' s.ed.xrow
        [encStr (body.take o ++ cs1 ++ [10]),
         encStr (aiCp s (body.take o) ++ cs2 ++ (postCp s (body.drop o) ++ [10]))] 1 (s.ed.xrow + 1)
        (((aiCp s (body.take o)).length : Int) + cs2.length - 1) := by
  obtain ⟨c0, t0, rfl⟩ : ∃ c t, body = c :: t := by
    cases body with
    | nil => simp at hol
    | cons c t => exact ⟨c, t, rfl⟩
  have hl := lineOf_of_get s _ _ hr0 hline
  have hhd := headD_line_ne_ten c0 t0 hb10
  have hx := renNoeol_body (c0 :: t0) hb hb10 o hol
  obtain ⟨e1, e2⟩ := subI_line (c0 :: t0) hb o (by omega)
  rw [vcInsert_i_red s _ _ _ hl (by rw [hhd, ho, hx]; exact e1) (by rw [hhd, ho, hx]; exact e2)]
  obtain ⟨s', h1, h2, h3⟩ := insertTail_two ((c0 :: t0).take o) ((c0 :: t0).drop o) cs1 cs2
    { s with ed := { s.ed with xoff := Ren.renNoeol (encStr (c0 :: t0 ++ [10])) s.ed.xoff } } rest _ hr0 hline
    (fun d hd => hb d (List.mem_of_mem_take hd)) (fun d hd => hb d (List.mem_of_mem_drop hd))
    (fun h => hb10 (List.mem_of_mem_take h)) (fun h => hb10 (List.mem_of_mem_drop h)) hp hpl hne1 hne2 hlen1 hlen2 hk
  exact ⟨s', h1, h2, h3.of_ed rfl rfl⟩

/-! ### `o`, `O` -/

/-- `vcInsert_o_spec`: `o` opens a line below the current one, containing the indentation of the
current line (`indentOf`: its leading blanks when `autoindent` is set) followed by the text; the cursor
goes to the new line, on the last typed character -/
theorem vcInsert_o_spec (s : VS) (body cs : List Nat) (K rest : Bytes)
    (hr0 : 0 ≤ s.ed.xrow) (hline : (lines s)[s.ed.xrow.toNat]? = some (encStr (body ++ [10])))
    (hb : ∀ c ∈ body, ValidCp c) (hb10 : 10 ∉ body)
    (hin : Inputs K cs) (hp : pending s = K ++ rest) (hpl : ∀ c ∈ cs, ValidCp c) (h10 : 10 ∉ cs)
    (hne : cs.head? ≠ none ∧ cs.head? ≠ some 32 ∧ cs.head? ≠ some 9) (hk : s.xkmap = 0) :
    ∃ s', vcInsert 111 s = Res.ok VC_OK s' ∧ pending s' = rest ∧
      Inserted K s s' (s.ed.xrow + 1) [encStr (indentOf s body ++ cs ++ [10])] 0 (s.ed.xrow + 1)
        (((indentOf s body).length : Int) + cs.length - 1) := by
  have hl := lineOf_of_get s _ _ hr0 hline
  obtain ⟨lb, hlb⟩ := lb_of_line s _ _ hline
  have hrlt : s.ed.xrow.toNat < (lines s).length := (List.getElem?_eq_some_iff.mp hline).1
  obtain ⟨hi, hi10⟩ := indentOf_valid s body hb hb10
  rw [vcInsert_o_red s _ hl, viIndents_line s body hb]
  obtain ⟨ed1, he1, hx1, hb1, hr1⟩ := nextlineSt_eq { s with ed := { s.ed with xoff := Ren.renNoeol (encStr (body ++ [10])) s.ed.xoff } }
  rw [he1]
  have hlines : lines { s with ed := ed1 } = lines s := lines_of_bufs s ed1 hb1
  obtain ⟨s', h1, h2, h3⟩ := openTail_spec (indentOf s body) cs { s with ed := ed1 } K rest lb
    (by rw [lb_of_bufs s ed1 hb1]; exact hlb)
    (by show 0 ≤ ed1.xrow; rw [hx1]; show 0 ≤ s.ed.xrow + 1; omega)
    (by show ed1.xrow ≤ lenOf _; unfold lenOf; rw [hlines, hx1]; show s.ed.xrow + 1 ≤ _; omega)
    (by unfold lenOf; rw [hlines]; omega) hi hi10 hin hp hpl h10 hne hk
  refine ⟨s', h1, h2, ?_⟩
  have hx : ({ s with ed := ed1 } : VS).ed.xrow = s.ed.xrow + 1 := hx1
  rw [hx] at h3
  exact h3.of_ed hb1 hr1

/-- `O` opens the line above -/
theorem vcInsert_O_spec (s : VS) (body cs : List Nat) (K rest : Bytes)
    (hr0 : 0 ≤ s.ed.xrow) (hline : (lines s)[s.ed.xrow.toNat]? = some (encStr (body ++ [10])))
    (hb : ∀ c ∈ body, ValidCp c) (hb10 : 10 ∉ body)
    (hin : Inputs K cs) (hp : pending s = K ++ rest) (hpl : ∀ c ∈ cs, ValidCp c) (h10 : 10 ∉ cs)
    (hne : cs.head? ≠ none ∧ cs.head? ≠ some 32 ∧ cs.head? ≠ some 9) (hk : s.xkmap = 0) :
    ∃ s', vcInsert 79 s = Res.ok VC_OK s' ∧ pending s' = rest ∧
      Inserted K s s' s.ed.xrow [encStr (indentOf s body ++ cs ++ [10])] 0 s.ed.xrow
        (((indentOf s body).length : Int) + cs.length - 1) := by
  have hl := lineOf_of_get s _ _ hr0 hline
  obtain ⟨lb, hlb⟩ := lb_of_line s _ _ hline
  have hrlt : s.ed.xrow.toNat < (lines s).length := (List.getElem?_eq_some_iff.mp hline).1
  obtain ⟨hi, hi10⟩ := indentOf_valid s body hb hb10
  rw [vcInsert_O_red s _ hl, viIndents_line s body hb]
  obtain ⟨s', h1, h2, h3⟩ := openTail_spec (indentOf s body) cs
    { s with ed := { s.ed with xoff := Ren.renNoeol (encStr (body ++ [10])) s.ed.xoff } } K rest lb hlb hr0
    (by show s.ed.xrow ≤ ((lines s).length : Int); omega) (by show ((lines s).length : Int) ≠ 0; omega)
    hi hi10 hin hp hpl h10 hne hk
  exact ⟨s', h1, h2, h3.of_ed rfl rfl⟩

/-! ## 4. `vi_change` (`c`, and through it `s`, `C`) -/

/-- `viChange_char_spec`: `c` over the characters `o1 .. o2-1` of one line.  The register named by the
prefix receives the region (character mode); then the text is typed in place of the region: the line
becomes head ++ text ++ tail, the cursor ends on the last typed character.  (`Inserted` is stated from the
state with the register already set.) -/
theorem viChange_char_spec (s : VS) (r : Int) (body cs : List Nat) (o1 o2 : Nat) (K rest : Bytes)
    (hr0 : 0 ≤ r) (hline : (lines s)[r.toNat]? = some (encStr (body ++ [10])))
    (hb : ∀ c ∈ body, ValidCp c) (hb10 : 10 ∉ body) (ho12 : o1 ≤ o2) (ho2 : o2 ≤ body.length)
    (hin : Inputs K cs) (hp : pending s = K ++ rest) (hpl : ∀ c ∈ cs, ValidCp c) (h10 : 10 ∉ cs)
    (hne : cs.head? ≠ none ∧ cs.head? ≠ some 32 ∧ cs.head? ≠ some 9) (hk : s.xkmap = 0) :
    ∃ s', viChange r o1 r o2 false s = Res.ok VC_OK s' ∧ pending s' = rest ∧
      s'.ed.regs = s.ed.regs.put s.ybuf (encStr ((body.take o2).drop o1)) 0 ∧
      Inserted K
        { s with ed := { s.ed with regs := s.ed.regs.put s.ybuf (encStr ((body.take o2).drop o1)) 0 } } s' r
        [encStr (body.take o1 ++ cs ++ (body.drop o2 ++ [10]))] 1 r ((o1 : Int) + cs.length - 1) := by
  have hl := lineOf_of_get s _ _ hr0 hline
  have hlE : lineE s r = encStr (body ++ [10]) := lineE_eq s r hr0 _ hline
  obtain ⟨lb, hlb⟩ := lb_of_line s _ _ hline
  have hrlt : r.toNat < (lines s).length := (List.getElem?_eq_some_iff.mp hline).1
  have hv := valid_snoc_ten hb
  have hreg : lbufRegion s r o1 r o2 = some (encStr ((body.take o2).drop o1)) := by
    rw [Lemmas.C08.lbufRegion_single, hlE, subI_enc hv o1 o2 ho12 (by simp; omega),
      List.take_append_of_le_length ho2]
  obtain ⟨e1, -⟩ := subI_line body hb o1 (by omega)
  obtain ⟨-, e2⟩ := subI_line body hb o2 ho2
  rw [viChange_char_red r o1 r o2 s _ _ _ _ hreg (by rw [hlE]; exact e1) hl (by rw [hlE]; exact e2)]
  obtain ⟨s', h1, h2, h3⟩ := changeTail_spec (body.take o1) (body.drop o2) cs
    { s with ed := { s.ed with regs := s.ed.regs.put s.ybuf (encStr ((body.take o2).drop o1)) 0 } } r r K rest lb hlb
    hr0 (Int.le_refl _) (by show r < ((lines s).length : Int); omega)
    (fun d hd => hb d (List.mem_of_mem_take hd)) (fun d hd => hb d (List.mem_of_mem_drop hd))
    (fun h => hb10 (List.mem_of_mem_take h)) (fun h => hb10 (List.mem_of_mem_drop h)) hin hp hpl h10 hne hk
  refine ⟨s', h1, h2, h3.regs, ?_⟩
  have hl1 : (body.take o1).length = o1 := by rw [List.length_take]; omega
  rw [hl1, show r.toNat - r.toNat + 1 = 1 by omega] at h3
  exact h3

/-- `viChange_line_spec`: line-wise `c` on one row (`cc`, `S`): the register receives the whole line in
line mode, the row becomes the indentation of the old line followed by the text -/
theorem viChange_line_spec (s : VS) (r o1 o2 : Int) (body cs : List Nat) (K rest : Bytes)
    (hr0 : 0 ≤ r) (hline : (lines s)[r.toNat]? = some (encStr (body ++ [10])))
    (hb : ∀ c ∈ body, ValidCp c) (hb10 : 10 ∉ body)
    (hin : Inputs K cs) (hp : pending s = K ++ rest) (hpl : ∀ c ∈ cs, ValidCp c) (h10 : 10 ∉ cs)
    (hne : cs.head? ≠ none ∧ cs.head? ≠ some 32 ∧ cs.head? ≠ some 9) (hk : s.xkmap = 0) :
    ∃ s', viChange r o1 r o2 true s = Res.ok VC_OK s' ∧ pending s' = rest ∧
      s'.ed.regs = s.ed.regs.put s.ybuf (encStr (body ++ [10])) 1 ∧
      Inserted K
        { s with ed := { s.ed with regs := s.ed.regs.put s.ybuf (encStr (body ++ [10])) 1 } } s' r
        [encStr (indentOf s body ++ cs ++ [10])] 1 r (((indentOf s body).length : Int) + cs.length - 1) := by
  have hl := lineOf_of_get s _ _ hr0 hline
  obtain ⟨lb, hlb⟩ := lb_of_line s _ _ hline
  have hrlt : r.toNat < (lines s).length := (List.getElem?_eq_some_iff.mp hline).1
  have hreg : lbufRegion s r 0 r (-1) = some (encStr (body ++ [10])) := by
    rw [Lemmas.C08.lbufRegion_lines s r r hr0 (Int.le_refl _) (by show r < ((lines s).length : Int); omega)]
    rw [show r.toNat - r.toNat + 1 = 1 by omega, List.take_one, List.head?_drop, hline]
    simp
  obtain ⟨hi, hi10⟩ := indentOf_valid s body hb hb10
  rw [viChange_line_red r o1 r o2 s _ hreg, hl, viIndents_line s body hb]
  obtain ⟨s', h1, h2, h3⟩ := changeTail_spec (indentOf s body) [] cs
    { s with ed := { s.ed with regs := s.ed.regs.put s.ybuf (encStr (body ++ [10])) 1 } } r r K rest lb hlb
    hr0 (Int.le_refl _) (by show r < ((lines s).length : Int); omega) hi (by simp) hi10 (by simp) hin hp hpl h10 hne hk
  refine ⟨s', h1, h2, h3.regs, ?_⟩
  rw [show r.toNat - r.toNat + 1 = 1 by omega] at h3
  exact h3

/-! ## 5. `vc_join` (`J`) -/

/-- `join_spaces(prev, next)`: no space when the first line is empty, ends in a space, or the second
starts with `)`; two after a full stop; else one -/
theorem joinSpaces_spec (prev next : Bytes) :
    (prev = [] → joinSpaces prev next = 0) ∧
    (prev ≠ [] → (prev.getLast? = some 32 ∨ next.headD 0 = 41) → joinSpaces prev next = 0) ∧
    (prev ≠ [] → prev.getLast? ≠ some 32 → next.headD 0 ≠ 41 → prev.getLast? = some 46 → joinSpaces prev next = 2) ∧
    (prev ≠ [] → prev.getLast? ≠ some 32 → next.headD 0 ≠ 41 → prev.getLast? ≠ some 46 → joinSpaces prev next = 1) :=
  joinSpaces_rule prev next

/-- `vcJoin_spec`: `J` (count ≤ 2) on the rows `a ++ [10]`, `b ++ [10]`: they become the one row
`a ++ spaces ++ (b without its leading blanks) ++ [10]`; the cursor goes to the character after `a`;
nothing but the buffer and the cursor offset changes -/
theorem vcJoin_spec (s : VS) (a b : Bytes) (hr0 : 0 ≤ s.ed.xrow)
    (h1 : (lines s)[s.ed.xrow.toNat]? = some (a ++ [10]))
    (h2 : (lines s)[s.ed.xrow.toNat + 1]? = some (b ++ [10])) (ha : 10 ∉ a) (hb : 10 ∉ b) (harg : s.arg1 ≤ 1) :
    ∃ s', vcJoin s = Res.ok VC_OK s' ∧
      lines s' = (lines s).take s.ed.xrow.toNat ++
        [a ++ List.replicate (joinSpaces a (b.dropWhile isBlankC ++ [10])) 32 ++ b.dropWhile isBlankC ++ [10]] ++
        (lines s).drop (s.ed.xrow.toNat + 2) ∧
      s'.ed.xoff = (ucSlen a : Int) ∧ s'.ed.xrow = s.ed.xrow ∧ s'.ed.regs = s.ed.regs ∧
      s' = { s with ed := s'.ed } := by
  have hl1 : lineOf s s.ed.xrow = some (a ++ [10]) := lineOf_of_get s _ _ hr0 h1
  have hl2 : lineOf s (s.ed.xrow + 2 - 1) = some (b ++ [10]) := lineOf_of_get s _ _ (by omega) (by
    rw [show (s.ed.xrow + 2 - 1).toNat = s.ed.xrow.toNat + 1 by omega]; exact h2)
  have hE1 : lineE s s.ed.xrow = a ++ [10] := lineE_eq s _ hr0 _ h1
  have hE2 : lineE s (s.ed.xrow + 1) = b ++ [10] := lineE_eq s _ (by omega) _ (by
    rw [show (s.ed.xrow + 1).toNat = s.ed.xrow.toNat + 1 by omega]; exact h2)
  obtain ⟨lb, hlb⟩ := lb_of_line s _ _ h1
  have hlt : s.ed.xrow.toNat + 1 < (lines s).length := (List.getElem?_eq_some_iff.mp h2).1
  have hgo := join_go_two s s.ed.xrow a b ha hb hE1 hE2
  obtain ⟨ed', he1, he2, he3⟩ := edEdit_spec s
    (a ++ List.replicate (joinSpaces a (b.dropWhile isBlankC ++ [10])) 32 ++ b.dropWhile isBlankC ++ [10])
    s.ed.xrow (s.ed.xrow + 2) lb hlb hr0 (by omega) (by show s.ed.xrow + 2 ≤ ((lines s).length : Int); omega)
  refine ⟨{ s with ed := { ed' with xoff := (ucSlen a : Int) } }, ?_, ?_, rfl, ?_, ?_, rfl⟩
  · unfold vcJoin
    simp only [bind_apply, get_apply, harg, if_true, hl1, hl2, Option.isNone_some, Bool.or_self, Bool.false_eq_true,
      if_false, show Int.toNat 2 + 1 = 3 from rfl, hgo, he1, setOff_apply, pure_apply]
  · show Lemmas.C06.lines ed' = _
    rw [he2, splitLines_wf _ ⟨_, rfl, by
      intro hm
      rcases List.mem_append.mp hm with hm | hm
      · rcases List.mem_append.mp hm with hm | hm
        · exact ha hm
        · have := List.eq_of_mem_replicate hm; omega
      · exact not_mem_dropWhile b isBlankC hb hm⟩]
    rw [show (s.ed.xrow + 2).toNat = s.ed.xrow.toNat + 2 by omega]
  · show ed'.xrow = s.ed.xrow
    rw [he3]
  · show ed'.regs = s.ed.regs
    rw [he3]

/-- `vcJoin_count_spec`: `J` with any count.  The rows `a`, `ws` (`max 2 count` of them, all existing)
become the one row `joinRows a ws`: each further row is appended without its leading blanks after
`join_spaces` spaces; the cursor goes to the character where the last joined row starts (`joinOff`). -/
theorem vcJoin_count_spec (s : VS) (a : Bytes) (ws : List Bytes) (hr0 : 0 ≤ s.ed.xrow)
    (hcnt : (if s.arg1 ≤ 1 then 2 else s.arg1) = ((ws.length + 1 : Nat) : Int))
    (hrows : ((lines s).drop s.ed.xrow.toNat).take (ws.length + 1) = (a :: ws).map (· ++ [10]))
    (h10 : ∀ w ∈ a :: ws, 10 ∉ w) :
    ∃ s', vcJoin s = Res.ok VC_OK s' ∧
      lines s' = (lines s).take s.ed.xrow.toNat ++ [joinRows a ws ++ [10]] ++
        (lines s).drop (s.ed.xrow.toNat + (ws.length + 1)) ∧
      s'.ed.xoff = joinOff a ws 0 ∧ s'.ed.xrow = s.ed.xrow ∧ s'.ed.regs = s.ed.regs ∧
      s' = { s with ed := s'.ed } := by
  have hrow : ∀ k (hk : k < (a :: ws).length), (lines s)[s.ed.xrow.toNat + k]? = some ((a :: ws)[k] ++ [10]) := by
    intro k hk
    have := row_of_block (lines s) s.ed.xrow.toNat (ws.length + 1) _ hrows k (by simpa using hk)
    rw [this, List.getElem_map]
  have hwpos : 1 ≤ ws.length := by
    split at hcnt
    · have : ((ws.length + 1 : Nat) : Int) = 2 := hcnt.symm
      omega
    · omega
  have h1 := hrow 0 (by simp)
  simp only [Nat.add_zero, List.getElem_cons_zero] at h1
  have hlast := hrow ws.length (by simp)
  have hl1 : lineOf s s.ed.xrow = some (a ++ [10]) := lineOf_of_get s _ _ hr0 h1
  have hl2 : lineOf s (s.ed.xrow + ((ws.length + 1 : Nat) : Int) - 1) = some ((a :: ws)[ws.length] ++ [10]) :=
    lineOf_of_get s _ _ (by omega) (by
      rw [show (s.ed.xrow + ((ws.length + 1 : Nat) : Int) - 1).toNat = s.ed.xrow.toNat + ws.length by omega]
      exact hlast)
  have hE1 : lineE s s.ed.xrow = a ++ [10] := lineE_eq s _ hr0 _ h1
  have hEk : ∀ k (hk : k < ws.length), lineE s (s.ed.xrow + 1 + k) = ws[k] ++ [10] := by
    intro k hk
    have := hrow (k + 1) (by simp; omega)
    simp only [List.getElem_cons_succ] at this
    exact lineE_eq s _ (by omega) _ (by
      rw [show (s.ed.xrow + 1 + (k : Int)).toNat = s.ed.xrow.toNat + (k + 1) by omega]; exact this)
  obtain ⟨lb, hlb⟩ := lb_of_line s _ _ h1
  have hlt : s.ed.xrow.toNat + ws.length < (lines s).length := (List.getElem?_eq_some_iff.mp hlast).1
  have ha := h10 a (by simp)
  have hgo : vcJoin.go s s.ed.xrow (s.ed.xrow + ((ws.length + 1 : Nat) : Int)) (ws.length + 1 + 1) s.ed.xrow [] 0 =
      (joinRows a ws, joinOff a ws 0) := by
    rw [vcJoin.go, if_neg (by omega)]
    simp only [hE1, show ¬ (s.ed.xrow > s.ed.xrow) by omega, if_false, List.replicate_zero, List.append_nil,
      List.nil_append, takeWhile_ne_ten a [] ha]
    rw [join_go_rows s _ _ ws (ws.length + 1) (s.ed.xrow + 1) a _ (by omega) (by omega) (by omega) hEk
      (fun w hw => h10 w (by simp [hw]))]
    cases ws with
    | nil => simp at hwpos
    | cons w t => rfl
  obtain ⟨ed', he1, he2, he3⟩ := edEdit_spec s (joinRows a ws ++ [10]) s.ed.xrow (s.ed.xrow + ((ws.length + 1 : Nat) : Int))
    lb hlb hr0 (by omega) (by show _ ≤ ((lines s).length : Int); omega)
  refine ⟨{ s with ed := { ed' with xoff := joinOff a ws 0 } }, ?_, ?_, rfl, ?_, ?_, rfl⟩
  · unfold vcJoin
    simp only [bind_apply, get_apply, hcnt, hl1, hl2, Option.isNone_some, Bool.or_self, Bool.false_eq_true,
      if_false, Int.toNat_natCast, hgo, he1, setOff_apply, pure_apply]
  · show Lemmas.C06.lines ed' = _
    rw [he2, splitLines_wf _ ⟨_, rfl, joinRows_no_ten ws a ha (fun w hw => h10 w (by simp [hw]))⟩]
    rw [show (s.ed.xrow + ((ws.length + 1 : Nat) : Int)).toNat = s.ed.xrow.toNat + (ws.length + 1) by omega]
  · show ed'.xrow = s.ed.xrow
    rw [he3]
  · show ed'.regs = s.ed.regs
    rw [he3]

/-- not enough lines: `J` does nothing and reports failure (returns 0) -/
theorem vcJoin_short (s : VS) (h : lineOf s s.ed.xrow = none ∨ lineOf s (s.ed.xrow + (if s.arg1 ≤ 1 then 2 else s.arg1) - 1) = none) :
    vcJoin s = Res.ok 0 s := by
  unfold vcJoin
  simp only [bind_apply, get_apply]
  rw [if_pos (by rcases h with h | h <;> simp [h])]
  rfl

/-! ## 6. `vc_replace` (`r`), the case loop (`~`, `gu`, `gU`, `g~`), `vi_shift` (`<`, `>`) -/

/-- `vcReplace_spec`: `r` followed by the typable character `c` (sent as its UTF-8 bytes), cursor on
character `o`, `n = max 1 count`.  If `n` characters remain from the cursor on, they are replaced by
`n` copies of `c` and the cursor goes to the last of them; otherwise the command fails (returns 0)
having only consumed the key. -/
theorem vcReplace_spec (s : VS) (body : List Nat) (c o : Nat) (rest : Bytes)
    (hr0 : 0 ≤ s.ed.xrow) (hline : (lines s)[s.ed.xrow.toNat]? = some (encStr (body ++ [10])))
    (hb : ∀ d ∈ body, ValidCp d) (hb10 : 10 ∉ body) (ho : s.ed.xoff = (o : Int)) (hol : o < body.length)
    (hc : ValidCp c ∧ 32 ≤ c ∧ c ≠ 127) (hp : pending s = enc c ++ rest) (hk : s.xkmap = 0) :
    (o + (max 1 s.arg1).toNat ≤ body.length →
      ∃ s', vcReplace s = Res.ok VC_OK s' ∧ pending s' = rest ∧
        Inserted (enc c) s s' s.ed.xrow
          [encStr (body.take o ++ List.replicate (max 1 s.arg1).toNat c ++ (body.drop (o + (max 1 s.arg1).toNat) ++ [10]))]
          1 s.ed.xrow ((o : Int) + (max 1 s.arg1).toNat - 1)) ∧
    (body.length < o + (max 1 s.arg1).toNat →
      ∃ s', vcReplace s = Res.ok 0 s' ∧ pending s' = rest ∧ Reads false (enc c) s s') :=
  vcReplace_core s body c o rest hr0 hline hb hb10 ho hol hc hp hk

/-- the code-point map of the case commands: `gu` (117) lowers `A..Z`, `gU` (85) raises `a..z`, `~` / `g~`
(126) toggles; every other code point — in particular every non-ASCII one — is left alone -/
theorem caseCp_spec (c : Nat) :
    caseCp 117 c = (if 65 ≤ c ∧ c ≤ 90 then c + 32 else c) ∧
    caseCp 85 c = (if 97 ≤ c ∧ c ≤ 122 then c - 32 else c) ∧
    caseCp 126 c = (if 97 ≤ c ∧ c ≤ 122 then c - 32 else if 65 ≤ c ∧ c ≤ 90 then c + 32 else c) ∧
    (127 < c → ∀ cmd, caseCp cmd c = c) := by
  refine ⟨?_, ?_, ?_, ?_⟩
  · unfold caseCp lowerB
    by_cases h : c ≤ 127
    · simp [h]
    · rw [if_neg h, if_neg (by omega)]
  · unfold caseCp upperB
    by_cases h : c ≤ 127
    · simp [h]
    · rw [if_neg h, if_neg (by omega)]
  · unfold caseCp upperB lowerB
    by_cases h : c ≤ 127
    · simp only [h, if_true, show ((126 : Nat) == 117) = false from rfl, show ((126 : Nat) == 85) = false from rfl,
        show ((126 : Nat) == 126) = true from rfl, Bool.false_eq_true, if_false]
      by_cases h1 : 97 ≤ c ∧ c ≤ 122
      · simp [h1]
      · have : (decide (97 ≤ c) && decide (c ≤ 122)) = false := by simpa using fun a => by omega
        simp only [this, Bool.false_eq_true, if_false, h1]
        simp
    · rw [if_neg h, if_neg (by omega), if_neg (by omega)]
  · intro h cmd
    unfold caseCp
    rw [if_neg (by omega)]

/-- `caseMap_spec`: on valid UTF-8 the case loop maps code point by code point with `caseCp`
(so multi-byte characters are untouched), and it preserves the length in bytes -/
theorem caseMap_spec (cmd : Nat) (cs : List Nat) (hv : ∀ c ∈ cs, ValidCp c) :
    caseMap cmd ((encStr cs).length + 1) (encStr cs) = encStr (cs.map (caseCp cmd)) ∧
    (caseMap cmd ((encStr cs).length + 1) (encStr cs)).length = (encStr cs).length := by
  have hlen : cs.length ≤ (encStr cs).length + 1 := by
    have := Props.C16.slen_spec hv
    have h2 : ∀ (l : List Nat), l.length ≤ (encStr l).length := by
      intro l
      induction l with
      | nil => simp
      | cons c t ih =>
        rw [encStr_cons, List.length_append, List.length_cons]
        have := enc_length_pos c
        omega
    have := h2 cs
    omega
  have h1 := caseMap_enc cmd cs _ hv hlen
  refine ⟨h1, ?_⟩
  rw [h1]
  clear h1 hlen
  induction cs with
  | nil => rfl
  | cons c t ih =>
    rw [List.map_cons, encStr_cons, encStr_cons, List.length_append, List.length_append,
      ih (fun d hd => hv d (by simp [hd]))]
    congr 1
    by_cases hlt : c < 128
    · have := caseCp_lt cmd c hlt
      have e1 : enc c = [c] := by unfold enc; rw [if_pos hlt]
      have e2 : enc (caseCp cmd c) = [caseCp cmd c] := by unfold enc; rw [if_pos this.1]
      rw [e1, e2]; rfl
    · have : caseCp cmd c = c := (caseCp_spec c).2.2.2 (by omega) cmd
      rw [this]

/-- what `>` and `<` do to one (well-formed) line -/
theorem shiftLine_spec (w : Bytes) :
    (w ≠ [] → w.headD 0 ≠ 10 → shiftLine 1 (w ++ [10]) = 9 :: w ++ [10]) ∧
    shiftLine 1 [10] = [10] ∧
    (∀ b t, w = b :: t → isBlankC b = true → shiftLine (-1) (w ++ [10]) = t ++ [10]) ∧
    (isBlankC ((w ++ [10]).headD 0) = false → shiftLine (-1) (w ++ [10]) = w ++ [10]) := by
  refine ⟨?_, rfl, ?_, ?_⟩
  · intro hne hh
    cases w with
    | nil => exact absurd rfl hne
    | cons b t =>
      have hh' : ((b :: t ++ [10]).headD 0 != 10) = true := by simpa using hh
      unfold shiftLine
      rw [if_pos (by omega), if_pos hh']
      rfl
  · intro b t hw hb
    subst hw
    have hb' : isBlankC ((b :: t ++ [10]).headD 0) = true := hb
    unfold shiftLine
    rw [if_neg (by omega), if_pos hb']
    rfl
  · intro hb
    unfold shiftLine
    rw [if_neg (by omega), hb]
    rfl

/-- `viShift_spec`: `>` / `<` over the rows `r1..r2` (all existing, the buffer well formed): every row
of the range is mapped by `shiftLine`, the other rows are untouched; the cursor goes to the first
non-blank of row `r1`; nothing but the buffer and the cursor changes -/
theorem viShift_spec (s : VS) (r1 r2 dir : Int) (h0 : 0 ≤ r1) (h12 : r1 ≤ r2) (h2 : r2 < lenOf s)
    (hwf : ∀ l ∈ lines s, Props.C01.WfLine l) :
    ∃ s', viShift r1 r2 dir s = Res.ok VC_OK s' ∧
      lines s' = (lines s).take r1.toNat ++
        (((lines s).drop r1.toNat).take (r2.toNat - r1.toNat + 1)).map (shiftLine dir) ++
        (lines s).drop (r2.toNat + 1) ∧
      s'.ed.xrow = r1 ∧ s'.ed.xoff = Mot.indents (lines s') r1 ∧ s'.ed.regs = s.ed.regs ∧
      s' = { s with ed := s'.ed } := by
  obtain ⟨s1, h1, hl, he, hs⟩ := shift_go r2 dir (r2.toNat - r1.toNat + 1) ((r2 - r1).toNat + 1) r1 s h0 (by omega)
    (by omega) h2 hwf
  refine ⟨{ s1 with ed := { s1.ed with xrow := r1, xoff := Mot.indents (lines s1) r1 } }, ?_, ?_, rfl, rfl, ?_, ?_⟩
  · unfold viShift
    simp only [bind_apply, h1, get_apply, setPos_apply, pure_apply]
  · show lines s1 = _
    rw [hl, show r1.toNat + (r2.toNat - r1.toNat + 1) = r2.toNat + 1 by omega]
  · show s1.ed.regs = s.ed.regs
    rw [he]
  · rw [hs]

/-- `viCase_line_spec`: `~` / `gu` / `gU` / `g~` over the characters `o1 .. o2-1` of one line of valid
UTF-8: exactly these characters are mapped by `caseCp`, the rest of the buffer, the registers and
everything outside the editor record are untouched; the cursor goes to the end of the region
(`~` itself is this with `o2 = o1 + 1`) -/
theorem viCase_line_spec (s : VS) (r : Int) (cmd : Nat) (body : List Nat) (o1 o2 : Nat)
    (hr0 : 0 ≤ r) (hline : (lines s)[r.toNat]? = some (encStr (body ++ [10])))
    (hb : ∀ c ∈ body, ValidCp c) (hb10 : 10 ∉ body) (ho12 : o1 ≤ o2) (ho2 : o2 ≤ body.length) :
    ∃ s', viCase r o1 r o2 false cmd s = Res.ok VC_OK s' ∧
      lines s' = (lines s).take r.toNat ++
        [encStr (body.take o1 ++ ((body.take o2).drop o1).map (caseCp cmd) ++ (body.drop o2 ++ [10]))] ++
        (lines s).drop (r.toNat + 1) ∧
      s'.ed.xrow = r ∧ s'.ed.xoff = (o2 : Int) ∧ s'.ed.regs = s.ed.regs ∧ s' = { s with ed := s'.ed } := by
  have hlE : lineE s r = encStr (body ++ [10]) := lineE_eq s r hr0 _ hline
  obtain ⟨lb, hlb⟩ := lb_of_line s _ _ hline
  have hrlt : r.toNat < (lines s).length := (List.getElem?_eq_some_iff.mp hline).1
  have hv := valid_snoc_ten hb
  have hreg : lbufRegion s r o1 r o2 = some (encStr ((body.take o2).drop o1)) := by
    rw [Lemmas.C08.lbufRegion_single, hlE, subI_enc hv o1 o2 ho12 (by simp; omega),
      List.take_append_of_le_length ho2]
  obtain ⟨e1, -⟩ := subI_line body hb o1 (by omega)
  obtain ⟨-, e2⟩ := subI_line body hb o2 ho2
  have hmidv : ∀ c ∈ (body.take o2).drop o1, ValidCp c :=
    fun c hc => hb c (List.mem_of_mem_take (List.mem_of_mem_drop hc))
  have hcm := (caseMap_spec cmd _ hmidv).1
  have hjoin : encStr (body.take o1) ++ encStr (((body.take o2).drop o1).map (caseCp cmd)) ++ encStr (body.drop o2 ++ [10]) =
      encStr (body.take o1 ++ ((body.take o2).drop o1).map (caseCp cmd) ++ (body.drop o2 ++ [10])) := by
    simp only [encStr_append, List.append_assoc]
  have h10m : 10 ∉ ((body.take o2).drop o1).map (caseCp cmd) := by
    intro hm
    obtain ⟨c, hc, hcc⟩ := List.mem_map.mp hm
    have hcb : c ∈ body := List.mem_of_mem_take (List.mem_of_mem_drop hc)
    have hc10 : c ≠ 10 := fun h => hb10 (h ▸ hcb)
    have hsp := caseCp_spec c
    by_cases hlt : c ≤ 127
    · have h117 := hsp.1; have h85 := hsp.2.1; have h126 := hsp.2.2.1
      unfold caseCp at hcc
      rw [if_pos hlt] at hcc
      unfold lowerB upperB at hcc
      repeat' split at hcc
      all_goals first | omega | (simp at *; omega)
    · rw [hsp.2.2.2 (by omega) cmd] at hcc; exact hc10 hcc
  obtain ⟨ed', he1, he2, he3⟩ := edEdit_spec s
    (encStr (body.take o1 ++ ((body.take o2).drop o1).map (caseCp cmd) ++ (body.drop o2 ++ [10]))) r (r + 1) lb hlb
    hr0 (by omega) (by show r + 1 ≤ ((lines s).length : Int); omega)
  refine ⟨{ s with ed := { ed' with xrow := r, xoff := (o2 : Int) } }, ?_, ?_, rfl, rfl, ?_, rfl⟩
  · unfold viCase
    simp only [bind_apply, get_apply, Bool.false_eq_true, if_false, hreg, liftO_some, Bool.not_false, if_true,
      hlE, e1, e2, hcm, hjoin, he1, setPos_apply, pure_apply]
  · show Lemmas.C06.lines ed' = _
    rw [he2, splitLines_wf _ (wfLine_enc_snoc (by
      intro hm
      rcases List.mem_append.mp hm with hm | hm
      · exact hb10 (List.mem_of_mem_take hm)
      · exact h10m hm) (fun h => hb10 (List.mem_of_mem_drop h)))]
    rw [show (r + 1).toNat = r.toNat + 1 by omega]
  · show ed'.regs = s.ed.regs
    rw [he3]

/-! ## 7. not proved, and concrete runs -/

/-- not proved: `led_input` over any number of lines (proved: one line, `ledInput_single_line_script`, and
two lines of plain text, `ledInput_two_lines`); here for plain lines without leading blanks -/
def ledInput_multi_line_full : Prop :=
  ∀ (pref post : Bytes) (s : VS) (ls : List (List Nat)) (last : List Nat) (rest : Bytes),
    pending s = (ls.map (fun l => encStr l ++ [10])).flatten ++ encStr last ++ [27] ++ rest →
    (∀ l ∈ last :: ls, (∀ c ∈ l, ValidCp c ∧ 32 < c ∧ c ≠ 127) ∧ l ≠ [] ∧ l.length < 100000) →
    ls.length < 100000 → s.xkmap = 0 →
    ∃ s', ledInput pref post s =
        Res.ok (pref ++ (ls.map (fun l => encStr l ++ [10] ++ aiAfterNl s pref)).flatten ++ encStr last ++
          (if ls = [] then post else postAfterNl s post), if ls = [] then post else postAfterNl s post) s' ∧
      pending s' = rest ∧ lines s' = lines s ∧ s'.ed.xrow = s.ed.xrow + ls.length

/-- not proved: `vc_insert` / `vi_change` with an insertion of more than two lines (two lines after `i`:
`vcInsert_i_newline_spec`), with a text that starts with a blank or is empty (then the auto-indent rule `keepAi` and `ren_noeol` interfere), and `vi_change` over a
region that spans rows (`changeTail_spec` in `Lemmas/C08bChange.lean` covers the tail of that case) -/
def vcInsert_full : Prop :=
  ∀ (cmd : Nat) (s : VS) (K rest : Bytes) (cs : List Nat), cmd = 105 ∨ cmd = 97 ∨ cmd = 73 ∨ cmd = 65 ∨ cmd = 111 ∨ cmd = 79 →
    Inputs K cs → pending s = K ++ rest → s.xkmap = 0 → lineOf s s.ed.xrow ≠ none →
    ∃ s', vcInsert cmd s = Res.ok VC_OK s' ∧ pending s' = rest

/-- not proved: `r` followed by a newline (splits the line), by `^V c` or by a digraph -/
def vcReplace_newline_full : Prop :=
  ∀ (s : VS) (body : List Nat) (o : Nat) (rest : Bytes), 0 ≤ s.ed.xrow →
    (lines s)[s.ed.xrow.toNat]? = some (encStr (body ++ [10])) → (∀ d ∈ body, ValidCp d) → 10 ∉ body →
    s.ed.xoff = (o : Int) → o < body.length → s.arg1 ≤ 1 → pending s = 10 :: rest → s.xkmap = 0 →
    ∃ s', vcReplace s = Res.ok VC_OK s' ∧
      lines s' = (lines s).take s.ed.xrow.toNat ++ [encStr (body.take o ++ [10]), encStr (body.drop (o + 1) ++ [10])] ++
        (lines s).drop (s.ed.xrow.toNat + 1)

section Examples

/-- the two lines `hello w`, `b`; the cursor at `(row, off)`; the keys to come -/
def exEd : Ed := { bufs := [some { path := [], lb := { lines := [[104, 101, 108, 108, 111, 32, 119, 10], [98, 10]] } }] }
def exSt (keys : Bytes) (row off : Int) : VS := { ed := { exEd with xrow := row, xoff := off }, typed := keys }
def linesOf (r : Res Nat) : List Bytes := match r with | Res.ok _ s => lines s | _ => []
def cursorOf (r : Res Nat) : Int × Int := match r with | Res.ok _ s => (s.ed.xrow, s.ed.xoff) | _ => (-1, -1)

-- `iXY<ESC>` on the first `l` of `hello w` (`vcInsert_i_spec`: `heXYllo w`, cursor on the `Y`)
example : linesOf (vcInsert 105 (exSt [88, 89, 27] 0 2)) = [[104, 101, 88, 89, 108, 108, 111, 32, 119, 10], [98, 10]] := by decide +kernel
example : cursorOf (vcInsert 105 (exSt [88, 89, 27] 0 2)) = (0, 3) := by decide +kernel
-- `iXZ^HY<ESC>`: the same text (`vcInsert_i_backspace`)
example : linesOf (vcInsert 105 (exSt [88, 90, 8, 89, 27] 0 2)) = [[104, 101, 88, 89, 108, 108, 111, 32, 119, 10], [98, 10]] := by decide +kernel
-- `iX<CR>Y<ESC>` splits the line (`vcInsert_i_newline_spec`)
example : linesOf (vcInsert 105 (exSt [88, 10, 89, 27] 0 2)) = [[104, 101, 88, 10], [89, 108, 108, 111, 32, 119, 10], [98, 10]] := by decide +kernel
example : cursorOf (vcInsert 105 (exSt [88, 10, 89, 27] 0 2)) = (1, 0) := by decide +kernel
-- `aXY<ESC>`, `AXY<ESC>`
example : linesOf (vcInsert 97 (exSt [88, 89, 27] 0 2)) = [[104, 101, 108, 88, 89, 108, 111, 32, 119, 10], [98, 10]] := by decide +kernel
example : linesOf (vcInsert 65 (exSt [88, 89, 27] 0 2)) = [[104, 101, 108, 108, 111, 32, 119, 88, 89, 10], [98, 10]] := by decide +kernel
-- `oXY<ESC>`: a new row below, cursor on the `Y`
example : linesOf (vcInsert 111 (exSt [88, 89, 27] 0 2)) = [[104, 101, 108, 108, 111, 32, 119, 10], [88, 89, 10], [98, 10]] := by decide +kernel
example : cursorOf (vcInsert 111 (exSt [88, 89, 27] 0 2)) = (1, 1) := by decide +kernel
-- `c` over `ll` typed `XY` (`viChange_char_spec`)
example : linesOf (viChange 0 2 0 4 false (exSt [88, 89, 27] 0 2)) = [[104, 101, 88, 89, 111, 32, 119, 10], [98, 10]] := by decide +kernel
-- `J`: one space between the rows (`vcJoin_spec`), `rX`, `~` on `l`, `>` on both rows
example : linesOf (vcJoin (exSt [] 0 2)) = [[104, 101, 108, 108, 111, 32, 119, 32, 98, 10]] := by decide +kernel
-- `3J` on `a.`, `  b`, `)c`: two spaces after the full stop, none before `)`; the cursor where `)c` starts
example : linesOf (vcJoin { ed := { bufs := [some { path := [], lb := { lines := [[97, 46, 10], [32, 32, 98, 10], [41, 99, 10]] } }] }, arg1 := 3 }) =
    [[97, 46, 32, 32, 98, 41, 99, 10]] := by decide +kernel
example : joinRows [97, 46] [[32, 32, 98], [41, 99]] = [97, 46, 32, 32, 98, 41, 99] ∧ joinOff [97, 46] [[32, 32, 98], [41, 99]] 0 = 5 := by decide +kernel
example : linesOf (vcReplace (exSt [88] 0 2)) = [[104, 101, 88, 108, 111, 32, 119, 10], [98, 10]] := by decide +kernel
example : linesOf (viCase 0 2 0 3 false 126 (exSt [] 0 2)) = [[104, 101, 76, 108, 111, 32, 119, 10], [98, 10]] := by decide +kernel
example : linesOf (viShift 0 1 1 (exSt [] 0 2)) = [[9, 104, 101, 108, 108, 111, 32, 119, 10], [9, 98, 10]] := by decide +kernel

end Examples

end Neatvi.Props.C08b
