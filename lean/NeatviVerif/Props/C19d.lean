import NeatviVerif.Lemmas.C19dCells
import NeatviVerif.Lemmas.C19dTabs
import NeatviVerif.Props.C19c
/-!
# C19d  What a screen row shows, in general: the emission loop of `led_render`

`Props/C19c.lean` characterises the window table `off[]` of `led_render` and the row of a line of
printable ASCII.  Here the emission loop (`renderRow.emit`) is specified for *every* table, hence
for lines with tabs, wide characters, placeholders and reordered text.

Definitions (in `Lemmas/C19dRuns.lean`, `Lemmas/C19dEmit.lean`, `Lemmas/C19dCells.lean`):

* `runs l` — the maximal runs of equal consecutive entries of `l`, as `(value, length)`;
  characterised by `runs_expand`, `runs_pos`, `runs_adjNe`, `runs_unique` below.
* `occ off` — one more than the last occupied column of the table (0 if none);
  `shown off cbeg cend` — the number of window columns the row covers: `occ off`, except that with
  no occupied column `led_render`'s `clast` is 0 and the columns `cbeg ≤ c < cend` with `c ≤ 0` are
  covered (one blank for a window that starts at column 0).
* `items off cbeg cend := runs (off.take (shown off cbeg cend))` — what is emitted, in order, each
  item with the number of columns it stands for.
* `charText shape chs codes i n` — the text of character `i` over `n` columns (`translate`, else
  itself if printable, else `n` blanks); `runText` — `n` blanks for `(none, n)`, `charText` for
  `(some i, n)`; `rowRef chs codes shape off cbeg cend` — the concatenation over `items`.
* `glyphCells chs pos its` — the columns the items take on a screen where character `i` takes
  `ren_cwid` columns and a blank one; `showsAt … k` — what is at window column `k` then.

Results:

* §1 the runs of a list.
* §2 (E1) `emit_eq_rowRef`: the loop emits `rowRef`, for every table with one entry per window
  column — contiguity of equal entries is *not* needed; `renderRow_eq_rowRef`: hence `renderRow` is
  `rowRef` of the window table, for every line, oracle, option and context direction.
  `offTable_contiguous`: the columns holding one character are contiguous (either direction), so
  (`items_once`) every character is emitted at most once.
* §3 (E2) `items_width`, `glyphCells_items`, `showsAt_spec`, `renderRow_cells`: in the emitted row
  every character stands for exactly its `ren_cwid` columns, so on the screen window column `k`
  shows character `i` iff `cbeg + k` is a cell of `i` and all cells of `i` are inside the window.
* §4 (E3) `renderRow_tabs_window`, `renderRow_tabs_window_opts`: for a line of tabs, printable
  ASCII and newlines the row is the window's slice of the tab-expanded line (`tabExpand`, in
  `Lemmas/C19dTabs.lean`) with the trailing blanks after the last occupied column left out.
* §5 (E4) non-vacuity.

Nothing here is `_partial`.
-/
namespace Neatvi.Props.C19d
open Neatvi Neatvi.Uc Neatvi.Spec Neatvi.Ren Neatvi.Render Neatvi.Lemmas.C19d Neatvi.Lemmas.C19c

/-! ## 1. the maximal runs of a list -/

/-- writing every run out over its length gives the list back -/
theorem runs_expand {α : Type} [DecidableEq α] (l : List α) : expand (runs l) = l := Lemmas.C19d.runs_expand l

/-- no run is empty -/
theorem runs_pos {α : Type} [DecidableEq α] (l : List α) : ∀ p ∈ runs l, 1 ≤ p.2 := Lemmas.C19d.runs_pos l

/-- neighbouring runs have different values -/
theorem runs_adjNe {α : Type} [DecidableEq α] (l : List α) : AdjNe (runs l) := Lemmas.C19d.runs_adjNe l

/-- and these three properties determine `runs` -/
theorem runs_unique {α : Type} [DecidableEq α] (rs : List (α × Nat)) (hpos : ∀ p ∈ rs, 1 ≤ p.2) (hadj : AdjNe rs) :
    runs (expand rs) = rs := Lemmas.C19d.runs_unique rs hpos hadj

/-- a run is a maximal stretch of equal entries: it starts at some index `a`, the entry before it
    and the entry after it (if any) are different -/
theorem runs_mem_spec {α : Type} [DecidableEq α] (L : List α) (v : α) (n : Nat) (h : (v, n) ∈ runs L) :
    ∃ a, 1 ≤ n ∧ a + n ≤ L.length ∧ (∀ j, j < n → L[a + j]? = some v) ∧
      (∀ a', a' + 1 = a → L[a']? ≠ some v) ∧ L[a + n]? ≠ some v := Lemmas.C19d.runs_mem_spec L v n h

/-! ## 2. (E1) the emission loop -/

/-- `occ off` is one more than the last occupied column: it is within the table, nothing is occupied
    from it on, and the column before it is occupied -/
theorem occ_spec (off : List (Option Nat)) :
    occ off ≤ off.length ∧ (∀ k, occ off ≤ k → off.getD k none = none) ∧
    (0 < occ off → (off.getD (occ off - 1) none).isSome = true) :=
  ⟨occ_le off, occ_none_after off, occ_last_some off⟩

/-- `clast` of `led_render` is the last occupied column, 0 when there is none -/
theorem lastCol_spec (off : List (Option Nat)) (cbeg : Int) :
    lastCol off cbeg off.length = if occ off = 0 then 0 else cbeg + (occ off : Int) - 1 :=
  lastCol_eq off cbeg off.length

/-- the number of covered columns: up to the last occupied one; with no occupied column, the
    columns of the window that are `≤ 0` -/
theorem shown_spec (off : List (Option Nat)) (cbeg cend : Int) :
    shown off cbeg cend = if occ off = 0 then (min cend 1 - cbeg).toNat else occ off := rfl

/-- with a window that starts at a positive column, exactly the columns up to the last occupied one -/
theorem shown_pos (off : List (Option Nat)) (cbeg cend : Int) (h : 0 < cbeg) : shown off cbeg cend = occ off := by
  unfold shown; split <;> omega

/-- with a window that starts at column 0 and no occupied column: one column (one blank) -/
theorem shown_zero (off : List (Option Nat)) (cend : Int) (h : 0 < cend) (h0 : occ off = 0) : shown off 0 cend = 1 := by
  unfold shown; rw [if_pos h0]; omega

/-- (E1) the loop of `led_render`, started as `led_render` starts it (at `cbeg`, with `clast` the last
    occupied column) emits exactly the reference row — for every table `off` with one entry per
    window column, whatever it holds -/
theorem emit_eq_rowRef (shape : Bool) (cbeg cend : Int) (chs : List Bytes) (codes : List Nat)
    (off : List (Option Nat)) (hlen : off.length = (cend - cbeg).toNat) :
    renderRow.emit shape cbeg cend chs codes off (lastCol off cbeg (cend - cbeg).toNat)
        ((cend - cbeg).toNat + 2) cbeg [] =
      rowRef chs codes shape off cbeg cend :=
  Lemmas.C19d.emit_eq_rowRef shape cbeg cend chs codes off hlen

/-- (E1 on `renderRow`) for every line, oracle, options, context direction and window: the row is
    the reference row of the window table (and `renderRow` traps exactly when `ren_position` does) -/
theorem renderRow_eq_rowRef (orc : Dir.Oracle) (o : Opts) (shape : Bool) (s0 : Bytes) (cbeg cend : Int) :
    renderRow orc o shape s0 cbeg cend =
      (renPosition orc o s0).map (fun pos =>
        rowRef (chrs s0) ((chrs s0).map (fun c => (ucCode c).getD 0)) shape
          (offTable (chrs s0) pos (Dir.dirContext orc o.xtd s0) cbeg cend) cbeg cend) := by
  rw [renderRow_eq]
  cases renPosition orc o s0 with
  | none => rfl
  | some pos =>
    simp only [Option.map_some]
    rw [Lemmas.C19d.emit_eq_rowRef _ _ _ _ _ _ (C19c.offTable_length _ _ _ _ _)]

/-- the reference row written out: the texts of the runs of the covered part of the table -/
theorem rowRef_eq (chs : List Bytes) (codes : List Nat) (shape : Bool) (off : List (Option Nat)) (cbeg cend : Int) :
    rowRef chs codes shape off cbeg cend =
      (runs (off.take (shown off cbeg cend))).flatMap (fun r =>
        match r with
        | (none, n) => List.replicate n 32
        | (some i, n) =>
          match translate shape chs codes i with
          | some t => t
          | none =>
            if ucIsPrint (Bytes.hd (chs.getD i [])) then
              (chs.getD i []).take (max 1 (ucLen (Bytes.hd (chs.getD i []))))
            else List.replicate n 32) := by
  unfold rowRef rowText items
  congr 1

/-- the columns that hold one character are contiguous — for disjoint cells, in either direction;
    so each run of `some i` in the table is all of character `i` -/
theorem offTable_contiguous (chs : List Bytes) (pos : List Nat) (ctx : Int) (cbeg cend : Int)
    (hd : ∀ i j, i < chs.length → j < chs.length → i ≠ j →
      pos.getD i 0 + renCwid (chs.getD i []) (pos.getD i 0) ≤ pos.getD j 0 ∨
      pos.getD j 0 + renCwid (chs.getD j []) (pos.getD j 0) ≤ pos.getD i 0)
    (k1 k k2 i : Nat) (h1 : k1 ≤ k) (h2 : k ≤ k2)
    (e1 : (offTable chs pos ctx cbeg cend).getD k1 none = some i)
    (e2 : (offTable chs pos ctx cbeg cend).getD k2 none = some i) :
    (offTable chs pos ctx cbeg cend).getD k none = some i := by
  have hk2 : k2 < (cend - cbeg).toNat := by
    apply Nat.lt_of_not_le
    intro hle
    rw [C19c.offTable_outside _ _ _ _ _ _ hle] at e2
    cases e2
  have hwin : cbeg < cend := by omega
  by_cases hctx : ctx ≥ 0
  · have s1 := (C19c.offTable_spec chs pos ctx hctx cbeg cend hwin hd k1 (by omega) i).mp e1
    have s2 := (C19c.offTable_spec chs pos ctx hctx cbeg cend hwin hd k2 hk2 i).mp e2
    apply (C19c.offTable_spec chs pos ctx hctx cbeg cend hwin hd k (by omega) i).mpr
    omega
  · have s1 := (C19c.offTable_spec_rtl chs pos ctx (by omega) cbeg cend hwin hd k1 (by omega) i).mp e1
    have s2 := (C19c.offTable_spec_rtl chs pos ctx (by omega) cbeg cend hwin hd k2 hk2 i).mp e2
    apply (C19c.offTable_spec_rtl chs pos ctx (by omega) cbeg cend hwin hd k (by omega) i).mpr
    omega

/-- hence every character is emitted at most once: among the emitted items at most one is
    character `i` — for disjoint cells, in either direction -/
theorem items_once (chs : List Bytes) (pos : List Nat) (ctx : Int) (cbeg cend : Int)
    (hd : ∀ i j, i < chs.length → j < chs.length → i ≠ j →
      pos.getD i 0 + renCwid (chs.getD i []) (pos.getD i 0) ≤ pos.getD j 0 ∨
      pos.getD j 0 + renCwid (chs.getD j []) (pos.getD j 0) ≤ pos.getD i 0) (i : Nat) :
    ((items (offTable chs pos ctx cbeg cend) cbeg cend).filter (fun p => decide (p.1 = some i))).length ≤ 1 := by
  apply runs_count_le_one
  intro k1 k k2 h1 h2 e1 e2
  rw [getD_eq_some_iff, take_shown_getD] at e1 e2 ⊢
  exact offTable_contiguous chs pos ctx cbeg cend hd k1 k k2 i h1 h2 e1 e2

/-- in general (any table): a value whose columns are contiguous is emitted at most once -/
theorem items_once_of_contiguous (off : List (Option Nat)) (cbeg cend : Int) (i : Nat)
    (hc : ∀ k1 k k2, k1 ≤ k → k ≤ k2 → off.getD k1 none = some i → off.getD k2 none = some i →
      off.getD k none = some i) :
    ((items off cbeg cend).filter (fun p => decide (p.1 = some i))).length ≤ 1 := by
  apply runs_count_le_one
  intro k1 k k2 h1 h2 e1 e2
  rw [getD_eq_some_iff, take_shown_getD] at e1 e2 ⊢
  exact hc k1 k k2 h1 h2 e1 e2

/-! ## 3. (E2) the cells of the emitted row -/

/-- what is at window column `k` of the screen after the items `its` are written from the left edge
    of the window, character `i` taking `ren_cwid` columns and a blank one column -/
def showsAt (chs : List Bytes) (pos : List Nat) (its : List (Option Nat × Nat)) (k : Nat) : Option Nat :=
  (glyphCells chs pos its).getD k none

/-- written out over the numbers of columns they stand for, the items are the covered part of the table -/
theorem expand_items (off : List (Option Nat)) (cbeg cend : Int) :
    expand (items off cbeg cend) = off.take (shown off cbeg cend) := Lemmas.C19d.runs_expand _

/-- left-to-right context, disjoint cells: an emitted character is a character of the line whose
    cells are all inside the window, and the number of columns it stands for in the row is its own
    width `ren_cwid` -/
theorem items_width (chs : List Bytes) (pos : List Nat) (ctx : Int) (hctx : ctx ≥ 0) (cbeg cend : Int)
    (hwin : cbeg < cend)
    (hd : ∀ i j, i < chs.length → j < chs.length → i ≠ j →
      pos.getD i 0 + renCwid (chs.getD i []) (pos.getD i 0) ≤ pos.getD j 0 ∨
      pos.getD j 0 + renCwid (chs.getD j []) (pos.getD j 0) ≤ pos.getD i 0)
    (i n : Nat) (h : (some i, n) ∈ items (offTable chs pos ctx cbeg cend) cbeg cend) :
    n = renCwid (chs.getD i []) (pos.getD i 0) ∧ i < chs.length ∧ cbeg ≤ (pos.getD i 0 : Int) ∧
      (pos.getD i 0 : Int) + (renCwid (chs.getD i []) (pos.getD i 0) : Int) ≤ cend := by
  unfold items at h
  generalize hoff : offTable chs pos ctx cbeg cend = off at h
  have hspec := fun k hk i => C19c.offTable_spec chs pos ctx hctx cbeg cend hwin hd k hk i
  have hout := fun k hk => C19c.offTable_outside chs pos ctx cbeg cend k hk
  rw [hoff] at hspec hout
  -- some column holds `i`
  obtain ⟨a, hn, _, h1, _, _⟩ := Lemmas.C19d.runs_mem_spec _ _ _ h
  have ha : off.getD a none = some i := by
    have := h1 0 hn
    rw [Nat.add_zero, getD_eq_some_iff, take_shown_getD] at this
    exact this
  have haw : a < (cend - cbeg).toNat := by
    apply Nat.lt_of_not_le
    intro hle
    rw [hout a hle] at ha
    cases ha
  obtain ⟨hi, _, _, hb, he⟩ := (hspec a haw i).mp ha
  refine ⟨?_, hi, hb, he⟩
  apply run_len_of_interval _ (some i) ((pos.getD i 0 : Int) - cbeg).toNat _ _ n h
  intro k
  rw [getD_eq_some_iff, take_shown_getD]
  by_cases hk : k < (cend - cbeg).toNat
  · rw [hspec k hk i]
    constructor
    · intro hh; omega
    · intro hh; exact ⟨hi, by omega, by omega, hb, he⟩
  · rw [hout k (by omega)]
    constructor
    · intro hh; cases hh
    · intro hh; omega

/-- the same in a right-to-left context -/
theorem items_width_rtl (chs : List Bytes) (pos : List Nat) (ctx : Int) (hctx : ctx < 0) (cbeg cend : Int)
    (hwin : cbeg < cend)
    (hd : ∀ i j, i < chs.length → j < chs.length → i ≠ j →
      pos.getD i 0 + renCwid (chs.getD i []) (pos.getD i 0) ≤ pos.getD j 0 ∨
      pos.getD j 0 + renCwid (chs.getD j []) (pos.getD j 0) ≤ pos.getD i 0)
    (i n : Nat) (h : (some i, n) ∈ items (offTable chs pos ctx cbeg cend) cbeg cend) :
    n = renCwid (chs.getD i []) (pos.getD i 0) ∧ i < chs.length ∧ cbeg ≤ (pos.getD i 0 : Int) ∧
      (pos.getD i 0 : Int) + (renCwid (chs.getD i []) (pos.getD i 0) : Int) ≤ cend := by
  unfold items at h
  generalize hoff : offTable chs pos ctx cbeg cend = off at h
  have hspec := fun k hk i => C19c.offTable_spec_rtl chs pos ctx hctx cbeg cend hwin hd k hk i
  have hout := fun k hk => C19c.offTable_outside chs pos ctx cbeg cend k hk
  rw [hoff] at hspec hout
  obtain ⟨a, hn, _, h1, _, _⟩ := Lemmas.C19d.runs_mem_spec _ _ _ h
  have ha : off.getD a none = some i := by
    have := h1 0 hn
    rw [Nat.add_zero, getD_eq_some_iff, take_shown_getD] at this
    exact this
  have haw : a < (cend - cbeg).toNat := by
    apply Nat.lt_of_not_le
    intro hle
    rw [hout a hle] at ha
    cases ha
  obtain ⟨hi, _, _, hb, he⟩ := (hspec a haw i).mp ha
  refine ⟨?_, hi, hb, he⟩
  apply run_len_of_interval _ (some i)
    (cend - (pos.getD i 0 : Int) - (renCwid (chs.getD i []) (pos.getD i 0) : Int)).toNat _ _ n h
  intro k
  rw [getD_eq_some_iff, take_shown_getD]
  by_cases hk : k < (cend - cbeg).toNat
  · rw [hspec k hk i]
    constructor
    · intro hh; omega
    · intro hh; exact ⟨hi, by omega, by omega, hb, he⟩
  · rw [hout k (by omega)]
    constructor
    · intro hh; cases hh
    · intro hh; omega

/-- left-to-right context, disjoint cells: on the screen the emitted items take exactly the covered
    columns of the table, each character over the columns the table gives it -/
theorem glyphCells_items (chs : List Bytes) (pos : List Nat) (ctx : Int) (hctx : ctx ≥ 0) (cbeg cend : Int)
    (hwin : cbeg < cend)
    (hd : ∀ i j, i < chs.length → j < chs.length → i ≠ j →
      pos.getD i 0 + renCwid (chs.getD i []) (pos.getD i 0) ≤ pos.getD j 0 ∨
      pos.getD j 0 + renCwid (chs.getD j []) (pos.getD j 0) ≤ pos.getD i 0) :
    glyphCells chs pos (items (offTable chs pos ctx cbeg cend) cbeg cend) =
      (offTable chs pos ctx cbeg cend).take (shown (offTable chs pos ctx cbeg cend) cbeg cend) := by
  rw [glyphCells_eq_expand chs pos _ (fun i n h => (items_width chs pos ctx hctx cbeg cend hwin hd i n h).1),
    expand_items]

/-- (E2, column by column) left-to-right context, disjoint cells: after the row is written, window
    column `k` shows character `i` iff `cbeg + k` is a cell of `i` and every cell of `i` lies in
    `[cbeg, cend)`; every other column shows a blank or is not written -/
theorem showsAt_spec (chs : List Bytes) (pos : List Nat) (ctx : Int) (hctx : ctx ≥ 0) (cbeg cend : Int)
    (hwin : cbeg < cend)
    (hd : ∀ i j, i < chs.length → j < chs.length → i ≠ j →
      pos.getD i 0 + renCwid (chs.getD i []) (pos.getD i 0) ≤ pos.getD j 0 ∨
      pos.getD j 0 + renCwid (chs.getD j []) (pos.getD j 0) ≤ pos.getD i 0)
    (k i : Nat) :
    showsAt chs pos (items (offTable chs pos ctx cbeg cend) cbeg cend) k = some i ↔
      i < chs.length ∧
      (pos.getD i 0 : Int) ≤ cbeg + k ∧
      cbeg + k < (pos.getD i 0 : Int) + (renCwid (chs.getD i []) (pos.getD i 0) : Int) ∧
      cbeg ≤ (pos.getD i 0 : Int) ∧
      (pos.getD i 0 : Int) + (renCwid (chs.getD i []) (pos.getD i 0) : Int) ≤ cend := by
  unfold showsAt
  rw [glyphCells_items chs pos ctx hctx cbeg cend hwin hd, take_shown_getD]
  by_cases hk : k < (cend - cbeg).toNat
  · exact C19c.offTable_spec chs pos ctx hctx cbeg cend hwin hd k hk i
  · rw [C19c.offTable_outside _ _ _ _ _ _ (by omega)]
    constructor
    · intro h; cases h
    · intro h; omega

/-- (E2) the row of a valid UTF-8 line in a left-to-right context, for any table `ren_position`
    returns (reordered or not): the row is the reference row of the window table; its items take on
    the screen exactly the covered columns of the table; and, column by column, window column `k`
    shows character `i` iff column `cbeg + k` is one of the cells of `i` (reference widths
    `cellWidth`) and all cells of `i` are inside the window -/
theorem renderRow_cells (orc : Dir.Oracle) (o : Opts) (shape : Bool) (cps : List Nat) (hv : ∀ c ∈ cps, ValidCp c)
    (pos : List Nat) (hpos : renPosition orc o (encStr cps) = some pos)
    (hctx : Dir.dirContext orc o.xtd (encStr cps) ≥ 0) (cbeg cend : Int) (hwin : cbeg < cend) :
    let chs := chrs (encStr cps)
    let off := offTable chs pos (Dir.dirContext orc o.xtd (encStr cps)) cbeg cend
    renderRow orc o shape (encStr cps) cbeg cend =
        some (rowRef chs (chs.map (fun c => (ucCode c).getD 0)) shape off cbeg cend) ∧
    glyphCells chs pos (items off cbeg cend) = off.take (shown off cbeg cend) ∧
    ∀ k i, showsAt chs pos (items off cbeg cend) k = some i ↔
      i < cps.length ∧
      (pos.getD i 0 : Int) ≤ cbeg + k ∧
      cbeg + k < (pos.getD i 0 : Int) + (cellWidth (cps.getD i 0) (pos.getD i 0) : Int) ∧
      cbeg ≤ (pos.getD i 0 : Int) ∧
      (pos.getD i 0 : Int) + (cellWidth (cps.getD i 0) (pos.getD i 0) : Int) ≤ cend := by
  intro chs off
  have ht := C17b.renPosition_tiled orc o cps hv pos hpos
  have hlen := Lemmas.C17b.chrs_enc_length hv
  have hcw : ∀ i, i < cps.length → ∀ col,
      renCwid ((chrs (encStr cps)).getD i []) col = cellWidth (cps.getD i 0) col :=
    fun i hi col => Lemmas.C17b.cwid_chr hv i hi col
  have hd : ∀ i j, i < chs.length → j < chs.length → i ≠ j →
      pos.getD i 0 + renCwid (chs.getD i []) (pos.getD i 0) ≤ pos.getD j 0 ∨
      pos.getD j 0 + renCwid (chs.getD j []) (pos.getD j 0) ≤ pos.getD i 0 := by
    intro i j hi hj hij
    rw [hlen] at hi hj
    rw [hcw i hi, hcw j hj]
    exact C17b.cells_disjoint ht i j hi hj hij
  refine ⟨?_, glyphCells_items chs pos _ hctx cbeg cend hwin hd, ?_⟩
  · rw [renderRow_eq_rowRef, hpos]; rfl
  · intro k i
    rw [showsAt_spec chs pos _ hctx cbeg cend hwin hd k i, hlen]
    constructor
    · rintro ⟨a, r⟩; rw [hcw i a] at r; exact ⟨a, r⟩
    · rintro ⟨a, r⟩; rw [← hcw i a] at r; exact ⟨a, r⟩

/-! ## 4. (E3) lines of printable ASCII, tabs and newlines -/

/-- (E3) a non-empty line of tabs, printable ASCII bytes and newlines, left-to-right layout and
    context, window `[cbeg, cend)` with `0 ≤ cbeg < cend`.  Let `slice` be the window's slice of the
    tab-expanded line (`tabExpand`: every tab written out as blanks up to the next multiple of 8,
    the newline as a blank).  The row is `slice` cut after the covered columns (`shown`: up to the
    last occupied column), and what is cut off is blank — so the row is the slice up to trailing
    blanks.  In particular a tab cut by the left edge of the window shows as blanks, and a tab cut
    by the right edge (after which there is nothing in the window) is not emitted at all. -/
theorem renderRow_tabs_window (orc : Dir.Oracle) (o : Opts) (shape : Bool) (s0 : Bytes)
    (hs : TabBytes s0) (hne : s0 ≠ []) (cbeg cend : Int) (h0 : 0 ≤ cbeg) (hwin : cbeg < cend)
    (hpos : renPosition orc o s0 = some (renPositionFast s0))
    (hctx : Dir.dirContext orc o.xtd s0 ≥ 0) :
    let slice := ((tabExpand s0 0).drop cbeg.toNat).take (cend - cbeg).toNat
    let off := offTable (chrs s0) (renPositionFast s0) (Dir.dirContext orc o.xtd s0) cbeg cend
    renderRow orc o shape s0 cbeg cend = some (slice.take (shown off cbeg cend)) ∧
    ∀ b ∈ slice.drop (shown off cbeg cend), b = 32 := by
  intro slice off
  have hsl : slice = ((tabExpand s0 0).drop cbeg.toNat).take (cend - cbeg).toNat := rfl
  have hoffdef : off = offTable (chrs s0) (renPositionFast s0) (Dir.dirContext orc o.xtd s0) cbeg cend := rfl
  clear_value slice off
  have hlow : ∀ b ∈ s0, 0 < b ∧ b < 128 := fun b hb => tabByte_lt (hs b hb)
  have hlen : (chrs s0).length = s0.length := chrs_low_length s0 hlow
  have hL : 0 < s0.length := List.length_pos_iff.mpr hne
  obtain ⟨hA, hB, hC⟩ := tab_layout s0 hs 0
  have hP : ∀ i, i < s0.length → (renPositionFast s0).getD i 0 = P s0 0 i := fast_getD s0 hs
  have hW : ∀ i, i < s0.length →
      renCwid ((chrs s0).getD i []) ((renPositionFast s0).getD i 0) = W s0 0 i := by
    intro i hi; rw [hP i hi]; rfl
  -- the cells are disjoint
  have hd : ∀ i j, i < (chrs s0).length → j < (chrs s0).length → i ≠ j →
      (renPositionFast s0).getD i 0 + renCwid ((chrs s0).getD i []) ((renPositionFast s0).getD i 0)
        ≤ (renPositionFast s0).getD j 0 ∨
      (renPositionFast s0).getD j 0 + renCwid ((chrs s0).getD j []) ((renPositionFast s0).getD j 0)
        ≤ (renPositionFast s0).getD i 0 := by
    intro i j hi hj hij
    rw [hlen] at hi hj
    rw [hW i hi, hW j hj, hP i hi, hP j hj]
    rcases Nat.lt_or_gt_of_ne hij with h | h
    · exact Or.inl (hB i j h hj)
    · exact Or.inr (hB j i h hi)
  obtain ⟨c, rfl⟩ : ∃ c : Nat, cbeg = (c : Int) := ⟨cbeg.toNat, by omega⟩
  have hc : (c : Int).toNat = c := Int.toNat_natCast c
  -- the table
  have hspec : ∀ k, k < (cend - (c : Int)).toNat → ∀ i, off.getD k none = some i ↔
      i < s0.length ∧ P s0 0 i ≤ c + k ∧ c + k < P s0 0 i + W s0 0 i ∧ c ≤ P s0 0 i ∧
        ((P s0 0 i + W s0 0 i : Nat) : Int) ≤ cend := by
    intro k hk i
    rw [hoffdef, C19c.offTable_spec (chrs s0) (renPositionFast s0) _ hctx c cend hwin hd k hk i, hlen]
    constructor
    · rintro ⟨a, r⟩
      rw [hW i a, hP i a] at r
      exact ⟨a, by omega, by omega, by omega, by omega⟩
    · rintro ⟨a, r⟩
      rw [hW i a, hP i a]
      exact ⟨a, by omega, by omega, by omega, by omega⟩
  have hofflen : off.length = (cend - (c : Int)).toNat := by rw [hoffdef]; exact C19c.offTable_length _ _ _ _ _
  have hitems : ∀ i n, (some i, n) ∈ items off c cend → n = W s0 0 i ∧ i < s0.length := by
    intro i n h
    rw [hoffdef] at h
    obtain ⟨a, b, _, _⟩ := items_width (chrs s0) (renPositionFast s0) _ hctx c cend hwin hd i n h
    rw [hlen] at b
    rw [hW i b] at a
    exact ⟨a, b⟩
  generalize hw : (cend - (c : Int)).toNat = w at hspec hofflen hsl
  generalize hE : (tabExpand s0 0).length = E at hA hC
  -- every cell of the slice shows what the table says
  have hcell : ∀ k, k < w → c + k < E →
      (tabExpand s0 0)[c + k]? = some (cellByte s0 (off.getD k none)) := by
    intro k hk hkE
    obtain ⟨i, hi, c1, c2, c3⟩ := hC (c + k) (Nat.zero_le _) (by omega)
    rw [Nat.sub_zero] at c3
    rw [c3]
    congr 1
    cases hg : off.getD k none with
    | some j =>
      obtain ⟨hj, d1, d2, _, _⟩ := (hspec k hk j).mp hg
      have : i = j := by
        apply Nat.le_antisymm
        · apply Nat.le_of_not_lt
          intro h
          have := hB j i h hi
          omega
        · apply Nat.le_of_not_lt
          intro h
          have := hB i j h hj
          omega
      subst this
      rfl
    | none =>
      show vis (s0.getD i 0) = 32
      by_cases h9 : s0.getD i 0 = 9
      · rw [h9]; rfl
      · exfalso
        have h1 := (hA i hi).2.2.2 h9
        have := (hspec k hk i).mpr ⟨hi, by omega, by omega, by omega, by omega⟩
        rw [hg] at this
        cases this
  -- the covered columns are inside the slice
  have hsh_w : shown off c cend ≤ w := by rw [← hofflen]; exact shown_le off c cend (by omega)
  have hsh_E : shown off c cend ≤ E - c := by
    by_cases hocc : occ off = 0
    · have h00 := (hA 0 hL)
      unfold shown
      rw [if_pos hocc]
      omega
    · have hsome := occ_last_some off (by omega)
      have hle := occ_le off
      cases hg : off.getD (occ off - 1) none with
      | none => rw [hg] at hsome; cases hsome
      | some j =>
        obtain ⟨hj, _, d2, _, _⟩ := (hspec (occ off - 1) (by omega) j).mp hg
        have := (hA j hj).2.1
        unfold shown
        rw [if_neg hocc]
        omega
  -- the slice, as cells
  have hslice : slice = (off.take (min w (E - c))).map (cellByte s0) := by
    apply List.ext_getElem?
    intro k
    rw [hsl, hc, List.getElem?_take, List.getElem?_drop, List.getElem?_map, List.getElem?_take]
    by_cases hk : k < w
    · rw [if_pos hk]
      by_cases hkE : c + k < E
      · rw [if_pos (by omega), hcell k hk hkE, List.getD_eq_getElem?_getD,
          List.getElem?_eq_getElem (by omega)]
        rfl
      · rw [if_neg (by omega), List.getElem?_eq_none (by omega)]
        rfl
    · rw [if_neg hk, if_neg (by omega)]
      rfl
  -- the row, as cells
  have hrow : rowRef (chrs s0) ((chrs s0).map (fun c => (ucCode c).getD 0)) shape off c cend =
      (off.take (shown off c cend)).map (cellByte s0) := by
    unfold rowRef
    rw [rowText_cells shape _ _ s0 (items off c cend) ?_, expand_items]
    intro i n h
    obtain ⟨a, b⟩ := hitems i n h
    apply charText_tab shape s0 hs i n b
    intro h9
    rw [a]
    exact (hA i b).2.2.2 h9
  constructor
  · rw [renderRow_eq_rowRef, hpos]
    simp only [Option.map_some]
    rw [← hoffdef, hrow, hslice, ← List.map_take, List.take_take, Nat.min_eq_left (by omega)]
  · intro b hb
    rw [hslice, ← List.map_drop] at hb
    obtain ⟨x, hx, rfl⟩ := List.mem_map.mp hb
    obtain ⟨idx, hidx⟩ := List.getElem?_of_mem hx
    rw [List.getElem?_drop, List.getElem?_take] at hidx
    have hxn : x = none := by
      have hno := occ_none_after off (shown off c cend + idx) (by have := occ_le_shown off c cend; omega)
      rw [List.getD_eq_getElem?_getD] at hno
      split at hidx
      · rw [hidx] at hno; exact hno
      · cases hidx
    rw [hxn]; rfl

/-- (E3, closed form) the buffer line `w ++ "\n"`, `w` tabs and printable ASCII, `xorder` 0 or 1,
    `td` `+2` or `0`, any oracle: the row is the window's slice of the tab-expanded line with some
    trailing blanks left out -/
theorem renderRow_tabs_window_opts (orc : Dir.Oracle) (o : Opts) (shape : Bool) (w : Bytes)
    (hw : ∀ b ∈ w, b = 9 ∨ (32 ≤ b ∧ b ≤ 126)) (cbeg cend : Int) (h0 : 0 ≤ cbeg) (hwin : cbeg < cend)
    (ho : o.xorder = 0 ∨ o.xorder = 1) (htd : o.xtd ≥ 2 ∨ o.xtd = 0) :
    ∃ m row, renderRow orc o shape (w ++ [10]) cbeg cend = some row ∧
      row = (((tabExpand (w ++ [10]) 0).drop cbeg.toNat).take (cend - cbeg).toNat).take m ∧
      ∀ b ∈ (((tabExpand (w ++ [10]) 0).drop cbeg.toNat).take (cend - cbeg).toNat).drop m, b = 32 := by
  have hs : TabBytes (w ++ [10]) := by
    intro b hb
    rcases List.mem_append.mp hb with h | h
    · unfold tabByte lineByte
      have := hw b h
      simp only [Bool.or_eq_true, Bool.and_eq_true, beq_iff_eq, decide_eq_true_eq]
      omega
    · simp only [List.mem_singleton] at h
      subst h; rfl
  have hlow : ∀ b ∈ w ++ [10], 0 < b ∧ b < 128 := fun b hb => tabByte_lt (hs b hb)
  have hctx : Dir.dirContext orc o.xtd (w ++ [10]) ≥ 0 := by
    apply C19c.dirContext_nonneg
    rcases htd with h | h
    · exact Or.inl h
    · refine Or.inr ⟨h, ?_⟩
      have : Bytes.hd (w ++ [10]) ∈ w ++ [10] := by
        cases w with
        | nil => simp
        | cons a r => simp
      exact (hlow _ this).2
  obtain ⟨h1, h2⟩ := renderRow_tabs_window orc o shape (w ++ [10]) hs (by simp) cbeg cend h0 hwin
    (C19c.renPosition_ascii_fast orc o _ hlow ho) hctx
  exact ⟨_, _, h1, rfl, h2⟩

/-! ## 5. (E4) non-vacuity -/

/-- "a", a tab, U+4E2D (two cells), "b", newline -/
def cps : List Nat := [97, 9, 0x4E2D, 98, 10]
def ln : Bytes := [97, 9, 0xe4, 0xb8, 0xad, 98, 10]
/-- no reordering (`xorder` 0): the kernel can evaluate `ren_position` with the editor's oracle -/
def opts0 : Opts := { xorder := 0, xlim := 256, xtd := 2 }
/-- the usual options, with an oracle that never matches (the reordering path is taken, and the
    kernel can evaluate it; `#eval` gives the same table with `Vi.dirOracle`) -/
def opts : Opts := { xorder := 1, xlim := 256, xtd := 2 }
def noOrc : Dir.Oracle := fun _ _ _ => none

/-- the hypotheses of `renderRow_cells` hold of this line; the tab takes columns 1–7, U+4E2D 8–9 -/
example : encStr cps = ln ∧ (∀ c ∈ cps, ValidCp c) := by decide
example : renPosition Vi.dirOracle opts0 (encStr cps) = some [0, 1, 8, 10, 11, 12] ∧
    Dir.dirContext Vi.dirOracle opts0.xtd (encStr cps) ≥ 0 := by decide +kernel
example : renPosition noOrc opts (encStr cps) = some [0, 1, 8, 10, 11, 12] ∧
    Dir.dirContext noOrc opts.xtd (encStr cps) ≥ 0 := by decide +kernel

/-- the whole line: the tab is seven blanks, the newline one -/
example : renderRow Vi.dirOracle opts0 true ln 0 14 =
    some [97, 32, 32, 32, 32, 32, 32, 32, 0xe4, 0xb8, 0xad, 98, 32] := by decide +kernel
example : renderRow noOrc opts true ln 0 14 =
    some [97, 32, 32, 32, 32, 32, 32, 32, 0xe4, 0xb8, 0xad, 98, 32] := by decide +kernel
example : items (offTable (chrs ln) [0, 1, 8, 10, 11, 12] 1 0 14) 0 14 =
    [(some 0, 1), (some 1, 7), (some 2, 2), (some 3, 1), (some 4, 1)] := by decide +kernel
example : (List.range 14).map (showsAt (chrs ln) [0, 1, 8, 10, 11, 12]
      (items (offTable (chrs ln) [0, 1, 8, 10, 11, 12] 1 0 14) 0 14)) =
    [some 0, some 1, some 1, some 1, some 1, some 1, some 1, some 1, some 2, some 2, some 3, some 4, none, none] := by
  decide +kernel
/-- through the theorem -/
example : renderRow Vi.dirOracle opts0 true (encStr cps) 0 14 =
    some (rowRef (chrs (encStr cps)) ((chrs (encStr cps)).map (fun c => (ucCode c).getD 0)) true
      (offTable (chrs (encStr cps)) [0, 1, 8, 10, 11, 12] (Dir.dirContext Vi.dirOracle opts0.xtd (encStr cps)) 0 14) 0 14) :=
  (renderRow_cells Vi.dirOracle opts0 true cps (by decide) [0, 1, 8, 10, 11, 12] (by decide +kernel)
    (by decide) 0 14 (by decide)).1

/-- the window `[0, 4)` cuts the tab on the right: the tab is not entered, nothing follows "a" -/
example : offTable (chrs ln) [0, 1, 8, 10, 11, 12] 1 0 4 = [some 0, none, none, none] := by decide +kernel
example : renderRow Vi.dirOracle opts0 true ln 0 4 = some [97] := by decide +kernel
/-- the window `[2, 14)` cuts the tab on the left: its six columns inside the window are blanks -/
example : offTable (chrs ln) [0, 1, 8, 10, 11, 12] 1 2 14 =
    [none, none, none, none, none, none, some 2, some 2, some 3, some 4, none, none] := by decide +kernel
example : renderRow Vi.dirOracle opts0 true ln 2 14 =
    some [32, 32, 32, 32, 32, 32, 0xe4, 0xb8, 0xad, 98, 32] := by decide +kernel
example : items (offTable (chrs ln) [0, 1, 8, 10, 11, 12] 1 2 14) 2 14 =
    [(none, 6), (some 2, 2), (some 3, 1), (some 4, 1)] := by decide +kernel
/-- the window `[0, 9)` cuts U+4E2D on the right: it is not shown -/
example : renderRow Vi.dirOracle opts0 true ln 0 9 = some [97, 32, 32, 32, 32, 32, 32, 32] := by decide +kernel
example : items (offTable (chrs ln) [0, 1, 8, 10, 11, 12] 1 0 9) 0 9 = [(some 0, 1), (some 1, 7)] := by decide +kernel
/-- the window `[9, 14)` cuts U+4E2D on the left: its column inside the window is a blank -/
example : renderRow Vi.dirOracle opts0 true ln 9 14 = some [32, 98, 32] := by decide +kernel
example : items (offTable (chrs ln) [0, 1, 8, 10, 11, 12] 1 9 14) 9 14 = [(none, 1), (some 3, 1), (some 4, 1)] := by
  decide +kernel
/-- the window `[7, 10)`: the last column of the tab (cut, a blank) and U+4E2D -/
example : renderRow Vi.dirOracle opts0 true ln 7 10 = some [32, 0xe4, 0xb8, 0xad] := by decide +kernel
/-- the window `[2, 9)` cuts both: no column is occupied and, `cbeg` being positive, nothing is emitted -/
example : renderRow Vi.dirOracle opts0 true ln 2 9 = some [] := by decide +kernel
/-- the same in a right-to-left context: the window is mirrored -/
example : items (offTable (chrs ln) [0, 1, 8, 10, 11, 12] (-1) 2 14) 2 14 =
    [(none, 2), (some 4, 1), (some 3, 1), (some 2, 2)] := by decide +kernel

/-- the corner `clast = 0`: a line that starts with a tab in the window `[0, 3)` — no column is
    occupied, `clast` is 0, and one blank is emitted for column 0 (`shown_zero`) -/
example : offTable (chrs [9, 10]) [0, 8, 9] 1 0 3 = [none, none, none] ∧
    shown (offTable (chrs [9, 10]) [0, 8, 9] 1 0 3) 0 3 = 1 ∧
    renderRow Vi.dirOracle opts0 true [9, 10] 0 3 = some [32] := by decide +kernel
/-- placeholders: U+200C shows as "-", a control character as U+FFFD -/
example : renderRow Vi.dirOracle opts0 true [97, 0xe2, 0x80, 0x8c, 98, 1, 10] 0 10 =
    some [97, 45, 98, 0xef, 0xbf, 0xbd, 32] := by
  decide +kernel

/-- (E3) "ab", a tab, "c", newline: the tab takes columns 2–7 -/
def tl : Bytes := [97, 98, 9, 99, 10]
example : tabExpand tl 0 = [97, 98, 32, 32, 32, 32, 32, 32, 99, 32] := by decide
example : TabBytes tl ∧ renPosition Vi.dirOracle opts tl = some (renPositionFast tl) ∧
    Dir.dirContext Vi.dirOracle opts.xtd tl ≥ 0 := by
  refine ⟨by unfold TabBytes; decide, by decide +kernel, by decide⟩
/-- the window `[1, 6)` cuts the tab on the right: "b", and the four blanks of the slice are left out -/
example : renderRow Vi.dirOracle opts true tl 1 6 = some [98] := by decide +kernel
example : renderRow Vi.dirOracle opts true tl 1 6 =
    some ((((tabExpand tl 0).drop 1).take 5).take
      (shown (offTable (chrs tl) (renPositionFast tl) (Dir.dirContext Vi.dirOracle opts.xtd tl) 1 6) 1 6)) :=
  (renderRow_tabs_window Vi.dirOracle opts true tl (by unfold TabBytes; decide) (by decide) 1 6 (by decide) (by decide)
    (by decide +kernel) (by decide)).1
/-- the window `[4, 10)` cuts the tab on the left: its four columns in the window are blanks -/
example : renderRow Vi.dirOracle opts true tl 4 10 = some [32, 32, 32, 32, 99, 32] := by decide +kernel
/-- the window `[0, 3)` of a line that starts with a tab: the slice is three blanks, the row one -/
example : renderRow Vi.dirOracle opts true [9, 10] 0 3 = some [32] ∧
    ((tabExpand [9, 10] 0).drop 0).take 3 = [32, 32, 32] := by decide +kernel
/-- the empty string (not a buffer line) is excluded from `renderRow_tabs_window`: the slice is empty
    but one blank is emitted -/
example : renderRow Vi.dirOracle opts true [] 0 3 = some [32] ∧ ((tabExpand [] 0).drop 0).take 3 = [] := by
  decide +kernel

end Neatvi.Props.C19d
