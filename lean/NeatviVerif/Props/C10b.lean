import NeatviVerif.Lemmas.C10bSim
import NeatviVerif.Lemmas.C10bRef
/-!
# C10, completeness and priority: the VM reports the first parse of the ordered reference

`RegexSem.results env t r` lists every parse of `t` from the state `r`, best first (alternatives
prefer the left, repetitions prefer one more iteration, an iteration of an unbounded repetition that
consumes nothing ends it).

* `bt_eq_results`: if a run of the backtracker `bt` (which *is* the VM on the emitted code,
  `C10.loop_eq_bt`) ends without trap and with the cut counter it was started with — no depth cut
  happened — its result is the first success of the continuation over `results`, in order.
  `bt_sim_results` is the same with the monotonicity of the counter included.
* `vm_complete` / `vm_complete_none`: for whole programs, a run of `recmatch` without cut reports
  exactly the head of `results` (span and marks), and fails exactly when there is no parse.
* `execLoop_first` / `regexec_first`: a search that ends with the counter unchanged reports the
  first parse at the least start position tried that has any parse.
* examples: `a*`, `(a|ab)(c|bcd)`, `(a*)*`, `a{2,3}`.
-/
namespace Neatvi.Props.C10b
open Neatvi Neatvi.Regex Neatvi.Spec.RegexSem Neatvi.Lemmas.C10 Neatvi.Lemmas.C10b Neatvi.Props.C10

/-- what a run that was started with the cut counter `c` found: `bad` when it trapped or hit the
    depth limit somewhere (the counter moved) -/
def outcome (c : Nat) : Res → O3
  | Res.trap => O3.bad
  | Res.ok p m c' => if c' = c then O3.ok (p, m) else O3.bad
  | Res.fail c' => if c' = c then O3.fail else O3.bad

/-- the run ended without trap and without any depth cut -/
def NoCut (c : Nat) (res : Res) : Prop := outcome c res ≠ O3.bad

instance (c : Nat) (res : Res) : Decidable (NoCut c res) := by unfold NoCut; exact inferInstance

theorem noCut_iff {c : Nat} {res : Res} :
    NoCut c res ↔ (∃ p m, res = Res.ok p m c) ∨ res = Res.fail c := by
  unfold NoCut outcome
  cases res with
  | trap => simp
  | ok p m c' =>
    by_cases h : c' = c
    · subst h; simp
    · simp [h]
  | fail c' =>
    by_cases h : c' = c
    · subst h; simp
    · simp [h]

theorem sim_le {c : Nat} {res : Res} {o o' : O3} (h : Sim c res o) (hle : Le o o') : Sim c res o' := by
  cases res with
  | trap => trivial
  | ok p m c' =>
    refine ⟨h.1, fun e => ?_⟩
    have := h.2 e
    rw [this] at hle
    exact (hle.eq_of_ne (by simp)).symm
  | fail c' =>
    refine ⟨h.1, fun e => ?_⟩
    have := h.2 e
    rw [this] at hle
    exact (hle.eq_of_ne (by simp)).symm

theorem outcome_of_sim {c : Nat} {res : Res} {o : O3} (h : Sim c res o) (hn : NoCut c res) :
    outcome c res = o := by
  unfold NoCut at hn
  cases res with
  | trap => exact absurd rfl hn
  | ok p m c' =>
    by_cases e : c' = c
    · simp only [outcome, if_pos e]; exact (h.2 e).symm
    · simp [outcome, e] at hn
  | fail c' =>
    by_cases e : c' = c
    · simp only [outcome, if_pos e]; exact (h.2 e).symm
    · simp [outcome, e] at hn

/-- the counter of a result is not smaller than the one the run was started with -/
theorem sim_cuts_le {c : Nat} {o : O3} : ∀ {res : Res}, Sim c res o →
    match res with
    | Res.trap => True
    | Res.ok _ _ c' => c ≤ c'
    | Res.fail c' => c ≤ c'
  | Res.trap, _ => trivial
  | Res.ok _ _ _, h => h.1
  | Res.fail _, h => h.1

/-! ### the backtracker and the ordered reference -/

/-- **bt_eq_results**, relational form.  `k` is the continuation of the run, `kJ` what it computes
    when no cut happens (`KSim`), and `kJ` does not look at the marks to decide between failure and
    success (`ShK kJ kJ`: the engine has no back-references).  Then the run of `bt` on `t` either
    traps, or ends with a larger cut counter, or returns the first success of `kJ` over
    `results env t (pos, m)`, in order. -/
theorem bt_sim_results (cx : Ctx) (t : RNode) (hg : GrpsIn cx.ngrps t) (dep pos : Nat) (m : Marks)
    (cuts : Nat) (k : K) (kJ : KJ) (hk : KSim dep k kJ) (hblind : ShK kJ kJ) :
    Sim cuts (bt cx t dep pos m cuts k) (firstSome (results ⟨cx.subj, cx.flg⟩ t (pos, m)) kJ) :=
  sim_le (bt_sim cx t hg dep pos m cuts k kJ hk)
    (btJ_ref ⟨cx.subj, cx.flg⟩ cx.nd t (pos, m) kJ kJ hblind (fun _ => Le.refl _))

/-- **bt_eq_results**: when no depth cut occurs (the run ends, without trap, with the cut counter it
    was started with), running `bt` on `t` from `(pos, m)` with continuation `k` yields the first
    success of `k` over the list `results env t (pos, m)`, in order.  Side conditions: every group of
    `t` has its two marks below `cx.ngrps`; `k` behaves as `kJ` when no cut happens; `kJ` does not
    branch on the marks. -/
theorem bt_eq_results (cx : Ctx) (t : RNode) (hg : GrpsIn cx.ngrps t) (dep pos : Nat) (m : Marks)
    (cuts : Nat) (k : K) (kJ : KJ) (hk : KSim dep k kJ) (hblind : ShK kJ kJ)
    (hnc : NoCut cuts (bt cx t dep pos m cuts k)) :
    outcome cuts (bt cx t dep pos m cuts k) =
      firstSome (results ⟨cx.subj, cx.flg⟩ t (pos, m)) kJ :=
  outcome_of_sim (bt_sim_results cx t hg dep pos m cuts k kJ hk hblind) hnc

/-! ### whole programs -/

/-- the final continuation of `recmatch`: set mark 1, report the match -/
def finJ : KJ := fun r => O3.ok (r.1, setMark r.2 1 r.1)

/-- the best parse, with mark 1 set to its end -/
def headO : List R → O3
  | [] => O3.fail
  | r :: _ => O3.ok (r.1, setMark r.2 1 r.1)

theorem firstSome_fin (l : List R) : firstSome l finJ = headO l := by
  cases l <;> rfl

/-- the marks `recmatch` runs the tree from: all `-1`, mark 0 at the start position -/
def startMarks (ngrps start : Nat) : Marks := setMark (marks0 ngrps) 0 start

section whole
variable {cx : Ctx}

/-- `recmatch` and the head of the reference list -/
theorem recmatch_sim (t : RNode)
    (hp : cx.prog = [Inst.mark 0] ++ emit t 1 ++ [Inst.mark 1, Inst.mtch]) (hg1 : 1 < cx.ngrps)
    (hg : GrpsIn cx.ngrps t) (start cuts : Nat) :
    Sim cuts (recmatch cx start cuts)
      (headO (results ⟨cx.subj, cx.flg⟩ t (start, startMarks cx.ngrps start))) := by
  rw [recmatch_eq_bt t hp]
  split
  · exact ⟨by omega, fun e => absurd e (by omega)⟩
  · have e : setMk cx.ngrps (marks0 cx.ngrps) 0 start = startMarks cx.ngrps start := by
      simp [setMk, startMarks, setMark, show 0 < cx.ngrps by omega]
    rw [e, ← firstSome_fin]
    apply bt_sim_results cx t hg
    · intro d p m c _
      refine ⟨Nat.le_refl _, fun _ => ?_⟩
      simp [finJ, setMk, setMark, hg1]
    · intro s s' _; trivial

/-- **vm_complete**: if a parse exists from `start` (the reference list is not empty) and no cut
    happens, the VM run from `start` reports success with exactly the head of the list: its end
    position, and its marks with mark 1 set to the end position. -/
theorem vm_complete (t : RNode)
    (hp : cx.prog = [Inst.mark 0] ++ emit t 1 ++ [Inst.mark 1, Inst.mtch]) (hg1 : 1 < cx.ngrps)
    (hg : GrpsIn cx.ngrps t) (start cuts : Nat) (r : R) (rest : List R)
    (hres : results ⟨cx.subj, cx.flg⟩ t (start, startMarks cx.ngrps start) = r :: rest)
    (hnc : NoCut cuts (recmatch cx start cuts)) :
    recmatch cx start cuts = Res.ok r.1 (r.2.set 1 (r.1 : Int)) cuts := by
  have hs := recmatch_sim t hp hg1 hg start cuts
  have ho := outcome_of_sim hs hnc
  rw [hres] at ho
  rcases noCut_iff.mp hnc with ⟨p, m, h⟩ | h
  · rw [h] at ho ⊢
    simp only [outcome, if_true, headO, O3.ok.injEq, Prod.mk.injEq] at ho
    rw [ho.1, ho.2]; rfl
  · rw [h] at ho
    simp [outcome, headO] at ho

/-- no parse from `start`, no cut: the VM run fails -/
theorem vm_complete_none (t : RNode)
    (hp : cx.prog = [Inst.mark 0] ++ emit t 1 ++ [Inst.mark 1, Inst.mtch]) (hg1 : 1 < cx.ngrps)
    (hg : GrpsIn cx.ngrps t) (start cuts : Nat)
    (hres : results ⟨cx.subj, cx.flg⟩ t (start, startMarks cx.ngrps start) = [])
    (hnc : NoCut cuts (recmatch cx start cuts)) :
    recmatch cx start cuts = Res.fail cuts := by
  have hs := recmatch_sim t hp hg1 hg start cuts
  have ho := outcome_of_sim hs hnc
  rw [hres] at ho
  rcases noCut_iff.mp hnc with ⟨p, m, h⟩ | h
  · rw [h] at ho
    simp [outcome, headO] at ho
  · exact h

/-- conversely, a VM run without cut that fails shows there is no parse, and one that succeeds
    reports the head -/
theorem vm_fail_no_parse (t : RNode)
    (hp : cx.prog = [Inst.mark 0] ++ emit t 1 ++ [Inst.mark 1, Inst.mtch]) (hg1 : 1 < cx.ngrps)
    (hg : GrpsIn cx.ngrps t) (start cuts : Nat) (h : recmatch cx start cuts = Res.fail cuts) :
    results ⟨cx.subj, cx.flg⟩ t (start, startMarks cx.ngrps start) = [] := by
  have hs := recmatch_sim t hp hg1 hg start cuts
  rw [h] at hs
  have := hs.2 rfl
  cases hl : results ⟨cx.subj, cx.flg⟩ t (start, startMarks cx.ngrps start) with
  | nil => rfl
  | cons r rest => rw [hl] at this; simp [headO] at this

/-- `NoParseUntil env t ngrps s0 s`: no start position tried from `s0` (steps of `rxLen`) strictly
    before `s` has any parse -/
inductive NoParseUntil (env : Env) (t : RNode) (ngrps : Nat) : Nat → Nat → Prop
  | here (s : Nat) : NoParseUntil env t ngrps s s
  | step {s s' : Nat} : results env t (s, startMarks ngrps s) = [] →
      NoParseUntil env t ngrps (s + rxLen env.subj s) s' → NoParseUntil env t ngrps s s'

theorem failsUntil_noParse (t : RNode)
    (hp : cx.prog = [Inst.mark 0] ++ emit t 1 ++ [Inst.mark 1, Inst.mtch]) (hg1 : 1 < cx.ngrps)
    (hg : GrpsIn cx.ngrps t) {s0 c0 s c : Nat} (h : FailsUntil cx s0 c0 s c) :
    c0 ≤ c ∧ (c = c0 → NoParseUntil ⟨cx.subj, cx.flg⟩ t cx.ngrps s0 s) := by
  induction h with
  | here s c => exact ⟨Nat.le_refl _, fun _ => NoParseUntil.here s⟩
  | @step s1 c1 c2 s2 c3 hf _ ih =>
    have hs := recmatch_sim t hp hg1 hg s1 c1
    rw [hf] at hs
    refine ⟨by have := hs.1; omega, fun e => ?_⟩
    have e1 : c2 = c1 := by have := hs.1; omega
    have hnil : results ⟨cx.subj, cx.flg⟩ t (s1, startMarks cx.ngrps s1) = [] :=
      vm_fail_no_parse t hp hg1 hg s1 c1 (by rw [hf, e1])
    exact NoParseUntil.step hnil (ih.2 (by omega))

/-- **execLoop_first**: a search that reports a match with the cut counter it was started with (no
    cut at any start position) reports the best parse at the least start position tried that has
    any parse: no earlier position has a parse, and the marks are those of the head of the reference
    list there, with mark 1 at its end. -/
theorem execLoop_first (t : RNode)
    (hp : cx.prog = [Inst.mark 0] ++ emit t 1 ++ [Inst.mark 1, Inst.mtch]) (hg1 : 1 < cx.ngrps)
    (hg : GrpsIn cx.ngrps t) (f start0 cuts0 : Nat) (m : Marks)
    (h : execLoop cx f start0 cuts0 = ExecRes.found m cuts0) :
    ∃ s r rest, NoParseUntil ⟨cx.subj, cx.flg⟩ t cx.ngrps start0 s ∧
      results ⟨cx.subj, cx.flg⟩ t (s, startMarks cx.ngrps s) = r :: rest ∧
      m = r.2.set 1 (r.1 : Int) := by
  obtain ⟨s, cuts, p, hf, hr⟩ := leftmost_vm cx f start0 cuts0 m cuts0 h
  obtain ⟨hle, hno⟩ := failsUntil_noParse t hp hg1 hg hf
  have hs := recmatch_sim t hp hg1 hg s cuts
  rw [hr] at hs
  have e : cuts0 = cuts := by have := hs.1; omega
  have hh := hs.2 e
  cases hl : results ⟨cx.subj, cx.flg⟩ t (s, startMarks cx.ngrps s) with
  | nil => rw [hl] at hh; simp [headO] at hh
  | cons r rest =>
    rw [hl] at hh
    simp only [headO, O3.ok.injEq, Prod.mk.injEq] at hh
    exact ⟨s, r, rest, hno e.symm, hl, by rw [← hh.2]; rfl⟩

end whole

/-- numbered trees keep their groups below the count `grpnum` returns -/
theorem grpsIn_grpnum (t : RNode) : ∀ n N, 2 * (n + (grpnum t n).2) ≤ N → GrpsIn N (grpnum t n).1 := by
  induction t with
  | nul => intro n N _; simp [grpnum, GrpsIn]
  | atom a mn mx => intro n N _; simp [grpnum, GrpsIn]
  | cat a b iha ihb =>
    intro n N h
    simp only [grpnum] at h ⊢
    exact ⟨iha n N (by omega), ihb _ N (by omega)⟩
  | alt a b iha ihb =>
    intro n N h
    simp only [grpnum] at h ⊢
    exact ⟨iha n N (by omega), ihb _ N (by omega)⟩
  | grp a g mn mx iha =>
    intro n N h
    simp only [grpnum] at h ⊢
    exact ⟨by omega, iha _ N (by omega)⟩

/-- **regexec_first** (end to end): `regcomp` accepted the pattern, the marks of all its groups are
    in range, and `regexec` reports a match with cut counter 0 (no depth cut during the whole
    search).  Then the match is at the least start position tried that has any parse of the numbered
    tree, and the marks reported are those of the highest-priority parse there (greedy, left-biased:
    the head of `results`), with marks 0/1 the span of the match. -/
theorem regexec_first {pat : Bytes} {flg : Nat} {prog : Prog} (hc : regcomp pat flg = some (some prog))
    (subj : Bytes) (nsub eflg nd ngrps : Nat) (hg1 : 1 < ngrps)
    (hgr : ∀ t0, parse pat = some (some t0) → 2 * (1 + (grpnum t0 1).2) ≤ ngrps)
    (m : Marks) (subs : List (Int × Int))
    (hr : regexec prog subj nsub eflg nd ngrps = (ExecRes.found m 0, subs)) :
    ∃ t0 s r rest, parse pat = some (some t0) ∧
      NoParseUntil ⟨subj, prog.flg ||| eflg⟩ (grpnum t0 1).1 ngrps 0 s ∧
      results ⟨subj, prog.flg ||| eflg⟩ (grpnum t0 1).1 (s, startMarks ngrps s) = r :: rest ∧
      m = r.2.set 1 (r.1 : Int) := by
  unfold regcomp at hc
  split at hc
  · cases hc
  · cases hc
  · rename_i t0 hparse
    split at hc
    · cases hc
    injection hc with hc; injection hc with hc
    have hcode : prog.code = [Inst.mark 0] ++ emit (grpnum t0 1).1 1 ++ [Inst.mark 1, Inst.mtch] := by
      rw [← hc]
    unfold regexec at hr
    simp only [] at hr
    split at hr
    · cases hr
    · split at hr
      · rename_i m' c' hex
        injection hr with h1 h2
        injection h1 with hm hc'
        subst hm; subst hc'
        obtain ⟨s, r, rest, hno, hres, hm⟩ := execLoop_first
          (cx := ⟨prog.code, subj, prog.flg ||| eflg, nd, ngrps⟩) (grpnum t0 1).1 hcode hg1
          (grpsIn_grpnum t0 1 ngrps (hgr t0 hparse)) _ _ _ _ hex
        exact ⟨t0, s, r, rest, hparse, hno, hres, hm⟩
      · rename_i r hnf
        injection hr with h1 h2
        exact absurd h1 (by intro h; exact hnf m 0 h)

/-- the full statement of `bt_eq_results` as a proposition (proved: `bt_eq_results_holds`) -/
def bt_eq_results_full : Prop :=
  ∀ (cx : Ctx) (t : RNode), GrpsIn cx.ngrps t → ∀ (dep pos : Nat) (m : Marks) (cuts : Nat) (k : K) (kJ : KJ),
    KSim dep k kJ → ShK kJ kJ → NoCut cuts (bt cx t dep pos m cuts k) →
    outcome cuts (bt cx t dep pos m cuts k) = firstSome (results ⟨cx.subj, cx.flg⟩ t (pos, m)) kJ

theorem bt_eq_results_holds : bt_eq_results_full :=
  fun cx t hg dep pos m cuts k kJ hk hb hnc => bt_eq_results cx t hg dep pos m cuts k kJ hk hb hnc

/-! ### concrete instances: the head of the reference list is what the VM reports -/
section examples

/-- `a*` -/
def patStar : Bytes := [97, 42]
def treeStar : RNode := .atom ⟨AK.chr, [97]⟩ 0 (-1)
def codeStar : List Inst :=
  [Inst.mark 0, Inst.fork 2 4, Inst.atom ⟨AK.chr, [97]⟩, Inst.fork 2 4, Inst.mark 1, Inst.mtch]
/-- `aaab` -/
def subjStar : Bytes := [97, 97, 97, 98]

example : (parse patStar).map (·.map (fun t => (grpnum t 1).1)) = some (some treeStar) := by decide
example : (regcomp patStar 0).map (·.map (·.code)) = some (some codeStar) := by decide

/-- `a*` on `aaab`: the reference lists the parses longest first; its head is what the VM reports -/
theorem greedy_star_example :
    (results ⟨subjStar, 0⟩ treeStar (0, startMarks 4 0)).map (·.1) = [3, 2, 1, 0] ∧
    headO (results ⟨subjStar, 0⟩ treeStar (0, startMarks 4 0)) = O3.ok (3, [0, 3, -1, -1, -1, -1, -1, -1]) ∧
    regexec ⟨codeStar, 6, 0⟩ subjStar 1 0 64 4 = (ExecRes.found [0, 3, -1, -1, -1, -1, -1, -1] 0, [(0, 3)]) :=
  ⟨by decide, by decide, regexecF_sound (fuel := 40) (by decide)⟩

/-- `(a|ab)(c|bcd)` on `xabcd` from offset 1: the left alternative `a` is tried first and can only be
    continued by `bcd`; the parse `ab`·`c` comes second -/
theorem left_biased_example :
    (results ⟨subj1, 0⟩ tree1 (1, startMarks 6 1)).map (fun r => (r.1, r.2.set 1 (r.1 : Int))) =
      [(5, [1, 5, 1, 2, 2, 5, -1, -1, -1, -1, -1, -1]), (4, [1, 4, 1, 3, 3, 4, -1, -1, -1, -1, -1, -1])] ∧
    results ⟨subj1, 0⟩ tree1 (0, startMarks 6 0) = [] ∧
    regexec ⟨code1, 15, 0⟩ subj1 3 0 64 6 =
      (ExecRes.found [1, 5, 1, 2, 2, 5, -1, -1, -1, -1, -1, -1] 0, [(1, 5), (1, 2), (2, 5)]) :=
  ⟨by decide, by decide, regexecF_sound (fuel := 40) (by decide)⟩

/-- the same through the theorem: the reference list at offset 1 is not empty and the run has no
    cut, so `vm_complete` gives the VM result -/
example : recmatch ⟨code1, subj1, 0, 64, 6⟩ 1 0 =
    Res.ok 5 [1, 5, 1, 2, 2, 5, -1, -1, -1, -1, -1, -1] 0 :=
  vm_complete (cx := ⟨code1, subj1, 0, 64, 6⟩) tree1 (by decide) (by decide) (by decide) 1 0
    (5, [1, -1, 1, 2, 2, 5, -1, -1, -1, -1, -1, -1]) [(4, [1, -1, 1, 3, 3, 4, -1, -1, -1, -1, -1, -1])]
    (by decide)
    (by unfold recmatch
        rw [actF_sound (cx := ⟨code1, subj1, 0, 64, 6⟩) (f := 40)
          (r := Res.ok 5 [1, 5, 1, 2, 2, 5, -1, -1, -1, -1, -1, -1] 0) (by decide)]
        decide)

/-- `(a*)*` -/
def patStarStar : Bytes := [40, 97, 42, 41, 42]
def treeStarStar : RNode := .grp (.atom ⟨AK.chr, [97]⟩ 0 (-1)) 1 0 (-1)
def codeStarStar : List Inst :=
  [Inst.mark 0, Inst.fork 2 8, Inst.mark 2, Inst.fork 4 6, Inst.atom ⟨AK.chr, [97]⟩, Inst.fork 4 6,
   Inst.mark 3, Inst.fork 2 8, Inst.mark 1, Inst.mtch]
/-- `aab` -/
def subjStarStar : Bytes := [97, 97, 98]

example : (parse patStarStar).map (·.map (fun t => (grpnum t 1).1)) = some (some treeStarStar) := by decide
example : (regcomp patStarStar 0).map (·.map (·.code)) = some (some codeStarStar) := by decide

/-- `(a*)*` on `aab`: the second iteration of the outer star consumes nothing and ends it in the
    reference; the engine leaves that loop only through its depth limit (here 8; the run reports 2 cuts, so
    it is outside the scope of `vm_complete`), yet span and marks are those of the reference head -/
theorem nested_star_example :
    headO (results ⟨subjStarStar, 0⟩ treeStarStar (0, startMarks 4 0)) =
      O3.ok (2, [0, 2, 2, 2, -1, -1, -1, -1]) ∧
    regexec ⟨codeStarStar, 10, 0⟩ subjStarStar 2 0 8 4 =
      (ExecRes.found [0, 2, 2, 2, -1, -1, -1, -1] 2, [(0, 2), (2, 2)]) :=
  ⟨by decide, regexecF_sound (fuel := 40) (by decide)⟩

/-- `a{2,3}` -/
def patRep : Bytes := [97, 123, 50, 44, 51, 125]
def treeRep : RNode := .atom ⟨AK.chr, [97]⟩ 2 3
def codeRep : List Inst :=
  [Inst.mark 0, Inst.atom ⟨AK.chr, [97]⟩, Inst.atom ⟨AK.chr, [97]⟩, Inst.fork 4 5,
   Inst.atom ⟨AK.chr, [97]⟩, Inst.mark 1, Inst.mtch]
/-- `baaaa` -/
def subjRep : Bytes := [98, 97, 97, 97, 97]

example : (parse patRep).map (·.map (fun t => (grpnum t 1).1)) = some (some treeRep) := by decide
example : (regcomp patRep 0).map (·.map (·.code)) = some (some codeRep) := by decide

/-- `a{2,3}` on `baaaa`: no parse at offset 0; at offset 1 three copies come before two -/
theorem bounded_rep_example :
    results ⟨subjRep, 0⟩ treeRep (0, startMarks 4 0) = [] ∧
    (results ⟨subjRep, 0⟩ treeRep (1, startMarks 4 1)).map (·.1) = [4, 3] ∧
    regexec ⟨codeRep, 7, 0⟩ subjRep 1 0 64 4 = (ExecRes.found [1, 4, -1, -1, -1, -1, -1, -1] 0, [(1, 4)]) :=
  ⟨by decide, by decide, regexecF_sound (fuel := 40) (by decide)⟩

end examples

end Neatvi.Props.C10b
