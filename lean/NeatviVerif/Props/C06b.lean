import NeatviVerif.Lemmas.C06bRead
import NeatviVerif.Lemmas.C06bExec
import NeatviVerif.Lemmas.C06bProgress
import NeatviVerif.Props.C06
import NeatviVerif.Props.C04
/-!
# C06b: ex line commands, continued: `:r`, the bare address, `:u` / `:redo`, command lines `c1|c2`, scripts

Everything is stated on the model (`Model/Ex.lean`, `Model/ExCmd.lean`), for all states and inputs; vocabulary of
`Props/C06.lean` (`lines ed`, `AddrOnly`, `optLines`).

1. `ec_read_spec` (+ `ec_read_ok`, `ec_read_file`, `ec_read_after_current`, `ec_read_addr0`, `ec_read_nofile`,
   `ec_read_invalid_region`, `ec_read_nopath`): `:r file` and `:r !cmd`.
2. `ec_null_spec`, `ec_null_enter`, `ec_null_vi_spec` (bare address); `ec_undo_spec`, `ec_redo_spec`;
   `ec_undo_zipper`, `ec_redo_zipper`, `ex_undo_is_step`, `ex_redo_is_step` (link with C04).
3. `exExec_stops_never`, `exExec_unfold`, `exExec_seq` (every line: first command, then the rest, whatever the
   return code); `exExec_line`, `exExec_two`, `exExec_two_dispatch` (lines of simple commands joined by `|`).
4. `cmd_splice`, `script_frame` (parsed commands), `script_frame_lines` (one command per line through
   `ex_command`), `script_frame_bar` (lines `c1|c2|…`), `splice_frame`.
-/
set_option linter.unusedSimpArgs false

namespace Neatvi.Props.C06b
open Neatvi Neatvi.Lbuf Neatvi.LbufIo Neatvi.Ex Neatvi.Lemmas.C06 Neatvi.Lemmas.C06b
open Neatvi.Lemmas.Hist (optLines)

/-! ## 1. `:r` -/

/-- the file name `:r` uses: the expanded argument (`%`, `#`, `=`, backslash pairs; spaces allowed), or, without
    an argument, the path of the current buffer (`none` = `NULL`: `%` or `#` not set, or no buffer) -/
def readPath (ed : Ed) (arg : Bytes) : R (Option Bytes) :=
  if !arg.isEmpty then pathExpand ed arg true else some (ed.cur.map (·.path), ed)

/-- the message `"path"  [=n]  [r]` -/
def readMsg (path : Bytes) (n : Int) : Bytes := [34] ++ path ++ strOf "\"  [=" ++ intStr n ++ strOf "]  [r]"

/-- everything but the buffer table, the current row, the search keyword and the message line is the same
    (in particular the files, the registers, the printed output, the pending input) -/
def Touched (ed ed' : Ed) : Prop :=
  ed' = { ed with bufs := ed'.bufs, xrow := ed'.xrow, xkwd := ed'.xkwd, xkwddir := ed'.xkwddir, msg := ed'.msg }

theorem Touched.files {ed ed' : Ed} (h : Touched ed ed') : ed'.files = ed.files := by rw [h]
theorem Touched.regs {ed ed' : Ed} (h : Touched ed ed') : ed'.regs = ed.regs := by rw [h]
theorem Touched.out {ed ed' : Ed} (h : Touched ed ed') : ed'.out = ed.out := by rw [h]
theorem Touched.input {ed ed' : Ed} (h : Touched ed ed') : ed'.input = ed.input := by rw [h]

theorem readPath_some {ed ed0 : Ed} {arg path : Bytes} (h : readPath ed arg = some (some path, ed0)) : ed0 = ed := by
  unfold readPath at h
  split at h
  · exact (pathExpand_cases h).1 rfl
  · simp only [Option.some.injEq, Prod.mk.injEq] at h
    exact h.2.symm

theorem readPath_quiet {ed ed0 : Ed} {arg : Bytes} {p : Option Bytes} (h : readPath ed arg = some (p, ed0)) :
    Quiet ed ed0 := by
  unfold readPath at h
  split at h
  · exact pathExpand_quiet h
  · cases h; exact Quiet.refl _

/-- **`:r`.**  `ec_read` first expands the file name, then evaluates the address; the text goes after line
    `end - 1` of the resolved region (so: no address → after the current line; `N` → after line `N`; `0` →
    before the first line).

    * return 0, plain file: the file exists in `ed.files`, the buffer receives the lines of its content up to
      the first NUL byte (`cstr`; all of it for a NUL-free file) at `end`, nothing else in the buffer table
      changes (`OnlyLb`), files / registers / output are untouched (`Touched`), the current row is the last line
      read (`end + k - 1`; for an empty file this is `end - 1`, which is `-1` for `:0r`), and the message
      `"path"  [=k]  [r]` is shown;
    * return 0, `:r !cmd` (the expanded name starts with `!` and has at least two bytes): the model asks the pipe
      oracle `ed.pipe cmd ""`; no oracle entry → only the flag `unmodelled` is raised; entry `NULL` → no text;
      entry `o` → the lines of `o` are inserted at `end` exactly as for a file;
    * return 1: the text is unchanged and only the address side effects / the message line differ (`Quiet`). -/
theorem ec_read_spec (f : Nat) (ed ed' : Ed) (loc cmd arg : Bytes) (txt : Option Bytes) (rc : Int)
    (h : runCmd (f + 1) ed "ec_read" loc cmd arg txt = some (rc, ed')) :
    (rc = 0 ∨ rc = 1) ∧
    (rc = 0 → ∃ path b e ed1, readPath ed arg = some (some path, ed) ∧ exRegion ed loc = some ((0, b, e), ed1) ∧
      0 ≤ e ∧ e ≤ ed.len ∧
      (path.headD 0 ≠ 33 → ∃ fl, ed.findFile path = some fl ∧
        lines ed' = (lines ed).take e.toNat ++ splitLines (cstr fl.data) ++ (lines ed).drop e.toNat ∧
        ed'.xrow = e + (splitLines (cstr fl.data)).length - 1 ∧
        ed'.msg = ed.msg ++ readMsg path (splitLines (cstr fl.data)).length ++ [10] ∧
        OnlyLb ed ed' ∧ Touched ed ed') ∧
      (path.headD 0 = 33 → 2 ≤ path.length ∧
        (ed.pipe (path.drop 1) [] = none → ed' = { ed1 with unmodelled := true }) ∧
        (∀ o, ed.pipe (path.drop 1) [] = some o →
          lines ed' = (lines ed).take e.toNat ++ optLines o ++ (lines ed).drop e.toNat ∧
          ed'.xrow = e + (optLines o).length - 1 ∧
          ed'.msg = ed.msg ++ readMsg path (optLines o).length ++ [10] ∧
          (o = none → ed'.bufs = ed.bufs) ∧ (o.isSome → OnlyLb ed ed') ∧ Touched ed ed'))) ∧
    (rc = 1 → lines ed' = lines ed ∧ Quiet ed ed') := by
  rw [runCmd] at h
  simp only [String.reduceBEq, Bool.false_eq_true, ↓reduceIte, Bool.or_false, Bool.or_self] at h
  split at h
  · cases h
  · rename_i path ed0 hpr
    have hpr' : readPath ed arg = some (path, ed0) := hpr
    have hq0 := readPath_quiet hpr'
    split at h
    · cases h
    · rename_i rc0 b e ed1 hreg
      obtain ⟨ha, hrc, hv, _⟩ := region_all _ _ _ _ _ _ hreg
      have hq1 : Quiet ed ed1 := hq0.trans (Quiet.of_addrOnly ha)
      split at h
      · cases h
        exact ⟨Or.inr rfl, fun h => by omega, fun _ => ⟨hq1.lines, hq1⟩⟩
      · rename_i hc
        simp only [Bool.or_eq_true, bne_iff_ne, ne_eq, not_or, Decidable.not_not, Option.isNone_iff_eq_none] at hc
        obtain ⟨hc1, hc2⟩ := hc
        subst hc1
        obtain ⟨p, rfl⟩ : ∃ p, path = some p := by cases path with | none => exact absurd rfl hc2 | some p => exact ⟨p, rfl⟩
        have h0 := readPath_some hpr'
        subst h0
        obtain ⟨v1, v2, v3, _⟩ := hv rfl
        have hlen1 : ed1.len = ed0.len := ha.len
        have hl1 := len_nonneg ed1
        have hpos : (if (ed1.len != 0) = true then e else 0) = e := by
          by_cases hz : ed1.len = 0
          · simp [hz]; omega
          · simp [hz]
        simp only [Option.getD_some, hpos] at h
        have he0 : 0 ≤ e := by omega
        split at h
        · -- `:r !cmd`
          rename_i hbang
          simp only [beq_iff_eq] at hbang
          split at h
          · cases h
            exact ⟨Or.inr rfl, fun h => by omega, fun _ => ⟨hq1.lines, hq1⟩⟩
          · rename_i hlen
            have hlen2 : 2 ≤ p.length := by omega
            have hpipe1 : ed1.pipe (p.drop 1) [] = ed0.pipe (p.drop 1) [] := by
              unfold Ed.pipe; rw [hq1.pipes]
            split at h
            · rename_i hp
              cases h
              refine ⟨Or.inl rfl, fun _ => ⟨p, b, e, ed1, hpr', hreg, he0, by rw [← hlen1]; exact v3,
                fun hne => absurd hbang hne, fun _ => ⟨hlen2, fun _ => rfl, fun o ho => ?_⟩⟩, fun h => by omega⟩
              rw [← hpipe1, hp] at ho; cases ho
            · rename_i obuf hp
              split at h
              · cases h
              · rename_i ed2 hed2
                cases h
                refine ⟨Or.inl rfl, fun _ => ⟨p, b, e, ed1, hpr', hreg, he0, by rw [← hlen1]; exact v3,
                  fun hne => absurd hbang hne, fun _ => ⟨hlen2, fun hn => ?_, fun o ho => ?_⟩⟩, fun h => by omega⟩
                · rw [← hpipe1, hp] at hn; cases hn
                · rw [← hpipe1, hp] at ho
                  cases ho
                  -- the two shapes of the oracle's answer
                  have key : lines ed2 = (lines ed0).take e.toNat ++ optLines obuf ++ (lines ed0).drop e.toNat ∧
                      ed2.len = ed0.len + (optLines obuf).length ∧ ed2 = { ed1 with bufs := ed2.bufs } ∧
                      (obuf = none → ed2.bufs = ed0.bufs) ∧ (obuf.isSome → OnlyLb ed0 ed2) := by
                    cases obuf with
                    | none =>
                      simp only [Option.some.injEq] at hed2
                      subst hed2
                      refine ⟨?_, by simp [optLines, hlen1], rfl, fun _ => hq1.bufs, fun h => by cases h⟩
                      simp [optLines, hq1.lines]
                    | some o =>
                      simp only [] at hed2
                      have hfr := ed_edit_frame _ _ _ _ _ he0 (Int.le_refl e) v3 hed2
                      rw [hq1.lines, hlen1] at hfr
                      refine ⟨hfr.1, by rw [hfr.2]; omega, edit_fields _ _ _ _ _ hed2, fun h => (by cases h), fun _ => ?_⟩
                      obtain ⟨bb, lb', k1, k2⟩ := edit_onlyLb hed2
                      refine ⟨bb, lb', ?_, ?_⟩
                      · rw [← k1]; unfold Ed.cur; rw [hq1.bufs]
                      · rw [k2, hq1.bufs]
                  obtain ⟨k1, k2, k3, k4, k5⟩ := key
                  have hx : e + ed2.len - ed0.len - 1 = e + ((optLines obuf).length : Int) - 1 := by omega
                  have hn : ed2.len - ed0.len = ((optLines obuf).length : Int) := by omega
                  refine ⟨k1, hx, ?_, k4, k5, ?_⟩
                  · show ed2.msg ++ _ ++ [10] = _
                    rw [hn, k3]
                    show ed1.msg ++ _ ++ [10] = _
                    obtain ⟨_, _, _, rfl⟩ := ha
                    rfl
                  · unfold Touched
                    rw [k3]
                    obtain ⟨_, _, _, rfl⟩ := ha
                    rfl
        · -- a plain file
          rename_i hbang
          simp only [beq_iff_eq] at hbang
          have hfind : ed1.findFile p = ed0.findFile p := by unfold Ed.findFile; rw [hq1.files]
          split at h
          · cases h
            exact ⟨Or.inr rfl, fun h => by omega,
              fun _ => ⟨(Quiet.show _ _).lines.trans hq1.lines, hq1.trans (Quiet.show _ _)⟩⟩
          · rename_i fl hfl
            split at h
            · cases h
            · rename_i r lb' hrd
              obtain ⟨_, hed2⟩ := read_step ed1 fl.data e he0 r lb' hrd
              cases h
              have hfr := ed_edit_frame _ _ _ _ _ he0 (Int.le_refl e) v3 hed2
              rw [hq1.lines, hlen1] at hfr
              have k3 := edit_fields _ _ _ _ _ hed2
              refine ⟨Or.inl rfl, fun _ => ⟨p, b, e, ed1, hpr', hreg, he0, by rw [← hlen1]; exact v3,
                fun _ => ⟨fl, by rw [← hfind]; exact hfl, hfr.1, ?_, ?_, ?_, ?_⟩, fun he => absurd he hbang⟩,
                fun h => by omega⟩
              · show e + (ed1.setLb lb').len - ed0.len - 1 = _
                rw [hfr.2]; simp only [optLines]; omega
              · show (ed1.setLb lb').msg ++ _ ++ [10] = _
                have hn : (ed1.setLb lb').len - ed0.len = ((splitLines (cstr fl.data)).length : Int) := by
                  rw [hfr.2]; simp only [optLines]; omega
                rw [hn, k3]
                show ed1.msg ++ _ ++ [10] = _
                obtain ⟨_, _, _, rfl⟩ := ha
                rfl
              · obtain ⟨bb, lb2, k1, k2⟩ := edit_onlyLb hed2
                refine ⟨bb, lb2, ?_, ?_⟩
                · rw [← k1]; unfold Ed.cur; rw [hq1.bufs]
                · show (ed1.setLb lb').bufs = _
                  rw [k2, hq1.bufs]
              · unfold Touched
                show (({ ed1.setLb lb' with xrow := _ } : Ed).show _) = _
                rw [k3]
                obtain ⟨_, _, _, rfl⟩ := ha
                rfl

/-- `:r` never traps on an existing file: with a current buffer, a file name, a valid address and the file
    present, the command returns 0 (and `ec_read_spec` says what the state is) -/
theorem ec_read_ok (f : Nat) (ed ed1 : Ed) (loc cmd arg path : Bytes) (txt : Option Bytes) (b e : Int) (fl : File) (lb : Lb)
    (hp : readPath ed arg = some (some path, ed)) (hreg : exRegion ed loc = some ((0, b, e), ed1))
    (hbang : path.headD 0 ≠ 33) (hfl : ed.findFile path = some fl) (hlb : ed.lb = some lb) :
    ∃ ed', runCmd (f + 1) ed "ec_read" loc cmd arg txt = some (0, ed') := by
  obtain ⟨ha, _, hv, _⟩ := region_all _ _ _ _ _ _ hreg
  obtain ⟨v1, v2, v3, _⟩ := hv rfl
  have hl1 := len_nonneg ed1
  have hpos : (if (ed1.len != 0) = true then e else 0) = e := by
    by_cases hz : ed1.len = 0
    · simp [hz]; omega
    · simp [hz]
  have hfind : ed1.findFile path = some fl := by
    rw [← hfl]; obtain ⟨_, _, _, rfl⟩ := ha; rfl
  obtain ⟨lb', hrd⟩ := read_step_total ed1 lb fl.data e (by rw [ha.lb]; exact hlb)
  unfold readPath at hp
  rw [runCmd]
  simp only [String.reduceBEq, Bool.false_eq_true, ↓reduceIte, Bool.or_false, Bool.or_self, hp, hreg]
  simp only [bne_self_eq_false, Option.isNone_some, Bool.or_self, Bool.false_eq_true, ↓reduceIte, Option.getD_some,
    hpos, hfind, hrd]
  have hb2 : (path.headD 0 == 33) = false := by simpa using hbang
  simp only [hb2, Bool.false_eq_true, ↓reduceIte]
  exact ⟨_, rfl⟩

/-- the complete success case for a plain NUL-free file, as one statement -/
theorem ec_read_file (f : Nat) (ed ed1 : Ed) (loc cmd arg path : Bytes) (txt : Option Bytes) (b e : Int) (fl : File) (lb : Lb)
    (hp : readPath ed arg = some (some path, ed)) (hreg : exRegion ed loc = some ((0, b, e), ed1))
    (hbang : path.headD 0 ≠ 33) (hfl : ed.findFile path = some fl) (hlb : ed.lb = some lb) (hnul : 0 ∉ fl.data) :
    ∃ ed', runCmd (f + 1) ed "ec_read" loc cmd arg txt = some (0, ed') ∧
      lines ed' = (lines ed).take e.toNat ++ splitLines fl.data ++ (lines ed).drop e.toNat ∧
      ed'.xrow = e + (splitLines fl.data).length - 1 ∧ OnlyLb ed ed' ∧ Touched ed ed' := by
  obtain ⟨ed', hrun⟩ := ec_read_ok f ed ed1 loc cmd arg path txt b e fl lb hp hreg hbang hfl hlb
  obtain ⟨p', b', e', ed1', h1, h2, _, _, h5, _⟩ := (ec_read_spec f ed ed' loc cmd arg txt 0 hrun).2.1 rfl
  rw [hp] at h1
  rw [hreg] at h2
  simp only [Option.some.injEq, Prod.mk.injEq] at h1 h2
  obtain ⟨⟨_, rfl, rfl⟩, rfl⟩ := h2
  obtain ⟨rfl, _⟩ := h1
  obtain ⟨fl', k1, k2, k3, _, k5, k6⟩ := h5 hbang
  rw [hfl] at k1
  cases k1
  rw [cstr_nulfree _ hnul] at k2 k3
  exact ⟨ed', hrun, k2, k3, k5, k6⟩

/-- without an address the region is the current line (for a current row inside the buffer) -/
theorem region_noaddr (ed : Ed) (h0 : 0 ≤ ed.xrow) (h1 : ed.xrow < ed.len) :
    exRegion ed [] = some ((0, ed.xrow, ed.xrow + 1), ed) := by
  unfold exRegion
  have hb : max 0 (min ed.xrow ed.len) = ed.xrow := by omega
  have hne : (ed.xrow == ed.len) = false := by simp; omega
  simp [hb, hne]

/-- `:r file` without an address: the lines of the file go right after the current line -/
theorem ec_read_after_current (f : Nat) (ed : Ed) (cmd arg path : Bytes) (txt : Option Bytes) (fl : File) (lb : Lb)
    (hp : readPath ed arg = some (some path, ed)) (h0 : 0 ≤ ed.xrow) (h1 : ed.xrow < ed.len)
    (hbang : path.headD 0 ≠ 33) (hfl : ed.findFile path = some fl) (hlb : ed.lb = some lb) (hnul : 0 ∉ fl.data) :
    ∃ ed', runCmd (f + 1) ed "ec_read" [] cmd arg txt = some (0, ed') ∧
      lines ed' = (lines ed).take (ed.xrow + 1).toNat ++ splitLines fl.data ++ (lines ed).drop (ed.xrow + 1).toNat ∧
      ed'.xrow = ed.xrow + (splitLines fl.data).length := by
  obtain ⟨ed', k1, k2, k3, _⟩ := ec_read_file f ed ed [] cmd arg path txt _ _ fl lb hp (region_noaddr ed h0 h1) hbang hfl hlb hnul
  exact ⟨ed', k1, k2, by rw [k3]; omega⟩

/-- `:0r file` on a non-empty buffer: the lines of the file go before the first line -/
theorem ec_read_addr0 (f : Nat) (ed : Ed) (cmd arg path : Bytes) (txt : Option Bytes) (fl : File) (lb : Lb)
    (hp : readPath ed arg = some (some path, ed)) (hne : 0 < ed.len)
    (hbang : path.headD 0 ≠ 33) (hfl : ed.findFile path = some fl) (hlb : ed.lb = some lb) (hnul : 0 ∉ fl.data) :
    ∃ ed', runCmd (f + 1) ed "ec_read" [48] cmd arg txt = some (0, ed') ∧
      lines ed' = splitLines fl.data ++ lines ed ∧ ed'.xrow = ((splitLines fl.data).length : Int) - 1 := by
  have hr := C06.region_zero ed
  rw [if_neg (by omega)] at hr
  obtain ⟨ed', k1, k2, k3, _⟩ := ec_read_file f ed ed [48] cmd arg path txt _ _ fl lb hp hr hbang hfl hlb hnul
  exact ⟨ed', k1, by simpa using k2, by rw [k3]; omega⟩

/-- no such file: return 1, the message `read failed`, nothing else -/
theorem ec_read_nofile (f : Nat) (ed ed1 : Ed) (loc cmd arg path : Bytes) (txt : Option Bytes) (b e : Int)
    (hp : readPath ed arg = some (some path, ed)) (hreg : exRegion ed loc = some ((0, b, e), ed1))
    (hbang : path.headD 0 ≠ 33) (hfl : ed.findFile path = none) :
    runCmd (f + 1) ed "ec_read" loc cmd arg txt = some (1, ed1.show (strOf "read failed")) ∧
      lines (ed1.show (strOf "read failed")) = lines ed := by
  obtain ⟨ha, _, _, _⟩ := region_all _ _ _ _ _ _ hreg
  have hfind : ed1.findFile path = none := by
    rw [← hfl]; obtain ⟨_, _, _, rfl⟩ := ha; rfl
  refine ⟨?_, ha.lines⟩
  unfold readPath at hp
  rw [runCmd]
  simp only [String.reduceBEq, Bool.false_eq_true, ↓reduceIte, Bool.or_false, Bool.or_self, hp, hreg]
  have hb2 : (path.headD 0 == 33) = false := by simpa using hbang
  simp only [bne_self_eq_false, Option.isNone_some, Bool.or_self, Bool.false_eq_true, ↓reduceIte, Option.getD_some,
    hfind, hb2]

/-- an address that does not resolve: return 1, text unchanged -/
theorem ec_read_invalid_region (f : Nat) (ed ed0 ed1 : Ed) (loc cmd arg : Bytes) (txt : Option Bytes) (p : Option Bytes)
    (b e : Int) (hp : readPath ed arg = some (p, ed0)) (hreg : exRegion ed0 loc = some ((1, b, e), ed1)) :
    runCmd (f + 1) ed "ec_read" loc cmd arg txt = some (1, ed1) ∧ lines ed1 = lines ed := by
  have hq := (readPath_quiet hp).trans (Quiet.of_addrOnly (region_all _ _ _ _ _ _ hreg).1)
  refine ⟨?_, hq.lines⟩
  unfold readPath at hp
  rw [runCmd]
  simp only [String.reduceBEq, Bool.false_eq_true, ↓reduceIte, Bool.or_false, Bool.or_self, hp, hreg]
  simp

/-- no file name (`%` / `#` not set, or no argument and no buffer): return 1, text unchanged -/
theorem ec_read_nopath (f : Nat) (ed ed0 ed1 : Ed) (loc cmd arg : Bytes) (txt : Option Bytes) (rc0 : Nat)
    (b e : Int) (hp : readPath ed arg = some (none, ed0)) (hreg : exRegion ed0 loc = some ((rc0, b, e), ed1)) :
    runCmd (f + 1) ed "ec_read" loc cmd arg txt = some (1, ed1) ∧ lines ed1 = lines ed := by
  have hq := (readPath_quiet hp).trans (Quiet.of_addrOnly (region_all _ _ _ _ _ _ hreg).1)
  refine ⟨?_, hq.lines⟩
  unfold readPath at hp
  rw [runCmd]
  simp only [String.reduceBEq, Bool.false_eq_true, ↓reduceIte, Bool.or_false, Bool.or_self, hp, hreg]
  simp

/-! ## 2. the bare address, `:u`, `:redo` -/

/-- the state in which `ec_null` (ex mode) evaluates its address: the current row moved one line down if
    there is one -/
def nullMoved (ed : Ed) : Ed := { ed with xrow := if ed.xrow + 1 < ed.len then ed.xrow + 1 else ed.xrow }

/-- a bare address in ex mode (`xvis` off) is `:p` run one row further down (one level of fuel is spent on
    the dispatch) -/
theorem ec_null_ex (f : Nat) (ed : Ed) (loc cmd arg : Bytes) (txt : Option Bytes) (hv : ed.xvis = false) :
    runCmd (f + 2) ed "ec_null" loc cmd arg txt = runCmd (f + 1) (nullMoved ed) "ec_print" loc cmd arg txt := by
  conv => lhs; rw [runCmd]
  simp only [String.reduceBEq, Bool.false_eq_true, ↓reduceIte]
  rw [if_pos (by rw [hv]; rfl)]
  rfl

theorem nullMoved_addrOnly (ed : Ed) : AddrOnly ed (nullMoved ed) := ⟨_, _, _, rfl⟩

/-- **bare address, ex mode**: the text never changes; on success the lines of the region (evaluated after the
    move) are printed in order and the current row is the last one printed -/
theorem ec_null_spec (f : Nat) (ed ed' : Ed) (loc cmd arg : Bytes) (txt : Option Bytes) (rc : Int)
    (hv : ed.xvis = false) (h : runCmd (f + 2) ed "ec_null" loc cmd arg txt = some (rc, ed')) :
    (rc = 0 ∨ rc = 1) ∧ lines ed' = lines ed ∧
    (rc = 0 → ∃ b e ed1, exRegion (nullMoved ed) loc = some ((0, b, e), ed1) ∧ 0 ≤ b ∧ b ≤ e ∧ e ≤ ed.len ∧
      ed'.out = ed.out ++ (((lines ed).drop b.toNat).take (e.toNat - b.toNat)).flatMap printed ∧
      ed'.xrow = max b (e - 1)) ∧
    (rc = 1 → ed'.out = ed.out ∧ AddrOnly ed ed') := by
  rw [ec_null_ex f ed loc cmd arg txt hv] at h
  obtain ⟨h1, h2, h3, h4⟩ := C06.ec_print_spec f (nullMoved ed) ed' loc cmd arg txt rc h
  refine ⟨h1, h2, fun h0 => ?_, fun h0 => ?_⟩
  · obtain ⟨b, e, ed1, k1, k2, k3, k4, k5, k6⟩ := h3 h0
    exact ⟨b, e, ed1, k1, k2, k3, k4, k5, k6⟩
  · obtain ⟨k1, k2⟩ := h4 h0
    exact ⟨k1, (nullMoved_addrOnly ed).trans k2⟩

/-- Enter on an empty line in ex mode, with a line below the current one: that line is printed and becomes
    the current line -/
theorem ec_null_enter (f : Nat) (ed : Ed) (arg : Bytes) (txt : Option Bytes) (hv : ed.xvis = false)
    (h0 : 0 ≤ ed.xrow) (h1 : ed.xrow + 1 < ed.len) :
    ∃ ed' l, runCmd (f + 2) ed "ec_null" [] [] arg txt = some (0, ed') ∧ lines ed' = lines ed ∧
      (lines ed)[(ed.xrow + 1).toNat]? = some l ∧ ed'.out = ed.out ++ printed l ∧ ed'.xrow = ed.xrow + 1 := by
  have hm : nullMoved ed = { ed with xrow := ed.xrow + 1 } := by unfold nullMoved; rw [if_pos h1]
  have hlen : (nullMoved ed).len = ed.len := (nullMoved_addrOnly ed).len
  have hreg : exRegion (nullMoved ed) [] = some ((0, ed.xrow + 1, ed.xrow + 1 + 1), nullMoved ed) := by
    have := region_noaddr (nullMoved ed) (by rw [hm]; show 0 ≤ ed.xrow + 1; omega) (by rw [hlen, hm]; exact h1)
    rw [this, hm]
  have hlenl := len_eq ed
  obtain ⟨l, hl⟩ : ∃ l, (lines ed)[(ed.xrow + 1).toNat]? = some l := ⟨_, List.getElem?_eq_getElem (by omega)⟩
  cases hrun : runCmd (f + 2) ed "ec_null" [] [] arg txt with
  | none =>
    exfalso
    rw [ec_null_ex f ed [] [] arg txt hv, runCmd] at hrun
    have hx : ¬ ((nullMoved ed).xrow ≥ (nullMoved ed).len) := by rw [hlen, hm]; show ¬ (ed.xrow + 1 ≥ ed.len); omega
    simp only [String.reduceBEq, Bool.false_eq_true, ↓reduceIte, List.isEmpty_nil, Bool.and_self, Bool.true_and,
      decide_eq_true_eq, hx, hreg] at hrun
    simp at hrun
  | some x =>
    obtain ⟨rc, ed'⟩ := x
    obtain ⟨k1, k2, k3, k4⟩ := ec_null_spec f ed ed' [] [] arg txt rc hv hrun
    have hrc : rc = 0 := by
      rcases k1 with k | k
      · exact k
      · exfalso
        rw [ec_null_ex f ed [] [] arg txt hv, runCmd] at hrun
        have hx : ¬ ((nullMoved ed).xrow ≥ (nullMoved ed).len) := by rw [hlen, hm]; show ¬ (ed.xrow + 1 ≥ ed.len); omega
        simp only [String.reduceBEq, Bool.false_eq_true, ↓reduceIte, List.isEmpty_nil, Bool.and_self, Bool.true_and,
          decide_eq_true_eq, hx, hreg] at hrun
        simp at hrun
        omega
    subst hrc
    obtain ⟨b, e, ed1, r1, _, _, _, r5, r6⟩ := k3 rfl
    rw [hreg] at r1
    simp only [Option.some.injEq, Prod.mk.injEq] at r1
    obtain ⟨⟨_, rfl, rfl⟩, _⟩ := r1
    refine ⟨ed', l, rfl, k2, hl, ?_, by rw [r6]; omega⟩
    rw [r5]
    have : ((lines ed).drop (ed.xrow + 1).toNat).take ((ed.xrow + 1 + 1).toNat - (ed.xrow + 1).toNat) = [l] := by
      rw [show (ed.xrow + 1 + 1).toNat - (ed.xrow + 1).toNat = 1 by omega, List.take_one, List.head?_drop, hl]
      rfl
    rw [this]
    simp

/-- **bare address, visual mode** (`xvis` on): nothing is printed, the current row becomes the last line of
    the region -/
theorem ec_null_vi_spec (f : Nat) (ed ed' : Ed) (loc cmd arg : Bytes) (txt : Option Bytes) (rc : Int)
    (hv : ed.xvis = true) (h : runCmd (f + 1) ed "ec_null" loc cmd arg txt = some (rc, ed')) :
    (rc = 0 ∨ rc = 1) ∧ lines ed' = lines ed ∧ ed'.out = ed.out ∧
    (rc = 0 → ∃ b e ed1, exRegion ed loc = some ((0, b, e), ed1) ∧ ed' = { ed1 with xrow := max b (e - 1), xoff := 0 }) ∧
    (rc = 1 → AddrOnly ed ed') := by
  rw [runCmd] at h
  simp only [String.reduceBEq, Bool.false_eq_true, ↓reduceIte, hv, Bool.not_true] at h
  split at h
  · cases h
  · rename_i rc0 b e ed1 hreg
    obtain ⟨ha, _, _, _⟩ := region_all _ _ _ _ _ _ hreg
    split at h
    · cases h
      exact ⟨Or.inr rfl, ha.lines, ha.out, fun h => by omega, fun _ => ha⟩
    · rename_i hc
      simp only [bne_iff_ne, ne_eq, Decidable.not_not] at hc
      subst hc
      cases h
      exact ⟨Or.inl rfl, ha.lines, ha.out, fun _ => ⟨b, e, ed1, hreg, rfl⟩, fun h => by omega⟩

theorem undo_rc {lb lb' : Lb} {r : Nat} (h : Lbuf.undo lb = some (r, lb')) : r = 0 ∨ (r = 1 ∧ lb' = lb) := by
  unfold Lbuf.undo at h
  split at h
  · cases h; exact Or.inr ⟨rfl, rfl⟩
  · split at h
    · cases h
    · simp only [Option.map_eq_some_iff, Prod.mk.injEq] at h
      obtain ⟨_, _, h2, _⟩ := h
      exact Or.inl h2.symm

theorem redo_rc {lb lb' : Lb} {r : Nat} (h : Lbuf.redo lb = some (r, lb')) : r = 0 ∨ (r = 1 ∧ lb' = lb) := by
  unfold Lbuf.redo at h
  split at h
  · cases h; exact Or.inr ⟨rfl, rfl⟩
  · split at h
    · cases h
    · simp only [Option.map_eq_some_iff, Prod.mk.injEq] at h
      obtain ⟨_, _, h2, _⟩ := h
      exact Or.inl h2.symm

/-- **`:u`** at the ex level is `lbuf_undo` on the current buffer: the return code is its return code, the new
    text is the text it produces, nothing but the line buffer of the current buffer changes; when there is
    nothing to undo the return code is 1 and the whole state is unchanged -/
theorem ec_undo_spec (f : Nat) (ed ed' : Ed) (loc cmd arg : Bytes) (txt : Option Bytes) (rc : Int)
    (h : runCmd (f + 1) ed "ec_undo" loc cmd arg txt = some (rc, ed')) :
    ∃ lb r lb', ed.lb = some lb ∧ Lbuf.undo lb = some (r, lb') ∧ rc = (r : Int) ∧
      ed' = ed.setLb lb' ∧ ed'.lb = some lb' ∧ lines ed' = lb'.lines ∧ OnlyLb ed ed' ∧
      (rc = 0 ∨ rc = 1) ∧ (rc = 1 → ed' = ed) := by
  rw [runCmd] at h
  simp only [String.reduceBEq, Bool.false_eq_true, ↓reduceIte, Bool.or_false, Bool.or_self] at h
  split at h
  · cases h
  · rename_i r lb' hu
    cases h
    cases hlb : ed.lb with
    | none => rw [hlb] at hu; cases hu
    | some lb =>
      rw [hlb] at hu
      simp only [Option.bind_some] at hu
      have hl' := setLb_lb ed lb lb' hlb
      refine ⟨lb, r, lb', rfl, hu, rfl, rfl, hl', lines_of_lb hl', setLb_onlyLb ed lb lb' hlb, ?_, ?_⟩
      · rcases undo_rc hu with k | ⟨k, _⟩ <;> subst k
        · exact Or.inl rfl
        · exact Or.inr rfl
      · intro h1
        rcases undo_rc hu with k | ⟨_, k⟩
        · subst k; simp at h1
        · subst k; exact setLb_same ed lb' hlb

/-- **`:redo`**, likewise with `lbuf_redo` -/
theorem ec_redo_spec (f : Nat) (ed ed' : Ed) (loc cmd arg : Bytes) (txt : Option Bytes) (rc : Int)
    (h : runCmd (f + 1) ed "ec_redo" loc cmd arg txt = some (rc, ed')) :
    ∃ lb r lb', ed.lb = some lb ∧ Lbuf.redo lb = some (r, lb') ∧ rc = (r : Int) ∧
      ed' = ed.setLb lb' ∧ ed'.lb = some lb' ∧ lines ed' = lb'.lines ∧ OnlyLb ed ed' ∧
      (rc = 0 ∨ rc = 1) ∧ (rc = 1 → ed' = ed) := by
  rw [runCmd] at h
  simp only [String.reduceBEq, Bool.false_eq_true, ↓reduceIte, Bool.or_false, Bool.or_self] at h
  split at h
  · cases h
  · rename_i r lb' hu
    cases h
    cases hlb : ed.lb with
    | none => rw [hlb] at hu; cases hu
    | some lb =>
      rw [hlb] at hu
      simp only [Option.bind_some] at hu
      have hl' := setLb_lb ed lb lb' hlb
      refine ⟨lb, r, lb', rfl, hu, rfl, rfl, hl', lines_of_lb hl', setLb_onlyLb ed lb lb' hlb, ?_, ?_⟩
      · rcases redo_rc hu with k | ⟨k, _⟩ <;> subst k
        · exact Or.inl rfl
        · exact Or.inr rfl
      · intro h1
        rcases redo_rc hu with k | ⟨_, k⟩
        · subst k; simp at h1
        · subst k; exact setLb_same ed lb' hlb

open Neatvi.Spec in
/-- **`:u` against the zipper of texts of C04.**  If the line buffer of the current buffer is simulated by the
    zipper `z` at a command boundary (`C04.RunInv`, which holds after any history of commands by
    `C04.reached_inv`), then `:u` never traps and:
    * with an empty past it returns 1 and changes nothing;
    * otherwise it returns 0, the text becomes exactly the previous text `p` (the head of `z.past`), and the new
      line buffer is simulated by the zipper moved one step back. -/
theorem ec_undo_zipper (f : Nat) (ed : Ed) (lb : Lb) (z : Zipper) (loc cmd arg : Bytes) (txt : Option Bytes)
    (hlb : ed.lb = some lb) (hinv : C04.RunInv lb z) :
    (z.past = [] ∧ runCmd (f + 1) ed "ec_undo" loc cmd arg txt = some (1, ed)) ∨
    (∃ p ps lb', z.past = p :: ps ∧ runCmd (f + 1) ed "ec_undo" loc cmd arg txt = some (0, ed.setLb lb') ∧
      (ed.setLb lb').lb = some lb' ∧ lines (ed.setLb lb') = p ∧
      C04.RunInv lb' ⟨ps, p, z.present :: z.future, false⟩) := by
  obtain ⟨ho, pg, fg, hi⟩ := hinv
  have hrun : ∀ r lb', Lbuf.undo lb = some (r, lb') →
      runCmd (f + 1) ed "ec_undo" loc cmd arg txt = some ((r : Int), ed.setLb lb') := by
    intro r lb' hu
    rw [runCmd]
    simp only [String.reduceBEq, Bool.false_eq_true, ↓reduceIte, Bool.or_false, Bool.or_self, hlb, Option.bind_some, hu]
  rcases Lemmas.Hist.inv_undo hi ho with ⟨_, hu, hz⟩ | ⟨g, ps, lb', z', _, hu, hz, ho', _, hi'⟩
  · left
    refine ⟨?_, ?_⟩
    · unfold Zipper.undo at hz
      cases hp : z.past with
      | nil => rfl
      | cons a b => rw [hp] at hz; cases hz
    · rw [hrun _ _ hu, setLb_same ed lb hlb]; rfl
  · right
    cases hp : z.past with
    | nil => simp [Zipper.undo, hp] at hz
    | cons p ps' =>
      have hz' : z' = ⟨ps', p, z.present :: z.future, false⟩ := by
        simp only [Zipper.undo, hp, Option.some.injEq] at hz; exact hz.symm
      have hl' := setLb_lb ed lb lb' hlb
      refine ⟨p, ps', lb', rfl, by rw [hrun _ _ hu]; rfl, hl', ?_, ?_⟩
      · rw [lines_of_lb hl', ← hi'.present, hz']
      · rw [← hz']; exact ⟨ho', ps, g :: fg, hi'⟩

open Neatvi.Spec in
/-- **`:redo` against the zipper of texts of C04** -/
theorem ec_redo_zipper (f : Nat) (ed : Ed) (lb : Lb) (z : Zipper) (loc cmd arg : Bytes) (txt : Option Bytes)
    (hlb : ed.lb = some lb) (hinv : C04.RunInv lb z) :
    (z.future = [] ∧ runCmd (f + 1) ed "ec_redo" loc cmd arg txt = some (1, ed)) ∨
    (∃ n ns lb', z.future = n :: ns ∧ runCmd (f + 1) ed "ec_redo" loc cmd arg txt = some (0, ed.setLb lb') ∧
      (ed.setLb lb').lb = some lb' ∧ lines (ed.setLb lb') = n ∧
      C04.RunInv lb' ⟨z.present :: z.past, n, ns, false⟩) := by
  obtain ⟨ho, pg, fg, hi⟩ := hinv
  have hrun : ∀ r lb', Lbuf.redo lb = some (r, lb') →
      runCmd (f + 1) ed "ec_redo" loc cmd arg txt = some ((r : Int), ed.setLb lb') := by
    intro r lb' hu
    rw [runCmd]
    simp only [String.reduceBEq, Bool.false_eq_true, ↓reduceIte, Bool.or_false, Bool.or_self, hlb, Option.bind_some, hu]
  rcases Lemmas.Hist.inv_redo hi ho with ⟨_, hu, hz⟩ | ⟨g, fs, lb', z', _, hu, hz, ho', _, hi'⟩
  · left
    refine ⟨?_, ?_⟩
    · unfold Zipper.redo at hz
      cases hp : z.future with
      | nil => rfl
      | cons a b => rw [hp] at hz; cases hz
    · rw [hrun _ _ hu, setLb_same ed lb hlb]; rfl
  · right
    cases hp : z.future with
    | nil => simp [Zipper.redo, hp] at hz
    | cons n ns' =>
      have hz' : z' = ⟨z.present :: z.past, n, ns', false⟩ := by
        simp only [Zipper.redo, hp, Option.some.injEq] at hz; exact hz.symm
      have hl' := setLb_lb ed lb lb' hlb
      refine ⟨n, ns', lb', rfl, by rw [hrun _ _ hu]; rfl, hl', ?_, ?_⟩
      · rw [lines_of_lb hl', ← hi'.present, hz']
      · rw [← hz']; exact ⟨ho', g :: pg, fs, hi'⟩

/-! ## 3. command lines: `c1|c2|…`

`parse1 ln` is the first command of the line as `ex_exec` splits it (`ex_loc`, `ex_cmd`, `ex_arg`), `runOne` one
iteration of its loop (fetch the text with `ex_txt`, dispatch with `runCmd`; an unknown command only shows a
message and keeps the previous return code). -/

theorem exExec_short (f : Nat) (ed : Ed) (ln : Bytes) (h : ln.length < Gen.EXLEN) :
    exExec (f + 1) ed ln = exExec.cmds f (ln.length + 1) ed ln 0 := by
  rw [exExec, if_neg (by omega)]

/-- a line of `EXLEN` bytes or more is rejected as a whole -/
theorem exExec_too_long (f : Nat) (ed : Ed) (ln : Bytes) (h : Gen.EXLEN ≤ ln.length) :
    exExec (f + 1) ed ln = some (1, ed.show (strOf "command too long")) := by
  rw [exExec, if_pos h]

/-- **`ex_exec` never stops early.**  One iteration of the loop, for every line and every state: the first
    command is run, and *whatever it returned* (`r` is not inspected) the loop goes on with the rest of the line;
    only a trap of the command (`none`) ends the run.  The value returned at the end of the line is the return
    code of the last command that was dispatched (an unknown command hands on the code it received; 0 at the
    start of the line). -/
theorem exExec_stops_never (f g : Nat) (ed : Ed) (ln : Bytes) (ret : Int) (hne : ln ≠ []) :
    exExec.cmds f (g + 1) ed ln ret =
      match runOne f ed (parse1 ln) ret with
      | none => none
      | some ((r, ed1), rest) => exExec.cmds f g ed1 rest r := by
  have hne' : ¬ (ln.isEmpty = true) := by
    cases ln with
    | nil => exact absurd rfl hne
    | cons x xs => simp
  rw [cmds_succ, if_neg hne']
  cases runOne f ed (parse1 ln) ret with
  | none => rfl
  | some x => rfl

/-- at the end of the line the loop returns the code of the last command -/
theorem exExec_end (f g : Nat) (ed : Ed) (ret : Int) : exExec.cmds f g ed [] ret = some (ret, ed) := cmds_nil f g ed ret

/-- **a line of simple commands joined by `|` runs all of them in order** (`runLine`): for commands made of an
    address over `.$0-9+-,;%`, a name, blanks and an argument without newline, `|`, `"`, backslash, whose
    argument parser stops at `|` (`plainAbbr`: every table entry except `!`, `g`, `g!`, `v`, `s`, and `r`/`w`
    with a `!` argument) and that are not `rs` -/
theorem exExec_line (f : Nat) (ed : Ed) (cs : List Cmd1) (hok : LineOk cs) (hlen : (joinBar cs).length < Gen.EXLEN) :
    exExec (f + 1) ed (joinBar cs) = runLine f ed cs 0 := by
  rw [exExec_short f ed _ hlen]
  exact cmds_line f cs _ ed 0 hok (joinBar_length cs)

/-- **`c1|c2`**: the line runs `c1`, then — whatever `c1` returned — `c2` in the state `c1` left, and returns what
    `c2` returns (`c2` a known command) -/
theorem exExec_two (f : Nat) (ed : Ed) (c1 c2 : Cmd1) (h1 : c1.Ok (124 :: c2.bytes)) (h2 : c2.Ok [])
    (hne : c2.bytes ≠ []) (hknown : (exIdx c2.cmd).isSome)
    (hlen : (c1.bytes ++ 124 :: c2.bytes).length < Gen.EXLEN) :
    exExec (f + 1) ed (c1.bytes ++ 124 :: c2.bytes) =
      match runOne f ed (c1.parsed c2.bytes) 0 with
      | none => none
      | some ((_, ed1), _) => exExec (f + 1) ed1 c2.bytes := by
  have hl := exExec_line f ed [c1, c2] ⟨h1, h2, hne⟩ hlen
  simp only [joinBar] at hl
  rw [hl]
  simp only [runLine, joinBar]
  cases hr : runOne f ed (c1.parsed c2.bytes) 0 with
  | none => rfl
  | some x =>
    obtain ⟨⟨r1, ed1⟩, rest⟩ := x
    have hl2 := exExec_line f ed1 [c2] ⟨h2, hne⟩ (by simp only [joinBar]; simp at hlen; omega)
    simp only [joinBar] at hl2
    simp only [hl2, runLine, joinBar]
    rw [runOne_ret f ed1 (c2.parsed []) r1 0 hknown]

/-- and with commands that take no text (`d`, `y`, `pu`, `k`, `=`, `p`, `r`, …) both steps are plain dispatches -/
theorem exExec_two_dispatch (f : Nat) (ed : Ed) (c1 c2 : Cmd1) (h1 : c1.Ok (124 :: c2.bytes)) (h2 : c2.Ok [])
    (hne : c2.bytes ≠ []) (a1 a2 : Bytes) (hd1 hd2 : String)
    (hi1 : exIdx c1.cmd = some (a1, hd1)) (hi2 : exIdx c2.cmd = some (a2, hd2))
    (ht1 : takesText a1 = false) (ht2 : takesText a2 = false)
    (hlen : (c1.bytes ++ 124 :: c2.bytes).length < Gen.EXLEN) :
    exExec (f + 1) ed (c1.bytes ++ 124 :: c2.bytes) =
      match runCmd f ed hd1 c1.loc c1.cmd c1.arg none with
      | none => none
      | some (_, ed1) => runCmd f ed1 hd2 c2.loc c2.cmd c2.arg none := by
  have hl := exExec_line f ed [c1, c2] ⟨h1, h2, hne⟩ hlen
  simp only [joinBar] at hl
  rw [hl]
  simp only [runLine, joinBar]
  rw [runOne_known f ed (c1.parsed c2.bytes) 0 a1 hd1 hi1 ht1]
  simp only [Cmd1.parsed]
  cases hr : runCmd f ed hd1 c1.loc c1.cmd c1.arg none with
  | none => rfl
  | some x =>
    obtain ⟨r1, ed1⟩ := x
    simp only [Option.map_some]
    have := runOne_known f ed1 (c2.parsed []) r1 a2 hd2 hi2 ht2
    simp only [Cmd1.parsed] at this
    rw [this]
    cases runCmd f ed1 hd2 c2.loc c2.cmd c2.arg none with
    | none => rfl
    | some y => rfl

/-! ### every line: the loop of `ex_exec` as a recursion over the commands of the line

Each iteration shortens the line (`restOf_lt`), so the fuel of the loop never runs out (`cmds_fuel`) and the
loop can be restated without it. -/

/-- `ex_exec` on the rest of a line, `ret` being the return code so far -/
def execFrom (f : Nat) (ed : Ed) (ln : Bytes) (ret : Int) : R Int := exExec.cmds f (ln.length + 1) ed ln ret

theorem exExec_eq_execFrom (f : Nat) (ed : Ed) (ln : Bytes) (h : ln.length < Gen.EXLEN) :
    exExec (f + 1) ed ln = execFrom f ed ln 0 := exExec_short f ed ln h

theorem execFrom_nil (f : Nat) (ed : Ed) (ret : Int) : execFrom f ed [] ret = some (ret, ed) := cmds_nil _ _ _ _

/-- **`ex_exec`, for every line**: run the first command (`parse1`, `runOne`), then the rest of the line from
    the state it left, with its return code as the code so far — no condition on that code: all the commands of
    a line are executed even after a failure, and the value returned is the code of the last command dispatched -/
theorem exExec_unfold (f : Nat) (ed : Ed) (ln : Bytes) (ret : Int) (hne : ln ≠ []) :
    execFrom f ed ln ret =
      match runOne f ed (parse1 ln) ret with
      | none => none
      | some ((r, ed1), rest) => execFrom f ed1 rest r := by
  unfold execFrom
  rw [exExec_stops_never f ln.length ed ln ret hne]
  cases hr : runOne f ed (parse1 ln) ret with
  | none => rfl
  | some y =>
    obtain ⟨⟨r, ed1⟩, rest⟩ := y
    have hrest := runOne_rest f ed ln ret (r, ed1) rest hr
    have hlt := restOf_lt ln hne
    rw [← hrest] at hlt
    simp only []
    exact cmds_fuel f rest.length rest (Nat.le_refl _) _ _ ed1 r (by omega) (by omega)

/-- a line that starts with a known command does not look at the code so far -/
theorem execFrom_known (f : Nat) (ed : Ed) (ln : Bytes) (ret : Int) (hne : ln ≠ []) (hk : (parse1 ln).idx.isSome) :
    execFrom f ed ln ret = execFrom f ed ln 0 := by
  rw [exExec_unfold f ed ln ret hne, exExec_unfold f ed ln 0 hne, runOne_ret f ed (parse1 ln) ret 0 hk]

/-- **`ex_exec` of a line = its first command, then `ex_exec` of the rest** (the rest starting with a command of
    the table, or being empty) -/
theorem exExec_seq (f : Nat) (ed ed1 : Ed) (ln rest : Bytes) (r : Int) (hne : ln ≠ []) (hlen : ln.length < Gen.EXLEN)
    (hr : runOne f ed (parse1 ln) 0 = some ((r, ed1), rest)) (hk : rest = [] ∨ (parse1 rest).idx.isSome) :
    exExec (f + 1) ed ln = if rest = [] then some (r, ed1) else exExec (f + 1) ed1 rest := by
  rw [exExec_eq_execFrom f ed ln hlen, exExec_unfold f ed ln 0 hne, hr]
  simp only []
  have hrest := runOne_rest f ed ln 0 (r, ed1) rest hr
  have hlt := restOf_lt ln hne
  rw [← hrest] at hlt
  by_cases h0 : rest = []
  · subst h0; rw [if_pos rfl, execFrom_nil]
  · rw [if_neg h0, exExec_eq_execFrom f ed1 rest (by omega)]
    rcases hk with hk | hk
    · exact absurd hk h0
    · exact execFrom_known f ed1 rest r h0 hk

/-! ## 4. scripts: the text after a script is the initial text put through the splices of its commands -/

/-- a parsed line command as `runCmd` receives it -/
structure LineCmd where
  hd : String
  loc : Bytes
  cmd : Bytes
  arg : Bytes
  txt : Option Bytes

/-- the handlers of `a`, `i`, `c`, `d`, `y`, `pu`, `k`, `=`, `p`, `r` (and `rs`) -/
def covered : List String :=
  ["ec_insert", "ec_delete", "ec_yank", "ec_put", "ec_print", "ec_lnum", "ec_mark", "ec_rs", "ec_read"]

/-- replace lines `b..e` by `new` -/
abbrev Splice := Nat × Nat × List Bytes

def applySplice (t : List Bytes) (s : Splice) : List Bytes := t.take s.1 ++ s.2.2 ++ t.drop s.2.1

def applySplices (t : List Bytes) (ss : List Splice) : List Bytes := ss.foldl applySplice t

/-- every splice lies inside the text it is applied to -/
def SplicesOk : List Bytes → List Splice → Prop
  | _, [] => True
  | t, s :: r => s.1 ≤ s.2.1 ∧ s.2.1 ≤ t.length ∧ SplicesOk (applySplice t s) r

/-- the region `ex_region` resolves the address to in state `ed` -/
def regionOf (ed : Ed) (loc : Bytes) : Int × Int :=
  match exRegion ed loc with
  | some ((_, b, e), _) => (b, e)
  | none => (0, 0)

/-- the lines `:r` inserts: those of the file (up to a NUL byte), or of the oracle's answer for `!cmd` -/
def readLines (ed : Ed) (arg : Bytes) : List Bytes :=
  match readPath ed arg with
  | some (some path, _) =>
    if path.headD 0 = 33 then
      (match ed.pipe (path.drop 1) [] with | some o => optLines o | none => [])
    else (match ed.findFile path with | some fl => splitLines (cstr fl.data) | none => [])
  | _ => []

/-- **the reference**: the splice a line command performs in state `ed`, from its resolved region `beg..end`
    (`rc` its return code: a failing command changes no line):
    `d` removes `beg..end`; `a` / `i` / `c` put the text at `end..end` / `beg..beg` / `beg..end`; `pu` puts the
    register at `end..end`; `r` puts the file at `end..end`; `y`, `k`, `=`, `p`, `rs` change no line -/
def spliceOf (ed : Ed) (c : LineCmd) (rc : Int) : Splice :=
  if rc != 0 then (0, 0, []) else
  let b := (regionOf ed c.loc).1
  let e := (regionOf ed c.loc).2
  if c.hd == "ec_delete" then (b.toNat, e.toNat, [])
  else if c.hd == "ec_insert" then
    let p := if c.cmd.headD 0 = 97 then e else b
    let q := if c.cmd.headD 0 = 99 then e else p
    (p.toNat, q.toNat, optLines c.txt)
  else if c.hd == "ec_put" then
    (e.toNat, e.toNat, match regGet ed (regName c.arg) with | some buf => splitLines buf | none => [])
  else if c.hd == "ec_read" then (e.toNat, e.toNat, readLines ed c.arg)
  else (0, 0, [])

theorem applySplice_id (t : List Bytes) : applySplice t (0, 0, []) = t := by simp [applySplice]

theorem applySplice_same (t : List Bytes) (e : Nat) : applySplice t (e, e, []) = t := by simp [applySplice]

/-- **one command is one splice**: the text after a covered line command is the text before it with the
    command's splice applied, and the splice lies inside the text -/
theorem cmd_splice (f : Nat) (ed ed' : Ed) (c : LineCmd) (rc : Int) (hc : c.hd ∈ covered)
    (h : runCmd (f + 1) ed c.hd c.loc c.cmd c.arg c.txt = some (rc, ed')) :
    (spliceOf ed c rc).1 ≤ (spliceOf ed c rc).2.1 ∧ (spliceOf ed c rc).2.1 ≤ (lines ed).length ∧
      lines ed' = applySplice (lines ed) (spliceOf ed c rc) := by
  obtain ⟨hd, loc, cmd, arg, txt⟩ := c
  simp only [] at hc h ⊢
  have hlen := len_eq ed
  -- a command that leaves the text alone
  have hid : lines ed' = lines ed → spliceOf ed ⟨hd, loc, cmd, arg, txt⟩ rc = (0, 0, []) →
      (spliceOf ed ⟨hd, loc, cmd, arg, txt⟩ rc).1 ≤ (spliceOf ed ⟨hd, loc, cmd, arg, txt⟩ rc).2.1 ∧
      (spliceOf ed ⟨hd, loc, cmd, arg, txt⟩ rc).2.1 ≤ (lines ed).length ∧
      lines ed' = applySplice (lines ed) (spliceOf ed ⟨hd, loc, cmd, arg, txt⟩ rc) := by
    intro h1 h2
    rw [h2, applySplice_id]
    exact ⟨Nat.le_refl _, Nat.zero_le _, h1⟩
  simp only [covered, List.mem_cons, List.not_mem_nil, or_false] at hc
  rcases hc with rfl | rfl | rfl | rfl | rfl | rfl | rfl | rfl | rfl
  · -- a, i, c
    obtain ⟨h1, h2, h3⟩ := C06.ec_insert_spec f ed ed' loc cmd arg txt rc h
    rcases h1 with rfl | rfl
    · obtain ⟨r, b, e, ed1, k1, _, k3, k4, k5, k6⟩ := h2 rfl
      obtain ⟨k7, _, _⟩ := k6 _ _ rfl rfl
      have hb : (regionOf ed loc) = (b, e) := by simp [regionOf, k1]
      simp only [spliceOf, hb, String.reduceBEq, Bool.false_eq_true, ↓reduceIte, bne_self_eq_false, applySplice]
      refine ⟨?_, ?_, k7⟩
      · by_cases c1 : cmd.headD 0 = 97
        · have c2 : cmd.headD 0 ≠ 99 := by omega
          simp only [c1, c2, if_true, if_false]; omega
        · by_cases c2 : cmd.headD 0 = 99
          · simp only [c1, c2, if_true, if_false]; omega
          · simp only [c1, c2, if_false]; omega
      · by_cases c1 : cmd.headD 0 = 97
        · have c2 : cmd.headD 0 ≠ 99 := by omega
          simp only [c1, c2, if_true, if_false]; omega
        · by_cases c2 : cmd.headD 0 = 99
          · simp only [c2, if_true]; omega
          · simp only [c1, c2, if_false]; omega
    · exact hid (h3 rfl).1 (by simp [spliceOf])
  · -- d
    obtain ⟨h1, h2, h3⟩ := C06.ec_delete_spec f ed ed' loc cmd arg txt rc h
    rcases h1 with rfl | rfl
    · obtain ⟨b, e, ed1, k1, k2, k3, k4, k5, _⟩ := h2 rfl
      have hb : (regionOf ed loc) = (b, e) := by simp [regionOf, k1]
      simp only [spliceOf, hb, String.reduceBEq, Bool.false_eq_true, ↓reduceIte, bne_self_eq_false, applySplice,
        List.append_nil]
      exact ⟨by omega, by omega, k5⟩
    · exact hid (h3 rfl).1 (by simp [spliceOf])
  · -- y
    exact hid (C06.ec_yank_spec f ed ed' loc cmd arg txt rc h).2.1 (by simp [spliceOf])
  · -- pu
    obtain ⟨h1, h2, h3, _⟩ := C06.ec_put_spec f ed ed' loc cmd arg txt rc h
    rcases h1 with rfl | rfl
    · obtain ⟨buf, r0, b, e, ed1, k0, k1, _, k2, k3, k4, _⟩ := h2 rfl
      have hb : (regionOf ed loc) = (b, e) := by simp [regionOf, k1]
      simp only [spliceOf, hb, String.reduceBEq, Bool.false_eq_true, ↓reduceIte, bne_self_eq_false, applySplice, k0]
      exact ⟨Nat.le_refl _, by omega, k4⟩
    · exact hid (h3 rfl).1 (by simp [spliceOf])
  · -- p
    exact hid (C06.ec_print_spec f ed ed' loc cmd arg txt rc h).2.1 (by simp [spliceOf])
  · -- =
    exact hid (C06.ec_lnum_spec f ed ed' loc cmd arg txt rc h).2.1 (by simp [spliceOf])
  · -- k
    exact hid (C06.ec_mark_spec f ed ed' loc cmd arg txt rc h).2.1 (by simp [spliceOf])
  · -- rs
    exact hid (C06.ec_rs_spec f ed ed' loc cmd arg txt rc h).2.1 (by simp [spliceOf])
  · -- r
    obtain ⟨h1, h2, h3⟩ := ec_read_spec f ed ed' loc cmd arg txt rc h
    rcases h1 with rfl | rfl
    · obtain ⟨path, b, e, ed1, k0, k1, k2, k3, k4, k5⟩ := h2 rfl
      have hb : (regionOf ed loc) = (b, e) := by simp [regionOf, k1]
      simp only [spliceOf, hb, String.reduceBEq, Bool.false_eq_true, ↓reduceIte, bne_self_eq_false, applySplice,
        readLines, k0]
      refine ⟨Nat.le_refl _, by omega, ?_⟩
      by_cases hbang : path.headD 0 = 33
      · obtain ⟨_, m1, m2⟩ := k5 hbang
        simp only [hbang, if_true]
        cases hp : ed.pipe (path.drop 1) [] with
        | none =>
          rw [m1 hp]
          have : lines ({ ed1 with unmodelled := true } : Ed) = lines ed1 := rfl
          rw [this, (region_all _ _ _ _ _ _ k1).1.lines]
          simp
        | some o => exact (m2 o hp).1
      · obtain ⟨fl, m1, m2, _⟩ := k4 hbang
        simp only [hbang, if_false, m1]
        exact m2
    · exact hid (h3 rfl).1 (by simp [spliceOf])

/-- run a script of parsed line commands (as `ex_exec` does: every command, whatever the previous one
    returned), collecting the reference splices -/
def runScript (f : Nat) : Ed → List LineCmd → Option (List Splice × Ed)
  | ed, [] => some ([], ed)
  | ed, c :: cs =>
    match runCmd (f + 1) ed c.hd c.loc c.cmd c.arg c.txt with
    | none => none
    | some (rc, ed1) => (runScript f ed1 cs).map (fun x => (spliceOf ed c rc :: x.1, x.2))

/-- **script_frame**: after a script of covered line commands (`a i c d y pu k = p r rs`, any addresses, any
    return codes) the text of the buffer is the initial text put through the sequence of splices
    `take b ++ new ++ drop e` given by each command's resolved region — one splice per command, each inside the
    text it applies to -/
theorem script_frame (f : Nat) : ∀ (script : List LineCmd) (ed ed' : Ed) (ss : List Splice),
    (∀ c ∈ script, c.hd ∈ covered) → runScript f ed script = some (ss, ed') →
    lines ed' = applySplices (lines ed) ss ∧ ss.length = script.length ∧ SplicesOk (lines ed) ss := by
  intro script
  induction script with
  | nil =>
    intro ed ed' ss _ h
    simp only [runScript, Option.some.injEq, Prod.mk.injEq] at h
    obtain ⟨rfl, rfl⟩ := h
    exact ⟨rfl, rfl, trivial⟩
  | cons c cs ih =>
    intro ed ed' ss hcov h
    simp only [runScript] at h
    split at h
    · cases h
    · rename_i rc ed1 hrun
      simp only [Option.map_eq_some_iff, Prod.mk.injEq] at h
      obtain ⟨⟨ss1, ed2⟩, h1, rfl, rfl⟩ := h
      obtain ⟨k1, k2, k3⟩ := cmd_splice f ed ed1 c rc (hcov c (by simp)) hrun
      obtain ⟨i1, i2, i3⟩ := ih ed1 ed2 ss1 (fun x hx => hcov x (by simp [hx])) h1
      refine ⟨?_, by simp [i2], ?_⟩
      · simp only [applySplices, List.foldl_cons]
        rw [← k3]
        exact i1
      · refine ⟨k1, k2, ?_⟩
        rw [← k3]
        exact i3

/-- what a splice leaves alone: the lines above `b` keep their place, the lines from `e` on keep their order
    and bytes, shifted by the change of length -/
theorem splice_frame (t : List Bytes) (s : Splice) (h1 : s.1 ≤ s.2.1) (h2 : s.2.1 ≤ t.length) :
    (∀ m, m < s.1 → (applySplice t s)[m]? = t[m]?) ∧
    (∀ m, s.2.1 ≤ m → (applySplice t s)[m + s.2.2.length - (s.2.1 - s.1)]? = t[m]?) :=
  ⟨fun m hm => frame_get_before t s.2.2 s.1 s.2.1 m hm (by omega),
   fun m hm => frame_get_after t s.2.2 s.1 s.2.1 m h1 hm h2⟩

/-! ### the same for a script of command lines run through `ex_command` -/

theorem exTxt_lines (ed : Ed) (src abbr : Bytes) : lines (exTxt ed src abbr).2 = lines ed := by
  have hb : (exTxt ed src abbr).2.bufs = ed.bufs := by
    unfold exTxt
    simp only []
    repeat' split
    all_goals rfl
  unfold lines
  rw [Lemmas.ExFrame.lb_of_bufs hb]

/-- a command line holding one simple command (`c.Ok []`: address over `.$0-9+-,;%`, name, blanks, plain
    argument) of the table: `ex_command` fetches its text (`ex_txt`: for `a`, `i`, `c` the pending input lines up
    to a lone `.`), dispatches it, and bumps the sequence counter -/
theorem exCommand_line (f : Nat) (ed : Ed) (c : Cmd1) (a : Bytes) (hd : String) (hok : c.Ok []) (hne : c.bytes ≠ [])
    (hlen : c.bytes.length < Gen.EXLEN) (hi : exIdx c.cmd = some (a, hd)) :
    exCommand (f + 2) ed c.bytes =
      (runCmd f (exTxt ed [] a).2 hd c.loc c.cmd c.arg (exTxt ed [] a).1.1).map
        (fun x => (x.1, (x.2.modifiedAt 0).2)) := by
  have hl := exExec_line f ed [c] ⟨hok, hne⟩ (by simpa only [joinBar] using hlen)
  simp only [joinBar] at hl
  rw [exCommand, hl]
  simp only [runLine, joinBar, runOne, Cmd1.parsed, hi, abbrOf]
  cases runCmd f (exTxt ed [] a).2 hd c.loc c.cmd c.arg (exTxt ed [] a).1.1 with
  | none => rfl
  | some x => rfl

/-- the parsed command and the state `runCmd` sees for the one-command line `c` -/
def lineCmd (ed : Ed) (c : Cmd1) : LineCmd × Ed :=
  match exIdx c.cmd with
  | some (a, hd) => (⟨hd, c.loc, c.cmd, c.arg, (exTxt ed [] a).1.1⟩, (exTxt ed [] a).2)
  | none => (⟨"", c.loc, c.cmd, c.arg, none⟩, ed)

/-- run a script of one-command lines through `ex_command`, collecting the reference splices -/
def runLines (f : Nat) : Ed → List Cmd1 → Option (List Splice × Ed)
  | ed, [] => some ([], ed)
  | ed, c :: cs =>
    match exCommand (f + 3) ed c.bytes with
    | none => none
    | some (rc, ed1) =>
      (runLines f ed1 cs).map (fun x => (spliceOf (lineCmd ed c).2 (lineCmd ed c).1 rc :: x.1, x.2))

/-- a script line the theorem covers: one simple command of the table, among `a i c d y pu k = p r` -/
def CoveredLine (c : Cmd1) : Prop :=
  c.Ok [] ∧ c.bytes ≠ [] ∧ c.bytes.length < Gen.EXLEN ∧ ∃ a hd, exIdx c.cmd = some (a, hd) ∧ hd ∈ covered

/-- **script_frame for command lines**: a script of command lines `[addr]cmd [arg]` with `cmd` among
    `a i c d y pu k = p r`, each run through `ex_command`: the final text is the initial text put through one
    splice per line, the one given by the line's resolved region -/
theorem script_frame_lines (f : Nat) : ∀ (script : List Cmd1) (ed ed' : Ed) (ss : List Splice),
    (∀ c ∈ script, CoveredLine c) → runLines f ed script = some (ss, ed') →
    lines ed' = applySplices (lines ed) ss ∧ ss.length = script.length ∧ SplicesOk (lines ed) ss := by
  intro script
  induction script with
  | nil =>
    intro ed ed' ss _ h
    simp only [runLines, Option.some.injEq, Prod.mk.injEq] at h
    obtain ⟨rfl, rfl⟩ := h
    exact ⟨rfl, rfl, trivial⟩
  | cons c cs ih =>
    intro ed ed' ss hcov h
    obtain ⟨hok, hne, hlen, a, hd, hi, hc⟩ := hcov c (by simp)
    simp only [runLines] at h
    split at h
    · cases h
    · rename_i rc ed1 hrun
      simp only [Option.map_eq_some_iff, Prod.mk.injEq] at h
      obtain ⟨⟨ss1, ed2⟩, h1, rfl, rfl⟩ := h
      rw [exCommand_line (f + 1) ed c a hd hok hne hlen hi] at hrun
      simp only [Option.map_eq_some_iff, Prod.mk.injEq] at hrun
      obtain ⟨⟨rc', edr⟩, hr, rfl, rfl⟩ := hrun
      have hlc : lineCmd ed c = (⟨hd, c.loc, c.cmd, c.arg, (exTxt ed [] a).1.1⟩, (exTxt ed [] a).2) := by
        simp only [lineCmd, hi]
      obtain ⟨k1, k2, k3⟩ := cmd_splice f (exTxt ed [] a).2 edr ⟨hd, c.loc, c.cmd, c.arg, (exTxt ed [] a).1.1⟩ rc' hc hr
      rw [exTxt_lines] at k2 k3
      obtain ⟨i1, i2, i3⟩ := ih _ ed2 ss1 (fun x hx => hcov x (by simp [hx])) h1
      rw [modifiedAt0_lines, k3] at i1 i3
      rw [hlc]
      exact ⟨i1, by simp [i2], k1, k2, i3⟩

/-! ### and for lines `c1|c2|…` -/

/-- except for `rs`, the text `ex_txt` fetches and the state it leaves do not depend on the rest of the line -/
theorem exTxt_src_indep (ed : Ed) (src a : Bytes) (h : isRs a = false) :
    (exTxt ed src a).1.1 = (exTxt ed [] a).1.1 ∧ (exTxt ed src a).2 = (exTxt ed [] a).2 := by
  unfold isRs at h
  simp only [] at h
  unfold exTxt
  simp only [h, Bool.false_and, Bool.false_eq_true, if_false, Bool.false_or]
  repeat' split
  all_goals exact ⟨rfl, rfl⟩

/-- the commands of one line `c1|c2|…` in order (as `runLine`), collecting the reference splices -/
def runBar (f : Nat) : Ed → List Cmd1 → Int → Option (List Splice × Int × Ed)
  | ed, [], ret => some ([], ret, ed)
  | ed, c :: cs, ret =>
    match runOne (f + 1) ed (c.parsed (joinBar cs)) ret with
    | none => none
    | some ((r, ed1), _) =>
      (runBar f ed1 cs r).map (fun x => (spliceOf (lineCmd ed c).2 (lineCmd ed c).1 r :: x.1, x.2))

theorem runBar_runLine (f : Nat) : ∀ (cs : List Cmd1) (ed : Ed) (ret : Int),
    (runBar f ed cs ret).map (fun x => x.2) = runLine (f + 1) ed cs ret := by
  intro cs
  induction cs with
  | nil => intro ed ret; rfl
  | cons c cs ih =>
    intro ed ret
    simp only [runBar, runLine]
    cases runOne (f + 1) ed (c.parsed (joinBar cs)) ret with
    | none => rfl
    | some y =>
      obtain ⟨⟨r, ed1⟩, rest⟩ := y
      simp only [Option.map_map]
      rw [← ih ed1 r]
      rfl

theorem applySplices_append (t : List Bytes) (a b : List Splice) :
    applySplices t (a ++ b) = applySplices (applySplices t a) b := by
  simp [applySplices, List.foldl_append]

theorem splicesOk_append : ∀ (a b : List Splice) (t : List Bytes), SplicesOk t a → SplicesOk (applySplices t a) b →
    SplicesOk t (a ++ b) := by
  intro a
  induction a with
  | nil => intro b t _ h; exact h
  | cons s r ih =>
    intro b t h1 h2
    obtain ⟨k1, k2, k3⟩ := h1
    exact ⟨k1, k2, ih b _ k3 h2⟩

/-- a command of a script line: not `rs`, in the table, among `a i c d y pu k = p r` -/
def CoveredCmd (c : Cmd1) : Prop :=
  isRs (abbrOf (exIdx c.cmd)) = false ∧ ∃ a hd, exIdx c.cmd = some (a, hd) ∧ hd ∈ covered

theorem runBar_frame (f : Nat) : ∀ (cs : List Cmd1) (ed ed' : Ed) (ret r : Int) (ss : List Splice),
    (∀ c ∈ cs, CoveredCmd c) → runBar f ed cs ret = some (ss, r, ed') →
    lines ed' = applySplices (lines ed) ss ∧ ss.length = cs.length ∧ SplicesOk (lines ed) ss := by
  intro cs
  induction cs with
  | nil =>
    intro ed ed' ret r ss _ h
    simp only [runBar, Option.some.injEq, Prod.mk.injEq] at h
    obtain ⟨rfl, _, rfl⟩ := h
    exact ⟨rfl, rfl, trivial⟩
  | cons c cs ih =>
    intro ed ed' ret r ss hcov h
    obtain ⟨hrs, a, hd, hi, hc⟩ := hcov c (by simp)
    have hrs' : isRs a = false := by simpa only [hi, abbrOf] using hrs
    simp only [runBar] at h
    split at h
    · cases h
    · rename_i r1 ed1 rest hrun
      simp only [Option.map_eq_some_iff, Prod.mk.injEq] at h
      obtain ⟨⟨ss1, r2, ed2⟩, h1, rfl, rfl, rfl⟩ := h
      obtain ⟨e1, e2⟩ := exTxt_src_indep ed (joinBar cs) a hrs'
      have hcmd : runCmd (f + 1) (exTxt ed [] a).2 hd c.loc c.cmd c.arg (exTxt ed [] a).1.1 = some (r1, ed1) := by
        unfold runOne at hrun
        simp only [Cmd1.parsed, hi, abbrOf] at hrun
        rw [e1, e2] at hrun
        split at hrun
        · cases hrun
        · rename_i r' ed' hr
          simp only [Option.some.injEq, Prod.mk.injEq] at hrun
          obtain ⟨⟨rfl, rfl⟩, _⟩ := hrun
          exact hr
      have hlc : lineCmd ed c = (⟨hd, c.loc, c.cmd, c.arg, (exTxt ed [] a).1.1⟩, (exTxt ed [] a).2) := by
        simp only [lineCmd, hi]
      obtain ⟨k1, k2, k3⟩ := cmd_splice f (exTxt ed [] a).2 ed1 ⟨hd, c.loc, c.cmd, c.arg, (exTxt ed [] a).1.1⟩ r1 hc hcmd
      rw [exTxt_lines] at k2 k3
      obtain ⟨i1, i2, i3⟩ := ih ed1 _ r1 _ ss1 (fun x hx => hcov x (by simp [hx])) h1
      rw [k3] at i1 i3
      rw [hlc]
      exact ⟨i1, by simp [i2], k1, k2, i3⟩

/-- `ex_command` on a line of simple commands joined by `|` -/
theorem exCommand_bar (f : Nat) (ed : Ed) (cs : List Cmd1) (hok : LineOk cs) (hlen : (joinBar cs).length < Gen.EXLEN) :
    exCommand (f + 3) ed (joinBar cs) = (runBar f ed cs 0).map (fun x => (x.2.1, (x.2.2.modifiedAt 0).2)) := by
  rw [exCommand, exExec_line (f + 1) ed cs hok hlen, ← runBar_runLine f cs ed 0]
  cases runBar f ed cs 0 with
  | none => rfl
  | some x => rfl

/-- run a script of lines `c1|c2|…` through `ex_command`, collecting the reference splices -/
def runBarLines (f : Nat) : Ed → List (List Cmd1) → Option (List Splice × Ed)
  | ed, [] => some ([], ed)
  | ed, l :: ls =>
    match runBar f ed l 0 with
    | none => none
    | some (ss, _, ed1) => (runBarLines f (ed1.modifiedAt 0).2 ls).map (fun x => (ss ++ x.1, x.2))

/-- `runBarLines` is the run of the lines through `ex_command` -/
theorem runBarLines_exCommand (f : Nat) (ed : Ed) (l : List Cmd1) (ls : List (List Cmd1)) (hok : LineOk l)
    (hlen : (joinBar l).length < Gen.EXLEN) :
    runBarLines f ed (l :: ls) =
      match runBar f ed l 0, exCommand (f + 3) ed (joinBar l) with
      | some (ss, _, _), some (_, ed1) => (runBarLines f ed1 ls).map (fun x => (ss ++ x.1, x.2))
      | _, _ => none := by
  rw [exCommand_bar f ed l hok hlen]
  simp only [runBarLines]
  cases runBar f ed l 0 with
  | none => rfl
  | some x => rfl

/-- **script_frame for lines `c1|c2|…`**: a script whose lines are simple commands joined by `|`, all among
    `a i c d y pu k = p r`, run line by line through `ex_command` (`runBarLines_exCommand`): the final text is the
    initial text put through one splice per command, in order -/
theorem script_frame_bar (f : Nat) : ∀ (script : List (List Cmd1)) (ed ed' : Ed) (ss : List Splice),
    (∀ l ∈ script, ∀ c ∈ l, CoveredCmd c) → runBarLines f ed script = some (ss, ed') →
    lines ed' = applySplices (lines ed) ss ∧ ss.length = (script.map List.length).sum ∧ SplicesOk (lines ed) ss := by
  intro script
  induction script with
  | nil =>
    intro ed ed' ss _ h
    simp only [runBarLines, Option.some.injEq, Prod.mk.injEq] at h
    obtain ⟨rfl, rfl⟩ := h
    exact ⟨rfl, rfl, trivial⟩
  | cons l ls ih =>
    intro ed ed' ss hcov h
    simp only [runBarLines] at h
    split at h
    · cases h
    · rename_i ss0 r0 ed1 hrun
      simp only [Option.map_eq_some_iff, Prod.mk.injEq] at h
      obtain ⟨⟨ss1, ed2⟩, h1, rfl, rfl⟩ := h
      obtain ⟨k1, k2, k3⟩ := runBar_frame f l ed ed1 0 r0 ss0 (hcov l (by simp)) hrun
      obtain ⟨i1, i2, i3⟩ := ih _ ed2 ss1 (fun x hx => hcov x (by simp [hx])) h1
      rw [modifiedAt0_lines, k1] at i1 i3
      refine ⟨by rw [applySplices_append]; exact i1, by simp [k2, i2], splicesOk_append _ _ _ k3 i3⟩

/-! ### `:u` and `:redo` as command lines: the steps of C04 -/

def cmdU : Cmd1 := ⟨[], [117], [], [], []⟩
def cmdRedo : Cmd1 := ⟨[], [114, 101, 100, 111], [], [], []⟩

theorem cmdU_ok : cmdU.Ok [] where
  simple := {
    loc_ok := by decide
    w_alpha := by decide
    w_len := by decide
    w_k := by decide
    sfx_ok := by decide
    sp_ok := by decide
    arg_ok := by decide
    arg_start := by decide
    t_ok := Or.inl rfl
    name_end := by decide
    bare := by intro h; cases h }
  plain := by decide
  notRs := by decide

theorem cmdRedo_ok : cmdRedo.Ok [] where
  simple := {
    loc_ok := by decide
    w_alpha := by decide
    w_len := by decide
    w_k := by decide
    sfx_ok := by decide
    sp_ok := by decide
    arg_ok := by decide
    arg_start := by decide
    t_ok := Or.inl rfl
    name_end := by decide
    bare := by intro h; cases h }
  plain := by decide
  notRs := by decide

theorem setLb_modifiedAt_lb (ed : Ed) (lb lb' : Lb) (h : ed.lb = some lb) :
    ((ed.setLb lb').modifiedAt 0).2.lb = some (modified lb').2 := by
  unfold Ed.lb Ed.cur at h
  cases hb : ed.bufs with
  | nil => rw [hb] at h; simp at h
  | cons x xs =>
    rw [hb] at h
    cases x with
    | none => simp at h
    | some b =>
      unfold Ed.setLb Ed.cur Ed.setCur Ed.modifiedAt Ed.lb Ed.cur
      simp [hb]

/-- the command line `u`, run through `ex_command`, is exactly the step `.undo` of the history machine of C04
    on the line buffer of the current buffer (so `C04.refines_zipper`, `C04.undo_exact`, … apply to ex scripts) -/
theorem ex_undo_is_step (f : Nat) (ed : Ed) (lb : Lb) (hlb : ed.lb = some lb) :
    (exCommand (f + 3) ed [117]).map (fun x => (x.1, x.2.lb)) =
      (C04.step lb .undo).map (fun r => ((r.1 : Int), some r.2)) := by
  have h := exCommand_line (f + 1) ed cmdU [117] "ec_undo" cmdU_ok (by decide) (by decide) (by decide)
  have ht : exTxt ed [] [117] = ((none, []), ed) := exTxt_noText ed [] [117] (by decide)
  simp only [cmdU, Cmd1.bytes, Cmd1.cmd, List.append_nil, List.nil_append, ht] at h
  rw [h, runCmd]
  simp only [String.reduceBEq, Bool.false_eq_true, ↓reduceIte, Bool.or_false, Bool.or_self, hlb, Option.bind_some,
    C04.step]
  cases hu : Lbuf.undo lb with
  | none => rfl
  | some x =>
    obtain ⟨r, lb'⟩ := x
    simp only [Option.map_some, setLb_modifiedAt_lb ed lb lb' hlb]

/-- likewise `redo` -/
theorem ex_redo_is_step (f : Nat) (ed : Ed) (lb : Lb) (hlb : ed.lb = some lb) :
    (exCommand (f + 3) ed [114, 101, 100, 111]).map (fun x => (x.1, x.2.lb)) =
      (C04.step lb .redo).map (fun r => ((r.1 : Int), some r.2)) := by
  have h := exCommand_line (f + 1) ed cmdRedo [114, 101, 100, 111] "ec_redo" cmdRedo_ok (by decide) (by decide) (by decide)
  have ht : exTxt ed [] [114, 101, 100, 111] = ((none, []), ed) := exTxt_noText ed [] _ (by decide)
  simp only [cmdRedo, Cmd1.bytes, Cmd1.cmd, List.append_nil, List.nil_append, ht] at h
  rw [h, runCmd]
  simp only [String.reduceBEq, Bool.false_eq_true, ↓reduceIte, Bool.or_false, Bool.or_self, hlb, Option.bind_some,
    C04.step]
  cases hu : Lbuf.redo lb with
  | none => rfl
  | some x =>
    obtain ⟨r, lb'⟩ := x
    simp only [Option.map_some, setLb_modifiedAt_lb ed lb lb' hlb]

/-! ## examples on a three-line buffer `a`, `b`, `c` and a file `f` holding `x\ny` -/

def edF : Ed := { bufs := [some { path := [], lb := { lines := [[97, 10], [98, 10], [99, 10]] } }],
                  files := [⟨[102], [120, 10, 121], 0⟩] }

/-- `1r f` -/
example : (runCmd 1 edF "ec_read" [49] [114] [102] none).map (fun r => (r.1, lines r.2, r.2.xrow)) =
    some (0, [[97, 10], [120, 10], [121, 10], [98, 10], [99, 10]], 2) := by
  rw [runCmd]; decide

/-- `0r f` -/
example : (runCmd 1 edF "ec_read" [48] [114] [102] none).map (fun r => (r.1, lines r.2, r.2.xrow)) =
    some (0, [[120, 10], [121, 10], [97, 10], [98, 10], [99, 10]], 1) := by
  rw [runCmd]; decide

/-- `r g`: no such file -/
example : (runCmd 1 edF "ec_read" [] [114] [103] none).map (fun r => (r.1, lines r.2)) =
    some (1, [[97, 10], [98, 10], [99, 10]]) := by
  rw [runCmd]; decide

/-- Enter in ex mode prints the next line -/
example : (runCmd 2 edF "ec_null" [] [] [] none).map (fun r => (r.1, r.2.out, r.2.xrow)) =
    some (0, [98, 10], 1) := by
  simp only [runCmd]; decide

/-- `2d`, the command boundary, then `u` -/
example : ((runCmd 1 edF "ec_delete" [50] [100] [] none).bind (fun r =>
      runCmd 1 ((r.2.modifiedAt 0).2) "ec_undo" [] [117] [] none)).map (fun r => (r.1, lines r.2)) =
    some (0, [[97, 10], [98, 10], [99, 10]]) := by
  simp only [runCmd]; decide

/-- a script: `2d`, `0r f`, `5d` (rejected), `$a` with the text `z`; its splices and its result -/
example : (runScript 0 edF [⟨"ec_delete", [50], [100], [], none⟩, ⟨"ec_read", [48], [114], [102], none⟩,
      ⟨"ec_delete", [53], [100], [], none⟩, ⟨"ec_insert", [36], [97], [], some [122, 10]⟩]).map
      (fun r => (r.1, lines r.2)) =
    some ([(1, 2, []), (0, 0, [[120, 10], [121, 10]]), (0, 0, []), (4, 4, [[122, 10]])],
      [[120, 10], [121, 10], [97, 10], [99, 10], [122, 10]]) := by
  simp only [runScript, runCmd]; decide

def cmd1d : Cmd1 := ⟨[49], [100], [], [], []⟩
def cmd2d : Cmd1 := ⟨[50], [100], [], [], []⟩

theorem cmd1d_ok : cmd1d.Ok (124 :: cmd2d.bytes) where
  simple := {
    loc_ok := by decide
    w_alpha := by decide
    w_len := by decide
    w_k := by decide
    sfx_ok := by decide
    sp_ok := by decide
    arg_ok := by decide
    arg_start := by decide
    t_ok := Or.inr ⟨_, rfl⟩
    name_end := by decide
    bare := by intro h; cases h }
  plain := by decide
  notRs := by decide

theorem cmd2d_ok : cmd2d.Ok [] where
  simple := {
    loc_ok := by decide
    w_alpha := by decide
    w_len := by decide
    w_k := by decide
    sfx_ok := by decide
    sp_ok := by decide
    arg_ok := by decide
    arg_start := by decide
    t_ok := Or.inl rfl
    name_end := by decide
    bare := by intro h; cases h }
  plain := by decide
  notRs := by decide

/-- the line `1d|2d` (through `exExec_two_dispatch`): `a` goes, then the second of the two lines left -/
example : (exExec 2 edF [49, 100, 124, 50, 100]).map (fun r => (r.1, lines r.2)) = some (0, [[98, 10]]) := by
  have := exExec_two_dispatch 1 edF cmd1d cmd2d cmd1d_ok cmd2d_ok (by decide) [100] [100] "ec_delete" "ec_delete"
    (by decide) (by decide) (by decide) (by decide) (by decide)
  simp only [cmd1d, cmd2d, Cmd1.bytes, Cmd1.cmd, List.append_nil, List.cons_append, List.nil_append] at this
  rw [this]
  simp only [runCmd]
  decide

end Neatvi.Props.C06b
