import NeatviVerif.Lemmas.C07cSim
import NeatviVerif.Lemmas.C07cFind
import NeatviVerif.Lemmas.C07cPair
import NeatviVerif.Props.C07
/-!
# C07c: the scanners of `mot.c` against the reference semantics, on valid UTF-8 buffers

C07b proves that `lbuf_wordbeg`, `lbuf_wordend`, `lbuf_pair`, `lbuf_paragraphbeg` (and C07 that
`lbuf_findchar`) land where the reference semantics of `Spec/Motion.lean` say, on ASCII buffers, where a
character is a byte.  Here the same theorems are proved for every buffer of valid UTF-8 lines: multi-byte,
wide and combining characters included.  Positions are (row, *character* offset) as in `mot.c`.

Setting: `Utf8Buf ls` — every line is `encStr (body ++ [10])` for a body of valid code points
(`0 < c < 0x110000`) other than the newline.  `refBufU ls` is the reference buffer (every line decoded
with `Spec.decodeStr`, without its newline; `refBufU_bodies`: the list of the bodies), `idxU ls r o = some i`
says that the model position `(r, o)` is the `i`-th element of `flat (refBufU ls)`.  On an ASCII buffer
these are the `refBuf` / `idx` of C07b (`asciiBuf_utf8Buf`, `idxU_ascii`).

* §0 the setting; `idxU_isSome_iff`: the indexed positions are the offsets `0 ≤ o < uc_slen(line)`;
* §1 `class_enc`: `uc_kind` / `uc_isspace` (functions of the *first byte*) and `uc_code` on the encoding of
  any valid code point agree with `cls` / `clsBig` / the code point; `flat_next_utf8`, `flat_lnNext_utf8`:
  `lbuf_next` / `lbuf_lnnext` are "index ± 1"; `flat_class_utf8`: the tests of the scanners at `(r, o)`
  are the reference's classes of `cpAt (flat b) i`;
* §2–3 `wordbeg_spec_utf8`, `wordend_fwd_spec_utf8`, `wordend_back_spec_utf8` and the corollaries
  `wordbeg_wordFwdRaw_utf8`, `wordend_wordEndFwdRaw_utf8`, `wordend_wordBackRaw_utf8` (count 1): the
  statements of C07b with `AsciiBuf` / `refBuf` / `idx` replaced by `Utf8Buf` / `refBufU` / `idxU`;
  `wordbeg_count_wordFwdRaw_utf8`, `wordend_count_wordEndFwdRaw_utf8`, `wordend_count_wordBackRaw_utf8`:
  with any count, for the loop `runWord` of the vi model (`viMotion_go_runWord`);
* §4 `findchar_spec_utf8` (`f F t T` with a multi-byte target), `findchar_spec_full_utf8`: the statement
  `C07.findchar_spec_full` left open in C07 (negative counts, offsets beyond the line);
  `paragraphbeg_spec_utf8` (`paragraphbeg_spec_enc`: no validity needed at all), `pair_spec_utf8`;
  §4b `eol_utf8`, `indents_firstNonBlank_utf8`;
* §5 examples on the buffer `naïve 中文 x́y` / (empty line) / `(é)`.

How: the flat sequence, `Rep`, the index scanners `wl` / `wb` / `we` / `pgo` and what they compute
(`wb_fwd`, `we_fwd`, `we_bwd`, `pgo_*_eq`) of `Lemmas/C07b*` are about the reference buffer and are reused
unchanged.  The scanners test only the first byte of a character (and `uc_code == '\n'`), so they run on
the *projected* text `cpp b = prj ∘ cp b` (`prj x = x` below 128, the letter `a` beyond), which has the same
classes and the same newlines as the code points (`cls_prj`, `prj_beq_ten`) and satisfies `Txt`.  New are
the access lemmas of `Lemmas/C07cBuf` (via C16: `slen_spec`, `chr_spec`, `code_enc`), `lbuf_next` on such
buffers and the simulations of `Lemmas/C07cSim` — with two fuels, because the model's fuel counts bytes
and the index scanners' fuel counts characters —, `Lemmas/C07cFind`, `Lemmas/C07cPair`.

Findings: none.  No valid code point is classified differently by the model and by the reference: the
reference puts every code point above 127 into class 1, and the model does so because the first byte of
a multi-byte character is a lead byte ≥ 0xC0 (`class_enc`; in particular U+00A0, U+2000…U+200A, U+3000 are
word characters, not blanks, for both, and a combining accent is a word character of its own).  As on
ASCII buffers, going backward the scanner returns 1 exactly when it stops at index 0.
-/
set_option linter.unusedSimpArgs false
set_option linter.unusedVariables false

namespace Neatvi.Props.C07c
open Neatvi Neatvi.Uc Neatvi.Mot Neatvi.Spec Neatvi.Lemmas.C07 Neatvi.Lemmas.C07b Neatvi.Lemmas.C07c Neatvi.Spec.Motion
open Neatvi.Props.C07b (find_congr nextWhere_congr prevWhere_congr kk_eq)

export Neatvi.Lemmas.C07c (Utf8Buf Utf8B Utf8W lsOfU refBufU decLine)

/-! ## 0. the setting -/

theorem utf8Buf_iff (ls : Lines) :
    Utf8Buf ls ↔ ∀ l ∈ ls, ∃ body, l = encStr (body ++ [10]) ∧ (∀ c ∈ body, ValidCp c) ∧ 10 ∉ body := Iff.rfl

theorem refBufU_eq (ls : Lines) : refBufU ls = ls.map (fun l => (decodeStr l.length l).dropLast) := rfl

/-- the reference buffer of a UTF-8 buffer is the list of the bodies of its lines -/
theorem refBufU_bodies (bodies : List (List Nat)) (h : ∀ w ∈ bodies, (∀ c ∈ w, ValidCp c) ∧ 10 ∉ w) :
    refBufU (bodies.map (fun w => encStr (w ++ [10]))) = bodies := refBufU_lsOfU h

/-- a UTF-8 buffer is the encoding of its reference buffer -/
theorem utf8Buf_enc (ls : Lines) (h : Utf8Buf ls) :
    ls = (refBufU ls).map (fun w => encStr (w ++ [10])) ∧ ∀ w ∈ refBufU ls, (∀ c ∈ w, ValidCp c) ∧ 10 ∉ w :=
  utf8Buf_eq ls h

/-- every ASCII buffer of C07b is a UTF-8 buffer, with the same reference buffer -/
theorem asciiBuf_utf8Buf (ls : Lines) (h : AsciiBuf ls) : Utf8Buf ls ∧ refBufU ls = refBuf ls := asciiBuf_utf8 ls h

/-- flat index of a model position (`none`: not a character of the buffer); offsets count characters -/
def idxU (ls : Lines) (r o : Int) : Option Nat :=
  if r < 0 ∨ o < 0 then none else indexOf (flat (refBufU ls)) ⟨r.toNat, o.toNat⟩

theorem idxU_iff_rep (ls : Lines) (r o : Int) (i : Nat) : idxU ls r o = some i ↔ Rep (refBufU ls) r o i := by
  rw [C07b.rep_iff_idx]
  unfold idxU
  by_cases hc : r < 0 ∨ o < 0
  · rw [if_pos hc]
    constructor
    · intro h; cases h
    · intro h; omega
  · rw [if_neg hc]
    constructor
    · intro h; exact ⟨by omega, by omega, h⟩
    · intro h; exact h.2.2

/-- on an ASCII buffer this is the index of C07b -/
theorem idxU_ascii (ls : Lines) (h : AsciiBuf ls) (r o : Int) : idxU ls r o = C07b.idx ls r o := by
  unfold idxU C07b.idx; rw [(asciiBuf_utf8 ls h).2]

/-- the positions with an index are exactly the characters of the lines, newline included: offsets
    below the length of the line in characters (`uc_slen`) -/
theorem idxU_isSome_iff (ls : Lines) (h : Utf8Buf ls) (r o : Int) :
    (∃ i, idxU ls r o = some i) ↔ ∃ ln, lineAt ls r = some ln ∧ 0 ≤ o ∧ o < ucSlen ln := by
  obtain ⟨e, hb⟩ := utf8Buf_eq ls h
  constructor
  · rintro ⟨i, hi⟩
    rw [idxU_iff_rep] at hi
    obtain ⟨rn, cn, rfl, rfl, h1, h2, _⟩ := hi
    refine ⟨encStr (rowOf (refBufU ls) rn ++ [10]), ?_, by omega, ?_⟩
    · conv => lhs; rw [e]
      exact lineAt_repU _ rn h1
    · rw [C16.slen_spec (Utf8W.line (rowOf_utf8 hb h1))]; simp; omega
  · rintro ⟨ln, h1, h2, h3⟩
    have hr : 0 ≤ r ∧ r.toNat < (refBufU ls).length := by
      unfold lineAt at h1
      split at h1
      · cases h1
      · have := (List.getElem?_eq_some_iff.mp h1).1
        simp [refBufU]; omega
    have hl := lineAt_repU (refBufU ls) r.toNat hr.2
    rw [← e, show ((r.toNat : Nat) : Int) = r by omega, h1] at hl
    have hlen : ucSlen ln = (rowOf (refBufU ls) r.toNat).length + 1 := by
      rw [Option.some.inj hl, C16.slen_spec (Utf8W.line (rowOf_utf8 hb hr.2))]; simp
    have hrep : Rep (refBufU ls) r o (rowStart (refBufU ls) r.toNat + o.toNat) :=
      ⟨r.toNat, o.toNat, by omega, by omega, hr.2, by omega, rfl⟩
    exact ⟨_, (idxU_iff_rep ls _ _ _).2 hrep⟩

theorem idxU_inj (ls : Lines) {r o r' o' : Int} {i : Nat} (h1 : idxU ls r o = some i)
    (h2 : idxU ls r' o' = some i) : r = r' ∧ o = o' :=
  rep_inj ((idxU_iff_rep ls _ _ _).1 h1) ((idxU_iff_rep ls _ _ _).1 h2)

/-! ## 1. `lbuf_next` and the character classes on the flat sequence -/

/-- **the classifier of the scanners on any valid code point**: `uc_kind` and `uc_isspace` look at the
    first byte of the encoding only, and that agrees with the reference's class of the code point —
    every code point beyond 127 is a word character for both (also U+00A0, U+2000.., U+3000) -/
theorem class_enc {c : Nat} (h : ValidCp c) (rest : Bytes) :
    ucKind (Bytes.hd (enc c ++ rest)) = cls c ∧ ucIsSpace (Bytes.hd (enc c ++ rest)) = (cls c == 0) ∧
    (if ucKind (Bytes.hd (enc c ++ rest)) = 0 then 0 else 1) = clsBig c ∧
    ucCode (enc c ++ rest) = some c := by
  have h1 : ucKind (Bytes.hd (enc c ++ rest)) = cls c := by
    rw [ucKind_hd_enc h, ucKind_cls _ (prj_lt c), cls_prj]
  refine ⟨h1, ?_, ?_, C16.code_enc h rest⟩
  · rw [ucIsSpace_hd_enc h, ucIsSpace_cls _ (prj_lt c), cls_prj]
  · rw [h1]; unfold clsBig
    by_cases hc : cls c = 0
    · simp [hc]
    · simp [hc]

/-- **`lbuf_next` is the successor / predecessor in `flat`** (offsets are character offsets) -/
theorem flat_next_utf8 (ls : Lines) (h : Utf8Buf ls) (r o : Int) (i : Nat) (hi : idxU ls r o = some i) :
    (∀ r' o', Mot.next ls 1 r o = some (r', o') ↔ idxU ls r' o' = some (i + 1)) ∧
    (Mot.next ls 1 r o = none ↔ i + 1 = (flat (refBufU ls)).length) ∧
    (∀ r' o', Mot.next ls (-1) r o = some (r', o') ↔ (0 < i ∧ idxU ls r' o' = some (i - 1))) ∧
    (Mot.next ls (-1) r o = none ↔ i = 0) := by
  obtain ⟨e, hb⟩ := utf8Buf_eq ls h
  have hrep := (idxU_iff_rep ls _ _ _).1 hi
  have hlt := rep_lt hrep
  rw [flat_length]
  simp only [idxU_iff_rep ls]
  generalize refBufU ls = b at *
  subst e
  refine ⟨fun r' o' => ?_, ?_, fun r' o' => ?_, ?_⟩
  · by_cases hi1 : i + 1 < total b
    · obtain ⟨r1, o1, e1, hr1⟩ := next_fwd_someU hb hrep hi1
      rw [e1]
      constructor
      · intro hh; cases hh; exact hr1
      · intro hh; obtain ⟨rfl, rfl⟩ := rep_inj hr1 hh; rfl
    · rw [next_fwd_noneU hb hrep (by omega)]
      constructor
      · intro hh; cases hh
      · intro hh; have := rep_lt hh; omega
  · by_cases hi1 : i + 1 < total b
    · obtain ⟨r1, o1, e1, hr1⟩ := next_fwd_someU hb hrep hi1
      rw [e1]
      constructor
      · intro hh; cases hh
      · intro hh; omega
    · rw [next_fwd_noneU hb hrep (by omega)]
      constructor
      · intro _; omega
      · intro _; rfl
  · cases i with
    | zero =>
      rw [next_bwd_noneU hb hrep]
      constructor
      · intro hh; cases hh
      · intro hh; omega
    | succ k =>
      obtain ⟨r1, o1, e1, hr1⟩ := next_bwd_someU hb hrep
      rw [e1]
      constructor
      · intro hh; cases hh; exact ⟨by omega, hr1⟩
      · intro hh; obtain ⟨rfl, rfl⟩ := rep_inj hr1 hh.2; rfl
  · cases i with
    | zero =>
      rw [next_bwd_noneU hb hrep]
      exact ⟨fun _ => rfl, fun _ => rfl⟩
    | succ k =>
      obtain ⟨r1, o1, e1, hr1⟩ := next_bwd_someU hb hrep
      rw [e1]
      constructor
      · intro hh; cases hh
      · intro hh; omega

/-- `lbuf_lnnext` inside a line: the neighbouring flat index when it is on the same row, else failure -/
theorem flat_lnNext_utf8 (ls : Lines) (h : Utf8Buf ls) (r o : Int) (i : Nat) (hi : idxU ls r o = some i) :
    (∀ o', lnNext ls 1 r o = some o' ↔ idxU ls r o' = some (i + 1)) ∧
    (∀ o', lnNext ls (-1) r o = some o' ↔ (0 < i ∧ idxU ls r o' = some (i - 1))) := by
  obtain ⟨e, hb⟩ := utf8Buf_eq ls h
  have hrep := (idxU_iff_rep ls _ _ _).1 hi
  simp only [idxU_iff_rep ls]
  generalize refBufU ls = b at *
  subst e
  obtain ⟨rn, cn, rfl, rfl, h1, h2, rfl⟩ := hrep
  have hself : Rep b (rn : Int) (cn : Int) (rowStart b rn + cn) := ⟨rn, cn, rfl, rfl, h1, h2, rfl⟩
  unfold lnNext
  rw [slenAt_repU hb rn h1, lineAt_repU b rn h1]
  simp only [Option.isNone_some, Bool.or_false]
  refine ⟨fun o' => ?_, fun o' => ?_⟩
  · by_cases hc : cn < (rowOf b rn).length
    · rw [if_neg (by simp; omega)]
      have hr1 : Rep b (rn : Int) ((cn : Int) + 1) (rowStart b rn + cn + 1) :=
        ⟨rn, cn + 1, rfl, by omega, h1, by omega, by omega⟩
      constructor
      · intro hh; cases hh; exact hr1
      · intro hh; obtain ⟨_, rfl⟩ := rep_inj hr1 hh; rfl
    · rw [if_pos (by simp; omega)]
      constructor
      · intro hh; cases hh
      · rintro ⟨rn', cn', e1, e2, a1, a2, a3⟩
        have : rn' = rn := by omega
        subst this
        omega
  · by_cases hc : 0 < cn
    · rw [if_neg (by simp; omega)]
      have hr1 : Rep b (rn : Int) ((cn : Int) + -1) (rowStart b rn + cn - 1) :=
        ⟨rn, cn - 1, rfl, by omega, h1, by omega, by omega⟩
      constructor
      · intro hh; cases hh; exact ⟨by omega, hr1⟩
      · intro hh; obtain ⟨_, rfl⟩ := rep_inj hr1 hh.2; rfl
    · rw [if_pos (by simp; omega)]
      constructor
      · intro hh; cases hh
      · rintro ⟨h0, rn', cn', e1, e2, a1, a2, a3⟩
        have : rn' = rn := by omega
        subst this
        omega

/-- **the tests of the scanners are the reference's classes of `cpAt (flat b) i`**: `uc_kind` (of the
    first byte) is `cls` of the code point, `uc_isspace` is "class 0", `uc_code` is the code point; the
    newline is exactly the last character of a line; the `i`-th element of `flat` is the position -/
theorem flat_class_utf8 (ls : Lines) (h : Utf8Buf ls) (r o : Int) (i : Nat) (hi : idxU ls r o = some i) :
    kindAt ls r o = cls (cpAt (flat (refBufU ls)) i) ∧
    isSpaceAt ls r o = (cls (cpAt (flat (refBufU ls)) i) == 0) ∧
    (if kindAt ls r o = 0 then 0 else 1) = clsBig (cpAt (flat (refBufU ls)) i) ∧
    codeAt ls r o = cpAt (flat (refBufU ls)) i ∧
    (codeAt ls r o = 10 ↔ ∃ ln, lineAt ls r = some ln ∧ o + 1 = ucSlen ln) ∧
    posAt (flat (refBufU ls)) i = ⟨r.toNat, o.toNat⟩ := by
  obtain ⟨e, hb⟩ := utf8Buf_eq ls h
  have hrep := (idxU_iff_rep ls _ _ _).1 hi
  generalize refBufU ls = b at *
  subst e
  rw [cpAt_flat]
  obtain ⟨rest, hch⟩ := lbufChr_cp hb hrep
  obtain ⟨c1, c2, c3, c4⟩ := class_enc (cp_validU hb i) rest
  have hk : kindAt (lsOfU b) r o = cls (cp b i) := by unfold kindAt; rw [hch]; exact c1
  refine ⟨hk, ?_, ?_, codeAt_repU hb hrep, ?_, ?_⟩
  · unfold isSpaceAt; rw [hch]; exact c2
  · rw [← c3]; unfold kindAt; rw [hch]
  · rw [codeAt_repU hb hrep]
    obtain ⟨rn, cn, rfl, rfl, h1, h2, rfl⟩ := hrep
    rw [cp_rep_nlU hb h1 h2, lineAt_repU _ rn h1]
    constructor
    · intro hh
      refine ⟨_, rfl, ?_⟩
      rw [C16.slen_spec (Utf8W.line (rowOf_utf8 hb h1))]; simp; omega
    · rintro ⟨ln, h3, h4⟩
      cases h3
      rw [C16.slen_spec (Utf8W.line (rowOf_utf8 hb h1))] at h4
      simp at h4; omega
  · obtain ⟨rn, cn, rfl, rfl, h1, h2, rfl⟩ := hrep
    rw [posAt_rep h1 h2]; simp

/-! ## 2–3. the word motions -/

theorem emptyLineAt_eqU {b : Buf} (hb : Utf8B b) (i : Nat) (hi : i < total b) :
    emptyLineAt (flat b) i = emp (cpp b) i := by
  unfold emptyLineAt emp cpp
  rw [prj_beq_ten, prj_beq_ten, cpAt_flat]
  congr 1
  rw [Bool.eq_iff_iff]
  simp only [beq_iff_eq, Bool.or_eq_true]
  exact colAt_zero_iffU hb i hi

theorem wordStart_eqU {b : Buf} (hb : Utf8B b) (big : Bool) (i : Nat) (hi : i < total b) :
    wordStart (kk big) (flat b) i = ws (kk big) (cpp b) i := by
  unfold wordStart ws
  rw [emptyLineAt_eqU hb i hi, cpAt_flat, cpAt_flat]
  unfold cpp
  rw [kk_prj, kk_prj]

theorem wordEnd_eqU {b : Buf} (hb : Utf8B b) (big : Bool) (i : Nat) (hi : i < total b) :
    wordEnd (kk big) (flat b) i = wen (kk big) (cpp b) (total b) i := by
  unfold wordEnd wen
  rw [emptyLineAt_eqU hb i hi, cpAt_flat, cpAt_flat, flat_length]
  unfold cpp
  rw [kk_prj, kk_prj]

theorem txt_of_repU {b : Buf} (hb : Utf8B b) {r o : Int} {i : Nat} (h : Rep b r o i) : Txt (cpp b) (total b) := by
  have hlt := rep_lt h
  have hne : b ≠ [] := by
    intro h0; subst h0; simp [total] at hlt
  refine ⟨by omega, fun j => prj_lt _, ?_⟩
  have hpos : 0 < b.length := List.length_pos_iff.mpr hne
  have hs := rowStart_step b (b.length - 1) (by omega)
  rw [show b.length - 1 + 1 = b.length by omega, rowStart_len] at hs
  rw [show total b - 1 = rowStart b (b.length - 1) + (rowOf b (b.length - 1)).length by omega]
  unfold cpp
  rw [(cp_rep_nlU hb (by omega) (Nat.le_refl _)).2 rfl]
  rfl

/-- **one `w` / `W` step** (`lbuf_wordbeg`, forward) on a valid UTF-8 buffer, from the character of flat
    index `i`: the target is the least index after `i` that starts a word (an empty line counts), and the
    scanner returns 0; if there is no such index the scanner returns 1 and stops on the last element of
    `flat` (the newline of the last line).  Offsets are character offsets; multi-byte, wide and combining
    characters are single word characters. -/
theorem wordbeg_spec_utf8 (ls : Lines) (h : Utf8Buf ls) (big : Bool) (r o : Int) (i : Nat)
    (hi : idxU ls r o = some i) :
    ∃ fl r' o', wordbeg ls big 1 r o = (fl, r', o') ∧
      match nextWhere (flat (refBufU ls)).length (wordStart (if big then clsBig else cls) (flat (refBufU ls))) i with
      | some j => fl = false ∧ idxU ls r' o' = some j
      | none => fl = true ∧ idxU ls r' o' = some ((flat (refBufU ls)).length - 1) := by
  obtain ⟨e, hb⟩ := utf8Buf_eq ls h
  have hrep := (idxU_iff_rep ls _ _ _).1 hi
  simp only [idxU_iff_rep ls]
  rw [flat_length, ← kk_eq, nextWhere_congr _ _ _ i (fun j hj => wordStart_eqU hb big j hj)]
  conv => enter [1, fl, 1, r', 1, o', 1, 1]; rw [e]
  have hs := wb_simU hb big 1 (Or.inl rfl) hrep
  generalize wordbeg (lsOfU (refBufU ls)) big 1 r o = res at hs ⊢
  obtain ⟨fl, r', o'⟩ := res
  obtain ⟨s1, s2⟩ := hs
  simp only [] at s1 s2
  refine ⟨fl, r', o', rfl, ?_⟩
  rcases wb_fwd (txt_of_repU hb hrep) big i (rep_lt hrep) with ⟨j, a1, a2⟩ | ⟨a1, a2⟩
  · rw [a2]; rw [a1] at s1 s2; exact ⟨s1, s2⟩
  · rw [a2]; rw [a1] at s1 s2; exact ⟨s1, s2⟩

/-- **one `e` / `E` step** (`lbuf_wordend`, forward) on a valid UTF-8 buffer -/
theorem wordend_fwd_spec_utf8 (ls : Lines) (h : Utf8Buf ls) (big : Bool) (r o : Int) (i : Nat)
    (hi : idxU ls r o = some i) :
    ∃ fl r' o', wordend ls big 1 r o = (fl, r', o') ∧
      match nextWhere (flat (refBufU ls)).length (wordEnd (if big then clsBig else cls) (flat (refBufU ls))) i with
      | some j => fl = false ∧ idxU ls r' o' = some j
      | none => fl = true ∧ idxU ls r' o' = some ((flat (refBufU ls)).length - 1) := by
  obtain ⟨e, hb⟩ := utf8Buf_eq ls h
  have hrep := (idxU_iff_rep ls _ _ _).1 hi
  simp only [idxU_iff_rep ls]
  rw [flat_length, ← kk_eq, nextWhere_congr _ _ _ i (fun j hj => wordEnd_eqU hb big j hj)]
  conv => enter [1, fl, 1, r', 1, o', 1, 1]; rw [e]
  have hs := we_simU hb big 1 (Or.inl rfl) hrep
  generalize wordend (lsOfU (refBufU ls)) big 1 r o = res at hs ⊢
  obtain ⟨fl, r', o'⟩ := res
  obtain ⟨s1, s2⟩ := hs
  simp only [] at s1 s2
  refine ⟨fl, r', o', rfl, ?_⟩
  rcases we_fwd (txt_of_repU hb hrep) big i (rep_lt hrep) with ⟨j, a1, a2⟩ | ⟨a1, a2⟩
  · rw [a2]; rw [a1] at s1 s2; exact ⟨s1, s2⟩
  · rw [a2]; rw [a1] at s1 s2; exact ⟨s1, s2⟩

/-- **one `b` / `B` step** (`lbuf_wordend`, backward) on a valid UTF-8 buffer: the greatest index before
    `i` that starts a word, and index 0 if there is none; the scanner returns 1 exactly when the target is
    index 0 — whether or not a word starts there -/
theorem wordend_back_spec_utf8 (ls : Lines) (h : Utf8Buf ls) (big : Bool) (r o : Int) (i : Nat)
    (hi : idxU ls r o = some i) :
    ∃ fl r' o', wordend ls big (-1) r o = (fl, r', o') ∧
      idxU ls r' o' =
        some ((prevWhere (wordStart (if big then clsBig else cls) (flat (refBufU ls))) i).getD 0) ∧
      (fl = true ↔ (prevWhere (wordStart (if big then clsBig else cls) (flat (refBufU ls))) i).getD 0 = 0) := by
  obtain ⟨e, hb⟩ := utf8Buf_eq ls h
  have hrep := (idxU_iff_rep ls _ _ _).1 hi
  have hlt := rep_lt hrep
  simp only [idxU_iff_rep ls]
  rw [← kk_eq, prevWhere_congr _ _ i (fun j hj => wordStart_eqU hb big j (by omega))]
  conv => enter [1, fl, 1, r', 1, o', 1, 1]; rw [e]
  have hs := we_simU hb big (-1) (Or.inr rfl) hrep
  generalize wordend (lsOfU (refBufU ls)) big (-1) r o = res at hs ⊢
  obtain ⟨fl, r', o'⟩ := res
  obtain ⟨s1, s2⟩ := hs
  simp only [] at s1 s2
  refine ⟨fl, r', o', rfl, ?_⟩
  obtain ⟨fl2, j, a1, a2, a3⟩ := we_bwd (txt_of_repU hb hrep) big i hlt
  rw [a1] at s1 s2
  simp only [] at s1 s2
  rw [a2, s1]
  exact ⟨s2, a3⟩

/-! ### one step of the scanner is the reference motion with count 1 -/

theorem posAt_idxU (ls : Lines) (h : Utf8Buf ls) {r o : Int} {i : Nat} (hi : idxU ls r o = some i) :
    posAt (flat (refBufU ls)) i = ⟨r.toNat, o.toNat⟩ := (flat_class_utf8 ls h r o i hi).2.2.2.2.2

theorem idxU_indexOf (ls : Lines) {r o : Int} {i : Nat} (hi : idxU ls r o = some i) :
    indexOf (flat (refBufU ls)) ⟨r.toNat, o.toNat⟩ = some i := by
  unfold idxU at hi
  split at hi
  · cases hi
  · exact hi

theorem idxU_lt (ls : Lines) {r o : Int} {i : Nat} (hi : idxU ls r o = some i) :
    i < (flat (refBufU ls)).length := by
  rw [flat_length]; exact rep_lt ((idxU_iff_rep ls _ _ _).1 hi)

/-- `w` / `W` with count 1 on a valid UTF-8 buffer: the scanner stops where the reference motion (before
    clamping to the line) lands, whether or not it reports failure -/
theorem wordbeg_wordFwdRaw_utf8 (ls : Lines) (h : Utf8Buf ls) (big : Bool) (r o : Int) (i : Nat)
    (hi : idxU ls r o = some i) :
    ∃ fl r' o', wordbeg ls big 1 r o = (fl, r', o') ∧ 0 ≤ r' ∧ 0 ≤ o' ∧
      wordFwdRaw big (refBufU ls) ⟨r.toNat, o.toNat⟩ 1 = ⟨r'.toNat, o'.toNat⟩ := by
  obtain ⟨fl, r', o', e, hm⟩ := wordbeg_spec_utf8 ls h big r o i hi
  have hlt := idxU_lt ls hi
  refine ⟨fl, r', o', e, ?_⟩
  unfold wordFwdRaw
  simp only []
  rw [idxU_indexOf ls hi]
  simp only [iter]
  cases hn : nextWhere (flat (refBufU ls)).length (wordStart (if big then clsBig else cls) (flat (refBufU ls))) i with
  | some j =>
    rw [hn] at hm
    obtain ⟨_, hj⟩ := hm
    have hrep := (idxU_iff_rep ls _ _ _).1 hj
    obtain ⟨rn, cn, e1, e2, _⟩ := hrep
    exact ⟨by omega, by omega, posAt_idxU ls h hj⟩
  | none =>
    rw [hn] at hm
    obtain ⟨_, hj⟩ := hm
    have hrep := (idxU_iff_rep ls _ _ _).1 hj
    obtain ⟨rn, cn, e1, e2, _⟩ := hrep
    refine ⟨by omega, by omega, ?_⟩
    by_cases hl : i + 1 < (flat (refBufU ls)).length
    · simp only [hl, if_true]; exact posAt_idxU ls h hj
    · simp only [hl, if_false]
      rw [show i = (flat (refBufU ls)).length - 1 by omega]; exact posAt_idxU ls h hj

/-- `e` / `E` with count 1 on a valid UTF-8 buffer -/
theorem wordend_wordEndFwdRaw_utf8 (ls : Lines) (h : Utf8Buf ls) (big : Bool) (r o : Int) (i : Nat)
    (hi : idxU ls r o = some i) :
    ∃ fl r' o', wordend ls big 1 r o = (fl, r', o') ∧ 0 ≤ r' ∧ 0 ≤ o' ∧
      wordEndFwdRaw big (refBufU ls) ⟨r.toNat, o.toNat⟩ 1 = ⟨r'.toNat, o'.toNat⟩ := by
  obtain ⟨fl, r', o', e, hm⟩ := wordend_fwd_spec_utf8 ls h big r o i hi
  have hlt := idxU_lt ls hi
  refine ⟨fl, r', o', e, ?_⟩
  unfold wordEndFwdRaw
  simp only []
  rw [idxU_indexOf ls hi]
  simp only [iter]
  cases hn : nextWhere (flat (refBufU ls)).length (wordEnd (if big then clsBig else cls) (flat (refBufU ls))) i with
  | some j =>
    rw [hn] at hm
    obtain ⟨_, hj⟩ := hm
    have hrep := (idxU_iff_rep ls _ _ _).1 hj
    obtain ⟨rn, cn, e1, e2, _⟩ := hrep
    exact ⟨by omega, by omega, posAt_idxU ls h hj⟩
  | none =>
    rw [hn] at hm
    obtain ⟨_, hj⟩ := hm
    have hrep := (idxU_iff_rep ls _ _ _).1 hj
    obtain ⟨rn, cn, e1, e2, _⟩ := hrep
    refine ⟨by omega, by omega, ?_⟩
    by_cases hl : i + 1 < (flat (refBufU ls)).length
    · simp only [hl, if_true]; exact posAt_idxU ls h hj
    · simp only [hl, if_false]
      rw [show i = (flat (refBufU ls)).length - 1 by omega]; exact posAt_idxU ls h hj

/-- `b` / `B` with count 1 on a valid UTF-8 buffer -/
theorem wordend_wordBackRaw_utf8 (ls : Lines) (h : Utf8Buf ls) (big : Bool) (r o : Int) (i : Nat)
    (hi : idxU ls r o = some i) :
    ∃ fl r' o', wordend ls big (-1) r o = (fl, r', o') ∧ 0 ≤ r' ∧ 0 ≤ o' ∧
      wordBackRaw big (refBufU ls) ⟨r.toNat, o.toNat⟩ 1 = ⟨r'.toNat, o'.toNat⟩ := by
  obtain ⟨fl, r', o', e, hj, _⟩ := wordend_back_spec_utf8 ls h big r o i hi
  refine ⟨fl, r', o', e, ?_⟩
  have hrep := (idxU_iff_rep ls _ _ _).1 hj
  obtain ⟨rn, cn, e1, e2, _⟩ := hrep
  refine ⟨by omega, by omega, ?_⟩
  unfold wordBackRaw
  simp only []
  rw [idxU_indexOf ls hi]
  simp only [iter]
  cases hn : prevWhere (wordStart (if big then clsBig else cls) (flat (refBufU ls))) i with
  | some j =>
    rw [hn] at hj
    exact posAt_idxU ls h hj
  | none =>
    rw [hn] at hj
    simp only [Option.getD_none] at hj
    by_cases hl : i > 0
    · simp only [hl, if_true]; exact posAt_idxU ls h hj
    · simp only [hl, if_false]
      rw [show i = 0 by omega]; exact posAt_idxU ls h hj

/-! ### counts: the loop of `vi_motion` over the scanners is the reference motion with that count -/

/-- the loop of `vi.c` for `w W e E b B` with a count (`Vi.lean`, the `go` of the word motions): repeat the
    scanner, stop at the first failure keeping the position it reached -/
def runWord (step : Int → Int → Bool × Int × Int) : Nat → Int → Int → Int × Int
  | 0, r, o => (r, o)
  | j + 1, r, o =>
    let (failed, r', o') := step r o
    if failed then (r', o') else runWord step j r' o'

/-- `runWord` is the loop of the vi model (`Vi.viMotion`, the motions `w W e E b B`) -/
theorem viMotion_go_runWord (mv : Int) (ls : Lines) (big : Bool) : ∀ cnt r o,
    Vi.viMotion.go mv ls big cnt r o =
      runWord (fun r o => if mv == 87 || mv == 119 then wordbeg ls big 1 r o
        else wordend ls big (if mv == 66 || mv == 98 then -1 else 1) r o) cnt r o := by
  intro cnt
  induction cnt with
  | zero => intro r o; rfl
  | succ j ih =>
    intro r o
    unfold Vi.viMotion.go runWord
    simp only []
    generalize (if (mv == 87 || mv == 119) = true then wordbeg ls big 1 r o
        else wordend ls big (if (mv == 66 || mv == 98) = true then -1 else 1) r o) = x
    obtain ⟨fl, r', o'⟩ := x
    simp only []
    cases fl
    · simp only [Bool.false_eq_true, if_false]; exact ih r' o'
    · rfl

/-- the step of the reference's forward word motions, as in `wordFwdRaw` / `wordEndFwdRaw` -/
def stepFwd (p : Nat → Bool) (N : Nat) (i : Nat) : Option Nat :=
  match nextWhere N p i with
  | some j => some j
  | none => if i + 1 < N then some (N - 1) else none

/-- the step of the reference's backward word motion, as in `wordBackRaw` -/
def stepBwd (p : Nat → Bool) (i : Nat) : Option Nat :=
  match prevWhere p i with
  | some j => some j
  | none => if i > 0 then some 0 else none

theorem iter_last (p : Nat → Bool) (N : Nat) (hN : 0 < N) : ∀ cnt, iter (stepFwd p N) cnt (N - 1) = N - 1 := by
  intro cnt
  cases cnt with
  | zero => rfl
  | succ cnt =>
    have h1 : nextWhere N p (N - 1) = none := nextWhere_none N p (N - 1) (fun m m1 m2 => by omega)
    have h2 : stepFwd p N (N - 1) = none := by
      unfold stepFwd; rw [h1]; simp only []; rw [if_neg (by omega)]
    simp only [iter, h2]

theorem iter_first (p : Nat → Bool) : ∀ cnt, iter (stepBwd p) cnt 0 = 0 := by
  intro cnt
  cases cnt with
  | zero => rfl
  | succ cnt =>
    have h1 : prevWhere p 0 = none := prevWhere_none p 0 (fun m hm => by omega)
    have h2 : stepBwd p 0 = none := by
      unfold stepBwd; rw [h1]; simp only []; rw [if_neg (by omega)]
    simp only [iter, h2]

theorem run_fwd (ls : Lines) (step : Int → Int → Bool × Int × Int) (p : Nat → Bool) (N : Nat)
    (hN : ∀ r o i, idxU ls r o = some i → i < N)
    (hstep : ∀ r o i, idxU ls r o = some i → ∃ fl r' o', step r o = (fl, r', o') ∧
      match nextWhere N p i with
      | some j => fl = false ∧ idxU ls r' o' = some j
      | none => fl = true ∧ idxU ls r' o' = some (N - 1)) :
    ∀ cnt r o i, idxU ls r o = some i →
      ∃ r' o', runWord step cnt r o = (r', o') ∧ idxU ls r' o' = some (iter (stepFwd p N) cnt i) := by
  intro cnt
  induction cnt with
  | zero => intro r o i hi; exact ⟨r, o, rfl, hi⟩
  | succ cnt ih =>
    intro r o i hi
    have hlt := hN r o i hi
    obtain ⟨fl, r', o', e, hm⟩ := hstep r o i hi
    unfold runWord
    rw [e]
    simp only []
    cases hn : nextWhere N p i with
    | some j =>
      rw [hn] at hm
      obtain ⟨rfl, hj⟩ := hm
      have h2 : stepFwd p N i = some j := by unfold stepFwd; rw [hn]
      simp only [iter, h2, Bool.false_eq_true, if_false]
      exact ih r' o' j hj
    | none =>
      rw [hn] at hm
      obtain ⟨rfl, hj⟩ := hm
      simp only [if_true]
      refine ⟨r', o', rfl, ?_⟩
      rw [hj]
      congr 1
      by_cases hl : i + 1 < N
      · have h2 : stepFwd p N i = some (N - 1) := by unfold stepFwd; rw [hn]; simp only []; rw [if_pos hl]
        simp only [iter, h2]
        exact (iter_last p N (by omega) cnt).symm
      · have h2 : stepFwd p N i = none := by unfold stepFwd; rw [hn]; simp only []; rw [if_neg hl]
        simp only [iter, h2]
        omega

theorem run_bwd (ls : Lines) (step : Int → Int → Bool × Int × Int) (p : Nat → Bool)
    (hstep : ∀ r o i, idxU ls r o = some i → ∃ fl r' o', step r o = (fl, r', o') ∧
      idxU ls r' o' = some ((prevWhere p i).getD 0) ∧ (fl = true ↔ (prevWhere p i).getD 0 = 0)) :
    ∀ cnt r o i, idxU ls r o = some i →
      ∃ r' o', runWord step cnt r o = (r', o') ∧ idxU ls r' o' = some (iter (stepBwd p) cnt i) := by
  intro cnt
  induction cnt with
  | zero => intro r o i hi; exact ⟨r, o, rfl, hi⟩
  | succ cnt ih =>
    intro r o i hi
    obtain ⟨fl, r', o', e, hj, hfl⟩ := hstep r o i hi
    unfold runWord
    rw [e]
    simp only []
    cases hn : prevWhere p i with
    | some j =>
      rw [hn] at hj hfl
      simp only [Option.getD_some] at hj hfl
      have h2 : stepBwd p i = some j := by unfold stepBwd; rw [hn]
      simp only [iter, h2]
      cases fl with
      | true =>
        simp only [if_true]
        have hj0 : j = 0 := hfl.1 rfl
        subst hj0
        exact ⟨r', o', rfl, by rw [hj, iter_first]⟩
      | false =>
        simp only [Bool.false_eq_true, if_false]
        exact ih r' o' j hj
    | none =>
      rw [hn] at hj hfl
      have hfl' : fl = true := hfl.2 rfl
      simp only [Option.getD_none] at hj
      subst hfl'
      simp only [if_true]
      refine ⟨r', o', rfl, ?_⟩
      rw [hj]
      congr 1
      by_cases hl : i > 0
      · have h2 : stepBwd p i = some 0 := by unfold stepBwd; rw [hn]; simp only []; rw [if_pos hl]
        simp only [iter, h2]
        exact (iter_first p cnt).symm
      · have h2 : stepBwd p i = none := by unfold stepBwd; rw [hn]; simp only []; rw [if_neg hl]
        simp only [iter, h2]
        omega

theorem idxU_pos (ls : Lines) (h : Utf8Buf ls) {r o : Int} {i : Nat} (hi : idxU ls r o = some i) :
    0 ≤ r ∧ 0 ≤ o ∧ posAt (flat (refBufU ls)) i = ⟨r.toNat, o.toNat⟩ := by
  obtain ⟨rn, cn, e1, e2, _⟩ := (idxU_iff_rep ls _ _ _).1 hi
  exact ⟨by omega, by omega, posAt_idxU ls h hi⟩

/-- **`w` / `W` with any count** on a valid UTF-8 buffer: the loop of `vi_motion` over `lbuf_wordbeg` stops
    where the reference motion `wordFwdRaw` with that count lands -/
theorem wordbeg_count_wordFwdRaw_utf8 (ls : Lines) (h : Utf8Buf ls) (big : Bool) (cnt : Nat) (r o : Int) (i : Nat)
    (hi : idxU ls r o = some i) :
    ∃ r' o', runWord (wordbeg ls big 1) cnt r o = (r', o') ∧ 0 ≤ r' ∧ 0 ≤ o' ∧
      wordFwdRaw big (refBufU ls) ⟨r.toNat, o.toNat⟩ cnt = ⟨r'.toNat, o'.toNat⟩ := by
  obtain ⟨r', o', e, hj⟩ := run_fwd ls (wordbeg ls big 1)
    (wordStart (if big then clsBig else cls) (flat (refBufU ls))) (flat (refBufU ls)).length
    (fun r o i hi => idxU_lt ls hi) (fun r o i hi => wordbeg_spec_utf8 ls h big r o i hi) cnt r o i hi
  obtain ⟨p1, p2, p3⟩ := idxU_pos ls h hj
  refine ⟨r', o', e, p1, p2, ?_⟩
  unfold wordFwdRaw
  simp only []
  rw [idxU_indexOf ls hi]
  exact p3

/-- **`e` / `E` with any count** on a valid UTF-8 buffer -/
theorem wordend_count_wordEndFwdRaw_utf8 (ls : Lines) (h : Utf8Buf ls) (big : Bool) (cnt : Nat) (r o : Int)
    (i : Nat) (hi : idxU ls r o = some i) :
    ∃ r' o', runWord (wordend ls big 1) cnt r o = (r', o') ∧ 0 ≤ r' ∧ 0 ≤ o' ∧
      wordEndFwdRaw big (refBufU ls) ⟨r.toNat, o.toNat⟩ cnt = ⟨r'.toNat, o'.toNat⟩ := by
  obtain ⟨r', o', e, hj⟩ := run_fwd ls (wordend ls big 1)
    (wordEnd (if big then clsBig else cls) (flat (refBufU ls))) (flat (refBufU ls)).length
    (fun r o i hi => idxU_lt ls hi) (fun r o i hi => wordend_fwd_spec_utf8 ls h big r o i hi) cnt r o i hi
  obtain ⟨p1, p2, p3⟩ := idxU_pos ls h hj
  refine ⟨r', o', e, p1, p2, ?_⟩
  unfold wordEndFwdRaw
  simp only []
  rw [idxU_indexOf ls hi]
  exact p3

/-- **`b` / `B` with any count** on a valid UTF-8 buffer -/
theorem wordend_count_wordBackRaw_utf8 (ls : Lines) (h : Utf8Buf ls) (big : Bool) (cnt : Nat) (r o : Int)
    (i : Nat) (hi : idxU ls r o = some i) :
    ∃ r' o', runWord (wordend ls big (-1)) cnt r o = (r', o') ∧ 0 ≤ r' ∧ 0 ≤ o' ∧
      wordBackRaw big (refBufU ls) ⟨r.toNat, o.toNat⟩ cnt = ⟨r'.toNat, o'.toNat⟩ := by
  obtain ⟨r', o', e, hj⟩ := run_bwd ls (wordend ls big (-1))
    (wordStart (if big then clsBig else cls) (flat (refBufU ls)))
    (fun r o i hi => wordend_back_spec_utf8 ls h big r o i hi) cnt r o i hi
  obtain ⟨p1, p2, p3⟩ := idxU_pos ls h hj
  refine ⟨r', o', e, p1, p2, ?_⟩
  unfold wordBackRaw
  simp only []
  rw [idxU_indexOf ls hi]
  exact p3

/-! ## 4. `lbuf_findchar` with a multi-byte target, `lbuf_paragraphbeg`, `lbuf_pair` -/

/-- **`f` / `F` / `t` / `T`** (`lbuf_findchar`, commands 102, 70, 116, 84) on a valid UTF-8 line, for a
    positive count, any valid target code point other than the newline (handed over as its UTF-8
    encoding, as `vi.c` does), and the cursor on the line: the result is the reference `findChar` on the
    code points of the line, in character offsets -/
theorem findchar_spec_utf8 (ls : Lines) (r : Int) (body : List Nat)
    (hline : lineAt ls r = some (encStr (body ++ [10]))) (hv : ∀ c ∈ body, ValidCp c) (h10 : 10 ∉ body)
    (c : Nat) (hc : ValidCp c) (hc10 : c ≠ 10) (cmd : Nat) (hcmd : cmd = 102 ∨ cmd = 70 ∨ cmd = 116 ∨ cmd = 84)
    (n : Int) (hn : 0 < n) (o : Int) (ho : 0 ≤ o) (ho' : o ≤ body.length) :
    (findchar ls (enc c) cmd n r o).map Int.toNat =
      findChar body o.toNat c (cmd == 102 || cmd == 116) (cmd == 116 || cmd == 84) n.toNat ∧
    ∀ p, findchar ls (enc c) cmd n r o = some p → 0 ≤ p := by
  have hw : Utf8W body := ⟨hv, h10⟩
  have := findchar_allU ls r body hline hw c hc hc10 cmd hcmd n (by omega) o ho
  have hd : decide (0 < n) = true := by simp; omega
  rw [hd, show n.natAbs = n.toNat by omega] at this
  simpa using this

/-- **`lbuf_findchar` in full** — the statement left open as `C07.findchar_spec_full`: any non-zero count
    (a negative count is the reversed search of `,`), any non-negative offset (also beyond the line, where
    `uc_chr` yields `""`), target and line any valid code points other than the newline -/
theorem findchar_spec_full_utf8 : C07.findchar_spec_full := by
  intro ls r cps c cmd n o hval hline hcmd hn ho
  have hw : Utf8W cps :=
    ⟨fun x hx => (hval x (by simp [hx])).1, fun h10 => (hval 10 (by simp [h10])).2.2 rfl⟩
  have hc := hval c (by simp)
  have hline' : lineAt ls r = some (encStr (cps ++ [10])) := by
    rw [hline, encStr_append]; rfl
  exact (findchar_allU ls r cps hline' hw c hc.1 hc.2.2 cmd hcmd n hn o ho).1

/-- in the full form, with the sign of the result: the same hypotheses as `findchar_spec_full`, on a line
    given by its body -/
theorem findchar_spec_utf8_full (ls : Lines) (r : Int) (body : List Nat)
    (hline : lineAt ls r = some (encStr (body ++ [10]))) (hv : ∀ c ∈ body, ValidCp c) (h10 : 10 ∉ body)
    (c : Nat) (hc : ValidCp c) (hc10 : c ≠ 10) (cmd : Nat) (hcmd : cmd = 102 ∨ cmd = 70 ∨ cmd = 116 ∨ cmd = 84)
    (n : Int) (hn : n ≠ 0) (o : Int) (ho : 0 ≤ o) :
    (findchar ls (enc c) cmd n r o).map Int.toNat =
      findChar body o.toNat c ((cmd == 102 || cmd == 116) == decide (0 < n)) (cmd == 116 || cmd == 84) n.natAbs ∧
    ∀ p, findchar ls (enc c) cmd n r o = some p → 0 ≤ p :=
  findchar_allU ls r body hline ⟨hv, h10⟩ c hc hc10 cmd hcmd n hn o ho

/-- the same on a row of a valid UTF-8 buffer, against the row of the reference buffer -/
theorem findchar_spec_utf8_buf (ls : Lines) (h : Utf8Buf ls) (r : Nat) (hr : r < ls.length)
    (c : Nat) (hc : ValidCp c) (hc10 : c ≠ 10) (cmd : Nat) (hcmd : cmd = 102 ∨ cmd = 70 ∨ cmd = 116 ∨ cmd = 84)
    (n : Int) (hn : 0 < n) (o : Int) (ho : 0 ≤ o) (ho' : o ≤ ((refBufU ls).getD r []).length) :
    (findchar ls (enc c) cmd n (r : Int) o).map Int.toNat =
      findChar ((refBufU ls).getD r []) o.toNat c (cmd == 102 || cmd == 116) (cmd == 116 || cmd == 84) n.toNat ∧
    ∀ p, findchar ls (enc c) cmd n (r : Int) o = some p → 0 ≤ p := by
  obtain ⟨e, hb⟩ := utf8Buf_eq ls h
  have hr' : r < (refBufU ls).length := by simp [refBufU]; exact hr
  have hline : lineAt ls (r : Int) = some (encStr (rowOf (refBufU ls) r ++ [10])) := by
    conv => lhs; rw [e]
    exact lineAt_repU _ r hr'
  have hw := rowOf_utf8 hb hr'
  exact findchar_spec_utf8 ls r _ hline hw.1 hw.2 c hc hc10 cmd hcmd n hn o ho ho'

theorem refBufU_length (ls : Lines) : (refBufU ls).length = ls.length := by simp [refBufU]

/-- **`}` and `{`** (`lbuf_paragraphbeg`) on a valid UTF-8 buffer: `paraFwd` / `paraBack` on the rows -/
theorem paragraphbeg_spec_utf8 (ls : Lines) (h : Utf8Buf ls) (r : Nat) :
    (r ≤ ls.length → paragraphbeg ls 1 (r : Int) = (((paraFwd (refBufU ls) r : Nat) : Int), 0)) ∧
    (r < ls.length → paragraphbeg ls (-1) (r : Int) = (((paraBack (refBufU ls) r : Nat) : Int), 0)) := by
  obtain ⟨e, _⟩ := utf8Buf_eq ls h
  rw [← refBufU_length]
  generalize refBufU ls = b at *
  subst e
  rw [paragraphbeg_lsOfU, paragraphbeg_lsOfU]
  exact ⟨paragraphbeg_fwd b r, paragraphbeg_bwd b r⟩

/-- `lbuf_paragraphbeg` does not depend on the encoding: the same for every buffer whose lines are the
    encoding of code points followed by a newline (validity is not needed; this was already so for the
    byte-wise `paragraphbeg_spec_lines` of C07b) -/
theorem paragraphbeg_spec_enc (b : Buf) (r : Nat) :
    (r ≤ b.length → paragraphbeg (lsOfU b) 1 (r : Int) = (((paraFwd b r : Nat) : Int), 0)) ∧
    (r < b.length → paragraphbeg (lsOfU b) (-1) (r : Int) = (((paraBack b r : Nat) : Int), 0)) := by
  rw [paragraphbeg_lsOfU, paragraphbeg_lsOfU]
  exact ⟨paragraphbeg_fwd b r, paragraphbeg_bwd b r⟩

/-- **`%`** (`lbuf_pair`) from any character `(r, o)` of a valid UTF-8 buffer (the newline included): the
    reference's `pairOf` on code points — the first bracket `( ) [ ] { }` at or after the cursor on its
    line, and the bracket that balances it, searched over the whole buffer; offsets are character offsets
    (the scanner compares first bytes, and no multi-byte character starts with a bracket byte) -/
theorem pair_spec_utf8 (ls : Lines) (h : Utf8Buf ls) (r o : Int) (i : Nat) (hi : idxU ls r o = some i) :
    Mot.pair ls r o = (pairOf (refBufU ls) ⟨r.toNat, o.toNat⟩).map (fun p => ((p.row : Int), (p.col : Int))) := by
  obtain ⟨e, hb⟩ := utf8Buf_eq ls h
  have hrep := (idxU_iff_rep ls _ _ _).1 hi
  generalize refBufU ls = b at *
  subst e
  obtain ⟨rn, cn, rfl, rfl, h1, h2, _⟩ := hrep
  simpa using pair_repU hb h1 h2

/-! ## 4b. `lbuf_eol` and `lbuf_indents` -/

/-- `lbuf_eol` on a valid UTF-8 line: the character offset of the newline (the number of code points of
    the body), and what `$` lands on after `ren_noeol` is the reference's last column -/
theorem eol_utf8 (ls : Lines) (r : Int) (body : List Nat) (hline : lineAt ls r = some (encStr (body ++ [10])))
    (hv : ∀ c ∈ body, ValidCp c) :
    eol ls r = body.length ∧ Ren.renNoeol (encStr (body ++ [10])) (eol ls r) = lastCol body := by
  have hs : ∀ c ∈ body ++ [10], ValidCp c := by
    intro c hc
    simp only [List.mem_append, List.mem_cons, List.not_mem_nil, or_false] at hc
    rcases hc with hc | rfl
    · exact hv c hc
    · exact valid_ten
  have hlen : ucSlen (encStr (body ++ [10])) = body.length + 1 := by rw [C16.slen_spec hs]; simp
  have h1 : eol ls r = body.length := by
    rw [eol_of_line ls r _ hline, hlen]; simp
  refine ⟨h1, ?_⟩
  rw [h1, renNoeol_eq]
  have hc : clampOff (encStr (body ++ [10])) (body.length : Int) = body.length := by
    unfold clampOff; rw [hlen, if_neg (by omega)]
  rw [hc]
  have hh : Ren.chrHd (encStr (body ++ [10])) ((body.length : Int)).toNat = 10 := by
    unfold Ren.chrHd
    rw [Int.toNat_natCast, C16.chr_spec hs, if_pos (by simp)]
    simp only []
    rw [drop_byteOff]
    have : (body ++ [10]).drop body.length = [10] := by simp
    rw [this]; decide
  unfold lastCol
  split <;> omega

/-- `lbuf_indents` on a UTF-8 line with a non-blank character `x` (any valid code point that is not a
    C-locale space, e.g. a multi-byte one) after leading blanks: the number of leading blanks — a byte
    count that is also the character offset — which is the reference's `firstNonBlank` -/
theorem indents_firstNonBlank_utf8 (ls : Lines) (r : Int) (pre rest : List Nat) (x : Nat)
    (hline : lineAt ls r = some (encStr (pre ++ x :: rest ++ [10])))
    (hpre : ∀ b ∈ pre, isBlank b = true) (hx : ValidCp x) (hxs : cls x ≠ 0) :
    indents ls r = pre.length ∧ firstNonBlank (pre ++ x :: rest) = pre.length := by
  have hpre128 : ∀ b ∈ pre, b < 128 := by
    intro b hb
    have := hpre b hb
    unfold isBlank at this
    simp only [Bool.or_eq_true, beq_iff_eq] at this
    omega
  have hxb : isBlank x = false := by
    cases h : isBlank x with
    | false => rfl
    | true =>
      unfold isBlank at h
      simp only [Bool.or_eq_true, beq_iff_eq] at h
      rcases h with h | h <;> subst h <;> exact absurd (by decide) hxs
  constructor
  · rw [(C07.indents_spec ls r).2 _ hline]
    rw [show pre ++ x :: rest ++ [10] = pre ++ x :: (rest ++ [10]) by simp, encStr_append, encStr_ascii hpre128,
      encStr_cons]
    obtain ⟨a, t, he, hch⟩ := enc_chr hx
    have hsp : ucIsSpace a = false := by
      have := (class_enc hx (encStr (rest ++ [10]))).2.1
      rw [he] at this
      simp only [List.cons_append, Bytes.hd_cons] at this
      rw [this]; simpa using hxs
    rw [he]
    show ((List.takeWhile (fun c => c != 10 && ucIsSpace c) (pre ++ a :: (t ++ encStr (rest ++ [10])))).length : Int) = _
    rw [takeWhile_pre _ pre a _ (fun b hb => C07.isBlank_indent b (hpre b hb)) (by simp [hsp])]
  · unfold firstNonBlank
    rw [range_find_first _ pre.length _ (by simp) (by simp [List.getD, hxb])]
    intro j hj
    have : (pre ++ x :: rest).getD j 0 = pre[j] := by
      simp [List.getD, List.getElem?_append_left hj, List.getElem?_eq_getElem hj]
    rw [this, hpre _ (List.getElem_mem hj)]
    rfl

/-! ## 5. examples: the buffer `naïve 中文 x́y` / (empty line) / `(é)`

`ï` U+00EF and `é` U+00E9 take two bytes, `中` U+4E2D and `文` U+6587 three (and two cells on the screen),
U+0301 after `x` is a combining accent (two bytes, no cell): each of them is one character for the
scanners and one element of `flat`. -/

def exU : Lines :=
  [[110, 97, 195, 175, 118, 101, 32, 228, 184, 173, 230, 150, 135, 32, 120, 204, 129, 121, 10], [10],
   [40, 195, 169, 41, 10]]

theorem exU_utf8 : Utf8Buf exU := by
  intro l hl
  simp only [exU, List.mem_cons, List.not_mem_nil, or_false] at hl
  rcases hl with rfl | rfl | rfl
  · exact ⟨[110, 97, 0xef, 118, 101, 32, 0x4e2d, 0x6587, 32, 120, 0x301, 121], by decide, by decide, by decide⟩
  · exact ⟨[], by decide, by decide, by decide⟩
  · exact ⟨[40, 0xe9, 41], by decide, by decide, by decide⟩

example : refBufU exU = [[110, 97, 0xef, 118, 101, 32, 0x4e2d, 0x6587, 32, 120, 0x301, 121], [], [40, 0xe9, 41]] := by
  decide +kernel
example : (flat (refBufU exU)).length = 18 := by decide +kernel
/-- not an ASCII buffer -/
example : ¬ AsciiBuf exU := by
  intro h
  obtain ⟨w, e, hw⟩ := h _ (List.mem_cons_self)
  have h1 : w = [110, 97, 195, 175, 118, 101, 32, 228, 184, 173, 230, 150, 135, 32, 120, 204, 129, 121] := by
    have := congrArg List.dropLast e
    simpa using this.symm
  subst h1
  have := (hw 195 (by decide)).2.1
  omega
/-- offsets are character offsets: `中` is character 6 (byte 7), `y` is character 11 (byte 17) -/
example : idxU exU 0 0 = some 0 ∧ idxU exU 0 6 = some 6 ∧ idxU exU 0 11 = some 11 ∧ idxU exU 0 12 = some 12 ∧
    idxU exU 1 0 = some 13 ∧ idxU exU 2 1 = some 15 ∧ idxU exU 2 3 = some 17 ∧
    idxU exU 0 13 = none ∧ idxU exU 3 0 = none := by decide +kernel
/-- the classes of the model at `ï`, `中`, the combining accent, and the non-ASCII blanks of §1 -/
example : kindAt exU 0 2 = 1 ∧ kindAt exU 0 6 = 1 ∧ kindAt exU 0 10 = 1 ∧ isSpaceAt exU 0 10 = false ∧
    codeAt exU 0 6 = 0x4e2d ∧ codeAt exU 0 10 = 0x301 ∧ codeAt exU 0 12 = 10 := by decide +kernel
example : cls 0xa0 = 1 ∧ cls 0x2000 = 1 ∧ cls 0x3000 = 1 ∧
    ucKind (Bytes.hd (enc 0xa0)) = 1 ∧ ucKind (Bytes.hd (enc 0x2000)) = 1 ∧ ucKind (Bytes.hd (enc 0x3000)) = 1 ∧
    ucIsSpace (Bytes.hd (enc 0xa0)) = false ∧ ucIsSpace (Bytes.hd (enc 0x3000)) = false := by decide +kernel
/-- `w` from `n`: to `中`; from `中`: to `x` (the accent does not start a word); from `x`, its accent or
    `y`: to the empty line; from the empty line: to `(`; from `(`: to `é`; from `)`: failure -/
example : wordbeg exU false 1 0 0 = (false, 0, 6) ∧ wordbeg exU false 1 0 6 = (false, 0, 9) ∧
    wordbeg exU false 1 0 9 = (false, 1, 0) ∧ wordbeg exU false 1 0 10 = (false, 1, 0) ∧
    wordbeg exU false 1 1 0 = (false, 2, 0) ∧ wordbeg exU false 1 2 0 = (false, 2, 1) ∧
    wordbeg exU false 1 2 2 = (true, 2, 3) := by decide +kernel
example : nextWhere 18 (wordStart cls (flat (refBufU exU))) 0 = some 6 ∧
    nextWhere 18 (wordStart cls (flat (refBufU exU))) 6 = some 9 ∧
    nextWhere 18 (wordStart cls (flat (refBufU exU))) 9 = some 13 ∧
    nextWhere 18 (wordStart cls (flat (refBufU exU))) 13 = some 14 ∧
    nextWhere 18 (wordStart cls (flat (refBufU exU))) 14 = some 15 ∧
    nextWhere 18 (wordStart cls (flat (refBufU exU))) 16 = none := by decide +kernel
/-- `e` from `n`: to `e`; from `中`: to `文`; from `x`: to `y`, over the accent;
    `b` from `x`: to `中`; from the accent: to `x`; from `中`: to `n`, reported as failure (index 0) -/
example : wordend exU false 1 0 0 = (false, 0, 4) ∧ wordend exU false 1 0 6 = (false, 0, 7) ∧
    wordend exU false 1 0 9 = (false, 0, 11) ∧ wordend exU false (-1) 0 9 = (false, 0, 6) ∧
    wordend exU false (-1) 0 10 = (false, 0, 9) ∧ wordend exU false (-1) 0 6 = (true, 0, 0) := by decide +kernel
/-- counts: `3w` from `n` lands on the empty line, `2b` from `y` on `中`, `9e` runs to the end -/
example : runWord (wordbeg exU false 1) 3 0 0 = (1, 0) ∧ wordFwdRaw false (refBufU exU) ⟨0, 0⟩ 3 = ⟨1, 0⟩ ∧
    runWord (wordend exU false (-1)) 2 0 11 = (0, 6) ∧ wordBackRaw false (refBufU exU) ⟨0, 11⟩ 2 = ⟨0, 6⟩ ∧
    runWord (wordend exU false 1) 9 0 0 = (2, 3) ∧ wordEndFwdRaw false (refBufU exU) ⟨0, 0⟩ 9 = ⟨2, 3⟩ := by
  decide +kernel
/-- `f中`, `t文`, `Fï` and `Tï` from `y`, `f` + the combining accent, `2f␣` -/
example : findchar exU (enc 0x4e2d) 102 1 0 0 = some 6 ∧ findchar exU (enc 0x6587) 116 1 0 0 = some 6 ∧
    findchar exU (enc 0xef) 70 1 0 11 = some 2 ∧ findchar exU (enc 0xef) 84 1 0 11 = some 3 ∧
    findchar exU (enc 0x301) 102 1 0 0 = some 10 ∧ findchar exU (enc 32) 102 2 0 0 = some 8 ∧
    findchar exU (enc 0x4e2d) 102 2 0 0 = none := by decide +kernel
/-- a negative count searches the other way (`,`): `f` with count -1 from `y` finds `ï` backward; an offset
    beyond the line: nothing forward, everything backward -/
example : findchar exU (enc 0xef) 102 (-1) 0 11 = some 2 ∧ findchar exU (enc 0xef) 70 (-1) 0 0 = some 2 ∧
    findchar exU (enc 121) 102 1 0 40 = none ∧ findchar exU (enc 121) 70 1 0 40 = some 11 ∧
    findChar ((refBufU exU).getD 0 []) 40 121 false false 1 = some 11 := by decide +kernel
/-- `$`: `lbuf_eol` is the character offset of the newline, 12 on the first line (17 bytes of text) -/
example : eol exU 0 = 12 ∧ eol exU 1 = 0 ∧ eol exU 2 = 3 := by decide +kernel
/-- `%` on `(`, on `é` (the next bracket is `)`), on `)`; `}` and `{` -/
example : Mot.pair exU 2 0 = some (2, 2) ∧ Mot.pair exU 2 1 = some (2, 0) ∧ Mot.pair exU 2 2 = some (2, 0) ∧
    Mot.pair exU 0 0 = none ∧ paragraphbeg exU 1 0 = (1, 0) ∧ paragraphbeg exU (-1) 2 = (1, 0) := by
  decide +kernel

/-- the theorems instantiated: `w` from `n` lands on `中`, `b` from `x` on `中`, `e` from `x` on `y` -/
example : ∃ fl r' o', wordbeg exU false 1 0 0 = (fl, r', o') ∧ 0 ≤ r' ∧ 0 ≤ o' ∧
    wordFwdRaw false (refBufU exU) ⟨0, 0⟩ 1 = ⟨r'.toNat, o'.toNat⟩ :=
  wordbeg_wordFwdRaw_utf8 exU exU_utf8 false 0 0 0 (by decide +kernel)
example : wordFwdRaw false (refBufU exU) ⟨0, 0⟩ 1 = ⟨0, 6⟩ ∧ wordBackRaw false (refBufU exU) ⟨0, 9⟩ 1 = ⟨0, 6⟩ ∧
    wordEndFwdRaw false (refBufU exU) ⟨0, 9⟩ 1 = ⟨0, 11⟩ := by decide +kernel
example : ∃ fl r' o', wordend exU false (-1) 0 9 = (fl, r', o') ∧ 0 ≤ r' ∧ 0 ≤ o' ∧
    wordBackRaw false (refBufU exU) ⟨0, 9⟩ 1 = ⟨r'.toNat, o'.toNat⟩ :=
  wordend_wordBackRaw_utf8 exU exU_utf8 false 0 9 9 (by decide +kernel)
example : (findchar exU (enc 0x4e2d) 102 1 (0 : Nat) 0).map Int.toNat =
    findChar ((refBufU exU).getD 0 []) 0 0x4e2d true false 1 :=
  (findchar_spec_utf8_buf exU exU_utf8 0 (by decide) 0x4e2d (by decide) (by decide) 102 (Or.inl rfl) 1 (by decide) 0
    (by decide) (by decide +kernel)).1
example : findChar ((refBufU exU).getD 0 []) 0 0x4e2d true false 1 = some 6 := by decide +kernel
example : Mot.pair exU 2 1 = (pairOf (refBufU exU) ⟨2, 1⟩).map (fun p => ((p.row : Int), (p.col : Int))) :=
  pair_spec_utf8 exU exU_utf8 2 1 15 (by decide +kernel)
example : pairOf (refBufU exU) ⟨2, 1⟩ = some ⟨2, 0⟩ := by decide +kernel

end Neatvi.Props.C07c
