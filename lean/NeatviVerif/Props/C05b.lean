import NeatviVerif.Lemmas.C05bVi
import NeatviVerif.Lemmas.C05bEx
import NeatviVerif.Lemmas.C05bRegion
/-!
# C05b: the numbers a user can type stay inside `int`

The model computes in unbounded `Int`, the C code in 32-bit `int`.  At three places a number typed by the
user used to reach `int` arithmetic unchecked; the C code now saturates there and the model mirrors it:

* `vi_prefix()` stops accumulating digits at `n ≥ 100000000` (`viPrefix`);
* `vi_cnt()` forms the product of the two counts in `long long` and saturates at 999999999 (`cntOf`);
  `^F` / `^B` scroll by `min (max 1 a1) len * (rows - 1)` lines;
* `ex_num(s, max)` is `strtoll` saturated at `±max`; `ex_atoi()` is `ex_num(·, NUMMAX)`, `NUMMAX = 2^29`;
  `ex_lineno()` saturates every number of an address at `±TERMMAX = ±2^40`, adds them in `long long` without
  clamping in between, and saturates the result at `±NUMMAX`: the arithmetic is exact for numbers below
  `2^40` (`2+4294967298-4294967298` is line 2) and the result cannot leave `int`.

The theorems below say that these bounds do what they are for: every integer the C code computes at
these places is a value of `int` (`|x| < 2^31`; for the product of `vi_cnt()` and the sum of `ex_lineno()`,
of `long long`).

`FitsInt x` is `-2^31 ≤ x ≤ 2^31 - 1`, `FitsLL x` is `-2^63 ≤ x ≤ 2^63 - 1`.  `viPrefixChk`, `digitsChk`,
`offsChk` (`exLinenoChk`) are the loops of the model with an explicit failure wherever an operation of the
C code would leave `int` (`long long` for `offsChk`); they are proved equal to the loops of the model,
which is the precise form of "no operation overflows, whatever is typed".
Byte strings are lists of character codes: `[52, 50]` = `"42"`.
-/
namespace Neatvi.Props.C05b
open Neatvi Neatvi.Vi Neatvi.Ex Neatvi.Lbuf
open Neatvi.Lemmas.C05b
open Neatvi.Lemmas.C06 (AddrOnly)

/-! ## B1. the count prefix of a vi command -/

/-- the invariant of the digit loop: an accumulator in `[0, 999999999]` stays there -/
theorem viPrefix_digits_bounded (f : Nat) (n c : Int) (s s' : VS) (m : Int) (h0 : 0 ≤ n) (h1 : n ≤ 999999999)
    (h : viPrefix.digits f n c s = Res.ok m s') : 0 ≤ m ∧ m ≤ 999999999 :=
  digits_bounded f n c s s' m h0 h1 h

/-- the one computation of the loop, `n * 10 + c - '0'`, happens for `n < 100000000` and a digit `c` only;
    then the product, the C intermediate `n * 10 + c` and the result are below `2^31` and the result has at
    most nine digits -/
theorem viPrefix_step_fits (n c : Int) (h0 : 0 ≤ n) (hn : n < 100000000) (hc0 : 48 ≤ c) (hc1 : c ≤ 57) :
    0 ≤ n * 10 ∧ n * 10 < 2 ^ 31 ∧ 0 ≤ n * 10 + c ∧ n * 10 + c < 2 ^ 31 ∧
    0 ≤ n * 10 + (c - 48) ∧ n * 10 + (c - 48) < 2 ^ 31 ∧ n * 10 + (c - 48) ≤ 999999999 := by
  rw [two_pow_31]
  omega

/-- `vi_prefix()` returns a count of at most nine digits, for every state and every typed key sequence -/
theorem viPrefix_bounded (s s' : VS) (n : Int) (h : viPrefix s = Res.ok n s') : 0 ≤ n ∧ n ≤ 999999999 :=
  Lemmas.C05b.viPrefix_bounded s s' n h

/-- `vi_prefix()` with the range of `int` checked at every arithmetic operation (trap on a violation) is
    `vi_prefix()`: no check ever fires -/
theorem viPrefix_no_overflow : viPrefixChk = viPrefix := viPrefixChk_eq

/-! ## B2. `vi_cnt()` -/

/-- with both counts as `vi_prefix()` delivers them, `vi_cnt()` is in `[1, 999999999]` and the product it
    forms is a `long long` -/
theorem cntOf_bounded (s : VS) (h10 : 0 ≤ s.arg1) (h11 : s.arg1 ≤ 999999999) (h20 : 0 ≤ s.arg2)
    (h21 : s.arg2 ≤ 999999999) :
    1 ≤ cntOf s ∧ cntOf s ≤ 999999999 ∧
    1 ≤ (if s.arg1 != 0 then s.arg1 else 1) * (if s.arg2 != 0 then s.arg2 else 1) ∧
    (if s.arg1 != 0 then s.arg1 else 1) * (if s.arg2 != 0 then s.arg2 else 1) < 2 ^ 63 := by
  obtain ⟨a0, a1⟩ := factor_bounded s.arg1 h10 h11
  obtain ⟨b0, b1⟩ := factor_bounded s.arg2 h20 h21
  obtain ⟨p0, p1⟩ := prod_bounded _ _ a0 a1 b0 b1
  rw [two_pow_63]
  unfold cntOf
  refine ⟨by omega, by omega, p0, by omega⟩

/-- below the limit `vi_cnt()` is the product of the counts: nothing changes for ordinary counts -/
theorem cntOf_small (s : VS)
    (h : (if s.arg1 != 0 then s.arg1 else 1) * (if s.arg2 != 0 then s.arg2 else 1) ≤ 999999999) :
    cntOf s = (if s.arg1 != 0 then s.arg1 else 1) * (if s.arg2 != 0 then s.arg2 else 1) := by
  unfold cntOf; omega

/-- the hypothesis of `cntOf_bounded` is kept at the three places the model (as `vi.c`) assigns a count:
    `vi_arg1 = vi_prefix()` (`viPre`), `vi_arg2 = vi_prefix()` (`vcMotion`) and `vi_arg2 = 0` (`viPre`).
    `CountsFit s` is `0 ≤ s.arg1 ≤ 999999999 ∧ 0 ≤ s.arg2 ≤ 999999999`; it holds of the initial state
    (both counts 0). -/
theorem countsFit_assign (s s1 : VS) (a : Int) (hs : CountsFit s) (h : viPrefix s = Res.ok a s1) :
    CountsFit { s1 with arg1 := a } ∧ CountsFit { s1 with arg2 := a } ∧ CountsFit { s with arg2 := 0 } := by
  obtain ⟨a0, a1⟩ := Lemmas.C05b.viPrefix_bounded s s1 a h
  obtain ⟨e1, e2⟩ := viPrefix_args s s1 a h
  obtain ⟨h1, h2, h3, h4⟩ := hs
  refine ⟨⟨a0, a1, ?_, ?_⟩, ⟨?_, ?_, a0, a1⟩, ⟨h1, h2, Int.le_refl 0, (by decide : (0 : Int) ≤ 999999999)⟩⟩
  · show 0 ≤ s1.arg2; omega
  · show s1.arg2 ≤ 999999999; omega
  · show 0 ≤ s1.arg1; omega
  · show s1.arg1 ≤ 999999999; omega

theorem cntOf_bounded_of_fit (s : VS) (h : CountsFit s) : 1 ≤ cntOf s ∧ cntOf s ≤ 999999999 :=
  let ⟨a, b, _, _⟩ := cntOf_bounded s h.1 h.2.1 h.2.2.1 h.2.2.2
  ⟨a, b⟩

/-! ## B3. the page count of `^F` / `^B` -/

/-- under the standing assumption that `len * rows` fits in `int` the number of lines `^F` / `^B` scroll by
    cannot overflow, whatever count was typed -/
theorem page_scroll_bounded (a1 len rows : Int) (_ha0 : 0 ≤ a1) (_ha1 : a1 ≤ 999999999) (hlen : 0 ≤ len)
    (hrows : 1 ≤ rows) (hfit : len * rows < 2 ^ 31) :
    0 ≤ min (max 1 a1) len * (rows - 1) ∧ min (max 1 a1) len * (rows - 1) < 2 ^ 31 := by
  rw [two_pow_31] at *
  obtain ⟨h1, h2, _, _⟩ := page_bounded a1 len rows hlen hrows hfit
  exact ⟨h1, h2⟩

/-- the same for the expression as it stands in `viCmd` (`lenOf s`, `s.xrows`) -/
theorem page_scroll_bounded_vs (s : VS) (a1 : Int) (hrows : 1 ≤ s.xrows) (hfit : lenOf s * s.xrows < 2 ^ 31) :
    0 ≤ min (max 1 a1) (lenOf s) * (s.xrows - 1) ∧ min (max 1 a1) (lenOf s) * (s.xrows - 1) < 2 ^ 31 := by
  rw [two_pow_31] at *
  have hlen : 0 ≤ lenOf s := by unfold lenOf; omega
  obtain ⟨h1, h2, _, _⟩ := page_bounded a1 (lenOf s) s.xrows hlen hrows hfit
  exact ⟨h1, h2⟩

/-! ## B4. numbers in ex addresses -/

theorem NUMMAX_eq : NUMMAX = 2 ^ 29 := by decide
theorem TERMMAX_eq : TERMMAX = 2 ^ 40 := by decide

/-- `ex_num(s, mx)` is within `±mx`, for every byte string -/
theorem exNum_bounded (s : Bytes) (mx : Int) (h : 0 ≤ mx) : -mx ≤ exNum s mx ∧ exNum s mx ≤ mx :=
  Lemmas.C05b.exNum_bounded s mx h

/-- `ex_atoi` is within `±NUMMAX`, for every byte string -/
theorem exAtoi_bounded (s : Bytes) : -NUMMAX ≤ exAtoi s ∧ exAtoi s ≤ NUMMAX :=
  Lemmas.C05b.exAtoi_bounded s

/-- the offset loop of `ex_lineno` started at `n` on the text `s` (`f` is its fuel): the result `m` differs
    from `n` by at most `TERMMAX` for every offset applied (`offsCount f s` of them), and every offset
    consumes at least one byte, so `|m - n| ≤ s.length * TERMMAX` -/
theorem exLineno_offs_bounded (f : Nat) (n : Int) (s : Bytes) :
    n - offsCount f s * TERMMAX ≤ (exLineno.offs f n s).1 ∧
    (exLineno.offs f n s).1 ≤ n + offsCount f s * TERMMAX ∧
    offsCount f s ≤ s.length ∧
    n - s.length * TERMMAX ≤ (exLineno.offs f n s).1 ∧ (exLineno.offs f n s).1 ≤ n + s.length * TERMMAX :=
  ⟨(offs_bounded f n s).1, (offs_bounded f n s).2, offsCount_le_length f s,
    (offs_bounded_length f n s).1, (offs_bounded_length f n s).2⟩

/-- an address of at most `EXLEN` (512) bytes and a base within `±(TERMMAX + 1)`: the sum is below `2^63` in
    absolute value — the `long long` of the C code cannot overflow -/
theorem exLineno_sum_fits64 (f : Nat) (n : Int) (s : Bytes) (hs : s.length ≤ Gen.EXLEN)
    (h0 : -TERMMAX - 1 ≤ n) (h1 : n ≤ TERMMAX + 1) :
    -(2 ^ 63) < (exLineno.offs f n s).1 ∧ (exLineno.offs f n s).1 < 2 ^ 63 := by
  rw [two_pow_63]
  exact offs_fits64 f n s hs h0 h1

/-- the offset loop of `ex_lineno` with every addition checked against `long long` is the loop of the model:
    not only the result, every sum on the way is inside.  (Before, the check was against `int` and the sum
    was clamped after every offset.) -/
theorem exLineno_offs_no_overflow (f : Nat) (n : Int) (s : Bytes) (hs : s.length ≤ Gen.EXLEN)
    (h0 : -TERMMAX - 1 ≤ n) (h1 : n ≤ TERMMAX + 1) : offsChk f n s = some (exLineno.offs f n s) :=
  offsChk_eq f n s hs h0 h1

/-- the same for the whole of `ex_lineno` (`exLinenoChk` is `exLineno` with `offsChk` for the loop): with
    what it reads from the state in range (`AddrFits ed`: `-NUMMAX - 1 ≤ xrow ≤ NUMMAX`, `len ≤ NUMMAX`,
    every mark `≤ NUMMAX`) the base is within `[-NUMMAX - 1, TERMMAX - 1]`, what is left of the text is not
    longer than the text, and no addition overflows -/
theorem exLineno_no_overflow (ed : Ed) (loc : Bytes) (hf : AddrFits ed) (hlen : loc.length ≤ Gen.EXLEN) :
    exLinenoChk ed loc = exLineno ed loc :=
  exLinenoChk_eq ed loc hf hlen

/-- `ex_lineno` returns a number within `±NUMMAX` — the failure marker `-2` is one of these — whatever the
    state and the text: the sum is clamped once, at the end.  (`AddrFits ed` is what `exLineno_no_overflow`
    needs; the bound on the result holds without it.) -/
theorem exLineno_bounded (ed ed' : Ed) (loc rest : Bytes) (n : Int)
    (h : exLineno ed loc = some ((n, rest), ed')) : -NUMMAX ≤ n ∧ n ≤ NUMMAX :=
  Lemmas.C05b.exLineno_bounded ed loc n rest ed' h

/-- the natural situation implies `AddrFits`: current row and marks inside a buffer of at most `NUMMAX`
    lines -/
theorem addrFits_of_inside (ed : Ed) (h0 : -1 ≤ ed.xrow) (h1 : ed.xrow ≤ ed.len) (h2 : ed.len ≤ NUMMAX)
    (hm : ∀ lb c p o, ed.lb = some lb → jump lb c = some (p, o) → p ≤ ed.len) : AddrFits ed :=
  ⟨by unfold NUMMAX at *; omega, by omega, h2, fun lb c p o hl hj => Int.le_trans (hm lb c p o hl hj) h2⟩

/-- `AddrFits` is an invariant of address evaluation (`ex_lineno` changes the search keyword only, `;` sets
    the current row to a bounded value), so inside `ex_region` every call of `ex_lineno` is covered by
    `exLineno_no_overflow`; `ex_region` computes `ln + 1`, `end0 - 1`, `*end - 1` from results `ln` in
    `[-1, NUMMAX]`: the `beg` / `end` delivered are within `[-1, NUMMAX + 1]`, values of `int` -/
theorem exRegion_bounded (ed ed' : Ed) (loc : Bytes) (rc : Nat) (b e : Int) (hf : AddrFits ed)
    (h : exRegion ed loc = some ((rc, b, e), ed')) :
    AddrFits ed' ∧ -1 ≤ b ∧ b ≤ NUMMAX ∧ -1 ≤ e ∧ e ≤ NUMMAX + 1 :=
  Lemmas.C05b.exRegion_bounded ed loc rc b e ed' hf h

theorem exLineno_fits (ed ed' : Ed) (loc : Bytes) (r : Int × Bytes) (hf : AddrFits ed)
    (h : exLineno ed loc = some (r, ed')) : AddrFits ed' :=
  Lemmas.C05b.exLineno_fits ed loc r ed' hf h

/-- a search address yields `-1` or a row of the buffer -/
theorem exSearch_bounded (ed ed' : Ed) (loc rest : Bytes) (n : Int)
    (h : exSearch ed loc = some ((n, rest), ed')) : n = -1 ∨ (0 ≤ n ∧ n < ed.len) :=
  Lemmas.C05b.exSearch_bounded ed loc n rest ed' h

/-! ## B5. saturation changes nothing for ordinary addresses and rejects the others -/

/-- inside `±mx`, `ex_num` is `atoi` -/
theorem exNum_small (s : Bytes) (mx : Int) (h0 : -mx ≤ atoi s) (h1 : atoi s ≤ mx) : exNum s mx = atoi s :=
  Lemmas.C05b.exNum_small s mx h0 h1

/-- inside `±NUMMAX`, `ex_atoi` is `atoi` -/
theorem exAtoi_small (s : Bytes) (h0 : -NUMMAX ≤ atoi s) (h1 : atoi s ≤ NUMMAX) : exAtoi s = atoi s :=
  Lemmas.C05b.exAtoi_small s h0 h1

/-- for a string of digits of value at most `NUMMAX`, `ex_atoi` is the decimal value -/
theorem exAtoi_small_digits (s : Bytes) (hd : ∀ d ∈ s, isDigitC d = true) (h : decVal s ≤ NUMMAX) :
    exAtoi s = decVal s := by
  have h1 := atoi_digits s hd
  have h2 := decVal_nonneg s hd
  rw [Lemmas.C05b.exAtoi_small s (by rw [h1]; unfold NUMMAX; omega) (by rw [h1]; exact h), h1]

/-- beyond `NUMMAX`, `ex_atoi` is `NUMMAX`: no wrap-around -/
theorem exAtoi_huge (s : Bytes) (h : atoi s > NUMMAX) : exAtoi s = NUMMAX :=
  Lemmas.C05b.exAtoi_huge s h

theorem exAtoi_huge_neg (s : Bytes) (h : atoi s < -NUMMAX) : exAtoi s = -NUMMAX :=
  Lemmas.C05b.exAtoi_huge_neg s h

/-- address arithmetic is exact.  The address is a number (the digits `c :: r`), offsets `l` (each a sign,
    `true` for `-`, and digits; `offsText l` is their text, `offsSum l` their exact sum) and a rest `t` that
    does not go on with a sign or a digit; every number is at most `TERMMAX = 2^40` (`OffsOk l`).  Then
    `ex_lineno` returns the exact value `number - 1 + offsets`, clamped to `±NUMMAX` once, and leaves `t` -/
theorem exLineno_numeric_offsets (ed : Ed) (c : Nat) (r : Bytes) (l : List (Bool × Bytes)) (t : Bytes)
    (hd : ∀ d ∈ c :: r, isDigitC d = true) (hv : decVal (c :: r) ≤ TERMMAX) (hl : OffsOk l) (ht : NoOffs t) :
    exLineno ed ((c :: r) ++ (offsText l ++ t)) =
      some ((max (-NUMMAX) (min (decVal (c :: r) - 1 + offsSum l) NUMMAX), t), ed) :=
  Lemmas.C05b.exLineno_numeric_offsets ed c r l t hd hv hl ht

/-- hence, when the exact value is a line number (within `±NUMMAX`), `ex_lineno` returns it: no saturation
    is visible, however large the numbers in between are (up to `2^40`) -/
theorem exLineno_exact (ed : Ed) (c : Nat) (r : Bytes) (l : List (Bool × Bytes)) (t : Bytes)
    (hd : ∀ d ∈ c :: r, isDigitC d = true) (hv : decVal (c :: r) ≤ TERMMAX) (hl : OffsOk l) (ht : NoOffs t)
    (h0 : -NUMMAX ≤ decVal (c :: r) - 1 + offsSum l) (h1 : decVal (c :: r) - 1 + offsSum l ≤ NUMMAX) :
    exLineno ed ((c :: r) ++ (offsText l ++ t)) = some ((decVal (c :: r) - 1 + offsSum l, t), ed) :=
  Lemmas.C05b.exLineno_exact ed c r l t hd hv hl ht h0 h1

/-- a purely numeric address `k` with `k - 1 ≥ len` is rejected (`ex_region` returns 1 and leaves the
    state alone), however large `k` is: `beg` is `k - 1` saturated at `NUMMAX`, `end` one more; `len < NUMMAX`
    is the standing assumption on buffer sizes -/
theorem numeric_address_beyond_rejected (ed : Ed) (loc : Bytes) (hne : loc ≠ [])
    (hd : ∀ d ∈ loc, isDigitC d = true) (hlen : ed.len < NUMMAX) (hk : atoi loc - 1 ≥ ed.len) :
    exRegion ed loc = some ((1, min (atoi loc - 1) NUMMAX, min (atoi loc - 1) NUMMAX + 1), ed) :=
  region_numeric_beyond ed loc hne hd hlen hk

/-! ## B6. non-vacuity -/

/-- the keys `99999999999x`: eleven nines give 999999999 -/
example : (match viPrefix { ed := {}, typed := [57, 57, 57, 57, 57, 57, 57, 57, 57, 57, 57, 120] } with
    | Res.ok n s' => n == 999999999 && s'.vibuf == [120]
    | _ => false) = true := by decide +kernel

/-- the keys `12x`: an ordinary count is untouched -/
example : (match viPrefix { ed := {}, typed := [49, 50, 120] } with
    | Res.ok n _ => n == 12
    | _ => false) = true := by decide +kernel

/-- `"4294967297"` (2^32 + 1, which wraps to 1 in `int`) -/
example : exAtoi [52, 50, 57, 52, 57, 54, 55, 50, 57, 55] = 536870912 := by decide +kernel
example : atoi [52, 50, 57, 52, 57, 54, 55, 50, 57, 55] = 4294967297 := by decide +kernel
example : exAtoi [52, 50] = 42 := by decide +kernel

example : cntOf { ed := {}, arg1 := 99999, arg2 := 99999 } = 999999999 := by decide +kernel
example : cntOf { ed := {}, arg1 := 3, arg2 := 0 } = 3 := by decide +kernel

/-- `:4294967297` on an empty editor state is rejected; `ex_lineno` gives `NUMMAX` for it -/
example : (exRegion {} [52, 50, 57, 52, 57, 54, 55, 50, 57, 55]).map (·.1) = some (1, 536870912, 536870913) := by
  decide +kernel
example : (exLineno {} [52, 50, 57, 52, 57, 54, 55, 50, 57, 55]).map (·.1) = some (536870912, []) := by
  decide +kernel

/-- the hypothesis of `exLineno_no_overflow` and `exRegion_bounded` holds of the initial editor state -/
example : AddrFits {} :=
  addrFits_of_inside {} (by decide +kernel) (by decide +kernel) (by decide +kernel)
    (fun lb c p o hl _ => by
      have : ({} : Ed).lb = none := by decide +kernel
      rw [this] at hl; cases hl)

/-- `1+4294967296` and `$-99999999999` saturate (the result does; the numbers are below `2^40`) -/
example : (exLineno {} [49, 43, 52, 50, 57, 52, 57, 54, 55, 50, 57, 54]).map (·.1) = some (536870912, []) := by
  decide +kernel
example : (exLineno {} [36, 45, 57, 57, 57, 57, 57, 57, 57, 57, 57, 57, 57]).map (·.1) = some (-536870912, []) := by
  decide +kernel

/-- `2+4294967298-4294967298` is line 2 (row 1): the arithmetic is exact.  By evaluation … -/
example : (exLineno {} [50, 43, 52, 50, 57, 52, 57, 54, 55, 50, 57, 56, 45, 52, 50, 57, 52, 57, 54, 55, 50, 57, 56]).map
    (·.1) = some (1, []) := by
  decide +kernel

/-- … and as an instance of `exLineno_exact`, in any state -/
example (ed : Ed) :
    exLineno ed [50, 43, 52, 50, 57, 52, 57, 54, 55, 50, 57, 56, 45, 52, 50, 57, 52, 57, 54, 55, 50, 57, 56] =
      some ((1, []), ed) :=
  exLineno_exact ed 50 [] [(false, [52, 50, 57, 52, 57, 54, 55, 50, 57, 56]), (true, [52, 50, 57, 52, 57, 54, 55, 50, 57, 56])]
    [] (by decide) (by decide +kernel) (by decide +kernel) noOffs_nil (by decide +kernel) (by decide +kernel)

/-- a number beyond `2^40` is saturated before it is added: `1+2199023255552-1099511627776-1099511627776`
    (`1 + 2^41 - 2^40 - 2^40`, exactly line 1) is computed as `1 + 2^40 - 2^40 - 2^40` and saturates to
    `-NUMMAX`: out of range, rejected.  Beyond `2^40` the arithmetic is saturating, not exact (and not
    wrapping): `1+2199023255552-1099511627776` (exactly `2^40 + 1`, out of range) is row 0 -/
example : (exLineno {} [49, 43, 50, 49, 57, 57, 48, 50, 51, 50, 53, 53, 53, 53, 50, 45, 49, 48, 57, 57, 53, 49, 49, 54,
    50, 55, 55, 55, 54, 45, 49, 48, 57, 57, 53, 49, 49, 54, 50, 55, 55, 55, 54]).map (·.1) = some (-536870912, []) := by
  decide +kernel

example : (exLineno {} [49, 43, 50, 49, 57, 57, 48, 50, 51, 50, 53, 53, 53, 53, 50, 45, 49, 48, 57, 57, 53, 49, 49, 54,
    50, 55, 55, 55, 54]).map (·.1) = some (0, []) := by
  decide +kernel

/-- the checked loop on the text `+4294967298-4294967298` -/
example : offsChk 100 1 [43, 52, 50, 57, 52, 57, 54, 55, 50, 57, 56, 45, 52, 50, 57, 52, 57, 54, 55, 50, 57, 56] =
    some (1, []) := by
  decide +kernel

end Neatvi.Props.C05b
