import NeatviVerif.Lemmas.C06Ex
/-!
# C06: ex line commands follow the reference line-editor semantics

Everything is stated on the model (`Model/Lbuf.lean`, `Model/Ex.lean`, `Model/ExCmd.lean`), for all
states and inputs.

* `region_valid`, `region_invalid_pure`: address evaluation (`ex_region`) never touches the text, and a
  successful evaluation yields a range inside the buffer;
* `edit_frame`: the primitive `lbuf_edit` replaces the addressed range and nothing else;
* `ec_*_spec`: per command, the frame law, the register / output / current-line effect, and
  "return 1 ⇒ text unchanged" (`invalid_region_unchanged`, `invalid_region_rejected`);
* `mark_stable`, `mark_in_deleted_range`: a mark keeps designating the same line while lines are added or
  removed elsewhere.

`lines ed` is the text of the current buffer, `optLines s` the lines of an optional C string
(`none` = `NULL` = no lines), `AddrOnly ed ed'` says that `ed'` is `ed` up to `xrow`, `xkwd`, `xkwddir`.
Command names are given as byte lists: `[97]` = `"a"`, `[105]` = `"i"`, `[99]` = `"c"`, `[48]` = `"0"`,
`[37]` = `"%"`.
-/
set_option linter.unusedSimpArgs false

namespace Neatvi.Props.C06
open Neatvi Neatvi.Lbuf Neatvi.Ex Neatvi.Lemmas.C06
open Neatvi.Lemmas.Hist (optLines)

/-! ## 1. address evaluation -/

/-- A successful `ex_region` leaves everything but `xrow` / the search keyword alone (in particular the
    buffer table, hence the text) and returns `0 ≤ beg ≤ end ≤ len`.  For an explicit address other than
    `%` the model even gives `beg < len` (address 0 yields `beg = end = 0` and still needs a non-empty
    buffer to return 0; on an empty buffer it returns 1 with `beg = end = 0`, see `region_addr0_empty`),
    which is stronger than the required `beg < len ∨ (beg = 0 ∧ end = 0)`. -/
theorem region_valid (ed ed' : Ed) (loc : Bytes) (b e : Int)
    (h : exRegion ed loc = some ((0, b, e), ed')) :
    0 ≤ b ∧ b ≤ e ∧ e ≤ ed'.len ∧
    ed'.bufs = ed.bufs ∧ ed'.lb = ed.lb ∧ lines ed' = lines ed ∧ ed'.len = ed.len ∧ AddrOnly ed ed' ∧
    (loc ≠ [] → loc ≠ [37] → b < ed'.len) := by
  obtain ⟨ha, _, hv, _⟩ := region_all ed loc 0 b e ed' h
  obtain ⟨h1, h2, h3, h4⟩ := hv rfl
  exact ⟨h1, h2, h3, ha.bufs, ha.lb, ha.lines, ha.len, ha, h4⟩

/-- the literal form of the requirement -/
theorem region_valid_disj (ed ed' : Ed) (loc : Bytes) (b e : Int)
    (h : exRegion ed loc = some ((0, b, e), ed')) (h1 : loc ≠ []) (h2 : loc ≠ [37]) :
    b < ed'.len ∨ (b = 0 ∧ e = 0) :=
  Or.inl ((region_valid ed ed' loc b e h).2.2.2.2.2.2.2.2 h1 h2)

/-- a failing `ex_region` is pure as well -/
theorem region_invalid_pure (ed ed' : Ed) (loc : Bytes) (b e : Int)
    (h : exRegion ed loc = some ((1, b, e), ed')) :
    ed'.bufs = ed.bufs ∧ lines ed' = lines ed ∧ AddrOnly ed ed' := by
  obtain ⟨ha, _, _, _⟩ := region_all ed loc 1 b e ed' h
  exact ⟨ha.bufs, ha.lines, ha⟩

/-- `ex_region` returns 0 or 1 -/
theorem region_rc (ed ed' : Ed) (loc : Bytes) (rc : Nat) (b e : Int)
    (h : exRegion ed loc = some ((rc, b, e), ed')) : rc = 0 ∨ rc = 1 :=
  (region_all ed loc rc b e ed' h).2.1

/-- a failure that still reports `beg = end = 0` (what `ec_insert` lets through) means the buffer is empty -/
theorem region_addr0_empty (ed ed' : Ed) (loc : Bytes) (h : exRegion ed loc = some ((1, 0, 0), ed')) :
    ed.len = 0 := by
  have ha := (region_all ed loc 1 0 0 ed' h).1
  rw [← ha.len]
  exact region_fail00 ed loc ed' h

/-! ## 2. the frame law of the primitive -/

/-- the new lines: none for `NULL`, else the text split at newlines -/
theorem optLines_def (s : Option Bytes) :
    optLines s = match s with | none => [] | some x => splitLines x := rfl

/-- `lbuf_edit(xb, s, b, e)` with `0 ≤ b ≤ e ≤ len`: only the addressed range is replaced, every other
    line keeps its bytes and order -/
theorem edit_frame (ed ed' : Ed) (s : Option Bytes) (b e : Int) (hb : 0 ≤ b) (hbe : b ≤ e) (he : e ≤ ed.len)
    (h : ed.edit s b e = some ed') :
    lines ed' = (lines ed).take b.toNat ++ optLines s ++ (lines ed).drop e.toNat ∧
    ed'.len = ed.len - (e - b) + ((optLines s).length : Int) :=
  ed_edit_frame ed ed' s b e hb hbe he h

/-- and nothing outside the buffer table changes -/
theorem edit_frame_fields (ed ed' : Ed) (s : Option Bytes) (b e : Int) (h : ed.edit s b e = some ed') :
    ed' = { ed with bufs := ed'.bufs } := edit_fields ed ed' s b e h

/-! ## 3. the commands -/

theorem cp_eq (ed : Ed) (b e : Int) :
    ed.cp b e = (((lines ed).drop b.toNat).take (e.toNat - b.toNat)).flatten := by
  unfold Ed.cp lines Lbuf.cp
  cases ed.lb <;> simp

/-- `:d`: on success the addressed lines are removed, the current line is `beg`, the register named by
    the argument received the removed lines; on failure nothing changes -/
theorem ec_delete_spec (f : Nat) (ed ed' : Ed) (loc cmd arg : Bytes) (txt : Option Bytes) (rc : Int)
    (h : runCmd (f + 1) ed "ec_delete" loc cmd arg txt = some (rc, ed')) :
    (rc = 0 ∨ rc = 1) ∧
    (rc = 0 → ∃ b e ed1, exRegion ed loc = some ((0, b, e), ed1) ∧ 0 ≤ b ∧ b ≤ e ∧ e ≤ ed.len ∧
      lines ed' = (lines ed).take b.toNat ++ (lines ed).drop e.toNat ∧ ed'.xrow = b ∧
      ed'.regs = ed.regs.put (regName arg) (((lines ed).drop b.toNat).take (e.toNat - b.toNat)).flatten 1) ∧
    (rc = 1 → lines ed' = lines ed ∧ ed'.regs = ed.regs ∧ AddrOnly ed ed') := by
  rw [runCmd] at h
  simp only [String.reduceBEq, Bool.false_eq_true, ↓reduceIte, Bool.or_false, Bool.or_self] at h
  split at h
  · cases h
  · rename_i rc0 b e ed1 hreg
    obtain ⟨ha, hrc, hv, _⟩ := region_all _ _ _ _ _ _ hreg
    split at h
    · cases h
      exact ⟨Or.inr rfl, fun h => by omega, fun _ => ⟨ha.lines, ha.regs, ha⟩⟩
    · rename_i hc
      simp only [Bool.or_eq_true, bne_iff_ne, ne_eq, beq_iff_eq, not_or, Decidable.not_not] at hc
      obtain ⟨hc1, hc2⟩ := hc
      subst hc1
      obtain ⟨v1, v2, v3, _⟩ := hv rfl
      split at h
      · cases h
      · rename_i ed2 hed
        cases h
        have hfr := ed_edit_frame _ _ _ _ _ v1 v2 (by exact v3) hed
        have hfl := edit_fields _ _ _ _ _ hed
        refine ⟨Or.inl rfl, fun _ => ⟨b, e, ed1, hreg, v1, v2, by rw [← ha.len]; exact v3, ?_, rfl, ?_⟩, fun h => by omega⟩
        · have h1 := hfr.1
          simp only [optLines, List.append_nil] at h1
          rw [← ha.lines]
          exact h1
        · have h2 := congrArg Ed.regs hfl
          simp only [] at h2
          rw [← ha.regs, ← ha.lines, ← cp_eq]
          exact h2

/-- `:y`: the text never changes; on success the register received the addressed lines -/
theorem ec_yank_spec (f : Nat) (ed ed' : Ed) (loc cmd arg : Bytes) (txt : Option Bytes) (rc : Int)
    (h : runCmd (f + 1) ed "ec_yank" loc cmd arg txt = some (rc, ed')) :
    (rc = 0 ∨ rc = 1) ∧ lines ed' = lines ed ∧
    (rc = 0 → ∃ b e ed1, exRegion ed loc = some ((0, b, e), ed1) ∧ 0 ≤ b ∧ b ≤ e ∧ e ≤ ed.len ∧
      ed'.regs = ed.regs.put (regName arg) (((lines ed).drop b.toNat).take (e.toNat - b.toNat)).flatten 1) ∧
    (rc = 1 → ed'.regs = ed.regs ∧ AddrOnly ed ed') := by
  rw [runCmd] at h
  simp only [String.reduceBEq, Bool.false_eq_true, ↓reduceIte, Bool.or_true] at h
  split at h
  · cases h
  · rename_i rc0 b e ed1 hreg
    obtain ⟨ha, hrc, hv, _⟩ := region_all _ _ _ _ _ _ hreg
    split at h
    · cases h
      exact ⟨Or.inr rfl, ha.lines, fun h => by omega, fun _ => ⟨ha.regs, ha⟩⟩
    · rename_i hc
      simp only [Bool.or_eq_true, bne_iff_ne, ne_eq, beq_iff_eq, not_or, Decidable.not_not] at hc
      obtain ⟨hc1, hc2⟩ := hc
      subst hc1
      obtain ⟨v1, v2, v3, _⟩ := hv rfl
      cases h
      refine ⟨Or.inl rfl, ha.lines, fun _ => ⟨b, e, ed1, hreg, v1, v2, by rw [← ha.len]; exact v3, ?_⟩, fun h => by omega⟩
      show ed1.regs.put (regName arg) (ed1.cp b e) 1 = _
      rw [ha.regs, cp_eq, ha.lines]

/-- `:a`, `:i`, `:c` (any command dispatched to `ec_insert`; the first byte of the command name selects the
    variant): on success the text goes to `p..q` where `(p, q) = (end, end)` for `a`, `(beg, beg)` for `i`,
    `(beg, end)` for `c`; `ec_insert` proceeds when `ex_region` succeeded or reported `beg = end = 0`
    (address 0 on an empty buffer).  The current line becomes the last new line.
    If 1 is returned nothing but the address side effects happened. -/
theorem ec_insert_spec (f : Nat) (ed ed' : Ed) (loc cmd arg : Bytes) (txt : Option Bytes) (rc : Int)
    (h : runCmd (f + 1) ed "ec_insert" loc cmd arg txt = some (rc, ed')) :
    (rc = 0 ∨ rc = 1) ∧
    (rc = 0 → ∃ r b e ed1, exRegion ed loc = some ((r, b, e), ed1) ∧ (r = 0 ∨ (b = 0 ∧ e = 0)) ∧
      0 ≤ b ∧ b ≤ e ∧ e ≤ ed.len ∧
      ∀ p q, p = (if cmd.headD 0 = 97 then e else b) → q = (if cmd.headD 0 = 99 then e else p) →
        lines ed' = (lines ed).take p.toNat ++ optLines txt ++ (lines ed).drop q.toNat ∧
        ed'.len = ed.len - (q - p) + (optLines txt).length ∧
        ed'.xrow = min (ed'.len - 1) (p + (optLines txt).length - 1)) ∧
    (rc = 1 → lines ed' = lines ed ∧ AddrOnly ed ed') := by
  rw [runCmd] at h
  simp only [String.reduceBEq, ↓reduceIte] at h
  split at h
  · cases h
  · rename_i rc0 b e ed1 hreg
    obtain ⟨ha, hrc, hv, _⟩ := region_all _ _ _ _ _ _ hreg
    split at h
    · cases h
      exact ⟨Or.inr rfl, fun h => by omega, fun _ => ⟨ha.lines, ha⟩⟩
    · rename_i hc
      have hl1 := len_nonneg ed1
      have hbnd : (rc0 = 0 ∨ (b = 0 ∧ e = 0)) ∧ 0 ≤ b ∧ b ≤ e ∧ e ≤ ed1.len := by
        by_cases h0 : rc0 = 0
        · obtain ⟨v1, v2, v3, _⟩ := hv h0
          exact ⟨Or.inl h0, v1, v2, v3⟩
        · simp only [Bool.and_eq_true, bne_iff_ne, ne_eq, Bool.or_eq_true, not_and, not_or, Decidable.not_not] at hc
          obtain ⟨hb0, he0⟩ := hc h0
          exact ⟨Or.inr ⟨hb0, he0⟩, by omega, by omega, by omega⟩
      obtain ⟨hor, v1, v2, v3⟩ := hbnd
      split at h
      · cases h
      · rename_i ed2 hed
        simp only [Option.some.injEq, Prod.mk.injEq] at h
        obtain ⟨hrc', hed'⟩ := h
        subst hrc'
        have e1 : lines ed' = lines ed2 := by rw [← hed']; rfl
        have e2 : ed'.len = ed2.len := by rw [← hed']; rfl
        have e3 : ed'.xrow = min (ed2.len - 1)
            ((if (cmd.headD 0 != 99) = true then (if (cmd.headD 0 == 97) = true then e else b) else e) + ed2.len - ed1.len - 1) := by
          rw [← hed']
        refine ⟨Or.inl rfl, fun _ => ⟨rc0, b, e, ed1, hreg, hor, v1, v2, by rw [← ha.len]; exact v3, ?_⟩, fun h => by omega⟩
        intro p q hp hq
        have hpq : (if (cmd.headD 0 == 97) = true then e else b) = p ∧
            (if (cmd.headD 0 != 99) = true then (if (cmd.headD 0 == 97) = true then e else b) else e) = q := by
          subst hp; subst hq
          by_cases c1 : cmd.headD 0 = 97
          · have c2 : cmd.headD 0 ≠ 99 := by omega
            simp [c1]
          · by_cases c2 : cmd.headD 0 = 99
            · simp [c2]
            · simp [c1, c2]
        rw [hpq.2] at hed e3
        rw [hpq.1] at hed
        have hp0 : 0 ≤ p ∧ p ≤ q ∧ q ≤ ed1.len := by
          subst hp; subst hq
          by_cases c1 : cmd.headD 0 = 97
          · have c2 : cmd.headD 0 ≠ 99 := by omega
            simp only [c1, c2, if_true, if_false]; omega
          · by_cases c2 : cmd.headD 0 = 99
            · simp only [c1, c2, if_true, if_false]; omega
            · simp only [c1, c2, if_false]; omega
        have hfr := ed_edit_frame _ _ _ _ _ hp0.1 hp0.2.1 hp0.2.2 hed
        rw [ha.lines, ha.len] at hfr
        refine ⟨e1.trans hfr.1, e2.trans hfr.2, ?_⟩
        rw [e3, e2, hfr.2, ha.len]
        congr 1
        omega

/-- `:a` -/
theorem ec_append_spec (f : Nat) (ed ed' : Ed) (loc arg : Bytes) (txt : Option Bytes)
    (h : runCmd (f + 1) ed "ec_insert" loc [97] arg txt = some (0, ed')) :
    ∃ r b e ed1, exRegion ed loc = some ((r, b, e), ed1) ∧ 0 ≤ e ∧ e ≤ ed.len ∧
      lines ed' = (lines ed).take e.toNat ++ optLines txt ++ (lines ed).drop e.toNat ∧
      ed'.xrow = min (ed'.len - 1) (e + (optLines txt).length - 1) := by
  obtain ⟨r, b, e, ed1, h1, _, h3, h4, h5, h6⟩ := (ec_insert_spec f ed ed' loc [97] arg txt 0 h).2.1 rfl
  obtain ⟨k1, _, k3⟩ := h6 e e (by simp) (by simp)
  exact ⟨r, b, e, ed1, h1, by omega, h5, k1, k3⟩

/-- `:i` -/
theorem ec_insert_i_spec (f : Nat) (ed ed' : Ed) (loc arg : Bytes) (txt : Option Bytes)
    (h : runCmd (f + 1) ed "ec_insert" loc [105] arg txt = some (0, ed')) :
    ∃ r b e ed1, exRegion ed loc = some ((r, b, e), ed1) ∧ 0 ≤ b ∧ b ≤ ed.len ∧
      lines ed' = (lines ed).take b.toNat ++ optLines txt ++ (lines ed).drop b.toNat ∧
      ed'.xrow = min (ed'.len - 1) (b + (optLines txt).length - 1) := by
  obtain ⟨r, b, e, ed1, h1, _, h3, h4, h5, h6⟩ := (ec_insert_spec f ed ed' loc [105] arg txt 0 h).2.1 rfl
  obtain ⟨k1, _, k3⟩ := h6 b b (by simp) (by simp)
  exact ⟨r, b, e, ed1, h1, h3, by omega, k1, k3⟩

/-- `:c` -/
theorem ec_change_spec (f : Nat) (ed ed' : Ed) (loc arg : Bytes) (txt : Option Bytes)
    (h : runCmd (f + 1) ed "ec_insert" loc [99] arg txt = some (0, ed')) :
    ∃ r b e ed1, exRegion ed loc = some ((r, b, e), ed1) ∧ 0 ≤ b ∧ b ≤ e ∧ e ≤ ed.len ∧
      lines ed' = (lines ed).take b.toNat ++ optLines txt ++ (lines ed).drop e.toNat ∧
      ed'.xrow = min (ed'.len - 1) (b + (optLines txt).length - 1) := by
  obtain ⟨r, b, e, ed1, h1, _, h3, h4, h5, h6⟩ := (ec_insert_spec f ed ed' loc [99] arg txt 0 h).2.1 rfl
  obtain ⟨k1, _, k3⟩ := h6 b e (by simp) (by simp)
  exact ⟨r, b, e, ed1, h1, h3, h4, h5, k1, k3⟩

/-- the address `0` evaluates to `beg = end = 0`; it is accepted (return 0) iff the buffer is non-empty -/
theorem region_zero (ed : Ed) : exRegion ed [48] = some ((if ed.len ≤ 0 then 1 else 0, 0, 0), ed) := by
  have hl := len_nonneg ed
  have hm : max (-1099511627776 : Int) (min 0 1099511627776) = 0 := by decide
  have hm2 : max (-536870912 : Int) (min (-1) 536870912) = -1 := by decide
  unfold exRegion
  simp [exRegion.go, exLineno, exLineno.offs, atoi, exNum, TERMMAX, NUMMAX, isDigitC, isSpaceC, hm, hm2]
  by_cases h : ed.len ≤ 0
  · simp [h]
  · have : ¬ (0 ≥ ed.len) := by omega
    simp [h]
    omega

/-- `0a`: address 0 counts as "before the first line": with a current buffer the command succeeds and the
    text lands at the very top, everything else following in order -/
theorem addr0_is_before_first (f : Nat) (ed : Ed) (lb : Lb) (arg : Bytes) (txt : Option Bytes)
    (hlb : ed.lb = some lb) :
    ∃ ed', runCmd (f + 1) ed "ec_insert" [48] [97] arg txt = some (0, ed') ∧
      lines ed' = optLines txt ++ lines ed ∧
      ed'.xrow = min (ed'.len - 1) (((optLines txt).length : Int) - 1) := by
  obtain ⟨ed2, hed⟩ := ed_edit_total ed lb txt 0 0 hlb (by omega) (by omega)
  have hrun : runCmd (f + 1) ed "ec_insert" [48] [97] arg txt =
      some (0, { ed2 with xrow := min (ed2.len - 1) (0 + ed2.len - ed.len - 1) }) := by
    rw [runCmd]
    simp only [String.reduceBEq, ↓reduceIte, region_zero]
    simp [hed]
  refine ⟨_, hrun, ?_⟩
  obtain ⟨r, b, e, ed1, h1, _, _, _, _, h6⟩ := (ec_insert_spec f ed _ [48] [97] arg txt 0 hrun).2.1 rfl
  rw [region_zero] at h1
  simp only [Option.some.injEq, Prod.mk.injEq] at h1
  obtain ⟨⟨_, hb, he⟩, _⟩ := h1
  subst hb; subst he
  obtain ⟨k1, _, k3⟩ := h6 0 0 (by simp) (by simp)
  refine ⟨by simpa using k1, ?_⟩
  rw [k3]; simp

/-- `:pu`: on success the register text goes after line `end - 1`; an unset register or an invalid
    address give 1 with the text unchanged -/
theorem ec_put_spec (f : Nat) (ed ed' : Ed) (loc cmd arg : Bytes) (txt : Option Bytes) (rc : Int)
    (h : runCmd (f + 1) ed "ec_put" loc cmd arg txt = some (rc, ed')) :
    (rc = 0 ∨ rc = 1) ∧
    (rc = 0 → ∃ buf r b e ed1, regGet ed (regName arg) = some buf ∧ exRegion ed loc = some ((r, b, e), ed1) ∧
      (r = 0 ∨ (b = 0 ∧ e = 0)) ∧ 0 ≤ e ∧ e ≤ ed.len ∧
      lines ed' = (lines ed).take e.toNat ++ splitLines buf ++ (lines ed).drop e.toNat ∧
      ed'.xrow = min (ed'.len - 1) (e + (splitLines buf).length - 1)) ∧
    (rc = 1 → lines ed' = lines ed ∧ AddrOnly ed ed') ∧
    (regGet ed (regName arg) = none → rc = 1 ∧ ed' = ed) := by
  rw [runCmd] at h
  simp only [String.reduceBEq, Bool.false_eq_true, ↓reduceIte, Bool.or_false, Bool.or_self] at h
  split at h
  · rename_i hg
    cases h
    exact ⟨Or.inr rfl, fun h => by omega, fun _ => ⟨rfl, AddrOnly.refl _⟩, fun _ => ⟨rfl, rfl⟩⟩
  · rename_i buf hg
    split at h
    · cases h
    · rename_i rc0 b e ed1 hreg
      obtain ⟨ha, hrc, hv, _⟩ := region_all _ _ _ _ _ _ hreg
      split at h
      · cases h
        exact ⟨Or.inr rfl, fun h => by omega, fun _ => ⟨ha.lines, ha⟩, fun hn => by rw [hn] at hg; cases hg⟩
      · rename_i hc
        have hl1 := len_nonneg ed1
        have hbnd : (rc0 = 0 ∨ (b = 0 ∧ e = 0)) ∧ 0 ≤ e ∧ e ≤ ed1.len := by
          by_cases h0 : rc0 = 0
          · obtain ⟨v1, v2, v3, _⟩ := hv h0
            exact ⟨Or.inl h0, by omega, v3⟩
          · simp only [Bool.and_eq_true, bne_iff_ne, ne_eq, Bool.or_eq_true, not_and, not_or, Decidable.not_not] at hc
            obtain ⟨hb0, he0⟩ := hc h0
            exact ⟨Or.inr ⟨hb0, he0⟩, by omega, by omega⟩
        obtain ⟨hor, v1, v3⟩ := hbnd
        split at h
        · cases h
        · rename_i ed2 hed
          simp only [Option.some.injEq, Prod.mk.injEq] at h
          obtain ⟨hrc', hed'⟩ := h
          subst hrc'
          have e1 : lines ed' = lines ed2 := by rw [← hed']; rfl
          have e2 : ed'.len = ed2.len := by rw [← hed']; rfl
          have e3 : ed'.xrow = min (ed2.len - 1) (e + ed2.len - ed1.len - 1) := by rw [← hed']
          have hfr := ed_edit_frame _ _ _ _ _ (by omega) (Int.le_refl e) v3 hed
          rw [ha.lines, ha.len] at hfr
          refine ⟨Or.inl rfl, fun _ => ⟨buf, rc0, b, e, ed1, hg, hreg, hor, by omega, by rw [← ha.len]; exact v3, e1.trans hfr.1, ?_⟩,
            fun h => by omega, fun hn => by rw [hn] at hg; cases hg⟩
          rw [e3, e2, hfr.2, ha.len]
          simp only [optLines]
          congr 1
          omega

/-- `:p`: the text never changes; on success the output grows by exactly the lines `beg..end` in order
    (each through `ex_print`, which adds a newline to a line lacking one) and the current line is the last
    printed one -/
theorem ec_print_spec (f : Nat) (ed ed' : Ed) (loc cmd arg : Bytes) (txt : Option Bytes) (rc : Int)
    (h : runCmd (f + 1) ed "ec_print" loc cmd arg txt = some (rc, ed')) :
    (rc = 0 ∨ rc = 1) ∧ lines ed' = lines ed ∧
    (rc = 0 → ∃ b e ed1, exRegion ed loc = some ((0, b, e), ed1) ∧ 0 ≤ b ∧ b ≤ e ∧ e ≤ ed.len ∧
      ed'.out = ed.out ++ (((lines ed).drop b.toNat).take (e.toNat - b.toNat)).flatMap printed ∧
      ed'.xrow = max b (e - 1)) ∧
    (rc = 1 → ed'.out = ed.out ∧ AddrOnly ed ed') := by
  rw [runCmd] at h
  simp only [String.reduceBEq, Bool.false_eq_true, ↓reduceIte, Bool.or_false, Bool.or_self] at h
  split at h
  · cases h
    exact ⟨Or.inr rfl, rfl, fun h => by omega, fun _ => ⟨rfl, AddrOnly.refl _⟩⟩
  · split at h
    · cases h
    · rename_i rc0 b e ed1 hreg
      obtain ⟨ha, hrc, hv, _⟩ := region_all _ _ _ _ _ _ hreg
      split at h
      · cases h
        exact ⟨Or.inr rfl, ha.lines, fun h => by omega, fun _ => ⟨ha.out, ha⟩⟩
      · rename_i hc
        simp only [bne_iff_ne, ne_eq, Decidable.not_not] at hc
        subst hc
        obtain ⟨v1, v2, v3, _⟩ := hv rfl
        obtain ⟨bn, rfl⟩ : ∃ bn : Nat, b = (bn : Int) := ⟨b.toNat, by omega⟩
        have hloop := print_loop ed1 bn (e - (bn : Int)).toNat (by have := len_eq ed1; omega)
        generalize hfold : List.foldl _ ed1 (List.range (e - (bn : Int)).toNat) = edF at h
        have hF : edF = _ := hfold.symm.trans hloop
        subst hF
        cases h
        refine ⟨Or.inl rfl, ha.lines, fun _ => ⟨bn, e, ed1, hreg, v1, v2, by rw [← ha.len]; exact v3, ?_, rfl⟩, fun h => by omega⟩
        show ed1.out ++ _ = _
        rw [ha.out, ha.lines]
        congr 3
        omega

/-- on a buffer whose lines all end in their newline (what `lbuf_replace` produces, `C01.lines_wf`), the
    printed bytes are the lines themselves, i.e. `lbuf_cp(xb, beg, end)` -/
theorem printed_wf (ls : List Bytes) (h : ∀ l ∈ ls, Props.C01.WfLine l) : ls.flatMap printed = ls.flatten := by
  induction ls with
  | nil => rfl
  | cons l r ih =>
    obtain ⟨w, hw, _⟩ := h l (by simp)
    rw [List.flatMap_cons, List.flatten_cons, ih (fun x hx => h x (by simp [hx]))]
    congr 1
    subst hw
    simp [printed]

theorem ec_print_wf (f : Nat) (ed ed' : Ed) (loc cmd arg : Bytes) (txt : Option Bytes)
    (hwf : ∀ l ∈ lines ed, Props.C01.WfLine l)
    (h : runCmd (f + 1) ed "ec_print" loc cmd arg txt = some (0, ed')) :
    ∃ b e ed1, exRegion ed loc = some ((0, b, e), ed1) ∧ ed'.out = ed.out ++ ed.cp b e := by
  obtain ⟨b, e, ed1, h1, _, _, _, h5, _⟩ := (ec_print_spec f ed ed' loc cmd arg txt 0 h).2.2.1 rfl
  refine ⟨b, e, ed1, h1, ?_⟩
  rw [h5, cp_eq, printed_wf]
  intro l hl
  exact hwf l (List.mem_of_mem_drop (List.mem_of_mem_take hl))

/-- `:=`: the text never changes; on success prints `end` -/
theorem ec_lnum_spec (f : Nat) (ed ed' : Ed) (loc cmd arg : Bytes) (txt : Option Bytes) (rc : Int)
    (h : runCmd (f + 1) ed "ec_lnum" loc cmd arg txt = some (rc, ed')) :
    (rc = 0 ∨ rc = 1) ∧ lines ed' = lines ed ∧
    (rc = 0 → ∃ b e ed1, exRegion ed loc = some ((0, b, e), ed1) ∧ ed'.out = ed.out ++ intStr e ++ [10]) ∧
    (rc = 1 → ed'.out = ed.out ∧ AddrOnly ed ed') := by
  rw [runCmd] at h
  simp only [String.reduceBEq, Bool.false_eq_true, ↓reduceIte, Bool.or_false, Bool.or_self] at h
  split at h
  · cases h
  · rename_i rc0 b e ed1 hreg
    obtain ⟨ha, hrc, hv, _⟩ := region_all _ _ _ _ _ _ hreg
    split at h
    · cases h
      exact ⟨Or.inr rfl, ha.lines, fun h => by omega, fun _ => ⟨ha.out, ha⟩⟩
    · rename_i hc
      simp only [bne_iff_ne, ne_eq, Decidable.not_not] at hc
      subst hc
      cases h
      refine ⟨Or.inl rfl, ha.lines, fun _ => ⟨b, e, ed1, hreg, ?_⟩, fun h => by omega⟩
      show ed1.out ++ (intStr e ++ [10]) ++ _ = _
      rw [ha.out]
      simp

/-- `:k`: the text never changes; on success the mark named by the first byte of the argument is set to
    line `end - 1`, column 0 -/
theorem ec_mark_spec (f : Nat) (ed ed' : Ed) (loc cmd arg : Bytes) (txt : Option Bytes) (rc : Int)
    (h : runCmd (f + 1) ed "ec_mark" loc cmd arg txt = some (rc, ed')) :
    (rc = 0 ∨ rc = 1) ∧ lines ed' = lines ed ∧
    (rc = 0 → ∃ b e ed1 lb, exRegion ed loc = some ((0, b, e), ed1) ∧ 0 ≤ e - 1 ∧ e - 1 < ed.len ∧ ed.lb = some lb ∧
      ed'.lb = some (setMark lb (arg.headD 0) (e - 1) 0)) ∧
    (rc = 1 → AddrOnly ed ed') := by
  rw [runCmd] at h
  simp only [String.reduceBEq, Bool.false_eq_true, ↓reduceIte, Bool.or_false, Bool.or_self] at h
  split at h
  · cases h
  · rename_i rc0 b e ed1 hreg
    obtain ⟨ha, hrc, hv, _⟩ := region_all _ _ _ _ _ _ hreg
    split at h
    · cases h
      exact ⟨Or.inr rfl, ha.lines, fun h => by omega, fun _ => ha⟩
    · rename_i hc
      simp only [Bool.or_eq_true, bne_iff_ne, ne_eq, decide_eq_true_eq, not_or, Decidable.not_not, Int.not_le] at hc
      obtain ⟨hc, hbe⟩ := hc
      subst hc
      obtain ⟨v1, v2, v3, _⟩ := hv rfl
      split at h
      · cases h
      · rename_i lb hlb
        cases h
        have hlb' := setLb_lb ed1 lb (setMark lb (arg.headD 0) (e - 1) 0) hlb
        refine ⟨Or.inl rfl, ?_, fun _ => ⟨b, e, ed1, lb, hreg, by omega, by rw [← ha.len]; omega, by rw [← ha.lb]; exact hlb, hlb'⟩, fun h => by omega⟩
        rw [lines_of_lb hlb', Props.C01.setMark_lines, ← lines_of_lb hlb, ha.lines]

/-- the mark just set is the one `'x` finds (for a mark table of the proper size) -/
theorem setMark_jump (lb : Lb) (c : Nat) (p : Int) (i : Nat) (hc : markIdx c = some i)
    (h1 : i < lb.mark.length) (h2 : i < lb.markOff.length) :
    jump (setMark lb c p 0) c = if p < 0 then none else some (p, 0) := by
  unfold jump setMark
  simp only [hc]
  simp [List.getD_eq_getElem?_getD, h1, h2]

/-- `:rs`: stores the text in a register, nothing else -/
theorem ec_rs_spec (f : Nat) (ed ed' : Ed) (loc cmd arg : Bytes) (txt : Option Bytes) (rc : Int)
    (h : runCmd (f + 1) ed "ec_rs" loc cmd arg txt = some (rc, ed')) :
    rc = 0 ∧ lines ed' = lines ed ∧ ed'.regs = ed.regs.put (regName arg) (txt.getD []) 1 := by
  rw [runCmd] at h
  simp only [String.reduceBEq, Bool.false_eq_true, ↓reduceIte, Bool.or_false, Bool.or_self] at h
  cases h
  exact ⟨rfl, rfl, rfl⟩

/-- the commands covered by C06 that go through `runCmd` -/
def lineHandlers : List String :=
  ["ec_insert", "ec_delete", "ec_yank", "ec_put", "ec_print", "ec_lnum", "ec_mark", "ec_rs"]

/-- a line command that returns 1 left the text of the buffer unchanged -/
theorem invalid_region_unchanged (f : Nat) (ed ed' : Ed) (hd : String) (loc cmd arg : Bytes) (txt : Option Bytes)
    (hh : hd ∈ lineHandlers) (h : runCmd (f + 1) ed hd loc cmd arg txt = some (1, ed')) :
    lines ed' = lines ed := by
  simp only [lineHandlers, List.mem_cons, List.not_mem_nil, or_false] at hh
  rcases hh with rfl | rfl | rfl | rfl | rfl | rfl | rfl | rfl
  · exact ((ec_insert_spec f ed ed' loc cmd arg txt 1 h).2.2 rfl).1
  · exact ((ec_delete_spec f ed ed' loc cmd arg txt 1 h).2.2 rfl).1
  · exact (ec_yank_spec f ed ed' loc cmd arg txt 1 h).2.1
  · exact ((ec_put_spec f ed ed' loc cmd arg txt 1 h).2.2.1 rfl).1
  · exact (ec_print_spec f ed ed' loc cmd arg txt 1 h).2.1
  · exact (ec_lnum_spec f ed ed' loc cmd arg txt 1 h).2.1
  · exact (ec_mark_spec f ed ed' loc cmd arg txt 1 h).2.1
  · exact (ec_rs_spec f ed ed' loc cmd arg txt 1 h).2.1

/-- an address that does not resolve to existing lines makes the command return 1, text unchanged
    (`ec_insert` and `ec_put` let `beg = end = 0` through: address 0 on an empty buffer) -/
theorem invalid_region_rejected (f : Nat) (ed ed1 : Ed) (hd : String) (loc cmd arg : Bytes) (txt : Option Bytes)
    (b e : Int)
    (hh : hd ∈ ["ec_insert", "ec_delete", "ec_yank", "ec_put", "ec_print", "ec_lnum", "ec_mark"])
    (hreg : exRegion ed loc = some ((1, b, e), ed1)) (hins : hd = "ec_insert" ∨ hd = "ec_put" → ¬ (b = 0 ∧ e = 0)) :
    ∃ ed', runCmd (f + 1) ed hd loc cmd arg txt = some (1, ed') ∧ lines ed' = lines ed := by
  have ha := (region_all _ _ _ _ _ _ hreg).1
  simp only [List.mem_cons, List.not_mem_nil, or_false] at hh
  rcases hh with rfl | rfl | rfl | rfl | rfl | rfl | rfl
  · have hbe : ((b != 0 || e != 0) = true) := by
      have := hins (Or.inl rfl)
      simp only [Bool.or_eq_true, bne_iff_ne, ne_eq]
      omega
    refine ⟨ed1, ?_, ha.lines⟩
    rw [runCmd]
    simp only [String.reduceBEq, ↓reduceIte, hreg]
    simp [hbe]
  · refine ⟨ed1, ?_, ha.lines⟩
    rw [runCmd]
    simp only [String.reduceBEq, Bool.false_eq_true, ↓reduceIte, Bool.or_false, hreg]
    simp
  · refine ⟨ed1, ?_, ha.lines⟩
    rw [runCmd]
    simp only [String.reduceBEq, Bool.false_eq_true, ↓reduceIte, Bool.or_true, hreg]
    simp
  · cases hg : regGet ed (regName arg) with
    | none =>
      refine ⟨ed, ?_, rfl⟩
      rw [runCmd]
      simp only [String.reduceBEq, Bool.false_eq_true, ↓reduceIte, Bool.or_false, hg]
    | some buf =>
      have hbe : ((b != 0 || e != 0) = true) := by
        have := hins (Or.inr rfl)
        simp only [Bool.or_eq_true, bne_iff_ne, ne_eq]
        omega
      refine ⟨ed1, ?_, ha.lines⟩
      rw [runCmd]
      simp only [String.reduceBEq, Bool.false_eq_true, ↓reduceIte, Bool.or_false, hg, hreg]
      simp [hbe]
  · by_cases hpre : (cmd.isEmpty && loc.isEmpty && decide (ed.xrow ≥ ed.len)) = true
    · refine ⟨ed, ?_, rfl⟩
      rw [runCmd]
      simp only [String.reduceBEq, Bool.false_eq_true, ↓reduceIte, hpre]
    · refine ⟨ed1, ?_, ha.lines⟩
      rw [runCmd]
      simp only [String.reduceBEq, Bool.false_eq_true, ↓reduceIte, hpre, hreg]
      simp
  · refine ⟨ed1, ?_, ha.lines⟩
    rw [runCmd]
    simp only [String.reduceBEq, Bool.false_eq_true, ↓reduceIte, hreg]
    simp
  · refine ⟨ed1, ?_, ha.lines⟩
    rw [runCmd]
    simp only [String.reduceBEq, Bool.false_eq_true, ↓reduceIte, hreg]
    simp

/-! ## 4. marks -/

/-- the mark update of a splice at `pos` deleting `nDel` and inserting `nIns` lines: a mark above the splice
    is unchanged, a mark at or below its end moves by `nIns - nDel` -/
theorem mark_stable_updMark (nul : Bool) (pos nIns nDel : Nat) (m : Int) :
    (m < pos → updMark nul pos nIns nDel m = m) ∧
    (m ≥ ((pos + nDel : Nat) : Int) → updMark nul pos nIns nDel m = m + nIns - nDel) :=
  ⟨updMark_before nul pos nIns nDel m, updMark_after nul pos nIns nDel m⟩

/-- a mark inside the replaced range: unset on a pure deletion (`s == NULL`), clamped to the last
    inserted line otherwise -/
theorem mark_in_deleted_range (pos nIns nDel : Nat) (m : Int) (h1 : (pos : Int) ≤ m) (h2 : m < (pos : Int) + nDel) :
    updMark true pos nIns nDel m = -1 ∧
    updMark false pos nIns nDel m = min m ((pos : Int) + nIns - 1) :=
  ⟨updMark_deleted pos nIns nDel m h1 h2, updMark_replaced pos nIns nDel m h1 h2⟩

/-- `lbuf_replace` on a user mark `a`–`z` (index `i < 26`; in fact any index but those of `[` and `]`) -/
theorem mark_stable_replace (lb lb' : Lb) (s : Option Bytes) (pos nDel i : Nat) (hi : i < 26)
    (h : replace lb s pos nDel = some lb') :
    lb'.markOff.getD i 0 = lb.markOff.getD i 0 ∧
    lb'.mark.getD i (-1) = updMark s.isNone pos (optLines s).length nDel (lb.mark.getD i (-1)) ∧
    (lb.mark.getD i (-1) < pos → lb'.mark.getD i (-1) = lb.mark.getD i (-1)) ∧
    (lb.mark.getD i (-1) ≥ ((pos + nDel : Nat) : Int) →
      lb'.mark.getD i (-1) = lb.mark.getD i (-1) + (optLines s).length - nDel) := by
  obtain ⟨r1, r2⟩ := replace_mark lb lb' s pos nDel i h (by omega) (by omega)
  refine ⟨r2, r1, fun hm => ?_, fun hm => ?_⟩
  · rw [r1, updMark_before _ _ _ _ _ hm]
  · rw [r1, updMark_after _ _ _ _ _ hm]

theorem jump_letter (lb : Lb) (c : Nat) (h1 : 97 ≤ c) (h2 : c ≤ 122) :
    jump lb c = if lb.mark.getD (c - 97) (-1) < 0 then none
      else some (lb.mark.getD (c - 97) (-1), lb.markOff.getD (c - 97) 0) := by
  unfold jump
  rw [markIdx_letter c h1 h2]

/-- `lbuf_edit` replacing lines `b..e` (inside the buffer): a mark `a`–`z` on a line above `b` stays, one on a
    line at or below `e` moves with its line, and in both cases it designates the very same line of text -/
theorem mark_stable (lb lb' : Lb) (s : Option Bytes) (b e c : Nat) (m off : Int)
    (hc1 : 97 ≤ c) (hc2 : c ≤ 122) (hbe : b ≤ e) (he : e ≤ lb.lines.length)
    (h : edit lb s b e = some lb') (hj : jump lb c = some (m, off)) :
    (m < b → jump lb' c = some (m, off) ∧ lb'.lines[m.toNat]? = lb.lines[m.toNat]?) ∧
    (m ≥ e → jump lb' c = some (m + (optLines s).length - ((e - b : Nat) : Int), off) ∧
      lb'.lines[(m + (optLines s).length - ((e - b : Nat) : Int)).toNat]? = lb.lines[m.toNat]?) := by
  rw [jump_letter lb c hc1 hc2] at hj
  split at hj
  · cases hj
  · rename_i hm0
    simp only [Option.some.injEq, Prod.mk.injEq] at hj
    obtain ⟨hm, hoff⟩ := hj
    obtain ⟨r1, r2⟩ := lbuf_edit_mark lb lb' s b e (c - 97) hbe he h (by omega) (by omega) (by omega)
    have hfr := lbuf_edit_frame lb lb' s b e hbe he h
    rw [hm] at r1 hm0
    constructor
    · intro hlt
      constructor
      · rw [jump_letter lb' c hc1 hc2, r1, r2, updMark_before _ _ _ _ _ hlt, if_neg hm0, hoff]
      · rw [hfr]
        exact frame_get_before lb.lines (optLines s) b e m.toNat (by omega) (by omega)
    · intro hge
      have hup := updMark_after s.isNone b (optLines s).length (e - b) m (by omega)
      constructor
      · rw [jump_letter lb' c hc1 hc2, r1, r2, hup, if_neg (by omega), hoff]
      · rw [hfr]
        have := frame_get_after lb.lines (optLines s) b e m.toNat hbe (by omega) he
        rw [← this]
        congr 1
        omega

/-- `lbuf_edit` and a mark `a`–`z` inside the replaced range -/
theorem mark_in_deleted_range_edit (lb lb' : Lb) (s : Option Bytes) (b e c : Nat) (m off : Int)
    (hc1 : 97 ≤ c) (hc2 : c ≤ 122) (hbe : b ≤ e) (he : e ≤ lb.lines.length)
    (h : edit lb s b e = some lb') (hj : jump lb c = some (m, off)) (h1 : (b : Int) ≤ m) (h2 : m < e) :
    lb'.mark.getD (c - 97) (-1) = (if s.isNone then -1 else min m ((b : Int) + (optLines s).length - 1)) ∧
    (s = none → jump lb' c = none) := by
  rw [jump_letter lb c hc1 hc2] at hj
  split at hj
  · cases hj
  · simp only [Option.some.injEq, Prod.mk.injEq] at hj
    obtain ⟨hm, hoff⟩ := hj
    obtain ⟨r1, r2⟩ := lbuf_edit_mark lb lb' s b e (c - 97) hbe he h (by omega) (by omega) (by omega)
    rw [hm] at r1
    have hr : lb'.mark.getD (c - 97) (-1) = (if s.isNone then -1 else min m ((b : Int) + (optLines s).length - 1)) := by
      rw [r1]
      cases s with
      | none => exact updMark_deleted _ _ _ _ h1 (by omega)
      | some x => exact updMark_replaced _ _ _ _ h1 (by omega)
    refine ⟨hr, fun hs => ?_⟩
    rw [jump_letter lb' c hc1 hc2, hr, hs]
    simp

/-! ## examples on a three-line buffer `a`, `b`, `c` -/

def ed3 : Ed := { bufs := [some { path := [], lb := { lines := [[97, 10], [98, 10], [99, 10]] } }] }

/-- `2d` -/
example : (runCmd 1 ed3 "ec_delete" [50] [100] [] none).map (fun r => (r.1, lines r.2, r.2.xrow)) =
    some (0, [[97, 10], [99, 10]], 1) := by
  rw [runCmd]; decide

/-- `0a` with the text `x` -/
example : (runCmd 1 ed3 "ec_insert" [48] [97] [] (some [120, 10])).map (fun r => (r.1, lines r.2, r.2.xrow)) =
    some (0, [[120, 10], [97, 10], [98, 10], [99, 10]], 0) := by
  rw [runCmd]; decide

/-- `'xd` with the mark `x` unset: rejected, text unchanged -/
example : (runCmd 1 ed3 "ec_delete" [39, 120] [100] [] none).map (fun r => (r.1, lines r.2, r.2.xrow)) =
    some (1, [[97, 10], [98, 10], [99, 10]], 0) := by
  rw [runCmd]; decide

/-- `2,3c` with the text `x`, `y` -/
example : (runCmd 1 ed3 "ec_insert" [50, 44, 51] [99] [] (some [120, 10, 121, 10])).map
    (fun r => (r.1, lines r.2, r.2.xrow)) = some (0, [[97, 10], [120, 10], [121, 10]], 2) := by
  rw [runCmd]; decide

/-- `5d`: past the end, rejected -/
example : (runCmd 1 ed3 "ec_delete" [53] [100] [] none).map (fun r => (r.1, lines r.2)) =
    some (1, [[97, 10], [98, 10], [99, 10]]) := by
  rw [runCmd]; decide

/-- `2,3p` -/
example : (runCmd 1 ed3 "ec_print" [50, 44, 51] [112] [] none).map (fun r => (r.1, r.2.out, r.2.xrow)) =
    some (0, [98, 10, 99, 10], 2) := by
  rw [runCmd]; decide

/-- `3ka` then `1d`: the mark follows its line -/
example : ((Lbuf.edit (setMark { lines := [[97, 10], [98, 10], [99, 10]] } 97 2 0) none 0 1).bind
    (fun lb => jump lb 97)) = some (1, 0) := by decide

end Neatvi.Props.C06
