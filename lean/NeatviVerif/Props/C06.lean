namespace Neatvi.Props.C06
end Neatvi.Props.C06
