import NeatviVerif.Lemmas.Ren
import NeatviVerif.Props.C16
/-!
# C17  Screen-column layout is a gap-free tiling; cursor/column mapping round-trips
-/
namespace Neatvi.Props.C17
open Neatvi Neatvi.Uc Neatvi.Spec Neatvi.Ren

/-! ### the width class of every code point is the one its tables list -/

theorem find_dw (c : Nat) : find c Gen.dwchars = memTab c Gen.dwchars := find_eq_mem dw_sorted c
theorem find_zw (c : Nat) : find c Gen.zwchars = memTab c Gen.zwchars := find_eq_mem zw_sorted c
theorem find_b (c : Nat) : find c Gen.bchars = memTab c Gen.bchars := find_eq_mem b_sorted c

private theorem zw_lower : Gen.zwchars.all (fun r => 0x300 ≤ r.1) = true := by decide +kernel
private theorem dw_lower : Gen.dwchars.all (fun r => 0x1100 ≤ r.1) = true := by decide +kernel

private theorem mem_lower {t : List (Nat × Nat)} {b c : Nat} (h : t.all (fun r => b ≤ r.1) = true)
    (hm : memTab c t = true) : b ≤ c := by
  unfold memTab at hm
  rw [List.any_eq_true] at hm
  obtain ⟨r, hr, h2⟩ := hm
  rw [List.all_eq_true] at h
  have := h r hr
  simp at this h2; omega

/-- `uc_wid` reports exactly the class the tables list: 0 for `zwchars`, 2 for `dwchars`, else 1 -/
theorem wid_is_table (c : Nat) : ucWidC c = widClass c := by
  unfold ucWidC widClass ucIsZw ucIsDw
  rw [find_zw, find_dw]
  by_cases hz : memTab c Gen.zwchars = true
  · have := mem_lower zw_lower hz
    simp [hz, this]
  · by_cases hd : memTab c Gen.dwchars = true
    · have := mem_lower dw_lower hd
      simp [hz, hd, this]
    · simp [hz, hd]

/-! ### tiling -/

/-- the fast layout is the left-to-right tiling of the characters -/
theorem fast_is_layout (s : Bytes) : renPositionFast s = layout (chrs s) 0 ++ [layoutEnd (chrs s) 0] := rfl

theorem layout_head (c : Bytes) (r : List Bytes) (col : Nat) : (layout (c :: r) col)[0]? = some col := rfl

/-- each character starts where the previous one ended -/
theorem layout_step (cs : List Bytes) (col : Nat) (i : Nat) (hi : i + 1 < cs.length) :
    (layout cs col)[i + 1]? =
      some ((layout cs col).getD i 0 + renCwid (cs.getD i []) ((layout cs col).getD i 0)) := by
  induction cs generalizing col i with
  | nil => simp at hi
  | cons c r ih =>
    cases i with
    | zero =>
      cases r with
      | nil => simp at hi
      | cons d r' => simp [layout]
    | succ i =>
      simp only [layout, List.getElem?_cons_succ, List.getD_cons_succ]
      exact ih _ i (by simpa using hi)

/-- the last entry is where the last character ends -/
theorem layout_end (cs : List Bytes) (col : Nat) (hne : cs ≠ []) :
    layoutEnd cs col = (layout cs col).getD (cs.length - 1) 0 +
      renCwid (cs.getD (cs.length - 1) []) ((layout cs col).getD (cs.length - 1) 0) := by
  induction cs generalizing col with
  | nil => exact absurd rfl hne
  | cons c r ih =>
    cases r with
    | nil => simp [layout, layoutEnd]
    | cons d r' =>
      have := ih (col + renCwid c col) (by simp)
      simp only [layoutEnd, layout, List.length_cons] at this ⊢
      rw [this]; simp

/-- reordered layout: for a permutation `ord` of `0..n-1` (as `dir_reorder` returns), the
    computed columns, read in visual order, are the left-to-right tiling of the characters in
    visual order, and the last entry is the total width. -/
theorem reorder_tiling_cs (cs : List Bytes) (ord : List Nat)
    (hl : ord.length = cs.length) (hnd : ord.Nodup) (hlt : ∀ v ∈ ord, v < cs.length)
    (hsurj : ∀ v, v < cs.length → v ∈ ord) :
    ∃ ps, renPositionReorderCs cs ord =
        some (ps ++ [layoutEnd ((visOf ord cs.length).map (fun k => cs.getD k [])) 0]) ∧
      ps.length = cs.length ∧
      ∀ k, k < cs.length → ps[(visOf ord cs.length).getD k 0]? =
        (layout ((visOf ord cs.length).map (fun k => cs.getD k [])) 0)[k]? := by
  generalize hvis : visOf ord cs.length = vis
  generalize hvc : vis.map (fun k => cs.getD k []) = visChars
  have hvlen : vis.length = cs.length := by simp [← hvis, visOf]
  have hvlt : ∀ k ∈ vis, k < cs.length := by
    intro k hk
    simp only [← hvis, visOf, List.mem_map, List.mem_range] at hk
    obtain ⟨v, hv, rfl⟩ := hk
    have := List.idxOf_lt_length_of_mem (hsurj v hv); omega
  have hvnd : vis.Nodup := by
    rw [← hvis]; simp only [visOf]
    rw [List.nodup_iff_pairwise_ne, List.pairwise_map]
    apply List.Pairwise.imp_of_mem _ (List.nodup_iff_pairwise_ne.mp (List.nodup_range (n := cs.length)))
    intro a b ha hb hab heq
    have ha' : a < cs.length := by simpa using ha
    have hb' : b < cs.length := by simpa using hb
    have h1 := List.getElem_idxOf (List.idxOf_lt_length_of_mem (hsurj a ha'))
    have h2 := List.getElem_idxOf (List.idxOf_lt_length_of_mem (hsurj b hb'))
    apply hab
    rw [← h1, ← h2]; simp [heq]
  generalize hlay : layout visChars 0 = lay
  have hlaylen : lay.length = cs.length := by rw [← hlay, layout_length, ← hvc]; simp [hvlen]
  generalize hxs : vis.zip (lay.map some) = xs
  have hxl : xs.length = cs.length := by simp [← hxs, hvlen, hlaylen]
  have hfst : xs.map (·.1) = vis := by
    rw [← hxs, List.map_fst_zip]; simp [hvlen, hlaylen]
  generalize hposd : writes (List.replicate cs.length (none : Option Nat)) xs = pos
  have hposlen : pos.length = cs.length := by simp [← hposd]
  have hpos : ∀ k, (hk : k < cs.length) → pos[vis[k]'(by omega)]? = some (some (lay[k]'(by omega))) := by
    intro k hk
    have hk' : k < xs.length := by omega
    have hxk : xs[k] = (vis[k]'(by omega), some (lay[k]'(by omega))) := by simp [← hxs]
    have := writes_get (List.replicate cs.length none) xs (by rw [hfst]; exact hvnd) k hk'
      (by rw [hxk]; simpa using hvlt _ (List.getElem_mem _))
    rw [hxk, hposd] at this; exact this
  have hall : pos.all Option.isSome = true := by
    rw [List.all_eq_true]
    intro o ho
    obtain ⟨j, hj, rfl⟩ := List.mem_iff_getElem.mp ho
    have hj' : j < cs.length := by omega
    -- j = vis[ord[j]]
    have hoj : ord[j]'(by omega) < cs.length := hlt _ (List.getElem_mem _)
    have hv : vis[ord[j]'(by omega)]'(by omega) = j := by
      simp only [← hvis, visOf, List.getElem_map, List.getElem_range]
      exact hnd.idxOf_getElem j (by omega)
    have := hpos (ord[j]'(by omega)) hoj
    rw [List.getElem?_eq_getElem (by rw [hv]; omega)] at this
    simp only [hv] at this
    have := Option.some.inj this
    rw [this]; rfl
  refine ⟨pos.map (fun x => x.getD 0), ?_, by simp [hposlen], ?_⟩
  · unfold renPositionReorderCs
    simp only []
    rw [invert_perm ord _ hl hnd hlt hsurj, hvis]
    simp only [Option.bind_eq_bind, Option.bind_some]
    rw [assign_eq _ _ _ _ hvlt, hvc, hlay, hxs, hposd]
    simp only [Option.bind_some]
    rw [if_pos hall]
  · intro k hk
    have hvk : vis.getD k 0 = vis[k]'(by omega) := by
      rw [List.getD_eq_getElem?_getD, List.getElem?_eq_getElem (by omega)]; rfl
    rw [hvk, List.getElem?_map, hpos k hk]
    simp only [Option.map_some, Option.getD_some]
    rw [List.getElem?_eq_getElem (by omega)]

/-- the same, for `ren_position_reorder(s)` -/
theorem reorder_tiling (s : Bytes) (ord : List Nat)
    (hl : ord.length = (chrs s).length) (hnd : ord.Nodup) (hlt : ∀ v ∈ ord, v < (chrs s).length)
    (hsurj : ∀ v, v < (chrs s).length → v ∈ ord) :
    ∃ ps, renPositionReorder s ord =
        some (ps ++ [layoutEnd ((visOf ord (chrs s).length).map (fun k => (chrs s).getD k [])) 0]) ∧
      ps.length = (chrs s).length ∧
      ∀ k, k < (chrs s).length → ps[(visOf ord (chrs s).length).getD k 0]? =
        (layout ((visOf ord (chrs s).length).map (fun k => (chrs s).getD k [])) 0)[k]? :=
  reorder_tiling_cs (chrs s) ord hl hnd hlt hsurj

example : renPositionReorder [0x61, 0x62, 0x0a] [1, 0, 2] = some [1, 0, 2, 3] := by decide

/-! ### offset -> column -> offset round trip -/

/-- converting a character offset to a column and back returns the same character, whenever no
    other character shares its column (which `cwid_pos` below guarantees: every cell is >= 1 wide) -/
theorem off_pos_roundtrip (pos : List Nat) (n i : Nat) (hn : n ≤ pos.length) (hi : i < n)
    (hinj : ∀ j, j < n → pos.getD j 0 = pos.getD i 0 → j = i) :
    renOffT pos n (renPosT pos n i : Nat) = i := by
  unfold renPosT
  rw [if_pos hi, renOffT_eq, posPrev_self pos n i hn hi]
  rw [off_fold pos _ n i hi (fun j hj => ⟨fun h => hinj j hj (by exact_mod_cast h), fun h => by rw [h]⟩) n (Nat.le_refl _)]
  simp [hi]

/-! ### cell widths -/

private theorem ph_facts : Gen.placeholders.all (fun p =>
    decide (ValidCp (dec1 p.1)) && (p.1 == enc (dec1 p.1)) && (Bytes.hd p.1 &&& phBits == phBits) && decide (1 ≤ p.2.2)) = true := by
  decide +kernel

private theorem hd_enc_cases {c : Nat} (h : ValidCp c) (r : Bytes) :
    (c < 0x80 ∧ Bytes.hd (enc c ++ r) = c) ∨ (0x80 ≤ c ∧ 0xc0 ≤ Bytes.hd (enc c ++ r)) := by
  obtain ⟨h0, h1⟩ := h
  unfold enc
  split
  · left; exact ⟨by assumption, rfl⟩
  split
  · right; exact ⟨by omega, by simp only [List.cons_append, Bytes.hd_cons]; omega⟩
  split
  · right; exact ⟨by omega, by simp only [List.cons_append, Bytes.hd_cons]; omega⟩
  · right; exact ⟨by omega, by simp only [List.cons_append, Bytes.hd_cons]; omega⟩

private theorem find_congr {α : Type} {p q : α → Bool} {l : List α} (h : ∀ x ∈ l, p x = q x) :
    l.find? p = l.find? q := by
  induction l with
  | nil => rfl
  | cons a l ih =>
    simp only [List.find?_cons, h a (by simp)]
    rw [ih (fun x hx => h x (by simp [hx]))]

private theorem hd_enc_inj {c c' : Nat} (h : ValidCp c) (r : Bytes) (he : c' = c) :
    Bytes.hd (enc c') = Bytes.hd (enc c ++ r) := by
  subst he
  obtain ⟨a, t, hat, _⟩ := enc_chr h
  rw [hat]; rfl

/-- the placeholder lookup of `ren_placeholder` (with its common-bits shortcut) finds exactly
    the configured placeholder of the code point -/
private theorem placeholder_hit {c : Nat} (h : ValidCp c) (r : Bytes) :
    (if Bytes.hd (enc c ++ r) &&& phBits == phBits then
      Gen.placeholders.find? (fun p => Bytes.hd p.1 == Bytes.hd (enc c ++ r) && ucCode p.1 == ucCode (enc c ++ r))
     else none) = Gen.placeholders.find? (fun p => dec1 p.1 == c) := by
  have hf := List.all_eq_true.mp ph_facts
  have hpred : ∀ p ∈ Gen.placeholders,
      (Bytes.hd p.1 == Bytes.hd (enc c ++ r) && ucCode p.1 == ucCode (enc c ++ r)) = (dec1 p.1 == c) := by
    intro p hp
    have := hf p hp
    simp only [Bool.and_eq_true, decide_eq_true_eq, beq_iff_eq] at this
    obtain ⟨⟨⟨hv, hpe⟩, _⟩, _⟩ := this
    have hcode : ucCode p.1 = some (dec1 p.1) := by
      have := C16.code_enc hv []
      rw [List.append_nil, ← hpe] at this; exact this
    rw [hcode, C16.code_enc h r]
    by_cases heq : dec1 p.1 = c
    · have : Bytes.hd p.1 = Bytes.hd (enc c ++ r) := by rw [hpe]; exact hd_enc_inj h r heq
      simp [this, heq]
    · simp [heq]
  have hcongr : Gen.placeholders.find? (fun p => Bytes.hd p.1 == Bytes.hd (enc c ++ r) && ucCode p.1 == ucCode (enc c ++ r))
      = Gen.placeholders.find? (fun p => dec1 p.1 == c) := find_congr hpred
  by_cases hg : (Bytes.hd (enc c ++ r) &&& phBits == phBits) = true
  · rw [if_pos hg, hcongr]
  · rw [if_neg hg]
    symm
    rw [List.find?_eq_none]
    intro p hp hpc
    apply hg
    have := hf p hp
    simp only [Bool.and_eq_true, decide_eq_true_eq, beq_iff_eq] at this hpc
    obtain ⟨⟨⟨hv, hpe⟩, hbits⟩, _⟩ := this
    have : Bytes.hd p.1 = Bytes.hd (enc c ++ r) := by rw [hpe]; exact hd_enc_inj h r hpc
    rw [← this]; simpa using hbits

private theorem isBell_spec {c : Nat} (h : ValidCp c) (r : Bytes) :
    ucIsBell (enc c ++ r) = some (isBellCp c) := by
  unfold ucIsBell isBellCp
  rw [C16.code_enc h r]
  rcases hd_enc_cases h r with ⟨h1, h2⟩ | ⟨h1, h2⟩
  · rw [h2]
    by_cases ht : (c == 32 || c == 9 || c == 10 || (decide (c ≥ 0x20) && decide (c < 0x7f))) = true
    · simp only [ht, if_true]
    · simp only [ht, Bool.false_eq_true, if_false, Option.map_some, ucIsBellC]
      unfold ucIsZw
      rw [find_zw, find_b]
  · generalize Bytes.hd (enc c ++ r) = b at h2
    have e1 : (b == 32 || b == 9 || b == 10 || (decide (b ≥ 0x20) && decide (b < 0x7f))) = false := by
      simp; omega
    have e2 : (c == 32 || c == 9 || c == 10 || (decide (c ≥ 0x20) && decide (c < 0x7f))) = false := by
      simp; omega
    simp only [e1, e2, Bool.false_eq_true, if_false, Option.map_some, ucIsBellC]
    unfold ucIsZw
    rw [find_zw, find_b]

/-- `ren_cwid` is the reference cell width: the tab rule, else the declared width of the configured
    placeholder, else 1 for a non-printable ("bell") character, else the table class 0/1/2 -/
theorem cwid_spec {c : Nat} (h : ValidCp c) (r : Bytes) (col : Nat) :
    renCwid (enc c ++ r) col = cellWidth c col := by
  unfold renCwid cellWidth
  have htab : (Bytes.hd (enc c ++ r) == 9) = (c == 9) := by
    rcases hd_enc_cases h r with ⟨_, h2⟩ | ⟨h1, h2⟩
    · rw [h2]
    · have e1 : (Bytes.hd (enc c ++ r) == 9) = false := by
        rw [beq_eq_false_iff_ne]; omega
      have e2 : (c == 9) = false := by
        rw [beq_eq_false_iff_ne]; omega
      rw [e1, e2]
  rw [htab]
  by_cases h9 : (c == 9) = true
  · simp only [h9, if_true]
    rw [show (7 : Nat) = 2 ^ 3 - 1 by rfl, Nat.and_two_pow_sub_one_eq_mod]
  · simp only [h9, Bool.false_eq_true, if_false]
    unfold renPlaceholder placeholderWid
    simp only []
    rw [placeholder_hit h r]
    cases Gen.placeholders.find? (fun p => dec1 p.1 == c) with
    | some p => simp
    | none =>
      simp only [Option.map_none]
      rw [isBell_spec h r]
      by_cases hb : isBellCp c = true
      · simp [hb]
      · have : ¬ (some (isBellCp c) == some true) = true := by simpa using hb
        simp only [this, if_false, hb, Bool.false_eq_true]
        unfold ucWid
        rw [C16.code_enc h r]; simp [wid_is_table]

/-- every display cell is at least one column wide (zero-width code points are all drawn as a
    width-1 placeholder), so no two characters of a line share a column -/
theorem cwid_pos {c : Nat} (h : ValidCp c) (col : Nat) : 1 ≤ cellWidth c col := by
  unfold cellWidth
  by_cases h9 : (c == 9) = true
  · simp only [h9, if_true]; omega
  · simp only [h9, Bool.false_eq_true, if_false]
    unfold placeholderWid
    cases hf : Gen.placeholders.find? (fun p => dec1 p.1 == c) with
    | some p =>
      have hp := List.mem_of_find?_eq_some hf
      have := List.all_eq_true.mp ph_facts p hp
      simp only [Bool.and_eq_true, decide_eq_true_eq] at this
      simpa using this.2
    | none =>
      simp only [Option.map_none]
      by_cases hb : isBellCp c = true
      · simp [hb]
      · simp only [hb, Bool.false_eq_true, if_false]
        unfold widClass
        by_cases hz : memTab c Gen.zwchars = true
        · exfalso; apply hb
          have hlow := mem_lower zw_lower hz
          unfold isBellCp
          have e2 : (c == 32 || c == 9 || c == 10 || (decide (c ≥ 0x20) && decide (c < 0x7f))) = false := by
            simp; omega
          simp only [e2, Bool.false_eq_true, if_false]
          simp [hz, hlow]
        · simp only [hz, Bool.false_eq_true, if_false]
          split <;> omega

/-- consequently the left-to-right layout is strictly increasing: columns are pairwise distinct -/
theorem layout_strict (cps : List Nat) (h : ∀ c ∈ cps, ValidCp c) (tails : List Bytes) (col : Nat)
    (ht : tails.length = cps.length) :
    ∀ i j, i < j → j < cps.length →
      (layout (List.zipWith (fun c r => enc c ++ r) cps tails) col).getD i 0 <
      (layout (List.zipWith (fun c r => enc c ++ r) cps tails) col).getD j 0 := by
  induction cps generalizing tails col with
  | nil => intro i j _ hj; simp at hj
  | cons c cs ih =>
    cases tails with
    | nil => simp at ht
    | cons r rs =>
      have hc := h c (by simp)
      have hw : 1 ≤ renCwid (enc c ++ r) col := by rw [cwid_spec hc]; exact cwid_pos hc col
      have hge : ∀ (k : Nat) (col' : Nat), k < cs.length → col' ≤
          (layout (List.zipWith (fun c r => enc c ++ r) cs rs) col').getD k 0 := by
        intro k
        induction k with
        | zero =>
          intro col' hk
          cases cs with
          | nil => simp at hk
          | cons d ds =>
            cases rs with
            | nil => simp at ht
            | cons r2 rs2 => simp [layout]
        | succ k ihk =>
          intro col' hk
          have := ih (fun d hd => h d (by simp [hd])) rs col' (by simpa using ht) 0 (k + 1) (by omega) hk
          cases cs with
          | nil => simp at hk
          | cons d ds =>
            cases rs with
            | nil => simp at ht
            | cons r2 rs2 =>
              simp [layout] at this ⊢; omega
      intro i j hij hj
      simp only [List.zipWith_cons_cons, layout]
      cases j with
      | zero => omega
      | succ j =>
        cases i with
        | zero =>
          simp only [List.getD_cons_zero, List.getD_cons_succ]
          have := hge j (col + renCwid (enc c ++ r) col) (by simpa using hj)
          omega
        | succ i =>
          simp only [List.getD_cons_succ]
          exact ih (fun d hd => h d (by simp [hd])) rs _ (by simpa using ht) i j (by omega) (by simpa using hj)

/-! ### non-vacuity -/
example : renCwid [0x09, 0x61] 3 = 5 ∧ cellWidth 0x3042 0 = 2 ∧ cellWidth 0x301 4 = 1 ∧ cellWidth 0x200c 0 = 1 := by decide +kernel


end Neatvi.Props.C17
