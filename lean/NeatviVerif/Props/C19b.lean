import NeatviVerif.Lemmas.C19bOps
/-!
# C19b: the operations the harness logs for `vi_drawfix` are the operations `drawFix` performs

`drawFixOps rows xtop r1 r2 n preview` (in `Model/Screen.lean`) is the list the harness compares with the
log of the real routine: `Op.room r n` (cursor to text row `r`, `term_room(n)`) and `Op.row k` (text row
`k` redrawn), in order.

* `drawFix_ops`: without preview, replaying the list with `C19.applyOp` (where `Op.row k` draws the buffer
  row `xtop + k`) from the screen `s` gives the screen of `drawFix`; the guarded branch (`r1 < xtop`, every
  row redrawn) is included;
* with preview the rows of the first loop are drawn while `xtop` is shifted by `-dis`, so the buffer row
  behind `Op.row k` depends on the loop.  `drawFixOpsX` (in `Lemmas/C19bOps.lean`) is the list of pairs
  (operation, `xtop` in force) and `applyOpAt ls xleft s (Op.row k, xt) = drawRow s ls xt xleft (xt + k)`:
  - `drawFixOps_eq_map_fst`: `drawFixOps = drawFixOpsX.map Prod.fst` — the screen rows the harness compares
    are those of the extended list, in order, the row insertion/deletion first;
  - `drawFix_opsX` (both modes), `drawFix_ops_preview`: `drawFix` is the fold of the extended list;
  - `drawFixOpsX_xtop`: the `xtop` in force is the `xtop` the routine leaves, or that minus `dis` (only
    with preview and `dis < 0`); `drawFixOpsX_false`: without preview it is the `xtop` of the call;
* `ops_rows_in_window` (`drawFixOps_rows_in_window`, `drawUpdateOps_rows_in_window`,
  `drawAgainOps_rows_in_window`): every `Op.row k` has `0 ≤ k < rows`; for `drawFixOps` this needs
  `0 < rows` and `0 ≤ n` (nothing on `r1`, `r2`), and both are necessary:
  `drawFixOps_row_outside_neg_n`, `drawFixOps_row_outside_zero_rows`; the other two need nothing.
  `drawFixOps_room_in_window`: the row of the `Op.room` is a text row as well.
-/
namespace Neatvi.Props.C19b
open Neatvi Neatvi.Mot Neatvi.Screen Neatvi.Lemmas.C19 Neatvi.Props.C19 Neatvi.Lemmas.C19b

/-! ### 1. without preview: the plain replay -/

/-- `vi_drawfix(r1, r2, n, 0)`: the logged operations, replayed with the `xtop` of the call, give the
    screen of `drawFix`, for every screen, window and range (the guard `r1 < xtop` included) -/
theorem drawFix_ops (s : Scr) (ls : Lines) (xtop xleft r1 r2 n : Int) :
    (drawFix s ls xtop xleft r1 r2 n false).1 =
      (drawFixOps s.length xtop r1 r2 n false).foldl (applyOp ls xtop xleft) s := by
  rw [drawFix_opsX, drawFixOpsX_false, foldl_applyOpAt_const]

/-- the guarded branch on its own: the range starts above the window, the operations are the redraws of
    every text row and the result is the full repaint -/
theorem drawFix_ops_above (s : Scr) (ls : Lines) (xtop xleft r1 r2 n : Int) (h : r1 < xtop) :
    drawFixOps s.length xtop r1 r2 n false = (List.range s.length).map (fun (k : Nat) => Op.row (k : Int)) ∧
    (drawFixOps s.length xtop r1 r2 n false).foldl (applyOp ls xtop xleft) s = repaint ls xtop xleft s.length := by
  refine ⟨?_, ?_⟩
  · unfold drawFixOps
    simp only [Bool.false_and, Bool.false_eq_true, if_false]
    rw [if_pos h]
  · rw [← drawFix_ops, drawFix_eq_old]
    simp only [Bool.false_and, Bool.false_eq_true, if_false]
    rw [if_pos h]

/-! ### 2. with preview: the replay with the `xtop` in force -/

/-- the effect of an extended operation -/
theorem applyOpAt_room (ls : Lines) (xleft : Int) (s : Scr) (r n xt : Int) :
    applyOpAt ls xleft s (Op.room r n, xt) = room s r n := rfl

theorem applyOpAt_row (ls : Lines) (xleft : Int) (s : Scr) (k xt : Int) :
    applyOpAt ls xleft s (Op.row k, xt) = drawRow s ls xt xleft (xt + k) := rfl

/-- with a fixed `xtop` the extended replay is the plain one -/
theorem applyOpAt_eq_applyOp (ls : Lines) (xtop xleft : Int) (s : Scr) (o : Op) :
    applyOpAt ls xleft s (o, xtop) = applyOp ls xtop xleft s o :=
  Neatvi.Lemmas.C19b.applyOpAt_eq_applyOp ls xtop xleft s o

/-- the list the harness compares is the extended list without the attached `xtop`: the same
    operations, the same screen rows, the same order -/
theorem drawFixOps_eq_map_fst (rows : Nat) (xtop r1 r2 n : Int) (p : Bool) :
    drawFixOps rows xtop r1 r2 n p = (drawFixOpsX rows xtop r1 r2 n p).map Prod.fst :=
  Neatvi.Lemmas.C19b.drawFixOps_eq_map_fst rows xtop r1 r2 n p

/-- `vi_drawfix` in both modes is the replay of the extended list -/
theorem drawFix_opsX (s : Scr) (ls : Lines) (xtop xleft r1 r2 n : Int) (p : Bool) :
    (drawFix s ls xtop xleft r1 r2 n p).1 =
      (drawFixOpsX s.length xtop r1 r2 n p).foldl (applyOpAt ls xleft) s :=
  Neatvi.Lemmas.C19b.drawFix_opsX s ls xtop xleft r1 r2 n p

/-- `vi_drawfix(r1, r2, n, 1)`: the screen is the replay of the extended list, whose operations are the
    logged ones, and the `xtop` it leaves is `min xtop r1` -/
theorem drawFix_ops_preview (s : Scr) (ls : Lines) (xtop xleft r1 r2 n : Int) :
    (drawFix s ls xtop xleft r1 r2 n true).1 =
      (drawFixOpsX s.length xtop r1 r2 n true).foldl (applyOpAt ls xleft) s ∧
    (drawFixOpsX s.length xtop r1 r2 n true).map Prod.fst = drawFixOps s.length xtop r1 r2 n true ∧
    (drawFix s ls xtop xleft r1 r2 n true).2 = min xtop r1 := by
  refine ⟨drawFix_opsX .., (drawFixOps_eq_map_fst ..).symm, ?_⟩
  rw [drawFix_snd]
  simp only [Bool.true_and, decide_eq_true_eq]
  split <;> omega

/-- without preview every operation is performed under the `xtop` of the call -/
theorem drawFixOpsX_false (rows : Nat) (xtop r1 r2 n : Int) :
    drawFixOpsX rows xtop r1 r2 n false = (drawFixOps rows xtop r1 r2 n false).map (fun o => (o, xtop)) :=
  Neatvi.Lemmas.C19b.drawFixOpsX_false rows xtop r1 r2 n

/-- the `xtop` in force of an operation is the `xtop` the routine leaves (`drawFix_snd`), except in the
    first loop of a shrinking preview, where it is that `xtop` minus `dis = n - (r2 - r1 + 1)` -/
theorem drawFixOpsX_xtop (rows : Nat) (xtop r1 r2 n : Int) (p : Bool) (x : Op × Int)
    (hx : x ∈ drawFixOpsX rows xtop r1 r2 n p) :
    x.2 = (if p && r1 < xtop then r1 else xtop) ∨
    (p = true ∧ n - (r2 - r1 + 1) < 0 ∧ (∃ k, x.1 = Op.row k) ∧
      x.2 = (if p && r1 < xtop then r1 else xtop) - (n - (r2 - r1 + 1))) := by
  unfold drawFixOpsX at hx
  simp only [] at hx
  generalize (if (p && decide (r1 < xtop)) = true then r1 else xtop) = t at hx ⊢
  by_cases hg : r1 < t
  · rw [if_pos hg] at hx
    simp only [List.mem_map, List.mem_range] at hx
    obtain ⟨i, _, rfl⟩ := hx
    exact Or.inl rfl
  · rw [if_neg hg] at hx
    simp only [List.mem_append, List.mem_singleton, List.mem_filterMap, List.mem_range] at hx
    rcases hx with (rfl | hx) | ⟨i, _, hx⟩
    · exact Or.inl rfl
    · split at hx
      · rename_i hB
        simp only [Bool.and_eq_true, decide_eq_true_eq] at hB
        simp only [List.mem_map, List.mem_range] at hx
        obtain ⟨i, _, rfl⟩ := hx
        cases p
        · left; simp
        · right
          refine ⟨rfl, hB.1, ⟨_, rfl⟩, ?_⟩
          simp only [if_true]; omega
      · cases hx
    · split at hx
      · cases hx; exact Or.inl rfl
      · cases hx

/-! ### 3. the redrawn rows are rows of the window -/

/-- `vi_drawfix`: every redrawn row is a text row, if there is a window and the count of new lines is not
    negative; nothing is assumed about `r1`, `r2`, `xtop` or the mode -/
theorem drawFixOps_rows_in_window (rows : Nat) (xtop r1 r2 n : Int) (p : Bool)
    (hrows : 0 < rows) (hn : 0 ≤ n) (k : Int) (hk : Op.row k ∈ drawFixOps rows xtop r1 r2 n p) :
    0 ≤ k ∧ k < (rows : Int) := by
  unfold drawFixOps at hk
  simp only [] at hk
  generalize (if (p && decide (r1 < xtop)) = true then r1 else xtop) = t at hk
  by_cases hg : r1 < t
  · rw [if_pos hg, row_mem_rangeMap] at hk
    obtain ⟨i, hi, rfl⟩ := hk
    omega
  · rw [if_neg hg] at hk
    generalize hc1 : min (max r1 t) (t + (rows : Int) - 1) = c1 at hk
    generalize min (max r2 t) (t + (rows : Int) - 1) = c2 at hk
    rw [List.mem_append, List.mem_append, List.mem_singleton] at hk
    rcases hk with (hk | hk) | hk
    · cases hk
    · split at hk
      · rename_i hB
        simp only [Bool.and_eq_true, decide_eq_true_eq] at hB
        rw [row_mem_rangeMap] at hk
        obtain ⟨i, hi, rfl⟩ := hk
        omega
      · cases hk
    · rw [row_mem_rangeFilterMap (fun i => c1 + (i : Int) - t) (fun i => c1 + (i : Int) < c1 + n)] at hk
      obtain ⟨i, hi, _, rfl⟩ := hk
      omega

/-- the row of the `term_room` of `vi_drawfix` is a text row -/
theorem drawFixOps_room_in_window (rows : Nat) (xtop r1 r2 n : Int) (p : Bool)
    (hrows : 0 < rows) (r a : Int) (hk : Op.room r a ∈ drawFixOps rows xtop r1 r2 n p) :
    0 ≤ r ∧ r < (rows : Int) := by
  unfold drawFixOps at hk
  simp only [] at hk
  generalize (if (p && decide (r1 < xtop)) = true then r1 else xtop) = t at hk
  by_cases hg : r1 < t
  · rw [if_pos hg] at hk
    simp only [List.mem_map, reduceCtorEq, and_false, exists_false] at hk
  · rw [if_neg hg] at hk
    rw [List.mem_append, List.mem_append, List.mem_singleton] at hk
    rcases hk with (hk | hk) | hk
    · simp only [Op.room.injEq] at hk
      omega
    · split at hk
      · simp only [List.mem_map, reduceCtorEq, and_false, exists_false] at hk
      · cases hk
    · simp only [List.mem_filterMap] at hk
      obtain ⟨i, _, hk⟩ := hk
      split at hk <;> cases hk

/-- `vi_drawupdate`: every redrawn row is a text row, for all arguments -/
theorem drawUpdateOps_rows_in_window (rows : Nat) (otop xtop : Int) (k : Int)
    (hk : Op.row k ∈ drawUpdateOps rows otop xtop) : 0 ≤ k ∧ k < (rows : Int) := by
  unfold drawUpdateOps at hk
  simp only [] at hk
  split at hk
  · cases hk
  · rw [List.mem_append] at hk
    rcases hk with hk | hk
    · split at hk
      · rw [List.mem_singleton] at hk; cases hk
      · cases hk
    · split at hk
      · rw [row_mem_rangeMap] at hk
        obtain ⟨i, hi, rfl⟩ := hk
        omega
      · rw [row_mem_rangeMap (fun i => (i : Int))] at hk
        obtain ⟨i, hi, rfl⟩ := hk
        omega

/-- `vi_drawagain`: every redrawn row is a text row, for all arguments -/
theorem drawAgainOps_rows_in_window (rows : Nat) (xtop row : Int) (k : Int)
    (hk : Op.row k ∈ drawAgainOps rows xtop row) : 0 ≤ k ∧ k < (rows : Int) := by
  unfold drawAgainOps at hk
  simp only [List.mem_map, List.mem_filter, List.mem_range, Op.row.injEq] at hk
  obtain ⟨_, ⟨⟨i, hi, rfl⟩, _⟩, rfl⟩ := hk
  omega

/-- the three routines together -/
theorem ops_rows_in_window (rows : Nat) (k : Int) :
    (∀ xtop r1 r2 n p, 0 < rows → 0 ≤ n → Op.row k ∈ drawFixOps rows xtop r1 r2 n p → 0 ≤ k ∧ k < (rows : Int)) ∧
    (∀ otop xtop, Op.row k ∈ drawUpdateOps rows otop xtop → 0 ≤ k ∧ k < (rows : Int)) ∧
    (∀ xtop row, Op.row k ∈ drawAgainOps rows xtop row → 0 ≤ k ∧ k < (rows : Int)) :=
  ⟨fun xtop r1 r2 n p h1 h2 h3 => drawFixOps_rows_in_window rows xtop r1 r2 n p h1 h2 k h3,
   fun otop xtop h => drawUpdateOps_rows_in_window rows otop xtop k h,
   fun xtop row h => drawAgainOps_rows_in_window rows xtop row k h⟩

/-- `0 ≤ n` is necessary: a negative count makes the first loop start above the window (the callers pass
    a line count, so this does not arise) -/
theorem drawFixOps_row_outside_neg_n :
    drawFixOps 3 0 0 0 (-1) false = [Op.room 0 (-2), Op.row (-1), Op.row 0, Op.row 1, Op.row 2] := by
  decide

/-- `0 < rows` is necessary: with no text rows the clamped `r1` is `xtop - 1` and the second loop names
    the row `-1` (`drawRow` ignores it; a terminal has at least one text row) -/
theorem drawFixOps_row_outside_zero_rows :
    drawFixOps 0 0 0 0 1 false = [Op.room (-1) 0, Op.row (-1)] := by
  decide

/-! ### 4. logged calls replayed -/

section Examples
/- `dk` on line 6 of a 7-row window at line 3: lines 5..6 go, `term_room(-2)` on row 2, rows 2..6 redrawn -/
example : drawFixOps 7 3 5 6 0 false = [Op.room 2 (-2), Op.row 2, Op.row 3, Op.row 4, Op.row 5, Op.row 6] := by
  decide
/- `P` of two lines before line 5 (`n = 3`): `term_room(2)` on row 2, rows 2..4 redrawn -/
example : drawFixOps 7 3 5 5 3 false = [Op.room 2 2, Op.row 2, Op.row 3, Op.row 4] := by
  decide
/- the range starts above the window: every row -/
example : drawFixOps 3 2 1 2 2 false = [Op.row 0, Op.row 1, Op.row 2] := by decide
/- preview of `c` over lines 1..3, window of 3 rows at 0: row 2 is drawn under `xtop = 2` (it shows line 4),
   row 1 under `xtop = 0` -/
example : drawFixOpsX 3 0 1 3 1 true = [(Op.room 1 (-1), 0), (Op.row 2, 2), (Op.row 1, 0)] := by decide
example : drawFixOps 3 0 1 3 1 true = [Op.room 1 (-1), Op.row 2, Op.row 1] := by decide
/- preview of `c` over lines 0..2 with the window at 1: the window moves to 0 -/
example : drawFixOpsX 3 1 0 2 1 true = [(Op.room 0 (-2), 0), (Op.row 1, 2), (Op.row 2, 2), (Op.row 0, 0)] := by decide
example : (drawFixOpsX 3 1 0 2 1 true).foldl (applyOpAt ex5 0) (repaint ex5 1 0 3) =
    [some (some [0], 0), some (some [3], 0), some (some [4], 0)] := by decide
end Examples

end Neatvi.Props.C19b
