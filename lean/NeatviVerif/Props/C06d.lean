import NeatviVerif.Lemmas.C06dCases
import NeatviVerif.Lemmas.C06dCmds
import NeatviVerif.Lemmas.C06dSubst
import NeatviVerif.Lemmas.C06dParseLoc
import NeatviVerif.Lemmas.C06dScriptRef
import NeatviVerif.Props.C05b
/-!
# C06d: ex line commands with arbitrary addresses — the reference address semantics, the frame law, scripts

`Props/C06` … `C06c` state what each line command does *given the region `ex_region` returns*; their script theorems
(`C06b.script_frame_lines`, `_bar`) assume addresses over `.$0-9+-,;%` and arguments without `|`, `"`, backslash.
This file removes those assumptions.

## The syntactic class

An address is a tree (`Lemmas/C06dRef.lean`, which does not import the model of `ex.c`):

* `Loc` = `%` (`whole`) | nothing (`current`) | `list` of `(Addr, Sep)` with `Sep` = `,` | `;` | end;
* `Addr` = a `Base`, offsets `+n` / `-n` (digits optional), and *junk*: bytes `ex_lineno` skips up to the next
  separator (as in `1%2,3` or `.5`);
* `Base` = nothing | `.` | `$` | `'c` | a `'` that ends the text | `/re/` `?re?` (a list of plain bytes and backslash
  pairs; the closing delimiter may be missing at the very end, and then a lone backslash may end it) | a number.

`Loc.render` is its text.  `Loc.Ok` says the tree is the parse of its text (digits are digits, plain pattern bytes are
not the delimiter or a backslash, junk holds no `,` `;` and does not continue the address, only the last item ends the
list, an empty last address is the "trailing separator" form).  **Every byte string is the text of exactly such a
tree**: `parseLoc_total` / `parseLoc_sound` (`parseLoc` is a checked parser), so §1 covers every input of `ex_region`
(`exRegion_every_text`).

For the command-line level (`ex_loc`, §3) additionally `Loc.Lex`: patterns are closed, marks are not named `/` or `?`,
no `'` ends the text, junk bytes are among `.$0-9+-%`.  Arguments (`GenCmd`) are plain bytes and backslash pairs `\x`
(any `x`, e.g. `\|`); `:s` arguments (`SubstCmd`) are `/pat/rep/flags` with any delimiter `ex_arg` accepts, `|` allowed
inside `pat`, `rep`.

## Contents

1. `exRegion_is_reference`, `exRegion_every_text`: `ex_region` = the reference evaluator `refRegion`, for every state whose
   current row is not the model's internal marker `-1000000` (`exRegion_needs_marker_hyp_is_false` shows the
   hypothesis is needed: a model artefact); `exRegion_is_reference_fits` (the `AddrFits` form); exactness
   (`off_val_exact`, `num_eval_exact`, `addr_eval_exact`); the search (`nearest_forward`, `nearest_backward`,
   `nearest_forward_none`); acceptance and the rejection cases (`verdict_accept`, `verdict_reversed`,
   `verdict_beyond`, `verdict_zero`, `eval_mark_unset`, `eval_search_noprev`, `evalList_unresolved`,
   `refRegion_unresolved`, `refRegion_num`).
2. the frame law with reference regions: `cmd_ref` (every covered command is its `LineOp` on the reference region),
   `lineOp_frame`, per command `delete_ref` … `filter_ref`, `write_ref`, `subst_splice` / `subst_ref` (`:s` is a splice
   of the addressed range), `cmd_splice_s`, `script_frame_s`, `rejected_ref`, `zero_delete`.
3. `exLoc_render`, `exArg_toks`, `exArg_subst`, `exArg_rest`, `parse1_gen`, `parse1_subst`; `exExec_line_x`,
   `exExec_subst`; `script_frame_ref` (parsed commands, filters included), `script_frame_lines_x`,
   `script_frame_lines_ref`, `script_frame_bar_ref`, `runBarLinesRef_exCommand`; `xrow_invariant`.
-/
namespace Neatvi.Props.C06d
open Neatvi Neatvi.Lbuf Neatvi.Ex Neatvi.Lemmas.C06 Neatvi.Lemmas.C06b Neatvi.Lemmas.C06d
open Neatvi.Lemmas.Hist (optLines)
open Neatvi.Props.C06b (Splice applySplice applySplices SplicesOk LineCmd covered CoveredCmd runLines)

/-! ## 1. `ex_region` is the reference address semantics -/

/-- **`ex_region` = reference.**  `worldOf ed` is what an address reads from the state (number of lines, marks, the
    search oracle: does keyword `kw` compile, does line `row` match it), `cursorOf ed` what it may change (current
    row, remembered search keyword and direction).  For every well-formed location tree, `ex_region` on its text
    returns exactly the reference's `(return code, beg, end)` — acceptances and rejections alike — and leaves the state
    with the reference's cursor and nothing else changed; it traps (`none`) exactly when the reference does (the
    matcher or the pattern compiler gave up). -/
theorem exRegion_is_reference (ed : Ed) (loc : Loc) (hok : loc.Ok) (hx : ed.xrow ≠ -1000000) :
    exRegion ed loc.render =
      (refRegion (worldOf ed) (cursorOf ed) loc).map (fun r => (r.1, withCursor ed r.2)) :=
  exRegion_ref ed loc hok hx

/-- `parseLoc` (a checked parser from text to tree) never fails: every byte string is the text of a well-formed tree -/
theorem parseLoc_total (s : Bytes) : ∃ loc, parseLoc s = some loc := Lemmas.C06d.parseLoc_total s

/-- and the tree it returns renders back to the text -/
theorem parseLoc_sound (s : Bytes) (loc : Loc) (h : parseLoc s = some loc) : loc.render = s ∧ loc.Ok :=
  Lemmas.C06d.parseLoc_sound s loc h

/-- **`ex_region` on every address text**: for every byte string `s` there is a well-formed tree with text `s`
    (the one `parseLoc` finds), and `ex_region ed s` is the reference evaluation of that tree -/
theorem exRegion_every_text (ed : Ed) (s : Bytes) (hx : ed.xrow ≠ -1000000) :
    ∃ loc, parseLoc s = some loc ∧ loc.render = s ∧ loc.Ok ∧
      exRegion ed s = (refRegion (worldOf ed) (cursorOf ed) loc).map (fun r => (r.1, withCursor ed r.2)) := by
  obtain ⟨loc, h⟩ := Lemmas.C06d.parseLoc_total s
  obtain ⟨h1, h2⟩ := Lemmas.C06d.parseLoc_sound s loc h
  refine ⟨loc, h, h1, h2, ?_⟩
  rw [← h1]
  exact exRegion_ref ed loc h2 hx

/-- the text `1,/a\/b;c/+2-;'x-1.5` (junk `.5` after the last address) as a tree -/
example : parseLoc [49, 44, 47, 97, 92, 47, 98, 59, 99, 47, 43, 50, 45, 59, 39, 120, 45, 49, 46, 53] =
    some (.list [(⟨.num [49], [], []⟩, .comma),
      (⟨.search false [.ch 97, .esc 47, .ch 98, .ch 59, .ch 99] true, [⟨false, [50]⟩, ⟨true, []⟩], []⟩, .semi),
      (⟨.mark 120, [⟨true, [49]⟩], [46, 53]⟩, .fin)]) := by decide

/-- the hypothesis `xrow ≠ -1000000` cannot be dropped: the model uses `-1000000` as an in-band failure marker for
    the base of an address, so with that (unreachable) current row `.+1000000` is rejected by the model while it
    designates line 1.  `ex_lineno` of `ex.c` has no such marker (it returns `-2` at once): this is an artefact of
    the model, outside every reachable state (`xrow_invariant`: `-1 ≤ xrow` is kept by the commands). -/
theorem exRegion_needs_marker_hyp_is_false :
    ¬ ∀ (ed : Ed) (loc : Loc), loc.Ok →
      exRegion ed loc.render = (refRegion (worldOf ed) (cursorOf ed) loc).map (fun r => (r.1, withCursor ed r.2)) := by
  intro h
  have h1 := h { bufs := [some { path := [], lb := { lines := [[97, 10]] } }], xrow := -1000000 }
    (.list [(⟨.dot, [⟨false, [49, 48, 48, 48, 48, 48, 48]⟩], []⟩, .fin)]) (by decide)
  have h2 := congrArg (Option.map (fun r => r.1)) h1
  revert h2
  decide +kernel

example : (Loc.list [(⟨.mark 97, [⟨true, [49]⟩], []⟩, .comma),
    (⟨.search false [.ch 120, .esc 47, .ch 121] true, [⟨false, []⟩, ⟨false, [50]⟩], [37]⟩, .semi),
    (⟨.dollar, [], []⟩, .fin)]).Ok := by decide

/-- the same within the bounds of `C05b.AddrFits` (current row, length, marks within `±2^29`), a current row of at
    least `-1`: the reference's cursor again satisfies both, and `beg`, `end` are within `[-1, 2^29 + 1]` -/
theorem exRegion_is_reference_fits (ed : Ed) (loc : Loc) (hok : loc.Ok) (hf : Lemmas.C05b.AddrFits ed)
    (h0 : -1 ≤ ed.xrow) (r : (Nat × Int × Int) × Cursor)
    (h : refRegion (worldOf ed) (cursorOf ed) loc = some r) :
    exRegion ed loc.render = some (r.1, withCursor ed r.2) ∧
    Lemmas.C05b.AddrFits (withCursor ed r.2) ∧ -1 ≤ (withCursor ed r.2).xrow ∧
    -1 ≤ r.1.2.1 ∧ r.1.2.1 ≤ NUMMAX ∧ -1 ≤ r.1.2.2 ∧ r.1.2.2 ≤ NUMMAX + 1 := by
  have he : exRegion ed loc.render = some (r.1, withCursor ed r.2) := by
    rw [exRegion_ref ed loc hok (by omega), h]; rfl
  obtain ⟨⟨rc, b, e⟩, c1⟩ := r
  obtain ⟨k1, k2, k3, k4, k5⟩ := C05b.exRegion_bounded ed _ loc.render rc b e hf he
  exact ⟨he, k1, exRegion_xrow _ _ _ _ h0 he, k2, k3, k4, k5⟩

/-! ### exact arithmetic -/

/-- an offset whose number is at most `2^40` adds exactly that number -/
theorem off_val_exact (o : Off) (hd : ∀ d ∈ o.ds, isDigit d = true) (h : digitsVal o.ds ≤ termMax) :
    o.val = if o.neg then -digitsVal o.ds else digitsVal o.ds := Lemmas.C06d.off_val_exact o hd h

/-- the line number `n ≤ 2^40` is row `n - 1` -/
theorem num_eval_exact (w : World) (c : Cursor) (ds : Bytes) (hd : ∀ d ∈ ds, isDigit d = true)
    (h : digitsVal ds ≤ termMax) : (Base.num ds).eval w c = some (some (digitsVal ds - 1), c) :=
  Lemmas.C06d.num_eval_exact w c ds hd h

/-- an address whose exact value lies within `±2^29` has that value -/
theorem addr_eval_exact (w : World) (c c1 : Cursor) (a : Addr) (v : Int) (hb : a.base.eval w c = some (some v, c1))
    (h0 : -numMax ≤ v + offsVal a.offs) (h1 : v + offsVal a.offs ≤ numMax) :
    a.eval w c = some (some (v + offsVal a.offs), c1) := Lemmas.C06d.addr_eval_exact w c c1 a v hb h0 h1

/-! ### the search -/

/-- `/re/` finds the first matching line after the current one: every line in between does not match; the search
    does not wrap around the end of the buffer -/
theorem nearest_forward (hit : Int → Option Bool) (len : Int) (k : Nat) (row r : Int)
    (h : nearest hit len 1 k row = some (some r)) :
    row ≤ r ∧ 0 ≤ r ∧ r < len ∧ hit r = some true ∧ ∀ j, row ≤ j → j < r → hit j = some false :=
  Lemmas.C06d.nearest_forward hit len k row r h

/-- `?re?` finds the last matching line before the current one -/
theorem nearest_backward (hit : Int → Option Bool) (len : Int) (k : Nat) (row r : Int)
    (h : nearest hit len (-1) k row = some (some r)) :
    r ≤ row ∧ 0 ≤ r ∧ r < len ∧ hit r = some true ∧ ∀ j, r < j → j ≤ row → hit j = some false :=
  Lemmas.C06d.nearest_backward hit len k row r h

/-- when no line matches, the search does not resolve -/
theorem nearest_forward_none (hit : Int → Option Bool) (len : Int)
    (hnone : ∀ j, 0 ≤ j → j < len → hit j = some false) (k : Nat) (row : Int) :
    nearest hit len 1 k row = some none := Lemmas.C06d.nearest_forward_none hit len hnone k row

/-! ### acceptance and the rejection cases (facts about the reference; by `exRegion_is_reference`, about `ex_region`) -/

/-- a region `beg, end` is accepted iff it is not reversed and lies inside the buffer (`0`, i.e. `beg = -1, end = 0`,
    counting as the empty range at the top) -/
theorem verdict_accept (len b e : Int) :
    (verdict len b e).1 = 0 ↔
      b < e ∧ 0 ≤ (if b < 0 ∧ e = 0 then 0 else b) ∧ (if b < 0 ∧ e = 0 then 0 else b) < len ∧ e ≤ len :=
  Lemmas.C06d.verdict_accept len b e

/-- reversed range (`4,2`): rejected, `beg = end = -1` -/
theorem verdict_reversed (len b e : Int) (h : e ≤ b) : verdict len b e = (1, -1, -1) :=
  Lemmas.C06d.verdict_reversed len b e h

/-- an address beyond the last line: rejected -/
theorem verdict_beyond (len b e : Int) (h0 : 0 ≤ b) (h1 : b < e) (h : len < e) : verdict len b e = (1, b, e) :=
  Lemmas.C06d.verdict_beyond len b e h0 h1 h

/-- address `0`: `beg = end = 0`, accepted iff the buffer is not empty (so `ex_region` does *not* reject `0` for the
    commands that "do not take it": see `zero_delete`) -/
theorem verdict_zero (len : Int) : verdict len (-1) 0 = (if 0 < len then 0 else 1, 0, 0) :=
  Lemmas.C06d.verdict_zero len

/-- a mark that is not set does not resolve -/
theorem eval_mark_unset (w : World) (c : Cursor) (m : Nat) (offs : List Off) (junk : Bytes) (h : w.mark m = none) :
    (Addr.mk (.mark m) offs junk).eval w c = some (none, c) := Lemmas.C06d.eval_mark_unset w c m offs junk h

/-- `//` without a previous search does not resolve -/
theorem eval_search_noprev (w : World) (c : Cursor) (back cl : Bool) (h : c.dir = 0) :
    (Base.search back [] cl).eval w c = some (none, c) := Lemmas.C06d.eval_search_noprev w c back cl h

/-- an unresolved address rejects the whole location, `beg = end = -1` -/
theorem evalList_unresolved (w : World) (c c1 : Cursor) (a : Addr) (s : Sep) (r : AddrList)
    (h : a.eval w c = some (none, c1)) : evalList w c ((a, s) :: r) = some (none, c1) :=
  Lemmas.C06d.evalList_unresolved w c c1 a s r h

theorem refRegion_unresolved (w : World) (c c1 : Cursor) (l : AddrList) (h : evalList w c l = some (none, c1)) :
    refRegion w c (.list l) = some ((1, -1, -1), c1) := Lemmas.C06d.refRegion_unresolved w c c1 l h

/-- the single address `n` is the region `n-1 .. n` -/
theorem refRegion_num (w : World) (c : Cursor) (ds : Bytes) (hd : ∀ d ∈ ds, isDigit d = true)
    (h : digitsVal ds - 1 ≤ numMax) :
    refRegion w c (.list [(⟨.num ds, [], []⟩, .fin)]) = some (verdict w.len (digitsVal ds - 1) (digitsVal ds), c) :=
  Lemmas.C06d.refRegion_num w c ds hd h

/-! ## 2. the frame law, the region given by the reference -/

/-- the frame law of the reference line editor: above `b` nothing moves, from `e` on every line keeps its bytes and
    order -/
theorem lineOp_frame (op : LineOp) (t : List Bytes) (b e : Nat) (hbe : b ≤ e) (he : e ≤ t.length) :
    (∀ m, m < b → (op.apply t b e)[m]? = t[m]?) ∧
    (∀ m, e ≤ m → (op.apply t b e)[m + (op.apply t b e).length - t.length]? = t[m]?) :=
  LineOp.frame op t b e hbe he

/-- **every covered line command is its reference operation on the reference region.**  `c` is a parsed command
    among `a i c d y pu k = p r rs` or a filter `[range]!cmd`; its address is the text of the tree `loc`.  If it
    returns 0 the new text is `LineOp.apply` of the command's operation (`opOf`: `d` deletes `b..e-1`; `a`/`pu`/`r` add
    after line `e-1`; `i` adds before line `b`; `c` and the filter replace `b..e-1`; `y k = p rs` keep) at the region
    the *reference* evaluator computes; otherwise the text is unchanged. -/
theorem cmd_ref (f : Nat) (ed ed' : Ed) (c : LineCmd) (rc : Int) (loc : Loc)
    (hloc : c.loc = loc.render) (hok : loc.Ok) (hx : ed.xrow ≠ -1000000) (hc : C06c.CoveredX c)
    (h : runCmd (f + 1) ed c.hd c.loc c.cmd c.arg c.txt = some (rc, ed')) :
    (rc = 0 → lines ed' = (opOf ed c (refRegionOf ed loc).1 (refRegionOf ed loc).2).apply (lines ed)
        (refRegionOf ed loc).1.toNat (refRegionOf ed loc).2.toNat) ∧
    (rc ≠ 0 → lines ed' = lines ed) :=
  Lemmas.C06d.cmd_ref f ed ed' c rc loc hloc hok hx hc h

/-- `:d` -/
theorem delete_ref (f : Nat) (ed ed' : Ed) (loc : Loc) (cmd arg : Bytes) (txt : Option Bytes) (rc : Int)
    (hok : loc.Ok) (hx : ed.xrow ≠ -1000000)
    (h : runCmd (f + 1) ed "ec_delete" loc.render cmd arg txt = some (rc, ed')) :
    (rc = 0 ∨ rc = 1) ∧
    (rc = 0 → ∃ b e c1, refOf ed loc = some ((0, b, e), c1) ∧ 0 ≤ b ∧ b ≤ e ∧ e ≤ ed.len ∧
      lines ed' = (lines ed).take b.toNat ++ (lines ed).drop e.toNat ∧ ed'.xrow = b ∧
      ed'.regs = ed.regs.put (regName arg) (((lines ed).drop b.toNat).take (e.toNat - b.toNat)).flatten 1) ∧
    (rc = 1 → lines ed' = lines ed ∧ ed'.regs = ed.regs) :=
  Lemmas.C06d.delete_ref f ed ed' loc cmd arg txt rc hok hx h

/-- `:y` -/
theorem yank_ref (f : Nat) (ed ed' : Ed) (loc : Loc) (cmd arg : Bytes) (txt : Option Bytes) (rc : Int)
    (hok : loc.Ok) (hx : ed.xrow ≠ -1000000)
    (h : runCmd (f + 1) ed "ec_yank" loc.render cmd arg txt = some (rc, ed')) :
    (rc = 0 ∨ rc = 1) ∧ lines ed' = lines ed ∧
    (rc = 0 → ∃ b e c1, refOf ed loc = some ((0, b, e), c1) ∧ 0 ≤ b ∧ b ≤ e ∧ e ≤ ed.len ∧
      ed'.regs = ed.regs.put (regName arg) (((lines ed).drop b.toNat).take (e.toNat - b.toNat)).flatten 1) ∧
    (rc = 1 → ed'.regs = ed.regs) :=
  Lemmas.C06d.yank_ref f ed ed' loc cmd arg txt rc hok hx h

/-- `:a`, `:i`, `:c` (`p..q` = `e..e`, `b..b`, `b..e`) -/
theorem insert_ref (f : Nat) (ed ed' : Ed) (loc : Loc) (cmd arg : Bytes) (txt : Option Bytes) (rc : Int)
    (hok : loc.Ok) (hx : ed.xrow ≠ -1000000)
    (h : runCmd (f + 1) ed "ec_insert" loc.render cmd arg txt = some (rc, ed')) :
    (rc = 0 ∨ rc = 1) ∧
    (rc = 0 → ∃ r b e c1, refOf ed loc = some ((r, b, e), c1) ∧ (r = 0 ∨ (b = 0 ∧ e = 0)) ∧
      0 ≤ b ∧ b ≤ e ∧ e ≤ ed.len ∧
      ∀ p q, p = (if cmd.headD 0 = 97 then e else b) → q = (if cmd.headD 0 = 99 then e else p) →
        lines ed' = (lines ed).take p.toNat ++ optLines txt ++ (lines ed).drop q.toNat ∧
        ed'.xrow = min (ed'.len - 1) (p + (optLines txt).length - 1)) ∧
    (rc = 1 → lines ed' = lines ed) :=
  Lemmas.C06d.insert_ref f ed ed' loc cmd arg txt rc hok hx h

/-- `:pu` -/
theorem put_ref (f : Nat) (ed ed' : Ed) (loc : Loc) (cmd arg : Bytes) (txt : Option Bytes) (rc : Int)
    (hok : loc.Ok) (hx : ed.xrow ≠ -1000000)
    (h : runCmd (f + 1) ed "ec_put" loc.render cmd arg txt = some (rc, ed')) :
    (rc = 0 ∨ rc = 1) ∧
    (rc = 0 → ∃ buf r b e c1, regGet ed (regName arg) = some buf ∧ refOf ed loc = some ((r, b, e), c1) ∧
      (r = 0 ∨ (b = 0 ∧ e = 0)) ∧ 0 ≤ e ∧ e ≤ ed.len ∧
      lines ed' = (lines ed).take e.toNat ++ splitLines buf ++ (lines ed).drop e.toNat ∧
      ed'.xrow = min (ed'.len - 1) (e + (splitLines buf).length - 1)) ∧
    (rc = 1 → lines ed' = lines ed) :=
  Lemmas.C06d.put_ref f ed ed' loc cmd arg txt rc hok hx h

/-- `:k` -/
theorem mark_ref (f : Nat) (ed ed' : Ed) (loc : Loc) (cmd arg : Bytes) (txt : Option Bytes) (rc : Int)
    (hok : loc.Ok) (hx : ed.xrow ≠ -1000000)
    (h : runCmd (f + 1) ed "ec_mark" loc.render cmd arg txt = some (rc, ed')) :
    (rc = 0 ∨ rc = 1) ∧ lines ed' = lines ed ∧
    (rc = 0 → ∃ b e c1 lb, refOf ed loc = some ((0, b, e), c1) ∧ 0 ≤ e - 1 ∧ e - 1 < ed.len ∧ ed.lb = some lb ∧
      ed'.lb = some (setMark lb (arg.headD 0) (e - 1) 0)) :=
  Lemmas.C06d.mark_ref f ed ed' loc cmd arg txt rc hok hx h

/-- `:p` -/
theorem print_ref (f : Nat) (ed ed' : Ed) (loc : Loc) (cmd arg : Bytes) (txt : Option Bytes) (rc : Int)
    (hok : loc.Ok) (hx : ed.xrow ≠ -1000000)
    (h : runCmd (f + 1) ed "ec_print" loc.render cmd arg txt = some (rc, ed')) :
    (rc = 0 ∨ rc = 1) ∧ lines ed' = lines ed ∧
    (rc = 0 → ∃ b e c1, refOf ed loc = some ((0, b, e), c1) ∧ 0 ≤ b ∧ b ≤ e ∧ e ≤ ed.len ∧
      ed'.out = ed.out ++ (((lines ed).drop b.toNat).take (e.toNat - b.toNat)).flatMap printed ∧
      ed'.xrow = max b (e - 1)) ∧
    (rc = 1 → ed'.out = ed.out) :=
  Lemmas.C06d.print_ref f ed ed' loc cmd arg txt rc hok hx h

/-- `:r` (file or `!cmd`): the lines read go after line `e - 1` -/
theorem read_ref (f : Nat) (ed ed' : Ed) (loc : Loc) (cmd arg : Bytes) (txt : Option Bytes) (rc : Int)
    (hok : loc.Ok) (hx : ed.xrow ≠ -1000000)
    (h : runCmd (f + 1) ed "ec_read" loc.render cmd arg txt = some (rc, ed')) :
    (rc = 0 ∨ rc = 1) ∧
    (rc = 0 → ∃ path b e c1, C06b.readPath ed arg = some (some path, ed) ∧ refOf ed loc = some ((0, b, e), c1) ∧
      0 ≤ e ∧ e ≤ ed.len ∧
      lines ed' = (lines ed).take e.toNat ++ C06b.readLines ed arg ++ (lines ed).drop e.toNat) ∧
    (rc = 1 → lines ed' = lines ed) :=
  Lemmas.C06d.read_ref f ed ed' loc cmd arg txt rc hok hx h

/-- `:w` (any address text, any argument, any outcome) changes no line -/
theorem write_ref (f : Nat) (ed ed' : Ed) (loc cmd arg : Bytes) (txt : Option Bytes) (rc : Int)
    (h : runCmd (f + 1) ed "ec_write" loc cmd arg txt = some (rc, ed')) : lines ed' = lines ed :=
  Lemmas.C06d.write_ref f ed ed' loc cmd arg txt rc h

/-- the filter `[range]!cmd` -/
theorem filter_ref (f : Nat) (ed ed' : Ed) (loc : Loc) (cmd arg : Bytes) (txt : Option Bytes) (rc : Int)
    (hok : loc.Ok) (hx : ed.xrow ≠ -1000000) (hloc : loc.render ≠ [])
    (h : runCmd (f + 1) ed "ec_exec" loc.render cmd arg txt = some (rc, ed')) :
    (rc = 0 ∨ rc = 1) ∧
    (rc = 0 → ∃ ecmd b e c1, pathExpand ed arg true = some (some ecmd, ed) ∧
      refOf ed loc = some ((0, b, e), c1) ∧ 0 ≤ b ∧ b ≤ e ∧ e ≤ ed.len ∧
      ((ed.pipe ecmd (ed.cp b e) = some none ∧ lines ed' = lines ed) ∨
       (∃ out, ed.pipe ecmd (ed.cp b e) = some (some out) ∧
          lines ed' = (lines ed).take b.toNat ++ splitLines out ++ (lines ed).drop e.toNat))) ∧
    (rc = 1 → lines ed' = lines ed) :=
  Lemmas.C06d.filter_ref f ed ed' loc cmd arg txt rc hok hx hloc h

/-- **`:s` is a splice of the addressed range** (the loop follows the lines it pushes down: `i += n; end += n`).  On
    return 0: the region `b..e` is valid, the remembered pattern compiles to `re`, and lines `b..e-1` are replaced, each
    by the lines of its rewritten text (`rewriteLine`: the line itself when nothing matched, several lines when the
    replacement brought newlines); every other line keeps its bytes and order.  On return 1 the text is unchanged.
    (`substPrepD` is the prologue of `ec_substitute`: the pattern and the replacement it remembers, the `g` flag.) -/
theorem subst_splice (f : Nat) (ed ed' : Ed) (loc cmd arg : Bytes) (txt : Option Bytes) (rc : Int)
    (h : runCmd (f + 1) ed "ec_substitute" loc cmd arg txt = some (rc, ed')) :
    (rc = 0 ∨ rc = 1) ∧
    (rc = 0 → ∃ b e ed1 re, exRegion ed loc = some ((0, b, e), ed1) ∧ 0 ≤ b ∧ b ≤ e ∧ e ≤ ed.len ∧
      (substPrepD ed1 arg).1.mkRe (substPrepD ed1 arg).1.xkwd = some (some re) ∧
      lines ed' = (lines ed).take b.toNat ++
        rewriteAll re (substPrepD ed1 arg).1.xrep (substPrepD ed1 arg).2 (((lines ed).drop b.toNat).take (e.toNat - b.toNat)) ++
        (lines ed).drop e.toNat) ∧
    (rc = 1 → lines ed' = lines ed) :=
  Lemmas.C06d.subst_splice f ed ed' loc cmd arg txt rc h

/-- `:s` with the region of the reference evaluator: the reference operation `change` on the reference region -/
theorem subst_ref (f : Nat) (ed ed' : Ed) (loc : Loc) (cmd arg : Bytes) (txt : Option Bytes) (rc : Int)
    (hok : loc.Ok) (hx : ed.xrow ≠ -1000000)
    (h : runCmd (f + 1) ed "ec_substitute" loc.render cmd arg txt = some (rc, ed')) :
    (rc = 0 ∨ rc = 1) ∧
    (rc = 0 → ∃ b e c1 re, refRegion (worldOf ed) (cursorOf ed) loc = some ((0, b, e), c1) ∧ 0 ≤ b ∧ b ≤ e ∧ e ≤ ed.len ∧
      (substPrepD (withCursor ed c1) arg).1.mkRe (substPrepD (withCursor ed c1) arg).1.xkwd = some (some re) ∧
      lines ed' = (LineOp.change (rewriteAll re (substPrepD (withCursor ed c1) arg).1.xrep (substPrepD (withCursor ed c1) arg).2
        (((lines ed).drop b.toNat).take (e.toNat - b.toNat)))).apply (lines ed) b.toNat e.toNat) ∧
    (rc = 1 → lines ed' = lines ed) :=
  Lemmas.C06d.subst_ref f ed ed' loc cmd arg txt rc hok hx h

/-- one command is one splice — `a i c d y pu k = p r rs`, filters, `:s`, `:w` — with the splice inside the text -/
theorem cmd_splice_s (f : Nat) (ed ed' : Ed) (c : LineCmd) (rc : Int) (hc : CoveredS c)
    (h : runCmd (f + 1) ed c.hd c.loc c.cmd c.arg c.txt = some (rc, ed')) :
    (spliceOfS ed c rc).1 ≤ (spliceOfS ed c rc).2.1 ∧ (spliceOfS ed c rc).2.1 ≤ (lines ed).length ∧
      lines ed' = applySplice (lines ed) (spliceOfS ed c rc) :=
  Lemmas.C06d.cmd_splice_s f ed ed' c rc hc h

/-- **script_frame with `:s` and `:w`**: a script of parsed commands `a i c d y pu k = p r rs`, filters, substitutes,
    writes, with any address texts and return codes, is a sequence of splices of the addressed ranges -/
theorem script_frame_s (f : Nat) (script : List LineCmd) (ed ed' : Ed) (ss : List Splice)
    (hcov : ∀ c ∈ script, CoveredS c) (h : runScriptS f ed script = some (ss, ed')) :
    lines ed' = applySplices (lines ed) ss ∧ ss.length = script.length ∧ SplicesOk (lines ed) ss :=
  Lemmas.C06d.script_frame_s f script ed ed' ss hcov h

/-- a location the reference rejects (address beyond the end, reversed range, mark unset, search without match, …)
    makes `a i c d y pu p = k` return 1 with the text unchanged (`a i c pu` let `beg = end = 0` through: `0` on an
    empty buffer) -/
theorem rejected_ref (f : Nat) (ed : Ed) (hd : String) (loc : Loc) (cmd arg : Bytes) (txt : Option Bytes)
    (b e : Int) (c1 : Cursor) (hok : loc.Ok) (hx : ed.xrow ≠ -1000000)
    (hh : hd ∈ ["ec_insert", "ec_delete", "ec_yank", "ec_put", "ec_print", "ec_lnum", "ec_mark"])
    (href : refOf ed loc = some ((1, b, e), c1)) (hins : hd = "ec_insert" ∨ hd = "ec_put" → ¬ (b = 0 ∧ e = 0)) :
    ∃ ed', runCmd (f + 1) ed hd loc.render cmd arg txt = some (1, ed') ∧ lines ed' = lines ed :=
  Lemmas.C06d.rejected_ref f ed hd loc cmd arg txt b e c1 hok hx hh href hins

/-- address `0` is not rejected for `:d`: on a non-empty buffer `0d` returns 0, changes no line, but overwrites the
    register with the empty text and moves to row 0 (what `ex.c` does: `ec_delete` only tests `ex_region`'s return
    value) -/
theorem zero_delete (f : Nat) (ed : Ed) (lb : Lb) (cmd arg : Bytes) (txt : Option Bytes)
    (hlb : ed.lb = some lb) (hne : 0 < ed.len) :
    ∃ ed', runCmd (f + 1) ed "ec_delete" [48] cmd arg txt = some (0, ed') ∧ lines ed' = lines ed ∧ ed'.xrow = 0 ∧
      ed'.regs = ed.regs.put (regName arg) [] 1 :=
  Lemmas.C06d.zero_delete f ed lb cmd arg txt hlb hne

/-- `-1 ≤ xrow` is kept by address evaluation and by every covered command (so `xrow ≠ -1000000` holds all along) -/
theorem xrow_invariant (f : Nat) (ed ed' : Ed) (c : LineCmd) (rc : Int) (hc : C06c.CoveredX c) (h0 : -1 ≤ ed.xrow)
    (h : runCmd (f + 1) ed c.hd c.loc c.cmd c.arg c.txt = some (rc, ed')) : -1 ≤ ed'.xrow :=
  runCmd_xrow f ed ed' c rc hc h0 h

/-! ## 3. command lines and scripts -/

/-- **`ex_loc` takes exactly the address** off the front of a command line: the text of any location tree (marks,
    closed patterns with `,` `;` `|` inside, offsets, separators), when what follows is no address byte -/
theorem exLoc_render (loc : Loc) (r : Bytes) (hok : loc.Ok) (hlex : loc.Lex)
    (hr : locChars.contains (r.headD 0) = false)
    (hstart : loc.render = [] → r.headD 0 ≠ 58 ∧ r.headD 0 ≠ 32 ∧ r.headD 0 ≠ 9) :
    exLoc (loc.render ++ r) = (loc.render, r) := Lemmas.C06d.exLoc_render loc r hok hlex hr hstart

/-- **`ex_arg` keeps backslash pairs**: a plain argument made of bytes other than newline, `|`, `"`, backslash and of
    pairs `\x` is copied as it is (backslashes included) up to the first unquoted `|` -/
theorem exArg_toks (abbr sp : Bytes) (toks : List PTok) (t : Bytes) (hsp : ∀ c ∈ sp, c = 32 ∨ c = 9)
    (harg : ∀ tk ∈ toks, TokCopied argStop tk) (hstart : (rawPat toks).headD 0 ≠ 32 ∧ (rawPat toks).headD 0 ≠ 9)
    (ht : t = [] ∨ ∃ c2, t = 124 :: c2) (hp : plainAbbr abbr (rawPat toks) = true) :
    exArg (sp ++ rawPat toks ++ t) abbr = (rawPat toks, t.drop 1) :=
  Lemmas.C06d.exArg_toks abbr sp toks t hsp harg hstart ht hp

/-- **`:s/pat/rep/flags`**: a `|` inside the pattern or the replacement belongs to the argument; the `|` after the
    flags ends the command -/
theorem exArg_subst (abbr sp : Bytes) (delim : Nat) (pat rep : List PTok) (flags t : Bytes)
    (hab : substAbbr abbr = true) (hsp : ∀ c ∈ sp, c = 32 ∨ c = 9)
    (hdl : delim ≠ 0 ∧ delim ≠ 10 ∧ delim ≠ 124 ∧ delim ≠ 92 ∧ delim ≠ 34 ∧ delim ≠ 32 ∧ delim ≠ 9)
    (hpat : ∀ tk ∈ pat, TokSub delim tk) (hrep : ∀ tk ∈ rep, TokSub delim tk)
    (hfl : ∀ c ∈ flags, c ≠ 10 ∧ c ≠ 124 ∧ c ≠ 34 ∧ c ≠ 92)
    (ht : t = [] ∨ ∃ c2, t = 124 :: c2) :
    exArg (sp ++ (delim :: (rawPat pat ++ delim :: (rawPat rep ++ delim :: (flags ++ t))))) abbr =
      (delim :: (rawPat pat ++ delim :: (rawPat rep ++ delim :: flags)), t.drop 1) :=
  Lemmas.C06d.exArg_subst abbr sp delim pat rep flags t hab hsp hdl hpat hrep hfl ht

/-- **`:g`, `:v`, `:!`** take the rest of the line, `|` included -/
theorem exArg_rest (abbr sp : Bytes) (toks : List PTok) (t : Bytes) (hab : restAbbr abbr = true)
    (hsp : ∀ c ∈ sp, c = 32 ∨ c = 9) (harg : ∀ tk ∈ toks, TokCopied (fun c => c == 10) tk)
    (hstart : (rawPat toks).headD 0 ≠ 32 ∧ (rawPat toks).headD 0 ≠ 9) (hz : rawPat toks ≠ [0, 0, 0, 0])
    (ht : t = [] ∨ ∃ c2, t = 10 :: c2) :
    exArg (sp ++ rawPat toks ++ t) abbr = (rawPat toks, t.drop 1) :=
  Lemmas.C06d.exArg_rest abbr sp toks t hab hsp harg hstart hz ht

/-- the split of one command: address tree, name, blanks, argument pieces, then `|…` or nothing -/
theorem parse1_gen {loc : Loc} {w sfx sp : Bytes} {arg : List PTok} {t : Bytes} (h : GenCmd loc w sfx sp arg t)
    (hp : plainAbbr (abbrOf (exIdx (w ++ sfx))) (rawPat arg) = true) :
    parse1 (loc.render ++ w ++ sfx ++ sp ++ rawPat arg ++ t) =
      ⟨loc.render, w ++ sfx, exIdx (w ++ sfx), rawPat arg, t.drop 1⟩ := Lemmas.C06d.parse1_gen h hp

/-- the split of `[addr]s/pat/rep/flags` -/
theorem parse1_subst {loc : Loc} {w sp : Bytes} {delim : Nat} {pat rep : List PTok} {flags t : Bytes}
    (h : SubstCmd loc w sp delim pat rep flags t) :
    parse1 (loc.render ++ (w ++ (sp ++ (substArg delim pat rep flags ++ t)))) =
      ⟨loc.render, w, exIdx w, substArg delim pat rep flags, t.drop 1⟩ := Lemmas.C06d.parse1_subst h

/-- a line `c1|c2|…` of commands with address trees and arguments with backslash pairs runs all of them in order -/
theorem exExec_line_x (f : Nat) (ed : Ed) (cs : List CmdX) (hok : LineOkX cs) (hlen : (joinBarX cs).length < Gen.EXLEN) :
    exExec (f + 1) ed (joinBarX cs) = runLine f ed (cs.map CmdX.cmd1) 0 :=
  exExec_line_gen f ed _ (lineParses_of_okX cs hok) hlen

/-- `[addr]s/a|b/c/|rest`: the substitute gets the whole delimited argument; afterwards, whatever it returned, the
    rest of the line runs -/
theorem exExec_subst (f : Nat) (ed : Ed) {loc : Loc} {w sp : Bytes} {delim : Nat} {pat rep : List PTok} {flags t : Bytes}
    (h : SubstCmd loc w sp delim pat rep flags t) (a : Bytes) (hi : exIdx w = some (a, "ec_substitute"))
    (ht : takesText a = false)
    (hlen : (loc.render ++ (w ++ (sp ++ (substArg delim pat rep flags ++ t)))).length < Gen.EXLEN)
    (hk : t.drop 1 = [] ∨ (parse1 (t.drop 1)).idx.isSome) :
    exExec (f + 1) ed (loc.render ++ (w ++ (sp ++ (substArg delim pat rep flags ++ t)))) =
      match runCmd f ed "ec_substitute" loc.render w (substArg delim pat rep flags) none with
      | none => none
      | some (r, ed1) => if t.drop 1 = [] then some (r, ed1) else exExec (f + 1) ed1 (t.drop 1) :=
  Lemmas.C06d.exExec_subst f ed h a hi ht hlen hk

/-- **script_frame with reference regions** (parsed commands `a i c d y pu k = p r rs` and filters `[range]!cmd`, each
    with the tree of its address): started with `-1 ≤ xrow`, the final text is the initial text put through one
    reference splice per command (`spliceRef`: the command's `LineOp` at the region the reference evaluator gives in
    the state before the command) -/
theorem script_frame_ref (f : Nat) (script : List (LineCmd × Loc)) (ed ed' : Ed) (ss : List Splice)
    (hcov : ∀ p ∈ script, CoveredRef p) (h0 : -1 ≤ ed.xrow) (h : runScriptRef f ed script = some (ss, ed')) :
    lines ed' = applySplices (lines ed) ss ∧ ss.length = script.length ∧ SplicesOk (lines ed) ss ∧ -1 ≤ ed'.xrow :=
  Lemmas.C06d.script_frame_ref f script ed ed' ss hcov h0 h

/-- **script_frame_lines, any correctly split line** (`CoveredLineG`: the line is one command of the table among
    `a i c d y pu k = p r`, and `ex_exec` splits it into its pieces — which `C06b.Cmd1.Ok` and `CmdX.Ok` both
    guarantee): one splice per line, given by the line's resolved region -/
theorem script_frame_lines_x (f : Nat) (script : List Cmd1) (ed ed' : Ed) (ss : List Splice)
    (hcov : ∀ c ∈ script, CoveredLineG c) (h : runLines f ed script = some (ss, ed')) :
    lines ed' = applySplices (lines ed) ss ∧ ss.length = script.length ∧ SplicesOk (lines ed) ss :=
  script_frame_lines_gen f script ed ed' ss hcov h

/-- **script_frame_lines with address trees and reference regions.**  A script of lines `[addr]cmd [arg]`, `cmd` among
    `a i c d y pu k = p r`, the address any `Loc` tree (`Loc.Ok`, `Loc.Lex`), the argument with backslash pairs, run
    line by line through `ex_command` from a state with `-1 ≤ xrow`: the final text is the initial text put through
    one splice per line, *the command's reference operation on the region the reference evaluator gives in the
    state before the line* (`spliceRef`); each splice lies inside the text it applies to -/
theorem script_frame_lines_ref (f : Nat) (script : List CmdX) (ed ed' : Ed) (ss : List Splice)
    (hcov : ∀ c ∈ script, CoveredLineX c) (h0 : -1 ≤ ed.xrow) (h : runLinesRef f ed script = some (ss, ed')) :
    lines ed' = applySplices (lines ed) ss ∧ ss.length = script.length ∧ SplicesOk (lines ed) ss ∧ -1 ≤ ed'.xrow :=
  Lemmas.C06d.script_frame_lines_ref f script ed ed' ss hcov h0 h

/-- the same for lines `c1|c2|…` -/
theorem script_frame_bar_ref (f : Nat) (script : List (List CmdX)) (ed ed' : Ed) (ss : List Splice)
    (hcov : ∀ l ∈ script, ∀ c ∈ l, CoveredCmdX c) (h0 : -1 ≤ ed.xrow)
    (h : runBarLinesRef f ed script = some (ss, ed')) :
    lines ed' = applySplices (lines ed) ss ∧ ss.length = (script.map List.length).sum ∧ SplicesOk (lines ed) ss ∧
      -1 ≤ ed'.xrow :=
  Lemmas.C06d.script_frame_bar_ref f script ed ed' ss hcov h0 h

/-- `runBarLinesRef` is the run of the lines through `ex_command` (for lines `ex_exec` splits correctly, `LineOkX`) -/
theorem runBarLinesRef_exCommand (f : Nat) (ed : Ed) (l : List CmdX) (ls : List (List CmdX)) (hok : LineOkX l)
    (hlen : (joinBarX l).length < Gen.EXLEN) :
    runBarLinesRef f ed (l :: ls) =
      match runBarRef f ed l 0, exCommand (f + 3) ed (joinBarX l) with
      | some (ss, _, _), some (_, ed1) => (runBarLinesRef f ed1 ls).map (fun x => (ss ++ x.1, x.2))
      | _, _ => none :=
  Lemmas.C06d.runBarLinesRef_exCommand f ed l ls hok hlen

/-! ## examples: a five-line buffer `a`, `b`, `c/`, `d`, `ab`, mark `a` on line 4, current line 2 -/

def ed5 : Ed :=
  { bufs := [some { path := [], lb := Lbuf.setMark { lines := [[97, 10], [98, 10], [99, 47, 10], [100, 10], [97, 98, 10]] } 97 3 0 }],
    xrow := 1 }

/-- `'a-1,$` is lines 3–5 -/
example : (refRegion (worldOf ed5) (cursorOf ed5)
    (.list [(⟨.mark 97, [⟨true, [49]⟩], []⟩, .comma), (⟨.dollar, [], []⟩, .fin)])).map (·.1) = some (0, 2, 5) := by
  decide +kernel

/-- `/c\//` (forward search for `c/`) is line 3; `?a?` from line 2 is line 1; `?d?` from line 2 finds nothing -/
example : (refRegion (worldOf ed5) (cursorOf ed5)
    (.list [(⟨.search false [.ch 99, .esc 47] true, [], []⟩, .fin)])).map (·.1) = some (0, 2, 3) := by
  decide +kernel

example : (refRegion (worldOf ed5) (cursorOf ed5)
    (.list [(⟨.search true [.ch 97] true, [], []⟩, .fin)])).map (·.1) = some (0, 0, 1) := by
  decide +kernel

example : (refRegion (worldOf ed5) (cursorOf ed5)
    (.list [(⟨.search true [.ch 100] true, [], []⟩, .fin)])).map (·.1) = some (1, -1, -1) := by
  decide +kernel

/-- `+1;+1` is lines 3–4 (`;` moves the current line), `+1,+1` is line 3 only -/
example : (refRegion (worldOf ed5) (cursorOf ed5)
    (.list [(⟨.implicit, [⟨false, [49]⟩], []⟩, .semi), (⟨.implicit, [⟨false, [49]⟩], []⟩, .fin)])).map (·.1) =
    some (0, 2, 4) := by decide +kernel

/-- and `ex_region` agrees (an instance of `exRegion_is_reference`) -/
example : (exRegion ed5 (Loc.render (.list [(⟨.mark 97, [⟨true, [49]⟩], []⟩, .comma), (⟨.dollar, [], []⟩, .fin)]))).map (·.1) =
    some (0, 2, 5) := by
  rw [exRegion_is_reference ed5 _ (by decide) (by decide)]
  decide +kernel

/-- `2,5s/b/X<newline>Y/` on `a b c/ d ab`: line 2 becomes the two lines `X`, `Y`, and the loop still reaches the old
    line 5 (`ab` becomes `aX`, `Y`): an instance of `subst_splice` with a replacement that adds lines -/
example : (runCmd 1 ed5 "ec_substitute" [50, 44, 53] [115] [47, 98, 47, 88, 10, 89, 47] none).map (fun r => (r.1, lines r.2)) =
    some (0, [[97, 10], [88, 10], [89, 10], [99, 47, 10], [100, 10], [97, 88, 10], [89, 10]]) := by
  rw [runCmd]; decide +kernel

/-- `'a-1,$d`: an instance of `delete_ref` (the reference gives `2..5`, see above) -/
example : (runCmd 1 ed5 "ec_delete" (Loc.render (.list [(⟨.mark 97, [⟨true, [49]⟩], []⟩, .comma), (⟨.dollar, [], []⟩, .fin)]))
    [100] [] none).map (fun r => (r.1, lines r.2, r.2.xrow)) = some (0, [[97, 10], [98, 10]], 2) := by
  rw [runCmd]; decide +kernel

/-- a script for `script_frame_ref`: `'a-1,$d` then `?a?a` with the text `x` -/
def exScript : List (LineCmd × Loc) :=
  [(⟨"ec_delete", Loc.render (.list [(⟨.mark 97, [⟨true, [49]⟩], []⟩, .comma), (⟨.dollar, [], []⟩, .fin)]), [100], [], none⟩,
      .list [(⟨.mark 97, [⟨true, [49]⟩], []⟩, .comma), (⟨.dollar, [], []⟩, .fin)]),
   (⟨"ec_insert", Loc.render (.list [(⟨.search true [.ch 97] true, [], []⟩, .fin)]), [97], [], some [120, 10]⟩,
      .list [(⟨.search true [.ch 97] true, [], []⟩, .fin)])]

example : ∀ p ∈ exScript, CoveredRef p := by
  intro p hp
  simp only [exScript, List.mem_cons, List.not_mem_nil, or_false] at hp
  rcases hp with rfl | rfl <;> exact ⟨Or.inl (by decide), rfl, by decide⟩

example : (runScriptRef 0 ed5 exScript).map (fun r => (r.1, lines r.2)) =
    some ([(2, 5, []), (1, 1, [[120, 10]])], [[97, 10], [120, 10], [98, 10]]) := by
  simp only [runScriptRef, exScript, runCmd]; decide +kernel

/-- the hypotheses of the script theorems are satisfiable: the line `'a,/x\/y/+1d|$pu \|` -/
def exC1 : CmdX :=
  ⟨.list [(⟨.mark 97, [], []⟩, .comma), (⟨.search false [.ch 120, .esc 47, .ch 121] true, [⟨false, [49]⟩], []⟩, .fin)],
    [100], [], [], []⟩
def exC2 : CmdX := ⟨.list [(⟨.dollar, [], []⟩, .fin)], [112, 117], [], [32], [.esc 124]⟩

theorem exC2_ok : exC2.Ok [] where
  gen := {
    loc_ok := by decide
    loc_lex := by decide
    w_alpha := by decide
    w_len := by decide
    w_k := by decide
    sfx_ok := by decide
    sp_ok := by decide
    arg_ok := by decide
    arg_start := by decide
    t_ok := Or.inl rfl
    name_end := by decide
    bare := by intro h; cases h }
  plain := by decide
  notRs := by decide

theorem exC1_ok : exC1.Ok (124 :: joinBarX [exC2]) where
  gen := {
    loc_ok := by decide
    loc_lex := by decide
    w_alpha := by decide
    w_len := by decide
    w_k := by decide
    sfx_ok := by decide
    sp_ok := by decide
    arg_ok := by decide
    arg_start := by decide
    t_ok := Or.inr ⟨_, rfl⟩
    name_end := by decide
    bare := by intro h; cases h }
  plain := by decide
  notRs := by decide

example : LineOkX [exC1, exC2] := ⟨exC1_ok, exC2_ok, by decide⟩

example : CoveredLineX exC2 := ⟨exC2_ok, by decide, by decide, [112, 117], "ec_put", by decide, by decide⟩

example : CoveredCmdX exC1 := ⟨⟨by decide, [100], "ec_delete", by decide, by decide⟩, by decide⟩

/-- `2,3s/a|b/X/g|4d` is a `SubstCmd` followed by `|4d` -/
example : SubstCmd (.list [(⟨.num [50], [], []⟩, .comma), (⟨.num [51], [], []⟩, .fin)]) [115] [] 47
    [.ch 97, .ch 124, .ch 98] [.ch 88] [103] [124, 52, 100] where
  loc_ok := by decide
  loc_lex := by decide
  w_ne := by decide
  w_alpha := by decide
  w_len := by decide
  w_k := by decide
  abbr := by decide
  sp_ok := by decide
  delim_ok := by decide
  delim_name := by decide
  pat_ok := by decide
  rep_ok := by decide
  flags_ok := by decide
  t_ok := Or.inr ⟨_, rfl⟩

end Neatvi.Props.C06d
