import NeatviVerif.Props.C18b
import NeatviVerif.Lemmas.C18cUtf8
import NeatviVerif.Lemmas.C18cOn
import NeatviVerif.Lemmas.C11bUtf8
import NeatviVerif.Lemmas.C18cRset
import NeatviVerif.Lemmas.C18cFind
import NeatviVerif.Lemmas.C18cEval
import NeatviVerif.Model.Vi
/-!
# C18c  The range hypotheses of `C18b.reorder_runs`, from a law about the regex oracle — and the law
for the editor's own oracle

`C18b.reorder_runs` assumes that every match found on the line is non-empty and ends inside the line.
Here that is derived.

* L1 `SubsOk`, `OracleOk`, `OracleOk'`: the law about the oracle (`rset_find` on the two mark sets):
  table index valid, `0 ≤ so ≤ eo ≤ length`, every offset unset or inside `[so, eo]`, no group pair
  inverted, offsets on character boundaries of a valid UTF-8 subject; `OracleOk'` adds `so < eo`.
* L2 `dirMatch_valid`, `mkMatch_inRange`, `dirMatch_inRange`: on a valid UTF-8 line `dir_match` never
  traps and its record lies in the searched slice (helpers: `Lemmas/C18cUtf8`: `slice_spec`, `chop_get`,
  `ucOff_le_iff`, `ucOff_lt_iff`, `byteOff_strict`).
* L3 `LawfulOn`, `lineMatcher_lawful_chars`, `lineMatcher_lawful_on` (`Lemmas/C18cOn`: `clamp`,
  `dirFix_clamp`, `fix_frame_on`, `fix_nested_pos_on`, `scan_chained_on`, `scan_exists_on`: every theorem
  about `C18.Lawful` matchers transfers to matchers lawful on `[0, n]`).
* L4 `reorder_runs_of_oracle`; also `line_scan_exists`, `reorder_total_of_oracle`,
  `reorder_nested_of_oracle`.
* L6 `toyOrc_ok` and the examples after it.
* L5 `dirOracle_range` (C11 / C11b), `dirOracle_nested`, `dirOracle_nonempty` (C10, `Lemmas/C18cNested`,
  `Lemmas/C18cFind`), `dirOracle_ok`, `dirOracle_ok'`: the oracle built from the regex model
  (`Vi.dirOracle`) satisfies the law; `reorder_runs_dirOracle`, `reorder_total_dirOracle`: the end-to-end
  statements with no hypothesis about the oracle.
-/
namespace Neatvi.Props.C18c
open Neatvi Neatvi.Uc Neatvi.Spec Neatvi.Dir Neatvi.Props.C18 Neatvi.Props.C18b

/-! ### L1: the law -/

/-- entry `k` of the reported offsets as `dir_match` reads it (`-1` beyond the list) -/
def sub (subs : List Int) (k : Nat) : Int := subs.getD k (-1)

/-- what a reported match `(found, subs)` on the subject `str` has to satisfy -/
structure SubsOk (str : Bytes) (found : Nat) (subs : List Int) : Prop where
  /-- the pattern index is a row of the configured table (`conf_dirmark` answers) -/
  idx : found < Gen.dirmarks.length
  /-- the whole match: `0 ≤ so ≤ eo ≤ length` -/
  lo : 0 ≤ sub subs 0
  le : sub subs 0 ≤ sub subs 1
  hi : sub subs 1 ≤ (str.length : Int)
  /-- every offset is unset (negative; the engine writes `-1`) or lies inside the whole match -/
  inside : ∀ k, sub subs k < 0 ∨ (sub subs 0 ≤ sub subs k ∧ sub subs k ≤ sub subs 1)
  /-- a group that is set at both ends is not inverted -/
  grpLe : ∀ g, 0 ≤ sub subs (g * 2) → 0 ≤ sub subs (g * 2 + 1) → sub subs (g * 2) ≤ sub subs (g * 2 + 1)
  /-- on a valid UTF-8 subject every offset that is set is a character boundary -/
  bnd : ∀ cs, ValidStr cs → str = encStr cs → ∀ k, 0 ≤ sub subs k → IsBoundary cs (sub subs k).toNat

/-- the law about the two mark sets (`which = 0`: `dir_rslr`, `which = 1`: `dir_rsrl`) -/
def OracleOk (orc : Oracle) : Prop :=
  ∀ which str flg found subs, which ≤ 1 → orc which str flg = some (found, subs) → SubsOk str found subs

/-- … and reported matches are not empty.  For the configured bidi patterns (`dirmarks` in `conf.h`)
    this is a property of the patterns — each of them requires at least one character — that the
    theorems about the regex engine (C11: offsets in range, on boundaries) do not give for free; it is
    proved for the configured patterns in `dirOracle_nonempty` below. -/
def OracleOk' (orc : Oracle) : Prop :=
  OracleOk orc ∧
  ∀ which str flg found subs, which ≤ 1 → orc which str flg = some (found, subs) → sub subs 0 < sub subs 1

/-! ### L2: `dirMatch` on a valid line -/

/-- the match record `dir_match` builds from the offsets -/
def mkMatch (str : Bytes) (b : Nat) (subs : List Int) (dir : Int) (grp : Nat) : DMatch :=
  let rb := b + ucOff str (sub subs 0).toNat
  let re := b + ucOff str (sub subs 1).toNat
  ⟨rb, re,
   if sub subs (grp * 2) ≥ 0 then b + ucOff str (sub subs (grp * 2)).toNat else rb,
   if sub subs (grp * 2 + 1) ≥ 0 then b + ucOff str (sub subs (grp * 2 + 1)).toNat else re,
   dir, grp > 0⟩

/-- the flags `dir_match` passes -/
def matchFlags (s : Bytes) (b oe : Nat) : Nat :=
  (if b != 0 then RE_NOTBOL else 0) ||| (if Bytes.hd (s.drop oe) != 0 then RE_NOTEOL else 0)

/-- on a valid UTF-8 line `dir_match` asks the oracle about the encoding of the characters `[b, e)`
    and never leaves `chrs[]` (no law about the oracle needed) -/
theorem dirMatch_valid (orc : Oracle) {cs : List Nat} (hv : ValidStr cs) {b e : Nat} (hbe : b ≤ e)
    (he : e ≤ cs.length) (ctx : Int) :
    dirMatch orc (encStr cs) (ucChop (encStr cs)) b e ctx =
      match orc (if ctx < 0 then 1 else 0) (encStr ((cs.take e).drop b))
          (matchFlags (encStr cs) b (byteOff cs e)) with
      | none => some none
      | some (found, subs) =>
        match dirmark found with
        | none => none
        | some (_, dir, grp) => some (some (mkMatch (encStr ((cs.take e).drop b)) b subs dir grp)) := by
  unfold dirMatch
  rw [slice_spec hv hbe he, chop_get hv he]
  simp only [Option.bind_eq_bind, Option.bind_some]
  rfl

theorem dirmark_some {found : Nat} (h : found < Gen.dirmarks.length) : ∃ r, dirmark found = some r := by
  unfold dirmark
  rw [List.getElem?_eq_getElem h]
  exact ⟨_, rfl⟩

/-- the record built from lawful offsets on a valid subject of `n` characters lies in `[b, b + n]` -/
theorem mkMatch_inRange {ds : List Nat} (hv : ValidStr ds) {found : Nat} {subs : List Int}
    (hk : SubsOk (encStr ds) found subs) (b : Nat) (dir : Int) (grp : Nat) :
    let m := mkMatch (encStr ds) b subs dir grp
    b ≤ m.rBeg ∧ m.rBeg ≤ m.rEnd ∧ m.rEnd ≤ b + ds.length ∧
      m.rBeg ≤ m.cBeg ∧ m.cBeg ≤ m.cEnd ∧ m.cEnd ≤ m.rEnd ∧
      (m.rBeg < m.rEnd ↔ sub subs 0 < sub subs 1) := by
  have hb := hk.bnd ds hv rfl
  have b0 := hb 0 hk.lo
  have h1 : 0 ≤ sub subs 1 := Int.le_trans hk.lo hk.le
  have b1 := hb 1 h1
  have l1 := ucOff_le_length hv b1
  have m01 := ucOff_le_iff hv b0 b1
  have s01 := ucOff_lt_iff hv b0 b1
  have hle : (sub subs 0).toNat ≤ (sub subs 1).toNat := by have := hk.le; omega
  -- any set offset maps between the two ends
  have key : ∀ k, 0 ≤ sub subs k →
      ucOff (encStr ds) (sub subs 0).toNat ≤ ucOff (encStr ds) (sub subs k).toNat ∧
      ucOff (encStr ds) (sub subs k).toNat ≤ ucOff (encStr ds) (sub subs 1).toNat := by
    intro k hk0
    have bk := hb k hk0
    have := hk.inside k
    exact ⟨(ucOff_le_iff hv b0 bk).mpr (by omega), (ucOff_le_iff hv bk b1).mpr (by omega)⟩
  have hord := m01.mpr hle
  dsimp only [mkMatch]
  refine ⟨by omega, by omega, by omega, ?_, ?_, ?_, ?_⟩
  · split
    · next hg => have := key _ hg; omega
    · omega
  · by_cases hg : sub subs (grp * 2) ≥ 0 <;> by_cases hg' : sub subs (grp * 2 + 1) ≥ 0
    · rw [if_pos hg, if_pos hg']
      have := (ucOff_le_iff hv (hb _ hg) (hb _ hg')).mpr (by have := hk.grpLe grp hg hg'; omega)
      omega
    · rw [if_pos hg, if_neg hg']; have := key _ hg; omega
    · rw [if_neg hg, if_pos hg']; have := key _ hg'; omega
    · rw [if_neg hg, if_neg hg']; omega
  · split
    · next hg => have := key _ hg; omega
    · omega
  · have hlo := hk.lo
    have e : (sub subs 0).toNat < (sub subs 1).toNat ↔ sub subs 0 < sub subs 1 := by omega
    rw [← e, ← s01]
    omega

/-- **L2**.  For a valid UTF-8 line, `b ≤ e ≤` number of characters and a lawful oracle, `dir_match`
    does not trap, and a match it reports lies in the searched slice, its group inside it; it is
    non-empty exactly when the reported byte range is.  (`b < e` is what `dir_fix` guarantees; the
    statement holds for `b = e` too.) -/
theorem dirMatch_inRange {orc : Oracle} (ho : OracleOk orc) {cs : List Nat} (hv : ValidStr cs) {b e : Nat}
    (hbe : b ≤ e) (he : e ≤ cs.length) (ctx : Int) :
    ∃ r, dirMatch orc (encStr cs) (ucChop (encStr cs)) b e ctx = some r ∧
      ∀ m, r = some m →
        (b ≤ m.rBeg ∧ m.rBeg ≤ m.rEnd ∧ m.rEnd ≤ e ∧ m.rBeg ≤ m.cBeg ∧ m.cBeg ≤ m.cEnd ∧ m.cEnd ≤ m.rEnd) ∧
        ∃ found subs, orc (if ctx < 0 then 1 else 0) (encStr ((cs.take e).drop b))
            (matchFlags (encStr cs) b (byteOff cs e)) = some (found, subs) ∧
          (m.rBeg < m.rEnd ↔ sub subs 0 < sub subs 1) := by
  rw [dirMatch_valid orc hv hbe he ctx]
  cases ho' : orc (if ctx < 0 then 1 else 0) (encStr ((cs.take e).drop b))
      (matchFlags (encStr cs) b (byteOff cs e)) with
  | none => exact ⟨none, rfl, fun m hm => by cases hm⟩
  | some fs =>
    obtain ⟨found, subs⟩ := fs
    have hk : SubsOk _ found subs := ho _ _ _ found subs (by split <;> omega) ho'
    obtain ⟨⟨c, dir, grp⟩, hd⟩ := dirmark_some hk.idx
    simp only [hd]
    refine ⟨_, rfl, ?_⟩
    intro m hm
    cases hm
    have hlen : ((cs.take e).drop b).length = e - b := by
      rw [List.length_drop, List.length_take]; omega
    have := mkMatch_inRange (validStr_sub hv b e) hk b dir grp
    rw [hlen] at this
    dsimp only at this
    obtain ⟨h1, h2, h3, h4, h5, h6, h7⟩ := this
    exact ⟨⟨h1, h2, by omega, h4, h5, h6⟩, found, subs, rfl, h7⟩

/-! ### L3: the matcher of a line is lawful on the line -/

theorem lineChars_valid {cs : List Nat} (hv : ValidStr cs) : lineChars (encStr cs) = cs.length := by
  unfold lineChars; rw [chop_length hv]; rfl

theorem lineEnd_le (s : Bytes) : lineEnd s ≤ lineChars s := by unfold lineEnd; split <;> omega

/-- **L3**.  On a valid UTF-8 line the matcher `dir_reorder` hands to `dir_fix` is lawful on every
    slice of the line (in particular on `[0, lineEnd s)`). -/
theorem lineMatcher_lawful_chars {orc : Oracle} (ho : OracleOk' orc) {cs : List Nat} (hv : ValidStr cs) :
    LawfulOn (lineMatcher orc (encStr cs)) (lineChars (encStr cs)) := by
  intro b e dir hbe he
  rw [lineChars_valid hv] at he
  obtain ⟨r, hr, hlaw⟩ := dirMatch_inRange ho.1 hv (Nat.le_of_lt hbe) he dir
  refine ⟨r, hr, ?_⟩
  intro m hm
  obtain ⟨⟨h1, h2, h3, h4, h5, h6⟩, found, subs, hf, hne⟩ := hlaw m hm
  have := hne.mpr (ho.2 _ _ _ found subs (by split <;> omega) hf)
  exact ⟨h1, this, h3, h4, h5, h6⟩

theorem lineMatcher_lawful_on {orc : Oracle} (ho : OracleOk' orc) {cs : List Nat} (hv : ValidStr cs) :
    LawfulOn (lineMatcher orc (encStr cs)) (lineEnd (encStr cs)) :=
  lawfulOn_mono (lineMatcher_lawful_chars ho hv) (lineEnd_le _)

/-! ### L4 -/

/-- **L4**: `C18b.reorder_runs` with the range and non-emptiness hypotheses discharged from the law
    about the oracle, for a valid UTF-8 line. -/
theorem reorder_runs_of_oracle (orc : Oracle) (ho : OracleOk' orc) (xtd : Int) {cs : List Nat}
    (hv : ValidStr cs) (ord : List Nat) {ms : List DMatch}
    (hs : Scan (lineMatcher orc (encStr cs)) (dirContext orc xtd (encStr cs)) (lineEnd (encStr cs)) 0 ms)
    (hflat : ∀ m ∈ ms, m.cRec = false) (hlen : lineChars (encStr cs) ≤ ord.length) :
    ∃ ord', dirReorder orc xtd (encStr cs) ord = some ord' ∧ ord'.length = ord.length ∧
      (∀ m ∈ ms, Opp (dirContext orc xtd (encStr cs)) m → ∀ p, m.rBeg ≤ p → p < m.rEnd →
        ord'[p]? = ord[m.rBeg + m.rEnd - 1 - p]?) ∧
      (lineNl (encStr cs) = true → ord'[lineChars (encStr cs) - 1]? = some (lineChars (encStr cs) - 1)) ∧
      (∀ p, (lineNl (encStr cs) = true → p ≠ lineChars (encStr cs) - 1) →
        (∀ m ∈ ms, Opp (dirContext orc xtd (encStr cs)) m → ¬ (m.rBeg ≤ p ∧ p < m.rEnd)) →
        ord'[p]? = ord[p]?) := by
  have hc := scan_chained_on (lineMatcher_lawful_on ho hv) (Nat.le_refl _) hs
  refine reorder_runs orc xtd (encStr cs) ord hs hflat ?_ hlen
  intro m hm
  have := chained_mem hc m hm
  unfold InRange at this
  omega

/-- the scan that `reorder_runs_of_oracle` takes as a hypothesis always exists (and is unique,
    `C18b.scan_unique`) -/
theorem line_scan_exists (orc : Oracle) (ho : OracleOk' orc) (xtd : Int) {cs : List Nat} (hv : ValidStr cs) :
    ∃ ms, Scan (lineMatcher orc (encStr cs)) (dirContext orc xtd (encStr cs)) (lineEnd (encStr cs)) 0 ms :=
  scan_exists_on (lineMatcher_lawful_on ho hv) _ (Nat.le_refl _) 0

/-- with nested groups allowed: on a valid UTF-8 line and a lawful oracle `dir_reorder` never traps,
    keeps the length and leaves every position from `lineEnd` on as `setLast` made it (`C18.fix_frame`) -/
theorem reorder_total_of_oracle (orc : Oracle) (ho : OracleOk' orc) (xtd : Int) {cs : List Nat}
    (hv : ValidStr cs) (ord : List Nat) (hlen : lineChars (encStr cs) ≤ ord.length) :
    ∃ ord', dirReorder orc xtd (encStr cs) ord = some ord' ∧ ord'.length = ord.length ∧
      ord'.drop (lineEnd (encStr cs)) =
        (setLast ord (lineNl (encStr cs)) (lineChars (encStr cs) - 1)).drop (lineEnd (encStr cs)) := by
  have hsl : (setLast ord (lineNl (encStr cs)) (lineChars (encStr cs) - 1)).length = ord.length := by
    unfold setLast; split <;> simp
  have hend := lineEnd_le (encStr cs)
  obtain ⟨ord', h1, h2, _, h4⟩ := fix_frame_on (lineMatcher_lawful_on ho hv) (lineEnd (encStr cs) + 1)
    (setLast ord (lineNl (encStr cs)) (lineChars (encStr cs) - 1)) (dirContext orc xtd (encStr cs))
    0 (lineEnd (encStr cs)) (Nat.le_refl _) (by omega) (by rw [hsl]; omega)
  exact ⟨ord', by rw [dirReorder_eq]; exact h1, by rw [h2, hsl], h4⟩

/-- `C18b.fix_nested_pos` for the line: position-wise description of `dir_reorder` along the top-level
    scan, nested groups allowed, no range hypothesis -/
theorem reorder_nested_of_oracle (orc : Oracle) (ho : OracleOk' orc) (xtd : Int) {cs : List Nat}
    (hv : ValidStr cs) (ord : List Nat) {ms : List DMatch}
    (hs : Scan (lineMatcher orc (encStr cs)) (dirContext orc xtd (encStr cs)) (lineEnd (encStr cs)) 0 ms)
    (hlen : lineChars (encStr cs) ≤ ord.length) :
    let s := encStr cs
    let ord0 := setLast ord (lineNl s) (lineChars s - 1)
    ∃ ord', dirReorder orc xtd s ord = some ord' ∧ ord'.length = ord.length ∧
      (∀ m ∈ ms, ∀ p, m.rBeg ≤ p → p < m.rEnd →
        ord'[p]? = ord0[stepIdx (decide (dirContext orc xtd s < 0)) m
          (if m.cRec then fixIdx (lineMatcher orc s) (lineEnd s + 1) m.cDir (recBeg m) m.cEnd p else p)]?) ∧
      (∀ p, (∀ m ∈ ms, ¬ (m.rBeg ≤ p ∧ p < m.rEnd)) → ord'[p]? = ord0[p]?) := by
  dsimp only
  have hsl : (setLast ord (lineNl (encStr cs)) (lineChars (encStr cs) - 1)).length = ord.length := by
    unfold setLast; split <;> simp
  have hend := lineEnd_le (encStr cs)
  obtain ⟨ord', h1, h2, h3, h4⟩ := fix_nested_pos_on (lineMatcher_lawful_on ho hv) (Nat.le_refl _) hs
    (lineEnd (encStr cs) + 1) (setLast ord (lineNl (encStr cs)) (lineChars (encStr cs) - 1))
    (by rw [hsl]; omega) (by omega)
  exact ⟨ord', by rw [dirReorder_eq]; exact h1, by rw [h2, hsl], h3, h4⟩

/-! ### L6: non-vacuity -/

/-- the two notions of boundary are the same predicate -/
theorem isBoundary_iff (cs : List Nat) (k : Nat) : IsBoundary cs k ↔ C11b.Boundary cs k := Iff.rfl

theorem validStr_iff (cs : List Nat) : ValidStr cs ↔ C11b.Valid cs := Iff.rfl

/-- the line `a ب ة b \n` -/
def toyCps : List Nat := [0x61, 0x628, 0x629, 0x62, 10]

/-- a toy oracle: in the left-to-right set it knows the subject `a ب ة b` and reports the two Arabic
    letters (bytes `[1, 5)`) as a right-to-left run (row 1 of `dirmarks`); nothing else matches -/
def toyOrc : Oracle := fun which str _ =>
  if which == 0 && str == encStr [0x61, 0x628, 0x629, 0x62] then some (1, [1, 5]) else none

theorem toyOrc_ok : OracleOk' toyOrc := by
  have key : ∀ which str flg found subs, toyOrc which str flg = some (found, subs) →
      str = encStr [0x61, 0x628, 0x629, 0x62] ∧ found = 1 ∧ subs = [1, 5] := by
    intro which str flg found subs h
    unfold toyOrc at h
    split at h
    · next hc =>
      simp only [Bool.and_eq_true, beq_iff_eq] at hc
      cases h
      exact ⟨hc.2, rfl, rfl⟩
    · cases h
  constructor
  · intro which str flg found subs _ h
    obtain ⟨rfl, rfl, rfl⟩ := key _ _ _ _ _ h
    have hsub : ∀ k, sub [1, 5] k = if k = 0 then 1 else if k = 1 then 5 else -1 := by
      intro k
      match k with
      | 0 => rfl
      | 1 => rfl
      | k + 2 => simp [sub]
    refine ⟨by decide, by decide, by decide, by decide, ?_, ?_, ?_⟩
    · intro k
      rw [hsub k]
      split
      · right; decide
      · split
        · right; decide
        · left; decide
    · intro g
      rw [hsub, hsub]
      split
      · split
        · omega
        · split
          · omega
          · omega
      · split
        · omega
        · omega
    · intro cs hv hs k hk
      rw [hsub k] at hk ⊢
      have hlit : ∀ ls, C11b.Valid ls → (encStr cs).take (encStr ls).length = encStr ls →
          IsBoundary cs (encStr ls).length := by
        intro ls hl hm
        have := C11b.boundary_literal (cs := cs) (ls := ls) hv hl (C11b.boundary_zero cs)
          (by rw [List.drop_zero]; exact hm)
        rwa [Nat.zero_add] at this
      split
      · exact hlit [0x61] (by decide) (by rw [← hs]; decide)
      · split
        · exact hlit [0x61, 0x628, 0x629] (by decide) (by rw [← hs]; decide)
        · next h0 h1 => rw [if_neg h0, if_neg h1] at hk; omega
  · intro which str flg found subs _ h
    obtain ⟨rfl, rfl, rfl⟩ := key _ _ _ _ _ h
    decide

example : ValidStr toyCps := by decide
example : encStr toyCps = [97, 216, 168, 216, 169, 98, 10] := by decide
example : dirReorder toyOrc 1 (encStr toyCps) (List.range 5) = some [0, 2, 1, 3, 4] := by decide +kernel

/-- `reorder_runs_of_oracle` applies to the toy line: the hypotheses hold, and the conclusion says
    that positions 1 and 2 (the Arabic run) are exchanged -/
example : ∃ ord', dirReorder toyOrc 1 (encStr toyCps) (List.range 5) = some ord' ∧ ord'.length = 5 ∧
    ord'[1]? = some 2 ∧ ord'[2]? = some 1 ∧ ord'[0]? = some 0 ∧ ord'[3]? = some 3 ∧ ord'[4]? = some 4 := by
  have hs : Scan (lineMatcher toyOrc (encStr toyCps)) (dirContext toyOrc 1 (encStr toyCps))
      (lineEnd (encStr toyCps)) 0 [⟨1, 3, 1, 3, -1, false⟩] :=
    scan_of_matchesFrom _ _ 5 _ _ _ (by decide +kernel)
  have hctx : dirContext toyOrc 1 (encStr toyCps) = 1 := by decide +kernel
  have hnl : lineNl (encStr toyCps) = true ∧ lineChars (encStr toyCps) = 5 := by decide +kernel
  obtain ⟨ord', h1, h2, h3, h4, h5⟩ := reorder_runs_of_oracle toyOrc toyOrc_ok 1 (cs := toyCps) (by decide)
    (List.range 5) hs (by decide) (by rw [hnl.2]; decide)
  rw [hctx] at h3 h5
  rw [hnl.2] at h4 h5
  have hopp : Opp 1 ⟨1, 3, 1, 3, -1, false⟩ := by decide
  refine ⟨ord', h1, by simpa using h2, ?_, ?_, ?_, ?_, ?_⟩
  · exact h3 _ List.mem_cons_self hopp 1 (by decide) (by decide)
  · exact h3 _ List.mem_cons_self hopp 2 (by decide) (by decide)
  · rw [h5 0 (fun _ => by decide) (fun m hm _ => by simp at hm; subst hm; decide)]; rfl
  · rw [h5 3 (fun _ => by decide) (fun m hm _ => by simp at hm; subst hm; decide)]; rfl
  · exact h4 hnl.1

/-! ### L5: the concrete oracle `Vi.dirOracle` (the regex model on the sets compiled from `dirmarks`) -/

/-- the clauses of `SubsOk` that follow from C11 / C11b: the index, `0 ≤ so`, every offset `-1` or
    inside the subject, every set offset on a boundary -/
structure SubsRangeOk (str : Bytes) (found : Nat) (subs : List Int) : Prop where
  idx : found < Gen.dirmarks.length
  lo : 0 ≤ sub subs 0
  range : ∀ k, sub subs k = -1 ∨ (0 ≤ sub subs k ∧ sub subs k ≤ (str.length : Int))
  bnd : ∀ cs, ValidStr cs → str = encStr cs → ∀ k, 0 ≤ sub subs k → IsBoundary cs (sub subs k).toNat

/-- the clauses that are about the *order* of the offsets of nested groups -/
structure SubsNested (subs : List Int) : Prop where
  le : sub subs 0 ≤ sub subs 1
  inside : ∀ k, sub subs k < 0 ∨ (sub subs 0 ≤ sub subs k ∧ sub subs k ≤ sub subs 1)
  grpLe : ∀ g, 0 ≤ sub subs (g * 2) → 0 ≤ sub subs (g * 2 + 1) → sub subs (g * 2) ≤ sub subs (g * 2 + 1)

theorem subsOk_of {str : Bytes} {found : Nat} {subs : List Int} (h1 : SubsRangeOk str found subs)
    (h2 : SubsNested subs) : SubsOk str found subs :=
  ⟨h1.idx, h1.lo, h2.le, by rcases h1.range 1 with h | h <;> omega, h2.inside, h2.grpLe, h1.bnd⟩

/-- decoder used to exhibit the code points of the configured patterns -/
def decStr : Nat → Bytes → List Nat
  | 0, _ => []
  | f + 1, s =>
    match s with
    | [] => []
    | _ :: _ => let c := (ucCode s).getD 0; c :: decStr f (s.drop (enc c).length)

/-- the two pattern lists of `dir_init` -/
def lrPats : List (Option Bytes) := Gen.dirmarks.map (fun m => if m.1 ≥ 0 then some m.2.2.2 else none)
def rlPats : List (Option Bytes) := Gen.dirmarks.map (fun m => if m.1 ≤ 0 then some m.2.2.2 else none)

/-- the combined patterns `((p0)|(p1)|…)` of the two mark sets are valid UTF-8 -/
theorem lrPats_valid : ∃ ps, C11b.Valid ps ∧ encStr ps = Rset.combined lrPats :=
  ⟨decStr 4000 (Rset.combined lrPats), by decide +kernel, by decide +kernel⟩
theorem rlPats_valid : ∃ ps, C11b.Valid ps ∧ encStr ps = Rset.combined rlPats :=
  ⟨decStr 4000 (Rset.combined rlPats), by decide +kernel, by decide +kernel⟩

/-- a set made by `rset_make(.., 0)` from a pattern list whose combined text is valid UTF-8 -/
def GoodSet (rs : Rset.RSet) : Prop :=
  rs.n = Gen.dirmarks.length ∧ ∃ ps, C11b.Valid ps ∧ Regex.regcomp (encStr ps) 1 = some (some rs.prog)

theorem goodSet_of_make {pats : List (Option Bytes)} {rs : Rset.RSet} (hl : pats.length = Gen.dirmarks.length)
    (hv : ∃ ps, C11b.Valid ps ∧ encStr ps = Rset.combined pats) (h : Rset.make pats 0 = some (some rs)) :
    GoodSet rs := by
  obtain ⟨h1, h2⟩ := make_spec pats 0 rs h
  obtain ⟨ps, hps, he⟩ := hv
  exact ⟨by rw [h2, hl], ps, hps, by rw [he]; exact h1⟩

/-- what `rset_find` on a good set reports -/
theorem goodSet_find {rs : Rset.RSet} (hg : GoodSet rs) {str : Bytes} {flg nd ngrps : Nat} {set : Int}
    {out : List Int} {c : Nat} (h : Rset.find rs str 16 flg nd ngrps = some (set, out, c)) (hset : 0 ≤ set) :
    SubsRangeOk str set.toNat out := by
  obtain ⟨rflg, m, c', offs, hex, h1, h2, h3⟩ := find_offsets rs str 16 flg nd ngrps set out c h hset
  obtain ⟨hn, ps, hps, hc⟩ := hg
  refine ⟨by omega, h2 (by decide), ?_, ?_⟩
  · intro k
    exact h3 (InSubj str.length) (Or.inl rfl) (regexec_range _ _ _ _ _ _ _ _ _ hex) k
  · intro cs hv hs k hk
    subst hs
    have hb := (C11b.offsets_on_boundaries ps cs hps hv 1 rflg rs.grpcnt nd ngrps rs.prog hc m c' offs hex).2
    have := h3 (C11b.OffB cs) (Or.inl rfl) hb k
    rcases this with hneg | ⟨j, hj, hbj⟩
    · have : sub out k = -1 := hneg
      omega
    · have : sub out k = (j : Int) := hj
      rw [this, Int.toNat_natCast]
      exact hbj

/-- how `Vi.dirOracle` answers on the two mark sets: `rset_find` with 16 group slots on a set made by
    `rset_make(.., 0)` from the left-to-right or the right-to-left pattern list of `dirmarks` -/
theorem dirOracle_find {which : Nat} {str : Bytes} {flg found : Nat} {subs : List Int} (hw : which ≤ 1)
    (h : Vi.dirOracle which str flg = some (found, subs)) :
    ∃ pats rs set cuts, (pats = lrPats ∨ pats = rlPats) ∧ Rset.make pats 0 = some (some rs) ∧
      Rset.find rs str 16 flg Gen.NDEPT Gen.NGRPS = some (set, subs, cuts) ∧ 0 ≤ set ∧ found = set.toNat := by
  unfold Vi.dirOracle at h
  cases hd : Vi.dirSets with
  | none => rw [hd] at h; cases h
  | some abc =>
    obtain ⟨a, b, c⟩ := abc
    rw [hd] at h
    dsimp only at h
    have hab : Rset.make lrPats 0 = some (some a) ∧ Rset.make rlPats 0 = some (some b) := by
      unfold Vi.dirSets at hd
      dsimp only at hd
      split at hd
      · next a' b' c' ha hb hc => cases hd; exact ⟨ha, hb⟩
      · cases hd
    have h16 : (if (which == 2) = true then 0 else 16) = 16 := by
      rw [if_neg]; simp; omega
    rw [h16] at h
    split at h
    · next set grps cuts hf =>
      split at h
      · cases h
      · next hneg =>
        cases h
        by_cases h0 : which = 0
        · subst h0
          exact ⟨lrPats, a, set, cuts, Or.inl rfl, hab.1, hf, by omega, rfl⟩
        · have h1 : which = 1 := by omega
          subst h1
          exact ⟨rlPats, b, set, cuts, Or.inr rfl, hab.2, hf, by omega, rfl⟩
    · cases h

/-- **L5, the part that C11 / C11b give**: on every subject the oracle built from the regex model
    (`Vi.dirOracle`: `rset_find` on the sets compiled from `dirmarks`) reports a valid table index,
    `0 ≤ so`, offsets that are `-1` or inside the subject, and — on a valid UTF-8 subject — on
    character boundaries. -/
theorem dirOracle_range {which : Nat} {str : Bytes} {flg found : Nat} {subs : List Int} (hw : which ≤ 1)
    (h : Vi.dirOracle which str flg = some (found, subs)) : SubsRangeOk str found subs := by
  obtain ⟨pats, rs, set, cuts, hp, hmk, hf, hset, rfl⟩ := dirOracle_find hw h
  refine goodSet_find ?_ hf hset
  rcases hp with rfl | rfl
  · exact goodSet_of_make (List.length_map _) lrPats_valid hmk
  · exact goodSet_of_make (List.length_map _) rlPats_valid hmk

/-- the combined trees `((p0)|(p1)|…)` of the two sets have the shape `find_nested` asks for: the
    top-level alternatives are groups taken once (numbers 2, 4, 5, 7 and 2, 4, 5, 7, 9), none writes
    the marks of another, and the group table of `rset_make` points at them -/
theorem lrPats_check : setCheck Gen.NGRPS lrPats = true := by decide +kernel
theorem rlPats_check : setCheck Gen.NGRPS rlPats = true := by decide +kernel

/-- … and no pattern of either set can match the empty string: on every path through each
    alternative there is a bracket expression (or `.`) taken at least once -/
theorem lrPats_consumes : setConsumes lrPats = true := by decide +kernel
theorem rlPats_consumes : setConsumes rlPats = true := by decide +kernel

theorem dirOracle_find_nested {which : Nat} {str : Bytes} {flg found : Nat} {subs : List Int} (hw : which ≤ 1)
    (h : Vi.dirOracle which str flg = some (found, subs)) : SubsNested subs ∧ sub subs 0 < sub subs 1 := by
  obtain ⟨pats, rs, set, cuts, hp, hmk, hf, hset, _⟩ := dirOracle_find hw h
  have hchk : setCheck Gen.NGRPS pats = true ∧ setConsumes pats = true := by
    rcases hp with rfl | rfl
    · exact ⟨lrPats_check, lrPats_consumes⟩
    · exact ⟨rlPats_check, rlPats_consumes⟩
  obtain ⟨h1, h2, h3, h4⟩ := find_nested hmk (by decide) (by decide) hchk.1 (by decide) hf hset
  exact ⟨⟨h1, h2, h3⟩, h4 hchk.2⟩

/-- **L5, the order clauses** (from the declarative semantics `C10.Matches` of the regex VM,
    `C10.regexec_sound`): the whole-match offsets the concrete oracle reports are ordered, every
    other offset is unset or inside them, no group pair is inverted. -/
theorem dirOracle_nested {which : Nat} {str : Bytes} {flg found : Nat} {subs : List Int} (hw : which ≤ 1)
    (h : Vi.dirOracle which str flg = some (found, subs)) : SubsNested subs :=
  (dirOracle_find_nested hw h).1

/-- **L5, non-emptiness**: a match the concrete oracle reports is never empty.  This is the property
    of the configured patterns announced at `OracleOk'`: checked on their parse trees (`setConsumes`)
    and transported through `C10.regexec_sound`. -/
theorem dirOracle_nonempty {which : Nat} {str : Bytes} {flg found : Nat} {subs : List Int} (hw : which ≤ 1)
    (h : Vi.dirOracle which str flg = some (found, subs)) : sub subs 0 < sub subs 1 :=
  (dirOracle_find_nested hw h).2

/-- **L5**: the oracle built from the regex model satisfies the law `OracleOk` — every clause of it,
    on every subject -/
theorem dirOracle_ok : OracleOk Vi.dirOracle :=
  fun _ _ _ _ _ hw h => subsOk_of (dirOracle_range hw h) (dirOracle_nested hw h)

/-- … and `OracleOk'` -/
theorem dirOracle_ok' : OracleOk' Vi.dirOracle :=
  ⟨dirOracle_ok, fun _ _ _ _ _ hw h => dirOracle_nonempty hw h⟩

/-- the end-to-end statement for the editor's own oracle: `reorder_runs_of_oracle` with `Vi.dirOracle`,
    no hypothesis about the oracle left -/
theorem reorder_runs_dirOracle (xtd : Int) {cs : List Nat} (hv : ValidStr cs) (ord : List Nat) {ms : List DMatch}
    (hs : Scan (lineMatcher Vi.dirOracle (encStr cs)) (dirContext Vi.dirOracle xtd (encStr cs))
      (lineEnd (encStr cs)) 0 ms)
    (hflat : ∀ m ∈ ms, m.cRec = false) (hlen : lineChars (encStr cs) ≤ ord.length) :
    ∃ ord', dirReorder Vi.dirOracle xtd (encStr cs) ord = some ord' ∧ ord'.length = ord.length ∧
      (∀ m ∈ ms, Opp (dirContext Vi.dirOracle xtd (encStr cs)) m → ∀ p, m.rBeg ≤ p → p < m.rEnd →
        ord'[p]? = ord[m.rBeg + m.rEnd - 1 - p]?) ∧
      (lineNl (encStr cs) = true → ord'[lineChars (encStr cs) - 1]? = some (lineChars (encStr cs) - 1)) ∧
      (∀ p, (lineNl (encStr cs) = true → p ≠ lineChars (encStr cs) - 1) →
        (∀ m ∈ ms, Opp (dirContext Vi.dirOracle xtd (encStr cs)) m → ¬ (m.rBeg ≤ p ∧ p < m.rEnd)) →
        ord'[p]? = ord[p]?) :=
  reorder_runs_of_oracle Vi.dirOracle dirOracle_ok' xtd hv ord hs hflat hlen

/-- the editor's `dir_reorder` never traps on a valid UTF-8 line (nested groups included) and keeps
    the length -/
theorem reorder_total_dirOracle (xtd : Int) {cs : List Nat} (hv : ValidStr cs) (ord : List Nat)
    (hlen : lineChars (encStr cs) ≤ ord.length) :
    ∃ ord', dirReorder Vi.dirOracle xtd (encStr cs) ord = some ord' ∧ ord'.length = ord.length := by
  obtain ⟨ord', h1, h2, _⟩ := reorder_total_of_oracle Vi.dirOracle dirOracle_ok' xtd hv ord hlen
  exact ⟨ord', h1, h2⟩

/-! ### non-vacuity for the concrete oracle -/

/-- the three sets of `dir_init` compile (otherwise `Vi.dirOracle` would never answer) -/
theorem dirSets_isSome : Vi.dirSets.isSome = true := by decide +kernel

/-- `dir_match` when the oracle answers / does not answer -/
theorem dirMatch_of_some {orc : Oracle} {cs : List Nat} (hv : ValidStr cs) {b e : Nat} (hbe : b ≤ e)
    (he : e ≤ cs.length) (ctx : Int) {found : Nat} {subs : List Int} {c dir : Int} {grp : Nat}
    (ho : orc (if ctx < 0 then 1 else 0) (encStr ((cs.take e).drop b))
      (matchFlags (encStr cs) b (byteOff cs e)) = some (found, subs))
    (hd : dirmark found = some (c, dir, grp)) :
    lineMatcher orc (encStr cs) b e ctx = some (some (mkMatch (encStr ((cs.take e).drop b)) b subs dir grp)) := by
  unfold lineMatcher
  rw [dirMatch_valid orc hv hbe he ctx, ho]
  simp only [hd]

theorem dirMatch_of_none {orc : Oracle} {cs : List Nat} (hv : ValidStr cs) {b e : Nat} (hbe : b ≤ e)
    (he : e ≤ cs.length) (ctx : Int)
    (ho : orc (if ctx < 0 then 1 else 0) (encStr ((cs.take e).drop b))
      (matchFlags (encStr cs) b (byteOff cs e)) = none) :
    lineMatcher orc (encStr cs) b e ctx = some none := by
  unfold lineMatcher
  rw [dirMatch_valid orc hv hbe he ctx, ho]

/-- the editor's own oracle on the line `a ب ة b \n` of L6 (evaluated in the kernel through the
    fuel-bounded copy of the VM, `dirOracleF_sound`): the context is left-to-right, the two Arabic
    letters are found as a right-to-left run, nothing is found after it -/
theorem real_context : dirContext Vi.dirOracle 1 (encStr toyCps) = 1 := by
  have o : Vi.dirOracle 2 (encStr toyCps) 0 = some (1, []) := dirOracleF_sound (fuel := 100) (by decide +kernel)
  unfold dirContext
  rw [o]
  decide

theorem real_scan : Scan (lineMatcher Vi.dirOracle (encStr toyCps)) (dirContext Vi.dirOracle 1 (encStr toyCps))
    (lineEnd (encStr toyCps)) 0 [⟨1, 3, 1, 3, -1, false⟩] := by
  have hv : ValidStr toyCps := by decide
  have he : lineEnd (encStr toyCps) = 4 := by decide +kernel
  rw [real_context, he]
  have o1 : Vi.dirOracle (if (1 : Int) < 0 then 1 else 0) (encStr ((toyCps.take 4).drop 0))
      (matchFlags (encStr toyCps) 0 (byteOff toyCps 4)) = some (1, [1, 5] ++ List.replicate 30 (-1)) :=
    dirOracleF_sound (fuel := 100) (by decide +kernel)
  have o2 : Vi.dirOracle (if (1 : Int) < 0 then 1 else 0) (encStr ((toyCps.take 4).drop 3))
      (matchFlags (encStr toyCps) 3 (byteOff toyCps 4)) = none :=
    dirOracleF_sound (fuel := 100) (by decide +kernel)
  have m1 := dirMatch_of_some hv (b := 0) (e := 4) (by decide) (by decide) 1 o1
    (c := 1) (dir := -1) (grp := 0) (by decide)
  have m2 := dirMatch_of_none hv (b := 3) (e := 4) (by decide) (by decide) 1 o2
  have hm : mkMatch (encStr ((toyCps.take 4).drop 0)) 0 ([1, 5] ++ List.replicate 30 (-1)) (-1) 0 =
      ⟨1, 3, 1, 3, -1, false⟩ := by decide +kernel
  rw [hm] at m1
  exact Scan.next (by decide) m1 (Scan.stop (by decide) m2)

/-- `reorder_runs_dirOracle` on that line: the editor's `dir_reorder` returns an order in which
    positions 1 and 2 (the Arabic run) are exchanged and everything else stays -/
example : ∃ ord', dirReorder Vi.dirOracle 1 (encStr toyCps) (List.range 5) = some ord' ∧ ord'.length = 5 ∧
    ord'[0]? = some 0 ∧ ord'[1]? = some 2 ∧ ord'[2]? = some 1 ∧ ord'[3]? = some 3 ∧ ord'[4]? = some 4 := by
  have hnl : lineNl (encStr toyCps) = true ∧ lineChars (encStr toyCps) = 5 := by decide +kernel
  obtain ⟨ord', h1, h2, h3, h4, h5⟩ := reorder_runs_dirOracle 1 (cs := toyCps) (by decide)
    (List.range 5) real_scan (by decide) (by rw [hnl.2]; decide)
  rw [real_context] at h3 h5
  rw [hnl.2] at h4 h5
  have hopp : Opp 1 ⟨1, 3, 1, 3, -1, false⟩ := by decide
  refine ⟨ord', h1, by simpa using h2, ?_, ?_, ?_, ?_, ?_⟩
  · rw [h5 0 (fun _ => by decide) (fun m hm _ => by simp at hm; subst hm; decide)]; rfl
  · exact h3 _ List.mem_cons_self hopp 1 (by decide) (by decide)
  · exact h3 _ List.mem_cons_self hopp 2 (by decide) (by decide)
  · rw [h5 3 (fun _ => by decide) (fun m hm _ => by simp at hm; subst hm; decide)]; rfl
  · exact h4 hnl.1

end Neatvi.Props.C18c
