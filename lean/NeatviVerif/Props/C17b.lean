import NeatviVerif.Lemmas.C17bModel
import NeatviVerif.Lemmas.C07Ren
import NeatviVerif.Props.C18
/-!
# C17b  The cursor / column mapping functions built on the position table

The clauses of C17 that are about `pos_prev`, `pos_next`, `ren_off`, `ren_next`, `ren_cursor`
(`Model/Ren.lean`), stated for *any* table that satisfies the invariant a tiling guarantees:

* `ColTable pos n` (`Lemmas/C17bSpec.lean`): `n + 1` entries, the columns of the `n` characters
  pairwise distinct, the end column beyond every character's column;
* `Tiled cps pos` (`Lemmas/C17bTiling.lean`): `ColTable`, plus: every cell is at least one column
  wide, no character starts inside the cell range `[pos[i], pos[i] + width)` of another, and where
  the range ends another character starts or the line ends.

§0 establishes them: `tiling_colTable`, `tiling_tiled` (every `isTiling` table of valid code points);
`renPosition_tiled`, `renPosition_colTable` (every table the model's `ren_position` computes for a
valid UTF-8 line, reordered or not); `renPosition_colTable_bytes` (`ColTable` for every NUL-free
line, valid UTF-8 or not); `fast_strictInc`, `fast_strictInc_bytes`, `strictInc_colTable` (the
left-to-right table is increasing).

Vocabulary (`Lemmas/C17bSpec.lean`, `Lemmas/C17bCursor.lean`):
`IsGreatest pos n P i` / `IsLeast pos n P i`: character `i < n` has the greatest / least column
among the characters whose column satisfies `P`; `NoCol pos n P`: no character's column does;
`PrevP p cur x` is `x ≤ p` (`cur`) or `x < p`; `NextP p cur x` is `p ≤ x` (`cur`) or `p < x`;
`LastCellOf pos n i c`: `c + 1` is the least column to the right of character `i`, or the end column.

* §1 `posPrev_spec`, `posNext_spec` (and `_unfolded`)
* §2 `renOffT_spec`, `renOffT_eq_iff`, `renPosT_renOffT`, `renPosT_renOffT_le`, `renOffT_renPosT`
* §3 `renNextT_right`, `renNextT_left`; determined forms `renNextT_right_eq`, `renNextT_right_none`,
  `renNextT_left_eq`, `renNextT_left_none`, `renNextT_right_from_none`; `renNextT_back`;
  increasing tables: `renNextT_inc_right`, `renNextT_inc_left` (+ `_last`, `_first`),
  `renOffT_renNextT_inc`, `renOffT_renNextT_inc_left`;
  valid UTF-8 lines: `fast_next_char`, `fast_prev_char` (left-to-right table),
  `renPosition_next_right`, `renPosition_next_left` (+ `_none`) (the model's table, the judged clause)
* §4 `renCursorT_spec`, `renCursorT_spec_nl`, `renCursorT_nl_first`, `renCursorT_none`;
  tiled tables: `lastCellOf_tiled`, `renCursorT_tiled`, `renCursorT_tiling`, `renPosition_cursor`
  (the last cell of the character's cell range, for every column of the range);
  increasing tables: `renCursorT_inc`, `renCursorT_inc_nl`
* §5 `cursor_noeol`, `cursor_noeol_model`, `cells_disjoint`, `cursor_never_on_newline`: with
  `ren_noeol`, the cursor cell of a non-empty line is never the newline's
* §6 counterexamples (`decide`)

Nothing here is `_partial`: every clause is proved at the strength stated in the property, for all
tables satisfying the invariant; `ColTable` is proved for the model's tables of every NUL-free line,
`Tiled` (which mentions the reference `cellWidth` of code points) for valid UTF-8 lines, the same
restriction as C17's `cwid_spec`.
-/
namespace Neatvi.Props.C17b
open Neatvi Neatvi.Uc Neatvi.Spec Neatvi.Ren Neatvi.Lemmas.C17b

/-! ## 0. the invariant -/

/-- a gap-free tiling of valid code points satisfies the table invariant: every cell is at least
    one column wide (`C17.cwid_pos`), so the columns are pairwise distinct and below the total -/
theorem tiling_colTable (cps pos : List Nat) (hv : ∀ c ∈ cps, ValidCp c) (h : isTiling cps pos = true) :
    ColTable pos cps.length :=
  colTable_of_tiling cps pos (fun k hk col => C17.cwid_pos (hv _ (by
    rw [List.getD_eq_getElem?_getD, List.getElem?_eq_getElem hk]; exact List.getElem_mem _)) col) h

/-- ... and has the facts `Tiled` (`Lemmas/C17bTiling.lean`): besides the invariant, where the cell
    range `[pos[i], pos[i] + width)` of a character ends another character starts or the line ends,
    and no character starts inside it -/
theorem tiling_tiled (cps pos : List Nat) (hv : ∀ c ∈ cps, ValidCp c) (h : isTiling cps pos = true) :
    Tiled cps pos :=
  tiled_of_isTiling cps pos (fun _ hk col => C17.cwid_pos (hv _ (getD_mem_of_lt hk)) col) h

/-- every table `ren_position` computes for a valid UTF-8 line is tiled (hence satisfies the
    invariant): the left-to-right one, and the reordered one for the permutation `dir_reorder`
    returns (`C18.reorder_perm`, `C17.reorder_tiling`) -/
theorem renPosition_tiled (orc : Dir.Oracle) (o : Opts) (cps : List Nat) (hv : ∀ c ∈ cps, ValidCp c)
    (pos : List Nat) (h : renPosition orc o (encStr cps) = some pos) : Tiled cps pos := by
  unfold renPosition at h
  simp only [C16.slen_spec hv] at h
  split at h
  · split at h
    · cases hord : Dir.dirReorder orc o.xtd (encStr cps) (List.range cps.length) with
      | none => rw [hord] at h; simp at h
      | some ord =>
        rw [hord] at h
        simp only [Option.bind_eq_bind, Option.bind_some] at h
        exact reorder_tiled cps hv ord (C18.reorder_perm _ _ _ _ _ hord) pos h
    · simp only [Option.bind_eq_bind, Option.bind_some] at h
      exact reorder_tiled cps hv _ (List.Perm.refl _) pos h
  · cases h; exact fast_tiled cps hv

theorem renPosition_colTable (orc : Dir.Oracle) (o : Opts) (cps : List Nat) (hv : ∀ c ∈ cps, ValidCp c)
    (pos : List Nat) (h : renPosition orc o (encStr cps) = some pos) : ColTable pos cps.length :=
  (renPosition_tiled orc o cps hv pos h).table

/-- an increasing table satisfies the invariant -/
theorem strictInc_colTable {pos : List Nat} {n : Nat} (h : StrictInc pos n) : ColTable pos n := by
  refine ⟨h.1, ?_, fun i hi => h.2 i n hi (Nat.le_refl _)⟩
  intro i j hi hj he
  by_cases h1 : i < j
  · have := h.2 i j h1 (by omega); omega
  · by_cases h2 : j < i
    · have := h.2 j i h2 (by omega); omega
    · omega

/-- the left-to-right table (`ren_position` without reordering) of a valid UTF-8 line is increasing -/
theorem fast_strictInc (cps : List Nat) (hv : ∀ c ∈ cps, ValidCp c) :
    StrictInc (renPositionFast (encStr cps)) cps.length := by
  rw [C17.fast_is_layout]
  have hlen := chrs_enc_length hv
  refine ⟨by simp [layout_length, hlen], ?_⟩
  intro i j hij hj
  apply fastTable_strict _ _ 0 i j hij (by omega)
  intro c hc col
  rw [chrs_enc hv] at hc
  simp only [List.mem_map, List.mem_range] at hc
  obtain ⟨k, hk, rfl⟩ := hc
  have hvk : ValidCp (cps.getD k 0) := hv _ (by
    rw [List.getD_eq_getElem?_getD, List.getElem?_eq_getElem hk]; exact List.getElem_mem _)
  rw [C17.cwid_spec hvk]
  exact C17.cwid_pos hvk col

/-- for any NUL-free bytes (valid UTF-8 or not) the left-to-right table is increasing: every cell
    `ren_cwid` computes is at least one column wide (`renCwid_pos`) -/
theorem fast_strictInc_bytes (s : Bytes) (hz : 0 ∉ s) : StrictInc (renPositionFast s) (ucSlen s) := by
  have := fastTable_inc (chrs s)
  rw [chrs_length s hz, ← C17.fast_is_layout] at this
  exact this

/-- every table `ren_position` computes, for any NUL-free line (valid UTF-8 or not), reordered or
    not, satisfies the invariant -/
theorem renPosition_colTable_bytes (orc : Dir.Oracle) (o : Opts) (s : Bytes) (hz : 0 ∉ s)
    (pos : List Nat) (h : renPosition orc o s = some pos) : ColTable pos (ucSlen s) := by
  have hlen := chrs_length s hz
  unfold renPosition at h
  simp only [] at h
  split at h
  · split at h
    · cases hord : Dir.dirReorder orc o.xtd s (List.range (ucSlen s)) with
      | none => rw [hord] at h; simp at h
      | some ord =>
        rw [hord] at h
        simp only [Option.bind_eq_bind, Option.bind_some] at h
        have := reorder_colTable_cs (chrs s) ord
          (by rw [hlen]; exact C18.reorder_perm _ _ _ _ _ hord) pos h
        rw [hlen] at this; exact this
    · simp only [Option.bind_eq_bind, Option.bind_some] at h
      have := reorder_colTable_cs (chrs s) (List.range (ucSlen s))
        (by rw [hlen]) pos h
      rw [hlen] at this; exact this
  · cases h; exact strictInc_colTable (fast_strictInc_bytes s hz)

/-! ## 1. `pos_prev`, `pos_next` -/

/-- `pos_prev(pos, n, p, cur)`: the greatest column among `pos[0..n)` that is `≤ p` (`cur = 1`) or
    `< p` (`cur = 0`); -1 if there is none -/
theorem posPrev_spec (pos : List Nat) (n : Nat) (p : Int) (cur : Bool) (hn : n ≤ pos.length) :
    (∃ i, IsGreatest pos n (PrevP p cur) i ∧ posPrev pos n p cur = (pos.getD i 0 : Int)) ∨
    (NoCol pos n (PrevP p cur) ∧ posPrev pos n p cur = -1) :=
  Lemmas.C17b.posPrev_spec pos n p cur hn

/-- `pos_next(pos, n, p, cur)`: the least column among `pos[0..n)` that is `≥ p` (`cur = 1`) or
    `> p` (`cur = 0`); -1 if there is none -/
theorem posNext_spec (pos : List Nat) (n : Nat) (p : Int) (cur : Bool) (hn : n ≤ pos.length) :
    (∃ i, IsLeast pos n (NextP p cur) i ∧ posNext pos n p cur = (pos.getD i 0 : Int)) ∨
    (NoCol pos n (NextP p cur) ∧ posNext pos n p cur = -1) :=
  Lemmas.C17b.posNext_spec pos n p cur hn

/-- the same with the definitions unfolded -/
theorem posPrev_spec_unfolded (pos : List Nat) (n : Nat) (p : Int) (cur : Bool) (hn : n ≤ pos.length) :
    (∃ i, i < n ∧ posPrev pos n p cur = (pos.getD i 0 : Int) ∧
      (if cur then (pos.getD i 0 : Int) ≤ p else (pos.getD i 0 : Int) < p) ∧
      ∀ j, j < n → (if cur then (pos.getD j 0 : Int) ≤ p else (pos.getD j 0 : Int) < p) →
        pos.getD j 0 ≤ pos.getD i 0) ∨
    (posPrev pos n p cur = -1 ∧
      ∀ j, j < n → ¬ (if cur then (pos.getD j 0 : Int) ≤ p else (pos.getD j 0 : Int) < p)) := by
  rcases posPrev_spec pos n p cur hn with ⟨i, ⟨h1, h2, h3⟩, he⟩ | ⟨hno, he⟩
  · exact Or.inl ⟨i, h1, he, h2, h3⟩
  · exact Or.inr ⟨he, hno⟩

theorem posNext_spec_unfolded (pos : List Nat) (n : Nat) (p : Int) (cur : Bool) (hn : n ≤ pos.length) :
    (∃ i, i < n ∧ posNext pos n p cur = (pos.getD i 0 : Int) ∧
      (if cur then p ≤ (pos.getD i 0 : Int) else p < (pos.getD i 0 : Int)) ∧
      ∀ j, j < n → (if cur then p ≤ (pos.getD j 0 : Int) else p < (pos.getD j 0 : Int)) →
        pos.getD i 0 ≤ pos.getD j 0) ∨
    (posNext pos n p cur = -1 ∧
      ∀ j, j < n → ¬ (if cur then p ≤ (pos.getD j 0 : Int) else p < (pos.getD j 0 : Int))) := by
  rcases posNext_spec pos n p cur hn with ⟨i, ⟨h1, h2, h3⟩, he⟩ | ⟨hno, he⟩
  · exact Or.inl ⟨i, h1, he, h2, h3⟩
  · exact Or.inr ⟨he, hno⟩

/-! ## 2. `ren_off` -/

/-- `ren_off(s, p)`: the character whose column is the greatest column `≤ p`; 0 if there is none.
    (Needs no distinctness: among characters sharing that column it is the last one.) -/
theorem renOffT_spec (pos : List Nat) (n : Nat) (p : Int) (hn : n ≤ pos.length) :
    (IsGreatest pos n (PrevP p true) (renOffT pos n p) ∧
      ∀ j, j < n → pos.getD j 0 = pos.getD (renOffT pos n p) 0 → j ≤ renOffT pos n p) ∨
    (NoCol pos n (PrevP p true) ∧ renOffT pos n p = 0) :=
  renOffT_spec_gen pos n p hn

/-- with distinct columns `ren_off` is exactly "the character at or before column `p`" -/
theorem renOffT_eq_iff {pos : List Nat} {n : Nat} (h : ColTable pos n) (p : Int) (i : Nat)
    (hex : ¬ NoCol pos n (PrevP p true)) :
    renOffT pos n p = i ↔ IsGreatest pos n (PrevP p true) i := by
  constructor
  · intro he
    rcases renOffT_spec pos n p (by rw [h.len]; omega) with ⟨hg, _⟩ | ⟨hno, _⟩
    · rw [← he]; exact hg
    · exact absurd hno hex
  · exact renOffT_of_greatest h p i

/-- `ren_pos(ren_off(p))` is the greatest column `≤ p`, i.e. `pos_prev(p, 1)` -/
theorem renPosT_renOffT (pos : List Nat) (n : Nat) (p : Int) (hn : n ≤ pos.length)
    (hex : ¬ NoCol pos n (PrevP p true)) :
    (renPosT pos n (renOffT pos n p) : Int) = posPrev pos n p true := by
  rcases renOffT_spec pos n p hn with ⟨hg, _⟩ | ⟨hno, _⟩
  · unfold renPosT
    rw [if_pos hg.1, posPrev_of_greatest pos n p true hn _ hg]
  · exact absurd hno hex

/-- column -> offset -> column does not move right: `ren_pos(ren_off(p)) ≤ p` -/
theorem renPosT_renOffT_le (pos : List Nat) (n : Nat) (p : Int) (hn : n ≤ pos.length)
    (hex : ¬ NoCol pos n (PrevP p true)) :
    (renPosT pos n (renOffT pos n p) : Int) ≤ p := by
  rcases renOffT_spec pos n p hn with ⟨hg, _⟩ | ⟨hno, _⟩
  · unfold renPosT
    rw [if_pos hg.1]
    have := hg.2.1
    unfold PrevP at this
    simpa using this
  · exact absurd hno hex

/-- offset -> column -> offset (as `C17.off_pos_roundtrip`, from the invariant) -/
theorem renOffT_renPosT {pos : List Nat} {n : Nat} (h : ColTable pos n) (i : Nat) (hi : i < n) :
    renOffT pos n (renPosT pos n i : Nat) = i := by
  unfold renPosT
  rw [if_pos hi]
  exact renOffT_col h i hi

/-! ## 3. `ren_next` -/

/-- `ren_next(s, p, dir)`, `dir ≥ 0`: with `p1` the column of the character at or before `p`
    (`pos_prev(p, 1)`), the least column `> p1`; -1 if there is none or if the character there is
    the newline -/
theorem renNextT_right (s : Bytes) {pos : List Nat} {n : Nat} (h : ColTable pos n) (p dir : Int)
    (hdir : dir ≥ 0) :
    (∃ j, IsLeast pos n (NextP (posPrev pos n p true) false) j ∧
      renNextT s pos n p dir = if chrHd s j = 10 then -1 else (pos.getD j 0 : Int)) ∨
    (NoCol pos n (NextP (posPrev pos n p true) false) ∧ renNextT s pos n p dir = -1) := by
  have hn : n ≤ pos.length := by rw [h.len]; omega
  unfold renNextT
  simp only [hdir, if_true]
  rcases posNext_spec pos n (posPrev pos n p true) false hn with ⟨j, hj, he⟩ | ⟨hno, he⟩
  · left
    refine ⟨j, hj, ?_⟩
    rw [he, renOffT_col h j hj.1]
    by_cases h10 : chrHd s j = 10 <;> simp [h10]
  · right
    refine ⟨hno, ?_⟩
    rw [he]
    split <;> rfl

/-- `dir < 0`: the greatest column `< p1`; -1 if there is none or if the character there is the newline -/
theorem renNextT_left (s : Bytes) {pos : List Nat} {n : Nat} (h : ColTable pos n) (p dir : Int)
    (hdir : dir < 0) :
    (∃ j, IsGreatest pos n (PrevP (posPrev pos n p true) false) j ∧
      renNextT s pos n p dir = if chrHd s j = 10 then -1 else (pos.getD j 0 : Int)) ∨
    (NoCol pos n (PrevP (posPrev pos n p true) false) ∧ renNextT s pos n p dir = -1) := by
  have hn : n ≤ pos.length := by rw [h.len]; omega
  unfold renNextT
  have hd : ¬ dir ≥ 0 := by omega
  simp only [hd, if_false]
  rcases posPrev_spec pos n (posPrev pos n p true) false hn with ⟨j, hj, he⟩ | ⟨hno, he⟩
  · left
    refine ⟨j, hj, ?_⟩
    rw [he, renOffT_col h j hj.1]
    by_cases h10 : chrHd s j = 10 <;> simp [h10]
  · right
    refine ⟨hno, ?_⟩
    rw [he]
    split <;> rfl

/-- moving right from the character `i` at or before column `p` lands on the character `j`
    displayed immediately to its right (the judged clause `next_spec(right)`) -/
theorem renNextT_right_eq (s : Bytes) {pos : List Nat} {n : Nat} (h : ColTable pos n) (p dir : Int)
    (hdir : dir ≥ 0) (i j : Nat) (hi : IsGreatest pos n (PrevP p true) i)
    (hj : IsLeast pos n (fun x => pos.getD i 0 < x) j) :
    renNextT s pos n p dir = if chrHd s j = 10 then -1 else (pos.getD j 0 : Int) := by
  have hn : n ≤ pos.length := by rw [h.len]; omega
  have hp := posPrev_of_greatest pos n p true hn i hi
  rcases renNextT_right s h p dir hdir with ⟨j', hj', he⟩ | ⟨hno, _⟩
  · rw [hp] at hj'
    have := IsLeast.unique h (IsLeast.congr (nextP_false_nat _) hj') hj
    rw [he, this]
  · rw [hp] at hno
    exact absurd hj.2.1 (NoCol.congr (nextP_false_nat _) hno j hj.1)

/-- ... and fails when nothing is displayed to its right -/
theorem renNextT_right_none (s : Bytes) {pos : List Nat} {n : Nat} (h : ColTable pos n) (p dir : Int)
    (hdir : dir ≥ 0) (i : Nat) (hi : IsGreatest pos n (PrevP p true) i)
    (hno : NoCol pos n (fun x => pos.getD i 0 < x)) :
    renNextT s pos n p dir = -1 := by
  have hn : n ≤ pos.length := by rw [h.len]; omega
  have hp := posPrev_of_greatest pos n p true hn i hi
  rcases renNextT_right s h p dir hdir with ⟨j', hj', _⟩ | ⟨_, he⟩
  · rw [hp] at hj'
    exact absurd (IsLeast.congr (nextP_false_nat _) hj').2.1 (hno j' hj'.1)
  · exact he

/-- moving left (the judged clause `next_spec(left)`) -/
theorem renNextT_left_eq (s : Bytes) {pos : List Nat} {n : Nat} (h : ColTable pos n) (p dir : Int)
    (hdir : dir < 0) (i j : Nat) (hi : IsGreatest pos n (PrevP p true) i)
    (hj : IsGreatest pos n (fun x => x < pos.getD i 0) j) :
    renNextT s pos n p dir = if chrHd s j = 10 then -1 else (pos.getD j 0 : Int) := by
  have hn : n ≤ pos.length := by rw [h.len]; omega
  have hp := posPrev_of_greatest pos n p true hn i hi
  rcases renNextT_left s h p dir hdir with ⟨j', hj', he⟩ | ⟨hno, _⟩
  · rw [hp] at hj'
    have := IsGreatest.unique h (IsGreatest.congr (prevP_false_nat _) hj') hj
    rw [he, this]
  · rw [hp] at hno
    exact absurd hj.2.1 (NoCol.congr (prevP_false_nat _) hno j hj.1)

theorem renNextT_left_none (s : Bytes) {pos : List Nat} {n : Nat} (h : ColTable pos n) (p dir : Int)
    (hdir : dir < 0) (i : Nat) (hi : IsGreatest pos n (PrevP p true) i)
    (hno : NoCol pos n (fun x => x < pos.getD i 0)) :
    renNextT s pos n p dir = -1 := by
  have hn : n ≤ pos.length := by rw [h.len]; omega
  have hp := posPrev_of_greatest pos n p true hn i hi
  rcases renNextT_left s h p dir hdir with ⟨j', hj', _⟩ | ⟨_, he⟩
  · rw [hp] at hj'
    exact absurd (IsGreatest.congr (prevP_false_nat _) hj').2.1 (hno j' hj'.1)
  · exact he

/-- when there is no character at or before `p`, `ren_next` to the right goes to the leftmost one -/
theorem renNextT_right_from_none (s : Bytes) {pos : List Nat} {n : Nat} (h : ColTable pos n) (p dir : Int)
    (hdir : dir ≥ 0) (hno : NoCol pos n (PrevP p true)) (j : Nat) (hj : IsLeast pos n (fun _ => True) j) :
    renNextT s pos n p dir = if chrHd s j = 10 then -1 else (pos.getD j 0 : Int) := by
  have hn : n ≤ pos.length := by rw [h.len]; omega
  have hp := posPrev_of_none pos n p true hn hno
  rcases renNextT_right s h p dir hdir with ⟨j', hj', he⟩ | ⟨hno', _⟩
  · rw [hp] at hj'
    have := IsLeast.unique h (IsLeast.congr (nextP_neg_one false) hj') hj
    rw [he, this]
  · rw [hp] at hno'
    exact absurd trivial (NoCol.congr (nextP_neg_one false) hno' j hj.1)

/-- right then left returns to the starting character (unless that is the newline) -/
theorem renNextT_back (s : Bytes) {pos : List Nat} {n : Nat} (h : ColTable pos n) (i : Nat) (hi : i < n)
    (hnl : chrHd s i ≠ 10) (hmv : renNextT s pos n (pos.getD i 0 : Int) 1 ≠ -1) :
    renNextT s pos n (renNextT s pos n (pos.getD i 0 : Int) 1) (-1) = (pos.getD i 0 : Int) := by
  have hn : n ≤ pos.length := by rw [h.len]; omega
  have hself := isGreatest_self (pos := pos) i hi
  rcases renNextT_right s h (pos.getD i 0 : Int) 1 (by omega) with ⟨j, hj, he⟩ | ⟨_, he⟩
  · rw [posPrev_of_greatest pos n _ true hn i hself] at hj
    have hj' := IsLeast.congr (nextP_false_nat _) hj
    by_cases h10 : chrHd s j = 10
    · rw [if_pos h10] at he; exact absurd he hmv
    · rw [if_neg h10] at he
      rw [he]
      have hback : IsGreatest pos n (fun x => x < pos.getD j 0) i := by
        refine ⟨hi, hj'.2.1, ?_⟩
        intro k hk hlt
        by_cases hki : pos.getD i 0 < pos.getD k 0
        · have := hj'.2.2 k hk hki; omega
        · omega
      rw [renNextT_left_eq s h _ (-1) (by omega) j i (isGreatest_self j hj.1) hback, if_neg hnl]
  · exact absurd he hmv

/-! ### increasing tables (no reordering) -/

theorem inc_least {pos : List Nat} {n : Nat} (h : StrictInc pos n) (i : Nat) (hi : i + 1 < n) :
    IsLeast pos n (fun x => pos.getD i 0 < x) (i + 1) := by
  refine ⟨hi, h.2 i (i + 1) (by omega) (by omega), ?_⟩
  intro j hj hlt
  by_cases h1 : j ≤ i
  · by_cases h2 : j = i
    · subst h2; omega
    · have := h.2 j i (by omega) (by omega); omega
  · by_cases h2 : j = i + 1
    · subst h2; omega
    · have := h.2 (i + 1) j (by omega) (by omega); omega

theorem inc_greatest {pos : List Nat} {n : Nat} (h : StrictInc pos n) (i : Nat) (hi : i + 1 < n) :
    IsGreatest pos n (fun x => x < pos.getD (i + 1) 0) i := by
  refine ⟨by omega, h.2 i (i + 1) (by omega) (by omega), ?_⟩
  intro j hj hlt
  by_cases h1 : j ≤ i
  · by_cases h2 : j = i
    · subst h2; omega
    · have := h.2 j i (by omega) (by omega); omega
  · by_cases h2 : j = i + 1
    · subst h2; omega
    · have := h.2 (i + 1) j (by omega) (by omega); omega

theorem inc_none_right {pos : List Nat} {n : Nat} (h : StrictInc pos n) (i : Nat) (hi : i + 1 = n) :
    NoCol pos n (fun x => pos.getD i 0 < x) := by
  intro j hj hlt
  by_cases h2 : j = i
  · subst h2; omega
  · have := h.2 j i (by omega) (by omega); omega

theorem inc_none_left {pos : List Nat} {n : Nat} (h : StrictInc pos n) :
    NoCol pos n (fun x => x < pos.getD 0 0) := by
  intro j hj hlt
  by_cases h2 : j = 0
  · subst h2; omega
  · have := h.2 0 j (by omega) (by omega); omega

/-- in an increasing table `ren_next` to the right is the next character's column ... -/
theorem renNextT_inc_right (s : Bytes) {pos : List Nat} {n : Nat} (h : StrictInc pos n) (off : Nat)
    (hoff : off + 1 < n) (dir : Int) (hdir : dir ≥ 0) :
    renNextT s pos n (renPosT pos n off : Nat) dir =
      if chrHd s (off + 1) = 10 then -1 else (renPosT pos n (off + 1) : Int) := by
  unfold renPosT
  rw [if_pos hoff, if_pos (show off < n by omega)]
  exact renNextT_right_eq s (strictInc_colTable h) _ dir hdir off (off + 1) (isGreatest_self off (by omega))
    (inc_least h off hoff)

/-- ... and -1 on the last character -/
theorem renNextT_inc_right_last (s : Bytes) {pos : List Nat} {n : Nat} (h : StrictInc pos n) (off : Nat)
    (hoff : off + 1 = n) (dir : Int) (hdir : dir ≥ 0) :
    renNextT s pos n (renPosT pos n off : Nat) dir = -1 := by
  unfold renPosT
  rw [if_pos (by omega)]
  exact renNextT_right_none s (strictInc_colTable h) _ dir hdir off (isGreatest_self off (by omega))
    (inc_none_right h off hoff)

/-- to the left: the previous character's column, -1 on the first character -/
theorem renNextT_inc_left (s : Bytes) {pos : List Nat} {n : Nat} (h : StrictInc pos n) (off : Nat)
    (hoff : off + 1 < n) (dir : Int) (hdir : dir < 0) :
    renNextT s pos n (renPosT pos n (off + 1) : Nat) dir =
      if chrHd s off = 10 then -1 else (renPosT pos n off : Int) := by
  unfold renPosT
  rw [if_pos hoff, if_pos (show off < n by omega)]
  exact renNextT_left_eq s (strictInc_colTable h) _ dir hdir (off + 1) off (isGreatest_self (off + 1) hoff)
    (inc_greatest h off hoff)

theorem renNextT_inc_left_first (s : Bytes) {pos : List Nat} {n : Nat} (h : StrictInc pos n)
    (hn : 0 < n) (dir : Int) (hdir : dir < 0) :
    renNextT s pos n (renPosT pos n 0 : Nat) dir = -1 := by
  unfold renPosT
  rw [if_pos hn]
  exact renNextT_left_none s (strictInc_colTable h) _ dir hdir 0 (isGreatest_self 0 hn) (inc_none_left h)

/-- so `ren_next` moves exactly one character: `ren_off(ren_next(ren_pos(off), +1)) = off + 1`
    when the next character exists and is not the newline -/
theorem renOffT_renNextT_inc (s : Bytes) {pos : List Nat} {n : Nat} (h : StrictInc pos n) (off : Nat)
    (hoff : off + 1 < n) (hnl : chrHd s (off + 1) ≠ 10) (dir : Int) (hdir : dir ≥ 0) :
    renOffT pos n (renNextT s pos n (renPosT pos n off : Nat) dir) = off + 1 := by
  rw [renNextT_inc_right s h off hoff dir hdir, if_neg hnl]
  exact renOffT_renPosT (strictInc_colTable h) (off + 1) hoff

theorem renOffT_renNextT_inc_left (s : Bytes) {pos : List Nat} {n : Nat} (h : StrictInc pos n) (off : Nat)
    (hoff : off + 1 < n) (hnl : chrHd s off ≠ 10) (dir : Int) (hdir : dir < 0) :
    renOffT pos n (renNextT s pos n (renPosT pos n (off + 1) : Nat) dir) = off := by
  rw [renNextT_inc_left s h off hoff dir hdir, if_neg hnl]
  exact renOffT_renPosT (strictInc_colTable h) off (by omega)

/-! ### the left-to-right table of a valid UTF-8 line -/

/-- on a valid UTF-8 line laid out left to right, `ren_next(.., +1)` from character `off` reaches
    character `off + 1` unless that is the newline, in which case it fails -/
theorem fast_next_char (cps : List Nat) (hv : ∀ c ∈ cps, ValidCp c) (off : Nat) (hoff : off + 1 < cps.length) :
    let s := encStr cps
    let pos := renPositionFast s
    let n := ucSlen s
    (cps.getD (off + 1) 0 ≠ 10 →
      renOffT pos n (renNextT s pos n (renPosT pos n off : Nat) 1) = off + 1) ∧
    (cps.getD (off + 1) 0 = 10 → renNextT s pos n (renPosT pos n off : Nat) 1 = -1) := by
  intro s pos n
  have hn : n = cps.length := C16.slen_spec hv
  have hs : StrictInc pos n := by rw [hn]; exact fast_strictInc cps hv
  have h10 := chrHd_enc_eq_10 hv (off + 1) hoff
  constructor
  · intro hne
    exact renOffT_renNextT_inc s hs off (by omega) (fun hc => hne (h10.mp hc)) 1 (by omega)
  · intro he
    rw [renNextT_inc_right s hs off (by omega) 1 (by omega), if_pos (h10.mpr he)]

/-- `ren_next(.., -1)` from character `off + 1` reaches character `off` (a newline is never there
    on a buffer line) -/
theorem fast_prev_char (cps : List Nat) (hv : ∀ c ∈ cps, ValidCp c) (off : Nat) (hoff : off + 1 < cps.length)
    (hnl : cps.getD off 0 ≠ 10) :
    let s := encStr cps
    let pos := renPositionFast s
    let n := ucSlen s
    renOffT pos n (renNextT s pos n (renPosT pos n (off + 1) : Nat) (-1)) = off := by
  intro s pos n
  have hn : n = cps.length := C16.slen_spec hv
  have hs : StrictInc pos n := by rw [hn]; exact fast_strictInc cps hv
  have h10 := chrHd_enc_eq_10 hv off (by omega)
  exact renOffT_renNextT_inc_left s hs off (by omega) (fun hc => hnl (h10.mp hc)) (-1) (by omega)

/-! ### the model's own table (reordered or not): the judged clauses `next_spec(right/left)` -/

/-- on a valid UTF-8 line with the table `ren_position` computes: from the column of character `i`,
    `ren_next(+1)` is the column of the character `j` displayed immediately to the right, or -1 if
    `j` is the newline -/
theorem renPosition_next_right (orc : Dir.Oracle) (o : Opts) (cps : List Nat) (hv : ∀ c ∈ cps, ValidCp c)
    (pos : List Nat) (h : renPosition orc o (encStr cps) = some pos) (i j : Nat) (hi : i < cps.length)
    (hj : IsLeast pos cps.length (fun x => pos.getD i 0 < x) j) :
    renNextT (encStr cps) pos (ucSlen (encStr cps)) (pos.getD i 0 : Nat) 1 =
      if cps.getD j 0 = 10 then -1 else (pos.getD j 0 : Int) := by
  rw [C16.slen_spec hv]
  have hct := renPosition_colTable orc o cps hv pos h
  rw [renNextT_right_eq _ hct _ 1 (by omega) i j (isGreatest_self i hi) hj]
  by_cases h10 : cps.getD j 0 = 10
  · rw [if_pos h10, if_pos ((chrHd_enc_eq_10 hv j hj.1).mpr h10)]
  · rw [if_neg h10, if_neg (fun hc => h10 ((chrHd_enc_eq_10 hv j hj.1).mp hc))]

/-- ... and -1 when nothing is displayed to the right of `i` -/
theorem renPosition_next_right_none (orc : Dir.Oracle) (o : Opts) (cps : List Nat) (hv : ∀ c ∈ cps, ValidCp c)
    (pos : List Nat) (h : renPosition orc o (encStr cps) = some pos) (i : Nat) (hi : i < cps.length)
    (hno : NoCol pos cps.length (fun x => pos.getD i 0 < x)) :
    renNextT (encStr cps) pos (ucSlen (encStr cps)) (pos.getD i 0 : Nat) 1 = -1 := by
  rw [C16.slen_spec hv]
  exact renNextT_right_none _ (renPosition_colTable orc o cps hv pos h) _ 1 (by omega) i
    (isGreatest_self i hi) hno

theorem renPosition_next_left (orc : Dir.Oracle) (o : Opts) (cps : List Nat) (hv : ∀ c ∈ cps, ValidCp c)
    (pos : List Nat) (h : renPosition orc o (encStr cps) = some pos) (i j : Nat) (hi : i < cps.length)
    (hj : IsGreatest pos cps.length (fun x => x < pos.getD i 0) j) :
    renNextT (encStr cps) pos (ucSlen (encStr cps)) (pos.getD i 0 : Nat) (-1) =
      if cps.getD j 0 = 10 then -1 else (pos.getD j 0 : Int) := by
  rw [C16.slen_spec hv]
  have hct := renPosition_colTable orc o cps hv pos h
  rw [renNextT_left_eq _ hct _ (-1) (by omega) i j (isGreatest_self i hi) hj]
  by_cases h10 : cps.getD j 0 = 10
  · rw [if_pos h10, if_pos ((chrHd_enc_eq_10 hv j hj.1).mpr h10)]
  · rw [if_neg h10, if_neg (fun hc => h10 ((chrHd_enc_eq_10 hv j hj.1).mp hc))]

theorem renPosition_next_left_none (orc : Dir.Oracle) (o : Opts) (cps : List Nat) (hv : ∀ c ∈ cps, ValidCp c)
    (pos : List Nat) (h : renPosition orc o (encStr cps) = some pos) (i : Nat) (hi : i < cps.length)
    (hno : NoCol pos cps.length (fun x => x < pos.getD i 0)) :
    renNextT (encStr cps) pos (ucSlen (encStr cps)) (pos.getD i 0 : Nat) (-1) = -1 := by
  rw [C16.slen_spec hv]
  exact renNextT_left_none _ (renPosition_colTable orc o cps hv pos h) _ (-1) (by omega) i
    (isGreatest_self i hi) hno

/-! ## 4. `ren_cursor` -/

/-- `ren_cursor(s, p)` when the character `i` at or before column `p` is not the newline: a cell
    `c ≥ pos[i]` with `c + 1` the next occupied column to the right of `i` (the end column when `i`
    is displayed last), i.e. the last cell of `i` -/
theorem renCursorT_spec (s : Bytes) {pos : List Nat} {n : Nat} (h : ColTable pos n) (p : Int) (i : Nat)
    (hi : IsGreatest pos n (PrevP p true) i) (hnl : chrHd s i ≠ 10) :
    (pos.getD i 0 : Int) ≤ renCursorT s pos n p ∧ LastCellOf pos n i (renCursorT s pos n p) := by
  have hn : n ≤ pos.length := by rw [h.len]; omega
  rw [renCursorT_eq, posPrev_of_greatest pos n p true hn i hi, renOffT_col h i hi.1]
  have : (chrHd s i == 10) = false := by simpa using hnl
  rw [this]
  simp only [Bool.false_eq_true, if_false]
  exact cursorCell_char h i hi.1

/-- on the newline it steps back to the character `i'` displayed immediately to its left -/
theorem renCursorT_spec_nl (s : Bytes) {pos : List Nat} {n : Nat} (h : ColTable pos n) (p : Int) (i i' : Nat)
    (hi : IsGreatest pos n (PrevP p true) i) (hnl : chrHd s i = 10)
    (hi' : IsGreatest pos n (fun x => x < pos.getD i 0) i') :
    (pos.getD i' 0 : Int) ≤ renCursorT s pos n p ∧ LastCellOf pos n i' (renCursorT s pos n p) := by
  have hn : n ≤ pos.length := by rw [h.len]; omega
  rw [renCursorT_eq, posPrev_of_greatest pos n p true hn i hi, renOffT_col h i hi.1]
  have : (chrHd s i == 10) = true := by simpa using hnl
  rw [this]
  simp only [if_true]
  rw [posPrev_of_greatest pos n _ false hn i'
    (IsGreatest.congr (fun x => (prevP_false_nat (pos.getD i 0) x).symm) hi')]
  exact cursorCell_char h i' hi'.1

/-- ... and when the newline is displayed leftmost (the line `"\n"`): one before its column, clamped at 0 -/
theorem renCursorT_nl_first (s : Bytes) {pos : List Nat} {n : Nat} (h : ColTable pos n) (p : Int) (i : Nat)
    (hi : IsGreatest pos n (PrevP p true) i) (hnl : chrHd s i = 10)
    (hno : NoCol pos n (fun x => x < pos.getD i 0)) :
    renCursorT s pos n p = if pos.getD i 0 = 0 then 0 else (pos.getD i 0 : Int) - 1 := by
  have hn : n ≤ pos.length := by rw [h.len]; omega
  rw [renCursorT_eq, posPrev_of_greatest pos n p true hn i hi, renOffT_col h i hi.1]
  have : (chrHd s i == 10) = true := by simpa using hnl
  rw [this]
  simp only [if_true]
  rw [posPrev_of_none pos n _ false hn (NoCol.congr (fun x => (prevP_false_nat (pos.getD i 0) x).symm) hno)]
  exact cursorCell_neg_one hn i ⟨hi.1, trivial, fun j hj _ => by have := hno j hj; omega⟩

/-- no character at or before `p` (a negative column): one before the leftmost column, clamped at 0 -/
theorem renCursorT_none (s : Bytes) {pos : List Nat} {n : Nat} (hn : n ≤ pos.length) (p : Int)
    (hno : NoCol pos n (PrevP p true)) (m : Nat) (hm : IsLeast pos n (fun _ => True) m) :
    renCursorT s pos n p = if pos.getD m 0 = 0 then 0 else (pos.getD m 0 : Int) - 1 := by
  rw [renCursorT_eq, posPrev_of_none pos n p true hn hno,
    posPrev_of_none pos n (-1) false hn (fun j _ hP => (prevP_neg_one false _).mp hP)]
  simp only [ite_self]
  exact cursorCell_neg_one hn m hm

/-! ### tilings: the cursor cell is the last cell of the character's cell range -/

/-- in a tiled table the next occupied column after character `i` is `pos[i] + width` -/
theorem lastCellOf_tiled {cps pos : List Nat} (ht : Tiled cps pos)
    (i : Nat) (hi : i < cps.length) (c : Int) (hl : LastCellOf pos cps.length i c) :
    c + 1 = (pos.getD i 0 : Int) + (cellWidth (cps.getD i 0) (pos.getD i 0) : Int) := by
  have hwi := ht.width_pos i hi
  have tb := ht.succ i hi
  rcases hl with ⟨j, hj, he⟩ | ⟨hno, he⟩
  · have hlt : pos.getD i 0 < pos.getD j 0 := hj.2.1
    have h1 := ht.apart i j hi hj.1
    rcases tb with ⟨j', hj', he'⟩ | he'
    · have := hj.2.2 j' hj' (by omega)
      omega
    · have := ht.table.lt_end j hj.1
      omega
  · rcases tb with ⟨j', hj', he'⟩ | he'
    · exact absurd (show pos.getD i 0 < pos.getD j' 0 by omega) (hno j' hj')
    · omega

/-- in a tiled table, for every column `p` inside the cell range `[pos[i], pos[i] + width)` of a
    character `i` that is not the newline: `ren_off(p) = i` and `ren_cursor(p)` is the last cell of
    that range -/
theorem renCursorT_tiled (s : Bytes) {cps pos : List Nat} (ht : Tiled cps pos)
    (i : Nat) (hi : i < cps.length) (hnl : chrHd s i ≠ 10) (p : Int)
    (hp1 : (pos.getD i 0 : Int) ≤ p)
    (hp2 : p < (pos.getD i 0 : Int) + (cellWidth (cps.getD i 0) (pos.getD i 0) : Int)) :
    renOffT pos cps.length p = i ∧
    renCursorT s pos cps.length p =
      (pos.getD i 0 : Int) + (cellWidth (cps.getD i 0) (pos.getD i 0) : Int) - 1 := by
  have hg : IsGreatest pos cps.length (PrevP p true) i := by
    refine ⟨hi, by unfold PrevP; simpa using hp1, ?_⟩
    intro j hj hP
    have hP' : (pos.getD j 0 : Int) ≤ p := by unfold PrevP at hP; simpa using hP
    rcases ht.apart i j hi hj with h1 | h1
    · exact h1
    · omega
  refine ⟨renOffT_of_greatest ht.table p i hg, ?_⟩
  have := lastCellOf_tiled ht i hi _ (renCursorT_spec s ht.table p i hg hnl).2
  omega

/-- for `isTiling` tables (the judged invariant) -/
theorem renCursorT_tiling (s : Bytes) (cps pos : List Nat) (hv : ∀ c ∈ cps, ValidCp c)
    (h : isTiling cps pos = true) (i : Nat) (hi : i < cps.length) (hnl : chrHd s i ≠ 10) (p : Int)
    (hp1 : (pos.getD i 0 : Int) ≤ p)
    (hp2 : p < (pos.getD i 0 : Int) + (cellWidth (cps.getD i 0) (pos.getD i 0) : Int)) :
    renOffT pos cps.length p = i ∧
    renCursorT s pos cps.length p =
      (pos.getD i 0 : Int) + (cellWidth (cps.getD i 0) (pos.getD i 0) : Int) - 1 :=
  renCursorT_tiled s (tiling_tiled cps pos hv h) i hi hnl p hp1 hp2

/-- for the model's own tables: on a valid UTF-8 line, with the table `ren_position` computes
    (reordered or not), every column of the cell range of a character other than the newline maps
    back to that character, and the cursor is drawn on the last cell of the range -/
theorem renPosition_cursor (orc : Dir.Oracle) (o : Opts) (cps : List Nat) (hv : ∀ c ∈ cps, ValidCp c)
    (pos : List Nat) (h : renPosition orc o (encStr cps) = some pos)
    (i : Nat) (hi : i < cps.length) (hnl : cps.getD i 0 ≠ 10) (p : Int)
    (hp1 : (pos.getD i 0 : Int) ≤ p)
    (hp2 : p < (pos.getD i 0 : Int) + (cellWidth (cps.getD i 0) (pos.getD i 0) : Int)) :
    renOffT pos (ucSlen (encStr cps)) p = i ∧
    renCursorT (encStr cps) pos (ucSlen (encStr cps)) p =
      (pos.getD i 0 : Int) + (cellWidth (cps.getD i 0) (pos.getD i 0) : Int) - 1 := by
  rw [C16.slen_spec hv]
  exact renCursorT_tiled _ (renPosition_tiled orc o cps hv pos h) i hi
    (fun hc => hnl ((chrHd_enc_eq_10 hv i hi).mp hc)) p hp1 hp2

/-! ### increasing tables -/

theorem lastCellOf_inc {pos : List Nat} {n : Nat} (h : StrictInc pos n) (i : Nat) (hi : i < n) (c : Int)
    (hl : LastCellOf pos n i c) : c + 1 = (pos.getD (i + 1) 0 : Int) := by
  rcases hl with ⟨j, hj, he⟩ | ⟨hno, he⟩
  · by_cases h1 : i + 1 < n
    · rw [he, IsLeast.unique (strictInc_colTable h) hj (inc_least h i h1)]
    · exact absurd hj.2.1 (inc_none_right h i (by omega) j hj.1)
  · by_cases h1 : i + 1 < n
    · exact absurd (inc_least h i h1).2.1 (hno (i + 1) h1)
    · rw [he, show i + 1 = n by omega]

/-- without reordering: the cursor of character `off` is the cell before the next entry of the table -/
theorem renCursorT_inc (s : Bytes) {pos : List Nat} {n : Nat} (h : StrictInc pos n) (off : Nat) (hoff : off < n)
    (hnl : chrHd s off ≠ 10) :
    renCursorT s pos n (renPosT pos n off : Nat) = (pos.getD (off + 1) 0 : Int) - 1 := by
  unfold renPosT
  rw [if_pos hoff]
  have := lastCellOf_inc h off hoff _
    (renCursorT_spec s (strictInc_colTable h) _ off (isGreatest_self off hoff) hnl).2
  omega

/-- ... and on the newline, the last cell of the character before it -/
theorem renCursorT_inc_nl (s : Bytes) {pos : List Nat} {n : Nat} (h : StrictInc pos n) (off : Nat)
    (hoff : off + 1 < n) (hnl : chrHd s (off + 1) = 10) :
    renCursorT s pos n (renPosT pos n (off + 1) : Nat) = (pos.getD (off + 1) 0 : Int) - 1 := by
  unfold renPosT
  rw [if_pos hoff]
  have := lastCellOf_inc h off (by omega) _
    (renCursorT_spec_nl s (strictInc_colTable h) _ (off + 1) off (isGreatest_self (off + 1) hoff) hnl
      (inc_greatest h off hoff)).2
  omega

/-! ## 5. `ren_noeol` then `ren_cursor`: never on the newline of a non-empty line -/

/-- for a buffer line `w ++ "\n"` with `w` non-empty, any offset `o ≥ 0`: `ren_noeol` yields a
    character that is not the newline, and the cursor cell computed from its column is the last cell
    of that character — so it is never a cell of the newline -/
theorem cursor_noeol (w : Bytes) (hw10 : 10 ∉ w) (hw0 : 0 ∉ w) (hne : w ≠ [])
    {pos : List Nat} (h : ColTable pos (ucSlen (w ++ [10]))) (o : Int) (ho : 0 ≤ o) :
    let ln := w ++ [10]
    let n := ucSlen ln
    let off := (renNoeol ln o).toNat
    let c := renCursorT ln pos n (renPosT pos n off : Nat)
    off < n ∧ chrHd ln off ≠ 10 ∧ (pos.getD off 0 : Int) ≤ c ∧ LastCellOf pos n off c := by
  intro ln n off c
  have hhd : Bytes.hd ln = Bytes.hd w := by
    cases w with
    | nil => exact absurd rfl hne
    | cons a t => rfl
  have hhd0 : Bytes.hd ln ≠ 0 := by rw [hhd]; exact Lemmas.C07.hd_ne_zero_of_not_mem w hw0 hne
  have hhd10 : Bytes.hd ln ≠ 10 := by
    rw [hhd]
    cases w with
    | nil => exact absurd rfl hne
    | cons a t =>
      intro he
      simp only [Bytes.hd_cons] at he
      exact hw10 (by rw [he]; simp)
  have hpos : 0 < n := Lemmas.C07.ucSlen_pos ln hhd0
  have h0 := Lemmas.C07.renNoeol_nonneg ln o ho
  have h1 := Lemmas.C07.renNoeol_lt ln o
  have hoff : off < n := by
    show (renNoeol ln o).toNat < ucSlen ln
    have : (n : Int) = ucSlen ln := rfl
    omega
  have hnl : chrHd ln off ≠ 10 := by
    by_cases hp : 0 < renNoeol ln o
    · exact Lemmas.C07.renNoeol_not_nl ln o (Lemmas.C07.wfLine_noNlNl ln ⟨w, rfl, hw10⟩) hp
    · have : off = 0 := by
        show (renNoeol ln o).toNat = 0
        omega
      rw [this, Lemmas.C07.chrHd_zero]; exact hhd10
  refine ⟨hoff, hnl, ?_⟩
  have hc : c = renCursorT ln pos n (pos.getD off 0 : Nat) := by
    show renCursorT ln pos n (renPosT pos n off : Nat) = _
    unfold renPosT
    rw [if_pos hoff]
  rw [hc]
  exact renCursorT_spec ln h _ off (isGreatest_self off hoff) hnl

/-- the same on the table the model computes, for any bytes `w` (valid UTF-8 or not) -/
theorem cursor_noeol_model (orc : Dir.Oracle) (o : Opts) (w : Bytes) (hw10 : 10 ∉ w) (hw0 : 0 ∉ w)
    (hne : w ≠ []) (pos : List Nat) (h : renPosition orc o (w ++ [10]) = some pos) (off : Int)
    (hoff : 0 ≤ off) :
    let ln := w ++ [10]
    let n := ucSlen ln
    let k := (renNoeol ln off).toNat
    let c := renCursorT ln pos n (renPosT pos n k : Nat)
    k < n ∧ chrHd ln k ≠ 10 ∧ (pos.getD k 0 : Int) ≤ c ∧ LastCellOf pos n k c :=
  cursor_noeol w hw10 hw0 hne
    (renPosition_colTable_bytes orc o (w ++ [10]) (by simp [hw0]) pos h) off hoff

/-- the cell ranges of two different characters of a tiled table are disjoint -/
theorem cells_disjoint {cps pos : List Nat} (ht : Tiled cps pos) (i k : Nat) (hi : i < cps.length)
    (hk : k < cps.length) (hik : i ≠ k) :
    pos.getD i 0 + cellWidth (cps.getD i 0) (pos.getD i 0) ≤ pos.getD k 0 ∨
    pos.getD k 0 + cellWidth (cps.getD k 0) (pos.getD k 0) ≤ pos.getD i 0 := by
  rcases ht.apart i k hi hk with h1 | h1
  · rcases ht.apart k i hk hi with h2 | h2
    · exact absurd (ht.table.inj i k hi hk (by omega)) hik
    · exact Or.inr h2
  · exact Or.inl h1

private theorem mem_enc_10 {c : Nat} (h : ValidCp c) (hm : 10 ∈ enc c) : c = 10 := by
  obtain ⟨h0, h1⟩ := h
  unfold enc at hm
  split at hm
  · simp at hm; omega
  split at hm
  · simp at hm; omega
  split at hm
  · simp at hm; omega
  · simp at hm; omega

private theorem not_mem_encStr_10 {cs : List Nat} (hv : ∀ c ∈ cs, ValidCp c) (h10 : 10 ∉ cs) :
    10 ∉ encStr cs := by
  induction cs with
  | nil => simp
  | cons c r ih =>
    rw [encStr_cons, List.mem_append]
    rintro (hm | hm)
    · exact h10 (by rw [mem_enc_10 (hv c (by simp)) hm]; simp)
    · exact ih (fun d hd => hv d (by simp [hd])) (fun hd => h10 (by simp [hd])) hm

private theorem not_mem_encStr_0 {cs : List Nat} (hv : ∀ c ∈ cs, ValidCp c) : 0 ∉ encStr cs := by
  intro hm
  have := (encStr_wf hv) 0 hm
  omega

/-- end to end, on the model's own table: for a non-empty buffer line `body ++ "\n"` (valid UTF-8)
    and any offset `off ≥ 0`, `ren_noeol` yields a character `k` of `body`, and
    `ren_cursor(ren_pos(k))` is the last cell of `k`'s cell range — which is not a cell of the newline -/
theorem cursor_never_on_newline (orc : Dir.Oracle) (o : Opts) (body : List Nat)
    (hv : ∀ c ∈ body, ValidCp c) (h10 : 10 ∉ body) (hne : body ≠ []) (pos : List Nat)
    (h : renPosition orc o (encStr (body ++ [10])) = some pos) (off : Int) (hoff : 0 ≤ off) :
    let cps := body ++ [10]
    let s := encStr cps
    let n := ucSlen s
    let k := (renNoeol s off).toNat
    let c := renCursorT s pos n (renPosT pos n k : Nat)
    let nl := body.length
    k < body.length ∧
    c = (pos.getD k 0 : Int) + (cellWidth (cps.getD k 0) (pos.getD k 0) : Int) - 1 ∧
    ¬ ((pos.getD nl 0 : Int) ≤ c ∧ c < (pos.getD nl 0 : Int) + (cellWidth 10 (pos.getD nl 0) : Int)) := by
  intro cps s n k c nl
  have hvc : ∀ c ∈ cps, ValidCp c := by
    intro c hc
    rcases List.mem_append.mp hc with hc | hc
    · exact hv c hc
    · have : c = 10 := by simpa using hc
      rw [this]; decide
  have hs : s = encStr body ++ [10] := by
    show encStr (body ++ [10]) = _
    rw [encStr_append]; rfl
  have hn : n = cps.length := C16.slen_spec hvc
  have hcl : cps.length = body.length + 1 := by simp [cps]
  have ht : Tiled cps pos := renPosition_tiled orc o cps hvc pos h
  have hwne : encStr body ≠ [] := by
    cases body with
    | nil => exact absurd rfl hne
    | cons a t =>
      rw [encStr_cons]
      intro he
      exact enc_ne_nil a (List.append_eq_nil_iff.mp he).1
  have hct : ColTable pos (ucSlen (encStr body ++ [10])) := by
    rw [← hs]; show ColTable pos n; rw [hn]; exact ht.table
  have key := cursor_noeol (encStr body) (not_mem_encStr_10 hv h10) (not_mem_encStr_0 hv) hwne hct off hoff
  simp only [] at key
  rw [← hs] at key
  obtain ⟨k1, k2, _, k4⟩ := key
  have hk : k < cps.length := by rw [← hn]; exact k1
  have hknl : cps.getD k 0 ≠ 10 := fun hc => k2 ((chrHd_enc_eq_10 hvc k hk).mpr hc)
  have hnlc : cps.getD nl 0 = 10 := by simp [cps, nl]
  have hkne : k ≠ nl := fun hc => hknl (by rw [hc]; exact hnlc)
  have hc : c + 1 = (pos.getD k 0 : Int) + (cellWidth (cps.getD k 0) (pos.getD k 0) : Int) := by
    apply lastCellOf_tiled ht k hk
    rw [← hn]; exact k4
  refine ⟨by omega, by omega, ?_⟩
  have hd := cells_disjoint ht k nl hk (by omega) hkne
  rw [hnlc] at hd
  have := ht.width_pos k hk
  omega

/-! ## 6. counterexamples and non-vacuity -/

/-- without distinct columns the offset -> column -> offset round trip fails (the last character
    sharing the column wins) -/
example : renOffT [0, 0, 1] 2 (renPosT [0, 0, 1] 2 0 : Nat) = 1 := by decide

/-- the invariant alone does not place the cursor inside a cell range: a table with a gap (not a
    tiling) puts the cursor of the 1-wide character at column 0 on column 4 -/
example : renCursorT [0x61, 0x62] [0, 5, 6] 2 0 = 4 := by decide

/-- on the empty line `"\n"` the cursor is on the newline's cell (there is no other) -/
example : renCursorT [10] [0, 1] 1 0 = 0 ∧ chrHd [10] 0 = 10 := by decide

/-- in a reordered table `ren_next(+1)` follows the visual order, not the logical one: on `"ab\n"`
    displayed as `ba`, from `b` (offset 1, column 0) it reaches `a` (offset 0); from `a` the next
    cell is the newline's, so it fails -/
example : renOffT [1, 0, 2, 3] 3 (renNextT [0x61, 0x62, 0x0a] [1, 0, 2, 3] 3 0 1) = 0 ∧
    renNextT [0x61, 0x62, 0x0a] [1, 0, 2, 3] 3 1 1 = -1 := by decide

/-- `pos_prev` / `pos_next` with `cur = 0` are strict -/
example : posPrev [0, 2, 4, 5] 3 2 true = 2 ∧ posPrev [0, 2, 4, 5] 3 2 false = 0 ∧
    posNext [0, 2, 4, 5] 3 2 true = 2 ∧ posNext [0, 2, 4, 5] 3 2 false = 4 ∧
    posPrev [0, 2, 4, 5] 3 0 false = -1 ∧ posNext [0, 2, 4, 5] 3 4 false = -1 := by decide

/-- a tab at column 0 then `a`: every column of the tab's range maps to the tab, cursor on its last cell -/
example : (List.range 8).all (fun p => renOffT [0, 8, 9] 2 (p : Nat) == 0 &&
    renCursorT [0x09, 0x61] [0, 8, 9] 2 (p : Nat) == 7) = true := by decide

/-- `"a\tb\n"` through the model: the table, and from any offset at or past the end `ren_noeol`
    then `ren_cursor` land on `b` (column 8), not on the newline (column 9) -/
example : renPosition (fun _ _ _ => none) {} (encStr [0x61, 0x09, 0x62, 10]) = some [0, 1, 8, 9, 10] ∧
    renCursorT (encStr [0x61, 0x09, 0x62, 10]) [0, 1, 8, 9, 10] 4
      (renPosT [0, 1, 8, 9, 10] 4 (renNoeol (encStr [0x61, 0x09, 0x62, 10]) 7).toNat : Nat) = 8 := by decide

end Neatvi.Props.C17b
