namespace Neatvi.Props.C14
end Neatvi.Props.C14
