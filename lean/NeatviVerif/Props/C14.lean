import NeatviVerif.Model.ExCmd
import NeatviVerif.Lemmas.ExFrame
import NeatviVerif.Lemmas.C12Exec
import NeatviVerif.Lemmas.C06Ex
import NeatviVerif.Lemmas.C10Eval
/-!
# C14: `:s` — the expansion of the replacement, the per-line scan, and the frame of `ec_substitute`
-/
namespace Neatvi.Props.C14
open Neatvi Neatvi.Lbuf Neatvi.Ex Neatvi.Rset Neatvi.Lemmas.ExFrame Neatvi.Lemmas.Hist Neatvi.Props.C01

/-! ## 1. the expansion of the replacement text -/

/-- start and end offset of group `d` in the offsets `rstr_find` wrote (`-1` when absent) -/
def grpSo (offs : List Int) (d : Nat) : Int := offs.getD (d * 2) (-1)
def grpEo (offs : List Int) (d : Nat) : Int := offs.getD (d * 2 + 1) (-1)

/-- the bytes `ln[so, eo)` of group `d` (empty when `so = eo`, in particular for an unset group) -/
def grpText (ln : Bytes) (offs : List Int) (d : Nat) : Bytes :=
  (ln.drop (grpSo offs d).toNat).take (grpEo offs d - grpSo offs d).toNat

/-- group `d` is usable: empty, or a proper slice of the line -/
def GrpOk (ln : Bytes) (offs : List Int) (d : Nat) : Prop :=
  grpSo offs d = grpEo offs d ∨ (0 ≤ grpSo offs d ∧ grpSo offs d ≤ grpEo offs d ∧ grpEo offs d ≤ ln.length)

instance (ln : Bytes) (offs : List Int) (d : Nat) : Decidable (GrpOk ln offs d) := by unfold GrpOk; infer_instance

def isDigit (d : Nat) : Prop := 48 ≤ d ∧ d ≤ 57
instance (d : Nat) : Decidable (isDigit d) := by unfold isDigit; infer_instance

/-- reference expansion: `\\d` ↦ group `d`, `\\c` ↦ `c`, a trailing lone backslash and every other byte ↦ itself -/
def expandRef : Bytes → Bytes → List Int → Bytes
  | [], _, _ => []
  | c :: r, ln, offs =>
    if c = 92 then
      match r with
      | [] => [92]
      | d :: r' => if isDigit d then grpText ln offs (d - 48) ++ expandRef r' ln offs else d :: expandRef r' ln offs
    else c :: expandRef r ln offs

/-- the groups the replacement text refers to (digits in escape position) -/
def refs : Bytes → List Nat
  | [] => []
  | c :: r =>
    if c = 92 then
      match r with
      | [] => []
      | d :: r' => if isDigit d then (d - 48) :: refs r' else refs r'
    else refs r

theorem expandRef_nil (ln : Bytes) (offs : List Int) : expandRef [] ln offs = [] := rfl
theorem expandRef_lone (ln : Bytes) (offs : List Int) : expandRef [92] ln offs = [92] := by simp [expandRef]
theorem expandRef_group (d : Nat) (r ln : Bytes) (offs : List Int) (hd : isDigit d) :
    expandRef (92 :: d :: r) ln offs = grpText ln offs (d - 48) ++ expandRef r ln offs := by simp [expandRef, hd]
theorem expandRef_esc (d : Nat) (r ln : Bytes) (offs : List Int) (hd : ¬ isDigit d) :
    expandRef (92 :: d :: r) ln offs = d :: expandRef r ln offs := by simp [expandRef, hd]
theorem expandRef_other (c : Nat) (r ln : Bytes) (offs : List Int) (hc : c ≠ 92) :
    expandRef (c :: r) ln offs = c :: expandRef r ln offs := by cases r <;> simp [expandRef, hc]

theorem refs_group (d : Nat) (r : Bytes) (hd : isDigit d) : refs (92 :: d :: r) = (d - 48) :: refs r := by simp [refs, hd]
theorem refs_esc (d : Nat) (r : Bytes) (hd : ¬ isDigit d) : refs (92 :: d :: r) = refs r := by simp [refs, hd]
theorem refs_other (c : Nat) (r : Bytes) (hc : c ≠ 92) : refs (c :: r) = refs r := by cases r <;> simp [refs, hc]

/-- the model's verdict on one group reference -/
theorem grp_cases (ln : Bytes) (offs : List Int) (d : Nat) :
    (GrpOk ln offs d ↔ ¬ (grpEo offs d - grpSo offs d < 0) ∧
      ((grpEo offs d - grpSo offs d == 0) = true ∨ ¬ (decide (grpSo offs d < 0) || decide (grpEo offs d > ↑ln.length)) = true)) := by
  unfold GrpOk
  simp only [beq_iff_eq, Bool.or_eq_true, decide_eq_true_eq]
  omega

theorem go_spec (ln : Bytes) (offs : List Int) : ∀ (f : Nat) (rep acc : Bytes), rep.length < f →
    (∀ d ∈ refs rep, GrpOk ln offs d) →
    substExpand.go ln offs f rep acc = some (acc ++ expandRef rep ln offs) := by
  intro f
  induction f with
  | zero => intro rep acc h; omega
  | succ f ih =>
    intro rep acc hf hok
    cases rep with
    | nil => rw [substExpand.go]; simp [expandRef]
    | cons c r =>
      rw [substExpand.go]
      by_cases hc : c = 92
      · subst hc
        cases r with
        | nil =>
          simp only [List.isEmpty_nil, Bool.not_true, Bool.and_false, Bool.false_eq_true, if_false]
          rw [ih [] _ (by simp at hf ⊢; omega) (by simp [refs]), expandRef_lone, expandRef_nil]
          simp
        | cons d r' =>
          have hl : r'.length < f := by simp at hf; omega
          have e1 : ((92 : Nat) == 92 && !(d :: r').isEmpty) = true := rfl
          rw [if_pos e1]
          show (if (decide (48 ≤ d) && decide (d ≤ 57)) = true then
              if grpEo offs (d - 48) - grpSo offs (d - 48) < 0 then none
              else if (grpEo offs (d - 48) - grpSo offs (d - 48) == 0) = true then substExpand.go ln offs f r' acc
              else if (decide (grpSo offs (d - 48) < 0) || decide (grpEo offs (d - 48) > ↑ln.length)) = true then none
              else substExpand.go ln offs f r' (acc ++ grpText ln offs (d - 48))
            else substExpand.go ln offs f r' (acc ++ [d])) = _
          by_cases hd : isDigit d
          · have hd' : (decide (48 ≤ d) && decide (d ≤ 57)) = true := by
              simp only [Bool.and_eq_true, decide_eq_true_eq]; exact hd
            rw [if_pos hd', expandRef_group _ _ _ _ hd]
            have hg : GrpOk ln offs (d - 48) := hok _ (by simp [refs_group _ _ hd])
            have hr : ∀ d' ∈ refs r', GrpOk ln offs d' := fun d' h' => hok d' (by simp [refs_group _ _ hd, h'])
            obtain ⟨g1, g2⟩ := (grp_cases ln offs (d - 48)).1 hg
            rw [if_neg g1]
            by_cases hz : (grpEo offs (d - 48) - grpSo offs (d - 48) == 0) = true
            · rw [if_pos hz, ih _ _ hl hr]
              have : grpText ln offs (d - 48) = [] := by
                unfold grpText; rw [beq_iff_eq] at hz; rw [hz]; simp
              rw [this]; simp
            · rw [if_neg hz]
              rcases g2 with g2 | g2
              · exact absurd g2 hz
              · rw [if_neg g2, ih _ _ hl hr, List.append_assoc]
          · have hd' : ¬ (decide (48 ≤ d) && decide (d ≤ 57)) = true := by
              simp only [Bool.and_eq_true, decide_eq_true_eq]; exact hd
            rw [if_neg hd', expandRef_esc _ _ _ _ hd]
            have hr : ∀ d' ∈ refs r', GrpOk ln offs d' := fun d' h' => hok d' (by simp [refs_esc _ _ hd, h'])
            rw [ih _ _ hl hr]
            simp
      · have : ¬ ((c == 92) && !r.isEmpty) = true := by simp [hc]
        rw [if_neg this, expandRef_other _ _ _ _ hc]
        have hr : ∀ d' ∈ refs r, GrpOk ln offs d' := fun d' h' => hok d' (by simp [refs_other _ _ hc, h'])
        rw [ih _ _ (by simp at hf; omega) hr]
        simp

/-- **expand_spec**: when every referenced group is empty or a proper slice of the line, the model's
    expansion succeeds and is the reference expansion -/
theorem expand_spec (rep ln : Bytes) (offs : List Int) (h : ∀ d ∈ refs rep, GrpOk ln offs d) :
    substExpand rep ln offs = some (expandRef rep ln offs) := by
  unfold substExpand
  rw [go_spec ln offs _ rep [] (by omega) h]
  simp

theorem go_none (ln : Bytes) (offs : List Int) : ∀ (f : Nat) (rep acc : Bytes), rep.length < f →
    (∃ d ∈ refs rep, ¬ GrpOk ln offs d) → substExpand.go ln offs f rep acc = none := by
  intro f
  induction f with
  | zero => intro rep acc h; omega
  | succ f ih =>
    intro rep acc hf hbad
    cases rep with
    | nil => simp [refs] at hbad
    | cons c r =>
      rw [substExpand.go]
      by_cases hc : c = 92
      · subst hc
        cases r with
        | nil => simp [refs] at hbad
        | cons d r' =>
          have hl : r'.length < f := by simp at hf; omega
          have e1 : ((92 : Nat) == 92 && !(d :: r').isEmpty) = true := rfl
          rw [if_pos e1]
          show (if (decide (48 ≤ d) && decide (d ≤ 57)) = true then
              if grpEo offs (d - 48) - grpSo offs (d - 48) < 0 then none
              else if (grpEo offs (d - 48) - grpSo offs (d - 48) == 0) = true then substExpand.go ln offs f r' acc
              else if (decide (grpSo offs (d - 48) < 0) || decide (grpEo offs (d - 48) > ↑ln.length)) = true then none
              else substExpand.go ln offs f r' (acc ++ grpText ln offs (d - 48))
            else substExpand.go ln offs f r' (acc ++ [d])) = _
          by_cases hd : isDigit d
          · have hd' : (decide (48 ≤ d) && decide (d ≤ 57)) = true := by
              simp only [Bool.and_eq_true, decide_eq_true_eq]; exact hd
            rw [if_pos hd']
            rw [refs_group _ _ hd] at hbad
            by_cases hg : GrpOk ln offs (d - 48)
            · have hr : ∃ d' ∈ refs r', ¬ GrpOk ln offs d' := by
                obtain ⟨d', h1, h2⟩ := hbad
                simp only [List.mem_cons] at h1
                rcases h1 with rfl | h1
                · exact absurd hg h2
                · exact ⟨d', h1, h2⟩
              split
              · rfl
              · split
                · exact ih _ _ hl hr
                · split
                  · rfl
                  · exact ih _ _ hl hr
            · have := (not_congr (grp_cases ln offs (d - 48))).1 hg
              split
              · rfl
              · rename_i g1
                split
                · rename_i g2; exact absurd ⟨g1, Or.inl g2⟩ this
                · split
                  · rfl
                  · rename_i g3; exact absurd ⟨g1, Or.inr g3⟩ this
          · have hd' : ¬ (decide (48 ≤ d) && decide (d ≤ 57)) = true := by
              simp only [Bool.and_eq_true, decide_eq_true_eq]; exact hd
            rw [if_neg hd']
            rw [refs_esc _ _ hd] at hbad
            exact ih _ _ hl hbad
      · have : ¬ ((c == 92) && !r.isEmpty) = true := by simp [hc]
        rw [if_neg this]
        rw [refs_other _ _ hc] at hbad
        exact ih _ _ (by simp at hf; omega) hbad

/-- the model returns `none` (a garbage length handed to `memcpy`) exactly when some referenced group is
    neither empty nor a proper slice of the line -/
theorem expand_none_iff (rep ln : Bytes) (offs : List Int) :
    substExpand rep ln offs = none ↔ ∃ d ∈ refs rep, ¬ GrpOk ln offs d := by
  constructor
  · intro h
    apply Classical.byContradiction
    intro hn
    have : ∀ d ∈ refs rep, GrpOk ln offs d := by
      intro d hd
      apply Classical.byContradiction
      intro hb
      exact hn ⟨d, hd, hb⟩
    rw [expand_spec rep ln offs this] at h
    cases h
  · intro h
    unfold substExpand
    exact go_none ln offs _ rep [] (by omega) h

/-- groups as `rstr_find` leaves them for a literal pattern (all unset but group 0) are fine -/
example : substExpand [120, 92, 48, 92, 49, 92, 110, 92] [97, 98, 99, 10] [1, 2, -1, -1] = some [120, 98, 110, 92] := by decide
example : expandRef [120, 92, 48, 92, 49, 92, 110, 92] [97, 98, 99, 10] [1, 2, -1, -1] = [120, 98, 110, 92] := by decide
/-- a garbage group (end before start) is a trap -/
example : substExpand [92, 49] [97, 10] [0, 1, 1, 0] = none := by decide

/-! ## 2./3. one line: no match, and the first match only -/

/-- **subst_no_match**: when the first search reports "not found" the line is left alone
    (`some none`: `ec_substitute` does not call `lbuf_edit`, so no history entry is logged for it) -/
theorem subst_no_match (re : RStr) (rep : Bytes) (g : Bool) (line : Bytes) (res : Int) (offs : List Int) (c : Nat)
    (h : rstrFind re line 16 0 ND NG = some (res, offs, c)) (hres : res < 0) :
    substLine re rep g line = some none := by
  unfold substLine
  rw [substLine.go]
  simp only [if_true, h, hres]

/-- **subst_first**: without `g`, whatever the first match `[so, eo)` is, it is replaced by the expansion and
    every other byte of the line is kept.  (When the match is empty, `eo ≤ so`, one character is copied after it: at
    most what is left of the line, `MIN(uc_len(ln), strlen(ln))` — the old hypothesis "that character is complete"
    is no longer needed.) -/
theorem subst_first (re : RStr) (rep line : Bytes) (res : Int) (offs : List Int) (c : Nat) (x : Bytes)
    (h : rstrFind re line 16 0 ND NG = some (res, offs, c)) (hres : 0 ≤ res)
    (hx : substExpand rep line offs = some x) :
    substLine re rep false line =
      some (some (line.take (offs.getD 0 0).toNat ++ x ++ line.drop (offs.getD 1 0).toNat)) := by
  unfold substLine
  rw [substLine.go]
  have h1 : ¬ res < 0 := by omega
  simp only [↓reduceIte, h, h1, hx]
  generalize offs.getD 1 0 = eo at *
  generalize offs.getD 0 0 = so at *
  generalize List.drop eo.toNat line = ln1 at *
  generalize min (Uc.ucLen (ln1.headD 0)) ln1.length = l at *
  by_cases he : eo ≤ so
  · simp [he]
  · simp [he]

/-- **subst_first_only**: without `g`, a non-empty first match `[so, eo)` is replaced by the expansion and
    every other byte of the line is kept -/
theorem subst_first_only (re : RStr) (rep line : Bytes) (res : Int) (offs : List Int) (c : Nat) (x : Bytes)
    (h : rstrFind re line 16 0 ND NG = some (res, offs, c)) (hres : 0 ≤ res)
    (heo : offs.getD 0 0 < offs.getD 1 0) (hx : substExpand rep line offs = some x) :
    substLine re rep false line =
      some (some (line.take (offs.getD 0 0).toNat ++ x ++ line.drop (offs.getD 1 0).toNat)) :=
  have _ := heo
  subst_first re rep line res offs c x h hres hx

/-- the same with the reference expansion, when the groups are usable -/
theorem subst_first_only_ref (re : RStr) (rep line : Bytes) (res : Int) (offs : List Int) (c : Nat)
    (h : rstrFind re line 16 0 ND NG = some (res, offs, c)) (hres : 0 ≤ res)
    (heo : offs.getD 0 0 < offs.getD 1 0) (hok : ∀ d ∈ refs rep, GrpOk line offs d) :
    substLine re rep false line =
      some (some (line.take (offs.getD 0 0).toNat ++ expandRef rep line offs ++ line.drop (offs.getD 1 0).toNat)) :=
  subst_first_only re rep line res offs c _ h hres heo (expand_spec rep line offs hok)

/-- an empty first match at the very start (`eo ≤ 0`): the expansion is inserted and the whole line follows
    unchanged (whether or not its first character is complete) -/
theorem subst_first_only_empty (re : RStr) (rep line : Bytes) (res : Int) (offs : List Int) (c : Nat) (x : Bytes)
    (h : rstrFind re line 16 0 ND NG = some (res, offs, c)) (hres : 0 ≤ res)
    (heo : offs.getD 1 0 ≤ 0) (hx : substExpand rep line offs = some x) :
    substLine re rep false line = some (some (line.take (offs.getD 0 0).toNat ++ x ++ line)) := by
  have h3 : (offs.getD 1 0).toNat = 0 := by omega
  have := subst_first re rep line res offs c x h hres hx
  rw [h3] at this
  exact this

/-! ## 4. the scan over one line against an abstract matcher -/

/-- an abstract matcher on (rest of the line, "not at the beginning of the line"):
    `none` = trap, `some none` = not found, `some (some (so, eo, offs))` = found -/
abbrev Matcher := Bytes → Bool → Option (Option (Nat × Nat × List Int))

/-- a matcher that never traps, in the plain form -/
def Matcher.ofTotal (find : Bytes → Bool → Option (Nat × Nat × List Int)) : Matcher := fun s nb => some (find s nb)

theorem foldl_pick (cond : Nat → Bool) : ∀ (l : List Nat) (acc : Int),
    l.foldl (fun (acc : Int) i => if cond i then (i : Int) else acc) acc = acc ∨
    ∃ i : Nat, l.foldl (fun (acc : Int) i => if cond i then (i : Int) else acc) acc = (i : Int) ∧ cond i = true := by
  intro l
  induction l with
  | nil => intro acc; exact Or.inl rfl
  | cons a l ih =>
    intro acc
    rw [List.foldl_cons]
    by_cases hc : cond a = true
    · rw [if_pos hc]
      rcases ih (a : Int) with h | h
      · exact Or.inr ⟨a, h, hc⟩
      · exact Or.inr h
    · rw [if_neg hc]
      exact ih acc

/-- a match reported by `rset_find` starts at a non-negative offset: the set is chosen among those whose
    outer group has a start `≥ 0`, and `offs[0]` is that start -/
theorem find_so_nonneg (rs : RSet) (s : Bytes) (n flg nd ng : Nat) (res : Int) (offs : List Int) (c : Nat)
    (h : find rs s n flg nd ng = some (res, offs, c)) (hres : 0 ≤ res) : 0 ≤ offs.getD 0 0 := by
  unfold find at h
  split at h
  · cases h; omega
  · simp only [] at h
    split at h
    · cases h
    · cases h; omega
    · rename_i m c' subs hx
      split at h
      · cases h; omega
      · rename_i hset
        simp only [Option.some.injEq, Prod.mk.injEq] at h
        obtain ⟨h1, h2, _⟩ := h
        subst h2
        cases n with
        | zero => simp
        | succ n =>
          rcases foldl_pick (fun i => rs.grp.getD i (-1) ≥ 0 && (subs.getD (rs.grp.getD i (-1)).toNat (-1, -1)).1 ≥ 0)
            (List.range rs.n) (-1) with hp | ⟨i, hp, hc⟩
          · exact absurd (by rw [hp]; omega) hset
          · rw [hp]
            simp only [Bool.and_eq_true, decide_eq_true_eq] at hc
            obtain ⟨hc1, hc2⟩ := hc
            have hg : rs.grp.getD i 0 = rs.grp.getD i (-1) := by
              simp only [List.getD_eq_getElem?_getD] at hc1 ⊢
              cases hgi : rs.grp[i]? with
              | none => rw [hgi] at hc1; simp at hc1
              | some v => rfl
            rw [List.range_succ_eq_map, List.flatMap_cons]
            simp only [Int.toNat_natCast, Nat.zero_lt_succ, if_true, Nat.add_zero, hg, List.cons_append,
              List.getD_cons_zero]
            exact hc2

/-- the same for `rstr_find` (the literal fast path reports `[r, r + len)` with `r` a position) -/
theorem rstrFind_so_nonneg (re : RStr) (s : Bytes) (n flg nd ng : Nat) (res : Int) (offs : List Int) (c : Nat)
    (h : rstrFind re s n flg nd ng = some (res, offs, c)) (hres : 0 ≤ res) : 0 ≤ offs.getD 0 0 := by
  unfold rstrFind at h
  split at h
  · exact find_so_nonneg _ _ _ _ _ _ _ _ _ h hres
  · simp only [] at h
    split at h
    · cases h; omega
    · split at h
      · cases h; omega
      · split at h
        · cases h
        · cases h; omega
        · rename_i r _
          simp only [Option.some.injEq, Prod.mk.injEq] at h
          obtain ⟨_, h2, _⟩ := h
          subst h2
          cases n with
          | zero => simp
          | succ n => simp

/-- `rstr_find` as `ec_substitute` calls it, seen as a matcher -/
def rsFind (re : RStr) : Matcher := fun s notbol =>
  match rstrFind re s 16 (if notbol then RE_NOTBOL else 0) ND NG with
  | none => none
  | some (res, offs, _) =>
    if res < 0 then some none else some (some ((offs.getD 0 0).toNat, (offs.getD 1 0).toNat, offs))

/-- the expansion or a trap, stated with the reference expansion -/
def expandOpt (rep ln : Bytes) (offs : List Int) : Option Bytes :=
  if ∀ d ∈ refs rep, GrpOk ln offs d then some (expandRef rep ln offs) else none

theorem substExpand_eq (rep ln : Bytes) (offs : List Int) : substExpand rep ln offs = expandOpt rep ln offs := by
  unfold expandOpt
  split
  · rename_i h; exact expand_spec rep ln offs h
  · rename_i h
    rw [expand_none_iff]
    apply Classical.byContradiction
    intro hn
    apply h
    intro d hd
    apply Classical.byContradiction
    intro hb
    exact hn ⟨d, hd, hb⟩

/-- one step of the scan: what is copied, what is dropped, what is inserted -/
structure Piece where
  /-- the bytes before the match: copied -/
  skip : Bytes
  /-- the matched bytes: dropped -/
  matched : Bytes
  /-- the expansion of the replacement: inserted -/
  sub : Bytes
  /-- the character copied after an empty match at the start of the rest -/
  ch : Bytes
deriving Repr, DecidableEq

/-- the reference scan: match, cut the piece, go on with the rest (from then on "not at the beginning") -/
def scan (find : Matcher) (rep : Bytes) (g : Bool) (ln : Bytes) (notbol : Bool) : Option (List Piece × Bytes) :=
  match find ln notbol with
  | none => none                                -- the matcher traps
  | some none => some ([], ln)                  -- no further match: the rest is kept
  | some (some (so, eo, offs)) =>
    match expandOpt rep ln offs with
    | none => none                              -- garbage group offsets
    | some x =>
      let rest := ln.drop eo
      -- after an empty match (`eo ≤ so`) one character is copied, so that the scan advances
      --   (at most what is left of the line: `MIN(uc_len(ln), strlen(ln))`; a truncated character is copied as it is)
      let l := if eo ≤ so then min (Uc.ucLen (rest.headD 0)) rest.length else 0
      let p : Piece := ⟨ln.take so, (ln.take eo).drop so, x, rest.take l⟩
      let rest' := rest.drop l
      if rest' = [] ∨ rest'.headD 0 = 10 ∨ g = false then some ([p], rest')
      else if _h : rest'.length < ln.length then
        match scan find rep g rest' true with
        | none => none
        | some (ps, r) => some (p :: ps, r)
      else none                                 -- no progress (only with a NUL byte in the line)
termination_by ln.length
decreasing_by exact _h

/-- the text the pieces were cut from, and the text they produce -/
def srcOf (ps : List Piece) (rest : Bytes) : Bytes := (ps.flatMap fun p => p.skip ++ p.matched ++ p.ch) ++ rest
def outOf (ps : List Piece) (rest : Bytes) : Bytes := (ps.flatMap fun p => p.skip ++ p.sub ++ p.ch) ++ rest

/-- reference for `substLine` -/
def substRef (find : Matcher) (rep : Bytes) (g : Bool) (line : Bytes) : Option (Option Bytes) :=
  match scan find rep g line false with
  | none => none
  | some ([], _) => some none
  | some (ps, rest) => some (some (outOf ps rest))

/-- how the accumulator of the model's loop continues -/
def comb (r : Option Bytes) (ps : List Piece) : Option Bytes :=
  match ps with
  | [] => r
  | _ => some (r.getD [] ++ ps.flatMap fun p => p.skip ++ p.sub ++ p.ch)

theorem comb_cons (r : Option Bytes) (p : Piece) (ps : List Piece) :
    comb r (p :: ps) = comb (some (r.getD [] ++ p.skip ++ p.sub ++ p.ch)) ps := by
  cases ps <;> simp [comb]

theorem go_eq_scan (re : RStr) (rep : Bytes) (g : Bool) : ∀ (n : Nat) (ln : Bytes), ln.length < n →
    ∀ (f : Nat) (r : Option Bytes) (notbol : Bool), (∀ b ∈ ln, b ≠ 0) → ln.length < f →
    substLine.go re rep g f ln r (!notbol) =
      (scan (rsFind re) rep g ln notbol).map (fun x => (comb r x.1, x.2)) := by
  intro n
  induction n with
  | zero => intro ln hn; omega
  | succ n ih =>
    intro ln hn f r notbol h0 hf
    cases f with
    | zero => omega
    | succ f =>
      -- the common tail: stop, or go on with the rest
      have key : ∀ (p : Piece) (rest' : Bytes), (rest' ≠ [] → rest'.length < ln.length) → (∀ b ∈ rest', b ≠ 0) →
          (if (rest'.isEmpty || rest'.headD 0 == 10 || !g) = true then
              some (some (r.getD [] ++ p.skip ++ p.sub ++ p.ch), rest')
            else substLine.go re rep g f rest' (some (r.getD [] ++ p.skip ++ p.sub ++ p.ch)) false) =
          Option.map (fun x => (comb r x.1, x.2))
            (if rest' = [] ∨ rest'.headD 0 = 10 ∨ g = false then some ([p], rest')
             else if _h : rest'.length < ln.length then
               match scan (rsFind re) rep g rest' true with
               | none => none
               | some (ps, r) => some (p :: ps, r)
             else none) := by
        intro p rest' hlt h0'
        by_cases hstop : rest' = [] ∨ rest'.headD 0 = 10 ∨ g = false
        · have : (rest'.isEmpty || rest'.headD 0 == 10 || !g) = true := by
            simp only [Bool.or_eq_true, List.isEmpty_iff, beq_iff_eq, Bool.not_eq_true']
            rcases hstop with h | h | h
            · exact Or.inl (Or.inl h)
            · exact Or.inl (Or.inr h)
            · exact Or.inr h
          rw [if_pos this, if_pos hstop]
          simp [comb]
        · have : ¬ (rest'.isEmpty || rest'.headD 0 == 10 || !g) = true := by
            simp only [Bool.or_eq_true, List.isEmpty_iff, beq_iff_eq, Bool.not_eq_true']
            intro h
            apply hstop
            rcases h with (h | h) | h
            · exact Or.inl h
            · exact Or.inr (Or.inl h)
            · exact Or.inr (Or.inr h)
          have hne : rest' ≠ [] := fun h => hstop (Or.inl h)
          have hl := hlt hne
          rw [if_neg this, if_neg hstop, dif_pos hl]
          have := ih rest' (by omega) f (some (r.getD [] ++ p.skip ++ p.sub ++ p.ch)) true h0' (by omega)
          simp only [Bool.not_true] at this
          rw [this]
          cases scan (rsFind re) rep g rest' true with
          | none => rfl
          | some t =>
            obtain ⟨ps, r'⟩ := t
            simp only [Option.map_some, comb_cons]
      have e : (if (!notbol) = true then 0 else RE_NOTBOL) = (if notbol = true then RE_NOTBOL else 0) := by
        cases notbol <;> rfl
      rw [substLine.go, scan, e]
      cases hfnd : rstrFind re ln 16 (if notbol = true then RE_NOTBOL else 0) ND NG with
      | none =>
        have hrs : rsFind re ln notbol = none := by simp only [rsFind, hfnd]
        rw [hrs]; rfl
      | some t =>
        obtain ⟨res, offs, c⟩ := t
        simp only []
        by_cases hres : res < 0
        · have hrs : rsFind re ln notbol = some none := by simp only [rsFind, hfnd, hres, if_true]
          rw [hrs]
          simp [hres, comb]
        · have hrs : rsFind re ln notbol = some (some ((offs.getD 0 0).toNat, (offs.getD 1 0).toNat, offs)) := by
            simp only [rsFind, hfnd, hres, if_false]
          rw [hrs]
          have hso : 0 ≤ offs.getD 0 0 := rstrFind_so_nonneg _ _ _ _ _ _ _ _ _ hfnd (by omega)
          simp only [hres, if_false, substExpand_eq]
          cases hx : expandOpt rep ln offs with
          | none => rfl
          | some x =>
            simp only []
            generalize hsoI : offs.getD 0 0 = soI at *
            generalize heo : offs.getD 1 0 = eo
            generalize hln1 : ln.drop eo.toNat = ln1
            have hln1len : ln1.length ≤ ln.length := by rw [← hln1, List.length_drop]; omega
            have h01 : ∀ b ∈ ln1, b ≠ 0 := fun b hb => h0 b (List.mem_of_mem_drop (hln1 ▸ hb))
            by_cases he : eo ≤ soI
            · have he' : eo.toNat ≤ soI.toNat := by omega
              simp only [he, he', decide_true, Bool.true_and, ↓reduceIte]
              have := key ⟨ln.take soI.toNat, (ln.take eo.toNat).drop soI.toNat, x,
                    ln1.take (min (Uc.ucLen (ln1.headD 0)) ln1.length)⟩
                  (ln1.drop (min (Uc.ucLen (ln1.headD 0)) ln1.length))
                  (by
                    intro hne
                    cases ln1 with
                    | nil => simp at hne
                    | cons a t =>
                      have ha : a ≠ 0 := h01 a (by simp)
                      have := C12.ucLen_pos (c := a) (by omega)
                      simp only [List.headD_cons, List.length_drop, List.length_cons] at hln1len ⊢
                      omega)
                  (fun b hb => h01 b (List.mem_of_mem_drop hb))
              simp only [List.append_assoc] at this ⊢
              exact this
            · have he' : ¬ eo.toNat ≤ soI.toNat := by omega
              have he0 : eo.toNat ≠ 0 := by omega
              simp only [he, he', decide_false, Bool.false_and, Bool.false_eq_true, ↓reduceIte, gt_iff_lt,
                Nat.not_lt_zero, List.take_zero, List.drop_zero]
              have := key ⟨ln.take soI.toNat, (ln.take eo.toNat).drop soI.toNat, x, []⟩ ln1
                  (by
                    intro hne
                    have : eo.toNat < ln.length := by
                      apply Classical.byContradiction
                      intro hge
                      exact hne (hln1 ▸ List.drop_eq_nil_of_le (by omega))
                    rw [← hln1, List.length_drop]
                    omega)
                  h01
              simp only [List.append_assoc, List.append_nil] at this ⊢
              exact this

/-- **subst_scan_spec**: on a line without NUL bytes (every C string) the per-line loop of `ec_substitute`
    is the reference scan against `rstr_find` -/
theorem subst_scan_spec (re : RStr) (rep : Bytes) (g : Bool) (line : Bytes) (h0 : ∀ b ∈ line, b ≠ 0) :
    substLine re rep g line = substRef (rsFind re) rep g line := by
  unfold substLine substRef
  have := go_eq_scan re rep g (line.length + 1) line (by omega) (line.length + 2) none false h0 (by omega)
  simp only [Bool.not_false] at this
  rw [this]
  cases scan (rsFind re) rep g line false with
  | none => rfl
  | some t =>
    obtain ⟨ps, rest⟩ := t
    cases ps with
    | nil => rfl
    | cons p ps => simp [comb, outOf]

/-- the same against a matcher given in the plain form (one that never traps) -/
theorem subst_scan_spec_total (re : RStr) (rep : Bytes) (g : Bool) (line : Bytes) (h0 : ∀ b ∈ line, b ≠ 0)
    (find : Bytes → Bool → Option (Nat × Nat × List Int)) (hf : ∀ s nb, rsFind re s nb = some (find s nb)) :
    substLine re rep g line = substRef (Matcher.ofTotal find) rep g line := by
  rw [subst_scan_spec re rep g line h0]
  have : rsFind re = Matcher.ofTotal find := by
    funext s nb; exact hf s nb
  rw [this]

/-! ### corollaries of the scan -/

/-- a matcher whose matches are intervals -/
def Matcher.Ordered (find : Matcher) : Prop := ∀ s nb so eo offs, find s nb = some (some (so, eo, offs)) → so ≤ eo

theorem take_mid_drop (ln : Bytes) (so eo : Nat) (h : so ≤ eo) :
    ln.take so ++ (ln.take eo).drop so ++ ln.drop eo = ln := by
  have h1 : ln.take so = (ln.take eo).take so := by rw [List.take_take, Nat.min_eq_left h]
  rw [h1, List.take_append_drop, List.take_append_drop]

/-- inversion of a successful scan: either nothing was found, or a first piece was cut and the scan
    stopped or went on with the rest -/
theorem scan_cases {find : Matcher} {rep : Bytes} {g : Bool} {ln : Bytes} {nb : Bool} {ps : List Piece} {rest : Bytes}
    (h : scan find rep g ln nb = some (ps, rest)) :
    (find ln nb = some none ∧ ps = [] ∧ rest = ln) ∨
    ∃ so eo offs x l ps', find ln nb = some (some (so, eo, offs)) ∧ expandOpt rep ln offs = some x ∧
      l = (if eo ≤ so then min (Uc.ucLen ((ln.drop eo).headD 0)) (ln.drop eo).length else 0) ∧ l ≤ (ln.drop eo).length ∧
      ps = ⟨ln.take so, (ln.take eo).drop so, x, (ln.drop eo).take l⟩ :: ps' ∧
      ((ps' = [] ∧ rest = (ln.drop eo).drop l) ∨
       (((ln.drop eo).drop l).length < ln.length ∧ scan find rep g ((ln.drop eo).drop l) true = some (ps', rest))) := by
  rw [scan] at h
  split at h
  · cases h
  · rename_i hf; cases h; exact Or.inl ⟨hf, rfl, rfl⟩
  · rename_i so eo offs hf
    right
    split at h
    · cases h
    · rename_i x hx
      simp only [] at h
      generalize hl : (if eo ≤ so then min (Uc.ucLen ((ln.drop eo).headD 0)) (ln.drop eo).length else 0) = l at h
      have hle : l ≤ (ln.drop eo).length := by rw [← hl]; split <;> omega
      split at h
      · cases h
        exact ⟨so, eo, offs, x, l, [], hf, hx, hl.symm, hle, rfl, Or.inl ⟨rfl, rfl⟩⟩
      · split at h
        · rename_i hlt
          split at h
          · cases h
          · rename_i ps' r' hs
            cases h
            exact ⟨so, eo, offs, x, l, ps', hf, hx, hl.symm, hle, rfl, Or.inr ⟨hlt, hs⟩⟩
        · cases h

/-- the pieces partition the line: skipped bytes, matched bytes, copied character, ..., rest — in order -/
theorem scan_src (find : Matcher) (hord : find.Ordered) (rep : Bytes) (g : Bool) : ∀ (n : Nat) (ln : Bytes), ln.length < n →
    ∀ (nb : Bool) (ps : List Piece) (rest : Bytes), scan find rep g ln nb = some (ps, rest) → ln = srcOf ps rest := by
  intro n
  induction n with
  | zero => intro ln hn; omega
  | succ n ih =>
    intro ln hn nb ps rest h
    rcases scan_cases h with ⟨_, rfl, rfl⟩ | ⟨so, eo, offs, x, l, ps', hf, _, _, _, rfl, hrest⟩
    · simp [srcOf]
    · have hle := hord _ _ _ _ _ hf
      have hpart : ln = ln.take so ++ (ln.take eo).drop so ++ (ln.drop eo).take l ++ (ln.drop eo).drop l := by
        rw [List.append_assoc _ (List.take _ _), List.take_append_drop, take_mid_drop ln so eo hle]
      rcases hrest with ⟨rfl, rfl⟩ | ⟨hlt, hs⟩
      · simp only [srcOf, List.flatMap_cons, List.flatMap_nil, List.append_nil]
        exact hpart
      · have := ih _ (by omega) _ _ _ hs
        simp only [srcOf, List.flatMap_cons, List.append_assoc] at this ⊢
        rw [← this]
        simp only [List.append_assoc] at hpart
        exact hpart

theorem scan_nonempty (find : Matcher) (rep : Bytes) (g : Bool) (ln : Bytes) (nb : Bool) (ps : List Piece) (rest : Bytes)
    (h : scan find rep g ln nb = some (ps, rest)) : ps = [] ↔ find ln nb = some none := by
  rcases scan_cases h with ⟨hf, rfl, rfl⟩ | ⟨so, eo, offs, x, l, ps', hf, _, _, _, rfl, _⟩
  · simp [hf]
  · simp [hf]

/-- **output_pieces**: when a line is rewritten, it splits into pieces and a rest such that the old line is
    `skip₁ matched₁ ch₁ … skipₖ matchedₖ chₖ rest` and the new one `skip₁ sub₁ ch₁ … skipₖ subₖ chₖ rest`:
    every byte of the output is copied from the line, in order, or comes from an expansion; the matched
    intervals do not overlap and advance -/
theorem output_pieces (re : RStr) (hord : (rsFind re).Ordered) (rep : Bytes) (g : Bool) (line out : Bytes)
    (h0 : ∀ b ∈ line, b ≠ 0) (h : substLine re rep g line = some (some out)) :
    ∃ ps rest, ps ≠ [] ∧ scan (rsFind re) rep g line false = some (ps, rest) ∧
      line = srcOf ps rest ∧ out = outOf ps rest := by
  rw [subst_scan_spec re rep g line h0] at h
  unfold substRef at h
  split at h
  · cases h
  · cases h
  · rename_i ps rest hne hs
    cases h
    refine ⟨ps, rest, ?_, hs, scan_src _ hord rep g _ line (Nat.lt_succ_self _) false ps rest hs, rfl⟩
    intro hp; subst hp; exact hne rfl

/-- absolute intervals `[a, b)` of the matched texts, for pieces that start at offset `base` -/
def spans (base : Nat) : List Piece → List (Nat × Nat)
  | [] => []
  | p :: ps => (base + p.skip.length, base + p.skip.length + p.matched.length) ::
      spans (base + p.skip.length + p.matched.length + p.ch.length) ps

/-- each interval starts at or after `lo` and the next one at or after its end -/
def Advancing (lo : Nat) : List (Nat × Nat) → Prop
  | [] => True
  | (a, b) :: r => lo ≤ a ∧ a ≤ b ∧ Advancing b r

theorem advancing_mono {lo lo' : Nat} (h : lo ≤ lo') : ∀ l, Advancing lo' l → Advancing lo l := by
  intro l
  cases l with
  | nil => intro _; trivial
  | cons x r => obtain ⟨a, b⟩ := x; intro ⟨h1, h2, h3⟩; exact ⟨by omega, h2, h3⟩

theorem spans_advancing (base : Nat) (ps : List Piece) : Advancing base (spans base ps) := by
  induction ps generalizing base with
  | nil => trivial
  | cons p ps ih =>
    refine ⟨by omega, by omega, ?_⟩
    exact advancing_mono (by omega) _ (ih _)

/-- the text at the `i`-th interval of the old line is the `i`-th matched text -/
theorem spans_text (rest : Bytes) : ∀ (ps : List Piece) (pre : Bytes) (i : Nat) (p : Piece) (a b : Nat),
    ps[i]? = some p → (spans pre.length ps)[i]? = some (a, b) →
    ((pre ++ srcOf ps rest).drop a).take (b - a) = p.matched := by
  intro ps
  induction ps with
  | nil => intro pre i p a b h; simp at h
  | cons q ps ih =>
    intro pre i p a b hp hs
    cases i with
    | zero =>
      simp only [List.getElem?_cons_zero, Option.some.injEq] at hp
      subst hp
      simp only [spans, List.getElem?_cons_zero, Option.some.injEq, Prod.mk.injEq] at hs
      obtain ⟨rfl, rfl⟩ := hs
      simp only [srcOf, List.flatMap_cons, List.append_assoc]
      rw [← List.append_assoc pre, show pre.length + q.skip.length = (pre ++ q.skip).length by simp,
        List.drop_left]
      simp
    | succ i =>
      simp only [List.getElem?_cons_succ] at hp
      simp only [spans, List.getElem?_cons_succ] at hs
      have := ih (pre ++ q.skip ++ q.matched ++ q.ch) i p a b hp (by simpa [Nat.add_assoc] using hs)
      simpa [srcOf, List.append_assoc] using this

/-- `scan_cases`, keeping why the scan went on: the rest is not empty, does not start with a newline, and
    `g` is set -/
theorem scan_cases_go {find : Matcher} {rep : Bytes} {g : Bool} {ln : Bytes} {nb : Bool} {ps : List Piece} {rest : Bytes}
    (h : scan find rep g ln nb = some (ps, rest)) :
    (find ln nb = some none ∧ ps = [] ∧ rest = ln) ∨
    ∃ so eo offs x l ps', find ln nb = some (some (so, eo, offs)) ∧ expandOpt rep ln offs = some x ∧
      l = (if eo ≤ so then min (Uc.ucLen ((ln.drop eo).headD 0)) (ln.drop eo).length else 0) ∧ l ≤ (ln.drop eo).length ∧
      ps = ⟨ln.take so, (ln.take eo).drop so, x, (ln.drop eo).take l⟩ :: ps' ∧
      ((ps' = [] ∧ rest = (ln.drop eo).drop l) ∨
       ((ln.drop eo).drop l ≠ [] ∧ ((ln.drop eo).drop l).headD 0 ≠ 10 ∧ g = true ∧
        ((ln.drop eo).drop l).length < ln.length ∧ scan find rep g ((ln.drop eo).drop l) true = some (ps', rest))) := by
  rw [scan] at h
  split at h
  · cases h
  · rename_i hf; cases h; exact Or.inl ⟨hf, rfl, rfl⟩
  · rename_i so eo offs hf
    right
    split at h
    · cases h
    · rename_i x hx
      simp only [] at h
      generalize hl : (if eo ≤ so then min (Uc.ucLen ((ln.drop eo).headD 0)) (ln.drop eo).length else 0) = l at h
      have hle : l ≤ (ln.drop eo).length := by rw [← hl]; split <;> omega
      split at h
      · cases h
        exact ⟨so, eo, offs, x, l, [], hf, hx, hl.symm, hle, rfl, Or.inl ⟨rfl, rfl⟩⟩
      · rename_i hgo
        split at h
        · rename_i hlt
          split at h
          · cases h
          · rename_i ps' r' hs
            cases h
            refine ⟨so, eo, offs, x, l, ps', hf, hx, hl.symm, hle, rfl, Or.inr ⟨?_, ?_, ?_, hlt, hs⟩⟩
            · exact fun h => hgo (Or.inl h)
            · exact fun h => hgo (Or.inr (Or.inl h))
            · cases g
              · exact absurd (Or.inr (Or.inr rfl)) hgo
              · rfl
        · cases h

/-- **scan_progress**: every round but the last consumes at least one byte of the line — the skipped, the
    matched and the copied text of a piece that is not the last are not all empty.  (With the test
    `offs[1] <= offs[0]` an empty match is always followed by a copied character; a non-empty one consumes its
    own text.) -/
theorem scan_progress (find : Matcher) (rep : Bytes) (g : Bool) : ∀ (n : Nat) (ln : Bytes), ln.length < n →
    ∀ (nb : Bool) (ps : List Piece) (rest : Bytes), scan find rep g ln nb = some (ps, rest) →
    ∀ (i : Nat) (p : Piece), i + 1 < ps.length → ps[i]? = some p → p.skip ++ p.matched ++ p.ch ≠ [] := by
  intro n
  induction n with
  | zero => intro ln hn; omega
  | succ n ih =>
    intro ln hn nb ps rest h i p hi hp
    rcases scan_cases h with ⟨_, rfl, rfl⟩ | ⟨so, eo, offs, x, l, ps', hf, _, _, hl, rfl, hrest⟩
    · simp at hi
    · rcases hrest with ⟨rfl, rfl⟩ | ⟨hlt, hs⟩
      · simp at hi
      · cases i with
        | zero =>
          simp only [List.getElem?_cons_zero, Option.some.injEq] at hp
          subst hp
          intro hnil
          have := congrArg List.length hnil
          simp only [List.length_append, List.length_take, List.length_drop, List.length_nil] at this hlt hl
          omega
        | succ i =>
          simp only [List.getElem?_cons_succ] at hp
          simp only [List.length_cons] at hi
          exact ih _ (by omega) _ _ _ hs i p (by omega) hp

theorem spans_length (base : Nat) (ps : List Piece) : (spans base ps).length = ps.length := by
  induction ps generalizing base with
  | nil => rfl
  | cons p ps ih => simp only [spans, List.length_cons, ih]

/-- after an empty match that is not the last one, a character is copied (the line is a C string: no NUL) -/
theorem empty_match_then_char (find : Matcher) (hord : find.Ordered) (rep : Bytes) (g : Bool) :
    ∀ (n : Nat) (ln : Bytes), ln.length < n → (∀ b ∈ ln, b ≠ 0) →
    ∀ (nb : Bool) (ps : List Piece) (rest : Bytes), scan find rep g ln nb = some (ps, rest) →
    ∀ (i : Nat) (p : Piece), i + 1 < ps.length → ps[i]? = some p → p.matched = [] → p.ch ≠ [] := by
  intro n
  induction n with
  | zero => intro ln hn; omega
  | succ n ih =>
    intro ln hn h0 nb ps rest h i p hi hp hm
    rcases scan_cases_go h with ⟨_, rfl, rfl⟩ | ⟨so, eo, offs, x, l, ps', hf, _, hl, hle, rfl, hrest⟩
    · simp at hi
    · rcases hrest with ⟨rfl, rfl⟩ | ⟨hne, _, _, hlt, hs⟩
      · simp at hi
      · cases i with
        | zero =>
          simp only [List.getElem?_cons_zero, Option.some.injEq] at hp
          subst hp
          simp only [] at hm ⊢
          have hso := hord _ _ _ _ _ hf
          have hm' := congrArg List.length hm
          simp only [List.length_drop, List.length_take, List.length_nil] at hm'
          have hne' : 0 < ((ln.drop eo).drop l).length := List.length_pos_iff.2 hne
          simp only [List.length_drop] at hne' hle
          have heq : eo ≤ so := by omega
          rw [if_pos heq] at hl
          cases hd : ln.drop eo with
          | nil => rw [hd] at hne; simp at hne
          | cons a t =>
            have ha : a ≠ 0 := h0 a (List.mem_of_mem_drop (hd ▸ List.mem_cons_self))
            have hpos := C12.ucLen_pos (c := a) (by omega)
            rw [hd] at hl
            simp only [List.headD_cons, List.length_cons] at hl
            intro hnil
            have := congrArg List.length hnil
            simp only [List.length_take, List.length_cons, List.length_nil] at this
            omega
        | succ i =>
          simp only [List.getElem?_cons_succ] at hp
          simp only [List.length_cons] at hi
          exact ih _ (by omega) (fun b hb => h0 b (List.mem_of_mem_drop (List.mem_of_mem_drop hb))) _ _ _ hs i p
            (by omega) hp hm

/-- an empty match is followed by a match strictly further on in the line -/
theorem empty_match_advances (find : Matcher) (hord : find.Ordered) (rep : Bytes) (g : Bool) :
    ∀ (n : Nat) (ln : Bytes), ln.length < n → (∀ b ∈ ln, b ≠ 0) →
    ∀ (nb : Bool) (ps : List Piece) (rest : Bytes), scan find rep g ln nb = some (ps, rest) →
    ∀ (base i a1 b1 a2 b2 : Nat), (spans base ps)[i]? = some (a1, b1) → (spans base ps)[i + 1]? = some (a2, b2) →
      a1 = b1 → b1 < a2 := by
  intro n
  induction n with
  | zero => intro ln hn; omega
  | succ n ih =>
    intro ln hn h0 nb ps rest h base i a1 b1 a2 b2 h1 h2 he
    have hlen : i + 1 < ps.length := by
      rw [← spans_length base ps]
      exact (List.getElem?_eq_some_iff.1 h2).1
    cases ps with
    | nil => simp at hlen
    | cons p0 ps' =>
      cases i with
      | zero =>
        have hch := empty_match_then_char find hord rep g _ ln hn h0 nb _ rest h 0 p0 hlen rfl
        simp only [spans, List.getElem?_cons_zero, Option.some.injEq, Prod.mk.injEq] at h1
        simp only [spans, List.getElem?_cons_succ] at h2
        obtain ⟨rfl, rfl⟩ := h1
        have hm : p0.matched = [] := List.length_eq_zero_iff.1 (by omega)
        have hc : 0 < p0.ch.length := List.length_pos_iff.2 (hch hm)
        cases ps' with
        | nil => simp [spans] at h2
        | cons p1 ps'' =>
          simp only [spans, List.getElem?_cons_zero, Option.some.injEq, Prod.mk.injEq] at h2
          omega
      | succ i =>
        rcases scan_cases h with ⟨_, hnil, _⟩ | ⟨so, eo, offs, x, l, ps1, _, _, _, _, hps, hrest⟩
        · cases hnil
        · simp only [List.cons.injEq] at hps
          obtain ⟨_, rfl⟩ := hps
          rcases hrest with ⟨rfl, _⟩ | ⟨hlt, hs⟩
          · simp at hlen
          · simp only [spans, List.getElem?_cons_succ] at h1 h2
            exact ih _ (by omega) (fun b hb => h0 b (List.mem_of_mem_drop (List.mem_of_mem_drop hb))) _ _ _ hs
              _ i a1 b1 a2 b2 h1 h2 he

/-- **no_empty_match_twice**: two consecutive pieces never both have an empty match at the same position
    of the line.  (With the old test `offs[1] <= 0` they did: `:s` with pattern `\<`, replacement `-` and flag `g` on ` ab`
    substituted twice at offset 1.) -/
theorem no_empty_match_twice (find : Matcher) (hord : find.Ordered) (rep : Bytes) (g : Bool) (ln : Bytes)
    (h0 : ∀ b ∈ ln, b ≠ 0) (nb : Bool) (ps : List Piece) (rest : Bytes) (h : scan find rep g ln nb = some (ps, rest))
    (base i a1 b1 a2 b2 : Nat) (h1 : (spans base ps)[i]? = some (a1, b1)) (h2 : (spans base ps)[i + 1]? = some (a2, b2)) :
    ¬ (a1 = b1 ∧ a2 = b2 ∧ a2 = a1) := by
  intro ⟨e1, _, e3⟩
  have := empty_match_advances find hord rep g _ ln (Nat.lt_succ_self _) h0 nb ps rest h base i a1 b1 a2 b2 h1 h2 e1
  omega

/-- the same for the model's `:s` on a line: the pieces of `output_pieces` advance after every empty match -/
theorem subst_no_empty_match_twice (re : RStr) (hord : (rsFind re).Ordered) (rep : Bytes) (g : Bool) (line out : Bytes)
    (h0 : ∀ b ∈ line, b ≠ 0) (h : substLine re rep g line = some (some out)) :
    ∃ ps rest, ps ≠ [] ∧ line = srcOf ps rest ∧ out = outOf ps rest ∧
      (∀ i p, i + 1 < ps.length → ps[i]? = some p → p.skip ++ p.matched ++ p.ch ≠ []) ∧
      ∀ i a1 b1 a2 b2, (spans 0 ps)[i]? = some (a1, b1) → (spans 0 ps)[i + 1]? = some (a2, b2) →
        (a1 = b1 → b1 < a2) ∧ ¬ (a1 = b1 ∧ a2 = b2 ∧ a2 = a1) := by
  obtain ⟨ps, rest, hne, hs, h1, h2⟩ := output_pieces re hord rep g line out h0 h
  refine ⟨ps, rest, hne, h1, h2, scan_progress _ rep g _ line (Nat.lt_succ_self _) false ps rest hs, ?_⟩
  intro i a1 b1 a2 b2 e1 e2
  exact ⟨empty_match_advances _ hord rep g _ line (Nat.lt_succ_self _) h0 false ps rest hs 0 i a1 b1 a2 b2 e1 e2,
    no_empty_match_twice _ hord rep g line h0 false ps rest hs 0 i a1 b1 a2 b2 e1 e2⟩

/-- **anchored patterns match once**: if the matcher never matches when told "not at the beginning of the
    line" (as for `^…` patterns), the scan yields at most one piece, cut at the beginning of the line -/
theorem anchored_once (find : Matcher) (hbol : ∀ s, find s true = some none) (rep : Bytes) (g : Bool)
    (ln : Bytes) (nb : Bool) (ps : List Piece) (rest : Bytes) (h : scan find rep g ln nb = some (ps, rest)) :
    ps.length ≤ 1 := by
  rcases scan_cases h with ⟨_, rfl, rfl⟩ | ⟨so, eo, offs, x, l, ps', _, _, _, _, rfl, hrest⟩
  · simp
  · rcases hrest with ⟨rfl, rfl⟩ | ⟨_, hs⟩
    · simp
    · rcases scan_cases hs with ⟨_, rfl, rfl⟩ | ⟨so, eo, offs, x, l, ps', hf, _⟩
      · simp
      · rw [hbol] at hf; cases hf

/-- `rstr_find` with a literal `^`-anchored pattern never matches under `RE_NOTBOL` -/
theorem rsFind_lbeg (re : RStr) (h1 : re.rs = none) (h2 : re.lbeg = true) (s : Bytes) : rsFind re s true = some none := by
  unfold rsFind
  have hr : rstrFind re s 16 RE_NOTBOL ND NG = some (-1, [], 0) := by
    unfold rstrFind
    simp only [h1, h2]
    have : (true && (RE_NOTBOL &&& RE_NOTBOL != 0)) = true := by decide
    rw [if_pos this]
  simp only [if_true, hr]
  rfl

/-- `:s/a/b/g` on `aaa`: three pieces -/
example : (rstrMake [97] 0).bind (fun r => r.bind (fun re => substLine re [98] true [97, 97, 97, 10])) =
    some (some [98, 98, 98, 10]) := by decide
/-- without `g` only the first -/
example : (rstrMake [97] 0).bind (fun r => r.bind (fun re => substLine re [98] false [97, 97, 97, 10])) =
    some (some [98, 97, 97, 10]) := by decide
/-- `^a` with `g`: once -/
example : (rstrMake [94, 97] 0).bind (fun r => r.bind (fun re => substLine re [98] true [97, 97, 97, 10])) =
    some (some [98, 97, 97, 10]) := by decide

/-- `:s` with pattern `\<`, replacement `-` and flag `g` on ` ab`: the result is ` -a-b`.  The empty match at
    offset 1 is substituted once and `a` is copied after it (before the repair of the zero-length test the next
    round found it again: ` --ab`).  The `-` before `b` is the recorded known finding: the matcher is handed the
    rest of the line, `b`, and does not see the word character before it. -/
example : (rstrMake [92, 60] 0).bind (fun r => r.bind (fun re => substLine re [45] true [32, 97, 98, 10])) =
    some (some [32, 45, 97, 45, 98, 10]) := by decide
/-- its two pieces: empty matches at offsets 1 and 2 of the line — never twice at the same offset
    (`no_empty_match_twice`) -/
example : (rstrMake [92, 60] 0).bind (fun r => r.bind (fun re =>
    (scan (rsFind re) [45] true [32, 97, 98, 10] false).map (fun x => (spans 0 x.1, x.2)))) =
    some ([(1, 1), (2, 2)], [10]) := by decide +kernel

/-! ## 5. the frame of `ec_substitute`

The loop over the range makes `e - b` rounds; after an edit that changes the number of lines (`lbuf_edit` puts
none, or two and more lines for the one it replaces) the index and the end move by that change, so the `k`-th
round works on the line that was at `b + k` when the loop started.  `substLoop` is that loop with the shift
computed (`ed.len` now minus `ed.len` at the start), `substLoopS` the loop as the model writes it (the shift
carried in the state); `substLoopS_eq` relates them.  `substLoop_lines` is the content: the new buffer is
`lines[0, b) ++ (newLines of each line of [b, e), in order) ++ lines[e, …)`, for every replacement.
`outside_range_unchanged` states it for the command, with the frame (before `b`: unchanged; from `e` on:
unchanged up to the shift) and the old single-line corollary. -/

/-- the prologue of `ec_substitute`: pattern and replacement are read from the argument and remembered;
    returns the editor and the `g` flag -/
def substPrep (ed : Ed) (arg : Bytes) : Ed × Bool :=
  let (pat, s) := reRead arg
  let ed := match pat with | some p => if !p.isEmpty then ed.kwdSet (some p) 1 else ed | none => ed
  let (rep, s) := if pat.isSome && !s.isEmpty then
      let delim := arg.headD 0
      let (r, s') := reRead ([delim] ++ s)
      (r, s')
    else (none, s)
  let ed := if pat.isSome || rep.isSome then { ed with xrep := (rep.getD []).take (Gen.EXLEN - 1) } else ed
  (ed, s.contains 103)

/-- one round of the loop of `ec_substitute` on row `i` -/
def substStep (re : RStr) (g : Bool) (i : Int) (ed : Ed) : Option Ed :=
  match ed.line i with
  | none => none
  | some ln =>
    match substLine re ed.xrep g ln with
    | none => none
    | some none => some ed
    | some (some nl) => ed.edit (some nl) i (i + 1)

/-- the loop of `ec_substitute` over the `n` lines that were at `b, …, b + n - 1` when it started.  After an
    edit the index and the end move by the change of the buffer length (`i += n; end += n`), so the `k`-th
    round works on row `b + k + sh`, where `sh` — the sum of the changes so far — is how much the buffer has
    grown since the loop started -/
def substLoop (re : RStr) (g : Bool) (b : Int) (n : Nat) (ed : Ed) : Option Ed :=
  (List.range n).foldl (fun (acc : Option Ed) (k : Nat) =>
    match acc with
    | none => none
    | some em => substStep re g (b + (k : Int) + (em.len - ed.len)) em) (some ed)

/-- the same loop as the model writes it: the state is the editor and the shift `sh` -/
def substLoopS (re : RStr) (g : Bool) (b : Int) (n : Nat) (ed : Ed) : Option (Ed × Int) :=
  (List.range n).foldl (fun (acc : Option (Ed × Int)) (k : Nat) =>
    match acc with
    | none => none
    | some (ed, sh) =>
      let row := b + (k : Int) + sh
      match ed.line row with
      | none => none
      | some ln =>
        match substLine re ed.xrep g ln with
        | none => none
        | some none => some (ed, sh)
        | some (some nl) =>
          match ed.edit (some nl) row (row + 1) with
          | none => none
          | some ed' => some (ed', sh + (ed'.len - ed.len))) (some (ed, 0))

theorem substLoop_succ (re : RStr) (g : Bool) (b : Int) (n : Nat) (ed : Ed) :
    substLoop re g b (n + 1) ed =
      (substLoop re g b n ed).bind (fun em => substStep re g (b + (n : Int) + (em.len - ed.len)) em) := by
  unfold substLoop
  rw [List.range_succ, List.foldl_append]
  simp only [List.foldl_cons, List.foldl_nil]
  cases List.foldl _ (some ed) (List.range n) <;> rfl

/-- the shift the model carries is the growth of the buffer: the two formulations of the loop agree -/
theorem substLoopS_eq (re : RStr) (g : Bool) (b : Int) (ed : Ed) : ∀ n : Nat,
    substLoopS re g b n ed = (substLoop re g b n ed).map (fun em => (em, em.len - ed.len)) := by
  intro n
  induction n with
  | zero =>
    show some (ed, (0 : Int)) = some (ed, ed.len - ed.len)
    rw [Int.sub_self]
  | succ n ih =>
    rw [substLoop_succ]
    have hs : substLoopS re g b (n + 1) ed =
        (substLoopS re g b n ed).bind (fun st =>
          match st with
          | (ed, sh) =>
            let row := b + (n : Int) + sh
            match ed.line row with
            | none => none
            | some ln =>
              match substLine re ed.xrep g ln with
              | none => none
              | some none => some (ed, sh)
              | some (some nl) =>
                match ed.edit (some nl) row (row + 1) with
                | none => none
                | some ed' => some (ed', sh + (ed'.len - ed.len))) := by
      unfold substLoopS
      rw [List.range_succ, List.foldl_append]
      simp only [List.foldl_cons, List.foldl_nil]
      cases List.foldl _ (some (ed, (0 : Int))) (List.range n) <;> rfl
    rw [hs, ih]
    cases substLoop re g b n ed with
    | none => rfl
    | some em =>
      simp only [Option.map_some, Option.bind_some]
      unfold substStep
      cases em.line (b + (n : Int) + (em.len - ed.len)) with
      | none => rfl
      | some ln =>
        simp only []
        cases substLine re em.xrep g ln with
        | none => rfl
        | some o =>
          cases o with
          | none => rfl
          | some nl =>
            simp only []
            cases em.edit (some nl) (b + (n : Int) + (em.len - ed.len)) (b + (n : Int) + (em.len - ed.len) + 1) with
            | none => rfl
            | some e2 =>
              simp only [Option.map_some, Option.some.injEq, Prod.mk.injEq, true_and]
              omega

/-- the `ec_substitute` branch of `runCmd`, in terms of the pieces above -/
theorem runCmd_subst_eq (f : Nat) (ed : Ed) (loc cmd arg : Bytes) (txt : Option Bytes) :
    runCmd (f + 1) ed "ec_substitute" loc cmd arg txt =
      match exRegion ed loc with
      | none => none
      | some ((rc, b, e), ed) =>
        if rc != 0 then some (1, ed) else
        if (substPrep ed arg).1.xkwddir == 0 then some (1, (substPrep ed arg).1) else
        match (substPrep ed arg).1.mkRe (substPrep ed arg).1.xkwd with
        | none => none
        | some none => some (1, (substPrep ed arg).1)
        | some (some re) =>
          match substLoop re (substPrep ed arg).2 b (e - b).toNat (substPrep ed arg).1 with
          | none => none
          | some ed => some (0, ed) := by
  have h1 : runCmd (f + 1) ed "ec_substitute" loc cmd arg txt =
      match exRegion ed loc with
      | none => none
      | some ((rc, b, e), ed) =>
        if rc != 0 then some (1, ed) else
        if (substPrep ed arg).1.xkwddir == 0 then some (1, (substPrep ed arg).1) else
        match (substPrep ed arg).1.mkRe (substPrep ed arg).1.xkwd with
        | none => none
        | some none => some (1, (substPrep ed arg).1)
        | some (some re) =>
          match substLoopS re (substPrep ed arg).2 b (e - b).toNat (substPrep ed arg).1 with
          | none => none
          | some (ed, _) => some (0, ed) := by
    rw [runCmd]
    simp (config := {decide := true}) only [if_false, if_true]
    rfl
  rw [h1]
  split
  · rfl
  · split
    · rfl
    · split
      · rfl
      · split
        · rfl
        · rfl
        · rw [substLoopS_eq]
          cases substLoop _ _ _ _ _ <;> rfl

theorem setLb_xrep (ed : Ed) (lb : Lb) : (ed.setLb lb).xrep = ed.xrep := by
  unfold Ed.setLb; split <;> rfl

theorem substPrep_bufs (ed : Ed) (arg : Bytes) : (substPrep ed arg).1.bufs = ed.bufs := by
  unfold substPrep
  simp only []
  repeat' split
  all_goals rfl

theorem splice_get_lt (l m : List Bytes) (p q j : Nat) (hp : p ≤ l.length) (hj : j < p) :
    (l.take p ++ m ++ l.drop q)[j]? = l[j]? := by
  rw [List.append_assoc, List.getElem?_append_left (by simp; omega), List.getElem?_take_of_lt hj]

theorem splice_get_gt (l m : List Bytes) (p j : Nat) (hm : m.length = 1) (hp : p < l.length) (hj : p < j) :
    (l.take p ++ m ++ l.drop (p + 1))[j]? = l[j]? := by
  rw [List.getElem?_append_right (by simp; omega)]
  simp only [List.length_append, List.length_take, hm, List.getElem?_drop]
  congr 1
  omega

/-- what rewriting line `i` does to the buffer -/
theorem edit_one_line {ed ed' : Ed} {i : Int} {ln nl : Bytes} (hl : ed.line i = some ln)
    (h : ed.edit (some nl) i (i + 1) = some ed') :
    0 ≤ i ∧ ed'.xrep = ed.xrep ∧ ∃ lb lb', ed.lb = some lb ∧ ed'.lb = some lb' ∧ i.toNat < lb.lines.length ∧
      lb'.lines = lb.lines.take i.toNat ++ splitLines nl ++ lb.lines.drop (i.toNat + 1) := by
  obtain ⟨h0, _, lb, lb', hlb, hed, rfl, hlb'⟩ := Ed_edit_some h
  unfold Ed.line at hl
  rw [if_neg (by omega), hlb] at hl
  simp only [Option.bind_some] at hl
  have hlt : i.toNat < lb.lines.length := by
    apply Classical.byContradiction
    intro hge
    rw [List.getElem?_eq_none (by omega)] at hl
    cases hl
  refine ⟨h0, setLb_xrep _ _, lb, lb', hlb, hlb', hlt, ?_⟩
  have := edit_lines hed (by omega)
  rw [this]
  have e1 : min i.toNat lb.lines.length = i.toNat := by omega
  have e2 : min (i + 1).toNat lb.lines.length = i.toNat + 1 := by omega
  rw [e1, e2]
  rfl

theorem line_eq_of_lb {ed ed' : Ed} {lb lb' : Lb} (h1 : ed.lb = some lb) (h2 : ed'.lb = some lb') (j : Int)
    (h : lb'.lines[j.toNat]? = lb.lines[j.toNat]?) : ed'.line j = ed.line j := by
  unfold Ed.line
  rw [h1, h2]
  simp only [Option.bind_some, h]

/-- the lines of the current buffer (none when there is no buffer) -/
def edLines (ed : Ed) : List Bytes := match ed.lb with | some lb => lb.lines | none => []

theorem line_eq_edLines (ed : Ed) (j : Int) : ed.line j = if j < 0 then none else (edLines ed)[j.toNat]? := by
  unfold Ed.line edLines
  cases ed.lb <;> simp

theorem len_eq_edLines (ed : Ed) : ed.len = ((edLines ed).length : Int) := by
  unfold Ed.len edLines
  cases ed.lb <;> rfl

/-- what one round makes of a line of the range: the lines of its rewritten text, or the line itself when
    the pattern is not found in it -/
def newLines (re : RStr) (rep : Bytes) (g : Bool) (ln : Bytes) : List Bytes :=
  match substLine re rep g ln with
  | some (some nl) => splitLines nl
  | _ => [ln]

theorem list_split_at {α : Type} (l : List α) (i : Nat) (x : α) (h : l[i]? = some x) :
    l = l.take i ++ [x] ++ l.drop (i + 1) := by
  induction l generalizing i with
  | nil => simp at h
  | cons a l ih =>
    cases i with
    | zero => simp at h; subst h; simp
    | succ i =>
      simp only [List.getElem?_cons_succ] at h
      simp only [List.take_succ_cons, List.drop_succ_cons, List.cons_append]
      rw [← ih i h]

/-- one round on row `i`: the row exists and is replaced by its `newLines` -/
theorem substStep_lines {re : RStr} {g : Bool} {i : Int} {ed ed' : Ed} (h : substStep re g i ed = some ed') :
    0 ≤ i ∧ ed'.xrep = ed.xrep ∧ ∃ ln, (edLines ed)[i.toNat]? = some ln ∧
      edLines ed' = (edLines ed).take i.toNat ++ newLines re ed.xrep g ln ++ (edLines ed).drop (i.toNat + 1) := by
  unfold substStep at h
  split at h
  · cases h
  · rename_i ln hl
    have hl' := hl
    rw [line_eq_edLines] at hl'
    have h0 : 0 ≤ i := by
      apply Classical.byContradiction
      intro hn
      rw [if_pos (by omega)] at hl'
      cases hl'
    rw [if_neg (by omega)] at hl'
    split at h
    · cases h
    · rename_i hs
      cases h
      refine ⟨h0, rfl, ln, hl', ?_⟩
      unfold newLines
      rw [hs]
      exact list_split_at _ _ _ hl'
    · rename_i nl hs
      obtain ⟨_, hx, lb, lb', hlb, hlb', _, hlines⟩ := edit_one_line hl h
      refine ⟨h0, hx, ln, hl', ?_⟩
      unfold newLines
      rw [hs]
      unfold edLines
      rw [hlb, hlb']
      exact hlines

/-- one round leaves the lines before `i` alone, and also those after `i` and the line count when the new
    text is a single line -/
theorem substStep_frame {re : RStr} {g : Bool} {i : Int} {ed ed' : Ed} (h : substStep re g i ed = some ed') :
    ed'.xrep = ed.xrep ∧ (∀ j, j < i → ed'.line j = ed.line j) ∧
    ((∀ ln nl, ed.line i = some ln → substLine re ed.xrep g ln = some (some nl) → (splitLines nl).length = 1) →
      ed'.len = ed.len ∧ ∀ j, i < j → ed'.line j = ed.line j) := by
  unfold substStep at h
  split at h
  · cases h
  · rename_i ln hl
    split at h
    · cases h
    · cases h; exact ⟨rfl, fun _ _ => rfl, fun _ => ⟨rfl, fun _ _ => rfl⟩⟩
    · rename_i nl hs
      obtain ⟨h0, hx, lb, lb', hlb, hlb', hlt, hlines⟩ := edit_one_line hl h
      refine ⟨hx, ?_, ?_⟩
      · intro j hj
        by_cases hj0 : j < 0
        · unfold Ed.line; simp [hj0]
        · apply line_eq_of_lb hlb hlb'
          rw [hlines]
          exact splice_get_lt _ _ _ _ _ (by omega) (by omega)
      · intro hone
        have h1 := hone ln nl hl hs
        constructor
        · unfold Ed.len
          rw [hlb, hlb']
          simp only [hlines, List.length_append, List.length_take, List.length_drop, h1]
          omega
        · intro j hj
          apply line_eq_of_lb hlb hlb'
          rw [hlines]
          exact splice_get_gt _ _ _ _ h1 hlt (by omega)

/-- **the loop rewrites each line of the range exactly once**: after `n` rounds the buffer is the lines
    before `b`, then for each of the `n` lines that were at `b, b + 1, …` what one round makes of it (`newLines`:
    the lines of its rewritten text — none, one or several — or the line itself), then the lines that were
    at `b + n` and after.  A successful loop of at least one round also shows `0 ≤ b` and `b + n ≤ len` -/
theorem substLoop_lines (re : RStr) (g : Bool) (b : Int) (ed : Ed) : ∀ (n : Nat) (ed' : Ed),
    substLoop re g b n ed = some ed' →
      ed'.xrep = ed.xrep ∧ (0 < n → 0 ≤ b ∧ b.toNat + n ≤ (edLines ed).length) ∧
      edLines ed' = (edLines ed).take b.toNat ++
        (((edLines ed).drop b.toNat).take n).flatMap (newLines re ed.xrep g) ++ (edLines ed).drop (b.toNat + n) := by
  intro n
  induction n with
  | zero =>
    intro ed' h
    cases h
    refine ⟨rfl, fun h => absurd h (by omega), ?_⟩
    simp
  | succ n ih =>
    intro ed' h
    rw [substLoop_succ] at h
    cases hm : substLoop re g b n ed with
    | none => rw [hm] at h; cases h
    | some em =>
      rw [hm] at h
      simp only [Option.bind_some] at h
      obtain ⟨x1, x2, x3⟩ := ih em hm
      obtain ⟨r0, y1, ln, hln, y2⟩ := substStep_lines h
      rw [len_eq_edLines em, len_eq_edLines ed] at r0 hln y2
      rw [x1] at y2
      generalize edLines ed = L at *
      generalize edLines em = Lm at *
      generalize edLines ed' = L' at *
      generalize hM : ((L.drop b.toNat).take n).flatMap (newLines re ed.xrep g) = M at *
      -- the range starts inside the buffer
      have hb : 0 ≤ b ∧ b.toNat + n ≤ L.length := by
        cases n with
        | zero =>
          simp only [List.take_zero, List.flatMap_nil] at hM
          subst hM
          simp only [List.append_nil, Nat.add_zero, List.take_append_drop] at x3
          subst x3
          have hlt := (List.getElem?_eq_some_iff.1 hln).1
          constructor
          · omega
          · omega
        | succ n => exact x2 (by omega)
      obtain ⟨hb0, hbn⟩ := hb
      have hlen : (Lm.length : Int) - (L.length : Int) = (M.length : Int) - (n : Int) := by
        rw [x3]
        simp only [List.length_append, List.length_take, List.length_drop]
        omega
      have hrow : (b + (n : Int) + ((Lm.length : Int) - (L.length : Int))).toNat = (L.take b.toNat ++ M).length := by
        rw [hlen]
        simp only [List.length_append, List.length_take]
        omega
      rw [hrow] at hln y2
      rw [x3] at hln y2
      rw [List.getElem?_append_right (Nat.le_refl _), Nat.sub_self, List.getElem?_drop, Nat.add_zero] at hln
      have hlt : b.toNat + n < L.length := by
        apply Classical.byContradiction
        intro hge
        rw [List.getElem?_eq_none (by omega)] at hln
        cases hln
      refine ⟨by rw [y1, x1], fun _ => ⟨hb0, by omega⟩, ?_⟩
      rw [y2, List.take_left, List.drop_append, List.drop_of_length_le (Nat.le_succ _)]
      have e1 : (L.take b.toNat ++ M).length + 1 - (L.take b.toNat ++ M).length = 1 := by omega
      rw [e1, List.drop_drop, List.nil_append]
      have e2 : ((L.drop b.toNat).take (n + 1)) = (L.drop b.toNat).take n ++ [ln] := by
        rw [List.take_add_one, List.getElem?_drop, hln]
        rfl
      rw [e2, List.flatMap_append, hM]
      simp only [List.flatMap_cons, List.flatMap_nil, List.append_nil, List.append_assoc]
      rw [show b.toNat + n + 1 = b.toNat + (n + 1) by omega]

theorem flatMap_length_one {α β : Type} (f : α → List β) : ∀ (l : List α), (∀ x ∈ l, (f x).length = 1) →
    (l.flatMap f).length = l.length := by
  intro l
  induction l with
  | nil => intro _; rfl
  | cons a l ih =>
    intro h
    rw [List.flatMap_cons, List.length_append, h a (by simp), ih (fun x hx => h x (by simp [hx]))]
    simp only [List.length_cons]
    omega

/-- the loop never touches the lines before `b` -/
theorem substLoop_before (re : RStr) (g : Bool) (b : Int) (n : Nat) (ed ed' : Ed)
    (h : substLoop re g b n ed = some ed') : ed'.xrep = ed.xrep ∧ ∀ j, j < b → ed'.line j = ed.line j := by
  cases n with
  | zero => cases h; exact ⟨rfl, fun _ _ => rfl⟩
  | succ n =>
    obtain ⟨x1, x2, x3⟩ := substLoop_lines re g b ed _ ed' h
    obtain ⟨hb0, hbn⟩ := x2 (by omega)
    refine ⟨x1, ?_⟩
    intro j hj
    rw [line_eq_edLines, line_eq_edLines]
    split
    · rfl
    · rw [x3, List.append_assoc, List.getElem?_append_left (by simp only [List.length_take]; omega),
        List.getElem?_take_of_lt (by omega)]

/-- every line from the end of the range on is kept, moved by the change of the number of lines -/
theorem substLoop_after (re : RStr) (g : Bool) (b : Int) (n : Nat) (ed ed' : Ed)
    (h : substLoop re g b n ed = some ed') :
    ∀ j, b + (n : Int) ≤ j → ed'.line (j + (ed'.len - ed.len)) = ed.line j := by
  cases n with
  | zero => cases h; intro j _; rw [Int.sub_self, Int.add_zero]
  | succ n =>
    obtain ⟨x1, x2, x3⟩ := substLoop_lines re g b ed _ ed' h
    obtain ⟨hb0, hbn⟩ := x2 (by omega)
    intro j hj
    rw [line_eq_edLines, line_eq_edLines, len_eq_edLines, len_eq_edLines]
    generalize edLines ed = L at *
    generalize edLines ed' = L' at *
    generalize ((L.drop b.toNat).take (n + 1)).flatMap (newLines re ed.xrep g) = M at *
    have hlen : L'.length = b.toNat + M.length + (L.length - (b.toNat + (n + 1))) := by
      rw [x3]
      simp only [List.length_append, List.length_take, List.length_drop]
      omega
    rw [if_neg (by omega), if_neg (by omega)]
    have e : (j + ((L'.length : Int) - (L.length : Int))).toNat =
        (L.take b.toNat ++ M).length + (j.toNat - (b.toNat + (n + 1))) := by
      simp only [List.length_append, List.length_take]
      omega
    rw [e, x3, List.getElem?_append_right (by omega), Nat.add_sub_cancel_left, List.getElem?_drop]
    congr 1
    omega

/-- when every rewritten line stays a single line, the loop keeps the line count and the lines outside
    `[b, b + n)` -/
theorem substLoop_outside (re : RStr) (g : Bool) (b : Int) (n : Nat) (ed ed' : Ed)
    (h : substLoop re g b n ed = some ed')
    (hone : ∀ i ln nl, b ≤ i → i < b + n → ed.line i = some ln → substLine re ed.xrep g ln = some (some nl) →
      (splitLines nl).length = 1) :
    ed'.len = ed.len ∧ ∀ j, (j < b ∨ b + n ≤ j) → ed'.line j = ed.line j := by
  have hlen : ed'.len = ed.len := by
    cases n with
    | zero => cases h; rfl
    | succ n =>
      obtain ⟨x1, x2, x3⟩ := substLoop_lines re g b ed _ ed' h
      obtain ⟨hb0, hbn⟩ := x2 (by omega)
      have hM := flatMap_length_one (newLines re ed.xrep g) (((edLines ed).drop b.toNat).take (n + 1)) (by
        intro x hx
        obtain ⟨k, hk⟩ := List.mem_iff_getElem?.1 hx
        rw [List.getElem?_take] at hk
        split at hk
        · rename_i hkn
          rw [List.getElem?_drop] at hk
          unfold newLines
          split
          · rename_i nl hs
            refine hone (b + (k : Int)) x nl (by omega) (by omega) ?_ hs
            rw [line_eq_edLines, if_neg (by omega), ← hk]
            congr 1
            omega
          · rfl
        · cases hk)
      rw [len_eq_edLines, len_eq_edLines, x3]
      simp only [List.length_append, hM, List.length_take, List.length_drop]
      omega
  refine ⟨hlen, ?_⟩
  intro j hj
  rcases hj with hj | hj
  · exact (substLoop_before re g b n ed ed' h).2 j hj
  · have := substLoop_after re g b n ed ed' h j hj
    rw [hlen, Int.sub_self, Int.add_zero] at this
    exact this

theorem edLines_of_bufs {ed ed' : Ed} (h : ed'.bufs = ed.bufs) : edLines ed' = edLines ed := by
  unfold edLines; rw [lb_of_bufs h]

/-- **outside_range_unchanged** (the frame of `:s`, for every replacement): a successful `:s` over `[b, e)`
    * leaves every line before `b` alone;
    * keeps every line from `e` on, moved by the change `ed'.len - ed.len` of the number of lines;
    * rewrites each line of the range exactly once: the new buffer is the lines before `b`, then for each line
      that was in `[b, e)`, in order, what one round makes of it (`newLines`: the lines of its rewritten text —
      two or more when the replacement brought a newline, none when the pattern consumed the line's own
      newline and nothing is left — or the line itself when the pattern is not found), then the lines that
      were at `e` and after;
    * and (the single-line corollary) when every rewritten line is still a single line, the number of lines
      and every line from `e` on are unchanged -/
theorem outside_range_unchanged (f : Nat) (ed : Ed) (loc cmd arg : Bytes) (txt : Option Bytes) (ed' : Ed)
    (h : runCmd (f + 1) ed "ec_substitute" loc cmd arg txt = some (0, ed')) :
    ∃ b e ed1 re, exRegion ed loc = some ((0, b, e), ed1) ∧
      (substPrep ed1 arg).1.mkRe (substPrep ed1 arg).1.xkwd = some (some re) ∧
      0 ≤ b ∧ b ≤ e ∧ e ≤ ed.len ∧
      (∀ j, j < b → ed'.line j = ed.line j) ∧
      (∀ j, e ≤ j → ed'.line (j + (ed'.len - ed.len)) = ed.line j) ∧
      edLines ed' = (edLines ed).take b.toNat ++
        (((edLines ed).drop b.toNat).take (e - b).toNat).flatMap
          (newLines re (substPrep ed1 arg).1.xrep (substPrep ed1 arg).2) ++
        (edLines ed).drop e.toNat ∧
      ((∀ i ln nl, b ≤ i → i < e → ed.line i = some ln →
          substLine re (substPrep ed1 arg).1.xrep (substPrep ed1 arg).2 ln = some (some nl) →
          (splitLines nl).length = 1) →
        ed'.len = ed.len ∧ ∀ j, e ≤ j → ed'.line j = ed.line j) := by
  rw [runCmd_subst_eq] at h
  split at h
  · cases h
  · rename_i rc b e ed1 hr
    split at h
    · cases h
    · rename_i hrc
      have hrc0 : rc = 0 := by simpa using hrc
      subst hrc0
      split at h
      · cases h
      · split at h
        · cases h
        · cases h
        · rename_i re hre
          split at h
          · cases h
          · rename_i ed2 hloop
            cases h
            have hb1 : ∀ j, (substPrep ed1 arg).1.line j = ed.line j := fun j => by
              rw [line_of_bufs (substPrep_bufs ed1 arg), line_of_bufs (exRegion_bufs hr)]
            have hl1 : (substPrep ed1 arg).1.len = ed.len := by
              rw [len_of_bufs (substPrep_bufs ed1 arg), len_of_bufs (exRegion_bufs hr)]
            have hL1 : edLines (substPrep ed1 arg).1 = edLines ed := by
              rw [edLines_of_bufs (substPrep_bufs ed1 arg), edLines_of_bufs (exRegion_bufs hr)]
            obtain ⟨_, _, hreg, _⟩ := Neatvi.Lemmas.C06.region_all ed loc 0 b e ed1 hr
            obtain ⟨r1, r2, r3, _⟩ := hreg rfl
            rw [len_of_bufs (exRegion_bufs hr)] at r3
            have hbn : b + (((e - b).toNat : Nat) : Int) = e := by omega
            refine ⟨b, e, ed1, re, hr, hre, r1, r2, r3, ?_, ?_, ?_, ?_⟩
            · intro j hj
              rw [(substLoop_before re _ b _ _ _ hloop).2 j hj, hb1]
            · intro j hj
              have := substLoop_after re _ b _ _ _ hloop j (by omega)
              rw [hl1, hb1] at this
              exact this
            · obtain ⟨_, _, x3⟩ := substLoop_lines re _ b _ _ _ hloop
              rw [hL1] at x3
              rw [x3, show b.toNat + (e - b).toNat = e.toNat by omega]
            · intro hone
              obtain ⟨c1, c2⟩ := substLoop_outside re _ b _ _ _ hloop
                (fun i ln nl h1 h2 hl hs => hone i ln nl h1 (by omega) (by rw [← hb1]; exact hl) hs)
              refine ⟨by rw [c1, hl1], ?_⟩
              intro j hj
              rw [c2 j (Or.inr (by omega)), hb1]

/-! ### the statement on concrete buffers

`a b b c d`, one letter per line.  (`#eval` of the model gives the same lists.) -/

def exBuf : Ed := { bufs := [some { path := [], lb := { lines := [[97, 10], [98, 10], [98, 10], [99, 10], [100, 10]] } }] }

/-- `:2,3s/b/X<newline>Y/`: each `b` becomes the two lines `X`, `Y`, once; `c`, `d` move down by two.
    (Before the repair the loop substituted in rows 1 and 2 of the growing buffer, which after the first
    split are `X` and `Y`: the second `b` was never visited.) -/
example : (runCmd 1 exBuf "ec_substitute" [50, 44, 51] [115] [47, 98, 47, 88, 10, 89, 47] none).map
    (fun r => (r.1, edLines r.2)) =
    some (0, [[97, 10], [88, 10], [89, 10], [88, 10], [89, 10], [99, 10], [100, 10]]) := by
  rw [runCmd_subst_eq]
  decide +kernel

/-- the right-hand side of the list equation of `outside_range_unchanged` for this command -/
example : (rstrMake [98] 0).map (fun r => r.map (fun re =>
    (edLines exBuf).take 1 ++ (((edLines exBuf).drop 1).take 2).flatMap (newLines re [88, 10, 89] false) ++
      (edLines exBuf).drop 3)) =
    some (some [[97, 10], [88, 10], [89, 10], [88, 10], [89, 10], [99, 10], [100, 10]]) := by decide

/-- the loop alone, on the same range -/
example : (rstrMake [98] 0).bind (fun r => r.bind (fun re =>
    (substLoop re false 1 2 { exBuf with xrep := [88, 10, 89] }).map edLines)) =
    some [[97, 10], [88, 10], [89, 10], [88, 10], [89, 10], [99, 10], [100, 10]] := by decide

/-- the same `\<` command through `runCmd`: ` ab` becomes ` -a-b` -/
example : (runCmd 1 { bufs := [some { path := [], lb := { lines := [[32, 97, 98, 10]] } }] } "ec_substitute" [] [115]
    [47, 92, 60, 47, 45, 47, 103] none).map (fun r => (r.1, edLines r.2)) = some (0, [[32, 45, 97, 45, 98, 10]]) := by
  rw [runCmd_subst_eq]
  decide +kernel

/-! `:1,4s/b\<newline>//`: the pattern consumes the line's own newline, the rewritten text is empty and the
    line vanishes.  The pattern is not a literal, so the matcher is the regex VM (defined by well-founded
    recursion): its three calls are evaluated with the fuelled `regexecF`, everything else by `decide`. -/

/-- `rset_make` of `b\<newline>` -/
def delSet : RSet := match Rset.make [some [98, 92, 10]] 0 with
  | some (some r) => r
  | _ => ⟨⟨[], 0, 0⟩, 0, [], [], 0⟩
def delRe : RStr := ⟨some delSet, none, false, false, false, false, false⟩

example : rstrMake [98, 92, 10] 0 = some (some delRe) := by rfl

open Neatvi.Regex Neatvi.Lemmas.C10 in
theorem del_find_other (c : Nat) (hc : c = 97 ∨ c = 99) : rstrFind delRe [c, 10] 16 0 ND NG = some (-1, [], 0) := by
  show find delSet [c, 10] 16 0 ND NG = _
  unfold find
  rw [if_neg (by decide)]
  have : regexec delSet.prog [c, 10] delSet.grpcnt (REG_NEWLINE ||| (if 0 &&& RE_NOTBOL != 0 then REG_NOTBOL else 0) |||
      (if 0 &&& RE_NOTEOL != 0 then REG_NOTEOL else 0)) ND NG = (ExecRes.nomatch 0, []) := by
    rcases hc with rfl | rfl <;> exact regexecF_sound (fuel := 40) (by decide)
  simp only [this]

open Neatvi.Regex Neatvi.Lemmas.C10 in
theorem del_find_b : rstrFind delRe [98, 10] 16 0 ND NG = some (0, [0, 2] ++ List.replicate 30 (-1), 0) := by
  show find delSet [98, 10] 16 0 ND NG = _
  unfold find
  rw [if_neg (by decide)]
  have := regexecF_sound (fuel := 40) (p := delSet.prog) (subj := [98, 10]) (nsub := delSet.grpcnt)
    (eflg := (REG_NEWLINE ||| (if 0 &&& RE_NOTBOL != 0 then REG_NOTBOL else 0) |||
      (if 0 &&& RE_NOTEOL != 0 then REG_NOTEOL else 0))) (nd := ND) (ngrps := NG)
    (r := (ExecRes.found ([0, 2, 0, 2, 0, 2] ++ List.replicate 122 (-1)) 0, [(0, 2), (0, 2), (0, 2)])) (by decide)
  simp only [this]
  decide

/-- a line without `b` is left alone, the line `b` is rewritten to the empty text: no line -/
theorem del_line_other (c : Nat) (hc : c = 97 ∨ c = 99) : substLine delRe [] false [c, 10] = some none :=
  subst_no_match delRe [] false [c, 10] (-1) [] 0 (del_find_other c hc) (by decide)
theorem del_line_b : substLine delRe [] false [98, 10] = some (some []) :=
  subst_first_only delRe [] [98, 10] 0 _ 0 [] del_find_b (by decide) (by decide) (by decide)

example : newLines delRe [] false [98, 10] = [] := by unfold newLines; rw [del_line_b]; rfl
example : newLines delRe [] false [97, 10] = [[97, 10]] := by unfold newLines; rw [del_line_other 97 (Or.inl rfl)]

def exBuf1 : Ed := (exBuf.edit (some []) 1 2).getD exBuf
def exBuf2 : Ed := (exBuf1.edit (some []) 1 2).getD exBuf1

/-- the four rounds work on rows 0, 1, 1, 1 (the lines `a`, `b`, `b`, `c` of the original buffer); both `b`
    vanish and `d`, outside the range, is kept.  (Before the repair the rounds were on rows 0, 1, 2, 3 — `a`,
    `b`, `c`, and a row past the end: a trap.) -/
example : (substLoop delRe false 0 4 exBuf).map edLines = some [[97, 10], [99, 10], [100, 10]] := by
  have h0 : substLoop delRe false 0 0 exBuf = some exBuf := rfl
  have h1 : substLoop delRe false 0 1 exBuf = some exBuf := by
    rw [substLoop_succ, h0]
    simp only [Option.bind_some]
    unfold substStep
    rw [show exBuf.line (0 + ((0 : Nat) : Int) + (exBuf.len - exBuf.len)) = some [97, 10] by decide]
    simp only [show exBuf.xrep = [] from rfl, del_line_other 97 (Or.inl rfl)]
  have h2 : substLoop delRe false 0 2 exBuf = some exBuf1 := by
    rw [substLoop_succ, h1]
    simp only [Option.bind_some]
    unfold substStep
    rw [show exBuf.line (0 + ((1 : Nat) : Int) + (exBuf.len - exBuf.len)) = some [98, 10] by decide]
    simp only [show exBuf.xrep = [] from rfl, del_line_b]
    rfl
  have h3 : substLoop delRe false 0 3 exBuf = some exBuf2 := by
    rw [substLoop_succ, h2]
    simp only [Option.bind_some]
    unfold substStep
    rw [show exBuf1.line (0 + ((2 : Nat) : Int) + (exBuf1.len - exBuf.len)) = some [98, 10] by decide]
    simp only [show exBuf1.xrep = [] from rfl, del_line_b]
    rfl
  have h4 : substLoop delRe false 0 4 exBuf = some exBuf2 := by
    rw [substLoop_succ, h3]
    simp only [Option.bind_some]
    unfold substStep
    rw [show exBuf2.line (0 + ((3 : Nat) : Int) + (exBuf2.len - exBuf.len)) = some [99, 10] by decide]
    simp only [show exBuf2.xrep = [] from rfl, del_line_other 99 (Or.inr rfl)]
  rw [h4]
  decide

end Neatvi.Props.C14
