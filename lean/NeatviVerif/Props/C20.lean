namespace Neatvi.Props.C20
end Neatvi.Props.C20
