import NeatviVerif.Model.ExCmd
/-!
# C20  Each open buffer keeps its own text, position and dirty state across switches
-/
namespace Neatvi.Props.C20
open Neatvi Neatvi.Lbuf Neatvi.Ex

/-! ### leaving a buffer: `bufs_save` and the sequence bump -/

/-- bumping the sequence counter (`lbuf_modified`) does not change what `lbuf_modified` reports:
    `seqAt`, `useqZero` and `unsaved` do not depend on `useq` -/
theorem modified_bump (lb : Lb) : (modified (modified lb).2).1 = (modified lb).1 := rfl

/-- the bump changes `useq` only -/
theorem modified_fields (lb : Lb) :
    (modified lb).2 = { lb with useq := lb.useq + 1 } := rfl

/-- the record slot 0 holds after the buffer `b` has been left: the view of the editor is stored
    and the sequence counter bumped -/
def leftRec (ed : Ed) (b : Buf) : Buf :=
  { b with row := ed.xrow, off := ed.xoff, top := ed.xtop, left := ed.xleft, td := ed.xtd,
           lb := (modified b.lb).2 }

/-- what leaving keeps of a buffer: path, id, mtime, the text, the undo history, the dirty state;
    and what it records: the view at the time of the switch -/
theorem leftRec_keeps (ed : Ed) (b : Buf) :
    (leftRec ed b).path = b.path ∧ (leftRec ed b).id = b.id ∧ (leftRec ed b).mtime = b.mtime ∧
    (leftRec ed b).lb.lines = b.lb.lines ∧ (leftRec ed b).lb.hist = b.lb.hist ∧
    (leftRec ed b).lb.histU = b.lb.histU ∧ (leftRec ed b).lb.mark = b.lb.mark ∧
    (leftRec ed b).lb.markOff = b.lb.markOff ∧
    (modified (leftRec ed b).lb).1 = (modified b.lb).1 ∧
    (leftRec ed b).lb = { b.lb with useq := b.lb.useq + 1 } ∧
    (leftRec ed b).row = ed.xrow ∧ (leftRec ed b).off = ed.xoff ∧
    (leftRec ed b).top = ed.xtop ∧ (leftRec ed b).left = ed.xleft ∧ (leftRec ed b).td = ed.xtd :=
  ⟨rfl, rfl, rfl, rfl, rfl, rfl, rfl, rfl, rfl, rfl, rfl, rfl, rfl, rfl, rfl⟩

/-- the buffer table after `bufs_save()` and the bump of slot 0 (the first two steps of `bufs_switch`) -/
def leftBufs (ed : Ed) : List (Option Buf) :=
  match ed.bufs.getD 0 none with
  | some b => ed.bufs.set 0 (some (leftRec ed b))
  | none => ed.bufs

theorem leftBufs_length (ed : Ed) : (leftBufs ed).length = ed.bufs.length := by
  unfold leftBufs; split <;> simp

/-- leaving touches slot 0 only -/
theorem leftBufs_getD (ed : Ed) (i : Nat) (hi : 0 < i) : (leftBufs ed).getD i none = ed.bufs.getD i none := by
  unfold leftBufs
  split
  · cases h : ed.bufs with
    | nil => simp
    | cons a l => cases i with
      | zero => omega
      | succ i => simp
  · rfl

theorem leftBufs_zero (ed : Ed) (b : Buf) (h : ed.bufs.getD 0 none = some b) :
    (leftBufs ed).getD 0 none = some (leftRec ed b) := by
  unfold leftBufs
  rw [h]
  cases hb : ed.bufs with
  | nil => rw [hb] at h; simp at h
  | cons a l => simp

theorem leftBufs_zero_none (ed : Ed) (h : ed.bufs.getD 0 none = none) : (leftBufs ed).getD 0 none = none := by
  unfold leftBufs; rw [h]; exact h

/-! ### 8: `bufs_switch` is a rotation of the table -/

/-- the state after the first two steps of `bufs_switch` (as the model writes them) -/
def mid (ed : Ed) : Ed :=
  match ed.bufsSave.bufs.getD 0 none with
  | some b => { ed.bufsSave with bufs := ed.bufsSave.bufs.set 0 (some { b with lb := (Lbuf.modified b.lb).2 }) }
  | none => ed.bufsSave

theorem switch_def (ed : Ed) (idx : Nat) : ed.bufsSwitch idx =
    ({ mid ed with bufs := [(mid ed).bufs.getD idx none] ++ (mid ed).bufs.take idx ++ (mid ed).bufs.drop (idx + 1) }).bufsLoad :=
  rfl

theorem mid_bufs (ed : Ed) : (mid ed).bufs = leftBufs ed := by
  unfold mid leftBufs Ed.bufsSave Ed.cur Ed.setCur
  cases hb : ed.bufs with
  | nil => simp [hb]
  | cons a l =>
    cases a with
    | none => simp [hb]
    | some b => simp [leftRec]

theorem bufsLoad_bufs (ed : Ed) : ed.bufsLoad.bufs = ed.bufs := by
  unfold Ed.bufsLoad; split <;> rfl

/-- `bufs_load()` makes the view that of slot 0 -/
theorem bufsLoad_view (ed : Ed) (b : Buf) (h : ed.cur = some b) :
    ed.bufsLoad.cur = some b ∧ ed.bufsLoad.xrow = b.row ∧ ed.bufsLoad.xoff = b.off ∧
    ed.bufsLoad.xtop = b.top ∧ ed.bufsLoad.xleft = b.left ∧ ed.bufsLoad.xtd = b.td := by
  unfold Ed.bufsLoad
  rw [h]
  exact ⟨h, rfl, rfl, rfl, rfl, rfl⟩

/-- `bufs_switch(idx)` moves slot `idx` to the front and shifts slots `0..idx-1` down by one; the
    table it rotates is the old one with slot 0 "left" (view stored, sequence counter bumped) -/
theorem switch_rotation (ed : Ed) (idx : Nat) :
    (ed.bufsSwitch idx).bufs =
      [(leftBufs ed).getD idx none] ++ (leftBufs ed).take idx ++ (leftBufs ed).drop (idx + 1) := by
  rw [switch_def, bufsLoad_bufs, mid_bufs]

theorem rotate_perm {α : Type} (L : List α) (d : α) (idx : Nat) (h : idx < L.length) :
    ([L.getD idx d] ++ L.take idx ++ L.drop (idx + 1)).Perm L := by
  have h1 : L.getD idx d = L[idx] := by simp [List.getD, h]
  have h2 : L = L.take idx ++ L[idx] :: L.drop (idx + 1) := by
    rw [← List.drop_eq_getElem_cons h, List.take_append_drop]
  rw [h1]
  conv => rhs; rw [h2]
  simp only [List.cons_append, List.nil_append]
  exact List.perm_middle.symm

/-- a switch permutes the table: no buffer is lost or duplicated -/
theorem switch_perm (ed : Ed) (idx : Nat) (h : idx < ed.bufs.length) :
    (ed.bufsSwitch idx).bufs.Perm (leftBufs ed) := by
  rw [switch_rotation]
  exact rotate_perm _ _ _ (by rw [leftBufs_length]; exact h)

/-- the table keeps its length -/
theorem switch_length (ed : Ed) (idx : Nat) (h : idx < ed.bufs.length) :
    (ed.bufsSwitch idx).bufs.length = ed.bufs.length := by
  rw [(switch_perm ed idx h).length_eq, leftBufs_length]

/-- the rotation slot by slot: the new slot 0 is the old slot `idx`, the new slots `1..idx` are the
    old slots `0..idx-1`, the slots after `idx` stay -/
theorem switch_slots (ed : Ed) (idx : Nat) (h : idx < ed.bufs.length) :
    (ed.bufsSwitch idx).bufs.getD 0 none = (leftBufs ed).getD idx none ∧
    (∀ j, j < idx → (ed.bufsSwitch idx).bufs.getD (j + 1) none = (leftBufs ed).getD j none) ∧
    (∀ j, idx < j → (ed.bufsSwitch idx).bufs.getD j none = (leftBufs ed).getD j none) := by
  rw [switch_rotation]
  have hl : idx < (leftBufs ed).length := by rw [leftBufs_length]; exact h
  generalize leftBufs ed = L at hl
  refine ⟨by simp, ?_, ?_⟩
  · intro j hj
    simp only [List.cons_append, List.nil_append, List.getD_eq_getElem?_getD, List.getElem?_cons_succ]
    rw [List.getElem?_append_left (by simp; omega), List.getElem?_take_of_lt hj]
  · intro j hj
    cases j with
    | zero => omega
    | succ k =>
      simp only [List.cons_append, List.nil_append, List.getD_eq_getElem?_getD, List.getElem?_cons_succ]
      rw [List.getElem?_append_right (by simp; omega)]
      simp only [List.length_take, List.getElem?_drop]
      congr 2
      omega

/-! ### 9: what a switch preserves -/

theorem mem_of_getD {α : Type} (L : List (Option α)) (i : Nat) (x : α) (h : L.getD i none = some x) :
    some x ∈ L ∧ i < L.length := by
  rw [List.getD_eq_getElem?_getD] at h
  cases hi : L[i]? with
  | none => rw [hi] at h; cases h
  | some y =>
    rw [hi] at h
    simp only [Option.getD_some] at h
    subst h
    exact ⟨List.mem_of_getElem? hi, (List.getElem?_eq_some_iff.mp hi).1⟩

/-- every buffer record other than slot 0 occurs unchanged (same text, path, id, mtime, stored
    position, everything) in the table after a switch -/
theorem switch_preserves_others (ed : Ed) (idx i : Nat) (bf : Buf) (h : idx < ed.bufs.length)
    (hi : 0 < i) (hb : ed.bufs.getD i none = some bf) : some bf ∈ (ed.bufsSwitch idx).bufs := by
  rw [← leftBufs_getD ed i hi] at hb
  exact (switch_perm ed idx h).symm.subset (mem_of_getD _ _ _ hb).1

/-- the record that was in slot 0 occurs with the same text, path, id, mtime and dirty state
    (`leftRec_keeps`), with the view at the time of the switch stored in it -/
theorem switch_preserves_current (ed : Ed) (idx : Nat) (b0 : Buf) (h : idx < ed.bufs.length)
    (hb : ed.bufs.getD 0 none = some b0) : some (leftRec ed b0) ∈ (ed.bufsSwitch idx).bufs :=
  (switch_perm ed idx h).symm.subset (mem_of_getD _ _ _ (leftBufs_zero ed b0 hb)).1

/-- the buffer switched to becomes current and its stored position becomes the view -/
theorem switch_loads (ed : Ed) (idx : Nat) (b : Buf) (hne : idx ≠ 0)
    (hb : ed.bufs.getD idx none = some b) :
    (ed.bufsSwitch idx).cur = some b ∧ (ed.bufsSwitch idx).xrow = b.row ∧ (ed.bufsSwitch idx).xoff = b.off ∧
    (ed.bufsSwitch idx).xtop = b.top ∧ (ed.bufsSwitch idx).xleft = b.left ∧ (ed.bufsSwitch idx).xtd = b.td := by
  rw [switch_def]
  apply bufsLoad_view
  show ([(mid ed).bufs.getD idx none] ++ (mid ed).bufs.take idx ++ (mid ed).bufs.drop (idx + 1)).getD 0 none = some b
  rw [mid_bufs, leftBufs_getD ed idx (by omega)]
  simpa using hb

/-- switching to slot 0 itself: the current buffer stays current, with its view -/
theorem switch_self (ed : Ed) (b0 : Buf) (hb : ed.bufs.getD 0 none = some b0) :
    (ed.bufsSwitch 0).cur = some (leftRec ed b0) ∧ (ed.bufsSwitch 0).xrow = ed.xrow ∧
    (ed.bufsSwitch 0).xoff = ed.xoff ∧ (ed.bufsSwitch 0).xtop = ed.xtop ∧ (ed.bufsSwitch 0).xleft = ed.xleft := by
  rw [switch_def]
  have hc : ({ mid ed with bufs := [(mid ed).bufs.getD 0 none] ++ (mid ed).bufs.take 0 ++ (mid ed).bufs.drop (0 + 1) } : Ed).cur
      = some (leftRec ed b0) := by
    show ([(mid ed).bufs.getD 0 none] ++ (mid ed).bufs.take 0 ++ (mid ed).bufs.drop (0 + 1)).getD 0 none = _
    rw [mid_bufs]
    simpa using leftBufs_zero ed b0 hb
  obtain ⟨a, b', c, d, e', _⟩ := bufsLoad_view _ _ hc
  exact ⟨a, b', c, d, e'⟩

/-- where every record ends up after a switch to `idx ≠ 0` -/
theorem switch_positions (ed : Ed) (idx : Nat) (h : idx < ed.bufs.length) (hne : idx ≠ 0) :
    (ed.bufsSwitch idx).bufs.getD 0 none = ed.bufs.getD idx none ∧
    (ed.bufsSwitch idx).bufs.getD 1 none = (ed.bufs.getD 0 none).map (leftRec ed) ∧
    (∀ j, 0 < j → j < idx → (ed.bufsSwitch idx).bufs.getD (j + 1) none = ed.bufs.getD j none) ∧
    (∀ j, idx < j → (ed.bufsSwitch idx).bufs.getD j none = ed.bufs.getD j none) := by
  obtain ⟨h0, h1, h2⟩ := switch_slots ed idx h
  refine ⟨?_, ?_, ?_, ?_⟩
  · rw [h0, leftBufs_getD ed idx (by omega)]
  · rw [h1 0 (by omega)]
    cases hb : ed.bufs.getD 0 none with
    | none => rw [leftBufs_zero_none ed hb]; rfl
    | some b0 => rw [leftBufs_zero ed b0 hb]; rfl
  · intro j hj hji; rw [h1 j hji, leftBufs_getD ed j hj]
  · intro j hj; rw [h2 j hj, leftBufs_getD ed j (by omega)]

/-- switching away and back restores the buffer with its text, dirty state and position: after
    `bufs_switch(idx)` the old current buffer sits in slot 1, and `bufs_switch(1)` makes it current
    again with the view it was left with -/
theorem switch_back (ed : Ed) (idx : Nat) (b0 : Buf) (h : idx < ed.bufs.length) (hne : idx ≠ 0)
    (hb : ed.bufs.getD 0 none = some b0) :
    ((ed.bufsSwitch idx).bufsSwitch 1).cur = some (leftRec ed b0) ∧
    ((ed.bufsSwitch idx).bufsSwitch 1).xrow = ed.xrow ∧ ((ed.bufsSwitch idx).bufsSwitch 1).xoff = ed.xoff ∧
    ((ed.bufsSwitch idx).bufsSwitch 1).xtop = ed.xtop ∧ ((ed.bufsSwitch idx).bufsSwitch 1).xleft = ed.xleft := by
  have h1 := (switch_positions ed idx h hne).2.1
  rw [hb] at h1
  obtain ⟨a, b', c, d, e', _⟩ := switch_loads (ed.bufsSwitch idx) 1 (leftRec ed b0) (by omega) h1
  exact ⟨a, b', c, d, e'⟩

/-! ### 10: `bufs_find` -/

theorem bufsFind_cases (ed : Ed) (p : Bytes) :
    (∃ n : Nat, (List.range ed.bufs.length).find?
        (fun i => match ed.bufs.getD i none with | some b => b.path == normPath p | none => false) = some n ∧
      ed.bufsFind p = (n : Int)) ∨
    ((List.range ed.bufs.length).find?
        (fun i => match ed.bufs.getD i none with | some b => b.path == normPath p | none => false) = none ∧
      ed.bufsFind p = -1) := by
  unfold Ed.bufsFind
  simp only []
  cases (List.range ed.bufs.length).find?
      (fun i => match ed.bufs.getD i none with | some b => b.path == normPath p | none => false) with
  | none => right; exact ⟨rfl, rfl⟩
  | some n => left; exact ⟨n, rfl, rfl⟩

/-- a non-negative result of `bufs_find(p)` is the first slot holding a buffer of that path -/
theorem find_by_path (ed : Ed) (p : Bytes) (i : Int) (h : ed.bufsFind p = i) (hi : 0 ≤ i) :
    i.toNat < ed.bufs.length ∧ (∃ b, ed.bufs.getD i.toNat none = some b ∧ b.path = normPath p) ∧
    ∀ j b, j < i.toNat → ed.bufs.getD j none = some b → b.path ≠ normPath p := by
  rcases bufsFind_cases ed p with ⟨n, hf, hn⟩ | ⟨_, hn⟩
  · rw [hn] at h
    subst h
    simp only [Int.toNat_natCast]
    have h1 := List.find?_some hf
    have h2 := List.mem_of_find?_eq_some hf
    simp only [List.mem_range] at h2
    refine ⟨h2, ?_, ?_⟩
    · cases hb : ed.bufs.getD n none with
      | none => rw [hb] at h1; cases h1
      | some b => rw [hb] at h1; exact ⟨b, rfl, by simpa using h1⟩
    · intro j b hj hb hp
      have := (List.find?_range_eq_some.mp hf).2.2 j hj
      rw [hb] at this
      simp [hp] at this
  · rw [hn] at h; omega

/-- `bufs_find(p) = -1` means that no slot holds a buffer of that path -/
theorem find_by_path_none (ed : Ed) (p : Bytes) (h : ed.bufsFind p = -1) :
    ∀ j b, ed.bufs.getD j none = some b → b.path ≠ normPath p := by
  rcases bufsFind_cases ed p with ⟨n, _, hn⟩ | ⟨hf, _⟩
  · rw [hn] at h; omega
  · intro j b hb hp
    have hj := (mem_of_getD _ _ _ hb).2
    rw [List.find?_eq_none] at hf
    have := hf j (by simp; exact hj)
    rw [hb] at this
    simp [hp] at this

/-! ### 12: `bufs_open` and the room policy -/

/-- `bufs_findroom()`: the first free slot among all but the last, otherwise the last slot -/
theorem room_policy (ed : Ed) :
    (ed.findRoom < ed.bufs.length - 1 ∧ ed.bufs.getD ed.findRoom none = none ∧
      ∀ j, j < ed.findRoom → (ed.bufs.getD j none).isSome = true) ∨
    (ed.findRoom = ed.bufs.length - 1 ∧ ∀ j, j < ed.bufs.length - 1 → (ed.bufs.getD j none).isSome = true) := by
  unfold Ed.findRoom
  cases hf : (List.range (ed.bufs.length - 1)).find? (fun i => (ed.bufs.getD i none).isNone) with
  | some i =>
    left
    obtain ⟨h1, h2, h3⟩ := List.find?_range_eq_some.mp hf
    simp only [List.mem_range] at h2
    refine ⟨h2, by simpa using h1, ?_⟩
    intro j hj
    have := h3 j hj
    cases hb : ed.bufs.getD j none with
    | none => rw [hb] at this; simp at this
    | some x => rfl
  | none =>
    right
    refine ⟨rfl, ?_⟩
    intro j hj
    have := List.find?_range_eq_none.mp hf j hj
    cases hb : ed.bufs.getD j none with
    | none => rw [hb] at this; simp at this
    | some x => rfl

theorem findRoom_lt (ed : Ed) (h : 0 < ed.bufs.length) : ed.findRoom < ed.bufs.length := by
  rcases room_policy ed with ⟨h1, _⟩ | ⟨h1, _⟩ <;> omega

/-- the record `bufs_open(path)` creates -/
def newBuf (ed : Ed) (p : Bytes) : Buf := { path := normPath p, lb := Lbuf.make, id := ed.bufsCnt + 1 }

theorem getD_set_ne {α : Type} (l : List α) (i j : Nat) (a d : α) (h : j ≠ i) :
    (l.set i a).getD j d = l.getD j d := by
  simp only [List.getD_eq_getElem?_getD, List.getElem?_set]
  rw [if_neg (fun h' => h h'.symm)]

theorem getD_set_eq {α : Type} (l : List α) (i : Nat) (a d : α) (h : i < l.length) :
    (l.set i a).getD i d = a := by
  simp [List.getD_eq_getElem?_getD, h]

/-- `bufs_open(path)` puts a fresh, empty buffer with the next id into the slot chosen by
    `room_policy` and changes no other slot; the counter of ids goes up by one -/
theorem open_uses_free_slot (ed : Ed) (p : Bytes) :
    (ed.bufsOpen p).1 = ed.findRoom ∧
    (ed.bufsOpen p).2.bufs = ed.bufs.set ed.findRoom (some (newBuf ed p)) ∧
    (ed.bufsOpen p).2.bufsCnt = ed.bufsCnt + 1 ∧
    (newBuf ed p).id = ed.bufsCnt + 1 ∧ (newBuf ed p).path = normPath p ∧ (newBuf ed p).lb.lines = [] ∧
    (∀ j, j ≠ ed.findRoom → (ed.bufsOpen p).2.bufs.getD j none = ed.bufs.getD j none) ∧
    (0 < ed.bufs.length → (ed.bufsOpen p).2.bufs.getD ed.findRoom none = some (newBuf ed p)) :=
  ⟨rfl, rfl, rfl, rfl, rfl, rfl, fun _ hj => getD_set_ne _ _ _ _ _ hj,
    fun h => getD_set_eq _ _ _ _ (findRoom_lt ed h)⟩

/-- when a free slot exists among all but the last, opening a buffer loses none: every buffer of
    the old table is still in its slot -/
theorem open_keeps_all (ed : Ed) (p : Bytes) (hfree : ed.findRoom < ed.bufs.length - 1) :
    ∀ j b, ed.bufs.getD j none = some b → (ed.bufsOpen p).2.bufs.getD j none = some b := by
  intro j b hb
  rcases room_policy ed with ⟨_, h2, _⟩ | ⟨h1, _⟩
  · have hj : j ≠ ed.findRoom := by intro h; rw [h, h2] at hb; cases hb
    rw [(open_uses_free_slot ed p).2.2.2.2.2.2.1 j hj, hb]
  · omega

/-- when all slots but the last are taken, the new buffer replaces the last slot (slot 15) -/
theorem open_full_evicts_last (ed : Ed) (p : Bytes)
    (hfull : ∀ j, j < ed.bufs.length - 1 → (ed.bufs.getD j none).isSome = true) :
    (ed.bufsOpen p).1 = ed.bufs.length - 1 := by
  rcases room_policy ed with ⟨h1, h2, _⟩ | ⟨h1, _⟩
  · have := hfull _ h1; rw [h2] at this; cases this
  · exact h1

/-! ### 11: re-opening an open file does not re-read it -/

/-- the unsaved-changes guard of `ec_edit` -/
def editGuard (ed : Ed) (cmd : Bytes) : R Bool :=
  if !hasBang cmd && ed.cur.isSome && ed.xwa == 0 then bufsModified ed 0 (some (strOf "buffer modified"))
  else some (false, ed)

/-- `:ew path` first brings the alternate buffer to the front when the target sits beyond slot 1 -/
def ewPre (ed : Ed) (cmd path : Bytes) : Ed :=
  if !path.isEmpty && cmd.headD 0 == 101 && cmd.getD 1 0 == 119 && ed.bufsFind path > 1 then ed.bufsSwitch 1 else ed

/-- a switch does not touch the file system -/
theorem switch_files (ed : Ed) (idx : Nat) : (ed.bufsSwitch idx).files = ed.files := by
  unfold Ed.bufsSwitch Ed.bufsLoad Ed.bufsSave Ed.setCur
  simp only []
  repeat' split
  all_goals rfl

/-- `:e path` for a path that is already open (no `+cmd`): once the unsaved-changes guard has
    passed, the command is just a switch to the slot `bufs_find` reports: no file is read and no
    buffer text changes (the table is rotated, see `switch_rotation`) -/
theorem reopen_does_not_reread (f : Nat) (ed ed1 ed2 : Ed) (cmd arg path : Bytes)
    (hg : editGuard ed cmd = some (false, ed1))
    (hplus : (arg.dropWhile (· == 32)).headD 0 ≠ 43)
    (hp : pathExpand ed1 (arg.dropWhile (· == 32)) false = some (some path, ed2))
    (hne : path ≠ [])
    (hf : (ewPre ed2 cmd path).bufsFind path ≥ 0) :
    ecEdit (f + 1) ed cmd arg =
      some (0, (ewPre ed2 cmd path).bufsSwitch ((ewPre ed2 cmd path).bufsFind path).toNat) := by
  unfold editGuard at hg
  rw [ecEdit]
  simp only [hg]
  have hplus' : ((arg.dropWhile (· == 32)).headD 0 == 43) = false := by simpa using hplus
  have hne' : path.isEmpty = false := by cases path <;> simp_all
  unfold ewPre at hf ⊢
  simp only [hplus', Bool.false_eq_true, if_false, hp, hne', Bool.not_false, Bool.true_and] at hf ⊢
  simp only [hf, decide_true, if_true]
  rfl

/-- for every command other than `:ew`, the state switched from is the one the guard and the path
    expansion produced -/
theorem ewPre_plain (ed : Ed) (cmd path : Bytes) (h : ¬ (cmd.headD 0 = 101 ∧ cmd.getD 1 0 = 119)) :
    ewPre ed cmd path = ed := by
  unfold ewPre
  split
  · next hc =>
    simp only [Bool.and_eq_true, beq_iff_eq, decide_eq_true_eq] at hc
    exact absurd ⟨hc.1.1.2, hc.1.2⟩ h
  · rfl

/-- the file system after re-opening is the one before the switch -/
theorem reopen_files (ed : Ed) (cmd path : Bytes) (idx : Nat) :
    ((ewPre ed cmd path).bufsSwitch idx).files = ed.files := by
  rw [switch_files]
  unfold ewPre
  split
  · exact switch_files _ _
  · rfl

/-! ### `:b N` -/

/-- the unsaved-changes guard of `ec_buffer` -/
def bufferGuard (ed : Ed) (cmd : Bytes) : R Bool :=
  if ed.xwa == 0 && !hasBang cmd then bufsModified ed 0 (some (strOf "buffer modified")) else some (false, ed)

/-- `:b N` switches to the first slot whose buffer has id `N` (once the unsaved-changes guard has
    passed) -/
theorem b_number (f : Nat) (ed ed1 : Ed) (loc cmd arg : Bytes) (txt : Option Bytes) (i : Nat) (b : Buf)
    (hd : isDigitC (arg.headD 0) = true)
    (hb : ed.bufs.getD i none = some b) (hid : b.id = exAtoi arg)
    (hfirst : ∀ j b', j < i → ed.bufs.getD j none = some b' → b'.id ≠ exAtoi arg)
    (hguard : bufferGuard ed cmd = some (false, ed1)) :
    runCmd (f + 1) ed "ec_buffer" loc cmd arg txt = some (0, ed1.bufsSwitch i) := by
  have hi := (mem_of_getD _ _ _ hb).2
  have hfind : (List.range ed.bufs.length).find? (fun i => (ed.bufs.getD i none).map (·.id) == some (exAtoi arg)) = some i := by
    rw [List.find?_range_eq_some]
    refine ⟨by rw [hb]; simp [hid], by simpa using hi, ?_⟩
    intro j hj
    cases hbj : ed.bufs.getD j none with
    | none => simp
    | some b' => simpa using hfirst j b' hj hbj
  have hd' := hd
  unfold isDigitC at hd'
  simp only [Bool.and_eq_true, decide_eq_true_eq] at hd'
  have h0 : arg.isEmpty = false := by
    cases arg with
    | nil => simp at hd'
    | cons a l => rfl
  have h33 : (arg.headD 0 == 33) = false := beq_eq_false_iff_ne.mpr (by omega)
  have h126 : (arg.headD 0 == 126) = false := beq_eq_false_iff_ne.mpr (by omega)
  unfold bufferGuard at hguard
  rw [runCmd]
  simp only [show ("ec_buffer" == "ec_insert") = false by decide,
    show ("ec_buffer" == "ec_print") = false by decide,
    show ("ec_buffer" == "ec_null") = false by decide,
    show ("ec_buffer" == "ec_delete") = false by decide,
    show ("ec_buffer" == "ec_yank") = false by decide,
    show ("ec_buffer" == "ec_put") = false by decide,
    show ("ec_buffer" == "ec_lnum") = false by decide,
    show ("ec_buffer" == "ec_undo") = false by decide,
    show ("ec_buffer" == "ec_redo") = false by decide,
    show ("ec_buffer" == "ec_mark") = false by decide,
    show ("ec_buffer" == "ec_rs") = false by decide,
    show ("ec_buffer" == "ec_at") = false by decide,
    show ("ec_buffer" == "ec_glob") = false by decide,
    show ("ec_buffer" == "ec_edit") = false by decide,
    show ("ec_buffer" == "ec_substitute") = false by decide,
    show ("ec_buffer" == "ec_exec") = false by decide,
    show ("ec_buffer" == "ec_read") = false by decide,
    show ("ec_buffer" == "ec_write") = false by decide,
    show ("ec_buffer" == "ec_quit") = false by decide,
    show ("ec_buffer" == "ec_buffer") = true by decide,
    Bool.false_eq_true, if_false, if_true, Bool.false_or, h0, h33, h126, hd, hfind, Int.toNat_natCast, hb,
    hguard]
  simp [hi]

/-! ### non-vacuity -/

/-- three buffers "a", "b", "c" (ids 1, 2, 3); "a" is current and viewed at row 5, offset 2 -/
def exEd : Ed :=
  { bufs := [some { path := [97], lb := { lines := [[120, 10]] }, id := 1, row := 0, off := 0 },
             some { path := [98], lb := { lines := [[121, 10], [122, 10]] }, id := 2, row := 1, off := 3 },
             some { path := [99], lb := { lines := [] }, id := 3, row := 7, off := 0, mtime := 44 }] ++
            List.replicate 13 none,
    bufsCnt := 3, xrow := 5, xoff := 2, files := [⟨[99], [113, 10], 44⟩] }

/-- the same with "a" and "b" marked as having unsaved changes, "c" clean -/
def exEdDirty : Ed :=
  { exEd with bufs := [some { path := [97], lb := unsavedMark { lines := [[120, 10]] }, id := 1 },
             some { path := [98], lb := unsavedMark { lines := [[121, 10]] }, id := 2 },
             some { path := [99], lb := { lines := [] }, id := 3 }] ++ List.replicate 13 none }

/-- what the examples observe of a slot: path, lines, row, off, id -/
def exView (b : Option Buf) : Option (Bytes × List Bytes × Int × Int × Int) :=
  b.map (fun b => (b.path, b.lb.lines, b.row, b.off, b.id))

-- switching to slot 2: "c" in front, "a" (with the view 5/2 stored) and "b" shifted down
example : ((exEd.bufsSwitch 2).bufs.take 4).map exView =
    [some ([99], [], 7, 0, 3), some ([97], [[120, 10]], 5, 2, 1),
     some ([98], [[121, 10], [122, 10]], 1, 3, 2), none] := by decide
-- the dirty flags travel with the buffers ("a" and "b" dirty, "c" clean)
example : (exEdDirty.bufs.take 3).map (fun b => b.map (fun b => (b.path, (modified b.lb).1))) =
      [some ([97], true), some ([98], true), some ([99], false)] ∧
    ((exEdDirty.bufsSwitch 2).bufs.take 3).map (fun b => b.map (fun b => (b.path, (modified b.lb).1))) =
      [some ([99], false), some ([97], true), some ([98], true)] := by decide
example : ((exEd.bufsSwitch 2).xrow, (exEd.bufsSwitch 2).xoff) = (7, 0) := by decide
-- and back: the position of "a" is restored
example : (((exEd.bufsSwitch 2).bufsSwitch 1).xrow, ((exEd.bufsSwitch 2).bufsSwitch 1).xoff,
    (((exEd.bufsSwitch 2).bufsSwitch 1).bufs.take 3).map (fun b => b.map (·.path))) =
    (5, 2, [some [97], some [99], some [98]]) := by decide
-- lookup by path
example : exEd.bufsFind [98] = 1 ∧ exEd.bufsFind [100] = -1 ∧ exEd.findRoom = 3 := by decide
-- opening a fourth buffer uses slot 3 and id 4
example : ((exEd.bufsOpen [100]).1, ((exEd.bufsOpen [100]).2.bufs.getD 3 none).map (fun b => (b.path, b.id))) =
    (3, some ([100], 4)) := by decide
-- `:e c` while "c" is open: a switch; the file "c" (which holds a line) is not read
example : (ecEdit 5 { exEd with xwa := 1 } [101] [99]).map (fun r => (r.1, r.2.cur.map (fun b => (b.path, b.lb.lines)))) =
    some (0, some ([99], [])) := by rw [ecEdit]; decide +kernel
-- `:b 2`
example : (runCmd 5 { exEd with xwa := 1 } "ec_buffer" [] [98] [50] none).map
    (fun r => (r.1, r.2.cur.map (·.path), r.2.xrow, r.2.xoff)) = some (0, some [98], 1, 3) := by
  rw [runCmd]; decide +kernel

end Neatvi.Props.C20
