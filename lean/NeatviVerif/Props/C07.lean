import NeatviVerif.Lemmas.C07Step
import NeatviVerif.Lemmas.C07Find
/-!
# C07: vi cursor motions

"After every motion the cursor is on an existing character of an existing line (never on the line
terminator of a non-empty line), and motions never change the text; each motion lands where the
reference semantics say."

Everything is stated on the model (`Model/Vi.lean`, `Model/ViCmd.lean`, `Model/Mot.lean`), for all states.

* §1 `renNoeol_spec`: `ren_noeol`;
* §2 `viWfix_ok`, `wfix_cursor_valid`, `wfix_window`: what `vi_wfix()` establishes;
* §3 `*_lines`, `motion_keeps_text`, `viStep_motion_keeps_text`: motions never change the text;
  `viStep_motion_cursor_valid`: after an iteration of the vi loop that is a motion the cursor is valid;
* §4 scanner specifications (`Mot.eol`, `Mot.indents`, `Mot.findchar`, `Mot.paragraphbeg`, `Mot.next`);
* §5 examples on a two-line buffer.

Findings recorded here (they are facts of the model, which follows the C code):
* `vi_wfix()` does not repair a negative `xoff`: `ren_noeol` returns a negative offset unchanged
  (`renNoeol_neg`, `wfix_keeps_negative_xoff`); `0 ≤ xoff` after `vi_wfix()` needs `0 ≤ xoff` before;
* `ren_noeol` is idempotent, and its result is off the newline, only on lines that do not have two
  consecutive newline characters (`renNoeol_not_idem_example`); every line of a buffer (`WfLine`) is such
  a line (`wfLine_noNlNl`).
-/
set_option linter.unusedSimpArgs false
set_option linter.unusedVariables false

namespace Neatvi.Props.C07
open Neatvi Neatvi.Uc Neatvi.Lbuf Neatvi.Ex Neatvi.Mot Neatvi.Vi Neatvi.Lemmas.C07

/-! ## 1. `ren_noeol` -/

/-- `ren_noeol(ln, o)` for `o ≥ 0`: a valid offset not beyond `o`; idempotent on lines without two
    consecutive newline characters -/
theorem renNoeol_spec (ln : Bytes) (o : Int) (ho : 0 ≤ o) :
    0 ≤ Ren.renNoeol ln o ∧ Ren.renNoeol ln o ≤ o ∧ Ren.renNoeol ln o < max 1 (ucSlen ln : Int) ∧
    (NoNlNl ln → Ren.renNoeol ln (Ren.renNoeol ln o) = Ren.renNoeol ln o) :=
  ⟨renNoeol_nonneg ln o ho, renNoeol_le ln o ho, renNoeol_lt ln o, renNoeol_idem ln o⟩

/-- a buffer line (its only newline is its last byte) has no two consecutive newline characters -/
theorem wfLine_noNlNl (ln : Bytes) (h : WfLine ln) : NoNlNl ln := Lemmas.C07.wfLine_noNlNl ln h

/-- so on buffer lines `ren_noeol` is idempotent for every offset -/
theorem renNoeol_idem_wf (ln : Bytes) (h : WfLine ln) (o : Int) :
    Ren.renNoeol ln (Ren.renNoeol ln o) = Ren.renNoeol ln o := renNoeol_idem ln o (wfLine_noNlNl ln h)

/-- the result is never on the newline of a buffer line, unless the line is just the newline -/
theorem renNoeol_off_newline (ln : Bytes) (h : WfLine ln) (o : Int) (hp : 0 < Ren.renNoeol ln o) :
    Ren.chrHd ln (Ren.renNoeol ln o).toNat ≠ 10 := renNoeol_not_nl ln o (wfLine_noNlNl ln h) hp

/-- negative offsets pass through -/
theorem renNoeol_negative (ln : Bytes) (o : Int) (h : o < 0) : Ren.renNoeol ln o = o := renNoeol_neg ln o h

/-- idempotence fails on the string `"a\n\n"` (not a buffer line) -/
theorem renNoeol_not_idem_example :
    Ren.renNoeol [97, 10, 10] 2 = 1 ∧ Ren.renNoeol [97, 10, 10] 1 = 0 := by decide

/-! ## 2. `vi_wfix()` -/

/-- the row `vi_wfix()` settles on -/
def wfixRow (s : VS) : Int :=
  if s.ed.xrow < 0 || s.ed.xrow ≥ lenOf s then (if lenOf s != 0 then lenOf s - 1 else 0) else s.ed.xrow

/-- the top of the window `vi_wfix()` settles on -/
def wfixTop (s : VS) : Int :=
  let xrow := wfixRow s
  let xrows := s.xrows
  let xtop := s.ed.xtop
  let xtop := if xtop > xrow then (if xtop - xrows / 2 > xrow then max 0 (xrow - xrows / 2) else xrow) else xtop
  if xtop + xrows ≤ xrow then (if xtop + xrows + xrows / 2 ≤ xrow then xrow - xrows / 2 else xrow - xrows + 1) else xtop

/-- the offset `vi_wfix()` settles on (`""` stands for the missing line of an empty buffer) -/
def wfixOff (s : VS) : Int := Ren.renNoeol ((lineOf s (wfixRow s)).getD []) s.ed.xoff

/-- `vi_wfix()` in closed form: it only assigns `xrow`, `xtop`, `xoff` -/
theorem viWfix_eq (s : VS) :
    viWfix s = Res.ok () { s with ed := { s.ed with xrow := wfixRow s, xtop := wfixTop s, xoff := wfixOff s } } := by
  have h : (match lineOf s (wfixRow s) with
      | some l => Ren.renNoeol l s.ed.xoff | none => Ren.renNoeol [] s.ed.xoff) = wfixOff s := by
    unfold wfixOff; cases lineOf s (wfixRow s) <;> rfl
  rw [← h]
  rfl

/-- `vi_wfix()` never traps and never waits for a key -/
theorem viWfix_ok (s : VS) : ∃ s', viWfix s = Res.ok () s' := ⟨_, viWfix_eq s⟩

theorem lenOf_nonneg (s : VS) : 0 ≤ lenOf s := by unfold lenOf; omega

theorem wfixRow_range (s : VS) :
    (lenOf s = 0 → wfixRow s = 0) ∧ (lenOf s ≠ 0 → 0 ≤ wfixRow s ∧ wfixRow s < lenOf s) := by
  have := lenOf_nonneg s
  unfold wfixRow
  simp only [Bool.or_eq_true, decide_eq_true_eq, bne_iff_ne, ne_eq, ite_not]
  constructor <;> intro h0 <;> (repeat' split) <;> omega

theorem lineOf_isSome (s : VS) (r : Int) (h0 : 0 ≤ r) (h1 : r < lenOf s) : ∃ ln, lineOf s r = some ln := by
  unfold lineOf lineAt
  rw [if_neg (by omega)]
  unfold lenOf at h1
  exact ⟨(lines s)[r.toNat]'(by omega), List.getElem?_eq_getElem (by omega)⟩

theorem lineOf_none_of_empty (s : VS) (r : Int) (h : lenOf s = 0) : lineOf s r = none := by
  unfold lineOf lineAt
  split
  · rfl
  · unfold lenOf at h
    have : (lines s).length = 0 := by omega
    rw [List.getElem?_eq_none (by omega)]

/-- **`vi_wfix()` leaves a valid cursor.**  For every state `s`:
    * the text is unchanged;
    * the row is 0 in an empty buffer and an existing row otherwise;
    * with `ln` the line under the cursor: `xoff' = ren_noeol(ln, xoff)`, `xoff' < max 1 (uc_slen ln)`;
      `0 ≤ xoff'` and `xoff' ≤ xoff` **provided `0 ≤ xoff` before** (a negative `xoff` is kept as it is);
      if `ln` has no two consecutive newline characters (every buffer line, `wfLine_noNlNl`) then `xoff'`
      is a fixed point of `ren_noeol` and, when positive, is not on a newline;
    * in an empty buffer `xoff' = 0` provided `0 ≤ xoff` before. -/
theorem wfix_cursor_valid (s s' : VS) (h : viWfix s = Res.ok () s') :
    lines s' = lines s ∧ lbText s' = lbText s ∧
    (lenOf s' = 0 → s'.ed.xrow = 0) ∧
    (lenOf s' ≠ 0 → 0 ≤ s'.ed.xrow ∧ s'.ed.xrow < lenOf s' ∧ ∃ ln, lineOf s' s'.ed.xrow = some ln) ∧
    (∀ ln, lineOf s' s'.ed.xrow = some ln →
      s'.ed.xoff = Ren.renNoeol ln s.ed.xoff ∧
      s'.ed.xoff < max 1 (ucSlen ln : Int) ∧
      (0 ≤ s.ed.xoff → 0 ≤ s'.ed.xoff ∧ s'.ed.xoff ≤ s.ed.xoff) ∧
      (s.ed.xoff < 0 → s'.ed.xoff = s.ed.xoff) ∧
      (0 < s'.ed.xoff → Ren.chrHd ln s'.ed.xoff.toNat ≠ 10 ∨ Ren.chrHd ln (s'.ed.xoff.toNat + 1) = 10) ∧
      (NoNlNl ln → Ren.renNoeol ln s'.ed.xoff = s'.ed.xoff ∧
        (0 < s'.ed.xoff → Ren.chrHd ln s'.ed.xoff.toNat ≠ 10))) ∧
    (lineOf s' s'.ed.xrow = none → s'.ed.xoff = Ren.renNoeol [] s.ed.xoff ∧ (0 ≤ s.ed.xoff → s'.ed.xoff = 0)) := by
  rw [viWfix_eq] at h
  cases h
  have hl : ∀ r, lineOf { s with ed := { s.ed with xrow := wfixRow s, xtop := wfixTop s, xoff := wfixOff s } } r
      = lineOf s r := fun _ => rfl
  obtain ⟨hr0, hr1⟩ := wfixRow_range s
  refine ⟨rfl, rfl, hr0, ?_, ?_, ?_⟩
  · intro hne
    obtain ⟨a, b⟩ := hr1 hne
    exact ⟨a, b, lineOf_isSome s _ a b⟩
  · intro ln hln
    have hln' : lineOf s (wfixRow s) = some ln := hln
    have hx : wfixOff s = Ren.renNoeol ln s.ed.xoff := by unfold wfixOff; rw [hln']; rfl
    show wfixOff s = _ ∧ wfixOff s < _ ∧ (_ → 0 ≤ wfixOff s ∧ wfixOff s ≤ _) ∧ (_ → wfixOff s = _) ∧
      (0 < wfixOff s → Ren.chrHd ln (wfixOff s).toNat ≠ 10 ∨ Ren.chrHd ln ((wfixOff s).toNat + 1) = 10) ∧
      (_ → Ren.renNoeol ln (wfixOff s) = wfixOff s ∧ (0 < wfixOff s → Ren.chrHd ln (wfixOff s).toNat ≠ 10))
    rw [hx]
    refine ⟨rfl, renNoeol_lt ln _, fun h0 => ⟨renNoeol_nonneg ln _ h0, renNoeol_le ln _ h0⟩,
      fun h0 => renNoeol_neg ln _ h0, fun hp => renNoeol_not_nl_gen ln _ hp,
      fun hn => ⟨renNoeol_idem ln _ hn, fun hp => renNoeol_not_nl ln _ hn hp⟩⟩
  · intro hnone
    have hnone' : lineOf s (wfixRow s) = none := hnone
    have hx : wfixOff s = Ren.renNoeol [] s.ed.xoff := by unfold wfixOff; rw [hnone']; rfl
    show wfixOff s = _ ∧ (_ → wfixOff s = 0)
    rw [hx]
    refine ⟨rfl, fun h0 => ?_⟩
    have h1 := renNoeol_nonneg [] _ h0
    have h2 := renNoeol_lt [] s.ed.xoff
    have : (ucSlen [] : Int) = 0 := by decide
    omega

/-- `0 ≤ xoff` is *not* established by `vi_wfix()`: a negative offset survives -/
theorem wfix_keeps_negative_xoff (s s' : VS) (h : viWfix s = Res.ok () s') (hneg : s.ed.xoff < 0) :
    s'.ed.xoff = s.ed.xoff := by
  rw [viWfix_eq] at h
  cases h
  show wfixOff s = _
  unfold wfixOff
  exact renNoeol_neg _ _ hneg

/-- **the cursor row is inside the window after `vi_wfix()`** (for a window of at least one row; no
    hypothesis on the old `xtop`) -/
theorem wfix_window (s s' : VS) (h : viWfix s = Res.ok () s') (hrows : 0 < s.xrows) :
    s'.ed.xtop ≤ s'.ed.xrow ∧ s'.ed.xrow < s'.ed.xtop + s.xrows ∧ s'.xrows = s.xrows := by
  rw [viWfix_eq] at h
  cases h
  show wfixTop s ≤ wfixRow s ∧ wfixRow s < wfixTop s + s.xrows ∧ s.xrows = s.xrows
  have h0 : 0 ≤ wfixRow s := by
    obtain ⟨a, b⟩ := wfixRow_range s
    by_cases hz : lenOf s = 0
    · rw [a hz]; omega
    · exact (b hz).1
  unfold wfixTop
  simp only []
  generalize wfixRow s = x at *
  generalize s.ed.xtop = t
  generalize s.xrows = R at *
  refine ⟨?_, ?_, trivial⟩ <;> (repeat' split) <;> omega

/-- the top of the window stays non-negative -/
theorem wfix_top_nonneg (s s' : VS) (h : viWfix s = Res.ok () s') (htop : 0 ≤ s.ed.xtop) (hrows : 0 < s.xrows) :
    0 ≤ s'.ed.xtop := by
  rw [viWfix_eq] at h
  cases h
  show 0 ≤ wfixTop s
  have h0 : 0 ≤ wfixRow s := by
    obtain ⟨a, b⟩ := wfixRow_range s
    by_cases hz : lenOf s = 0
    · rw [a hz]; omega
    · exact (b hz).1
  unfold wfixTop
  simp only []
  generalize wfixRow s = x at *
  generalize s.ed.xtop = t at *
  generalize s.xrows = R at *
  (repeat' split) <;> omega

/-! ## 3. motions never change the text

`Keeps cb m` (`Lemmas/C07Frame`): whenever `m` returns normally the text of the line buffer is the same
(marks, undo history and sequence numbers may differ), and for `cb = true` so are `xrow`, `xoff`, `xtop`
and the height of the window. -/

/-- the text of the whole line buffer, and hence its list of lines -/
theorem keeps_text {α : Type} {cb : Bool} {m : M α} (hk : Keeps cb m) {s : VS} {a : α} {s' : VS}
    (h : m s = Res.ok a s') :
    lines s' = lines s ∧ s'.ed.lb.map (·.lines) = s.ed.lb.map (·.lines) :=
  ⟨lines_of_lbText (hk.text h), hk.text h⟩

theorem termRead_lines (s : VS) (a : Int) (s' : VS) (h : termRead s = Res.ok a s') :
    lines s' = lines s ∧ s'.ed.lb.map (·.lines) = s.ed.lb.map (·.lines) := keeps_text (keeps_termRead (c := true)) h
theorem viRead_lines (s : VS) (a : Int) (s' : VS) (h : viRead s = Res.ok a s') :
    lines s' = lines s ∧ s'.ed.lb.map (·.lines) = s.ed.lb.map (·.lines) := keeps_text (keeps_viRead (c := true)) h
theorem viBack_lines (c : Int) (s : VS) (a : Unit) (s' : VS) (h : viBack c s = Res.ok a s') :
    lines s' = lines s ∧ s'.ed.lb.map (·.lines) = s.ed.lb.map (·.lines) := keeps_text (keeps_viBack (c := true) c) h
theorem termCmd_lines (s : VS) (a : Bytes) (s' : VS) (h : termCmd s = Res.ok a s') :
    lines s' = lines s ∧ s'.ed.lb.map (·.lines) = s.ed.lb.map (·.lines) := keeps_text (keeps_termCmd (c := true)) h
theorem viYankbuf_lines (s : VS) (a : Nat) (s' : VS) (h : viYankbuf s = Res.ok a s') :
    lines s' = lines s ∧ s'.ed.lb.map (·.lines) = s.ed.lb.map (·.lines) := keeps_text (keeps_viYankbuf (cb := true)) h
theorem viPrefix_lines (s : VS) (a : Int) (s' : VS) (h : viPrefix s = Res.ok a s') :
    lines s' = lines s ∧ s'.ed.lb.map (·.lines) = s.ed.lb.map (·.lines) := keeps_text (keeps_viPrefix (cb := true)) h
theorem ledLine_lines (pref post ai0 : Bytes) (aiMax : Nat) (im ex : Bool) (s : VS) (a : Bytes × Int × Bytes) (s' : VS)
    (h : ledLine pref post ai0 aiMax im ex s = Res.ok a s') :
    lines s' = lines s ∧ s'.ed.lb.map (·.lines) = s.ed.lb.map (·.lines) :=
  keeps_text (keeps_ledLine (cb := false) pref post ai0 aiMax im ex) h
theorem viPrompt_lines (ex : Bool) (s : VS) (a : Option Bytes) (s' : VS) (h : viPrompt ex s = Res.ok a s') :
    lines s' = lines s ∧ s'.ed.lb.map (·.lines) = s.ed.lb.map (·.lines) := keeps_text (keeps_viPrompt (cb := false) ex) h
theorem viChar_lines (s : VS) (a : Option Bytes) (s' : VS) (h : viChar s = Res.ok a s') :
    lines s' = lines s ∧ s'.ed.lb.map (·.lines) = s.ed.lb.map (·.lines) := keeps_text (keeps_viChar (cb := true)) h
theorem markSet_lines (c : Nat) (r o : Int) (s : VS) (a : Unit) (s' : VS) (h : markSet c r o s = Res.ok a s') :
    lines s' = lines s ∧ s'.ed.lb.map (·.lines) = s.ed.lb.map (·.lines) := keeps_text (keeps_markSet (c := true) c r o) h
theorem markSave_lines (s : VS) (a : Unit) (s' : VS) (h : markSave s = Res.ok a s') :
    lines s' = lines s ∧ s'.ed.lb.map (·.lines) = s.ed.lb.map (·.lines) := keeps_text (keeps_markSave (cb := true)) h
theorem setRow_lines (r : Int) (s : VS) (a : Unit) (s' : VS) (h : setRow r s = Res.ok a s') :
    lines s' = lines s ∧ s'.ed.lb.map (·.lines) = s.ed.lb.map (·.lines) := keeps_text (keeps_setRow r) h
theorem setOff_lines (o : Int) (s : VS) (a : Unit) (s' : VS) (h : setOff o s = Res.ok a s') :
    lines s' = lines s ∧ s'.ed.lb.map (·.lines) = s.ed.lb.map (·.lines) := keeps_text (keeps_setOff o) h
theorem lbufModified_lines (s : VS) (a : Unit) (s' : VS) (h : lbufModified s = Res.ok a s') :
    lines s' = lines s ∧ s'.ed.lb.map (·.lines) = s.ed.lb.map (·.lines) := keeps_text (keeps_lbufModified (c := true)) h
theorem viWait_lines (s : VS) (a : Unit) (s' : VS) (h : viWait s = Res.ok a s') :
    lines s' = lines s ∧ s'.ed.lb.map (·.lines) = s.ed.lb.map (·.lines) := keeps_text (keeps_viWait (cb := true)) h

/-- `vi_motionln` -/
theorem viMotionln_lines (row cmd : Int) (s : VS) (a : Int × Int) (s' : VS) (h : viMotionln row cmd s = Res.ok a s') :
    lines s' = lines s ∧ s'.ed.lb.map (·.lines) = s.ed.lb.map (·.lines) :=
  keeps_text (keeps_viMotionln (cb := true) row cmd) h

/-- `vi_search` (it sets the search keyword, register `/` and the message, never the text) -/
theorem viSearch_lines (cmd : Nat) (cnt r o : Int) (s : VS) (a : Option (Int × Int)) (s' : VS)
    (h : viSearch cmd cnt r o s = Res.ok a s') :
    lines s' = lines s ∧ s'.ed.lb.map (·.lines) = s.ed.lb.map (·.lines) :=
  keeps_text (keeps_viSearch (cb := true) cmd cnt r o) h

/-- `vi_motion`: every motion, including the failing ones and "no motion" -/
theorem viMotion_lines (row off : Int) (s : VS) (a : Int × Int × Int) (s' : VS) (h : viMotion row off s = Res.ok a s') :
    lines s' = lines s ∧ s'.ed.lb.map (·.lines) = s.ed.lb.map (·.lines) :=
  keeps_text (keeps_viMotion (cb := true) row off) h

/-- the prefixes and the motion of an iteration of the vi loop -/
theorem viPre_lines (s : VS) (a : Int × Int × Int) (s' : VS) (h : viPre s = Res.ok a s') :
    lines s' = lines s ∧ s'.ed.lb.map (·.lines) = s.ed.lb.map (·.lines) := keeps_text (keeps_viPre (cb := true)) h

/-- moreover reading the prefixes and the motion moves neither the cursor nor the window: the motion
    only *returns* the target -/
theorem viPre_cursor (s : VS) (a : Int × Int × Int) (s' : VS) (h : viPre s = Res.ok a s') :
    s'.ed.xrow = s.ed.xrow ∧ s'.ed.xoff = s.ed.xoff ∧ s'.ed.xtop = s.ed.xtop ∧ s'.xrows = s.xrows := by
  have := (keeps_viPre (cb := true)).cursor h
  unfold curOf at this
  simpa using this

theorem motionTail_lines (mv r o : Int) (s : VS) (a : Option Nat) (s' : VS) (h : motionTail mv r o s = Res.ok a s') :
    lines s' = lines s ∧ s'.ed.lb.map (·.lines) = s.ed.lb.map (·.lines) := keeps_text (keeps_motionTail mv r o) h

theorem viPost_lines (c : Option Nat) (s : VS) (a : Unit) (s' : VS) (h : viPost c s = Res.ok a s') :
    lines s' = lines s ∧ s'.ed.lb.map (·.lines) = s.ed.lb.map (·.lines) := keeps_text (keeps_viPost c) h

/-- **a motion keeps the text**: prefixes and motion, the cursor update, and the end of the iteration -/
theorem motion_keeps_text (s s1 s2 s3 : VS) (mv r o : Int) (c : Option Nat)
    (hpre : viPre s = Res.ok (mv, r, o) s1) (hmv : mv > 0)
    (htail : motionTail mv r o s1 = Res.ok c s2) (hpost : viPost c s2 = Res.ok () s3) :
    lines s3 = lines s ∧ s3.ed.lb.map (·.lines) = s.ed.lb.map (·.lines) := by
  have h1 := (viPre_lines _ _ _ hpre).2
  have h2 := (motionTail_lines _ _ _ _ _ _ htail).2
  have h3 := (viPost_lines _ _ _ _ hpost).2
  have : lbText s3 = lbText s := by unfold lbText; rw [h3, h2, h1]
  exact ⟨lines_of_lbText this, this⟩

/-- one iteration of the vi loop whose key sequence is a motion (`mv > 0`) or a failed motion (`mv < 0`):
    the text is unchanged -/
theorem viStep_motion_keeps_text (s s1 s3 : VS) (mv r o : Int)
    (hpre : viPre s = Res.ok (mv, r, o) s1) (hmv : mv ≠ 0) (h : viStep s = Res.ok () s3) :
    lines s3 = lines s ∧ s3.ed.lb.map (·.lines) = s.ed.lb.map (·.lines) := by
  rw [viStep_of_pre s s1 mv r o hpre] at h
  obtain ⟨c, s2, hc, hpost⟩ := bind_inv _ _ _ _ _ h
  have h1 : lbText s1 = lbText s := (viPre_lines _ _ _ hpre).2
  have h3 : lbText s3 = lbText s2 := (viPost_lines _ _ _ _ hpost).2
  have h2 : lbText s2 = lbText s1 := by
    unfold stepCont at hc
    by_cases hp : mv > 0
    · rw [if_pos hp] at hc
      exact (motionTail_lines _ _ _ _ _ _ hc).2
    · rw [if_neg hp, if_neg (by simpa using hmv)] at hc
      cases hc; rfl
  have : lbText s3 = lbText s := by rw [h3, h2, h1]
  exact ⟨lines_of_lbText this, this⟩

/-! ### after a motion the cursor is valid -/

/-- the cursor rests on an existing line and, on it, on an existing character that is not the line
    terminator; the cursor row is inside the window -/
structure CursorValid (s : VS) : Prop where
  /-- an empty buffer: row 0 -/
  row_empty : lenOf s = 0 → s.ed.xrow = 0
  /-- otherwise an existing line -/
  row : lenOf s ≠ 0 → 0 ≤ s.ed.xrow ∧ s.ed.xrow < lenOf s ∧ ∃ ln, lineOf s s.ed.xrow = some ln
  /-- the offset is below the number of characters of the line (0 on a line without characters) -/
  off_lt : ∀ ln, lineOf s s.ed.xrow = some ln → s.ed.xoff < max 1 (ucSlen ln : Int)
  /-- on a buffer line the offset is a fixed point of `ren_noeol` and is not on the newline, unless the
      line is just the newline (then the offset is 0) -/
  off_nl : ∀ ln, lineOf s s.ed.xrow = some ln → NoNlNl ln →
    Ren.renNoeol ln s.ed.xoff = s.ed.xoff ∧ (0 < s.ed.xoff → Ren.chrHd ln s.ed.xoff.toNat ≠ 10)
  /-- the window contains the cursor row -/
  window : 0 < s.xrows → s.ed.xtop ≤ s.ed.xrow ∧ s.ed.xrow < s.ed.xtop + s.xrows

/-- `vi_wfix()` establishes `CursorValid`, and the rest of `viPost` preserves it -/
theorem viPost_cursor_valid (mod : Nat) (s s' : VS) (h : viPost (some mod) s = Res.ok () s') :
    CursorValid s' ∧ (0 ≤ s.ed.xoff → 0 ≤ s'.ed.xoff) ∧ lines s' = lines s ∧ s'.ed.xrow = wfixRow s := by
  rw [viPost_some] at h
  obtain ⟨u, sw, hw, hrest⟩ := bind_inv _ _ _ _ _ h
  have hk := keeps_viPostRest (cb := true) mod
  have hc := hk.cursor hrest
  have ht := hk.text hrest
  unfold curOf at hc
  simp only [Prod.mk.injEq] at hc
  obtain ⟨c1, c2, c3, c4⟩ := hc
  obtain ⟨w1, w2, w3, w4, w5, w6⟩ := wfix_cursor_valid s sw hw
  have hlen : lenOf s' = lenOf sw := lenOf_of_lbText ht
  have hline : ∀ r, lineOf s' r = lineOf sw r := lineOf_of_lbText ht
  refine ⟨⟨?_, ?_, ?_, ?_, ?_⟩, ?_, ?_, ?_⟩
  · rw [hlen, c1]; exact w3
  · rw [hlen, c1, hline]; exact w4
  · intro ln; rw [c1, c2, hline]; intro hl; exact (w5 ln hl).2.1
  · intro ln; rw [c1, c2, hline]; intro hl hn; exact (w5 ln hl).2.2.2.2.2 hn
  · rw [c1, c3, c4]
    intro hr
    have hx : sw.xrows = s.xrows := by rw [viWfix_eq] at hw; cases hw; rfl
    obtain ⟨a, b, _⟩ := wfix_window s sw hw (by rw [← hx]; exact hr)
    rw [hx]; exact ⟨a, b⟩
  · intro h0
    rw [c2]
    cases hl : lineOf sw sw.ed.xrow with
    | none => rw [(w6 hl).2 h0]; omega
    | some ln => exact ((w5 ln hl).2.2.1 h0).1
  · rw [lines_of_lbText ht]; exact w1
  · rw [c1]; rw [viWfix_eq] at hw; cases hw; rfl

theorem wfixRow_of_range (s : VS) (h0 : 0 ≤ s.ed.xrow) (h1 : s.ed.xrow < lenOf s) : wfixRow s = s.ed.xrow := by
  unfold wfixRow
  rw [if_neg]
  simp only [Bool.or_eq_true, decide_eq_true_eq]
  omega

/-- **After an iteration of the vi loop that is a motion (`mv > 0`) or a failed motion (`mv < 0`) the
    cursor is valid**, for every start state: the text is unchanged, the cursor is on an existing line
    (row 0 of an empty buffer), on an existing character of it and not on its terminator, and inside the
    window.  After a successful motion `0 ≤ xoff` holds unconditionally and the row is the target row
    when that row exists; after a failed motion `0 ≤ xoff` is inherited and a valid row is kept. -/
theorem viStep_motion_cursor_valid (s s1 s3 : VS) (mv r o : Int)
    (hpre : viPre s = Res.ok (mv, r, o) s1) (hmv : mv ≠ 0) (h : viStep s = Res.ok () s3) :
    CursorValid s3 ∧ lines s3 = lines s ∧
    (0 < mv → 0 ≤ s3.ed.xoff ∧ (0 ≤ r → r < lenOf s → s3.ed.xrow = r)) ∧
    (mv < 0 → (0 ≤ s.ed.xoff → 0 ≤ s3.ed.xoff) ∧
      (0 ≤ s.ed.xrow → s.ed.xrow < lenOf s → s3.ed.xrow = s.ed.xrow)) := by
  have htext := (viStep_motion_keeps_text s s1 s3 mv r o hpre hmv h).1
  rw [viStep_of_pre s s1 mv r o hpre] at h
  obtain ⟨c, s2, hc, hpost⟩ := bind_inv _ _ _ _ _ h
  obtain ⟨p1, p2, p3, p4⟩ := viPre_cursor _ _ _ hpre
  have t1 : lbText s1 = lbText s := (viPre_lines _ _ _ hpre).2
  unfold stepCont at hc
  by_cases hp : mv > 0
  · rw [if_pos hp] at hc
    obtain ⟨e0, e1, e2, e3, e4, e5⟩ := motionTail_run _ _ _ _ _ _ hc
    subst e0
    obtain ⟨v, vx, _, vr⟩ := viPost_cursor_valid 0 s2 s3 hpost
    refine ⟨v, htext, fun _ => ⟨vx e2, fun r0 r1 => ?_⟩, fun hn => by omega⟩
    rw [vr, wfixRow_of_range s2 (by rw [e1]; exact r0) (by rw [e1, lenOf_of_lbText e5, lenOf_of_lbText t1]; exact r1), e1]
  · rw [if_neg hp, if_neg (by simpa using hmv)] at hc
    cases hc
    obtain ⟨v, vx, _, vr⟩ := viPost_cursor_valid 0 s1 s3 hpost
    refine ⟨v, htext, fun hpos => absurd hpos hp, fun _ => ⟨fun h0 => vx (by rw [p2]; exact h0), fun r0 r1 => ?_⟩⟩
    rw [vr, wfixRow_of_range s1 (by rw [p1]; exact r0) (by rw [p1, lenOf_of_lbText t1]; exact r1), p1]

/-- **the cursor is on an existing character, never on the line terminator of a non-empty line**: in a
    state with a valid cursor and `0 ≤ xoff`, on a buffer line without NUL bytes, the character under
    the cursor exists (its first byte is not the terminating NUL), and it is the newline only when the
    line is just the newline (then the offset is 0) -/
theorem cursor_on_character (s : VS) (hv : CursorValid s) (h0 : 0 ≤ s.ed.xoff) (ln : Bytes)
    (hl : lineOf s s.ed.xrow = some ln) (hw : WfLine ln) (hz : 0 ∉ ln) :
    s.ed.xoff < (ucSlen ln : Int) ∧ Ren.chrHd ln s.ed.xoff.toNat ≠ 0 ∧
    (Ren.chrHd ln s.ed.xoff.toNat = 10 → ln = [10] ∧ s.ed.xoff = 0) := by
  obtain ⟨w, rfl, hw10⟩ := hw
  have hne : w ++ [10] ≠ [] := by simp
  have hpos := ucSlen_pos _ (hd_ne_zero_of_not_mem _ hz hne)
  have hlt := hv.off_lt _ hl
  have hlt' : s.ed.xoff < (ucSlen (w ++ [10]) : Int) := by omega
  refine ⟨hlt', chrHd_exists _ hz _ (by omega), fun h10 => ?_⟩
  have hnn := (hv.off_nl _ hl (wfLine_noNlNl _ ⟨w, rfl, hw10⟩)).2
  have hx0 : s.ed.xoff = 0 := by
    by_cases hp : 0 < s.ed.xoff
    · exact absurd h10 (hnn hp)
    · omega
  refine ⟨?_, hx0⟩
  rw [hx0] at h10
  have : Bytes.hd (w ++ [10]) = 10 := by rw [← chrHd_zero]; exact h10
  cases w with
  | nil => rfl
  | cons a t =>
    simp [Bytes.hd] at this
    subst this
    exact absurd (by simp) hw10

/-! ## 4. the scanners of `mot.c`

Lines are byte strings that end in a newline.  Where the reference semantics (`Spec/Motion.lean`, over
code points of the line *without* its newline) is used, the line is ASCII and a byte is its code point. -/

/-- `lbuf_eol`: the offset of the last character (that is the newline of a buffer line), 0 on a line
    without characters and on a missing line -/
theorem eol_spec (ls : Lines) (r : Int) :
    eol ls r = max 0 (slenAt ls r - 1) ∧
    (∀ ln, lineAt ls r = some ln → eol ls r = ((ucSlen ln - 1 : Nat) : Int)) ∧
    (lineAt ls r = none → eol ls r = 0) :=
  ⟨eol_closed ls r, fun ln h => eol_of_line ls r ln h, eol_of_none ls r⟩

/-- on an ASCII line `w ++ "\n"`: `lbuf_eol` is the offset of the newline, and what `$` lands on after
    `ren_noeol` is the reference's last column -/
theorem eol_ascii (ls : Lines) (r : Int) (w : Bytes) (hline : lineAt ls r = some (w ++ [10])) (hw : Ascii w) :
    eol ls r = w.length ∧ Ren.renNoeol (w ++ [10]) (eol ls r) = Spec.Motion.lastCol w := by
  have hs := ascii_snoc_nl hw
  have hlen : ucSlen (w ++ [10]) = w.length + 1 := by rw [ucSlen_ascii _ hs]; simp
  have h1 : eol ls r = w.length := by
    rw [eol_of_line ls r _ hline, hlen]; simp
  refine ⟨h1, ?_⟩
  rw [h1, renNoeol_eq]
  have hc : clampOff (w ++ [10]) (w.length : Int) = w.length := by
    unfold clampOff; rw [hlen, if_neg (by omega)]
  rw [hc]
  have hh : Ren.chrHd (w ++ [10]) ((w.length : Int)).toNat = 10 := by
    rw [chrHd_ascii _ hs _ (by simp)]
    simp [getD_snoc_eq]
  unfold Spec.Motion.lastCol
  split <;> omega

/-- a blank is an indentation byte: a C-locale space other than the newline -/
theorem isBlank_indent (b : Nat) (h : Spec.Motion.isBlank b = true) : (b != 10 && ucIsSpace b) = true := by
  unfold Spec.Motion.isBlank at h
  simp only [Bool.or_eq_true, beq_iff_eq] at h
  rcases h with h | h <;> subst h <;> decide

/-- `lbuf_indents`: the number of leading C-locale space bytes before the newline, 0 for a missing line -/
theorem indents_spec (ls : Lines) (r : Int) :
    (lineAt ls r = none → indents ls r = 0) ∧
    (∀ ln, lineAt ls r = some ln → indents ls r = ((ln.takeWhile (fun c => c != 10 && ucIsSpace c)).length : Nat)) := by
  unfold indents
  constructor
  · intro h; rw [h]
  · intro ln h; rw [h]

/-- a line with a non-space character after leading blanks (space / tab): `lbuf_indents` is the number of
    leading blanks, which is the reference's `firstNonBlank` -/
theorem indents_firstNonBlank (ls : Lines) (r : Int) (pre rest : Bytes) (x : Nat)
    (hline : lineAt ls r = some (pre ++ x :: rest ++ [10]))
    (hpre : ∀ b ∈ pre, Spec.Motion.isBlank b = true) (hx : ucIsSpace x = false) :
    indents ls r = pre.length ∧ Spec.Motion.firstNonBlank (pre ++ x :: rest) = pre.length := by
  constructor
  · rw [(indents_spec ls r).2 _ hline]
    rw [show pre ++ x :: rest ++ [10] = pre ++ x :: (rest ++ [10]) by simp]
    rw [takeWhile_pre _ pre x _ (fun b hb => isBlank_indent b (hpre b hb)) (by simp [hx])]
  · unfold Spec.Motion.firstNonBlank
    have hxb : Spec.Motion.isBlank x = false := by
      cases h : Spec.Motion.isBlank x with
      | false => rfl
      | true => rw [isBlank_space x h] at hx; cases hx
    rw [range_find_first _ pre.length _ (by simp) (by simp [List.getD, hxb])]
    intro j hj
    have : (pre ++ x :: rest).getD j 0 = pre[j] := by
      simp [List.getD, List.getElem?_append_left hj, List.getElem?_eq_getElem hj]
    rw [this, hpre _ (List.getElem_mem hj)]
    rfl

/-- a line of blanks only: `lbuf_indents` stops at the newline (then `ren_noeol` brings the cursor back to
    the last blank) -/
theorem indents_blank_line (ls : Lines) (r : Int) (w : Bytes) (hline : lineAt ls r = some (w ++ [10]))
    (hw : ∀ b ∈ w, Spec.Motion.isBlank b = true) : indents ls r = w.length := by
  rw [(indents_spec ls r).2 _ hline]
  rw [takeWhile_pre _ w 10 [] (fun b hb => isBlank_indent b (hw b hb)) (by decide)]

/-- `lbuf_findchar` on an ASCII line, for `f` (102), `F` (70), `t` (116), `T` (84), a positive count, an
    ASCII character other than the newline, and the cursor on the line: it agrees with the reference
    `findChar` on the line without its newline, and a found offset is non-negative -/
theorem findchar_spec (ls : Lines) (r : Int) (w : Bytes) (hline : lineAt ls r = some (w ++ [10])) (hw : Ascii w)
    (c : Nat) (hc : c < 128) (hc10 : c ≠ 10) (cmd : Nat) (hcmd : cmd = 102 ∨ cmd = 70 ∨ cmd = 116 ∨ cmd = 84)
    (n : Int) (hn : 0 < n) (o : Int) (ho : 0 ≤ o) (ho' : o ≤ w.length) :
    (findchar ls [c] cmd n r o).map Int.toNat =
      Spec.Motion.findChar w o.toNat c (cmd == 102 || cmd == 116) (cmd == 116 || cmd == 84) n.toNat ∧
    ∀ p, findchar ls [c] cmd n r o = some p → 0 ≤ p := by
  have ho2 : ((o.toNat : Nat) : Int) = o := by omega
  rcases hcmd with h | h | h | h
  · have := findchar_fwd ls r w hline hw c hc hc10 cmd (Or.inl h) n hn o.toNat (by omega)
    rw [ho2] at this; subst h; exact this
  · have := findchar_bwd ls r w hline hw c hc cmd (Or.inl h) n hn o.toNat (by omega)
    rw [ho2] at this; subst h; exact this
  · have := findchar_fwd ls r w hline hw c hc hc10 cmd (Or.inr h) n hn o.toNat (by omega)
    rw [ho2] at this; subst h; exact this
  · have := findchar_bwd ls r w hline hw c hc cmd (Or.inr h) n hn o.toNat (by omega)
    rw [ho2] at this; subst h; exact this

/-- what is left for the general case: a negative count (`,`), multi-byte characters (offsets are then
    character indices of the UTF-8 decoding), and an offset beyond the line -/
def findchar_spec_full : Prop :=
  ∀ (ls : Lines) (r : Int) (cps : List Nat) (c : Nat) (cmd : Nat) (n o : Int),
    (∀ x ∈ c :: cps, Spec.ValidCp x ∧ x ≠ 0 ∧ x ≠ 10) →
    lineAt ls r = some (Spec.encStr cps ++ [10]) →
    (cmd = 102 ∨ cmd = 70 ∨ cmd = 116 ∨ cmd = 84) → n ≠ 0 → 0 ≤ o →
    (findchar ls (Spec.enc c) cmd n r o).map Int.toNat =
      Spec.Motion.findChar cps o.toNat c ((cmd == 102 || cmd == 116) == decide (0 < n)) (cmd == 116 || cmd == 84)
        n.natAbs

/-- `lbuf_paragraphbeg`: the row is an existing row (0 in an empty buffer), the offset is 0 -/
theorem paragraphbeg_range (ls : Lines) (dir r : Int) :
    (paragraphbeg ls dir r).2 = 0 ∧ 0 ≤ (paragraphbeg ls dir r).1 ∧
    (ls ≠ [] → (paragraphbeg ls dir r).1 < ls.length) ∧ (ls = [] → (paragraphbeg ls dir r).1 = 0) := by
  unfold paragraphbeg
  simp only []
  refine ⟨trivial, by omega, ?_, ?_⟩
  · intro h
    have : 0 < ls.length := List.length_pos_iff.mpr h
    omega
  · intro h
    subst h
    simp only [List.length_nil]
    omega

/-- `lbuf_next`: with `r0` the start row (`r`, or the last row when moving backward from beyond the
    buffer), a result is either the neighbouring offset on the same line, inside the line, or — when
    that offset is outside the line — the first / last (`lbuf_eol`) offset of the neighbouring line, which
    exists; there is no result exactly when both fail -/
theorem next_spec (ls : Lines) (dir r o : Int) :
    let r0 := if dir < 0 ∧ r ≥ ls.length then max 0 ((ls.length : Int) - 1) else r
    (∀ r' o', next ls dir r o = some (r', o') →
      (r' = r0 ∧ o' = o + dir ∧ 0 ≤ o' ∧ o' < slenAt ls r0 ∧ (lineAt ls r0).isSome) ∨
      (r' = r0 + dir ∧ (lineAt ls r').isSome ∧ o' = (if dir > 0 then 0 else eol ls r') ∧
        (o + dir < 0 ∨ (lineAt ls r0).isNone ∨ o + dir ≥ slenAt ls r0))) ∧
    (next ls dir r o = none →
      (lineAt ls (r0 + dir)).isNone ∧ (o + dir < 0 ∨ (lineAt ls r0).isNone ∨ o + dir ≥ slenAt ls r0)) := by
  intro r0
  have hr0 : (if (decide (dir < 0) && decide (r ≥ ls.length)) = true then max 0 ((ls.length : Int) - 1) else r) = r0 := by
    simp only [Bool.and_eq_true, decide_eq_true_eq]; rfl
  unfold next
  simp only []
  rw [hr0]
  unfold lnNext
  simp only []
  by_cases hc : (decide (o + dir < 0) || (lineAt ls r0).isNone || decide (o + dir ≥ slenAt ls r0)) = true
  · rw [if_pos hc]
    simp only []
    have hc' : o + dir < 0 ∨ (lineAt ls r0).isNone ∨ o + dir ≥ slenAt ls r0 := by
      simp only [Bool.or_eq_true, decide_eq_true_eq] at hc
      rcases hc with (h | h) | h
      · exact Or.inl h
      · exact Or.inr (Or.inl h)
      · exact Or.inr (Or.inr h)
    by_cases hn : (lineAt ls (r0 + dir)).isNone = true
    · rw [if_pos hn]
      exact ⟨fun _ _ h => (by cases h), fun _ => ⟨hn, hc'⟩⟩
    · rw [if_neg hn]
      refine ⟨fun r' o' h => ?_, fun h => by cases h⟩
      simp only [Option.some.injEq, Prod.mk.injEq] at h
      obtain ⟨h1, h2⟩ := h
      subst h1
      right
      refine ⟨rfl, ?_, h2.symm, hc'⟩
      cases hl : lineAt ls (r0 + dir) with
      | none => rw [hl] at hn; simp at hn
      | some _ => rfl
  · rw [if_neg hc]
    simp only []
    have h1 : ¬ (o + dir < 0) := fun h => hc (by simp [h])
    have h2 : ¬ ((lineAt ls r0).isNone = true) := fun h => hc (by simp [h])
    have h3 : ¬ (o + dir ≥ slenAt ls r0) := fun h => hc (by simp [h])
    refine ⟨fun r' o' h => ?_, fun h => by cases h⟩
    simp only [Option.some.injEq, Prod.mk.injEq] at h
    obtain ⟨e1, e2⟩ := h
    left
    refine ⟨e1.symm, e2.symm, by omega, by omega, ?_⟩
    cases hl : lineAt ls r0 with
    | none => rw [hl] at h2; exact absurd rfl h2
    | some _ => rfl

/-! ## 5. examples on the two-line buffer `ab cb`, `x` -/

def ed2 : Ed := { bufs := [some { path := [], lb := { lines := [[97, 98, 32, 99, 98, 10], [120, 10]] } }] }
/-- cursor at (0, 0), a window of 23 rows, the given keys waiting at the terminal -/
def vs2 (keys : Bytes) : VS := { ed := ed2, typed := keys }

def resVal {α : Type} : Res α → Option α
  | Res.ok a _ => some a
  | _ => none
/-- (xrow, xoff, xtop, text) of the final state -/
def resCur {α : Type} : Res α → Option (Int × Int × Int × List Bytes)
  | Res.ok _ s => some (s.ed.xrow, s.ed.xoff, s.ed.xtop, lines s)
  | _ => none

theorem res_ok_of {α : Type} (r : Res α) (a : α) (h : resVal r = some a) : ∃ s', r = Res.ok a s' := by
  cases r with
  | ok b s => simp [resVal] at h; subst h; exact ⟨s, rfl⟩
  | eof => simp [resVal] at h
  | trap => simp [resVal] at h

/-- the lines of the example are buffer lines, ASCII, and without two consecutive newlines -/
example : WfLine [97, 98, 32, 99, 98, 10] ∧ WfLine [120, 10] ∧ Ascii [97, 98, 32, 99, 98] :=
  ⟨⟨[97, 98, 32, 99, 98], rfl, by decide⟩, ⟨[120], rfl, by decide⟩, by unfold Ascii; decide⟩
example : NoNlNl [97, 98, 32, 99, 98, 10] := wfLine_noNlNl _ ⟨[97, 98, 32, 99, 98], rfl, by decide⟩

/-- the hypotheses of `wfix_window` / `wfix_top_nonneg` hold in the example state -/
example : 0 < (vs2 []).xrows ∧ 0 ≤ (vs2 []).ed.xtop := by decide

/-- `vi_wfix()` on a cursor far outside the buffer: last row, its only character; the window follows -/
example : resCur (viWfix { vs2 [] with ed := { ed2 with xrow := 70, xoff := 9 } }) =
    some (1, 0, 0, [[97, 98, 32, 99, 98, 10], [120, 10]]) := by decide +kernel
/-- a negative offset survives `vi_wfix()` -/
example : resCur (viWfix { vs2 [] with ed := { ed2 with xoff := -3 } }) =
    some (0, -3, 0, [[97, 98, 32, 99, 98, 10], [120, 10]]) := by decide +kernel
/-- on an empty buffer -/
example : resCur (viWfix { ed := { bufs := [some { path := [], lb := {} }], xrow := 4, xoff := 2 } }) =
    some (0, 0, 0, []) := by decide +kernel

/-- `$`: `viPre` returns the motion `$` with target (0, 5) (the newline), the step lands on (0, 4) -/
example : resVal (viPre (vs2 [36])) = some (36, 0, 5) := by decide +kernel
example : resCur (viStep (vs2 [36])) = some (0, 4, 0, [[97, 98, 32, 99, 98, 10], [120, 10]]) := by decide +kernel
/-- `2fb`, `j`, and the failing `Fq` (`mv = -1`, the cursor stays) -/
example : resCur (viStep (vs2 [50, 102, 98])) = some (0, 4, 0, [[97, 98, 32, 99, 98, 10], [120, 10]]) := by
  decide +kernel
example : resCur (viStep (vs2 [106])) = some (1, 0, 0, [[97, 98, 32, 99, 98, 10], [120, 10]]) := by decide +kernel
example : resVal (viPre (vs2 [70, 113])) = some (-1, 0, 0) := by decide +kernel
example : resCur (viStep (vs2 [70, 113])) = some (0, 0, 0, [[97, 98, 32, 99, 98, 10], [120, 10]]) := by
  decide +kernel

/-- the hypotheses of `viStep_motion_keeps_text` / `viStep_motion_cursor_valid` are satisfiable: the
    step `$` from the example state, and what the theorems then give -/
example : ∃ s1 s3, viPre (vs2 [36]) = Res.ok (36, 0, 5) s1 ∧ viStep (vs2 [36]) = Res.ok () s3 ∧
    lines s3 = lines (vs2 [36]) ∧ CursorValid s3 ∧ 0 ≤ s3.ed.xoff ∧ s3.ed.xrow = 0 := by
  obtain ⟨s1, h1⟩ := res_ok_of (viPre (vs2 [36])) (36, 0, 5) (by decide +kernel)
  obtain ⟨s3, h3⟩ := res_ok_of (viStep (vs2 [36])) () (by decide +kernel)
  obtain ⟨v, t, a, _⟩ := viStep_motion_cursor_valid _ s1 s3 36 0 5 h1 (by decide) h3
  exact ⟨s1, s3, h1, h3, t, v, (a (by decide)).1, (a (by decide)).2 (by decide) (by decide)⟩

/-- and for a failed motion -/
example : ∃ s1 s3, viPre (vs2 [70, 113]) = Res.ok (-1, 0, 0) s1 ∧ viStep (vs2 [70, 113]) = Res.ok () s3 ∧
    lines s3 = lines (vs2 [70, 113]) ∧ CursorValid s3 := by
  obtain ⟨s1, h1⟩ := res_ok_of (viPre (vs2 [70, 113])) (-1, 0, 0) (by decide +kernel)
  obtain ⟨s3, h3⟩ := res_ok_of (viStep (vs2 [70, 113])) () (by decide +kernel)
  obtain ⟨v, t, _, _⟩ := viStep_motion_cursor_valid _ s1 s3 (-1) 0 0 h1 (by decide) h3
  exact ⟨s1, s3, h1, h3, t, v⟩

/-- the scanners on the example lines, and the reference on the same input -/
example : findchar [[97, 98, 32, 99, 98, 10], [120, 10]] [98] 102 2 0 0 = some 4 ∧
    Spec.Motion.findChar [97, 98, 32, 99, 98] 0 98 true false 2 = some 4 := by decide
example : findchar [[97, 98, 32, 99, 98, 10], [120, 10]] [98] 84 1 0 4 = some 2 ∧
    Spec.Motion.findChar [97, 98, 32, 99, 98] 4 98 false true 1 = some 2 := by decide
example : eol [[97, 98, 32, 99, 98, 10], [120, 10]] 0 = 5 ∧ indents [[32, 9, 120, 10]] 0 = 2 ∧
    indents [[32, 32, 10]] 0 = 2 ∧ indents [[10]] 0 = 0 ∧ Mot.next [[97, 10], [120, 10]] 1 0 1 = some (1, 0) ∧
    Mot.next [[97, 10], [120, 10]] (-1) 1 0 = some (0, 1) ∧
    paragraphbeg [[97, 10], [10], [120, 10]] 1 0 = (1, 0) := by decide

end Neatvi.Props.C07
