import NeatviVerif.Lemmas.C19gExamples
import NeatviVerif.Lemmas.C19gMotion
/-!
# C19g  The horizontal window over whole runs: the ex layer, the first screen, every command boundary

`Props/C19f.lean` proves the invariant `xleft ≤ xcol < xleft + xcols` of the command loop of `vi()`;
its `0 ≤ xleft` half rested on the unproved `ExKeepsLeft` (the ex layer keeps "no negative `xleft`,
current or saved in `bufs[].left`"), and the window of the state `vi()` starts in was a hypothesis.

* §1 **the ex layer and `xleft`** (`Lemmas/C19gFrame.lean`, `C19gLocal.lean`, `C19gEx.lean`).  The ex
  layer writes `xleft` only in `bufs_load()` — from the `left` saved for the buffer that becomes
  current, or 0 — and a saved `left` only in `bufs_save()` (from `xleft`) and `bufs_init()` (0).  So for
  every property `P` that 0 has, "`xleft` and every saved `left` have `P`" (`LP P`) is kept by every
  handler, command line, `ex_command`, round of `ex()`, `ex_init`: `runCmd_keeps` … `exInit_keeps`,
  by induction on the fuel of the mutual block of `Model/ExCmd.lean` (the scheme of `C20c`'s
  `StepClosed`, redone for this relation: a `Loc` step of C20c says nothing about `xleft`).
  `P = (0 ≤ ·)` is `C19f.LOk`: `ex_keeps_left : ExKeepsLeft`.
* §2 `col_invariant_reachable`: `C19f.col_invariant_reachable_full` is a theorem.  `viStep_window`:
  what one iteration does to the window from *any* state.
* §3 **the state `vi()` starts in** (`initState`: `ex_init`, `viInit`), for every file, key sequence
  and window size: `xleft = 0` and every saved `left` is 0, `xoff = 0`, the sticky column is
  `vi_off2col(xrow, 0)`; the window holds iff that column is `< cols` (`initState_spec`) — `vi()` does
  not adjust `xleft` before the first command.  It is 0 for a line of single-byte characters or of
  more than 256 characters (`initial_window_partial`).  That it is 0 for *every* first line
  (`initial_window_full`) is not proved: it is a statement about `dir_reorder` with the configured
  bidi patterns (the first character of a line is never inside a reversed run when `td = 1`).
* §4 **every command boundary of every run** (`run_window`, `runModel_window`), with no hypothesis
  but `cols > 0`: `0 ≤ xcol`, `0 ≤ xleft`, no negative saved `left`, and the column window — or else
  nothing horizontal has moved since the start (only `continue` iterations so far, and the first
  column `≥ cols`).
* §5 **the cursor on its character along runs**: `state_cursor_on_character` (one state),
  `run_cursor_on_character` (iterations that reach the end of the loop body with `mod ≠ 0`, or
  with the sticky column on the cursor character), `run_motion_cursor_on_character` (every motion
  other than `j`, `k`, `|`), `run_sticky_after_vertical_motion`, `run_sticky_cursor_on_character`
  (`j` / `k`).
* §6 **before the first command** (`first_boundary`, `first_boundary_shows`): the terminal cursor is put
  on `vi_pos(xcol)`, the *first* cell of the first character, whereas after every command it is put
  on `vi_pos(ren_cursor(xcol))`, its last cell: `first_cursor_cell_finding` (`"\tabc\n"`: cell 0 at
  the start, cell 7 after `0`; observed on `/repo/vi` in a pty: `ESC[1;1H` at the start, `ESC[1;8H`
  after `0`).
-/
namespace Neatvi.Props.C19g
open Neatvi Neatvi.Uc Neatvi.Spec Neatvi.Ren Neatvi.Render Neatvi.Lbuf Neatvi.Ex Neatvi.Mot Neatvi.Vi
open Neatvi.Lemmas.C19f Neatvi.Lemmas.C19g
open Neatvi.Lemmas.C17b (StrictInc)
open Neatvi.Props.C05c (iterate)

export Neatvi.Lemmas.C19g (LP HasZero LK StepVia edTwo twoFile lview stepModOf)

/-! ## 1. the ex layer only copies `xleft` -/

/-- `LP P ed`: `xleft` has the property `P`, and so has the `left` saved for every buffer of the
    table -/
theorem lp_iff (P : Int → Prop) (ed : Ed) :
    LP P ed ↔ (P ed.xleft ∧ ∀ bf, some bf ∈ ed.bufs → P bf.left) := Iff.rfl

/-- `C19f.LOk` is the instance `P = (0 ≤ ·)` -/
theorem lOk_iff (ed : Ed) : LOk ed ↔ LP (fun x : Int => 0 ≤ x) ed := Iff.rfl

/-- **every `ec_*` handler keeps `LP P`**, for every property `P` of integers that 0 has, every fuel,
    whatever the arguments and the return code: `:e`, `:e!`, `:e #`, `:ew`, `:e +cmd` (`bufs_open`,
    `bufs_switch`), `:b` in all its forms (`bufs_switch`, `bufs_shift`, the fresh buffer of `:b !`,
    `:b ~`), `:q` / `:wq` / `:x` / `:xa` (`bufs_switch` to the first modified buffer), `:g`, `:@`, and
    the commands that work on the current buffer. -/
theorem runCmd_keeps (P : Int → Prop) [HasZero P] (f : Nat) (ed ed' : Ed) (hd : String) (loc cmd arg : Bytes)
    (txt : Option Bytes) (r : Int) (h : runCmd f ed hd loc cmd arg txt = some (r, ed')) (hl : LP P ed) : LP P ed' :=
  runCmd_lk_all h hl

/-- a command line `c1|c2|…` -/
theorem exExec_keeps (P : Int → Prop) [HasZero P] (f : Nat) (ed ed' : Ed) (ln : Bytes) (r : Int)
    (h : exExec f ed ln = some (r, ed')) (hl : LP P ed) : LP P ed' := exExec_lk h hl

/-- `ex_command` -/
theorem exCommand_keeps (P : Int → Prop) [HasZero P] (f : Nat) (ed ed' : Ed) (ln : Bytes) (r : Int)
    (h : exCommand f ed ln = some (r, ed')) (hl : LP P ed) : LP P ed' := exCommand_lk h hl

/-- `ec_edit`, also with a `+cmd` -/
theorem ecEdit_keeps (P : Int → Prop) [HasZero P] (f : Nat) (ed ed' : Ed) (cmd arg : Bytes) (r : Int)
    (h : ecEdit f ed cmd arg = some (r, ed')) (hl : LP P ed) : LP P ed' := ecEdit_lk_all h hl

/-- one round of the `ex()` loop -/
theorem exStep_keeps (P : Int → Prop) [HasZero P] (ed ed' : Ed) (r : Int)
    (h : exStep ed = some (r, ed')) (hl : LP P ed) : LP P ed' := exStep_lk h hl

/-- `ex_init` -/
theorem exInit_keeps (P : Int → Prop) [HasZero P] (ed ed' : Ed) (files : List Bytes) (r : Int)
    (h : exInit ed files = some (r, ed')) (hl : LP P ed) : LP P ed' := exInit_lk h hl

/-- `ex_command()` as the vi loop calls it — the `:` prompt and the shortcuts that build a command line
    (`ZZ`, `^^`, `^]`, `^T`, …) -/
theorem exCommandV_keeps (P : Int → Prop) [HasZero P] (ln : Bytes) (s s' : VS) (rc : Int)
    (h : exCommandV ln s = Res.ok rc s') (hl : LP P s.ed) : LP P s'.ed := exCommandV_lp ln s s' rc h hl

/-- the table operations themselves, for every argument: `bufs_switch(idx)` saves `xleft` into the
    entry left and loads the `left` of the entry reached (0 if the slot is empty); `bufs_open` creates
    an entry with `left = 0`; `bufs_shift` loads the `left` of the entry that becomes current -/
theorem table_ops_keep (P : Int → Prop) [HasZero P] (ed : Ed) (hl : LP P ed) :
    (∀ idx, LP P (ed.bufsSwitch idx)) ∧ (∀ p, LP P (ed.bufsOpen p).2) ∧ LP P ed.bufsShift :=
  ⟨fun idx => lk_bufsSwitch ed idx hl, fun p => lk_bufsOpen ed p hl, lk_bufsShift ed hl⟩

/-- **`ExKeepsLeft`**, the hypothesis `Props/C19f.lean` left open: `ex_command` (with the fuel the vi
    level gives it) keeps "no negative `xleft`, current or saved in the buffer table" -/
theorem ex_keeps_left : ExKeepsLeft := exKeepsLeft

/-- the hypotheses are satisfiable and the switch is not trivial: `edTwo` has "a" current with
    `xleft = 79` and "b" parked with `left = 5`; `:b 2` runs through `ex_command`
    (`Lemmas.C19g.edTwo_command`), after it `xleft = 5` and the table remembers 79 for "a"
    (`edTwo_after`) — and the theorem gives `LOk` of that state -/
example : LOk edTwo ∧ exCommand 64 edTwo [98, 32, 50] = some (0, ((edTwo.bufsSwitch 1).modifiedAt 0).2) ∧
    ((edTwo.bufsSwitch 1).modifiedAt 0).2.xleft = 5 ∧ LOk ((edTwo.bufsSwitch 1).modifiedAt 0).2 :=
  ⟨edTwo_lOk, edTwo_command, edTwo_xleft, ex_keeps_left _ _ _ _ edTwo_command edTwo_lOk⟩

/-- CONJECTURE (false): an ex command leaves `xleft` alone -/
def ex_keeps_xleft_value : Prop :=
  ∀ (ed ed' : Ed) (ln : Bytes) (rc : Int), exCommand 64 ed ln = some (rc, ed') → ed'.xleft = ed.xleft

/-- `:b 2` on `edTwo` takes `xleft` from 79 to 5: the ex layer restores the window of the buffer it
    switches to; what it keeps is every *property* of the `xleft` values that 0 has -/
theorem ex_keeps_xleft_value_is_false : ¬ ex_keeps_xleft_value := Lemmas.C19g.ex_keeps_xleft_value_is_false

/-! ## 2. the full invariant of the command loop -/

/-- **`C19f.col_invariant_reachable_full` holds**: from a state with `Good c`, `c > 0`, the sticky column
    inside the window and no negative `xleft`, current or saved, every state reached by iterating
    `viStep` while the editor is not quitting has `xleft ≤ xcol < xleft + xcols` and `0 ≤ xleft`. -/
theorem col_invariant_reachable : Lemmas.C19f.col_invariant_reachable_full := Lemmas.C19g.col_invariant_reachable

/-- the same, spelled out -/
theorem col_invariant_reachable_spelled (c : Int) (hc : 0 < c) (n : Nat) (s₀ s : VS) (hg : Good c s₀)
    (hw : ColWin s₀) (hl : LOk s₀.ed) (h : iterate n s₀ = some s) (ha : Alive n s₀) :
    s.ed.xleft ≤ s.xcol ∧ s.xcol < s.ed.xleft + s.xcols ∧ 0 ≤ s.ed.xleft :=
  let t := col_invariant_reachable c hc n s₀ s hg hw hl h ha
  ⟨t.1.1, t.1.2, t.2⟩

/-- no negative `xleft`, current or saved, in any state reached — quitting or not -/
theorem lOk_reachable (c : Int) (hc : 0 ≤ c) (n : Nat) (s₀ s : VS) (hg : Good c s₀) (hl : LOk s₀.ed)
    (h : iterate n s₀ = some s) : LOk s.ed := lOk_reachable' c hc n s₀ s hg hl h

/-- the hypotheses are satisfiable: the run `j$k` of the recorded finding (C19f) -/
example : ∃ s, iterate 3 (exSt [106, 36, 107] 0 0) = some s ∧ ColWin s ∧ 0 ≤ s.ed.xleft := by
  cases h : iterate 3 (exSt [106, 36, 107] 0 0) with
  | none => have := ex_iterate_some; rw [h] at this; cases this
  | some s =>
    have hl : LOk (exSt [106, 36, 107] 0 0).ed := by
      refine ⟨by decide, fun bf hbf => ?_⟩
      have hm : some bf ∈ [some ({ path := [], lb := { lines := [shortLn, longLn] } } : Buf)] := hbf
      rw [List.mem_singleton] at hm
      cases hm
      decide
    have t := col_invariant_reachable 80 (by decide) 3 _ s ex_good ex_colWin hl h ex_alive
    exact ⟨s, rfl, t.1, t.2⟩

/-- **one iteration and the window, from any state**: with `Good c`, `c > 0`, whether or not the window
    holds before — an iteration that reaches the end of the loop body (and does not leave the editor
    quitting) *establishes* `xleft ≤ xcol < xleft + xcols`; an iteration that hits `continue` (no key,
    an unknown command key) leaves `xcol`, `xcols`, `xleft`, `xtd`, `xquit` as they were
    (`hsnap`, C19f). -/
theorem viStep_window (c : Int) (hc : 0 < c) (s s' : VS) (hg : Good c s)
    (h : viStep s = Res.ok () s') (hq : s'.ed.xquit = false) : ColWin s' ∨ hsnap s' = hsnap s :=
  Lemmas.C19g.viStep_window c hc s s' hg h hq

/-! ## 3. the state `vi()` starts in -/

/-- **the state `vi()` starts in** (`C19f.initState`: `ex_init` on the empty table, with the file — if
    any — in the file system, then `viInit`), for every file, key sequence and window size:
    * `xleft = 0` and the `left` saved for every buffer of the table is 0 (`LP (· = 0)`), hence `LOk`;
    * `Good cols`: the window width is `cols`, `0 ≤ xcol`, `vi_pcol = 0`, both counts 0;
    * the cursor offset is 0 and the sticky column is `vi_off2col(xrow, 0)`, the column of the first
      character of the cursor line;
    * the column window `xleft ≤ xcol < xleft + xcols` holds iff that column is `< cols`: `vi()` does
      not adjust `xleft` before the first command. -/
theorem initState_spec (file : Option Bytes) (keys : Bytes) (rows cols : Int) (s0 : VS)
    (h : initState file keys rows cols = some s0) :
    LP (fun x : Int => x = 0) s0.ed ∧ LOk s0.ed ∧ Good cols s0 ∧ s0.xcols = cols ∧ s0.ed.xoff = 0 ∧
    s0.xcol = off2col s0 s0.ed.xrow s0.ed.xoff ∧ 0 ≤ s0.xcol ∧ (ColWin s0 ↔ s0.xcol < cols) :=
  Lemmas.C19g.initState_spec file keys rows cols s0 h

/-- the hypothesis is satisfiable: `ex_init` on a file with a 120-character line and the line `short`
    (`twoFile`), evaluated by the kernel through the stages of `ec_edit` -/
example : (initState (some twoFile) [36, 106, 107] 24 80).map lview = some ([0, 0, 0, 0], [0]) := two_init

/-- `initial_window_full`: the column window holds in the state `vi()` starts in, for every file and
    every window of at least one column.  **Not proved.**  By `initState_spec` it says that the first
    character of the cursor line is in a column `< cols`; it is in column 0 unless `dir_reorder` puts
    it inside a reversed run, which the configured patterns (`conf.h`: `dirmarks`, `dircontexts`)
    never do when `td = 1` — a right-to-left run starts with an Arabic letter, and a line that starts
    with one has a right-to-left *context*, in which that run is not reversed.  That argument is about
    the regular expressions of `conf.h` and is not formalised; an exhaustive evaluation of all lines
    of up to 5 characters over 14 representative characters (Latin, Arabic, ZWNJ, blank, tab, the
    punctuation of the patterns) found column 0 throughout.  `run_window` below does not need it. -/
def initial_window_full : Prop :=
  ∀ (file : Option Bytes) (keys : Bytes) (rows cols : Int), 0 < cols → ∀ s0,
    initState file keys rows cols = some s0 → ColWin s0

/-- what is proved of `initial_window_full`: the window holds from the start — the sticky column is
    0 — when the cursor line (if any) has single-byte characters only, or more than 256 characters
    (`ren_position` then lays it out left to right).  Missing: lines with multi-byte characters of at
    most 256 characters, for which `ren_position` consults the bidi patterns. -/
theorem initial_window_partial (file : Option Bytes) (keys : Bytes) (rows cols : Int) (hc : 0 < cols) (s0 : VS)
    (h : initState file keys rows cols = some s0)
    (hline : ∀ ln, lineOf s0 s0.ed.xrow = some ln → ucSlen ln = ln.length ∨ 256 < ucSlen ln) :
    s0.xcol = 0 ∧ ColWin s0 :=
  initState_colWin file keys rows cols hc s0 h hline

/-- the hypotheses are satisfiable: `twoFile` starts with a line of 120 `a`s (`two_ascii_check`, by the
    kernel), and the theorem gives the window of the state `vi()` starts in -/
example : ∃ s0, initState (some twoFile) [36, 106, 107] 24 80 = some s0 ∧ s0.xcol = 0 ∧ ColWin s0 := by
  have e := two_ascii_check
  cases h0 : initState (some twoFile) [36, 106, 107] 24 80 with
  | none => rw [h0] at e; cases e
  | some s0 =>
    rw [h0] at e
    simp only [] at e
    have t := initial_window_partial (some twoFile) [36, 106, 107] 24 80 (by decide) s0 h0 (fun ln hl => by
      rw [hl] at e
      simp only [Option.all_some, decide_eq_true_eq] at e
      exact Or.inl e)
    exact ⟨s0, rfl, t.1, t.2⟩

/-! ## 4. every command boundary of every run -/

/-- **every command boundary of every run of `vi()`**, for every file, key sequence, number of rows
    and `cols > 0` — no other hypothesis.  `s` is the state after `n` iterations of the command loop
    from the state `vi()` starts in, none of which left the editor quitting.  Then
    * the window is `cols` wide, `0 ≤ xcol`, `0 ≤ xleft`, and no buffer of the table has a negative
      saved `left`;
    * `xleft ≤ xcol < xleft + xcols` — or else every iteration so far hit `continue`, so that `xcol`
      and `xleft = 0` are still those `vi()` started with (so if the window does not hold,
      `xcol ≥ cols` and it did not hold at the start either);
    * in particular the window holds in every state if the first character of the first cursor line
      is in a column `< cols`. -/
theorem run_window (file : Option Bytes) (keys : Bytes) (rows cols : Int) (hc : 0 < cols) (s0 : VS)
    (hi : initState file keys rows cols = some s0) (n : Nat) (s : VS) (hn : iterate n s0 = some s)
    (ha : Alive n s0) :
    s.xcols = cols ∧ 0 ≤ s.xcol ∧ 0 ≤ s.ed.xleft ∧ (∀ bf, some bf ∈ s.ed.bufs → 0 ≤ bf.left) ∧
    (ColWin s ∨ (s.xcol = s0.xcol ∧ s.ed.xleft = 0)) ∧ (s0.xcol < cols → ColWin s) :=
  Lemmas.C19g.run_window file keys rows cols hc s0 hi n s hn ha

/-- the hypotheses are satisfiable: the run `$`, `j`, `k` on `twoFile`, evaluated by the kernel
    (`two_run`: `[xrow, xoff, xcol, xleft]` is `[0,0,0,0]`, `[0,119,119,79]`, `[1,4,119,79]`,
    `[0,119,119,79]`) -/
example : ∃ s0 s, initState (some twoFile) [36, 106, 107] 24 80 = some s0 ∧ iterate 2 s0 = some s ∧
    lview s = ([1, 4, 119, 79], [0]) := by
  have e := two_run
  simp only [List.range, List.range.loop, List.map_cons, List.map_nil, List.cons.injEq] at e
  obtain ⟨_, _, e2, _⟩ := e
  cases h0 : initState (some twoFile) [36, 106, 107] 24 80 with
  | none => rw [h0] at e2; cases e2
  | some s0 =>
    rw [h0] at e2
    simp only [Option.bind_some] at e2
    cases h2 : iterate 2 s0 with
    | none => rw [h2] at e2; cases e2
    | some s =>
      rw [h2] at e2
      exact ⟨s0, s, rfl, h2, by simpa using e2⟩

open Neatvi.Drive.ViD in
/-- **the driver's runs**: the same of every state `runModel` records (it iterates `viStep` from
    `initState` until the keys run out, the model traps or `xquit` is set) -/
theorem runModel_window (file : Option Bytes) (keys : Bytes) (rows cols : Int) (run : Run) (hc : 0 < cols)
    (h : runModel file keys rows cols = some run) :
    ∃ s0, initState file keys rows cols = some s0 ∧ ∀ s ∈ run.states,
      s.xcols = cols ∧ 0 ≤ s.xcol ∧ 0 ≤ s.ed.xleft ∧ (∀ bf, some bf ∈ s.ed.bufs → 0 ≤ bf.left) ∧
      (ColWin s ∨ (s.xcol = s0.xcol ∧ s.ed.xleft = 0)) ∧ (s0.xcol < cols → ColWin s) :=
  Lemmas.C19g.runModel_window file keys rows cols run hc h

open Neatvi.Drive.ViD in
/-- the hypothesis is satisfiable: the driver runs `$`, `j`, `k` on `twoFile` (`two_runModel_some`) -/
example : ∃ run, runModel (some twoFile) [36, 106, 107] 24 80 = some run ∧ ∀ s ∈ run.states, 0 ≤ s.ed.xleft := by
  cases h : runModel (some twoFile) [36, 106, 107] 24 80 with
  | none => have := two_runModel_some; rw [h] at this; cases this
  | some run =>
    obtain ⟨s0, _, hall⟩ := runModel_window (some twoFile) [36, 106, 107] 24 80 run (by decide) h
    exact ⟨run, rfl, fun s hs => (hall s hs).2.2.1⟩

/-! ## 5. the cursor on its character, along runs -/

/-- the phases of an iteration: `viPre` (prefixes, motion), `stepCont` (the cursor update of a motion
    or the command switch; `cont = none` is `continue`), `viPost cont` (the end of the loop body with
    redraw class `mod` when `cont = some mod`) -/
theorem stepVia_iff (s s' : VS) (cont : Option Nat) :
    StepVia s s' cont ↔ ∃ r s1 s2, viPre s = Res.ok r s1 ∧
      Lemmas.C07.stepCont r.1 r.2.1 r.2.2 s1 = Res.ok cont s2 ∧ viPost cont s2 = Res.ok () s' := Iff.rfl

/-- an iteration is one of these -/
theorem viStep_via (s s' : VS) : viStep s = Res.ok () s' ↔ ∃ cont, StepVia s s' cont :=
  Lemmas.C19g.viStep_via s s'

/-- **The cursor cell shows the cursor character — as a statement about one state.**  A state with
    a valid cursor (`C07.CursorValid`: the cursor rests on a character of an existing line), a
    non-negative offset, a window of at least one column containing the sticky column, whose sticky
    column is the column of the cursor character (`xcol = vi_off2col(xrow, xoff)`), on a buffer line
    `body ++ "\n"` of valid code points with a non-empty body.  With `w` the cell width of the cursor
    character: `xcol` is its lowest visual column; every column of `[xcol, xcol + w)` maps back to
    it; `ren_cursor(xcol) = xcol + w - 1`; the cell of `xcol` is a cell of the window; and **when all
    cells of the character are inside the window, the rendered row shows the character both in the
    cell of `xcol` and in the cell the terminal cursor is put on**, which is `w - 1` cells further in
    the direction of the context. -/
theorem state_cursor_on_character (s : VS) (hcv : Props.C07.CursorValid s) (hc : 0 < s.xcols) (hw : ColWin s)
    (h0 : 0 ≤ s.ed.xoff) (hx : s.xcol = off2col s s.ed.xrow s.ed.xoff)
    (body : List Nat) (hv : ∀ c ∈ body, ValidCp c) (h10 : 10 ∉ body) (hne : body ≠ [])
    (hln : lineOf s s.ed.xrow = some (encStr (body ++ [10]))) :
    let cps := body ++ [10]
    let off := s.ed.xoff.toNat
    let pos := posTab s (encStr cps)
    let w : Int := cellWidth (cps.getD off 0) (pos.getD off 0)
    (s.ed.xoff = (off : Int) ∧ off < body.length) ∧
    (s.xcol = (pos.getD off 0 : Nat) ∧ 1 ≤ w) ∧
    (∀ p : Int, s.xcol ≤ p → p < s.xcol + w → col2off s s.ed.xrow p = (off : Nat)) ∧
    cursorCol s = s.xcol + w - 1 ∧
    (0 ≤ colCell s ∧ colCell s < s.xcols) ∧
    (s.xcol + w ≤ s.ed.xleft + s.xcols →
      rowShows s (encStr cps) (colCell s).toNat = some off ∧
      0 ≤ termCursor s ∧ termCursor s < s.xcols ∧
      rowShows s (encStr cps) (termCursor s).toNat = some off ∧
      (0 ≤ curCtx s → termCursor s = colCell s + (w - 1)) ∧
      (curCtx s < 0 → termCursor s = colCell s - (w - 1))) :=
  Lemmas.C19g.state_cursor_on_character s hcv hc hw h0 hx body hv h10 hne hln

/-- after an iteration with redraw class `mod ≠ 0` that does not leave the editor quitting, the sticky
    column is the column of the cursor character -/
theorem sticky_column_on_cursor (s s' : VS) (mod : Nat) (hmod : mod ≠ 0) (h : StepVia s s' (some mod))
    (hq : s'.ed.xquit = false) : s'.xcol = off2col s' s'.ed.xrow s'.ed.xoff :=
  stepVia_onChar s s' mod hmod h hq

/-- **`cursor_on_character` at the command boundaries of every run.**  `s` is the state after `n`
    iterations from the state `vi()` starts in (any file, keys, rows; `cols > 0`); the next iteration
    reaches the end of the loop body with redraw class `mod` and ends in `s'`, not quitting, with a
    non-negative offset; `mod ≠ 0`, or the sticky column of `s'` is the column of its cursor
    character; the cursor line of `s'` is `body ++ "\n"` (valid code points, non-empty body).  Then
    `0 ≤ xleft`, the window is `cols` wide, and — with `off` the cursor offset, `pos` the position
    table, `w` the cell width of the cursor character —
    the cursor is on a character of the body; `xcol = vi_off2col(xrow, xoff) = pos[off]`; its cell range
    maps back to it; `ren_cursor(xcol) = xcol + w - 1`; `xleft ≤ xcol < xleft + xcols`; and **if all
    cells of the cursor character are inside the window, the window cell under the terminal cursor
    shows the cursor character** (and so does the cell of `xcol`; they are `w - 1` apart). -/
theorem run_cursor_on_character (file : Option Bytes) (keys : Bytes) (rows cols : Int) (hc : 0 < cols) (s0 : VS)
    (hi : initState file keys rows cols = some s0) (n : Nat) (s s' : VS) (hn : iterate n s0 = some s)
    (mod : Nat) (hstep : StepVia s s' (some mod)) (hq : s'.ed.xquit = false) (h0 : 0 ≤ s'.ed.xoff)
    (hx : mod ≠ 0 ∨ s'.xcol = off2col s' s'.ed.xrow s'.ed.xoff)
    (body : List Nat) (hv : ∀ c ∈ body, ValidCp c) (h10 : 10 ∉ body) (hne : body ≠ [])
    (hln : lineOf s' s'.ed.xrow = some (encStr (body ++ [10]))) :
    let cps := body ++ [10]
    let off := s'.ed.xoff.toNat
    let pos := posTab s' (encStr cps)
    let w : Int := cellWidth (cps.getD off 0) (pos.getD off 0)
    0 ≤ s'.ed.xleft ∧ s'.xcols = cols ∧
    (s'.ed.xoff = (off : Int) ∧ off < body.length) ∧
    (s'.xcol = off2col s' s'.ed.xrow s'.ed.xoff ∧ s'.xcol = (pos.getD off 0 : Nat) ∧ 1 ≤ w) ∧
    (∀ p : Int, s'.xcol ≤ p → p < s'.xcol + w → col2off s' s'.ed.xrow p = (off : Nat)) ∧
    cursorCol s' = s'.xcol + w - 1 ∧
    (s'.ed.xleft ≤ s'.xcol ∧ s'.xcol < s'.ed.xleft + s'.xcols ∧ 0 ≤ colCell s' ∧ colCell s' < s'.xcols) ∧
    (s'.xcol + w ≤ s'.ed.xleft + s'.xcols →
      rowShows s' (encStr cps) (colCell s').toNat = some off ∧
      0 ≤ termCursor s' ∧ termCursor s' < s'.xcols ∧
      rowShows s' (encStr cps) (termCursor s').toNat = some off ∧
      (0 ≤ curCtx s' → termCursor s' = colCell s' + (w - 1)) ∧
      (curCtx s' < 0 → termCursor s' = colCell s' - (w - 1))) :=
  stepVia_cursor_on_character cols hc s s' mod (run_goodT file keys rows cols hc s0 hi n s hn) hstep hq h0 hx
    body hv h10 hne hln

/-- the hypotheses are satisfiable: `x` as the first command on `twoFile` — the iteration reaches the
    end of the loop body with `mod ≠ 0`, not quitting, offset 0, on the line of 119 `a`s
    (`two_x_check`, by the kernel) — and the theorem then gives the window of the state after it -/
example : ∃ s0 s' mod, initState (some twoFile) [120] 24 80 = some s0 ∧ StepVia s0 s' (some mod) ∧ mod ≠ 0 ∧
    s'.ed.xleft ≤ s'.xcol ∧ s'.xcol < s'.ed.xleft + s'.xcols ∧ 0 ≤ s'.ed.xleft := by
  have e := two_x_check
  cases h0 : initState (some twoFile) [120] 24 80 with
  | none => rw [h0] at e; cases e
  | some s0 =>
    rw [h0] at e
    simp only [] at e
    cases h1 : stepModOf s0 with
    | none => rw [h1] at e; cases e
    | some p =>
      obtain ⟨mod, s'⟩ := p
      rw [h1] at e
      simp only [Bool.and_eq_true, decide_eq_true_eq, Bool.not_eq_true'] at e
      obtain ⟨⟨⟨hm, hq⟩, hoff⟩, hln⟩ := e
      have hv := stepModOf_via s0 s' mod h1
      have t := run_cursor_on_character (some twoFile) [120] 24 80 (by decide) s0 h0 0 s0 s' rfl mod hv hq hoff
        (Or.inl hm) (List.replicate 119 97)
        (by intro c hc; rw [List.eq_of_mem_replicate hc]; decide)
        (by intro h; have := List.eq_of_mem_replicate h; omega) (by simp) hln
      exact ⟨s0, s', mod, rfl, hv, hm, t.2.2.2.2.2.2.1.1, t.2.2.2.2.2.2.1.2.1, t.1⟩

/-- the hypotheses of `state_cursor_on_character` are satisfiable: the state after `x` as the first command on `twoFile` (`two_x_check`)
    — its cursor is valid because the iteration ended with `vi_wfix()` (`C07.viPost_cursor_valid`), its
    sticky column is on the cursor because `mod ≠ 0`, the window and its width come from
    `run_cursor_on_character` -/
example : ∃ s' : VS, Props.C07.CursorValid s' ∧ 0 < s'.xcols ∧ ColWin s' ∧ 0 ≤ s'.ed.xoff ∧
    s'.xcol = off2col s' s'.ed.xrow s'.ed.xoff ∧
    lineOf s' s'.ed.xrow = some (encStr (List.replicate 119 97 ++ [10])) := by
  have e := two_x_check
  cases h0 : initState (some twoFile) [120] 24 80 with
  | none => rw [h0] at e; cases e
  | some s0 =>
    rw [h0] at e
    simp only [] at e
    cases h1 : stepModOf s0 with
    | none => rw [h1] at e; cases e
    | some p =>
      obtain ⟨mod, s'⟩ := p
      rw [h1] at e
      simp only [Bool.and_eq_true, decide_eq_true_eq, Bool.not_eq_true'] at e
      obtain ⟨⟨⟨hm, hq⟩, hoff⟩, hln⟩ := e
      have hv := stepModOf_via s0 s' mod h1
      have hcv : Props.C07.CursorValid s' := by
        obtain ⟨r, s1, s2, _, _, hpost⟩ := hv
        exact (Props.C07.viPost_cursor_valid mod s2 s' hpost).1
      have t := run_cursor_on_character (some twoFile) [120] 24 80 (by decide) s0 h0 0 s0 s' rfl mod hv hq hoff
        (Or.inl hm) (List.replicate 119 97)
        (by intro c hc; rw [List.eq_of_mem_replicate hc]; decide)
        (by intro h; have := List.eq_of_mem_replicate h; omega) (by simp) hln
      exact ⟨s', hcv, by rw [t.2.1]; decide, ⟨t.2.2.2.2.2.2.1.1, t.2.2.2.2.2.2.1.2.1⟩, hoff, t.2.2.2.1.1, hln⟩

/-- **... and after every horizontal motion.**  The redraw class of a motion is 0, but a motion other
    than `j`, `k`, `|` assigns `xcol = vi_off2col(xrow, xoff)` itself (vi.c:1552).  For the iteration of a
    state `s` of a run (not quitting) whose motion — what `viPre` returns — is `mv > 0`, not `j`, `k`, `|`,
    to a row `nrow` whose line is `body ++ "\n"` (valid code points, non-empty body): at the next
    command boundary the row is `nrow`, the offset is not negative, the sticky column is the column
    of the cursor character, and all conclusions of `run_cursor_on_character` hold — no hypothesis
    about the state after the iteration. -/
theorem run_motion_cursor_on_character (file : Option Bytes) (keys : Bytes) (rows cols : Int) (hc : 0 < cols)
    (s0 : VS) (hi : initState file keys rows cols = some s0) (n : Nat) (s s1 s' : VS) (hn : iterate n s0 = some s)
    (hq : s.ed.xquit = false) (mv nrow noff : Int) (hpos : 0 < mv) (h1 : mv ≠ 106) (h2 : mv ≠ 107) (h3 : mv ≠ 124)
    (hpre : viPre s = Res.ok (mv, nrow, noff) s1) (h : viStep s = Res.ok () s')
    (body : List Nat) (hv : ∀ c ∈ body, ValidCp c) (h10 : 10 ∉ body) (hne : body ≠ [])
    (hln : lineOf s nrow = some (encStr (body ++ [10]))) :
    let cps := body ++ [10]
    let off := s'.ed.xoff.toNat
    let pos := posTab s' (encStr cps)
    let w : Int := cellWidth (cps.getD off 0) (pos.getD off 0)
    (s'.ed.xrow = nrow ∧ s'.ed.xquit = false ∧ lineOf s' s'.ed.xrow = some (encStr cps)) ∧
    0 ≤ s'.ed.xleft ∧ s'.xcols = cols ∧
    (s'.ed.xoff = (off : Int) ∧ off < body.length) ∧
    (s'.xcol = off2col s' s'.ed.xrow s'.ed.xoff ∧ s'.xcol = (pos.getD off 0 : Nat) ∧ 1 ≤ w) ∧
    (∀ p : Int, s'.xcol ≤ p → p < s'.xcol + w → col2off s' s'.ed.xrow p = (off : Nat)) ∧
    cursorCol s' = s'.xcol + w - 1 ∧
    (s'.ed.xleft ≤ s'.xcol ∧ s'.xcol < s'.ed.xleft + s'.xcols ∧ 0 ≤ colCell s' ∧ colCell s' < s'.xcols) ∧
    (s'.xcol + w ≤ s'.ed.xleft + s'.xcols →
      rowShows s' (encStr cps) (colCell s').toNat = some off ∧
      0 ≤ termCursor s' ∧ termCursor s' < s'.xcols ∧
      rowShows s' (encStr cps) (termCursor s').toNat = some off ∧
      (0 ≤ curCtx s' → termCursor s' = colCell s' + (w - 1)) ∧
      (curCtx s' < 0 → termCursor s' = colCell s' - (w - 1))) := by
  intro cps off pos w
  obtain ⟨hvia, k1, k2, k3, k4, k5⟩ := stepVia_hmotion s s1 s' mv nrow noff hpos h1 h2 h3 hq hpre h _ hln
    (body_line body hv h10 hne).2.1
  exact ⟨⟨k3, k4, k5⟩, run_cursor_on_character file keys rows cols hc s0 hi n s s' hn 0 hvia k4 k2 (Or.inr k1)
    body hv h10 hne k5⟩

/-- the hypotheses are satisfiable: `$` as the first command on `twoFile` (`two_dollar_check`, by the
    kernel); the theorem puts the cursor on the last `a` (offset 119, column 119) inside the window -/
example : ∃ s0 s', initState (some twoFile) [36, 106, 107] 24 80 = some s0 ∧ viStep s0 = Res.ok () s' ∧
    s'.xcol = off2col s' s'.ed.xrow s'.ed.xoff ∧ s'.ed.xleft ≤ s'.xcol ∧ s'.xcol < s'.ed.xleft + s'.xcols := by
  have e := two_dollar_check
  have e1 := two_run
  simp only [List.range, List.range.loop, List.map_cons, List.map_nil, List.cons.injEq] at e1
  obtain ⟨_, e1, _⟩ := e1
  cases h0 : initState (some twoFile) [36, 106, 107] 24 80 with
  | none => rw [h0] at e; cases e
  | some s0 =>
    rw [h0] at e e1
    simp only [Option.bind_some] at e e1
    have hst : ∃ s', viStep s0 = Res.ok () s' := by
      have := iterate_snoc 0 s0 s0 rfl
      cases hv : viStep s0 with
      | ok u s3 => exact ⟨s3, rfl⟩
      | eof => rw [this, hv] at e1; cases e1
      | trap => rw [this, hv] at e1; cases e1
    obtain ⟨s', hs'⟩ := hst
    cases hp : viPre s0 with
    | ok r s1 =>
      rw [hp] at e
      simp only [Bool.and_eq_true, decide_eq_true_eq, Bool.not_eq_true'] at e
      obtain ⟨⟨⟨hr1, hr2⟩, hq⟩, hln⟩ := e
      obtain ⟨mv, nrow, noff⟩ := r
      simp only [] at hr1 hr2
      subst hr1; subst hr2
      have t := run_motion_cursor_on_character (some twoFile) [36, 106, 107] 24 80 (by decide) s0 h0 0 s0 s1 s' rfl
        hq 36 0 noff (by decide) (by decide) (by decide) (by decide) hp hs' (List.replicate 120 97)
        (by intro c hc; rw [List.eq_of_mem_replicate hc]; decide)
        (by intro h; have := List.eq_of_mem_replicate h; omega) (by simp) hln
      exact ⟨s0, s', rfl, hs', t.2.2.2.2.1.1, t.2.2.2.2.2.2.2.1.1, t.2.2.2.2.2.2.2.1.2.1⟩
    | eof => rw [hp] at e; cases e
    | trap => rw [hp] at e; cases e

/-- **`j` / `k` at the command boundaries of every run**: the statement of
    `C19f.sticky_after_vertical_motion` for the iteration of a state `s` of a run (not quitting) whose
    motion — what `viPre` returns — is `j` or `k` to the row `nrow`, a buffer line `body ++ "\n"`.  About
    the state `s3` at the next command boundary: it is not quitting, has the column window (of the
    *sticky* column) and `0 ≤ xleft`; the sticky column is unchanged, the row is `nrow`, `xleft` is
    adjusted to the sticky column (`postLeft`); the cursor is on a character of the body; whenever the
    sticky column falls on a cell of a character of the body the cursor is on that character; and on
    a table that increases with the offset the cursor character is at or left of the sticky column —
    the last character of the line, entirely left of it, when the line is not as wide (the recorded
    finding `sticky_column_keeps_xleft_beyond_the_cursor`). -/
theorem run_sticky_after_vertical_motion (file : Option Bytes) (keys : Bytes) (rows cols : Int) (hc : 0 < cols)
    (s0 : VS) (hi : initState file keys rows cols = some s0) (n : Nat) (s s1 s3 : VS) (hn : iterate n s0 = some s)
    (hq : s.ed.xquit = false) (mv nrow noff : Int) (hjk : mv = 106 ∨ mv = 107)
    (hpre : viPre s = Res.ok (mv, nrow, noff) s1) (h : viStep s = Res.ok () s3)
    (body : List Nat) (hv : ∀ c ∈ body, ValidCp c) (h10 : 10 ∉ body) (hne : body ≠ [])
    (hln : lineOf s nrow = some (encStr (body ++ [10]))) :
    let cps := body ++ [10]
    let pos := posTab s3 (encStr cps)
    let off := s3.ed.xoff.toNat
    let w : Int := cellWidth (cps.getD off 0) (pos.getD off 0)
    let col : Int := off2col s3 s3.ed.xrow s3.ed.xoff
    (s3.ed.xquit = false ∧ ColWin s3 ∧ 0 ≤ s3.ed.xleft ∧ s3.xcols = cols) ∧
    (s3.xcol = s.xcol ∧ s3.ed.xrow = nrow ∧ lineOf s3 nrow = some (encStr cps) ∧
      s3.ed.xleft = postLeft s.xcol s.ed.xleft s.xcols) ∧
    (s3.ed.xoff = (off : Int) ∧ off < body.length ∧ col = (pos.getD off 0 : Nat)) ∧
    (∀ i, i < body.length → (pos.getD i 0 : Nat) ≤ s3.xcol →
      s3.xcol < (pos.getD i 0 : Nat) + (cellWidth (cps.getD i 0) (pos.getD i 0) : Int) → off = i) ∧
    (StrictInc pos cps.length → (pos.getD 0 0 : Nat) ≤ s3.xcol →
      col ≤ s3.xcol ∧
      (s3.xcol < (pos.getD body.length 0 : Nat) → s3.xcol < col + w) ∧
      ((pos.getD body.length 0 : Nat) ≤ s3.xcol → off + 1 = body.length ∧ col + w ≤ s3.xcol)) :=
  stepVia_sticky cols hc s s1 s3 mv nrow noff hjk (run_goodT file keys rows cols hc s0 hi n s hn) hq hpre h
    body hv h10 hne hln

/-- the hypotheses are satisfiable: the second command of the run `$`, `j`, `k` on `twoFile` is `j` to
    row 1, the line `short` (`two_j_check`, by the kernel); the theorem then says the sticky column
    is still that of the state before -/
example : ∃ s0 s s3, initState (some twoFile) [36, 106, 107] 24 80 = some s0 ∧ iterate 1 s0 = some s ∧
    viStep s = Res.ok () s3 ∧ s3.xcol = s.xcol ∧ s3.ed.xrow = 1 ∧ ColWin s3 := by
  have e := two_j_check
  have e3 := two_run
  simp only [List.range, List.range.loop, List.map_cons, List.map_nil, List.cons.injEq] at e3
  obtain ⟨_, _, e3, _⟩ := e3
  cases h0 : initState (some twoFile) [36, 106, 107] 24 80 with
  | none => rw [h0] at e; cases e
  | some s0 =>
    rw [h0] at e e3
    simp only [Option.bind_some] at e e3
    cases h1 : iterate 1 s0 with
    | none => rw [h1] at e; cases e
    | some s =>
      rw [h1] at e
      simp only [] at e
      have hst : ∃ s3, viStep s = Res.ok () s3 := by
        have := iterate_snoc 1 s0 s h1
        cases hv : viStep s with
        | ok u s3 => exact ⟨s3, rfl⟩
        | eof => rw [this, hv] at e3; cases e3
        | trap => rw [this, hv] at e3; cases e3
      obtain ⟨s3, hs3⟩ := hst
      cases hp : viPre s with
      | ok r s1 =>
        rw [hp] at e
        simp only [Bool.and_eq_true, decide_eq_true_eq, Bool.not_eq_true'] at e
        obtain ⟨⟨⟨hr1, hr2⟩, hq⟩, hln⟩ := e
        obtain ⟨mv, nrow, noff⟩ := r
        simp only [] at hr1 hr2
        subst hr1; subst hr2
        have t := run_sticky_after_vertical_motion (some twoFile) [36, 106, 107] 24 80 (by decide) s0 h0 1 s s1 s3 h1
          hq 106 1 noff (Or.inl rfl) hp hs3 shortBody (by decide) (by decide) (by decide) hln
        exact ⟨s0, s, s3, rfl, h1, hs3, t.2.1.1, t.2.1.2.1, t.1.2.1⟩
      | eof => rw [hp] at e; cases e
      | trap => rw [hp] at e; cases e

/-- **... and then the cursor is on its character**: `C19f.sticky_cursor_on_character` for the iteration
    of a state of a run.  After `j` / `k`, if the sticky column falls on a cell of a character `i` of the
    body all of whose cells are inside the window: the cursor is on `i`, `ren_cursor(xcol)` is its
    highest visual column, and the rendered row shows `i` both in the cell of the sticky column and
    in the cell of the terminal cursor. -/
theorem run_sticky_cursor_on_character (file : Option Bytes) (keys : Bytes) (rows cols : Int) (hc : 0 < cols)
    (s0 : VS) (hi : initState file keys rows cols = some s0) (n : Nat) (s s1 s3 : VS) (hn : iterate n s0 = some s)
    (hq : s.ed.xquit = false) (mv nrow noff : Int) (hjk : mv = 106 ∨ mv = 107)
    (hpre : viPre s = Res.ok (mv, nrow, noff) s1) (h : viStep s = Res.ok () s3)
    (body : List Nat) (hv : ∀ c ∈ body, ValidCp c) (h10 : 10 ∉ body) (hne : body ≠ [])
    (hln : lineOf s nrow = some (encStr (body ++ [10])))
    (i : Nat) (hib : i < body.length)
    (hp1 : ((posTab s3 (encStr (body ++ [10]))).getD i 0 : Nat) ≤ s3.xcol)
    (hp2 : s3.xcol < ((posTab s3 (encStr (body ++ [10]))).getD i 0 : Nat) +
      (cellWidth ((body ++ [10]).getD i 0) ((posTab s3 (encStr (body ++ [10]))).getD i 0) : Int))
    (hin1 : s3.ed.xleft ≤ ((posTab s3 (encStr (body ++ [10]))).getD i 0 : Nat))
    (hin2 : ((posTab s3 (encStr (body ++ [10]))).getD i 0 : Nat) +
      (cellWidth ((body ++ [10]).getD i 0) ((posTab s3 (encStr (body ++ [10]))).getD i 0) : Int) ≤
        s3.ed.xleft + s3.xcols) :
    s3.ed.xoff = (i : Nat) ∧
    cursorCol s3 = ((posTab s3 (encStr (body ++ [10]))).getD i 0 : Nat) +
      (cellWidth ((body ++ [10]).getD i 0) ((posTab s3 (encStr (body ++ [10]))).getD i 0) : Int) - 1 ∧
    0 ≤ colCell s3 ∧ colCell s3 < s3.xcols ∧ rowShows s3 (encStr (body ++ [10])) (colCell s3).toNat = some i ∧
    0 ≤ termCursor s3 ∧ termCursor s3 < s3.xcols ∧
    rowShows s3 (encStr (body ++ [10])) (termCursor s3).toNat = some i :=
  stepVia_sticky_cursor cols hc s s1 s3 mv nrow noff hjk (run_goodT file keys rows cols hc s0 hi n s hn) hq hpre h
    body hv h10 hne hln i hib hp1 hp2 hin1 hin2

/-- the hypotheses are satisfiable: the run `l`, `l`, `l`, `j` on `twoFile` — the fourth command is `j` from
    column 3 (`near_check`, by the kernel: the hypotheses about the final state hold with `i = 3`);
    the theorem puts the cursor on the `r` of `short` and shows it in the cursor cell -/
example : ∃ s0 s s3, initState (some twoFile) [108, 108, 108, 106] 24 80 = some s0 ∧ iterate 3 s0 = some s ∧
    viStep s = Res.ok () s3 ∧ s3.ed.xoff = 3 ∧
    rowShows s3 (encStr (shortBody ++ [10])) (termCursor s3).toNat = some 3 := by
  have e := near_check
  cases h0 : initState (some twoFile) [108, 108, 108, 106] 24 80 with
  | none => rw [h0] at e; cases e
  | some s0 =>
    rw [h0] at e
    simp only [Option.bind_some] at e
    cases h1 : iterate 3 s0 with
    | none => rw [h1] at e; cases e
    | some s =>
      rw [h1] at e
      simp only [] at e
      cases hp : viPre s with
      | ok r s1 =>
        cases hv : viStep s with
        | ok u s3 =>
          rw [hp, hv] at e
          simp only [Bool.and_eq_true, decide_eq_true_eq, Bool.not_eq_true'] at e
          obtain ⟨⟨⟨⟨hr1, hr2⟩, hq⟩, hln⟩, ⟨⟨⟨⟨e1, e2⟩, e3⟩, e4⟩, _⟩⟩ := e
          obtain ⟨mv, nrow, noff⟩ := r
          simp only [] at hr1 hr2
          subst hr1; subst hr2
          have t := run_sticky_cursor_on_character (some twoFile) [108, 108, 108, 106] 24 80 (by decide) s0 h0 3 s s1 s3
            h1 hq 106 1 noff (Or.inl rfl) hp hv shortBody (by decide) (by decide) (by decide) hln 3 (by decide)
            e1 e2 e3 e4
          exact ⟨s0, s, s3, rfl, h1, hv, t.1, t.2.2.2.2.2.2.2⟩
        | eof => rw [hp, hv] at e; simp at e
        | trap => rw [hp, hv] at e; simp at e
      | eof => rw [hp] at e; simp at e
      | trap => rw [hp] at e; simp at e

/-! ## 6. before the first command -/

/-- **The first command boundary.**  `vi()` sets `xoff = 0`, `xcol = vi_off2col(xrow, 0)` and puts the
    terminal cursor on `vi_pos(xcol)` (vi.c:1518–1522) without adjusting `xleft` (which `ex_init` left 0)
    and without `ren_cursor`: in the state `vi()` starts in
    * `xleft = 0`, `xoff = 0`, the window is `cols` wide, `0 ≤ xcol = vi_off2col(xrow, xoff)`;
    * the column window holds iff `xcol < cols`;
    * the cell of the terminal cursor, `vi_pos(xcol)`, is `xcol` in a left-to-right context and
      `cols - 1 - xcol` in a right-to-left one;
    * `xcol = 0` when there is no cursor line (an empty buffer). -/
theorem first_boundary (file : Option Bytes) (keys : Bytes) (rows cols : Int) (s0 : VS)
    (hi : initState file keys rows cols = some s0) :
    s0.ed.xleft = 0 ∧ s0.ed.xoff = 0 ∧ s0.xcols = cols ∧ s0.xcol = off2col s0 s0.ed.xrow s0.ed.xoff ∧ 0 ≤ s0.xcol ∧
    (ColWin s0 ↔ s0.xcol < cols) ∧
    (0 ≤ curCtx s0 → colCell s0 = s0.xcol) ∧ (curCtx s0 < 0 → colCell s0 = cols - s0.xcol - 1) ∧
    (lineOf s0 s0.ed.xrow = none → s0.xcol = 0) :=
  Lemmas.C19g.first_boundary file keys rows cols s0 hi

/-- **What the first screen shows under the cursor.**  When the cursor line of the state `vi()` starts
    in is `body ++ "\n"` (valid code points, non-empty body), with `w` the cell width of its first
    character: `xcol` is that character's lowest visual column, `ren_cursor(xcol) = xcol + w - 1`, and
    if all its cells are inside the window (`xcol + w ≤ cols`) the rendered row shows it both in the
    cell `vi_pos(xcol)` the terminal cursor is *first* put on and in the cell `vi_pos(ren_cursor(xcol))`
    it is put on after every command; the two are `w - 1` cells apart. -/
theorem first_boundary_shows (file : Option Bytes) (keys : Bytes) (rows cols : Int) (hc : 0 < cols) (s0 : VS)
    (hi : initState file keys rows cols = some s0)
    (body : List Nat) (hv : ∀ c ∈ body, ValidCp c) (h10 : 10 ∉ body) (hne : body ≠ [])
    (hln : lineOf s0 s0.ed.xrow = some (encStr (body ++ [10]))) :
    let cps := body ++ [10]
    let pos := posTab s0 (encStr cps)
    let w : Int := cellWidth (cps.getD 0 0) (pos.getD 0 0)
    s0.xcol = (pos.getD 0 0 : Nat) ∧ 1 ≤ w ∧ cursorCol s0 = s0.xcol + w - 1 ∧
    (s0.xcol + w ≤ cols →
      0 ≤ colCell s0 ∧ colCell s0 < cols ∧ rowShows s0 (encStr cps) (colCell s0).toNat = some 0 ∧
      0 ≤ termCursor s0 ∧ termCursor s0 < cols ∧ rowShows s0 (encStr cps) (termCursor s0).toNat = some 0 ∧
      (0 ≤ curCtx s0 → termCursor s0 = colCell s0 + (w - 1)) ∧
      (curCtx s0 < 0 → termCursor s0 = colCell s0 - (w - 1))) :=
  Lemmas.C19g.first_boundary_shows file keys rows cols hc s0 hi body hv h10 hne hln

/-- the hypotheses are satisfiable: `"\tabc\n"` (`tab_line_check`); the theorem says the first character,
    the tab, starts in the sticky column and `ren_cursor` is `w - 1` columns further -/
example : ∃ s0, initState (some [9, 97, 98, 99, 10]) [48] 24 80 = some s0 ∧
    cursorCol s0 = s0.xcol + (cellWidth 9 ((posTab s0 (encStr ([9, 97, 98, 99] ++ [10]))).getD 0 0) : Int) - 1 := by
  have e := tab_line_check
  cases h0 : initState (some [9, 97, 98, 99, 10]) [48] 24 80 with
  | none => rw [h0] at e; cases e
  | some s0 =>
    rw [h0] at e
    simp only [decide_eq_true_eq] at e
    have t := first_boundary_shows (some [9, 97, 98, 99, 10]) [48] 24 80 (by decide) s0 h0 [9, 97, 98, 99]
      (by decide) (by decide) (by decide) e
    exact ⟨s0, rfl, t.2.2.1⟩

/-- CONJECTURE (false): the terminal cursor is first put where it is put after every command, on
    `vi_pos(ren_cursor(xcol))` -/
def first_cursor_is_command_cursor : Prop :=
  ∀ (file : Option Bytes) (keys : Bytes) (rows cols : Int) (s0 : VS),
    initState file keys rows cols = some s0 → colCell s0 = termCursor s0

/-- **finding (new, cosmetic): the first cursor position is the first cell of a wide first
    character.**  On the file `"\tabc\n"` (80 columns) `vi()` starts with `xcol = 0`; the tab takes
    columns 0–7 and `ren_cursor(0) = 7`.  Before the first command the terminal cursor is put on
    `vi_pos(0)`, cell 0 (vi.c:1522 does not call `ren_cursor`); after the command `0`, which changes
    nothing (`tab_init_check`: the same `xcol`, `xoff`, `xleft`, `ren_cursor`), it is put on
    `vi_pos(ren_cursor(0))`, cell 7 (vi.c:1889) — 7 cells away.  Observed on `/repo/vi` in a pty:
    `ESC[1;1H` at the start, `ESC[1;8H` after `0`. -/
theorem first_cursor_cell_finding : ¬ first_cursor_is_command_cursor := Lemmas.C19g.first_cursor_cell_finding

/-- the same state in the model's terms (`view`: `[xrow, xoff, xcol, xleft, ren_cursor(xcol),
    vi_pos(ren_cursor(xcol)), vi_pos(xcol)]`), with `td = 0` so that the kernel decides the context of the
    line without the regex engine: at the start and after `0` the view is `[0, 0, 0, 0, 7, 7, 0]` -/
theorem first_cursor_cell_view :
    view tabInit = [0, 0, 0, 0, 7, 7, 0] ∧ viewAfter 1 tabInit = some [0, 0, 0, 0, 7, 7, 0] := tabInit_views

end Neatvi.Props.C19g
