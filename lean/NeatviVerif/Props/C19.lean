import NeatviVerif.Lemmas.C19Fix
/-!
# C19: the text rows of the terminal show the window of the buffer a full repaint would draw

Everything is stated on the model `Model/Screen.lean`; "faithful" means `s = repaint ls xtop xleft rows`.

* `drawAgain_repaint`, `drawAgain_row`: `vi_drawagain`;
* `drawUpdate_repaint`: scrolling a faithful screen by `term_room` and drawing the exposed rows gives the
  faithful screen of the new top line, for all pairs of top lines and all window heights;
* `drawFix_repaint` (and `_of_shift`, `_delete`, `_insert`): the partial redraw after an edit is faithful,
  wherever the replaced range lies; `drawFixOld_repaint`: the routine before the repair was faithful only
  under `fixOk`; `drawFixOld_stale_counterexample`, `drawFixOld_then_scroll_counterexample`: it was NOT when
  the range starts above the window, has more than one line, does not shrink and does not reach the bottom
  of the window (`g~k`, `>k`, `<k` on the top row);
* `drawFix_preview`, `drawFix_preview_repaint`: the preview of `c` shows the collapsed buffer from `min xtop r1`;
* `epilogue_repaint_*`: the redraw decision at the end of a command; `drawFix_epilogue_repaint`: a whole
  `VC_OK` command;
* `drawUpdate_ops`, `drawAgain_ops`: the logged primitive operations replay to the same screens.
-/
namespace Neatvi.Props.C19
open Neatvi Neatvi.Mot Neatvi.Screen Neatvi.Lemmas.C19

/-! ### 1. basic algebra -/

theorem room_length (s : Scr) (r n : Int) : (room s r n).length = s.length :=
  Neatvi.Lemmas.C19.room_length s r n

theorem drawRow_length (s : Scr) (ls : Lines) (xtop xleft i : Int) :
    (drawRow s ls xtop xleft i).length = s.length :=
  Neatvi.Lemmas.C19.drawRow_length s ls xtop xleft i

theorem repaint_length (ls : Lines) (top left : Int) (rows : Nat) : (repaint ls top left rows).length = rows :=
  Neatvi.Lemmas.C19.repaint_length ls top left rows

theorem drawRows_length (s : Scr) (ls : Lines) (xtop xleft : Int) (is : List Int) :
    (drawRows s ls xtop xleft is).length = s.length :=
  Neatvi.Lemmas.C19.drawRows_length s ls xtop xleft is

theorem repaint_getElem (ls : Lines) (top left : Int) (rows k : Nat) (h : k < rows) :
    (repaint ls top left rows)[k]? = some (some (img ls left (top + (k : Int)))) :=
  Neatvi.Lemmas.C19.repaint_getElem ls top left rows k h

/-! ### 2. `vi_drawagain` -/

/-- `vi_drawagain(xcol, -1)` is the full repaint, whatever the screen showed -/
theorem drawAgain_repaint (s : Scr) (ls : Lines) (xtop xleft : Int) :
    drawAgain s ls xtop xleft (-1) = repaint ls xtop xleft s.length := by
  rw [eq_repaint_iff]
  refine ⟨drawAgain_length .., fun k hk => ?_⟩
  rw [drawAgain_getElem?, if_pos ⟨hk, Or.inl (by omega)⟩]

/-- any negative row means "all rows" -/
theorem drawAgain_neg (s : Scr) (ls : Lines) (xtop xleft row : Int) (h : row < 0) :
    drawAgain s ls xtop xleft row = repaint ls xtop xleft s.length := by
  rw [eq_repaint_iff]
  refine ⟨drawAgain_length .., fun k hk => ?_⟩
  rw [drawAgain_getElem?, if_pos ⟨hk, Or.inl h⟩]

/-- `vi_drawagain(xcol, row)` for a row of the window: that text row is redrawn, nothing else changes;
    for a row outside the window nothing changes -/
theorem drawAgain_row (s : Scr) (ls : Lines) (xtop xleft row : Int) (h0 : 0 ≤ row) :
    drawAgain s ls xtop xleft row =
      if xtop ≤ row ∧ row < xtop + (s.length : Int) then s.set (row - xtop).toNat (some (img ls xleft row))
      else s := by
  apply List.ext_getElem?
  intro k
  rw [drawAgain_getElem?]
  by_cases hw : xtop ≤ row ∧ row < xtop + (s.length : Int)
  · rw [if_pos hw, List.getElem?_set]
    by_cases hk : (row - xtop).toNat = k
    · have hc : k < s.length ∧ (row < 0 ∨ xtop + (k : Int) = row) := ⟨by omega, Or.inr (by omega)⟩
      rw [if_pos hc, if_pos hk, if_pos (by omega)]
      congr 3; omega
    · rw [if_neg hk, if_neg (by omega)]
  · rw [if_neg hw, if_neg (by omega)]

/-! ### 3. `vi_drawupdate`: scrolling -/

/-- scrolling by insert/delete-line and drawing only the exposed rows gives the full repaint of the
    new window, for every pair of old and new top lines -/
theorem drawUpdate_repaint (ls : Lines) (otop xtop xleft : Int) (rows : Nat) :
    drawUpdate (repaint ls otop xleft rows) ls otop xtop xleft = repaint ls xtop xleft rows := by
  rw [eq_repaint_iff]
  refine ⟨by rw [drawUpdate_length, Neatvi.Lemmas.C19.repaint_length], fun k hk => ?_⟩
  unfold drawUpdate
  simp only [Neatvi.Lemmas.C19.repaint_length]
  split
  · rename_i h
    rw [beq_iff_eq] at h
    rw [h, Neatvi.Lemmas.C19.repaint_getElem _ _ _ _ _ hk]
  · rename_i h
    rw [beq_iff_eq] at h
    split
    · rename_i h2
      rw [drawRows_getElem?, Neatvi.Lemmas.C19.room_length, Neatvi.Lemmas.C19.repaint_length]
      split
      · rfl
      · rename_i h3
        rw [mem_rangeMap] at h3
        have := room_del_getElem? (repaint ls otop xleft rows) 0 (otop - xtop)
          (by rw [Neatvi.Lemmas.C19.repaint_length]; omega) (by omega) k
        rw [show ((0 : Nat) : Int) = 0 from rfl] at this
        rw [this, Neatvi.Lemmas.C19.repaint_length, if_neg (by omega), if_pos (by omega),
          Neatvi.Lemmas.C19.repaint_getElem _ _ _ _ _ (by omega)]
        congr 3; omega
    · rename_i h2
      rw [drawRows_getElem?, Neatvi.Lemmas.C19.room_length, Neatvi.Lemmas.C19.repaint_length]
      split
      · rfl
      · rename_i h3
        rw [mem_rangeMap] at h3
        have := room_ins_getElem? (repaint ls otop xleft rows) 0 (otop - xtop)
          (by rw [Neatvi.Lemmas.C19.repaint_length]; omega) (by omega) k
        rw [show ((0 : Nat) : Int) = 0 from rfl] at this
        rw [this, Neatvi.Lemmas.C19.repaint_length, if_neg (by omega), if_neg (by omega), if_pos (by omega),
          Neatvi.Lemmas.C19.repaint_getElem _ _ _ _ _ (by omega)]
        congr 3; omega

/-- the same with the old screen as a hypothesis -/
theorem drawUpdate_repaint' (s : Scr) (ls : Lines) (otop xtop xleft : Int) (rows : Nat)
    (hs : s = repaint ls otop xleft rows) :
    drawUpdate s ls otop xtop xleft = repaint ls xtop xleft rows := by
  subst hs; exact drawUpdate_repaint ..

/-! ### 4. `vi_drawfix`: partial redraw after an edit -/

/-- the buffer after lines `r1..r2` were replaced by `mid` -/
def splice (old mid : Lines) (r1 r2 : Nat) : Lines := old.take r1 ++ mid ++ old.drop (r2 + 1)

/-- the repaired routine is the previous one (`drawFixOld`, in `Lemmas/C19Fix.lean`) behind the guard
    "the range starts above the window: draw every row" -/
theorem drawFix_eq_old (s : Scr) (ls : Lines) (xtop xleft r1 r2 n : Int) (p : Bool) :
    drawFix s ls xtop xleft r1 r2 n p =
      if r1 < (if p && r1 < xtop then r1 else xtop) then
        (repaint ls (if p && r1 < xtop then r1 else xtop) xleft s.length, if p && r1 < xtop then r1 else xtop)
      else drawFixOld s ls xtop xleft r1 r2 n p := by
  rw [drawFix_eq, drawRows_all]

/-- abstract form: `new` agrees with `old` above `r1` and, from `r1 + n` on, up to the displacement
    `n - (r2 - r1 + 1)`; the `n` lines in between are arbitrary.  No hypothesis on where the window is. -/
theorem drawFix_repaint_of_shift (old new : Lines) (xtop xleft r1 r2 n : Int) (rows : Nat)
    (h12 : r1 ≤ r2) (hn : 0 ≤ n)
    (hlo : ∀ i, i < r1 → lineAt new i = lineAt old i)
    (hhi : ∀ i, r1 + n ≤ i → lineAt new i = lineAt old (i - (n - (r2 - r1 + 1)))) :
    drawFix (repaint old xtop xleft rows) new xtop xleft r1 r2 n false = (repaint new xtop xleft rows, xtop) :=
  Neatvi.Lemmas.C19.drawFix_repaint_of_shift old new xtop xleft r1 r2 n rows h12 hn hlo hhi

/-- the partial-redraw theorem: after `lbuf_edit` replaced lines `r1..r2` by the `n` lines `mid`,
    `vi_drawfix(r1, r2, n, 0)` turns the repaint of the old buffer into the repaint of the new one and
    leaves `xtop` alone — wherever the range lies relative to the window (above, across the top, inside,
    across the bottom, below), for `mid` empty (`n = 0`), for `r2` beyond the last line, for zero rows. -/
theorem drawFix_repaint (old mid : Lines) (xtop xleft : Int) (rows r1 r2 : Nat)
    (h12 : r1 ≤ r2) (hr : r1 ≤ old.length) :
    drawFix (repaint old xtop xleft rows) (splice old mid r1 r2) xtop xleft r1 r2 mid.length false =
      (repaint (splice old mid r1 r2) xtop xleft rows, xtop) := by
  apply drawFix_repaint_of_shift
  · omega
  · omega
  · intro i hi; exact lineAt_splice_lo old mid r1 (r2 + 1) hr i hi
  · intro i hi
    unfold splice
    rw [lineAt_splice_hi old mid r1 (r2 + 1) hr i hi]
    congr 1; omega

/-- the range starts inside or below the window -/
theorem drawFix_repaint_window (old mid : Lines) (xtop xleft : Int) (rows r1 r2 : Nat)
    (h12 : r1 ≤ r2) (hr : r1 ≤ old.length) (_htop : xtop ≤ (r1 : Int)) :
    drawFix (repaint old xtop xleft rows) (splice old mid r1 r2) xtop xleft r1 r2 mid.length false =
      (repaint (splice old mid r1 r2) xtop xleft rows, xtop) :=
  drawFix_repaint old mid xtop xleft rows r1 r2 h12 hr

/-- fewer lines than before (`dd`, `dk`, `J`, `n = 0`) -/
theorem drawFix_repaint_shrink (old mid : Lines) (xtop xleft : Int) (rows r1 r2 : Nat)
    (h12 : r1 ≤ r2) (hr : r1 ≤ old.length) (_hdis : mid.length < r2 - r1 + 1) :
    drawFix (repaint old xtop xleft rows) (splice old mid r1 r2) xtop xleft r1 r2 mid.length false =
      (repaint (splice old mid r1 r2) xtop xleft rows, xtop) :=
  drawFix_repaint old mid xtop xleft rows r1 r2 h12 hr

/-- pure deletion of the lines `r1..r2` (`dd`, `dk`, `dj`) -/
theorem drawFix_repaint_delete (old : Lines) (xtop xleft : Int) (rows r1 r2 : Nat)
    (h12 : r1 ≤ r2) (hr : r1 ≤ old.length) :
    drawFix (repaint old xtop xleft rows) (old.take r1 ++ old.drop (r2 + 1)) xtop xleft r1 r2 0 false =
      (repaint (old.take r1 ++ old.drop (r2 + 1)) xtop xleft rows, xtop) := by
  have := drawFix_repaint old [] xtop xleft rows r1 r2 h12 hr
  simpa [splice] using this

/-- the usage of `P`, `p`: `ins` was inserted before line `r` (`lbuf_edit(xb, ins, r, r)`) and the
    caller passes `r1 = r2 = r`, `n = ins.length + 1` ("the line `r` became `n` lines"; `linecount` of a
    text of `k` lines is `k + 1`); `r` may be `old.length` (`p` on the last line) -/
theorem drawFix_repaint_insert (old ins : Lines) (xtop xleft : Int) (rows r : Nat)
    (hr : r ≤ old.length) :
    drawFix (repaint old xtop xleft rows) (old.take r ++ ins ++ old.drop r) xtop xleft r r
        ((ins.length : Int) + 1) false =
      (repaint (old.take r ++ ins ++ old.drop r) xtop xleft rows, xtop) := by
  apply drawFix_repaint_of_shift
  · omega
  · omega
  · intro i hi; exact lineAt_splice_lo old ins r r hr i hi
  · intro i hi
    rw [lineAt_splice_hi old ins r r hr i (by omega)]
    congr 1; omega

/-! #### the routine before the repair -/

/-- when the old `vi_drawfix(r1, r2, n, 0)` was right: the range starts in or below the window, or lines
    are lost, or it is a single line, or the new lines fill the window, or the range extends below it -/
def fixOk (xtop : Int) (rows r1 r2 n : Nat) : Prop :=
  xtop ≤ (r1 : Int) ∨ n < r2 - r1 + 1 ∨ r1 = r2 ∨ rows ≤ n ∨ xtop + (rows : Int) ≤ (r2 : Int)

theorem drawFixOld_repaint (old mid : Lines) (xtop xleft : Int) (rows r1 r2 : Nat)
    (h12 : r1 ≤ r2) (hr : r1 ≤ old.length) (hwin : fixOk xtop rows r1 r2 mid.length) :
    drawFixOld (repaint old xtop xleft rows) (splice old mid r1 r2) xtop xleft r1 r2 mid.length false =
      (repaint (splice old mid r1 r2) xtop xleft rows, xtop) := by
  apply Prod.ext
  · apply drawFixOld_repaint_of_shift
    · omega
    · omega
    · intro i hi; exact lineAt_splice_lo old mid r1 (r2 + 1) hr i hi
    · intro i hi
      unfold splice
      rw [lineAt_splice_hi old mid r1 (r2 + 1) hr i hi]
      congr 1; omega
    · unfold fixOk at hwin; omega
  · rfl

/-- DEFECT of the old `vi_drawfix`: a range that starts above the window and does not lose lines.
    Window: 3 rows, top line 1; lines 0..1 are replaced by 2 lines (`g~k`, `>k`, `<k` with the cursor on
    the top row of the window).  `r1` is clamped to `xtop` but the `n` new lines are all counted as
    visible: `term_room(1)` although `dis = 0`; rows 0..1 are drawn, row 2 keeps showing line 2 where
    line 3 belongs.  The repaired routine gives the repaint. -/
theorem drawFixOld_stale_counterexample :
    let old : Lines := [[0], [1], [2], [3], [4]]
    let mid : Lines := [[10], [11]]
    splice old mid 0 1 = [[10], [11], [2], [3], [4]] ∧
    (drawFixOld (repaint old 1 0 3) (splice old mid 0 1) 1 0 0 1 2 false).1 =
      [some (some [11], 0), some (some [2], 0), some (some [2], 0)] ∧
    repaint (splice old mid 0 1) 1 0 3 = [some (some [11], 0), some (some [2], 0), some (some [3], 0)] ∧
    (drawFix (repaint old 1 0 3) (splice old mid 0 1) 1 0 0 1 2 false).1 = repaint (splice old mid 0 1) 1 0 3 := by
  decide

/-- the same defect seen through a whole command: `>k` on the top row of a 4-row window at line 1 leaves
    the cursor on line 0, so that the epilogue scrolls (`vi_drawupdate(1)` with `xtop = 0`); the stale row
    survives: the bottom row shows line 2 twice where line 3 belongs -/
theorem drawFixOld_then_scroll_counterexample :
    let old : Lines := [[0], [1], [2], [3], [4], [5]]
    let new : Lines := splice old [[10], [11]] 0 1
    drawUpdate (drawFixOld (repaint old 1 0 4) new 1 0 0 1 2 false).1 new 1 0 0 =
      [some (some [10], 0), some (some [11], 0), some (some [2], 0), some (some [2], 0)] ∧
    repaint new 0 0 4 = [some (some [10], 0), some (some [11], 0), some (some [2], 0), some (some [3], 0)] := by
  decide

theorem drawFixOld_above_counterexample :
    let old : Lines := [[0], [1], [2], [3], [4]]
    (drawFixOld (repaint old 1 0 3) (splice old [[10], [11]] 0 1) 1 0 0 1 2 false).1 ≠
      repaint (splice old [[10], [11]] 0 1) 1 0 3 := by
  decide

/-- what the old routine was meant to satisfy: the statement that fails -/
def drawFixOld_repaint_full : Prop :=
  ∀ (old mid : Lines) (xtop xleft : Int) (rows r1 r2 : Nat), r1 ≤ r2 → r2 < old.length →
    drawFixOld (repaint old xtop xleft rows) (splice old mid r1 r2) xtop xleft r1 r2 mid.length false =
      (repaint (splice old mid r1 r2) xtop xleft rows, xtop)

theorem drawFixOld_repaint_full_false : ¬ drawFixOld_repaint_full := by
  intro h
  have := h [[0], [1], [2], [3], [4]] [[10], [11]] 1 0 3 0 1 (by decide) (by decide)
  revert this
  decide

/-! #### the preview of `c` -/

/-- `vi_drawfix(r1, r2, n, 1)` (the buffer is not yet changed): `xtop` becomes `min xtop r1`; the rows of
    lines up to `r1 + n - 1` show these lines and the rows below show the lines `-dis` further down, as
    if lines `r1 + n .. r2` were already deleted.  The call in `vi_change` has `n = 1` and
    `r1 ≤ xrow ≤ r2` with `xrow` visible, so that the hypotheses hold. -/
theorem drawFix_preview (ls : Lines) (xtop xleft r1 r2 n : Int) (rows : Nat)
    (h12 : r1 ≤ r2) (hn : 0 ≤ n) (hvis : r1 < xtop + (rows : Int))
    (hwin : xtop ≤ r1 ∨ n < r2 - r1 + 1 ∨ (rows : Int) ≤ n) :
    (drawFix (repaint ls xtop xleft rows) ls xtop xleft r1 r2 n true).2 = min xtop r1 ∧
    (drawFix (repaint ls xtop xleft rows) ls xtop xleft r1 r2 n true).1.length = rows ∧
    ∀ k, k < rows →
      (drawFix (repaint ls xtop xleft rows) ls xtop xleft r1 r2 n true).1[k]? =
        some (some (img ls xleft
          (if min xtop r1 + (k : Int) < r1 + n then min xtop r1 + (k : Int)
           else min xtop r1 + (k : Int) - (n - (r2 - r1 + 1))))) := by
  refine ⟨?_, by rw [drawFix_length, Neatvi.Lemmas.C19.repaint_length], fun k hk =>
    drawFix_preview_getElem? ls xtop xleft r1 r2 n rows h12 hn hvis hwin k hk⟩
  rw [drawFix_snd]
  simp only [Bool.true_and, decide_eq_true_eq]
  split <;> omega

/-- the preview is the repaint of the collapsed buffer (lines `r1 + n .. r2` removed) from the new top -/
theorem drawFix_preview_repaint (ls : Lines) (xtop xleft : Int) (rows r1 r2 n : Nat)
    (h12 : r1 ≤ r2) (hlen : r1 + n ≤ ls.length) (hvis : (r1 : Int) < xtop + (rows : Int))
    (hwin : xtop ≤ (r1 : Int) ∨ n < r2 - r1 + 1 ∨ rows ≤ n) :
    drawFix (repaint ls xtop xleft rows) ls xtop xleft r1 r2 n true =
      (repaint (ls.take (r1 + n) ++ ls.drop (r2 + 1)) (min xtop r1) xleft rows, min xtop r1) := by
  obtain ⟨h2, hl, hk⟩ := drawFix_preview ls xtop xleft r1 r2 n rows (by omega) (by omega) hvis (by omega)
  apply Prod.ext
  · rw [eq_repaint_iff]
    refine ⟨hl, fun k hk' => ?_⟩
    rw [hk k hk']
    have hs := lineAt_splice_lo ls [] (r1 + n) (r2 + 1) hlen
    have hh := lineAt_splice_hi ls [] (r1 + n) (r2 + 1) hlen
    simp only [List.append_nil, List.length_nil] at hs hh
    split
    · exact (img_congr xleft (hs _ (by omega))).symm
    · refine (img_congr xleft ?_).symm
      rw [hh _ (by omega)]
      congr 1; omega
  · exact h2

/-- the case of `c`: one line stays -/
theorem drawFix_preview_change (ls : Lines) (xtop xleft : Int) (rows r1 r2 : Nat)
    (h12 : r1 ≤ r2) (hlen : r1 < ls.length) (hvis : (r1 : Int) < xtop + (rows : Int))
    (hwin : xtop ≤ (r1 : Int) ∨ r1 < r2) :
    drawFix (repaint ls xtop xleft rows) ls xtop xleft r1 r2 1 true =
      (repaint (ls.take (r1 + 1) ++ ls.drop (r2 + 1)) (min xtop r1) xleft rows, min xtop r1) :=
  drawFix_preview_repaint ls xtop xleft rows r1 r2 1 h12 (by omega) hvis (by omega)

/-- `drawFixOld_repaint_full` fails -/
theorem drawFixOld_repaint_counterexample : ¬ drawFixOld_repaint_full := drawFixOld_repaint_full_false

/-- without `hwin` the preview is wrong, before and after the repair (the guard never fires in preview
    mode, `drawFix_preview_eq`); it cannot arise from `vi_change`, where the cursor line is visible and
    inside `r1..r2`: one line above the window, nothing scrolls, only row 0 is drawn -/
theorem drawFixOld_preview_counterexample :
    let ls : Lines := [[0], [1], [2], [3], [4]]
    (drawFixOld (repaint ls 1 0 3) ls 1 0 0 0 1 true) =
      ([some (some [0], 0), some (some [2], 0), some (some [3], 0)], 0) ∧
    repaint ls 0 0 3 = [some (some [0], 0), some (some [1], 0), some (some [2], 0)] := by
  decide

theorem drawFix_preview_counterexample :
    let ls : Lines := [[0], [1], [2], [3], [4]]
    (drawFix (repaint ls 1 0 3) ls 1 0 0 0 1 true) =
      ([some (some [0], 0), some (some [2], 0), some (some [3], 0)], 0) ∧
    repaint ls 0 0 3 = [some (some [0], 0), some (some [1], 0), some (some [2], 0)] := by
  decide

/-! ### 5. the redraw decision at the end of a command -/

/-- (a) a window redraw (`VC_WIN` without `VC_ROW`) is the full repaint, whatever the screen showed -/
theorem epilogue_repaint_win (s : Scr) (ls : Lines) (otop oleft orow xtop xleft xrow : Int) :
    epilogue s ls true false otop oleft orow xtop xleft xrow = repaint ls xtop xleft s.length := by
  unfold epilogue
  simp only [Bool.true_or, Bool.false_and, if_true, Bool.false_eq_true, if_false]
  exact drawAgain_repaint ..

/-- (b) nothing but the position changed: scrolling from a faithful screen gives a faithful screen -/
theorem epilogue_repaint_scroll (ls : Lines) (otop oleft orow xtop xrow : Int) (rows : Nat) :
    epilogue (repaint ls otop oleft rows) ls false false otop oleft orow xtop oleft xrow =
      repaint ls xtop oleft rows := by
  unfold epilogue
  have h1 : (false || oleft != oleft) = false := by simp
  rw [h1]
  simp only [Bool.false_eq_true, if_false]
  split
  · exact drawUpdate_repaint ..
  · rename_i h
    simp only [bne_iff_ne, ne_eq, Decidable.not_not] at h
    rw [h]

/-- (b) with `modRow` arbitrary: it is only looked at under `modRowOrWin` -/
theorem epilogue_repaint_scroll' (s : Scr) (ls : Lines) (modRow : Bool) (otop oleft orow xtop xleft xrow : Int)
    (rows : Nat) (hl : xleft = oleft) (hs : s = repaint ls otop oleft rows) :
    epilogue s ls false modRow otop oleft orow xtop xleft xrow = repaint ls xtop xleft rows := by
  subst hl hs
  have := epilogue_repaint_scroll ls otop xleft orow xtop xrow rows
  unfold epilogue at this ⊢
  have h1 : (false || xleft != xleft) = false := by simp
  rw [h1] at this ⊢
  exact this

/-- (c) a horizontal scroll is a full repaint -/
theorem epilogue_repaint_left (s : Scr) (ls : Lines) (m1 m2 : Bool) (otop oleft orow xtop xleft xrow : Int)
    (hl : xleft ≠ oleft) :
    epilogue s ls m1 m2 otop oleft orow xtop xleft xrow = repaint ls xtop xleft s.length := by
  unfold epilogue
  have h1 : (xleft != oleft) = true := by simpa using hl
  have h2 : (xleft == oleft) = false := by simpa using hl
  simp only [h1, h2, Bool.or_true, if_true, Bool.and_false, Bool.false_and, Bool.false_eq_true, if_false]
  exact drawAgain_repaint ..

/-- (d) line-only update (`VC_ROW`, same `xtop` and `xleft`): the rows of the new and of the old cursor
    line are redrawn; if the buffer changed in these two lines only, the screen is faithful again -/
theorem epilogue_repaint_row (old new : Lines) (m1 : Bool) (xtop xleft orow xrow : Int) (rows : Nat)
    (hm : m1 = true)
    (hsame : ∀ i, i ≠ xrow → i ≠ orow → lineAt new i = lineAt old i) :
    epilogue (repaint old xtop xleft rows) new m1 true xtop xleft orow xtop xleft xrow =
      repaint new xtop xleft rows := by
  subst hm
  unfold epilogue
  simp only [Bool.true_or, if_true, Bool.true_and, beq_self_eq_true, Bool.and_self]
  rw [eq_repaint_iff]
  have key : ∀ k, k < rows → (drawAgain (repaint old xtop xleft rows) new xtop xleft xrow)[k]? =
      if xrow < 0 ∨ xtop + (k : Int) = xrow then some (some (img new xleft (xtop + (k : Int))))
      else some (some (img old xleft (xtop + (k : Int)))) := by
    intro k hk
    rw [drawAgain_getElem?, Neatvi.Lemmas.C19.repaint_length, Neatvi.Lemmas.C19.repaint_getElem _ _ _ _ _ hk]
    by_cases h : xrow < 0 ∨ xtop + (k : Int) = xrow
    · rw [if_pos ⟨hk, h⟩, if_pos h]
    · rw [if_neg (fun hh => h hh.2), if_neg h]
  split
  · rename_i hne
    simp only [bne_iff_ne, ne_eq] at hne
    refine ⟨by rw [drawAgain_length, drawAgain_length, Neatvi.Lemmas.C19.repaint_length], fun k hk => ?_⟩
    rw [drawAgain_getElem?, drawAgain_length, Neatvi.Lemmas.C19.repaint_length]
    by_cases h : orow < 0 ∨ xtop + (k : Int) = orow
    · rw [if_pos ⟨hk, h⟩]
    · rw [if_neg (fun hh => h hh.2), key k hk]
      split
      · rfl
      · exact (img_congr xleft (hsame _ (by omega) (by omega))).symm
  · rename_i heq
    simp only [bne_iff_ne, ne_eq, Decidable.not_not] at heq
    refine ⟨by rw [drawAgain_length, Neatvi.Lemmas.C19.repaint_length], fun k hk => ?_⟩
    rw [key k hk]
    split
    · rfl
    · exact (img_congr xleft (hsame _ (by omega) (by omega))).symm

/-- a whole editing command that reports `VC_OK`: `vi_drawfix` and then the epilogue with
    `otop` := the `xtop` of the time of the fix, whatever `vi_wfix` chose as the new `xtop` -/
theorem drawFix_epilogue_repaint (old mid : Lines) (xtop xtop' xleft orow xrow : Int) (rows r1 r2 : Nat)
    (h12 : r1 ≤ r2) (hr : r1 ≤ old.length) :
    epilogue (drawFix (repaint old xtop xleft rows) (splice old mid r1 r2) xtop xleft r1 r2 mid.length false).1
        (splice old mid r1 r2) false false
        (drawFix (repaint old xtop xleft rows) (splice old mid r1 r2) xtop xleft r1 r2 mid.length false).2
        xleft orow xtop' xleft xrow =
      repaint (splice old mid r1 r2) xtop' xleft rows := by
  rw [drawFix_repaint old mid xtop xleft rows r1 r2 h12 hr]
  exact epilogue_repaint_scroll ..

/-! ### 6. the logged primitive operations describe the same updates -/

/-- the effect of one logged operation on the abstract terminal -/
def applyOp (ls : Lines) (xtop xleft : Int) (s : Scr) : Op → Scr
  | Op.room r n => room s r n
  | Op.row k => drawRow s ls xtop xleft (xtop + k)

theorem foldl_applyOp_rows (ls : Lines) (xtop xleft : Int) (f : Nat → Int) (g : Nat → Int) (l : List Nat) (s : Scr)
    (h : ∀ i, xtop + g i = f i) :
    (l.map (fun i => Op.row (g i))).foldl (applyOp ls xtop xleft) s = drawRows s ls xtop xleft (l.map f) := by
  unfold drawRows
  rw [List.foldl_map, List.foldl_map]
  congr 1
  funext s i
  simp only [applyOp, h]

theorem drawUpdate_ops (s : Scr) (ls : Lines) (otop xtop xleft : Int) :
    drawUpdate s ls otop xtop xleft = (drawUpdateOps s.length otop xtop).foldl (applyOp ls xtop xleft) s := by
  unfold drawUpdate drawUpdateOps
  simp only []
  split
  · rfl
  · rename_i h
    have h' : (otop - xtop != 0) = true := by
      simp only [beq_iff_eq] at h
      simp only [bne_iff_ne, ne_eq]; omega
    rw [if_pos h', List.foldl_append, List.foldl_cons, List.foldl_nil]
    simp only [applyOp]
    split
    · rw [foldl_applyOp_rows]; intro i; omega
    · rw [foldl_applyOp_rows]; intro i; omega

theorem drawAgain_ops (s : Scr) (ls : Lines) (xtop xleft row : Int) :
    drawAgain s ls xtop xleft row = (drawAgainOps s.length xtop row).foldl (applyOp ls xtop xleft) s := by
  unfold drawAgain drawAgainOps drawRows
  rw [List.foldl_map]
  congr 1
  funext s i
  simp only [applyOp]
  congr 1; omega

/-! ### 7. small concrete screens: 5 lines, 3 rows -/

section Examples
def ex5 : Lines := [[0], [1], [2], [3], [4]]

example : repaint ex5 1 0 3 = [some (some [1], 0), some (some [2], 0), some (some [3], 0)] := by decide
/- scrolling down by one, by two, by more than the window, and back up; past the end of the buffer -/
example : drawUpdate (repaint ex5 0 0 3) ex5 0 1 0 = repaint ex5 1 0 3 := by decide
example : drawUpdate (repaint ex5 0 0 3) ex5 0 2 0 = repaint ex5 2 0 3 := by decide
example : drawUpdate (repaint ex5 0 0 3) ex5 0 4 0 = [some (some [4], 0), some (none, 0), some (none, 0)] := by decide
example : drawUpdate (repaint ex5 4 0 3) ex5 4 0 0 = repaint ex5 0 0 3 := by decide
example : drawUpdate (repaint ex5 2 0 3) ex5 2 1 0 = repaint ex5 1 0 3 := by decide
example : drawUpdateOps 3 0 1 = [Op.room 0 (-1), Op.row 2] := by decide
example : drawUpdateOps 3 2 0 = [Op.room 0 2, Op.row 0, Op.row 1] := by decide
/- `dd` on line 1 with the window at 0: one row deleted, the rows from 1 on redrawn -/
example : drawFix (repaint ex5 0 0 3) [[0], [2], [3], [4]] 0 0 1 1 0 false = (repaint [[0], [2], [3], [4]] 0 0 3, 0) := by
  decide
/- `P` of two lines before line 1 (`n = 3`) -/
example : drawFix (repaint ex5 0 0 3) [[0], [8], [9], [1], [2], [3], [4]] 0 0 1 1 3 false =
    ([some (some [0], 0), some (some [8], 0), some (some [9], 0)], 0) := by decide
/- `J` of lines 1..2 with the window at 1 -/
example : drawFix (repaint ex5 1 0 3) [[0], [1, 2], [3], [4]] 1 0 1 2 1 false =
    ([some (some [1, 2], 0), some (some [3], 0), some (some [4], 0)], 1) := by decide
/- `dk` with the cursor on the top row of the window at 1: lines 0..1 go, the window shows 2.. of the old buffer -/
example : drawFix (repaint ex5 1 0 3) [[2], [3], [4]] 1 0 0 1 0 false = (repaint [[2], [3], [4]] 1 0 3, 1) := by decide
/- preview of `c` over lines 1..3 with the window at 0: rows 0..1 keep lines 0..1, row 2 shows line 4 -/
example : drawFix (repaint ex5 0 0 3) ex5 0 0 1 3 1 true =
    ([some (some [0], 0), some (some [1], 0), some (some [4], 0)], 0) := by decide
/- preview of `c` over lines 0..2 with the window at 1: the window moves to 0 -/
example : drawFix (repaint ex5 1 0 3) ex5 1 0 0 2 1 true =
    ([some (some [0], 0), some (some [3], 0), some (some [4], 0)], 0) := by decide
end Examples

end Neatvi.Props.C19
