import NeatviVerif.Lemmas.C06cExec
import NeatviVerif.Lemmas.C06cCongr
import NeatviVerif.Props.C06b
/-!
# C06c: ex line commands, continued: the filter `[range]!cmd` and the register execute `[addr]@r`

Everything is stated on the model (`Model/Ex.lean`, `Model/ExCmd.lean`), for all states and inputs; vocabulary of
`Props/C06.lean` and `Props/C06b.lean` (`lines ed`, `AddrOnly`, `Quiet`, `OnlyLb`, `Splice`, `applySplice`).

1. `ec_exec_spec` (the filter, in the order the model runs it: guard, expansion of the command text, address, pipe
   oracle, `lbuf_edit`), `ec_exec_noaddr` (`:!cmd` is `unmodelled`), `ec_exec_ok` (no trap on a valid range).
   `execGuard` is the unsaved-changes guard, `GuardFrame` what it may change (`Lemmas/C06cGuard.lean`), `Refused`
   what a rejected filter may have changed.
2. the closed shell of the harnesses (`builtinPipe`): `filter_builtin`, `filter_cat_identity`, `filter_tr_upper`,
   `filter_true_deletes`, `filter_unknown_deletes`, `filter_sed_first`, `filter_printf`.
3. `ec_at_spec`, `ec_at_runs`, `ec_at_too_deep`, `ec_at_dispatch`, `at_runs_covered_line`: `[addr]@r` is typing the
   register's text as a command line at the first addressed line, one level deeper in the count of executing
   registers (`Ed.atDepth`, counted down again afterwards); with sixteen registers executing it returns 1 instead.
4. `invalid_region_rejected_exec_at`, `ec_exec_guard_refuses`, `ec_exec_noexpand`, `ec_exec_invalid_region`.
4b. `filter_splice`, `filter_invalid_region_rejected`: the same on the state *before* the command (the guard's bump is
   invisible to `ex_region` and `ex_pathexpand`: `Lemmas/C06cCongr.lean`); `cmd_splice_x`, `script_frame_x`: scripts
   of `a i c d y pu k = p r rs` and filters are sequences of splices.
5. `exCommand_one`, `filter_line`: whole command lines through `ex_command`.
-/
set_option linter.unusedSimpArgs false

namespace Neatvi.Props.C06c
open Neatvi Neatvi.Lbuf Neatvi.LbufIo Neatvi.Ex Neatvi.Lemmas.C06 Neatvi.Lemmas.C06b Neatvi.Lemmas.C06c
open Neatvi.Lemmas.Hist (optLines)
open Neatvi.Props.C01 (WfLine)

/-! ## 1. the filter -/

/-- what a refused filter may have changed: the guard's side effects (`GuardFrame`: the sequence counter of the
    current buffer, with autowrite the file system, the message `buffer modified`), then the address side effects
    and the message line (`Quiet`) -/
def Refused (ed ed' : Ed) : Prop := ∃ edg, GuardFrame ed edg ∧ Quiet edg ed'

theorem Refused.lines {ed ed' : Ed} (h : Refused ed ed') : lines ed' = lines ed := by
  obtain ⟨edg, h1, h2⟩ := h
  rw [h2.lines, h1.lines]

theorem Refused.regs {ed ed' : Ed} (h : Refused ed ed') : ed'.regs = ed.regs := by
  obtain ⟨edg, h1, h2⟩ := h
  rw [h2.regs, h1.regs]

theorem Refused.out {ed ed' : Ed} (h : Refused ed ed') : ed'.out = ed.out := by
  obtain ⟨edg, h1, h2⟩ := h
  rw [h2.out, h1.out]

theorem cp_of_lines {ed ed' : Ed} (h : lines ed' = lines ed) (b e : Int) : ed'.cp b e = ed.cp b e := by
  rw [C06.cp_eq, C06.cp_eq, h]

/-- **the filter `[range]!cmd`** (`ec_exec` with a non-empty address).  The model runs, in this order:

    1. the unsaved-changes guard `execGuard` (`bufs_modified(0, "buffer modified")` unless `wa` is set), which leaves
       the state `edg`; whatever it answers, `GuardFrame ed edg`: it only bumps the sequence counter of the current
       buffer, with autowrite writes the file, and may show its message — the text, the registers, the pipe table
       are the same.  If it refuses: return 1, `ed' = edg`;
    2. `ex_pathexpand` on the command text (`%`, `#`, a leading `=`, backslash pairs; spaces allowed).  If `%` / `#`
       is not set: return 1, `ed'` is `edg` with the message.  Otherwise the state is untouched (`edp = edg`);
    3. the address, `exRegion edg loc`.  If it does not resolve to existing lines: return 1, `ed' = ed1`, the state
       after the address side effects;
    4. the pipe oracle on the text of lines `b..e-1` (`ed.cp b e`, the lines joined: `C06.cp_eq`), then `lbuf_edit`.

    * return 0: the region is valid, `0 ≤ b ≤ e ≤ len` (`region_all`), and either the oracle says "no output at all"
      (`some none`: `cmd_pipe` returned `NULL`) and nothing but the address side effects happened, or it answers
      `out` and **`lines ed' = take b ++ splitLines out ++ drop e`**: exactly the addressed range is replaced by the
      command's output, every other line keeps its bytes and order; only the line buffer of the current buffer
      differs from `ed1` (`OnlyLb`, and no other field: `ed' = { ed1 with bufs := ed'.bufs }`);
    * return 1: the text is unchanged and `Refused ed ed'`.

    (`filter_splice` below restates the success case with the region and the command text evaluated in `ed`.) -/
theorem ec_exec_spec (f : Nat) (ed ed' : Ed) (loc cmd arg : Bytes) (txt : Option Bytes) (rc : Int)
    (hloc : loc ≠ [])
    (h : runCmd (f + 1) ed "ec_exec" loc cmd arg txt = some (rc, ed')) :
    (rc = 0 ∨ rc = 1) ∧
    (∃ g edg, execGuard ed = some (g, edg) ∧ GuardFrame ed edg ∧
      (g = true → rc = 1 ∧ ed' = edg) ∧
      (g = false → ∃ p edp, pathExpand edg arg true = some (p, edp) ∧
        (p = none → rc = 1 ∧ ed' = edp ∧ edp = edg.show (strOf "pathname \"%\" or \"#\" is not set")) ∧
        (∀ ecmd, p = some ecmd → edp = edg ∧ ∃ r b e ed1, exRegion edg loc = some ((r, b, e), ed1) ∧
          (r ≠ 0 → rc = 1 ∧ ed' = ed1) ∧ (r = 0 → rc = 0)))) ∧
    (rc = 0 → ∃ edg ecmd b e ed1, execGuard ed = some (false, edg) ∧ GuardFrame ed edg ∧
      pathExpand edg arg true = some (some ecmd, edg) ∧
      exRegion edg loc = some ((0, b, e), ed1) ∧ 0 ≤ b ∧ b ≤ e ∧ e ≤ ed.len ∧
      ((ed.pipe ecmd (ed.cp b e) = some none ∧ ed' = ed1) ∨
       (∃ out, ed.pipe ecmd (ed.cp b e) = some (some out) ∧
          lines ed' = (lines ed).take b.toNat ++ splitLines out ++ (lines ed).drop e.toNat ∧
          ed'.len = ed.len - (e - b) + (splitLines out).length ∧
          OnlyLb ed1 ed' ∧ ed' = { ed1 with bufs := ed'.bufs }))) ∧
    (rc = 1 → lines ed' = lines ed ∧ Refused ed ed') := by
  have hle : loc.isEmpty = false := by cases loc with | nil => exact absurd rfl hloc | cons x xs => rfl
  rw [ec_exec_eq] at h
  cases hg : execGuard ed with
  | none => rw [hg] at h; cases h
  | some x =>
    obtain ⟨g, edg⟩ := x
    have hgf := execGuard_frame _ _ _ hg
    rw [hg] at h
    cases g with
    | true =>
      simp only [Option.some.injEq, Prod.mk.injEq] at h
      obtain ⟨rfl, rfl⟩ := h
      have hr : Refused ed edg := ⟨edg, hgf, Quiet.refl _⟩
      exact ⟨Or.inr rfl, ⟨true, edg, rfl, hgf, fun _ => ⟨rfl, rfl⟩, fun h => by cases h⟩, (fun h => by omega),
        fun _ => ⟨hr.lines, hr⟩⟩
    | false =>
      simp only [] at h
      cases hpe : pathExpand edg arg true with
      | none => rw [hpe] at h; cases h
      | some y =>
        obtain ⟨p, edp⟩ := y
        obtain ⟨hp1, hp2⟩ := pathExpand_cases hpe
        rw [hpe] at h
        cases p with
        | none =>
          simp only [Option.some.injEq, Prod.mk.injEq] at h
          obtain ⟨rfl, rfl⟩ := h
          have hr : Refused ed edp := ⟨edg, hgf, pathExpand_quiet hpe⟩
          exact ⟨Or.inr rfl, ⟨false, edg, rfl, hgf, (fun h => by cases h),
            fun _ => ⟨none, edp, hpe, fun _ => ⟨rfl, rfl, hp2 rfl⟩, fun _ h => by cases h⟩⟩, (fun h => by omega),
            fun _ => ⟨hr.lines, hr⟩⟩
        | some ecmd =>
          have hedp : edp = edg := hp1 rfl
          subst hedp
          simp only [hle, Bool.false_eq_true, if_false] at h
          cases hreg : exRegion edp loc with
          | none => rw [hreg] at h; cases h
          | some z =>
            obtain ⟨⟨r, b, e⟩, ed1⟩ := z
            obtain ⟨ha, hrc, hv, _⟩ := region_all _ _ _ _ _ _ hreg
            rw [hreg] at h
            simp only [] at h
            by_cases hr0 : r = 0
            · subst hr0
              obtain ⟨v1, v2, v3, _⟩ := hv rfl
              simp only [bne_self_eq_false, Bool.false_eq_true, if_false] at h
              have hl1 : lines ed1 = lines ed := ha.lines.trans hgf.lines
              have hlen1 : ed1.len = ed.len := ha.len.trans hgf.len
              have hpipe : ed1.pipe ecmd (ed1.cp b e) = ed.pipe ecmd (ed.cp b e) := by
                rw [cp_of_lines hl1]
                apply pipe_congr
                obtain ⟨_, _, _, rfl⟩ := ha
                exact hgf.pipes
              rw [hpipe] at h
              cases hpp : ed.pipe ecmd (ed.cp b e) with
              | none => exact absurd hpp (pipe_ne_none _ _ _)
              | some o =>
                rw [hpp] at h
                cases o with
                | none =>
                  simp only [Option.some.injEq, Prod.mk.injEq] at h
                  obtain ⟨rfl, rfl⟩ := h
                  exact ⟨Or.inl rfl, ⟨false, edp, rfl, hgf, (fun h => by cases h),
                    fun _ => ⟨some ecmd, edp, hpe, (fun h => by cases h),
                      fun c hc => ⟨rfl, 0, b, e, ed1, hreg, fun h => absurd rfl h, fun _ => rfl⟩⟩⟩,
                    fun _ => ⟨edp, ecmd, b, e, ed1, rfl, hgf, hpe, hreg, v1, v2, by rw [← hlen1]; exact v3,
                      Or.inl ⟨hpp, rfl⟩⟩,
                    fun h => by omega⟩
                | some out =>
                  simp only [Option.map_eq_some_iff, Prod.mk.injEq] at h
                  obtain ⟨ed2, hed, rfl, rfl⟩ := h
                  have hfr := ed_edit_frame _ _ _ _ _ v1 v2 v3 hed
                  rw [hl1, hlen1] at hfr
                  exact ⟨Or.inl rfl, ⟨false, edp, rfl, hgf, (fun h => by cases h),
                    fun _ => ⟨some ecmd, edp, hpe, (fun h => by cases h),
                      fun c hc => ⟨rfl, 0, b, e, ed1, hreg, fun h => absurd rfl h, fun _ => rfl⟩⟩⟩,
                    fun _ => ⟨edp, ecmd, b, e, ed1, rfl, hgf, hpe, hreg, v1, v2, by rw [← hlen1]; exact v3,
                      Or.inr ⟨out, hpp, hfr.1, hfr.2, edit_onlyLb hed, edit_fields _ _ _ _ _ hed⟩⟩,
                    fun h => by omega⟩
            · have hb : (r != 0) = true := by simpa using hr0
              simp only [hb, if_true, Option.some.injEq, Prod.mk.injEq] at h
              obtain ⟨rfl, rfl⟩ := h
              have hr : Refused ed ed1 := ⟨edp, hgf, Quiet.of_addrOnly ha⟩
              exact ⟨Or.inr rfl, ⟨false, edp, rfl, hgf, (fun h => by cases h),
                fun _ => ⟨some ecmd, edp, hpe, (fun h => by cases h),
                  fun c hc => ⟨rfl, r, b, e, ed1, hreg, fun _ => ⟨rfl, rfl⟩, fun h => absurd h hr0⟩⟩⟩,
                (fun h => by omega), fun _ => ⟨hr.lines, hr⟩⟩

/-- `:!cmd` without an address: the model does not describe what the command prints; it only raises the flag
    `unmodelled` (after the same guard and the same expansion of the command text).  The text never changes. -/
theorem ec_exec_noaddr (f : Nat) (ed ed' : Ed) (cmd arg : Bytes) (txt : Option Bytes) (rc : Int)
    (h : runCmd (f + 1) ed "ec_exec" [] cmd arg txt = some (rc, ed')) :
    (rc = 0 ∨ rc = 1) ∧ lines ed' = lines ed ∧
    (rc = 0 → ∃ edg ecmd, execGuard ed = some (false, edg) ∧ GuardFrame ed edg ∧
      pathExpand edg arg true = some (some ecmd, edg) ∧ ed' = { edg with unmodelled := true }) ∧
    (rc = 1 → Refused ed ed') := by
  rw [ec_exec_eq] at h
  cases hg : execGuard ed with
  | none => rw [hg] at h; cases h
  | some x =>
    obtain ⟨g, edg⟩ := x
    have hgf := execGuard_frame _ _ _ hg
    rw [hg] at h
    cases g with
    | true =>
      simp only [Option.some.injEq, Prod.mk.injEq] at h
      obtain ⟨rfl, rfl⟩ := h
      have hr : Refused ed edg := ⟨edg, hgf, Quiet.refl _⟩
      exact ⟨Or.inr rfl, hr.lines, (fun h => by omega), fun _ => hr⟩
    | false =>
      simp only [] at h
      cases hpe : pathExpand edg arg true with
      | none => rw [hpe] at h; cases h
      | some y =>
        obtain ⟨p, edp⟩ := y
        obtain ⟨hp1, hp2⟩ := pathExpand_cases hpe
        rw [hpe] at h
        cases p with
        | none =>
          simp only [Option.some.injEq, Prod.mk.injEq] at h
          obtain ⟨rfl, rfl⟩ := h
          have hr : Refused ed edp := ⟨edg, hgf, pathExpand_quiet hpe⟩
          exact ⟨Or.inr rfl, hr.lines, (fun h => by omega), fun _ => hr⟩
        | some ecmd =>
          have hedp : edp = edg := hp1 rfl
          subst hedp
          simp only [List.isEmpty_nil, if_true, Option.some.injEq, Prod.mk.injEq] at h
          obtain ⟨rfl, rfl⟩ := h
          exact ⟨Or.inl rfl, hgf.lines, fun _ => ⟨edp, ecmd, rfl, hgf, hpe, rfl⟩, fun h => by omega⟩

/-! ### the filter never traps on a valid range -/

/-- with a current buffer, the guard passed, a command text that expands and a valid range, the filter returns 0
    (and `ec_exec_spec` says what the state is) -/
theorem ec_exec_ok (f : Nat) (ed edg ed1 : Ed) (loc cmd arg ecmd : Bytes) (txt : Option Bytes) (b e : Int) (lb : Lb)
    (hloc : loc ≠ []) (hg : execGuard ed = some (false, edg)) (hpe : pathExpand edg arg true = some (some ecmd, edg))
    (hreg : exRegion edg loc = some ((0, b, e), ed1)) (hlb : ed.lb = some lb) :
    ∃ ed', runCmd (f + 1) ed "ec_exec" loc cmd arg txt = some (0, ed') := by
  have hle : loc.isEmpty = false := by cases loc with | nil => exact absurd rfl hloc | cons x xs => rfl
  obtain ⟨ha, _, hv, _⟩ := region_all _ _ _ _ _ _ hreg
  obtain ⟨v1, v2, _, _⟩ := hv rfl
  have hgf := execGuard_frame _ _ _ hg
  rw [ec_exec_eq, hg]
  simp only [hpe, hle, Bool.false_eq_true, if_false, hreg, bne_self_eq_false]
  cases hpp : ed1.pipe ecmd (ed1.cp b e) with
  | none => exact absurd hpp (pipe_ne_none _ _ _)
  | some o =>
    cases o with
    | none => exact ⟨_, rfl⟩
    | some out =>
      have hlb1 : ∃ lb1, ed1.lb = some lb1 := by
        have h1 : lines ed1 = lines ed := ha.lines.trans hgf.lines
        rw [ha.lb]
        rcases hgf.bufs with hb | hb
        · exact ⟨lb, by rw [Lemmas.ExFrame.lb_of_bufs hb]; exact hlb⟩
        · rw [Lemmas.ExFrame.lb_of_bufs hb]
          unfold Ed.lb Ed.cur at hlb ⊢
          unfold Ed.modifiedAt
          cases hbs : ed.bufs with
          | nil => rw [hbs] at hlb; simp at hlb
          | cons x xs =>
            rw [hbs] at hlb
            cases x with
            | none => simp at hlb
            | some bb => simp
      obtain ⟨lb1, hlb1⟩ := hlb1
      obtain ⟨ed2, hed⟩ := ed_edit_total ed1 lb1 (some out) b e hlb1 v1 v2
      exact ⟨ed2, by simp [hed]⟩

/-! ## 2. the closed shell of the harnesses

When the table `ed.pipes` has no entry for the command, the model answers with `builtinPipe`, the closed shell
the test harnesses install in place of `/bin/sh` (`verif_shell` in `harness/common.h`): it interprets `cat`,
`tr a-z A-Z`, `sed 1q`, `printf x` and nothing else — every other command, `true` included, produces no output.
The corollaries below are statements about that shell, not about `/bin/sh`. -/

/-- the lines `b..e-1` of the buffer -/
def rangeLines (ed : Ed) (b e : Int) : List Bytes := ((lines ed).drop b.toNat).take (e.toNat - b.toNat)

theorem range_split (l : List Bytes) (b e : Nat) (hbe : b ≤ e) :
    l.take b ++ (l.drop b).take (e - b) ++ l.drop e = l := by
  have : l.drop e = (l.drop b).drop (e - b) := by rw [List.drop_drop]; congr 1; omega
  rw [this, List.append_assoc, List.take_append_drop, List.take_append_drop]

theorem rangeLines_wf {ed : Ed} (hwf : ∀ l ∈ lines ed, WfLine l) (b e : Int) : ∀ l ∈ rangeLines ed b e, WfLine l :=
  fun l hl => hwf l (List.mem_of_mem_drop (List.mem_of_mem_take hl))

/-- **a filter through the closed shell** (a command text `ex_pathexpand` copies as it is, no table entry): on
    success the addressed range is replaced by the lines of `builtinPipe arg (text of the range)` -/
theorem filter_builtin (f : Nat) (ed ed' : Ed) (loc cmd arg : Bytes) (txt : Option Bytes)
    (hloc : loc ≠ []) (hp : PlainArg arg) (hl : arg.length < 1000) (hne : NoEntry ed arg)
    (h : runCmd (f + 1) ed "ec_exec" loc cmd arg txt = some (0, ed')) :
    ∃ edg b e ed1, execGuard ed = some (false, edg) ∧ exRegion edg loc = some ((0, b, e), ed1) ∧
      0 ≤ b ∧ b ≤ e ∧ e ≤ ed.len ∧
      lines ed' = (lines ed).take b.toNat ++ splitLines (builtinPipe arg (rangeLines ed b e).flatten) ++
        (lines ed).drop e.toNat := by
  obtain ⟨edg, ecmd, b, e, ed1, k1, k2, k3, k4, k5, k6, k7, k8⟩ := (ec_exec_spec f ed ed' loc cmd arg txt 0 hloc h).2.2.1 rfl
  rw [pathExpand_plain edg arg hp hl] at k3
  simp only [Option.some.injEq, Prod.mk.injEq, and_true] at k3
  subst k3
  rw [pipe_noEntry hne, C06.cp_eq] at k8
  refine ⟨edg, b, e, ed1, k1, k4, k5, k6, k7, ?_⟩
  rcases k8 with ⟨k8, _⟩ | ⟨out, k8, k9, _⟩
  · cases k8
  · simp only [Option.some.injEq] at k8
    rw [k9, ← k8]
    rfl

/-- a refused filter leaves the text alone -/
theorem filter_refused (f : Nat) (ed ed' : Ed) (loc cmd arg : Bytes) (txt : Option Bytes)
    (hloc : loc ≠ []) (h : runCmd (f + 1) ed "ec_exec" loc cmd arg txt = some (1, ed')) : lines ed' = lines ed :=
  ((ec_exec_spec f ed ed' loc cmd arg txt 1 hloc h).2.2.2 rfl).1

/-- **`[range]!cat` is the identity on the text** (on a buffer whose lines all end in their newline, which is what
    `lbuf_replace` stores: `C01.lines_wf`), whatever the address and whether or not the command was refused -/
theorem filter_cat_identity (f : Nat) (ed ed' : Ed) (loc cmd : Bytes) (txt : Option Bytes) (rc : Int)
    (hloc : loc ≠ []) (hwf : ∀ l ∈ lines ed, WfLine l) (hne : NoEntry ed (strOf "cat"))
    (h : runCmd (f + 1) ed "ec_exec" loc cmd (strOf "cat") txt = some (rc, ed')) : lines ed' = lines ed := by
  rcases (ec_exec_spec f ed ed' loc cmd _ txt rc hloc h).1 with rfl | rfl
  · obtain ⟨edg, b, e, ed1, _, _, k1, k2, k3, k4⟩ :=
      filter_builtin f ed ed' loc cmd _ txt hloc plain_cat (by rw [strOf_cat]; decide) hne h
    rw [k4, builtin_cat, Props.C01.split_of_join _ (rangeLines_wf hwf b e)]
    exact range_split _ _ _ (by omega)
  · exact filter_refused f ed ed' loc cmd _ txt hloc h

/-- **`[range]!tr a-z A-Z`**: the addressed lines are replaced by their upper-cased bytes, line by line — the same
    number of lines, every other line in place -/
theorem filter_tr_upper (f : Nat) (ed ed' : Ed) (loc cmd : Bytes) (txt : Option Bytes)
    (hloc : loc ≠ []) (hwf : ∀ l ∈ lines ed, WfLine l) (hne : NoEntry ed (strOf "tr a-z A-Z"))
    (h : runCmd (f + 1) ed "ec_exec" loc cmd (strOf "tr a-z A-Z") txt = some (0, ed')) :
    ∃ edg b e ed1, execGuard ed = some (false, edg) ∧ exRegion edg loc = some ((0, b, e), ed1) ∧
      0 ≤ b ∧ b ≤ e ∧ e ≤ ed.len ∧
      lines ed' = (lines ed).take b.toNat ++ (rangeLines ed b e).map (fun l => l.map upperC) ++
        (lines ed).drop e.toNat ∧
      (lines ed').length = (lines ed).length := by
  obtain ⟨edg, b, e, ed1, k0, k0', k1, k2, k3, k4⟩ :=
    filter_builtin f ed ed' loc cmd _ txt hloc plain_tr (by rw [strOf_tr]; decide) hne h
  rw [builtin_tr, split_tr _ (rangeLines_wf hwf b e)] at k4
  refine ⟨edg, b, e, ed1, k0, k0', k1, k2, k3, k4, ?_⟩
  have := congrArg List.length (range_split (lines ed) b.toNat e.toNat (by omega))
  rw [k4]
  simp only [List.length_append, List.length_map, rangeLines] at this ⊢
  exact this

/-- **a command outside the closed shell's table behaves like `true`**: it produces no output, so the addressed
    lines are deleted.  This is a statement about the harnesses' closed shell (`builtinPipe`: every command it does
    not interpret exits with status 127 and no output), *not* a claim about `/bin/sh`; with a real shell the
    outcome is whatever the table `ed.pipes` records for the command (`ec_exec_spec`). -/
theorem filter_unknown_deletes (f : Nat) (ed ed' : Ed) (loc cmd arg : Bytes) (txt : Option Bytes)
    (hloc : loc ≠ []) (hp : PlainArg arg) (hl : arg.length < 1000) (hu : Unknown arg) (hne : NoEntry ed arg)
    (h : runCmd (f + 1) ed "ec_exec" loc cmd arg txt = some (0, ed')) :
    ∃ edg b e ed1, execGuard ed = some (false, edg) ∧ exRegion edg loc = some ((0, b, e), ed1) ∧
      0 ≤ b ∧ b ≤ e ∧ e ≤ ed.len ∧ lines ed' = (lines ed).take b.toNat ++ (lines ed).drop e.toNat := by
  obtain ⟨edg, b, e, ed1, k0, k0', k1, k2, k3, k4⟩ := filter_builtin f ed ed' loc cmd arg txt hloc hp hl hne h
  rw [builtin_unknown hu] at k4
  exact ⟨edg, b, e, ed1, k0, k0', k1, k2, k3, by simpa [splitLines, splitAux] using k4⟩

/-- **`[range]!true`** deletes the addressed lines (`ed.pipes = []` is enough for `NoEntry`: `noEntry_of_nil`) -/
theorem filter_true_deletes (f : Nat) (ed ed' : Ed) (loc cmd : Bytes) (txt : Option Bytes)
    (hloc : loc ≠ []) (hne : NoEntry ed (strOf "true"))
    (h : runCmd (f + 1) ed "ec_exec" loc cmd (strOf "true") txt = some (0, ed')) :
    ∃ edg b e ed1, execGuard ed = some (false, edg) ∧ exRegion edg loc = some ((0, b, e), ed1) ∧
      0 ≤ b ∧ b ≤ e ∧ e ≤ ed.len ∧ lines ed' = (lines ed).take b.toNat ++ (lines ed).drop e.toNat :=
  filter_unknown_deletes f ed ed' loc cmd _ txt hloc plain_true (by rw [strOf_true]; decide) unknown_true hne h

/-- **`[range]!sed 1q`** keeps the first addressed line only -/
theorem filter_sed_first (f : Nat) (ed ed' : Ed) (loc cmd : Bytes) (txt : Option Bytes)
    (hloc : loc ≠ []) (hwf : ∀ l ∈ lines ed, WfLine l) (hne : NoEntry ed (strOf "sed 1q"))
    (h : runCmd (f + 1) ed "ec_exec" loc cmd (strOf "sed 1q") txt = some (0, ed')) :
    ∃ edg b e ed1, execGuard ed = some (false, edg) ∧ exRegion edg loc = some ((0, b, e), ed1) ∧
      0 ≤ b ∧ b ≤ e ∧ e ≤ ed.len ∧
      lines ed' = (lines ed).take b.toNat ++ (rangeLines ed b e).take 1 ++ (lines ed).drop e.toNat := by
  obtain ⟨edg, b, e, ed1, k0, k0', k1, k2, k3, k4⟩ :=
    filter_builtin f ed ed' loc cmd _ txt hloc plain_sed (by rw [strOf_sed]; decide) hne h
  rw [builtin_sed, split_sed _ (rangeLines_wf hwf b e)] at k4
  exact ⟨edg, b, e, ed1, k0, k0', k1, k2, k3, k4⟩

/-- **`[range]!printf x`** replaces the addressed lines by the one line `x` -/
theorem filter_printf (f : Nat) (ed ed' : Ed) (loc cmd : Bytes) (txt : Option Bytes)
    (hloc : loc ≠ []) (hne : NoEntry ed (strOf "printf x"))
    (h : runCmd (f + 1) ed "ec_exec" loc cmd (strOf "printf x") txt = some (0, ed')) :
    ∃ edg b e ed1, execGuard ed = some (false, edg) ∧ exRegion edg loc = some ((0, b, e), ed1) ∧
      0 ≤ b ∧ b ≤ e ∧ e ≤ ed.len ∧
      lines ed' = (lines ed).take b.toNat ++ [[120, 10]] ++ (lines ed).drop e.toNat := by
  obtain ⟨edg, b, e, ed1, k0, k0', k1, k2, k3, k4⟩ :=
    filter_builtin f ed ed' loc cmd _ txt hloc plain_printf (by rw [strOf_printf]; decide) hne h
  rw [builtin_printf] at k4
  exact ⟨edg, b, e, ed1, k0, k0', k1, k2, k3, by simpa [splitLines, splitAux] using k4⟩

/-! ## 3. `[addr]@r`: executing a register -/

/-- the `ra` variant (`@` with the register's text edited first), which the model does not describe -/
def isRa (cmd : Bytes) : Bool := cmd.headD 0 == 114 && cmd.getD 1 0 == 97

/-- `runCmd` hands `ec_at` over to `ecAt` (one level of fuel) -/
theorem ec_at_dispatch (f : Nat) (ed : Ed) (loc cmd arg : Bytes) (txt : Option Bytes) :
    runCmd (f + 1) ed "ec_at" loc cmd arg txt = ecAt f ed loc cmd arg := by
  rw [runCmd]
  simp only [String.reduceBEq, Bool.false_eq_true, ↓reduceIte, Bool.or_self]

/-- **`[addr]@r`.**  The register is looked up first (`reg_get`, computed registers included), then the address is
    evaluated.
    * register unset: return 1, the state is unchanged;
    * the address does not resolve to existing lines: return 1, only the address side effects happened
      (`AddrOnly`), the text is unchanged;
    * sixteen registers are already executing (`atDepth ≥ 16`): return 1 with the message "register recursion too
      deep", the text is unchanged, the register is not run;
    * otherwise the current line becomes the first addressed line `b` and the register's text is run as a command
      line one level deeper: the result is that of `exCommand f { ed1 with xrow := b, atDepth := ed1.atDepth + 1 } buf`
      with the depth counted down again — executing a register is typing its text at that line (`ed1` the state
      after the address evaluation, which differs from `ed` by `AddrOnly`).
      For the `ra` variant the model only raises `unmodelled` and returns 1. -/
theorem ec_at_spec (f : Nat) (ed ed' : Ed) (loc cmd arg : Bytes) (rc : Int)
    (h : ecAt (f + 1) ed loc cmd arg = some (rc, ed')) :
    (regGet ed (regName arg) = none → rc = 1 ∧ ed' = ed) ∧
    (∀ buf, regGet ed (regName arg) = some buf →
      ∃ r b e ed1, exRegion ed loc = some ((r, b, e), ed1) ∧ AddrOnly ed ed1 ∧
        (r ≠ 0 → rc = 1 ∧ ed' = ed1 ∧ lines ed' = lines ed) ∧
        (r = 0 → 0 ≤ b ∧ b ≤ e ∧ e ≤ ed.len ∧
          (16 ≤ ed1.atDepth → rc = 1 ∧ ed' = ed1.show (strOf "register recursion too deep") ∧ lines ed' = lines ed) ∧
          (ed1.atDepth < 16 →
            (isRa cmd = true → rc = 1 ∧ ed' = { ed1 with xrow := b, unmodelled := true } ∧ lines ed' = lines ed) ∧
            (isRa cmd = false → ∃ ed2,
              exCommand f { ed1 with xrow := b, atDepth := ed1.atDepth + 1 } buf = some (rc, ed2) ∧
              ed' = { ed2 with atDepth := ed2.atDepth - 1 })))) := by
  rw [ecAt] at h
  cases hreg : regGet ed (regName arg) with
  | none =>
    rw [hreg] at h
    simp only [Option.some.injEq, Prod.mk.injEq] at h
    obtain ⟨rfl, rfl⟩ := h
    exact ⟨fun _ => ⟨rfl, rfl⟩, fun _ h => by cases h⟩
  | some buf =>
    rw [hreg] at h
    simp only [] at h
    refine ⟨(fun h => by cases h), fun buf' hb => ?_⟩
    cases hb
    cases hr : exRegion ed loc with
    | none => rw [hr] at h; cases h
    | some z =>
      obtain ⟨⟨r, b, e⟩, ed1⟩ := z
      obtain ⟨ha, _, hv, _⟩ := region_all _ _ _ _ _ _ hr
      rw [hr] at h
      simp only [] at h
      refine ⟨r, b, e, ed1, rfl, ha, ?_, ?_⟩
      · intro hr0
        have hb : (r != 0) = true := by simpa using hr0
        simp only [hb, if_true, Option.some.injEq, Prod.mk.injEq] at h
        obtain ⟨rfl, rfl⟩ := h
        exact ⟨rfl, rfl, ha.lines⟩
      · intro hr0
        subst hr0
        obtain ⟨v1, v2, v3, _⟩ := hv rfl
        simp only [bne_self_eq_false, Bool.false_eq_true, if_false] at h
        refine ⟨v1, v2, by rw [← ha.len]; exact v3, ?_, ?_⟩
        · intro hd
          rw [if_pos hd] at h
          simp only [Option.some.injEq, Prod.mk.injEq] at h
          obtain ⟨rfl, rfl⟩ := h
          exact ⟨rfl, rfl, ha.lines⟩
        · intro hd
          rw [if_neg (by omega)] at h
          refine ⟨?_, ?_⟩
          · intro hra
            unfold isRa at hra
            rw [if_pos hra] at h
            simp only [Option.some.injEq, Prod.mk.injEq] at h
            obtain ⟨rfl, rfl⟩ := h
            exact ⟨rfl, rfl, ha.lines⟩
          · intro hra
            unfold isRa at hra
            rw [if_neg (by rw [hra]; simp)] at h
            cases hx : exCommand f { ed1 with xrow := b, atDepth := ed1.atDepth + 1 } buf with
            | none => rw [hx] at h; cases h
            | some y =>
              obtain ⟨r2, ed2⟩ := y
              rw [hx] at h
              simp only [Option.some.injEq, Prod.mk.injEq] at h
              obtain ⟨rfl, rfl⟩ := h
              exact ⟨ed2, rfl, rfl⟩

/-- the forward reading: a set register, a valid address and fewer than sixteen registers executing make `@r` the
    run of the register's text one level deeper (the depth is counted down again afterwards) -/
theorem ec_at_runs (f : Nat) (ed ed1 : Ed) (loc cmd arg buf : Bytes) (b e : Int)
    (hg : regGet ed (regName arg) = some buf) (hr : exRegion ed loc = some ((0, b, e), ed1)) (hra : isRa cmd = false)
    (hd : ed1.atDepth < 16) :
    ecAt (f + 1) ed loc cmd arg =
      (exCommand f { ed1 with xrow := b, atDepth := ed1.atDepth + 1 } buf).map
        (fun x => (x.1, { x.2 with atDepth := x.2.atDepth - 1 })) := by
  unfold isRa at hra
  rw [ecAt, hg]
  simp only [hr, bne_self_eq_false, Bool.false_eq_true, if_false]
  rw [if_neg (by omega), if_neg (by rw [hra]; simp)]
  cases exCommand f { ed1 with xrow := b, atDepth := ed1.atDepth + 1 } buf with
  | none => rfl
  | some y => rfl

/-- at the limit the register is not run -/
theorem ec_at_too_deep (f : Nat) (ed ed1 : Ed) (loc cmd arg buf : Bytes) (b e : Int)
    (hg : regGet ed (regName arg) = some buf) (hr : exRegion ed loc = some ((0, b, e), ed1))
    (hd : 16 ≤ ed1.atDepth) :
    ecAt (f + 1) ed loc cmd arg = some (1, ed1.show (strOf "register recursion too deep")) := by
  rw [ecAt, hg]
  simp only [hr, bne_self_eq_false, Bool.false_eq_true, if_false]
  rw [if_pos hd]

/-- **a register holding one covered line command** (`a i c d y pu k = p r` with a plain address and argument,
    `C06b.CoveredLine`; the register holds the bytes of the command without a trailing newline): `@r` performs
    that command's splice, computed in the state where the current line is the first addressed line (one level
    deeper in the count of executing registers) -/
theorem at_runs_covered_line (f : Nat) (ed ed1 ed' : Ed) (loc cmd arg : Bytes) (c : Cmd1) (b e : Int) (rc : Int)
    (hc : C06b.CoveredLine c) (hg : regGet ed (regName arg) = some c.bytes)
    (hr : exRegion ed loc = some ((0, b, e), ed1)) (hra : isRa cmd = false) (hd : ed1.atDepth < 16)
    (h : ecAt (f + 4) ed loc cmd arg = some (rc, ed')) :
    let ed2 : Ed := { ed1 with xrow := b, atDepth := ed1.atDepth + 1 }
    let s := C06b.spliceOf (C06b.lineCmd ed2 c).2 (C06b.lineCmd ed2 c).1 rc
    lines ed' = C06b.applySplice (lines ed) s ∧ s.1 ≤ s.2.1 ∧ s.2.1 ≤ (lines ed).length := by
  intro ed2 s
  have ha := (region_all _ _ _ _ _ _ hr).1
  have hl2 : lines ed2 = lines ed := ha.lines
  rw [ec_at_runs (f + 3) ed ed1 loc cmd arg c.bytes b e hg hr hra hd] at h
  cases hx : exCommand (f + 3) ed2 c.bytes with
  | none => rw [show exCommand (f + 3) { ed1 with xrow := b, atDepth := ed1.atDepth + 1 } c.bytes = none from hx] at h; cases h
  | some y =>
  obtain ⟨rc2, ed3⟩ := y
  rw [show exCommand (f + 3) { ed1 with xrow := b, atDepth := ed1.atDepth + 1 } c.bytes = some (rc2, ed3) from hx] at h
  simp only [Option.map_some, Option.some.injEq, Prod.mk.injEq] at h
  obtain ⟨rfl, rfl⟩ := h
  have hl3 : lines ({ ed3 with atDepth := ed3.atDepth - 1 } : Ed) = lines ed3 := rfl
  rw [hl3]
  have hrun : C06b.runLines f ed2 [c] = some ([s], ed3) := by
    simp only [C06b.runLines]
    rw [hx]
    rfl
  obtain ⟨k1, _, k3⟩ := C06b.script_frame_lines f [c] ed2 ed3 [s] (by intro x hx; simp at hx; subst hx; exact hc) hrun
  rw [hl2] at k1 k3
  simp only [C06b.applySplices, List.foldl_cons, List.foldl_nil] at k1
  exact ⟨k1, k3.1, k3.2.1⟩

/-! ## 4. an address that does not resolve: rejected, text unchanged -/

/-- **the filter and the register execute join the family of `C06.invalid_region_rejected`**: when the address
    does not resolve to existing lines (`ex_region` returns 1), the command returns 1 and the text is unchanged.
    For the filter the address is evaluated after the guard and the expansion of the command text: `edg` is the
    state the guard left (`GuardFrame`); a refusing guard or a failing expansion reject the command even earlier
    (`ec_exec_spec`).  For `@r` an unset register rejects the command before the address is looked at. -/
theorem invalid_region_rejected_exec_at (f : Nat) (ed edg ed1 : Ed) (hd : String) (loc cmd arg : Bytes)
    (txt : Option Bytes) (b e : Int) (hh : hd ∈ ["ec_exec", "ec_at"])
    (hstate : (hd = "ec_exec" → loc ≠ [] ∧ execGuard ed = some (false, edg) ∧ ∃ ecmd, pathExpand edg arg true = some (some ecmd, edg)) ∧
              (hd = "ec_at" → edg = ed))
    (hreg : exRegion edg loc = some ((1, b, e), ed1)) :
    ∃ ed', runCmd (f + 2) ed hd loc cmd arg txt = some (1, ed') ∧ lines ed' = lines ed := by
  have ha := (region_all _ _ _ _ _ _ hreg).1
  simp only [List.mem_cons, List.not_mem_nil, or_false] at hh
  rcases hh with rfl | rfl
  · obtain ⟨hloc, hg, ecmd, hpe⟩ := hstate.1 rfl
    have hle : loc.isEmpty = false := by cases loc with | nil => exact absurd rfl hloc | cons x xs => rfl
    refine ⟨ed1, ?_, ha.lines.trans (execGuard_frame _ _ _ hg).lines⟩
    rw [ec_exec_eq, hg]
    simp only [hpe, hle, Bool.false_eq_true, if_false, hreg]
    rfl
  · have := hstate.2 rfl
    subst this
    rw [ec_at_dispatch]
    cases hg : regGet edg (regName arg) with
    | none => exact ⟨edg, by rw [ecAt, hg], rfl⟩
    | some buf =>
      refine ⟨ed1, ?_, ha.lines⟩
      rw [ecAt, hg]
      simp only [hreg]
      rfl

/-- the three ways a filter is rejected, each with the text unchanged -/
theorem ec_exec_guard_refuses (f : Nat) (ed edg : Ed) (loc cmd arg : Bytes) (txt : Option Bytes)
    (hg : execGuard ed = some (true, edg)) :
    runCmd (f + 1) ed "ec_exec" loc cmd arg txt = some (1, edg) ∧ lines edg = lines ed := by
  refine ⟨by rw [ec_exec_eq, hg], (execGuard_frame _ _ _ hg).lines⟩

theorem ec_exec_noexpand (f : Nat) (ed edg edp : Ed) (loc cmd arg : Bytes) (txt : Option Bytes)
    (hg : execGuard ed = some (false, edg)) (hpe : pathExpand edg arg true = some (none, edp)) :
    runCmd (f + 1) ed "ec_exec" loc cmd arg txt = some (1, edp) ∧ lines edp = lines ed := by
  refine ⟨by rw [ec_exec_eq, hg]; simp only [hpe], ?_⟩
  rw [(pathExpand_quiet hpe).lines, (execGuard_frame _ _ _ hg).lines]

theorem ec_exec_invalid_region (f : Nat) (ed edg ed1 : Ed) (loc cmd arg ecmd : Bytes) (txt : Option Bytes) (b e : Int)
    (hloc : loc ≠ []) (hg : execGuard ed = some (false, edg))
    (hpe : pathExpand edg arg true = some (some ecmd, edg)) (hreg : exRegion edg loc = some ((1, b, e), ed1)) :
    runCmd (f + 1) ed "ec_exec" loc cmd arg txt = some (1, ed1) ∧ lines ed1 = lines ed := by
  have hle : loc.isEmpty = false := by cases loc with | nil => exact absurd rfl hloc | cons x xs => rfl
  refine ⟨?_, ((region_all _ _ _ _ _ _ hreg).1).lines.trans (execGuard_frame _ _ _ hg).lines⟩
  rw [ec_exec_eq, hg]
  simp only [hpe, hle, Bool.false_eq_true, if_false, hreg]
  rfl

/-! ## 4b. the filter stated on the state before the command; scripts with filters

The guard only bumps a sequence counter (and, with autowrite, writes the file): address evaluation and
`ex_pathexpand` do not see that (`exRegion_congr`, `pathExpand_congr`), so the region and the expanded command are
those of the state *before* the command, as for every other line command of C06. -/

/-- **the filter is a splice of the region resolved in the state before the command**: on success the command
    text expands in `ed`, the address resolves in `ed` to `b..e` inside the buffer, and either the oracle says
    "no output at all" and the text is unchanged, or lines `b..e-1` are replaced by the lines of its answer;
    on failure the text is unchanged -/
theorem filter_splice (f : Nat) (ed ed' : Ed) (loc cmd arg : Bytes) (txt : Option Bytes) (rc : Int)
    (hloc : loc ≠ []) (h : runCmd (f + 1) ed "ec_exec" loc cmd arg txt = some (rc, ed')) :
    (rc = 0 ∨ rc = 1) ∧
    (rc = 0 → ∃ ecmd b e ed1, pathExpand ed arg true = some (some ecmd, ed) ∧
      exRegion ed loc = some ((0, b, e), ed1) ∧ 0 ≤ b ∧ b ≤ e ∧ e ≤ ed.len ∧
      ((ed.pipe ecmd (ed.cp b e) = some none ∧ lines ed' = lines ed) ∨
       (∃ out, ed.pipe ecmd (ed.cp b e) = some (some out) ∧
          lines ed' = (lines ed).take b.toNat ++ splitLines out ++ (lines ed).drop e.toNat))) ∧
    (rc = 1 → lines ed' = lines ed) := by
  obtain ⟨h1, _, h3, h4⟩ := ec_exec_spec f ed ed' loc cmd arg txt rc hloc h
  refine ⟨h1, fun h0 => ?_, fun h0 => (h4 h0).1⟩
  obtain ⟨edg, ecmd, b, e, ed1g, k1, k2, k3, k4, k5, k6, k7, k8⟩ := h3 h0
  have hpe := (pathExpand_congr k2.samePaths arg true ecmd).1 k3
  rw [exRegion_congr k2.sameAddr] at k4
  cases hr : exRegion ed loc with
  | none => rw [hr] at k4; cases k4
  | some z =>
    obtain ⟨⟨r, b', e'⟩, ed1⟩ := z
    rw [hr] at k4
    simp only [Option.map_some, Option.some.injEq, Prod.mk.injEq] at k4
    obtain ⟨⟨rfl, rfl, rfl⟩, hc⟩ := k4
    refine ⟨ecmd, b', e', ed1, hpe, rfl, k5, k6, k7, ?_⟩
    rcases k8 with ⟨m1, m2⟩ | ⟨out, m1, m2, _⟩
    · left
      refine ⟨m1, ?_⟩
      rw [m2, ← hc]
      exact ((carry_addrOnly edg ed1).lines).trans k2.lines
    · exact Or.inr ⟨out, m1, m2⟩

/-- an address that does not resolve in the state before the command: the filter is rejected whatever the guard
    and the expansion do, text unchanged -/
theorem filter_invalid_region_rejected (f : Nat) (ed ed1 ed' : Ed) (loc cmd arg : Bytes) (txt : Option Bytes) (rc : Int)
    (b e : Int) (hloc : loc ≠ []) (hreg : exRegion ed loc = some ((1, b, e), ed1))
    (h : runCmd (f + 1) ed "ec_exec" loc cmd arg txt = some (rc, ed')) : rc = 1 ∧ lines ed' = lines ed := by
  obtain ⟨h1, h2, h3⟩ := filter_splice f ed ed' loc cmd arg txt rc hloc h
  rcases h1 with rfl | rfl
  · obtain ⟨_, _, _, _, _, k, _⟩ := h2 rfl
    rw [hreg] at k
    simp at k
  · exact ⟨rfl, h3 rfl⟩

/-- the splice a filter performs in state `ed` (`rc` its return code) -/
def execSplice (ed : Ed) (loc arg : Bytes) (rc : Int) : C06b.Splice :=
  if rc != 0 then (0, 0, []) else
  match pathExpand ed arg true with
  | some (some ecmd, _) =>
    (match ed.pipe ecmd (ed.cp (C06b.regionOf ed loc).1 (C06b.regionOf ed loc).2) with
    | some (some out) => ((C06b.regionOf ed loc).1.toNat, (C06b.regionOf ed loc).2.toNat, splitLines out)
    | _ => (0, 0, []))
  | _ => (0, 0, [])

/-- the reference splice of a line command, filters included -/
def spliceOfX (ed : Ed) (c : C06b.LineCmd) (rc : Int) : C06b.Splice :=
  if c.hd == "ec_exec" then execSplice ed c.loc c.arg rc else C06b.spliceOf ed c rc

/-- a line command covered here: one of `a i c d y pu k = p r rs`, or a filter with an address -/
def CoveredX (c : C06b.LineCmd) : Prop := c.hd ∈ C06b.covered ∨ (c.hd = "ec_exec" ∧ c.loc ≠ [])

/-- **one command is one splice**, filters included -/
theorem cmd_splice_x (f : Nat) (ed ed' : Ed) (c : C06b.LineCmd) (rc : Int) (hc : CoveredX c)
    (h : runCmd (f + 1) ed c.hd c.loc c.cmd c.arg c.txt = some (rc, ed')) :
    (spliceOfX ed c rc).1 ≤ (spliceOfX ed c rc).2.1 ∧ (spliceOfX ed c rc).2.1 ≤ (lines ed).length ∧
      lines ed' = C06b.applySplice (lines ed) (spliceOfX ed c rc) := by
  rcases hc with hc | ⟨hc, hloc⟩
  · have hne : (c.hd == "ec_exec") = false := by
      simp only [C06b.covered, List.mem_cons, List.not_mem_nil, or_false] at hc
      rcases hc with k | k | k | k | k | k | k | k | k <;> rw [k] <;> decide
    unfold spliceOfX
    rw [hne]
    exact C06b.cmd_splice f ed ed' c rc hc h
  · obtain ⟨hd, loc, cmd, arg, txt⟩ := c
    simp only [] at hc hloc h
    subst hc
    have hlen := len_eq ed
    obtain ⟨h1, h2, h3⟩ := filter_splice f ed ed' loc cmd arg txt rc hloc h
    simp only [spliceOfX, beq_self_eq_true, if_true, execSplice]
    rcases h1 with rfl | rfl
    · obtain ⟨ecmd, b, e, ed1, k1, k2, k3, k4, k5, k6⟩ := h2 rfl
      have hb : C06b.regionOf ed loc = (b, e) := by simp [C06b.regionOf, k2]
      simp only [bne_self_eq_false, Bool.false_eq_true, if_false, k1, hb]
      rcases k6 with ⟨m1, m2⟩ | ⟨out, m1, m2⟩
      · rw [m1, C06b.applySplice_id]
        exact ⟨Nat.le_refl _, Nat.zero_le _, m2⟩
      · rw [m1]
        exact ⟨by simp only []; omega, by simp only []; omega, m2⟩
    · rw [if_pos (by decide), C06b.applySplice_id]
      exact ⟨Nat.le_refl _, Nat.zero_le _, h3 rfl⟩

/-- run a script of parsed line commands (every command, whatever the previous one returned), collecting the
    reference splices -/
def runScriptX (f : Nat) : Ed → List C06b.LineCmd → Option (List C06b.Splice × Ed)
  | ed, [] => some ([], ed)
  | ed, c :: cs =>
    match runCmd (f + 1) ed c.hd c.loc c.cmd c.arg c.txt with
    | none => none
    | some (rc, ed1) => (runScriptX f ed1 cs).map (fun x => (spliceOfX ed c rc :: x.1, x.2))

/-- **script_frame with filters**: after a script of `a i c d y pu k = p r rs` and filters `[range]!cmd` (any
    addresses, any return codes, any pipe oracle) the text is the initial text put through one splice
    `take b ++ new ++ drop e` per command, each inside the text it applies to: only the addressed range is
    replaced, every other line keeps its bytes and order -/
theorem script_frame_x (f : Nat) : ∀ (script : List C06b.LineCmd) (ed ed' : Ed) (ss : List C06b.Splice),
    (∀ c ∈ script, CoveredX c) → runScriptX f ed script = some (ss, ed') →
    lines ed' = C06b.applySplices (lines ed) ss ∧ ss.length = script.length ∧ C06b.SplicesOk (lines ed) ss := by
  intro script
  induction script with
  | nil =>
    intro ed ed' ss _ h
    simp only [runScriptX, Option.some.injEq, Prod.mk.injEq] at h
    obtain ⟨rfl, rfl⟩ := h
    exact ⟨rfl, rfl, trivial⟩
  | cons c cs ih =>
    intro ed ed' ss hcov h
    simp only [runScriptX] at h
    split at h
    · cases h
    · rename_i rc ed1 hrun
      simp only [Option.map_eq_some_iff, Prod.mk.injEq] at h
      obtain ⟨⟨ss1, ed2⟩, h1, rfl, rfl⟩ := h
      obtain ⟨k1, k2, k3⟩ := cmd_splice_x f ed ed1 c rc (hcov c (by simp)) hrun
      obtain ⟨i1, i2, i3⟩ := ih ed1 ed2 ss1 (fun x hx => hcov x (by simp [hx])) h1
      refine ⟨?_, by simp [i2], ?_⟩
      · simp only [C06b.applySplices, List.foldl_cons]
        rw [← k3]
        exact i1
      · refine ⟨k1, k2, ?_⟩
        rw [← k3]
        exact i3

/-! ## 5. whole command lines -/

/-- a command line holding one command (nothing is left after its argument and text): `ex_command` parses it
    (`parse1`), runs it (`runOne`) and bumps the sequence counter -/
theorem exCommand_one (f : Nat) (ed : Ed) (ln : Bytes) (hne : ln ≠ []) (hlen : ln.length < Gen.EXLEN)
    (hrest : restOf ln = []) :
    exCommand (f + 2) ed ln = (runOne f ed (parse1 ln) 0).map (fun x => (x.1.1, (x.1.2.modifiedAt 0).2)) := by
  rw [exCommand, C06b.exExec_eq_execFrom _ _ _ hlen, C06b.exExec_unfold _ _ _ _ hne]
  cases hr : runOne f ed (parse1 ln) 0 with
  | none => rfl
  | some y =>
    obtain ⟨⟨r, ed1⟩, rest⟩ := y
    have := runOne_rest f ed ln 0 (r, ed1) rest hr
    rw [hrest] at this
    subst this
    simp only [C06b.execFrom_nil, Option.map_some]

/-- **a filter line `[range]!cmd` through `ex_command`**: if the line splits into the address `loc`, the name `!`
    and the argument `arg` with nothing left, the text after the line is the text `ec_exec` leaves
    (`ec_exec_spec`) — the final bump of the sequence counter does not touch it -/
theorem filter_line (f : Nat) (ed ed' : Ed) (ln loc arg : Bytes) (rc : Int) (hne : ln ≠ [])
    (hlen : ln.length < Gen.EXLEN)
    (hparse : parse1 ln = ⟨loc, [33], some ([33], "ec_exec"), arg, []⟩) (hrest : restOf ln = [])
    (h : exCommand (f + 3) ed ln = some (rc, ed')) :
    ∃ ed1, runCmd (f + 1) ed "ec_exec" loc [33] arg none = some (rc, ed1) ∧ lines ed' = lines ed1 := by
  rw [exCommand_one (f + 1) ed ln hne hlen hrest, hparse,
    runOne_known _ _ _ _ [33] "ec_exec" rfl (by decide)] at h
  simp only [Option.map_map, Option.map_eq_some_iff, Function.comp, Prod.mk.injEq] at h
  obtain ⟨⟨r, ed1⟩, h1, rfl, rfl⟩ := h
  exact ⟨ed1, h1, modifiedAt0_lines _⟩

/-! ## examples on a four-line buffer `a`, `b`, `c`, `d` (closed shell, no table entry) -/

def ed4 : Ed := { bufs := [some { path := [], lb := { lines := [[97, 10], [98, 10], [99, 10], [100, 10]] } }] }

/-- the same with register `a` holding the command `1d` -/
def ed4a : Ed := { ed4 with regs := ed4.regs.put 97 [49, 100] 0 }

/-- the same with unsaved changes -/
def ed4d : Ed :=
  { bufs := [some { path := [], lb := { lines := [[97, 10], [98, 10], [99, 10], [100, 10]], unsaved := true } }] }

/-- `2,3!tr a-z A-Z` -/
example : (runCmd 1 ed4 "ec_exec" [50, 44, 51] [33] (strOf "tr a-z A-Z") none).map (fun r => (r.1, lines r.2)) =
    some (0, [[97, 10], [66, 10], [67, 10], [100, 10]]) := by rw [ec_exec_eq]; decide +kernel

/-- `2!true` -/
example : (runCmd 1 ed4 "ec_exec" [50] [33] (strOf "true") none).map (fun r => (r.1, lines r.2)) =
    some (0, [[97, 10], [99, 10], [100, 10]]) := by rw [ec_exec_eq]; decide +kernel

/-- `%!cat` -/
example : (runCmd 1 ed4 "ec_exec" [37] [33] (strOf "cat") none).map (fun r => (r.1, lines r.2)) =
    some (0, [[97, 10], [98, 10], [99, 10], [100, 10]]) := by rw [ec_exec_eq]; decide +kernel

/-- `2,3!sed 1q` -/
example : (runCmd 1 ed4 "ec_exec" [50, 44, 51] [33] (strOf "sed 1q") none).map (fun r => (r.1, lines r.2)) =
    some (0, [[97, 10], [98, 10], [100, 10]]) := by rw [ec_exec_eq]; decide +kernel

/-- `2,3!printf x` -/
example : (runCmd 1 ed4 "ec_exec" [50, 44, 51] [33] (strOf "printf x") none).map (fun r => (r.1, lines r.2)) =
    some (0, [[97, 10], [120, 10], [100, 10]]) := by rw [ec_exec_eq]; decide +kernel

/-- `9!cat`: past the end, rejected -/
example : (runCmd 1 ed4 "ec_exec" [57] [33] (strOf "cat") none).map (fun r => (r.1, lines r.2)) =
    some (1, [[97, 10], [98, 10], [99, 10], [100, 10]]) := by rw [ec_exec_eq]; decide +kernel

/-- `2!true` on a buffer with unsaved changes: the guard refuses with its message -/
example : (runCmd 1 ed4d "ec_exec" [50] [33] (strOf "true") none).map (fun r => (r.1, lines r.2, r.2.msg)) =
    some (1, [[97, 10], [98, 10], [99, 10], [100, 10]], strOf "buffer modified" ++ [10]) := by rw [ec_exec_eq]; decide +kernel

/-- `:!cat` without an address: unmodelled -/
example : (runCmd 1 ed4 "ec_exec" [] [33] (strOf "cat") none).map (fun r => (r.1, lines r.2, r.2.unmodelled)) =
    some (0, [[97, 10], [98, 10], [99, 10], [100, 10]], true) := by rw [ec_exec_eq]; decide +kernel

/-- a table entry wins over the closed shell: `2!cat` with the oracle answering `x\ny` for the input `b` -/
example : (runCmd 1 { ed4 with pipes := [(strOf "cat", [98, 10], some [120, 10, 121])] } "ec_exec" [50] [33]
      (strOf "cat") none).map (fun r => (r.1, lines r.2)) =
    some (0, [[97, 10], [120, 10], [121, 10], [99, 10], [100, 10]]) := by rw [ec_exec_eq]; decide +kernel

/-- the same with `wa` set: the guard is off -/
def ed4w : Ed := { ed4 with xwa := 1 }

/-- a script with filters (`wa` set): `2,3!tr a-z A-Z`, `1d`, `9!cat` (rejected), `$!printf x`; its splices and
    its result -/
example : (runScriptX 0 ed4w [⟨"ec_exec", [50, 44, 51], [33], strOf "tr a-z A-Z", none⟩,
      ⟨"ec_delete", [49], [100], [], none⟩, ⟨"ec_exec", [57], [33], strOf "cat", none⟩,
      ⟨"ec_exec", [36], [33], strOf "printf x", none⟩]).map (fun r => (r.1, lines r.2)) =
    some ([(1, 3, [[66, 10], [67, 10]]), (0, 1, []), (0, 0, []), (2, 3, [[120, 10]])],
      [[66, 10], [67, 10], [120, 10]]) := by
  simp only [runScriptX, runCmd, String.reduceBEq, Bool.false_eq_true, ↓reduceIte, Bool.or_self, Bool.or_false]
  decide +kernel

/-- the same script without `wa`: after the first filter the buffer has unsaved changes, so the guard refuses the
    last one (the third is rejected by the guard as well, before its address is looked at) -/
example : (runScriptX 0 ed4 [⟨"ec_exec", [50, 44, 51], [33], strOf "tr a-z A-Z", none⟩,
      ⟨"ec_delete", [49], [100], [], none⟩, ⟨"ec_exec", [57], [33], strOf "cat", none⟩,
      ⟨"ec_exec", [36], [33], strOf "printf x", none⟩]).map (fun r => (r.1, lines r.2)) =
    some ([(1, 3, [[66, 10], [67, 10]]), (0, 1, []), (0, 0, []), (0, 0, [])],
      [[66, 10], [67, 10], [100, 10]]) := by
  simp only [runScriptX, runCmd, String.reduceBEq, Bool.false_eq_true, ↓reduceIte, Bool.or_self, Bool.or_false]
  decide +kernel

/-- the command `1d` as a simple command line -/
def cmd1d : Cmd1 := ⟨[49], [100], [], [], []⟩

theorem cmd1d_ok : cmd1d.Ok [] where
  simple := {
    loc_ok := by decide
    w_alpha := by decide
    w_len := by decide
    w_k := by decide
    sfx_ok := by decide
    sp_ok := by decide
    arg_ok := by decide
    arg_start := by decide
    t_ok := Or.inl rfl
    name_end := by decide
    bare := by intro h; cases h }
  plain := by decide
  notRs := by decide

/-- the hypothesis of `at_runs_covered_line` can be met -/
theorem cmd1d_covered : C06b.CoveredLine cmd1d :=
  ⟨cmd1d_ok, by decide, by decide, [100], "ec_delete", by decide, by decide⟩

theorem ed4a_reg : regGet ed4a (regName [97]) = some cmd1d.bytes := by decide +kernel

/-- `@a` with register `a` holding `1d`: through `ec_at_runs` (the register's text is run as a command line at the
    current line) and `C06b.exCommand_line` -/
example : (runCmd 5 ed4a "ec_at" [] [64] [97] none).map (fun r => (r.1, lines r.2)) =
    some (0, [[98, 10], [99, 10], [100, 10]]) := by
  rw [ec_at_dispatch, ec_at_runs 3 ed4a ed4a [] [64] [97] cmd1d.bytes _ _ ed4a_reg
      (C06b.region_noaddr ed4a (by decide) (by decide)) (by decide) (by decide),
    C06b.exCommand_line 1 _ cmd1d [100] "ec_delete" cmd1d_ok (by decide) (by decide) (by decide), runCmd]
  decide +kernel

/-- the address `3` on this buffer -/
theorem region_ed4a_3 : exRegion ed4a [51] = some ((0, 2, 3), ed4a) := by
  cases hr : exRegion ed4a [51] with
  | none =>
    have : (exRegion ed4a [51]).isSome = true := by decide +kernel
    rw [hr] at this; cases this
  | some z =>
    obtain ⟨⟨r, b, e⟩, ed1⟩ := z
    have hv : (exRegion ed4a [51]).map (fun x => (x.1, x.2.xrow, x.2.xkwd, x.2.xkwddir)) =
        some ((0, 2, 3), 0, [], 0) := by decide +kernel
    rw [hr] at hv
    simp only [Option.map_some, Option.some.injEq, Prod.mk.injEq] at hv
    obtain ⟨⟨rfl, rfl, rfl⟩, h1, h2, h3⟩ := hv
    obtain ⟨r', k', d', rfl⟩ := (region_all _ _ _ _ _ _ hr).1
    simp only [] at h1 h2 h3
    subst h1 h2 h3
    rfl

/-- `3@a`: the current line moves to line 3 first, then `1d` runs (and leaves the current line at 0) -/
example : (runCmd 5 ed4a "ec_at" [51] [64] [97] none).map (fun r => (r.1, lines r.2, r.2.xrow)) =
    some (0, [[98, 10], [99, 10], [100, 10]], 0) := by
  rw [ec_at_dispatch, ec_at_runs 3 ed4a ed4a [51] [64] [97] cmd1d.bytes _ _ ed4a_reg region_ed4a_3 (by decide) (by decide),
    C06b.exCommand_line 1 _ cmd1d [100] "ec_delete" cmd1d_ok (by decide) (by decide) (by decide), runCmd]
  decide +kernel

/-- `9@a`: rejected -/
example : (runCmd 5 ed4a "ec_at" [57] [64] [97] none).map (fun r => (r.1, lines r.2)) =
    some (1, [[97, 10], [98, 10], [99, 10], [100, 10]]) := by
  rw [ec_at_dispatch, ecAt]; decide +kernel

/-- `@b` with register `b` unset: rejected -/
example : (runCmd 5 ed4a "ec_at" [] [64] [98] none).map (fun r => (r.1, lines r.2)) =
    some (1, [[97, 10], [98, 10], [99, 10], [100, 10]]) := by
  rw [ec_at_dispatch, ecAt]; decide +kernel

/-- `2,3!tr a-z A-Z` as a line -/
def lineTr : Bytes := [50, 44, 51, 33, 116, 114, 32, 97, 45, 122, 32, 65, 45, 90]

theorem parse_lineTr : parse1 lineTr = ⟨[50, 44, 51], [33], some ([33], "ec_exec"), strOf "tr a-z A-Z", []⟩ := by
  have h : (parse1 lineTr).loc = [50, 44, 51] ∧ (parse1 lineTr).cmd = [33] ∧
      (parse1 lineTr).idx = some ([33], "ec_exec") ∧ (parse1 lineTr).arg = strOf "tr a-z A-Z" ∧
      (parse1 lineTr).rest = [] := by decide +kernel
  cases hp : parse1 lineTr
  rw [hp] at h
  simp only [] at h
  obtain ⟨rfl, rfl, rfl, rfl, rfl⟩ := h
  rfl

/-- the whole line through `ex_command` -/
example : (exCommand 3 ed4 lineTr).map (fun r => (r.1, lines r.2)) =
    some (0, [[97, 10], [66, 10], [67, 10], [100, 10]]) := by
  rw [exCommand_one 1 _ _ (by decide) (by decide) (by decide +kernel),
    parse_lineTr, runOne_known _ _ _ _ [33] "ec_exec" rfl (by decide), ec_exec_eq]
  decide +kernel

end Neatvi.Props.C06c
