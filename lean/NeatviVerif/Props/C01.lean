import NeatviVerif.Model.LbufIo
/-!
# C01  Write-out equals buffer text; read-then-write reproduces the file byte for byte
-/
namespace Neatvi.Props.C01
open Neatvi Neatvi.Lbuf Neatvi.LbufIo Neatvi.Sbuf

/-- does the string lack a final newline (and is non-empty)? -/
def needNl : Bytes → Bool
  | [] => false
  | [b] => b != 10
  | _ :: r => needNl r

theorem needNl_append (a b : Bytes) : needNl (a ++ b) = if b = [] then needNl a else needNl b := by
  induction a with
  | nil => cases b <;> simp [needNl]
  | cons x a ih =>
    cases a with
    | nil =>
      cases b with
      | nil => simp
      | cons y b => simp [needNl]
    | cons y a =>
      simp only [List.cons_append, needNl] at ih ⊢
      exact ih

theorem needNl_no10 (cur : Bytes) (h : 10 ∉ cur) (hne : cur ≠ []) : needNl cur = true := by
  induction cur with
  | nil => exact absurd rfl hne
  | cons x r ih =>
    cases r with
    | nil => simp [needNl]; intro hx; subst hx; simp at h
    | cons y r =>
      simp only [needNl]
      exact ih (fun hm => h (by simp [hm])) (by simp)

/-- the stored lines, concatenated, are the text read, with one newline appended only when the
    last line lacked one -/
theorem split_join_aux (s cur : Bytes) (h : 10 ∉ cur) :
    (splitAux s cur).flatten = cur ++ s ++ (if needNl (cur ++ s) then [10] else []) := by
  induction s generalizing cur with
  | nil =>
    simp only [splitAux]
    by_cases hc : cur = []
    · subst hc; simp [needNl]
    · simp [hc, needNl_no10 cur h hc]
  | cons b r ih =>
    simp only [splitAux]
    by_cases hb : b = 10
    · subst hb
      simp only [if_true, List.flatten_cons]
      rw [ih [] (by simp)]
      simp only [List.nil_append]
      rw [needNl_append cur (10 :: r)]
      simp only [List.cons_ne_nil, if_false]
      cases r with
      | nil => simp [needNl]
      | cons y r => simp [needNl]; try rfl
    · simp only [hb, if_false]
      rw [ih (cur ++ [b]) (by simp; exact ⟨h, fun h' => hb h'.symm⟩)]
      simp

theorem split_join (s : Bytes) :
    (splitLines s).flatten = s ++ (if needNl s then [10] else []) := by
  have := split_join_aux s [] (by simp)
  simpa [splitLines] using this

/-- a stored line: bytes without newline followed by exactly one newline -/
def WfLine (l : Bytes) : Prop := ∃ w, l = w ++ [10] ∧ 10 ∉ w

theorem lines_wf_aux (s cur : Bytes) (h : 10 ∉ cur) : ∀ l ∈ splitAux s cur, WfLine l := by
  induction s generalizing cur with
  | nil =>
    simp only [splitAux]
    split
    · simp
    · intro l hl; simp at hl; exact ⟨cur, hl, h⟩
  | cons b r ih =>
    simp only [splitAux]
    split
    · intro l hl
      simp at hl
      rcases hl with hl | hl
      · exact ⟨cur, hl, h⟩
      · exact ih [] (by simp) l hl
    · next hb => exact ih (cur ++ [b]) (by simp; exact ⟨h, fun h' => hb h'.symm⟩)

/-- every line the buffer stores ends in exactly one newline and contains no other -/
theorem lines_wf (s : Bytes) : ∀ l ∈ splitLines s, WfLine l := lines_wf_aux s [] (by simp)

theorem splitAux_prefix (w s cur : Bytes) (hw : 10 ∉ w) : splitAux (w ++ s) cur = splitAux s (cur ++ w) := by
  induction w generalizing cur with
  | nil => simp
  | cons x w ih =>
    have hx : x ≠ 10 := fun h => hw (by simp [h])
    simp only [List.cons_append, splitAux, hx, if_false]
    rw [ih (cur ++ [x]) (fun h => hw (by simp [h]))]
    simp

/-- re-splitting the concatenation of stored lines gives the same lines back
    (this is what undo and redo rely on) -/
theorem split_of_join (L : List Bytes) (h : ∀ l ∈ L, WfLine l) : splitLines L.flatten = L := by
  induction L with
  | nil => rfl
  | cons l L ih =>
    obtain ⟨w, hl, hw⟩ := h l (by simp)
    subst hl
    simp only [splitLines, List.flatten_cons, List.append_assoc]
    rw [splitAux_prefix w _ [] hw]
    simp only [List.nil_append, List.singleton_append, splitAux, if_true]
    congr 1
    exact ih (fun l hl => h l (by simp [hl]))

/-! ### sbuf: the read buffer never overflows -/

def SbInv (sb : Sb) : Prop := sb.s.length + 1 ≤ sb.sz ∨ (sb.sz = 0 ∧ sb.s = [])

theorem sbufsz_pow2 : Gen.SBUFSZ = 2 ^ 7 := by decide

theorem alignUp_ge (n : Nat) : n ≤ alignUp n Gen.SBUFSZ := by
  unfold alignUp
  have h : 0 < Gen.SBUFSZ := by decide
  have := Nat.mod_lt (n + Gen.SBUFSZ - 1) h
  omega

theorem mem_ok (sb : Sb) (x : Bytes) (h : SbInv sb) :
    ∃ sb', Sbuf.mem sb x = some sb' ∧ sb'.s = sb.s ++ x ∧ SbInv sb' := by
  unfold Sbuf.mem
  simp only []
  by_cases hc : sb.s.length + x.length + 1 ≥ sb.sz
  · simp only [hc, if_true]
    have h1 := alignUp_ge (max (sb.sz * 2) (sb.sz + (x.length + 1)))
    have h2 : sb.s.length ≤ sb.sz := by rcases h with h | ⟨h, h'⟩ <;> simp_all <;> omega
    have h3 : sb.s.length + x.length + 1 ≤ nextSz sb.sz (x.length + 1) := by unfold nextSz; omega
    rw [if_pos (by omega)]
    exact ⟨_, rfl, rfl, Or.inl (by simp; omega)⟩
  · simp only [hc, if_false]
    rw [if_pos (by omega)]
    exact ⟨_, rfl, rfl, Or.inl (by simp; omega)⟩

theorem rdAcc_ok (chunks : List Bytes) (sb : Sb) (h : SbInv sb) :
    ∃ sb', rdAcc chunks sb = some sb' ∧ sb'.s = sb.s ++ chunks.flatten ∧ SbInv sb' := by
  induction chunks generalizing sb with
  | nil => exact ⟨sb, rfl, by simp, h⟩
  | cons c r ih =>
    obtain ⟨sb1, h1, h2, h3⟩ := mem_ok sb c h
    obtain ⟨sb2, h4, h5, h6⟩ := ih sb1 h3
    refine ⟨sb2, ?_, ?_, h6⟩
    · simp only [rdAcc, h1]; exact h4
    · rw [h5, h2]; simp

theorem buf_ok (sb : Sb) (h : SbInv sb) : Sbuf.buf sb = some sb.s := by
  unfold Sbuf.buf
  simp only []
  rcases h with h | ⟨h1, h2⟩
  · have : sb.sz ≠ 0 := by omega
    simp only [this, if_false]; rw [if_pos (by omega)]
  · simp [h1, h2]

theorem takeWhile_all {α : Type} (p : α → Bool) (s : List α) (h : ∀ x ∈ s, p x = true) : s.takeWhile p = s := by
  induction s with
  | nil => rfl
  | cons a s ih =>
    simp only [List.takeWhile_cons, h a (by simp), if_true]
    rw [ih (fun x hx => h x (by simp [hx]))]

theorem setMark_lines (lb : Lb) (c : Nat) (p o : Int) : (setMark lb c p o).lines = lb.lines := by
  unfold setMark; split <;> rfl

theorem opt_lines (lb : Lb) (buf : Option Bytes) (pos n : Nat) : (opt lb buf pos n).lines = lb.lines := rfl

/-- reading a NUL-free file into an empty buffer, for *any* way the kernel chunks the reads,
    stores exactly the lines of the file and never overflows the string buffer -/
theorem rd_any_chunking (chunks : List Bytes) (s : Bytes) (hs : chunks.flatten = s) (hnul : 0 ∉ s) :
    ∃ lb, rd Lbuf.make chunks false 0 0 = some (0, lb) ∧ lb.lines = splitLines s := by
  obtain ⟨sb, h1, h2, h3⟩ := rdAcc_ok chunks {} (Or.inr ⟨rfl, rfl⟩)
  have hsb : sb.s = s := by rw [h2, hs]; rfl
  have hcstr : cstr s = s := by
    unfold cstr
    apply takeWhile_all
    intro x hx; simp; intro h0; subst h0; exact hnul hx
  unfold rd
  simp only [h1, buf_ok sb h3, hsb, hcstr]
  simp only [Bool.false_eq_true, if_false]
  unfold edit
  simp only [Lbuf.make, List.length_nil, Nat.min_self, Nat.zero_le, Nat.min_eq_left, Nat.lt_irrefl, if_false,
    Option.isNone_some, Bool.and_false, Bool.false_eq_true]
  unfold replace
  simp [setMark_lines, opt_lines]

/-! ### writing -/

/-- schedules without errors whose counts make progress -/
def GoodSched (sched : List WOut) : Prop := ∀ o ∈ sched, ∃ k, o = WOut.cnt k ∧ 1 ≤ k

theorem writeFully_ok : ∀ (fuel : Nat) (buf : Bytes) (sched : List WOut), GoodSched sched → buf.length ≤ fuel →
    ∃ r, writeFully fuel buf sched = some (true, buf, r) ∧ GoodSched r := by
  intro fuel
  induction fuel with
  | zero =>
    intro buf sched hs hf
    have : buf = [] := by cases buf <;> simp_all
    subst this; exact ⟨sched, by simp [writeFully], hs⟩
  | succ f ih =>
    intro buf sched hs hf
    by_cases hb : buf = []
    · subst hb; exact ⟨sched, by simp [writeFully], hs⟩
    · simp only [writeFully, hb, if_false]
      cases sched with
      | nil => exact ⟨[], rfl, by intro o ho; simp at ho⟩
      | cons o rest =>
        obtain ⟨k, hk, hk1⟩ := hs o (by simp)
        subst hk
        have hrest : GoodSched rest := fun o ho => hs o (by simp [ho])
        have hpos : 0 < buf.length := by cases buf <;> simp_all
        simp only []
        obtain ⟨r, h1, h2⟩ := ih (buf.drop (min k buf.length)) rest hrest (by simp; omega)
        rw [h1]
        exact ⟨r, by simp, h2⟩

/-- loop invariant of `lbuf_wr` under a good schedule -/
structure WrInv (batch : Nat) (done : Bytes) (st : WrState) : Prop where
  ok : st.ok = true
  bytes : st.out ++ st.buf = done
  sz : st.sz = done.length
  fits : st.buf.length ≤ batch
  sched : GoodSched st.sched

theorem wrStep_ok (batch fuel : Nat) (hb : 1 ≤ batch) (hf : batch ≤ fuel) (done : Bytes) (st : WrState) (ln : Bytes)
    (hl : ln.length ≤ fuel) (h : WrInv batch done st) :
    ∃ st', wrStep batch fuel st ln = some st' ∧ WrInv batch (done ++ ln) st' := by
  obtain ⟨hok, hbytes, hsz, hfits, hsched⟩ := h
  unfold wrStep
  simp only [hok, Bool.not_true, Bool.false_eq_true, if_false]
  -- flush
  have s1 : ∃ st1, (if (decide (st.buf.length > 0) && decide (st.buf.length + ln.length > batch)) = true
        then flush fuel st else some st) = some st1 ∧ WrInv batch done st1 ∧
        (st1.buf.length + ln.length ≤ batch ∨ st1.buf = []) := by
    by_cases hc : (decide (st.buf.length > 0) && decide (st.buf.length + ln.length > batch)) = true
    · rw [if_pos hc]
      obtain ⟨r, h1, h2⟩ := writeFully_ok fuel st.buf st.sched hsched (by omega)
      refine ⟨{ st with buf := [], out := st.out ++ st.buf, sched := r, ok := true }, ?_, ?_, Or.inr rfl⟩
      · simp [flush, h1]
      · exact ⟨rfl, by simp [hbytes], hsz, by simp, h2⟩
    · rw [if_neg hc]
      refine ⟨st, rfl, ⟨hok, hbytes, hsz, hfits, hsched⟩, ?_⟩
      simp only [Bool.and_eq_true, decide_eq_true_eq, not_and] at hc
      by_cases h0 : st.buf.length > 0
      · left; have := hc h0; omega
      · right; cases hbuf : st.buf <;> simp_all
  obtain ⟨st1, e1, ⟨hok1, hbytes1, hsz1, hfits1, hsched1⟩, hroom⟩ := s1
  rw [e1]
  simp only [hok1, Bool.not_true, Bool.false_eq_true, if_false]
  by_cases hbig : ln.length ≥ batch
  · rw [if_pos hbig]
    obtain ⟨r, h1, h2⟩ := writeFully_ok fuel ln st1.sched hsched1 hl
    have hbuf : st1.buf = [] := by
      rcases hroom with h | h
      · cases hb1 : st1.buf with
        | nil => rfl
        | cons x xs => rw [hb1] at h; simp at h; omega
      · exact h
    refine ⟨{ st1 with out := st1.out ++ ln, sched := r, ok := true, sz := st1.sz + ln.length }, ?_, ?_⟩
    · simp [direct, h1]
    · refine ⟨rfl, ?_, by simp [hsz1], by simp [hbuf], h2⟩
      simp only [hbuf, List.append_nil] at hbytes1 ⊢
      rw [hbytes1]
  · rw [if_neg hbig]
    have hroom' : st1.buf.length + ln.length ≤ batch := by
      rcases hroom with h | h
      · exact h
      · rw [h]; simp; omega
    rw [if_pos hroom']
    refine ⟨{ st1 with buf := st1.buf ++ ln, sz := st1.sz + ln.length }, ?_, ?_⟩
    · simp [hok1]
    · exact ⟨hok1, by simp [← hbytes1], by simp [hsz1], by simpa using hroom', hsched1⟩

theorem wrLoop_ok (batch fuel : Nat) (hb : 1 ≤ batch) (hf : batch ≤ fuel) (ls : List Bytes) (hl : ∀ l ∈ ls, l.length ≤ fuel) :
    ∀ (done : Bytes) (st : WrState), WrInv batch done st →
      ∃ st', wrLoop batch fuel ls st = some st' ∧ WrInv batch (done ++ ls.flatten) st' := by
  induction ls with
  | nil => intro done st h; exact ⟨st, rfl, by simpa using h⟩
  | cons l ls ih =>
    intro done st h
    obtain ⟨st1, h1, h2⟩ := wrStep_ok batch fuel hb hf done st l (hl l (by simp)) h
    obtain ⟨st2, h3, h4⟩ := ih (fun x hx => hl x (by simp [hx])) (done ++ l) st1 h2
    refine ⟨st2, ?_, by simpa using h4⟩
    simp only [wrLoop, h1]; exact h3

/-- the bytes produced by writing lines `[b, e)` are exactly their concatenation and the recorded
    size is its length — for every batch size, every schedule of short writes, every fuel that
    covers the longest line -/
theorem wr_stream (lines : List Bytes) (b e batch fuel : Nat) (sched : List WOut)
    (he : e ≤ lines.length) (hb : 1 ≤ batch) (hf : batch ≤ fuel) (hl : ∀ l ∈ lines, l.length ≤ fuel)
    (hs : GoodSched sched) :
    wr lines b e batch fuel sched =
      some (0, ((lines.drop b).take (e - b)).flatten, some ((lines.drop b).take (e - b)).flatten.length) := by
  unfold wr wrFinal
  rw [if_neg (by omega)]
  have hl' : ∀ l ∈ (lines.drop b).take (e - b), l.length ≤ fuel :=
    fun l h => hl l (List.mem_of_mem_drop (List.mem_of_mem_take h))
  obtain ⟨st, h1, ⟨hok, hbytes, hsz, hfits, hsched⟩⟩ :=
    wrLoop_ok batch fuel hb hf _ hl' [] { sched := sched } ⟨rfl, rfl, rfl, by simp, hs⟩
  simp only [List.nil_append] at hbytes hsz
  rw [h1]
  simp only [hok, Bool.not_true, Bool.false_eq_true, if_false]
  by_cases hbuf : st.buf.length > 0
  · rw [if_pos hbuf]
    obtain ⟨r, h2, _⟩ := writeFully_ok fuel st.buf st.sched hsched (by omega)
    simp only [flush, h2]
    simp [hbytes, hsz]
  · rw [if_neg hbuf]
    have : st.buf = [] := by cases hb' : st.buf <;> simp_all
    simp only [hok, Bool.not_true, Bool.false_eq_true, if_false]
    rw [this] at hbytes; simp at hbytes
    simp [hbytes, hsz]

/-- whatever the target file held before (shorter, equal, longer), afterwards it holds exactly
    the bytes written -/
theorem wr_file (old out : Bytes) : fileAfter old out (some out.length) = out := by
  unfold fileAfter
  simp

/-- read any NUL-free file, under any chunking, and write it back unedited, under any schedule of
    short writes, over any previous content: the result is the file plus one newline iff its last
    line lacked one -/
theorem roundtrip (chunks : List Bytes) (s old : Bytes) (batch fuel : Nat) (sched : List WOut)
    (hs : chunks.flatten = s) (hnul : 0 ∉ s) (hb : 1 ≤ batch) (hf : batch ≤ fuel) (hfl : s.length + 1 ≤ fuel)
    (hg : GoodSched sched) :
    ∃ lb out, rd Lbuf.make chunks false 0 0 = some (0, lb) ∧
      wr lb.lines 0 lb.lines.length batch fuel sched = some (0, out, some out.length) ∧
      fileAfter old out (some out.length) = s ++ (if needNl s then [10] else []) := by
  obtain ⟨lb, h1, h2⟩ := rd_any_chunking chunks s hs hnul
  have hlen : ∀ l ∈ lb.lines, l.length ≤ fuel := by
    intro l hl
    have hsum : l.length ≤ lb.lines.flatten.length := by
      obtain ⟨a, c, hac⟩ := List.append_of_mem hl
      rw [hac]; simp; omega
    rw [h2, split_join] at hsum
    have : (if needNl s = true then [10] else ([] : Bytes)).length ≤ 1 := by split <;> simp
    simp at hsum; omega
  have hw := wr_stream lb.lines 0 lb.lines.length batch fuel sched (Nat.le_refl _) hb hf hlen hg
  simp only [List.drop_zero, Nat.sub_zero, List.take_length] at hw
  refine ⟨lb, lb.lines.flatten, h1, hw, ?_⟩
  rw [wr_file, h2, split_join]

/-! ### non-vacuity -/
example : splitLines [97, 10, 98] = [[97, 10], [98, 10]] ∧ needNl [97, 10, 98] = true := by decide
example : GoodSched [WOut.cnt 1, WOut.cnt 7] := by
  intro o ho; simp at ho; rcases ho with rfl | rfl
  · exact ⟨1, rfl, by omega⟩
  · exact ⟨7, rfl, by omega⟩
example : wr [[97, 10], [98, 99, 10]] 0 2 4 10 [WOut.cnt 1, WOut.cnt 1] = some (0, [97, 10, 98, 99, 10], some 5) := by decide

end Neatvi.Props.C01
