import NeatviVerif.Props.C08b
import NeatviVerif.Lemmas.C08dInput
import NeatviVerif.Lemmas.C08dInsert
/-!
# C08 (fourth part): insert mode over any number of typed lines

1. `led_input` over the typed lines `l₀ ⏎ l₁ ⏎ … ⏎ l_k ESC`: `ledInput_lines_spec` (plain text lines that do
   not start with a blank; with the full frame `Typed`), and `ledInput_multi_line`, which proves the
   statement `ledInput_multi_line_full` left open in `Props/C08b.lean` as written;
2. `vc_insert` for `i a I A` with such a text: `vcInsert_{i,a,A,I}_lines_spec`, `vcInsert_emptyline_lines_spec`
   (the generalisation of `vcInsert_i_newline_spec` from two lines to any number);
3. the same for `o`, `O`: `vcInsert_{o,O}_lines_spec`;
4. checks: the two-line theorems of `Props/C08b.lean` as instances, concrete runs;
5. `vcInsert_full` (the other open statement of `Props/C08b.lean`) is false as written: `vcInsert_full_false`.

All statements are about the model (`Model/Vi.lean`, `Model/ViCmd.lean`), total (`Res.ok`, no trap).
-/
namespace Neatvi.Props.C08d
open Neatvi Neatvi.Uc Neatvi.Vi Neatvi.Ex Neatvi.Spec Neatvi.Lemmas.C08 Neatvi.Lemmas.C08b Neatvi.Lemmas.C09
open Neatvi.Lemmas.C08d Neatvi.Props.C08b

/-! ## 1. `led_input` over any number of lines -/

/-- a typed line (`PlainLine`): valid code points, no control characters, not DEL; not empty and not
starting with a blank (blanks inside and at the end are allowed); within the bound of the model's loop -/
theorem plainLine_iff (l : List Nat) : PlainLine l ↔
    (∀ c ∈ l, ValidCp c ∧ 32 ≤ c ∧ c ≠ 127) ∧ (l.head? ≠ none ∧ l.head? ≠ some 32) ∧ l.length < 100000 :=
  Iff.rfl

/-- in particular a non-empty line without any blank, as `ledInput_multi_line_full` has it -/
theorem plainLine_of_noblank {l : List Nat}
    (h : (∀ c ∈ l, ValidCp c ∧ 32 < c ∧ c ≠ 127) ∧ l ≠ [] ∧ l.length < 100000) : PlainLine l :=
  Lemmas.C08d.plainLine_of_noblank h

/-- what `Typed` says, field by field: `s'` is `s` after the keys `used` were read (`ReadsEd`: outside the
editor record only the key queue and `icmd` differ), with the same buffers and registers, and the
cursor `n` rows further down -/
theorem typed_iff (used : Bytes) (n : Nat) (s s' : VS) : Typed used n s s' ↔
    ReadsEd used s s' ∧ s'.ed.bufs = s.ed.bufs ∧ s'.ed.xrow = s.ed.xrow + (n : Int) ∧ s'.ed.regs = s.ed.regs :=
  ⟨fun h => ⟨h.frame, h.bufs, h.xrow, h.regs⟩, fun h => ⟨h.1, h.2.1, h.2.2.1, h.2.2.2⟩⟩

/-- in particular the buffer lines are the same -/
theorem typed_lines {used : Bytes} {n : Nat} {s s' : VS} (h : Typed used n s s') : lines s' = lines s := h.lines

/-- the keys of an insertion of the lines `ls`, `last` -/
theorem lineKeys_eq (ls : List (List Nat)) (last : List Nat) :
    lineKeys ls last = (ls.map (fun l => encStr l ++ [10])).flatten ++ encStr last ++ [27] := rfl

/-- **`led_input` over any number of typed lines, with the frame.**  The pending keys are the lines `ls`,
each followed by a newline, then the line `last` and ESC; every line is `PlainLine`.  `led_input` returns
prefix ++ each line of `ls` followed by the newline and the auto-indent (`aiAfterNl`: the leading blanks of
the prefix, at most 127, with `autoindent`; else nothing) ++ `last` ++ the rest of the line, which after a
newline has lost its leading blanks when `autoindent` is set (`postAfterNl`).  The keys are consumed; the
cursor row moved down by the number of newlines; the buffers, the registers and all state outside the
editor record and the key queue are untouched.
(`ledInput_two_lines` of `Props/C08b.lean` is the case `ls = [cs1]`.) -/
theorem ledInput_lines_spec (pref post : Bytes) (s : VS) (ls : List (List Nat)) (last : List Nat) (rest : Bytes)
    (hp : pending s = (ls.map (fun l => encStr l ++ [10])).flatten ++ encStr last ++ [27] ++ rest)
    (hpl : ∀ l ∈ last :: ls, PlainLine l) (hlen : ls.length < 100000) (hk : s.xkmap = 0) :
    ∃ s', ledInput pref post s =
        Res.ok (pref ++ (ls.map (fun l => encStr l ++ [10] ++ aiAfterNl s pref)).flatten ++ encStr last ++
          (if ls = [] then post else postAfterNl s post), if ls = [] then post else postAfterNl s post) s' ∧
      pending s' = rest ∧ Typed ((ls.map (fun l => encStr l ++ [10])).flatten ++ encStr last ++ [27]) ls.length s s' :=
  ledInput_lines pref post s ls last rest hp hpl hlen hk

/-- **M1**: the statement left open in `Props/C08b.lean` §7 holds as written (tested on concrete states
first, `section Examples` below; no correction was needed) -/
theorem ledInput_multi_line : ledInput_multi_line_full := by
  intro pref post s ls last rest hp hpl hlen hk
  obtain ⟨s', h1, h2, h3⟩ := ledInput_lines_spec pref post s ls last rest hp
    (fun l hl => plainLine_of_noblank (hpl l hl)) hlen hk
  exact ⟨s', h1, h2, h3.lines, h3.xrow⟩

/-! ## 2. `vc_insert` with a text of any number of lines: `i a I A`

The line under the cursor is `encStr (body ++ [10])`; the keys are the lines `ls` (each ended by a newline),
the line `last` and ESC (`lineKeys ls last`); every typed line is `PlainLine` (`plainLine_iff`).  The row is
replaced by the rows `rowsOf hd ai ls last tail`:

* without a newline (`ls = []`): the one row `hd ++ last ++ tail` (`vcInsert_i_spec`);
* else `hd ++ l₀`, `ai ++ l₁`, …, `ai ++ l_{k-1}`, `ai ++ last ++ tail`

where `hd`, `tail` are the line before / from the insertion point, `ai = aiCp s hd` is the auto-indent (the
leading blanks of `hd`, at most 127, with `autoindent`; else empty) and after a newline the tail has lost
its leading blanks when `autoindent` is set (`tailOf`, `postCp`).  The cursor ends on the last typed
character, `ls.length` rows further down. -/

theorem rowsOf_nil (hd ai last tail : List Nat) : rowsOf hd ai [] last tail = [hd ++ last ++ tail] := rfl

theorem rowsOf_cons (hd ai l : List Nat) (ls : List (List Nat)) (last tail : List Nat) :
    rowsOf hd ai (l :: ls) last tail = (hd ++ l) :: (ls.map (fun x => ai ++ x) ++ [ai ++ last ++ tail]) := rfl

theorem rowLines_eq (rows : List (List Nat)) : rowLines rows = rows.map (fun r => encStr (r ++ [10])) := rfl

theorem tailOf_nil (s : VS) (qs : List Nat) : tailOf s [] qs = qs := rfl
theorem tailOf_cons (s : VS) (l : List Nat) (ls : List (List Nat)) (qs : List Nat) : tailOf s (l :: ls) qs = postCp s qs := rfl
theorem lastHd_nil (hd ai : List Nat) : lastHd hd ai [] = hd := rfl
theorem lastHd_cons (hd ai l : List Nat) (ls : List (List Nat)) : lastHd hd ai (l :: ls) = ai := rfl

/-- the number of rows: one more than the newlines typed -/
theorem rowsOf_length (hd ai : List Nat) (ls : List (List Nat)) (last tail : List Nat) :
    (rowsOf hd ai ls last tail).length = ls.length + 1 := Lemmas.C08d.rowsOf_length hd ai ls last tail

/-- **M2**, `vcInsert_i_lines_spec`: `i` with the cursor on character `o`, then the lines `l₀ ⏎ … ⏎ l_k ESC`:
the row becomes the rows `body.take o ++ l₀`, `ai ++ l₁`, …, `ai ++ l_k ++ tail`; all other rows, the
registers and the state outside the editor record and the key queue are unchanged (`Inserted`) -/
theorem vcInsert_i_lines_spec (s : VS) (body : List Nat) (ls : List (List Nat)) (last : List Nat) (o : Nat) (rest : Bytes)
    (hr0 : 0 ≤ s.ed.xrow) (hline : (lines s)[s.ed.xrow.toNat]? = some (encStr (body ++ [10])))
    (hb : ∀ c ∈ body, ValidCp c) (hb10 : 10 ∉ body) (ho : s.ed.xoff = (o : Int)) (hol : o < body.length)
    (hp : pending s = lineKeys ls last ++ rest) (hpl : ∀ l ∈ last :: ls, PlainLine l)
    (hlen : ls.length < 100000) (hk : s.xkmap = 0) :
    ∃ s', vcInsert 105 s = Res.ok VC_OK s' ∧ pending s' = rest ∧
      Inserted (lineKeys ls last) s s' s.ed.xrow
        (rowLines (rowsOf (body.take o) (aiCp s (body.take o)) ls last (tailOf s ls (body.drop o)))) 1
        (s.ed.xrow + (ls.length : Int))
        (((lastHd (body.take o) (aiCp s (body.take o)) ls).length : Int) + last.length - 1) := by
  obtain ⟨c0, t0, rfl⟩ : ∃ c t, body = c :: t := by
    cases body with
    | nil => simp at hol
    | cons c t => exact ⟨c, t, rfl⟩
  have hl := lineOf_of_get s _ _ hr0 hline
  have hhd := headD_line_ne_ten c0 t0 hb10
  have hx := renNoeol_body (c0 :: t0) hb hb10 o hol
  obtain ⟨e1, e2⟩ := subI_line (c0 :: t0) hb o (by omega)
  rw [vcInsert_i_red s _ _ _ hl (by rw [hhd, ho, hx]; exact e1) (by rw [hhd, ho, hx]; exact e2)]
  exact insertTail_lines_at s _ (c0 :: t0) o ls last rest hr0 hline hb hb10 hp hpl hlen hk

/-- `a`: the same after the cursor character -/
theorem vcInsert_a_lines_spec (s : VS) (body : List Nat) (ls : List (List Nat)) (last : List Nat) (o : Nat) (rest : Bytes)
    (hr0 : 0 ≤ s.ed.xrow) (hline : (lines s)[s.ed.xrow.toNat]? = some (encStr (body ++ [10])))
    (hb : ∀ c ∈ body, ValidCp c) (hb10 : 10 ∉ body) (ho : s.ed.xoff = (o : Int)) (hol : o < body.length)
    (hp : pending s = lineKeys ls last ++ rest) (hpl : ∀ l ∈ last :: ls, PlainLine l)
    (hlen : ls.length < 100000) (hk : s.xkmap = 0) :
    ∃ s', vcInsert 97 s = Res.ok VC_OK s' ∧ pending s' = rest ∧
      Inserted (lineKeys ls last) s s' s.ed.xrow
        (rowLines (rowsOf (body.take (o + 1)) (aiCp s (body.take (o + 1))) ls last (tailOf s ls (body.drop (o + 1))))) 1
        (s.ed.xrow + (ls.length : Int))
        (((lastHd (body.take (o + 1)) (aiCp s (body.take (o + 1))) ls).length : Int) + last.length - 1) := by
  obtain ⟨c0, t0, rfl⟩ : ∃ c t, body = c :: t := by
    cases body with
    | nil => simp at hol
    | cons c t => exact ⟨c, t, rfl⟩
  have hl := lineOf_of_get s _ _ hr0 hline
  have hhd := headD_line_ne_ten c0 t0 hb10
  have hx := renNoeol_body (c0 :: t0) hb hb10 o hol
  obtain ⟨e1, e2⟩ := subI_line (c0 :: t0) hb (o + 1) (by omega)
  rw [vcInsert_a_red s _ _ _ hl (by rw [hhd, ho, hx]; exact e1) (by rw [hhd, ho, hx]; exact e2)]
  exact insertTail_lines_at s _ (c0 :: t0) (o + 1) ls last rest hr0 hline hb hb10 hp hpl hlen hk

/-- `A`: at the end of the (non-empty) line; nothing is left for the last row but the typed text -/
theorem vcInsert_A_lines_spec (s : VS) (body : List Nat) (ls : List (List Nat)) (last : List Nat) (rest : Bytes)
    (hr0 : 0 ≤ s.ed.xrow) (hline : (lines s)[s.ed.xrow.toNat]? = some (encStr (body ++ [10])))
    (hb : ∀ c ∈ body, ValidCp c) (hb10 : 10 ∉ body) (hbne : body ≠ [])
    (hp : pending s = lineKeys ls last ++ rest) (hpl : ∀ l ∈ last :: ls, PlainLine l)
    (hlen : ls.length < 100000) (hk : s.xkmap = 0) :
    ∃ s', vcInsert 65 s = Res.ok VC_OK s' ∧ pending s' = rest ∧
      Inserted (lineKeys ls last) s s' s.ed.xrow (rowLines (rowsOf body (aiCp s body) ls last [])) 1
        (s.ed.xrow + (ls.length : Int)) (((lastHd body (aiCp s body) ls).length : Int) + last.length - 1) := by
  obtain ⟨c0, t0, rfl⟩ : ∃ c t, body = c :: t := by
    cases body with
    | nil => exact absurd rfl hbne
    | cons c t => exact ⟨c, t, rfl⟩
  have hl := lineOf_of_get s _ _ hr0 hline
  have hhd := headD_line_ne_ten c0 t0 hb10
  have he := eol_line s _ (c0 :: t0) hr0 hb hline
  have hx := renNoeol_eol (c0 :: t0) hb hbne
  obtain ⟨e1, e2⟩ := subI_line (c0 :: t0) hb (c0 :: t0).length (Nat.le_refl _)
  have hoff : Ren.renNoeol (encStr (c0 :: t0 ++ [10])) (Mot.eol (lines s) s.ed.xrow) + 1 = ((c0 :: t0).length : Int) := by
    rw [he, hx]; omega
  rw [vcInsert_A_red s _ _ _ hl (by rw [hhd]; simp only [Bool.false_eq_true, if_false]; rw [hoff]; exact e1)
    (by rw [hhd]; simp only [Bool.false_eq_true, if_false]; rw [hoff]; exact e2)]
  obtain ⟨s', h1, h2, h3⟩ := insertTail_lines_at s (Ren.renNoeol (encStr (c0 :: t0 ++ [10])) (Mot.eol (lines s) s.ed.xrow))
    (c0 :: t0) (c0 :: t0).length ls last rest hr0 hline hb hb10 hp hpl hlen hk
  refine ⟨s', h1, h2, ?_⟩
  have htl : tailOf s ls [] = [] := by
    unfold tailOf postCp
    split
    · rfl
    · split <;> rfl
  rw [List.take_length, List.drop_length, htl] at h3
  exact h3

/-- `I`: before the first non-blank character (the line is not all blank) -/
theorem vcInsert_I_lines_spec (s : VS) (body : List Nat) (ls : List (List Nat)) (last : List Nat) (rest : Bytes)
    (hr0 : 0 ≤ s.ed.xrow) (hline : (lines s)[s.ed.xrow.toNat]? = some (encStr (body ++ [10])))
    (hb : ∀ c ∈ body, ValidCp c) (hb10 : 10 ∉ body)
    (hk' : (body.takeWhile ucIsSpace).length < body.length)
    (hp : pending s = lineKeys ls last ++ rest) (hpl : ∀ l ∈ last :: ls, PlainLine l)
    (hlen : ls.length < 100000) (hk : s.xkmap = 0) :
    ∃ s', vcInsert 73 s = Res.ok VC_OK s' ∧ pending s' = rest ∧
      Inserted (lineKeys ls last) s s' s.ed.xrow
        (rowLines (rowsOf (body.take (body.takeWhile ucIsSpace).length)
          (aiCp s (body.take (body.takeWhile ucIsSpace).length)) ls last
          (tailOf s ls (body.drop (body.takeWhile ucIsSpace).length)))) 1
        (s.ed.xrow + (ls.length : Int))
        (((lastHd (body.take (body.takeWhile ucIsSpace).length)
          (aiCp s (body.take (body.takeWhile ucIsSpace).length)) ls).length : Int) + last.length - 1) := by
  obtain ⟨c0, t0, rfl⟩ : ∃ c t, body = c :: t := by
    cases body with
    | nil => simp at hk'
    | cons c t => exact ⟨c, t, rfl⟩
  have hl := lineOf_of_get s _ _ hr0 hline
  have hhd := headD_line_ne_ten c0 t0 hb10
  have hi := indents_line s _ (c0 :: t0) hr0 hb hb10 hline hk'
  have hx := renNoeol_body (c0 :: t0) hb hb10 _ hk'
  obtain ⟨e1, e2⟩ := subI_line (c0 :: t0) hb _ (Nat.le_of_lt hk')
  rw [vcInsert_I_red s _ _ _ hl (by rw [hhd, hi, hx]; exact e1) (by rw [hhd, hi, hx]; exact e2)]
  exact insertTail_lines_at s _ (c0 :: t0) _ ls last rest hr0 hline hb hb10 hp hpl hlen hk

/-- on an empty line `i`, `a`, `I`, `A` all put the typed lines in its place -/
theorem vcInsert_emptyline_lines_spec (cmd : Nat) (hcmd : cmd = 105 ∨ cmd = 97 ∨ cmd = 73 ∨ cmd = 65)
    (s : VS) (ls : List (List Nat)) (last : List Nat) (rest : Bytes)
    (hr0 : 0 ≤ s.ed.xrow) (hline : (lines s)[s.ed.xrow.toNat]? = some [10])
    (hp : pending s = lineKeys ls last ++ rest) (hpl : ∀ l ∈ last :: ls, PlainLine l)
    (hlen : ls.length < 100000) (hk : s.xkmap = 0) :
    ∃ s', vcInsert cmd s = Res.ok VC_OK s' ∧ pending s' = rest ∧
      Inserted (lineKeys ls last) s s' s.ed.xrow (rowLines (ls ++ [last])) 1
        (s.ed.xrow + (ls.length : Int)) ((last.length : Int) - 1) := by
  have hl := lineOf_of_get s _ _ hr0 hline
  have e1 : subI [10] 0 0 = some [] := (subI_line [] (by simp) 0 (Nat.le_refl _)).1
  have e2 : subI [10] 0 (-1) = some [10] := (subI_line [] (by simp) 0 (Nat.le_refl _)).2
  have hh : (([10] : Bytes).headD 0 == 10) = true := rfl
  have hai : aiCp s [] = [] := by unfold aiCp; split <;> rfl
  have htl : tailOf s ls [] = [] := by
    unfold tailOf postCp
    split
    · rfl
    · split <;> rfl
  have hrows : rowsOf [] [] ls last [] = ls ++ [last] := by
    cases ls with
    | nil => simp [rowsOf]
    | cons l ls' => simp [rowsOf]
  have hlh : lastHd ([] : List Nat) [] ls = [] := by unfold lastHd; split <;> rfl
  have key : ∀ x : Int, ∃ s', insertTail [] [10] { s with ed := { s.ed with xoff := x } } = Res.ok VC_OK s' ∧
      pending s' = rest ∧
      Inserted (lineKeys ls last) s s' s.ed.xrow (rowLines (ls ++ [last])) 1
        (s.ed.xrow + (ls.length : Int)) ((last.length : Int) - 1) := by
    intro x
    obtain ⟨s', h1, h2, h3⟩ := insertTail_lines_at s x [] 0 ls last rest hr0 hline (by simp) (by simp) hp hpl hlen hk
    refine ⟨s', h1, h2, ?_⟩
    simp only [List.take_nil, List.drop_nil, hai, htl, hrows, hlh, List.length_nil] at h3
    simpa using h3
  rcases hcmd with rfl | rfl | rfl | rfl
  · rw [vcInsert_i_red s _ _ _ hl (by rw [hh]; exact e1) (by rw [hh]; exact e2)]; exact key _
  · rw [vcInsert_a_red s _ _ _ hl (by rw [hh]; exact e1) (by rw [hh]; exact e2)]; exact key _
  · rw [vcInsert_I_red s _ _ _ hl (by rw [hh]; exact e1) (by rw [hh]; exact e2)]; exact key _
  · rw [vcInsert_A_red s _ _ _ hl (by rw [hh]; exact e1) (by rw [hh]; exact e2)]; exact key _

/-! ## 3. `o`, `O` with a text of any number of lines

The new rows start with the indentation of the current line (`indentOf`: its leading blanks with
`autoindent`), the continuation rows with the auto-indent computed from it (the same blanks, at most 127:
`aiCp_indentOf`); nothing follows the last typed line. -/

/-- the auto-indent of the continuation rows after `o` / `O`: the indentation, cut at 127 blanks -/
theorem aiCp_indentOf (s : VS) (body : List Nat) : aiCp s (indentOf s body) = (indentOf s body).take 127 := by
  unfold aiCp indentOf
  cases s.xai
  · rfl
  · simp only [if_true]
    rw [takeWhile_all isBlankC _ (blanks_takeWhile body)]

/-- **M3**, `vcInsert_o_lines_spec`: `o`, then the lines `l₀ ⏎ … ⏎ l_k ESC`: the rows `ind ++ l₀`, `ai ++ l₁`, …,
`ai ++ l_k` are inserted below the current row; the cursor ends on the last typed character of the last -/
theorem vcInsert_o_lines_spec (s : VS) (body : List Nat) (ls : List (List Nat)) (last : List Nat) (rest : Bytes)
    (hr0 : 0 ≤ s.ed.xrow) (hline : (lines s)[s.ed.xrow.toNat]? = some (encStr (body ++ [10])))
    (hb : ∀ c ∈ body, ValidCp c) (hb10 : 10 ∉ body)
    (hp : pending s = lineKeys ls last ++ rest) (hpl : ∀ l ∈ last :: ls, PlainLine l)
    (hlen : ls.length < 100000) (hk : s.xkmap = 0) :
    ∃ s', vcInsert 111 s = Res.ok VC_OK s' ∧ pending s' = rest ∧
      Inserted (lineKeys ls last) s s' (s.ed.xrow + 1)
        (rowLines (rowsOf (indentOf s body) (aiCp s (indentOf s body)) ls last [])) 0
        (s.ed.xrow + 1 + (ls.length : Int))
        (((lastHd (indentOf s body) (aiCp s (indentOf s body)) ls).length : Int) + last.length - 1) := by
  have hl := lineOf_of_get s _ _ hr0 hline
  obtain ⟨lb, hlb⟩ := lb_of_line s _ _ hline
  have hrlt : s.ed.xrow.toNat < (lines s).length := (List.getElem?_eq_some_iff.mp hline).1
  obtain ⟨hi, hi10⟩ := indentOf_valid s body hb hb10
  rw [vcInsert_o_red s _ hl, viIndents_line s body hb]
  obtain ⟨ed1, he1, hx1, hb1, hr1⟩ := nextlineSt_eq { s with ed := { s.ed with xoff := Ren.renNoeol (encStr (body ++ [10])) s.ed.xoff } }
  rw [he1]
  have hlines : lines { s with ed := ed1 } = lines s := lines_of_bufs s ed1 hb1
  obtain ⟨s', h1, h2, h3⟩ := openTail_lines (indentOf s body) { s with ed := ed1 } ls last rest lb
    (by rw [lb_of_bufs s ed1 hb1]; exact hlb)
    (by show 0 ≤ ed1.xrow; rw [hx1]; show 0 ≤ s.ed.xrow + 1; omega)
    (by show ed1.xrow ≤ lenOf _; unfold lenOf; rw [hlines, hx1]; show s.ed.xrow + 1 ≤ _; omega)
    (by unfold lenOf; rw [hlines]; omega) hi hi10 hp hpl hlen hk
  refine ⟨s', h1, h2, ?_⟩
  have hx : ({ s with ed := ed1 } : VS).ed.xrow = s.ed.xrow + 1 := hx1
  rw [hx] at h3
  exact h3.of_ed hb1 hr1

/-- `O`: the same above the current row -/
theorem vcInsert_O_lines_spec (s : VS) (body : List Nat) (ls : List (List Nat)) (last : List Nat) (rest : Bytes)
    (hr0 : 0 ≤ s.ed.xrow) (hline : (lines s)[s.ed.xrow.toNat]? = some (encStr (body ++ [10])))
    (hb : ∀ c ∈ body, ValidCp c) (hb10 : 10 ∉ body)
    (hp : pending s = lineKeys ls last ++ rest) (hpl : ∀ l ∈ last :: ls, PlainLine l)
    (hlen : ls.length < 100000) (hk : s.xkmap = 0) :
    ∃ s', vcInsert 79 s = Res.ok VC_OK s' ∧ pending s' = rest ∧
      Inserted (lineKeys ls last) s s' s.ed.xrow
        (rowLines (rowsOf (indentOf s body) (aiCp s (indentOf s body)) ls last [])) 0
        (s.ed.xrow + (ls.length : Int))
        (((lastHd (indentOf s body) (aiCp s (indentOf s body)) ls).length : Int) + last.length - 1) := by
  have hl := lineOf_of_get s _ _ hr0 hline
  obtain ⟨lb, hlb⟩ := lb_of_line s _ _ hline
  have hrlt : s.ed.xrow.toNat < (lines s).length := (List.getElem?_eq_some_iff.mp hline).1
  obtain ⟨hi, hi10⟩ := indentOf_valid s body hb hb10
  rw [vcInsert_O_red s _ hl, viIndents_line s body hb]
  obtain ⟨s', h1, h2, h3⟩ := openTail_lines (indentOf s body)
    { s with ed := { s.ed with xoff := Ren.renNoeol (encStr (body ++ [10])) s.ed.xoff } } ls last rest lb hlb hr0
    (by show s.ed.xrow ≤ ((lines s).length : Int); omega) (by show ((lines s).length : Int) ≠ 0; omega)
    hi hi10 hp hpl hlen hk
  exact ⟨s', h1, h2, h3.of_ed rfl rfl⟩

/-! ## 4. checks: the two-line theorem of `Props/C08b.lean` as an instance, and concrete runs -/

/-- the hypotheses of the two-line theorems give `PlainLine` -/
theorem plainLine_of_two (cs1 cs2 : List Nat) (hpl : ∀ c ∈ cs1 ++ cs2, ValidCp c ∧ 32 ≤ c ∧ c ≠ 127)
    (hne1 : cs1.head? ≠ none ∧ cs1.head? ≠ some 32) (hne2 : cs2.head? ≠ none ∧ cs2.head? ≠ some 32)
    (hlen1 : cs1.length < 100000) (hlen2 : cs2.length < 100000) : ∀ l ∈ cs2 :: [cs1], PlainLine l := by
  intro l hl
  simp only [List.mem_cons, List.not_mem_nil, or_false] at hl
  rcases hl with rfl | rfl
  · exact ⟨fun c hc => hpl c (List.mem_append_right _ hc), hne2, hlen2⟩
  · exact ⟨fun c hc => hpl c (List.mem_append_left _ hc), hne1, hlen1⟩

/-- `ledInput_two_lines` (`Props/C08b.lean`), under its own hypotheses, is the instance `ls = [cs1]`,
`last = cs2` of `ledInput_lines_spec` -/
example (pref post : Bytes) (s : VS) (cs1 cs2 : List Nat) (rest : Bytes)
    (hp : pending s = encStr cs1 ++ [10] ++ encStr cs2 ++ [27] ++ rest)
    (hpl : ∀ c ∈ cs1 ++ cs2, ValidCp c ∧ 32 ≤ c ∧ c ≠ 127)
    (hne1 : cs1.head? ≠ none ∧ cs1.head? ≠ some 32) (hne2 : cs2.head? ≠ none ∧ cs2.head? ≠ some 32)
    (hlen1 : cs1.length < 100000) (hlen2 : cs2.length < 100000) (hk : s.xkmap = 0) :
    ∃ s', ledInput pref post s =
        Res.ok (pref ++ encStr cs1 ++ [10] ++ aiAfterNl s pref ++ encStr cs2 ++ postAfterNl s post, postAfterNl s post) s' ∧
      pending s' = rest ∧ ReadsEd (encStr cs1 ++ [10] ++ encStr cs2 ++ [27]) s s' ∧
      lines s' = lines s ∧ s'.ed.xrow = s.ed.xrow + 1 ∧ s'.ed.regs = s.ed.regs := by
  obtain ⟨s', a1, a2, a3⟩ := ledInput_lines_spec pref post s [cs1] cs2 rest (by rw [hp]; simp)
    (plainLine_of_two cs1 cs2 hpl hne1 hne2 hlen1 hlen2) (by simp) hk
  refine ⟨s', ?_, a2, ?_, a3.lines, a3.xrow, a3.regs⟩
  · rw [a1]; simp
  · have := a3.frame
    simpa using this

/-- `vcInsert_i_newline_spec` (`Props/C08b.lean`), under its own hypotheses, is the instance `ls = [cs1]`,
`last = cs2` of `vcInsert_i_lines_spec` -/
example (s : VS) (body cs1 cs2 : List Nat) (o : Nat) (rest : Bytes)
    (hr0 : 0 ≤ s.ed.xrow) (hline : (lines s)[s.ed.xrow.toNat]? = some (encStr (body ++ [10])))
    (hb : ∀ c ∈ body, ValidCp c) (hb10 : 10 ∉ body) (ho : s.ed.xoff = (o : Int)) (hol : o < body.length)
    (hp : pending s = encStr cs1 ++ [10] ++ encStr cs2 ++ [27] ++ rest)
    (hpl : ∀ c ∈ cs1 ++ cs2, ValidCp c ∧ 32 ≤ c ∧ c ≠ 127)
    (hne1 : cs1.head? ≠ none ∧ cs1.head? ≠ some 32) (hne2 : cs2.head? ≠ none ∧ cs2.head? ≠ some 32)
    (hlen1 : cs1.length < 100000) (hlen2 : cs2.length < 100000) (hk : s.xkmap = 0) :
    ∃ s', vcInsert 105 s = Res.ok VC_OK s' ∧ pending s' = rest ∧
      Inserted (encStr cs1 ++ [10] ++ encStr cs2 ++ [27]) s s' s.ed.xrow
        [encStr (body.take o ++ cs1 ++ [10]),
         encStr (aiCp s (body.take o) ++ cs2 ++ (postCp s (body.drop o) ++ [10]))] 1 (s.ed.xrow + 1)
        (((aiCp s (body.take o)).length : Int) + cs2.length - 1) := by
  obtain ⟨s', a1, a2, a3⟩ := vcInsert_i_lines_spec s body [cs1] cs2 o rest hr0 hline hb hb10 ho hol
    (by rw [hp]; simp [lineKeys]) (plainLine_of_two cs1 cs2 hpl hne1 hne2 hlen1 hlen2) (by simp) hk
  refine ⟨s', a1, a2, ?_⟩
  have e : lineKeys [cs1] cs2 = encStr cs1 ++ [10] ++ encStr cs2 ++ [27] := by simp [lineKeys]
  rw [e] at a3
  simpa [rowLines, rowsOf, tailOf, lastHd, List.append_assoc] using a3

section Examples

/-- a state with `autoindent` on or off, the buffer `  hello w`, `b`, the cursor at `(0, off)` -/
def exEdAi : Ed := { bufs := [some { path := [], lb := { lines := [[32, 32, 104, 101, 108, 108, 111, 32, 119, 10], [98, 10]] } }] }
def exStAi (ai : Bool) (keys : Bytes) (off : Int) : VS := { ed := { exEdAi with xrow := 0, xoff := off }, typed := keys, xai := ai }

/-- the text `led_input` returns -/
def inputOf (r : Res (Bytes × Bytes)) : Bytes × Bytes := match r with | Res.ok x _ => x | _ => ([], [])
def rowOf (r : Res (Bytes × Bytes)) : Int := match r with | Res.ok _ s => s.ed.xrow | _ => -1

-- three typed lines `X ⏎ YZ ⏎ W ESC` after the prefix `␣␣h`, before `␣l ⏎`, with `autoindent`: the
-- continuation lines get the two blanks, the rest of the line loses its blank (the value `ledInput_multi_line` gives)
example : inputOf (ledInput [32, 32, 104] [32, 108, 10] (exStAi true [88, 10, 89, 90, 10, 87, 27, 120] 0)) =
    ([32, 32, 104, 88, 10, 32, 32, 89, 90, 10, 32, 32, 87, 108, 10], [108, 10]) := by decide +kernel
example : rowOf (ledInput [32, 32, 104] [32, 108, 10] (exStAi true [88, 10, 89, 90, 10, 87, 27, 120] 0)) = 2 := by decide +kernel
-- without `autoindent`: no indent, the rest of the line as it was
example : inputOf (ledInput [32, 32, 104] [32, 108, 10] (exStAi false [88, 10, 89, 90, 10, 87, 27, 120] 0)) =
    ([32, 32, 104, 88, 10, 89, 90, 10, 87, 32, 108, 10], [32, 108, 10]) := by decide +kernel
-- `post` empty, prefix without blanks
example : inputOf (ledInput [104] [] (exStAi true [88, 10, 89, 90, 10, 87, 27] 0)) =
    ([104, 88, 10, 89, 90, 10, 87], []) := by decide +kernel

/-- the hypotheses of `ledInput_multi_line` are met by a concrete state (three typed lines, `autoindent`),
and the theorem gives the value computed above -/
example : ∃ s', ledInput [32, 32, 104] [32, 108, 10] (exStAi true [88, 10, 89, 90, 10, 87, 27, 120] 0) =
      Res.ok ([32, 32, 104, 88, 10, 32, 32, 89, 90, 10, 32, 32, 87, 108, 10], [108, 10]) s' ∧ pending s' = [120] ∧
      lines s' = lines (exStAi true [88, 10, 89, 90, 10, 87, 27, 120] 0) ∧ s'.ed.xrow = 2 := by
  obtain ⟨s', h1, h2, h3, h4⟩ := ledInput_multi_line [32, 32, 104] [32, 108, 10] (exStAi true [88, 10, 89, 90, 10, 87, 27, 120] 0)
    [[88], [89, 90]] [87] [120] (by decide +kernel) (by decide +kernel) (by decide) rfl
  refine ⟨s', ?_, h2, h3, h4⟩
  rw [h1]
  have e : (([32, 32, 104] : Bytes) ++ (([[88], [89, 90]] : List (List Nat)).map (fun l => encStr l ++ [10] ++
      aiAfterNl (exStAi true [88, 10, 89, 90, 10, 87, 27, 120] 0) [32, 32, 104])).flatten ++ encStr [87] ++
      (if ([[88], [89, 90]] : List (List Nat)) = [] then [32, 108, 10]
        else postAfterNl (exStAi true [88, 10, 89, 90, 10, 87, 27, 120] 0) [32, 108, 10]),
      if ([[88], [89, 90]] : List (List Nat)) = [] then ([32, 108, 10] : Bytes)
        else postAfterNl (exStAi true [88, 10, 89, 90, 10, 87, 27, 120] 0) [32, 108, 10]) =
      (([32, 32, 104, 88, 10, 32, 32, 89, 90, 10, 32, 32, 87, 108, 10] : Bytes), ([108, 10] : Bytes)) := by decide +kernel
  rw [e]

-- `i X ⏎ YZ ⏎ W ESC` on the `l` (offset 4) of `␣␣hello w`, with `autoindent`: three rows, cursor on the `W`
example : linesOf (vcInsert 105 (exStAi true [88, 10, 89, 90, 10, 87, 27] 4)) =
    [[32, 32, 104, 101, 88, 10], [32, 32, 89, 90, 10], [32, 32, 87, 108, 108, 111, 32, 119, 10], [98, 10]] := by decide +kernel
example : cursorOf (vcInsert 105 (exStAi true [88, 10, 89, 90, 10, 87, 27] 4)) = (2, 2) := by decide +kernel
-- the rows `vcInsert_i_lines_spec` names for it
example : rowLines (rowsOf [32, 32, 104, 101] (aiCp (exStAi true [] 4) [32, 32, 104, 101]) [[88], [89, 90]] [87]
      (tailOf (exStAi true [] 4) [[88], [89, 90]] [108, 108, 111, 32, 119])) =
    [[32, 32, 104, 101, 88, 10], [32, 32, 89, 90, 10], [32, 32, 87, 108, 108, 111, 32, 119, 10]] := by decide +kernel
-- the same without `autoindent`
example : linesOf (vcInsert 105 (exStAi false [88, 10, 89, 90, 10, 87, 27] 4)) =
    [[32, 32, 104, 101, 88, 10], [89, 90, 10], [87, 108, 108, 111, 32, 119, 10], [98, 10]] := by decide +kernel
-- `o X ⏎ Y ⏎ Z ESC`: three new rows below, indented like the current one
example : linesOf (vcInsert 111 (exStAi true [88, 10, 89, 10, 90, 27] 4)) =
    [[32, 32, 104, 101, 108, 108, 111, 32, 119, 10], [32, 32, 88, 10], [32, 32, 89, 10], [32, 32, 90, 10], [98, 10]] := by decide +kernel
example : cursorOf (vcInsert 111 (exStAi true [88, 10, 89, 10, 90, 27] 4)) = (3, 2) := by decide +kernel
-- `O`: above
example : linesOf (vcInsert 79 (exStAi true [88, 10, 89, 27] 4)) =
    [[32, 32, 88, 10], [32, 32, 89, 10], [32, 32, 104, 101, 108, 108, 111, 32, 119, 10], [98, 10]] := by decide +kernel

-- typed lines with blanks inside and at the end: `iA B ⏎ C␣ ESC`
example : linesOf (vcInsert 105 (exStAi true [65, 32, 66, 10, 67, 32, 27] 4)) =
    [[32, 32, 104, 101, 65, 32, 66, 10], [32, 32, 67, 32, 108, 108, 111, 32, 119, 10], [98, 10]] := by decide +kernel

/-- the hypotheses of `vcInsert_i_lines_spec` are met by a concrete state (three typed lines, one with a
blank inside, `autoindent`): the theorem gives the three rows computed above for the buffer -/
example : ∃ s', vcInsert 105 (exStAi true [88, 10, 89, 32, 90, 10, 87, 27] 4) = Res.ok VC_OK s' ∧ pending s' = [] ∧
    lines s' = [[32, 32, 104, 101, 88, 10], [32, 32, 89, 32, 90, 10], [32, 32, 87, 108, 108, 111, 32, 119, 10], [98, 10]] ∧
    s'.ed.xrow = 2 ∧ s'.ed.xoff = 2 := by
  obtain ⟨s', h1, h2, h3⟩ := vcInsert_i_lines_spec (exStAi true [88, 10, 89, 32, 90, 10, 87, 27] 4)
    [32, 32, 104, 101, 108, 108, 111, 32, 119] [[88], [89, 32, 90]] [87] 4 []
    (by decide) (by decide +kernel) (by decide) (by decide) rfl (by decide) (by decide +kernel) (by decide +kernel) (by decide) rfl
  refine ⟨s', h1, h2, ?_, ?_, ?_⟩
  · rw [h3.lines]; decide +kernel
  · rw [h3.xrow]; decide +kernel
  · rw [h3.xoff]; decide +kernel

end Examples

/-! ## 5. the other open statement of `Props/C08b.lean`, `vcInsert_full`, is false as written

`vcInsert_full` asks `vc_insert` to return for every state with a line under the cursor.  It has no
hypothesis on that line; on lines that `lbuf` never holds the model traps (the C code would read outside
the string): a line that does not end in a newline, a line with an inner newline, a line with a NUL byte.
(On 34560 runs over well-formed NUL-free buffers — valid and invalid UTF-8, blank lines, every command,
offsets from -2 to 9, typed texts empty / blank / starting with a blank — the model returned `VC_OK` with
the keys consumed; `vcInsert_full_candidate` is the statement these runs support.  It is not proved here.) -/

def isOk (r : Res Nat) : Bool := match r with | Res.ok _ _ => true | _ => false

/-- a buffer whose only line is the NUL byte and a newline; `aX<ESC>` with `x` to follow -/
def nulSt : VS := { ed := { bufs := [some { path := [], lb := { lines := [[0, 10]] } }], xrow := 0, xoff := 0 }, typed := [88, 27, 120] }

/-- `vcInsert_full` is false: `a` on a line holding a NUL byte traps -/
theorem vcInsert_full_false : ¬ vcInsert_full := by
  intro h
  obtain ⟨s', h1, -⟩ := h 97 nulSt (encStr [88] ++ [27]) [120] [88] (by decide)
    (Props.C08b.inputs_text [88] (by decide) (by decide)) (by decide +kernel) rfl (by decide +kernel)
  have h2 : isOk (vcInsert 97 nulSt) = false := by decide +kernel
  rw [h1] at h2
  exact Bool.noConfusion h2

/-- the same with a line that does not end in a newline (here: the empty byte string) -/
example : isOk (vcInsert 97 { ed := { bufs := [some { path := [], lb := { lines := [[]] } }] }, typed := [88, 27, 120] }) = false := by
  decide +kernel

/-- the candidate correction (supported by the runs above, not proved): the line under the cursor is a
well-formed `lbuf` line without NUL bytes, and the typed text has no newline -/
def vcInsert_full_candidate : Prop :=
  ∀ (cmd : Nat) (s : VS) (K rest : Bytes) (cs : List Nat) (w : Bytes), cmd = 105 ∨ cmd = 97 ∨ cmd = 73 ∨ cmd = 65 ∨ cmd = 111 ∨ cmd = 79 →
    Inputs K cs → 10 ∉ cs → pending s = K ++ rest → s.xkmap = 0 →
    lineOf s s.ed.xrow = some (w ++ [10]) → 10 ∉ w → 0 ∉ w →
    ∃ s', vcInsert cmd s = Res.ok VC_OK s' ∧ pending s' = rest

end Neatvi.Props.C08d
