import NeatviVerif.Lemmas.C02Ref
import NeatviVerif.Lemmas.C02Ex
/-!
# C02  The dirty flag never reports clean while text and file differ

Part A (this section): the line-buffer level.  C04's history language is extended with the calls
that concern saving (`lbuf_modified` alone, `lbuf_saved(lb, 0)`, `lbuf_saved(lb, 1)`,
`lbuf_unsaved`).  For *every* such history (unbounded; by invariant) the model never traps and the
flag `lbuf_modified` reports is exactly the reference's: clean iff the zipper of texts stands at the
position marked at the last whole write (and that position has not been cut off by a later edit
below it, and no partial write happened since).  In particular clean implies text = file.

Part B (namespace `Ex`, below): the guards of `:q`, `:e`, `:b` and what `:w` does to the flag.
-/
namespace Neatvi.Props.C02
open Neatvi Neatvi.Lbuf Neatvi.Spec Neatvi.Lemmas.Hist Neatvi.Props.C04 Neatvi.Lemmas.C02

export Neatvi.Lemmas.C02 (SOp sstep diskStep srunD SGoodOp SGood Ref rstep rrun AllLog isSaving)

/-- the model run of a history (`none` = trap) -/
def srun (ops : List SOp) (lb : Lb) : Option Lb := (srunD ops (lb, some lb.lines)).map (·.1)

/-- ghost: the text at the most recent whole write (`saved` / `savedClear`), initially the text `t0`
    the buffer was loaded with; `none` after a partial write to the buffer's own file -/
def disk (ops : List SOp) (t0 : Text) : Option Text := (srunD ops (Lbuf.make, some t0)).bind (·.2)

/-! ### the simulation, from the empty buffer -/

theorem reached (ops : List SOp) (hg : SGood ops) :
    ∃ lb d, srunD ops (Lbuf.make, some []) = some (lb, d) ∧ SInv lb (rrun ops {}) d :=
  srunD_inv ops Lbuf.make {} (some []) sinv_make hg

/-- the model never traps -/
theorem no_trap (ops : List SOp) (hg : SGood ops) : ∃ lb, srun ops Lbuf.make = some lb := by
  obtain ⟨lb, d, h, _⟩ := reached ops hg
  have h' : srunD ops (Lbuf.make, some Lbuf.make.lines) = some (lb, d) := h
  exact ⟨lb, by simp only [srun, h', Option.map_some]⟩

theorem reached_of_srun (ops : List SOp) (hg : SGood ops) (lb : Lb) (hr : srun ops Lbuf.make = some lb) :
    ∃ d, SInv lb (rrun ops {}) d ∧ disk ops [] = d := by
  obtain ⟨lb', d, h, hi⟩ := reached ops hg
  have h' : srunD ops (Lbuf.make, some Lbuf.make.lines) = some (lb', d) := h
  simp only [srun, h', Option.map_some, Option.some.injEq] at hr
  subst hr
  exact ⟨d, hi, by simp [disk, h]⟩

/-- the model's text is the zipper's present -/
theorem refines_zipper (ops : List SOp) (hg : SGood ops) (lb : Lb) (hr : srun ops Lbuf.make = some lb) :
    lb.lines = (rrun ops {}).z.present := by
  obtain ⟨d, hi, _⟩ := reached_of_srun ops hg lb hr
  exact hi.lines

/-! ### 1. the flag never reports clean while text and file differ -/

/-- **clean is sound**: if `lbuf_modified` reports clean, the buffer's text is the text of the most
    recent whole write (and no partial write happened since) -/
theorem clean_sound (ops : List SOp) (hg : SGood ops) (lb : Lb) (hr : srun ops Lbuf.make = some lb)
    (hc : (modified lb).1 = false) : disk ops [] = some lb.lines := by
  obtain ⟨d, hi, hd⟩ := reached_of_srun ops hg lb hr
  rw [hd]; exact hi.clean_text hc

/-- contrapositive: text and file differ ⇒ dirty -/
theorem dirty_if_differs (ops : List SOp) (hg : SGood ops) (lb : Lb) (hr : srun ops Lbuf.make = some lb)
    (hne : disk ops [] ≠ some lb.lines) : (modified lb).1 = true := by
  cases hm : (modified lb).1 with
  | true => rfl
  | false => exact absurd (clean_sound ops hg lb hr hm) hne

/-- **the flag, characterised**: clean iff the zipper stands at the marked position -/
theorem dirty_iff_position (ops : List SOp) (hg : SGood ops) (lb : Lb) (hr : srun ops Lbuf.make = some lb) :
    (modified lb).1 = false ↔ (rrun ops {}).mark = some (rrun ops {}).z.past.length := by
  obtain ⟨d, hi, _⟩ := reached_of_srun ops hg lb hr
  exact hi.clean_iff

/-- after a partial write the flag stays dirty until the next whole write -/
theorem dirty_after_partial_write (pre mid : List SOp) (hg : SGood (pre ++ [.partialWrite] ++ mid))
    (hmid : ∀ op ∈ mid, isSaving op = false) (lb : Lb)
    (hr : srun (pre ++ [.partialWrite] ++ mid) Lbuf.make = some lb) : (modified lb).1 = true := by
  cases hm : (modified lb).1 with
  | true => rfl
  | false =>
    have h1 := (dirty_iff_position _ hg lb hr).1 hm
    rw [rrun_append, rrun_append] at h1
    rw [rrun_mark_none mid _ rfl hmid] at h1
    cases h1

/-! ### 2. after a whole write the flag is clean -/

theorem clean_after_whole_write (ops : List SOp) (hg : SGood ops) (lb : Lb)
    (hr : srun (ops ++ [.saved]) Lbuf.make = some lb) : (modified lb).1 = false := by
  have hg' : SGood (ops ++ [.saved]) := by
    intro op ho
    simp only [List.mem_append, List.mem_singleton] at ho
    rcases ho with ho | rfl
    · exact hg op ho
    · trivial
  rw [dirty_iff_position _ hg' lb hr, rrun_append]
  rfl

theorem clean_after_reload (ops : List SOp) (hg : SGood ops) (lb : Lb)
    (hr : srun (ops ++ [.savedClear]) Lbuf.make = some lb) : (modified lb).1 = false := by
  have hg' : SGood (ops ++ [.savedClear]) := by
    intro op ho
    simp only [List.mem_append, List.mem_singleton] at ho
    rcases ho with ho | rfl
    · exact hg op ho
    · trivial
  rw [dirty_iff_position _ hg' lb hr, rrun_append]
  rfl

/-! ### 3. undo / redo back to the saved text -/

theorem sgood_append {a b : List SOp} (ha : SGood a) (hb : SGood b) : SGood (a ++ b) := by
  intro op ho
  rcases List.mem_append.1 ho with ho | ho
  · exact ha op ho
  · exact hb op ho

theorem sgood_cmds (css : List (List Splice)) (h : ∀ ss ∈ css, ∀ s ∈ ss, s.1 ≤ s.2.1) :
    SGood (css.map SOp.cmd) := by
  intro op ho
  obtain ⟨ss, hss, rfl⟩ := List.mem_map.1 ho
  exact h ss hss

theorem sgood_replicate (j : Nat) (op : SOp) (h : SGoodOp op) : SGood (List.replicate j op) := by
  intro o ho
  rw [(List.mem_replicate.1 ho).2]; exact h

/-- after a whole write, `n` modifying commands followed by `j ≤ n` undos: the flag is clean exactly
    when `j = n`, and then the text is the saved text again -/
theorem clean_after_undo_to_saved (pre : List SOp) (hg : SGood pre) (css : List (List Splice))
    (hcss : ∀ ss ∈ css, ∀ s ∈ ss, s.1 ≤ s.2.1) (lb0 : Lb)
    (h0 : srun (pre ++ [.saved]) Lbuf.make = some lb0) (hlog : AllLog lb0.lines css)
    (j : Nat) (hj : j ≤ css.length) :
    ∃ lb, srun (pre ++ [.saved] ++ css.map SOp.cmd ++ List.replicate j .undo) Lbuf.make = some lb ∧
      ((modified lb).1 = false ↔ j = css.length) ∧ (j = css.length → lb.lines = lb0.lines) := by
  have hg0 : SGood (pre ++ [.saved]) := sgood_append hg (by intro o ho; simp at ho; subst ho; trivial)
  have hgall : SGood (pre ++ [.saved] ++ css.map SOp.cmd ++ List.replicate j .undo) :=
    sgood_append (sgood_append hg0 (sgood_cmds css hcss)) (sgood_replicate j _ trivial)
  obtain ⟨lb, hr⟩ := no_trap _ hgall
  obtain ⟨d0, hi0, _⟩ := reached_of_srun _ hg0 lb0 h0
  obtain ⟨d, hi, _⟩ := reached_of_srun _ hgall lb hr
  rw [rrun_append, rrun_append] at hi
  generalize hr0 : rrun (pre ++ [.saved]) {} = r0 at hi hi0
  have hmark0 : r0.mark = some r0.z.past.length := by
    rw [← hr0, rrun_append]; rfl
  obtain ⟨a1, a2, ts, a3, a4⟩ := rrun_cmds css r0 _ hi0.1 hmark0 (Nat.le_refl _)
    (by rw [← hi0.lines]; exact hlog)
  generalize rrun (css.map SOp.cmd) r0 = r1 at hi a1 a2 a4
  have hlen1 : r1.z.past.length = css.length + r0.z.past.length := by
    have := congrArg List.length a4
    simp only [stack, List.length_cons, List.length_append] at this
    omega
  obtain ⟨_, b2, b3⟩ := rrun_undos j r1 a1 (by omega)
  generalize rrun (List.replicate j SOp.undo) r1 = r2 at hi b2 b3
  have hlen2 : r2.z.past.length = css.length + r0.z.past.length - j := by
    have := congrArg List.length b3
    simp only [stack, List.length_cons, List.length_drop] at this
    omega
  refine ⟨lb, hr, ?_, ?_⟩
  · rw [hi.clean_iff, b2, a2, hlen2]
    simp only [Option.some.injEq]
    omega
  · intro hje
    rw [hi.lines, hi0.lines]
    rw [a4, hje, ← a3, List.drop_left] at b3
    simp only [stack, List.cons.injEq] at b3
    exact b3.1

/-- after a whole write, `j` successful undos (there are at least `j` undoable commands) followed by
    `j` redos: the flag is clean again and the text is the saved text -/
theorem clean_after_redo_to_saved (pre : List SOp) (hg : SGood pre) (lb0 : Lb)
    (h0 : srun (pre ++ [.saved]) Lbuf.make = some lb0) (j : Nat)
    (hj : j ≤ (rrun pre {}).z.past.length) :
    ∃ lb, srun (pre ++ [.saved] ++ (List.replicate j .undo ++ List.replicate j .redo)) Lbuf.make = some lb ∧
      (modified lb).1 = false ∧ lb.lines = lb0.lines := by
  have hg0 : SGood (pre ++ [.saved]) := sgood_append hg (by intro o ho; simp at ho; subst ho; trivial)
  have hgall : SGood (pre ++ [.saved] ++ (List.replicate j .undo ++ List.replicate j .redo)) :=
    sgood_append hg0 (sgood_append (sgood_replicate j _ trivial) (sgood_replicate j _ trivial))
  obtain ⟨lb, hr⟩ := no_trap _ hgall
  obtain ⟨d0, hi0, _⟩ := reached_of_srun _ hg0 lb0 h0
  obtain ⟨d, hi, _⟩ := reached_of_srun _ hgall lb hr
  rw [rrun_append] at hi
  have hz0 : (rrun (pre ++ [.saved]) {}).z = (rrun pre {}).z := by rw [rrun_append]; rfl
  rw [rrun_undo_redo j _ hi0.1 (by rw [hz0]; exact hj)] at hi
  refine ⟨lb, hr, ?_, by rw [hi.lines, hi0.lines]⟩
  rw [hi.clean_iff, rrun_append]
  rfl

/-! ### the history language of C04 embeds -/

def ofHOp : HOp → SOp
  | .cmd ss => .cmd ss
  | .undo => .undo
  | .redo => .redo

theorem sstep_ofHOp (lb : Lb) (op : HOp) : sstep lb (ofHOp op) = (C04.step lb op).map (·.2) := by
  cases op <;> simp [sstep, ofHOp, C04.step, Option.map_map, Function.comp_def]

/-! ### non-vacuity: concrete histories -/

def ins (c : Nat) : SOp := .cmd [(0, 0, some [c, 10])]

/-- edit, whole write, edit, undo: clean -/
example : (srun [ins 97, .saved, ins 98, .undo] Lbuf.make).map (fun lb => ((modified lb).1, lb.lines)) =
    some (false, [[97, 10]]) := by decide

/-- edit, whole write, edit: dirty; the ghost file holds the saved text -/
example : (srun [ins 97, .saved, ins 98] Lbuf.make).map (fun lb => ((modified lb).1, lb.lines)) =
    some (true, [[98, 10], [97, 10]]) ∧ disk [ins 97, .saved, ins 98] [] = some [[97, 10]] := by decide

/-- edit, partial write, undo: dirty (although the text is the loaded text again) -/
example : (srun [ins 97, .partialWrite, .undo] Lbuf.make).map (fun lb => ((modified lb).1, lb.lines)) =
    some (true, []) := by decide

/-- whole write, undo, a different edit at the same depth: dirty (the saved text was cut off) -/
example : (srun [ins 97, .saved, .undo, ins 98, .query] Lbuf.make).map (fun lb => ((modified lb).1, lb.lines)) =
    some (true, [[98, 10]]) ∧ (rrun [ins 97, .saved, .undo, ins 98, .query] {}).mark = none := by decide

/-- whole write, undo, redo: clean -/
example : (srun [ins 97, ins 98, .saved, .undo, .undo, .redo, .redo] Lbuf.make).map (fun lb => (modified lb).1) =
    some false := by decide

/-- reload (history dropped), edit, undo: clean -/
example : (srun [ins 97, .savedClear, ins 98, .undo, .undo] Lbuf.make).map (fun lb => ((modified lb).1, lb.lines)) =
    some (false, [[97, 10]]) := by decide

/-! ## Part B: the ex layer -/
namespace Ex
open Neatvi.Ex Neatvi.Lemmas.C02Ex

export Neatvi.Lemmas.C02Ex (bumpAt showOpt Keeps bufKey writeFinish)

/-! ### 4. the guard `bufs_modified` -/

/-- a dirty current buffer, no autowrite: `bufs_modified` refuses, and the state differs from the
    old one only by the bumped sequence counter of slot 0 and the shown message.
    (`bufs_modified` itself does not look at `writeany`; its callers do.) -/
theorem guard_refuses (ed : Ed) (b : Buf) (msg : Option Bytes)
    (hb : ed.bufs.getD 0 none = some b) (hd : (modified b.lb).1 = true) (haw : ed.xaw = 0) :
    ∃ ed', bufsModified ed 0 msg = some (true, ed') ∧
      ed' = showOpt (bumpAt ed 0 b) msg ∧
      ed'.bufs.length = ed.bufs.length ∧
      (∀ i, i ≠ 0 → ed'.bufs.getD i none = ed.bufs.getD i none) ∧
      ed'.bufs.getD 0 none = some { b with lb := (modified b.lb).2 } ∧
      ed'.files = ed.files ∧ ed'.xquit = ed.xquit := by
  obtain ⟨hlt, _⟩ := getD_some hb
  refine ⟨_, guard_refuses_at ed 0 b msg hb hd haw, rfl, ?_, ?_, ?_, ?_, ?_⟩ <;>
    cases msg <;> simp only [showOpt, Ed.show, bumpAt, List.length_set]
  · intro i hi; exact getD_set_ne _ _ _ _ (Ne.symm hi)
  · intro i hi; exact getD_set_ne _ _ _ _ (Ne.symm hi)
  · exact getD_set_self _ _ _ hlt
  · exact getD_set_self _ _ _ hlt

/-- any slot: dirty ⇒ refused, with exactly the bump and the message as effect -/
theorem guard_refuses_any (ed : Ed) (idx : Nat) (b : Buf) (msg : Option Bytes)
    (hb : ed.bufs.getD idx none = some b) (hd : (modified b.lb).1 = true) (haw : ed.xaw = 0) :
    bufsModified ed idx msg = some (true, showOpt (bumpAt ed idx b) msg) :=
  guard_refuses_at ed idx b msg hb hd haw

/-- any slot: clean ⇒ allowed, with exactly the bump as effect (whatever `autowrite` says) -/
theorem guard_allows_when_clean (ed : Ed) (idx : Nat) (b : Buf) (msg : Option Bytes)
    (hb : ed.bufs.getD idx none = some b) (hd : (modified b.lb).1 = false) :
    bufsModified ed idx msg = some (false, bumpAt ed idx b) :=
  guard_passes_at ed idx b msg hb hd

/-! ### 5. `:q`, `:e`, `:b` -/

/-- `:q`-like commands (no `w`/`x` prefix, no `!`, no `a`), no autowrite: if ANY open buffer is dirty
    the command returns without setting `xquit`; the files are untouched and the buffer table holds
    the same (path, text) pairs as before, up to order (`bufs_switch` brings the dirty one in front) -/
theorem quit_refused_when_dirty (f : Nat) (ed : Ed) (loc cmd arg : Bytes) (txt : Option Bytes)
    (hw : cmd.headD 0 ≠ 119) (hx : cmd.headD 0 ≠ 120)
    (hbang : hasBang cmd = false) (hall : cmd.contains 97 = false) (haw : ed.xaw = 0)
    (j : Nat) (b : Buf) (hb : ed.bufs.getD j none = some b) (hd : (modified b.lb).1 = true) :
    ∃ ed', runCmd (f + 1) ed "ec_quit" loc cmd arg txt = some (0, ed') ∧ Keeps ed ed' := by
  obtain ⟨hlt, _⟩ := getD_some hb
  obtain ⟨ed', he, hk⟩ := each_refuses cmd hbang (ed.bufs.length + 1) 0 ed haw
    ⟨j, b, Nat.zero_le _, by omega, hb, hd⟩
  refine ⟨ed', ?_, hk⟩
  rw [runCmd_quit]
  have c1 : (cmd.headD 0 == 119 || cmd.headD 0 == 120) = false := by
    rw [Bool.or_eq_false_iff]; exact ⟨beq_eq_false_iff_ne.2 hw, beq_eq_false_iff_ne.2 hx⟩
  simp only [c1, Bool.false_eq_true, if_false, hall, he]
  rfl

/-- the converse: if every open buffer is clean, `:q`-like commands set `xquit` (and keep everything) -/
theorem quit_allowed_when_clean (f : Nat) (ed : Ed) (loc cmd arg : Bytes) (txt : Option Bytes)
    (hw : cmd.headD 0 ≠ 119) (hx : cmd.headD 0 ≠ 120)
    (hbang : hasBang cmd = false) (hall : cmd.contains 97 = false)
    (hcl : ∀ j b, ed.bufs.getD j none = some b → (modified b.lb).1 = false) :
    ∃ ed', runCmd (f + 1) ed "ec_quit" loc cmd arg txt = some (0, { ed' with xquit := true }) ∧ Keeps ed ed' := by
  obtain ⟨ed', he, hk⟩ := each_passes cmd hbang (ed.bufs.length + 1) 0 ed hcl
  refine ⟨ed', ?_, hk⟩
  rw [runCmd_quit]
  have c1 : (cmd.headD 0 == 119 || cmd.headD 0 == 120) = false := by
    rw [Bool.or_eq_false_iff]; exact ⟨beq_eq_false_iff_ne.2 hw, beq_eq_false_iff_ne.2 hx⟩
  simp only [c1, Bool.false_eq_true, if_false, hall, he]
  rfl

/-- the instance `:q` -/
theorem q_refused_when_dirty (f : Nat) (ed : Ed) (loc arg : Bytes) (txt : Option Bytes)
    (haw : ed.xaw = 0) (hq : ed.xquit = false)
    (j : Nat) (b : Buf) (hb : ed.bufs.getD j none = some b) (hd : (modified b.lb).1 = true) :
    ∃ ed', runCmd (f + 1) ed "ec_quit" loc (strOf "q") arg txt = some (0, ed') ∧ ed'.xquit = false ∧
      ed'.files = ed.files ∧ (ed'.bufs.map bufKey).Perm (ed.bufs.map bufKey) := by
  rw [strOf_q]
  obtain ⟨ed', h1, h2⟩ := quit_refused_when_dirty f ed loc [113] arg txt (by decide) (by decide)
    (by decide) (by decide) haw j b hb hd
  exact ⟨ed', h1, by rw [h2.xquit, hq], h2.files, h2.bufs⟩

/-- `:e` and friends without `!`, no autowrite, no writeany, dirty current buffer: return code 1, and
    the state differs only by the bumped counter of slot 0 and the message -/
theorem edit_refused_when_dirty (f : Nat) (ed : Ed) (cmd arg : Bytes) (b : Buf)
    (hb : ed.bufs.getD 0 none = some b) (hd : (modified b.lb).1 = true)
    (haw : ed.xaw = 0) (hwa : ed.xwa = 0) (hbang : hasBang cmd = false) :
    ecEdit (f + 1) ed cmd arg = some (1, (bumpAt ed 0 b).show (strOf "buffer modified")) := by
  have hcur : ed.cur = some b := hb
  rw [ecEdit.eq_2]
  simp only [hbang, hcur, hwa, Bool.not_false, Option.isSome_some, Bool.and_self, beq_self_eq_true, if_true,
    guard_refuses_at ed 0 b _ hb hd haw, showOpt]

/-- what the refused state looks like -/
theorem refused_state (ed : Ed) (b : Buf) (m : Bytes) (hb : ed.bufs.getD 0 none = some b) :
    ((bumpAt ed 0 b).show m).cur = some { b with lb := (modified b.lb).2 } ∧
    ((bumpAt ed 0 b).show m).files = ed.files ∧
    (∀ i, i ≠ 0 → ((bumpAt ed 0 b).show m).bufs.getD i none = ed.bufs.getD i none) := by
  obtain ⟨hlt, _⟩ := getD_some hb
  refine ⟨getD_set_self _ _ _ hlt, rfl, ?_⟩
  intro i hi; exact getD_set_ne _ _ _ _ (Ne.symm hi)

/-- the instance `:e` through the dispatcher, in the words of the property -/
theorem e_refused_when_dirty (f : Nat) (ed : Ed) (loc arg : Bytes) (txt : Option Bytes) (b : Buf)
    (hb : ed.bufs.getD 0 none = some b) (hd : (modified b.lb).1 = true)
    (haw : ed.xaw = 0) (hwa : ed.xwa = 0) :
    ∃ ed' b', runCmd (f + 2) ed "ec_edit" loc (strOf "e") arg txt = some (1, ed') ∧
      ed'.cur = some b' ∧ b'.path = b.path ∧ b'.lb.lines = b.lb.lines ∧ ed'.files = ed.files := by
  rw [runCmd_edit, strOf_e, edit_refused_when_dirty f ed [101] arg b hb hd haw hwa (by decide)]
  obtain ⟨h1, h2, _⟩ := refused_state ed b (strOf "buffer modified") hb
  exact ⟨_, _, rfl, h1, rfl, rfl, h2⟩

/-- the switching branch of `:b` (an argument that is not `!` or `~`), without `!`, no autowrite, no
    writeany, dirty current buffer: return code 1 — either refused by the guard or "no such
    buffer" — and nothing but the counter of slot 0 and the message changes -/
theorem buffer_refused_when_dirty (f : Nat) (ed : Ed) (loc cmd arg : Bytes) (txt : Option Bytes) (b : Buf)
    (hb : ed.bufs.getD 0 none = some b) (hd : (modified b.lb).1 = true)
    (haw : ed.xaw = 0) (hwa : ed.xwa = 0) (hbang : hasBang cmd = false)
    (harg : arg.isEmpty = false) (h33 : arg.headD 0 ≠ 33) (h126 : arg.headD 0 ≠ 126) :
    runCmd (f + 1) ed "ec_buffer" loc cmd arg txt = some (1, (bumpAt ed 0 b).show (strOf "buffer modified")) ∨
    runCmd (f + 1) ed "ec_buffer" loc cmd arg txt = some (1, ed.show (strOf "no such buffer")) := by
  rw [runCmd.eq_2]
  simp only [String.reduceBEq, Bool.false_eq_true, if_false, if_true, Bool.or_self, harg]
  have c33 : (arg.headD 0 == 33) = false := beq_eq_false_iff_ne.2 h33
  have c126 : (arg.headD 0 == 126) = false := beq_eq_false_iff_ne.2 h126
  simp only [c33, c126, Bool.false_eq_true, if_false]
  simp only [hbang, hwa, Bool.not_false, Bool.and_self, beq_self_eq_true, if_true,
    guard_refuses_at ed 0 b _ hb hd haw, showOpt]
  exact ite_or _ _ _

/-- in the words of the property: return code 1, same current path and text, no file changed -/
theorem b_refused_when_dirty (f : Nat) (ed : Ed) (loc cmd arg : Bytes) (txt : Option Bytes) (b : Buf)
    (hb : ed.bufs.getD 0 none = some b) (hd : (modified b.lb).1 = true)
    (haw : ed.xaw = 0) (hwa : ed.xwa = 0) (hbang : hasBang cmd = false)
    (harg : arg.isEmpty = false) (h33 : arg.headD 0 ≠ 33) (h126 : arg.headD 0 ≠ 126) :
    ∃ ed' b', runCmd (f + 1) ed "ec_buffer" loc cmd arg txt = some (1, ed') ∧
      ed'.cur = some b' ∧ b'.path = b.path ∧ b'.lb.lines = b.lb.lines ∧ ed'.files = ed.files := by
  rcases buffer_refused_when_dirty f ed loc cmd arg txt b hb hd haw hwa hbang harg h33 h126 with h | h
  · obtain ⟨h1, h2, _⟩ := refused_state ed b (strOf "buffer modified") hb
    exact ⟨_, _, h, h1, rfl, rfl, h2⟩
  · exact ⟨_, b, h, hb, rfl, rfl, rfl⟩

/-! ### 6. `:w` marks the buffer clean only if the whole buffer went to its own file -/

/-- Name the intermediate results of `ec_write` up to a successful `lbuf_save` of lines `[b, e)` of
    the current buffer `cur` to `path`.  Then `ec_write` returns 0 and the new current buffer `c5` has
    * `lbuf_saved(lb, 0)` + bump applied (so the flag is clean) if `path` is the buffer's own path
      (or the buffer had none and adopts it) and the range is the whole buffer;
    * `lbuf_unsaved(lb)` applied (so the flag is dirty) if it is the own path but a proper part;
    * its `lb` untouched if `path` is another file. -/
theorem write_marks_clean_only_if_whole (ed ed1 ed2 ed3 ed4 : Ed) (loc cmd arg path : Bytes)
    (b0 e0 b e : Int) (cur : Buf)
    (hpr : (if !arg.isEmpty then pathExpand ed arg true else some (ed.cur.map (·.path), ed)) = some (some path, ed1))
    (hx : (if cmd.headD 0 == 120 then some (ed1.modifiedAt 0) else some (true, ed1) : Option (Bool × Ed)) = some (true, ed2))
    (hr : exRegion ed2 loc = some ((0, b0, e0), ed3))
    (hc : ed3.cur = some cur) (hsh : path.headD 0 ≠ 33)
    (hbe : (if loc.isEmpty then ((0 : Int), ed3.len) else (b0, e0)) = (b, e)) (hpne : path ≠ [])
    (hs : lbufSave ed3 cur.lb b.toNat e path (hasBang cmd) (if cur.path == path then cur.mtime else 0) = some (none, ed4)) :
    ∃ ed5 c5, ecWrite ed loc cmd arg = some (0, ed5) ∧ ed5.cur = some c5 ∧ ed5.files = ed4.files ∧
      ed4.bufs = ed3.bufs ∧
      c5.path = (if cur.path.isEmpty then path else cur.path) ∧
      ((cur.path = path ∨ cur.path = []) → (b = 0 ∧ e = ed3.len) →
        c5.lb = (modified (savedCore cur.lb false)).2 ∧ (modified c5.lb).1 = false) ∧
      ((cur.path = path ∨ cur.path = []) → ¬ (b = 0 ∧ e = ed3.len) →
        c5.lb = unsavedMark cur.lb ∧ (modified c5.lb).1 = true) ∧
      (¬ (cur.path = path ∨ cur.path = []) → c5.lb = cur.lb) := by
  have hb4 := lbufSave_bufs _ _ _ _ _ _ _ _ _ hs
  have hc4 : ed4.cur = some cur := by rw [cur_congr hb4, hc]
  rw [ecWrite_unfold ed ed1 ed2 ed3 ed4 loc cmd arg path b0 e0 b e cur hpr hx hr hc hsh hbe hpne hs]
  generalize hm : ([34] ++ path ++ strOf "\"  [=" ++ intStr (e - b) ++ strOf "]  [w]") = m
  have hlen : (ed4.show m).len = ed3.len := len_congr (ed := ed3) (ed' := ed4.show m) hb4
  obtain ⟨ed5, c5, h1, h2, h3, h4, h5, h6, h7⟩ := writeFinish_spec (ed4.show m) cur path b e hc4
  rw [hlen] at h5 h6
  refine ⟨ed5, c5, h1, h2, h3, hb4, h4, ?_, h6, h7⟩
  intro ho hw
  have := h5 ho hw
  exact ⟨this, by rw [this]; exact saved_then_clean _⟩

/-- ... and the buffer `cur` that `lbuf_save` sees in the theorem above is the editor's initial
    current buffer `c0` (with its counter bumped when the command is `:x`, which tests the flag
    first): path expansion and address evaluation do not touch the buffer table -/
theorem write_saves_initial_buffer (ed ed1 ed2 ed3 : Ed) (loc cmd arg : Bytes) (path : Option Bytes)
    (r : Nat × Int × Int) (c0 : Buf)
    (hpr : (if !arg.isEmpty then pathExpand ed arg true else some (ed.cur.map (·.path), ed)) = some (path, ed1))
    (hx : (if cmd.headD 0 == 120 then some (ed1.modifiedAt 0) else some (true, ed1) : Option (Bool × Ed)) = some (true, ed2))
    (hr : exRegion ed2 loc = some (r, ed3)) (h0 : ed.cur = some c0) :
    ed3.cur = some (if cmd.headD 0 == 120 then { c0 with lb := (modified c0.lb).2 } else c0) :=
  write_current_buffer ed ed1 ed2 ed3 loc cmd arg path r c0 hpr hx hr h0

/-! ### what is NOT proved: the bridge between Part A and Part B

Part A is about buffers driven through the lbuf API by the operations `SOp`; Part B is about what the
ex commands do given the flag of the buffers in the table.  That every buffer of a reachable editor
state is one Part A speaks about (the ex layer drives `lbuf.c` only through `lbuf_edit` — also via
`lbuf_rd` —, `lbuf_undo`, `lbuf_redo`, `lbuf_modified`, `lbuf_saved`, `lbuf_unsaved`, and mark / glob
operations that do not touch the history) is stated here and left open, together with the relation
between the ghost file text of Part A and the bytes `lbuf_save` puts in `Ed.files`. -/

/-- the `ex()` loop: `n` rounds (stops early when the input is exhausted) -/
def exRun : Nat → Ed → Option Ed
  | 0, ed => some ed
  | n + 1, ed =>
    if ed.input.isEmpty then some ed else
    match exStep ed with
    | none => none
    | some (_, ed') => exRun n ed'

/-- OPEN (not proved): every buffer of every reachable editor state satisfies the invariant of
    Part A, so that `clean_sound` / `dirty_iff_position` apply to it -/
def editor_buffers_satisfy_invariant_full : Prop :=
  ∀ (ed0 : Ed) (files : List Bytes) (n : Nat) (rc : Int) (ed1 ed : Ed),
    ed0.bufs = List.replicate Gen.NBUFS none → exInit ed0 files = some (rc, ed1) → exRun n ed1 = some ed →
    ∀ i b, ed.bufs.getD i none = some b → ∃ r d, SInv b.lb r d

/-- the proved part: the invariant holds for a fresh buffer, is preserved by every lbuf-level
    operation the ex layer uses, and yields the characterisation and the soundness of the flag -/
theorem editor_buffers_satisfy_invariant_partial :
    SInv Lbuf.make {} (some []) ∧
    (∀ lb r d op, SInv lb r d → SGoodOp op →
      ∃ lb', sstep lb op = some lb' ∧ SInv lb' (rstep r op) (diskStep lb d op)) ∧
    (∀ lb r d, SInv lb r d →
      ((modified lb).1 = false ↔ r.mark = some r.z.past.length) ∧
      ((modified lb).1 = false → d = some lb.lines)) :=
  ⟨sinv_make, fun _ _ _ op h hg => sstep_inv h op hg, fun _ _ _ h => ⟨h.clean_iff, h.clean_text⟩⟩

/-! ### non-vacuity: the hypotheses of Part B are met by buffers produced by Part A's histories -/

/-- an editor whose only buffer is `lb`, file name `f` -/
def edOf (lb : Lb) : Ed := { bufs := [some { path := [102], lb := lb }, none] }

/-- edit, whole write, edit: `:q` is refused -/
example : ∃ lb, srun [ins 97, .saved, ins 98] Lbuf.make = some lb ∧
    ∃ ed', runCmd 2 (edOf lb) "ec_quit" [] (strOf "q") [] none = some (0, ed') ∧ ed'.xquit = false := by
  have hdirty : (srun [ins 97, .saved, ins 98] Lbuf.make).map (fun lb => (modified lb).1) = some true := by decide
  cases h : srun [ins 97, .saved, ins 98] Lbuf.make with
  | none => rw [h] at hdirty; cases hdirty
  | some lb =>
    rw [h] at hdirty
    simp only [Option.map_some, Option.some.injEq] at hdirty
    obtain ⟨ed', h1, h2, _⟩ := q_refused_when_dirty 1 (edOf lb) [] [] none rfl rfl 0 _ rfl hdirty
    exact ⟨lb, rfl, ed', h1, h2⟩

/-- edit, whole write, edit, undo: `:q` quits -/
example : ∃ lb, srun [ins 97, .saved, ins 98, .undo] Lbuf.make = some lb ∧
    ∃ ed', runCmd 2 (edOf lb) "ec_quit" [] (strOf "q") [] none = some (0, ed') ∧ ed'.xquit = true := by
  have hclean : (srun [ins 97, .saved, ins 98, .undo] Lbuf.make).map (fun lb => (modified lb).1) = some false := by
    decide
  cases h : srun [ins 97, .saved, ins 98, .undo] Lbuf.make with
  | none => rw [h] at hclean; cases hclean
  | some lb =>
    rw [h] at hclean
    simp only [Option.map_some, Option.some.injEq] at hclean
    obtain ⟨ed', h1, _⟩ := quit_allowed_when_clean 1 (edOf lb) [] (strOf "q") [] none
      (by rw [strOf_q]; decide) (by rw [strOf_q]; decide) (by rw [strOf_q]; decide) (by rw [strOf_q]; decide)
      (by
        intro j b hj
        match j, hj with
        | 0, hj =>
          have hj' : some ({ path := [102], lb := lb } : Buf) = some b := hj
          simp only [Option.some.injEq] at hj'; subst hj'; exact hclean
        | 1, hj => have hj' : (none : Option Buf) = some b := hj; cases hj'
        | (n + 2), hj => have hj' : (none : Option Buf) = some b := hj; cases hj')
    exact ⟨lb, rfl, _, h1, rfl⟩

end Ex

end Neatvi.Props.C02
