namespace Neatvi.Props.C02
end Neatvi.Props.C02
