import NeatviVerif.Lemmas.C05gSubst
import NeatviVerif.Lemmas.C05gGlob
import NeatviVerif.Lemmas.C05gBound
import NeatviVerif.Lemmas.C05gGbound
import NeatviVerif.Props.C06c
import NeatviVerif.Props.C07d
import NeatviVerif.Props.C08
/-!
# C05g: what six repairs bought

Six defects of ex.c / vi.c were repaired; the model follows the repaired code.  This file states, for each
repair, the property that now holds (and did not before).

1. **`:s` and a truncated character** (`ec_substitute` advances by `MIN(uc_len(ln), strlen(ln))` after an empty
   match): `substLine_never_traps_on_char` — the per-line loop returns `none` only where the matcher or the
   expansion of the replacement does (`go_none_iff` is the exact statement for one round);
   `substLine_total`; `subst_truncated_char` is a line on which the old code read past the terminator.
2. **`:g` and a negative index** (the scan resumes at `MAX(0, MIN(i, xrow))`): `glob_scan_index_nonneg` — every
   index at which the loop reads `ln_glob[]` is non-negative; `glob_scan_check_never_fires`.
3. **`@r` and unbounded recursion** (`ec_at` refuses beyond 16 levels): `atDepth_restored` — every command line,
   command and handler returns with the count of executing registers it was called with;
   `ecAt_depth_bounded` — in every state visited along an execution the count is at most 16;
   `ecAt_at_limit` / `ecAt_at_limit_runs_nothing` — at 16 the handler returns 1 and runs nothing.
4. **the mark motion `` ` `` and a line that got shorter** (the column is clamped): `backtick_lands`,
   `backtick_in_line` — the offset returned is at most `uc_slen(ln) - 1`, `uc_chr` finds it, and `uc_sub` with it
   as an end does not compare pointers into different objects.
5. **the NUL key** (`vi_motionln` recognises the doubled operator letter only for `cmd != 0`):
   `nul_key_no_motion`.
6. **`:g` inside `:g` … and the bits of a `char`** (`ec_glob` refuses an eighth nesting level: the marks of a line
   are the bits `1 << xgdep` of a `char`, undefined from depth 31 on and wrong from 8 on): `xgdep_restored`,
   `glob_depth_bounded` — in every state visited along an execution the level is at most 7, and at level 7 the
   handler returns 1 with the message and the buffer untouched (`glob_at_limit`, `glob_at_limit_runs_nothing`).
-/
namespace Neatvi.Props.C05g
open Neatvi Neatvi.Uc Neatvi.Lbuf Neatvi.Ex Neatvi.Rset Neatvi.Mot Neatvi.Vi
open Neatvi.Lemmas.C05g Neatvi.Lemmas.C05d

/-! ## 1. `:s`: no trap on a truncated character -/

/-- **substLine_never_traps_on_char**: for every regex, replacement, flag and line, if the per-line loop of
    `ec_substitute` fails then on some suffix of the line either the matcher failed (`rstr_find` = `none`: its own
    traps) or it found a match whose replacement cannot be expanded (`substExpand` = `none`: a referenced group
    with garbage offsets).  There is no third source: the copy of one character after an empty match takes at most
    what is left of the line. -/
theorem substLine_never_traps_on_char (re : RStr) (rep : Bytes) (g : Bool) (line : Bytes)
    (h : substLine re rep g line = none) : ∃ k first, TrapAt re rep (line.drop k) first := by
  unfold substLine at h
  cases hgo : substLine.go re rep g (line.length + 2) line none true with
  | none => exact go_none_sources re rep g _ _ _ _ hgo
  | some t =>
    rw [hgo] at h
    obtain ⟨a, rest⟩ := t
    cases a <;> cases h

/-- conversely a source on the whole line, in the first round, makes the loop fail -/
theorem substLine_traps_at_source (re : RStr) (rep : Bytes) (g : Bool) (line : Bytes)
    (h : TrapAt re rep line true) : substLine re rep g line = none := by
  unfold substLine
  rw [(go_none_iff re rep g (line.length + 1) line none true).2 (Or.inl h)]

/-- one round, exactly (restated from `Lemmas/C05gSubst.lean`) -/
theorem substLine_round_none_iff (re : RStr) (rep : Bytes) (g : Bool) (f : Nat) (ln : Bytes) (r : Option Bytes)
    (first : Bool) :
    substLine.go re rep g (f + 1) ln r first = none ↔
      TrapAt re rep ln first ∨
      ∃ res offs c x, rstrFind re ln 16 (if first then 0 else RE_NOTBOL) ND NG = some (res, offs, c) ∧ 0 ≤ res ∧
        substExpand rep ln offs = some x ∧
        ((nextRest ln offs).isEmpty || (nextRest ln offs).headD 0 == 10 || !g) = false ∧
        substLine.go re rep g f (nextRest ln offs) (some (nextAcc r ln offs x)) false = none :=
  go_none_iff re rep g f ln r first

/-- a matcher that never fails and a replacement whose expansion never fails: `:s` on a line never fails -/
theorem substLine_total (re : RStr) (rep : Bytes) (g : Bool) (line : Bytes)
    (hm : ∀ s flg, rstrFind re s 16 flg ND NG ≠ none) (hx : ∀ s offs, substExpand rep s offs ≠ none) :
    substLine re rep g line ≠ none := by
  intro h
  obtain ⟨k, first, ht⟩ := substLine_never_traps_on_char re rep g line h
  rcases ht with ht | ⟨_, offs, _, _, _, ht⟩
  · exact hm _ _ ht
  · exact hx _ _ ht

/-- the witness: `:s/^/x/` on the "line" `0xc3` (the first byte of a two-byte character, and nothing after it):
    the empty match at offset 0 is followed by the copy of one character, `uc_len` = 2 bytes of a 1-byte string.
    The repaired code copies the one byte there is. -/
theorem subst_truncated_char :
    (rstrMake [94] 0).bind (fun r => r.bind (fun re => substLine re [120] false [0xc3])) =
      some (some [120, 0xc3]) := by decide

/-! ## 2. `:g`: no negative index -/

/-- **glob_scan_index_nonneg**: in the scan of `ec_glob` started at a non-negative index (it is started at the
    first line of the resolved region, `glob_start_nonneg`), every index `j` at which the loop reads the mark bit
    `ln_glob[j]` (`ScanReads`: the calls `globGet lb j.toNat dep` of `ecGlob.scan.adv`, round after round) is
    non-negative -/
theorem glob_scan_index_nonneg {f : Nat} {neg : Bool} {body : Bytes} {re : RStr} {dep g : Nat} {ed : Ed} {i j : Int}
    (h0 : 0 ≤ i) (h : ScanReads f neg body re dep g ed i j) : 0 ≤ j :=
  scanReads_nonneg h0 h

/-- the index a round hands on: after the command list ran it is `MAX(0, MIN(i, xrow))` -/
theorem glob_step_index {f : Nat} {neg : Bool} {body : Bytes} {re : RStr} {ed ed2 : Ed} {i i2 : Int} {st : Bool}
    (h : globStep f neg body re ed i = some (st, ed2, i2)) (h0 : 0 ≤ i) : 0 ≤ i2 :=
  globStep_index_nonneg h h0

/-- **the model's check `if i < 0 then none` never fires**: from a non-negative index a round of the scan is the
    round without the check -/
theorem glob_scan_check_never_fires (f : Nat) (neg : Bool) (body : Bytes) (re : RStr) (dep g : Nat) (ed : Ed) (i : Int)
    (h0 : 0 ≤ i) :
    ecGlob.scan f neg body re dep (g + 1) ed i =
      if i ≥ ed.len then some ed else
      match globStep f neg body re ed i with
      | none => none
      | some (true, ed, _) => some ed
      | some (false, ed, i) =>
        ecGlob.scan f neg body re dep g (ecGlob.scan.adv dep (ed.len.toNat + 1) ed i).1
          (ecGlob.scan.adv dep (ed.len.toNat + 1) ed i).2 :=
  scan_succ_nonneg f neg body re dep g ed i h0

/-- and the scan goes on at a non-negative index -/
theorem glob_scan_next_nonneg {f : Nat} {neg : Bool} {body : Bytes} {re : RStr} {dep : Nat} {ed ed2 : Ed} {i i2 : Int}
    (h : globStep f neg body re ed i = some (false, ed2, i2)) (h0 : 0 ≤ i) :
    0 ≤ (ecGlob.scan.adv dep (ed2.len.toNat + 1) ed2 i2).2 := by
  have h1 := globStep_index_nonneg h h0
  have h2 := adv_index_ge dep (ed2.len.toNat + 1) ed2 i2
  omega

theorem glob_start_nonneg {ed ed1 : Ed} {loc : Bytes} {b e : Int}
    (h : exRegion ed loc = some ((0, b, e), ed1)) : 0 ≤ b :=
  Lemmas.C05g.glob_start_nonneg h

/-! ## 3. `@r`: the count of executing registers -/

/-- **atDepth_restored**: whatever the fuel, a command (`ex_command`), a command line (`ex_exec`) and a handler
    call (`runCmd`) return with the count of executing registers they were called with -/
theorem atDepth_restored :
    (∀ f ed ln r ed', exCommand f ed ln = some (r, ed') → ed'.atDepth = ed.atDepth) ∧
    (∀ f ed ln r ed', exExec f ed ln = some (r, ed') → ed'.atDepth = ed.atDepth) ∧
    (∀ f ed h loc cmd arg txt r ed', runCmd f ed h loc cmd arg txt = some (r, ed') → ed'.atDepth = ed.atDepth) :=
  ⟨fun f => (all_depth f).2.1, fun f => (all_depth f).1, fun f => (all_depth f).2.2.1⟩

theorem exCommand_atDepth {f : Nat} {ed ed' : Ed} {ln : Bytes} {r : Int} (h : exCommand f ed ln = some (r, ed')) :
    ed'.atDepth = ed.atDepth := (all_depth f).2.1 _ _ _ _ h

theorem exExec_atDepth {f : Nat} {ed ed' : Ed} {ln : Bytes} {r : Int} (h : exExec f ed ln = some (r, ed')) :
    ed'.atDepth = ed.atDepth := (all_depth f).1 _ _ _ _ h

theorem runCmd_atDepth {f : Nat} {ed ed' : Ed} {hd : String} {loc cmd arg : Bytes} {txt : Option Bytes} {r : Int}
    (h : runCmd f ed hd loc cmd arg txt = some (r, ed')) : ed'.atDepth = ed.atDepth :=
  (all_depth f).2.2.1 _ _ _ _ _ _ _ _ h

/-- a round of the `ex()` loop, and `ex_init` -/
theorem exStep_atDepth {ed ed' : Ed} {r : Int} (h : exStep ed = some (r, ed')) : ed'.atDepth = ed.atDepth := by
  unfold exStep at h
  split at h
  · cases h
  · simp only [] at h
    split at h
    · cases h
    · rename_i r1 ed1 hc
      cases h
      have := exCommand_atDepth hc
      exact this

theorem exInit_atDepth {ed ed' : Ed} {files : List Bytes} {r : Int} (h : exInit ed files = some (r, ed')) :
    ed'.atDepth = ed.atDepth := by
  unfold exInit at h
  have hF : ecEdit FUEL = ecEdit ((FUEL - 1) + 1) := rfl
  rw [hF] at h
  exact ecEdit_depth (FUEL - 1) (all_depth _).2.1 _ _ _ _ _ h

/-- **ecAt_depth_bounded**: along any execution of a command that starts with at most 16 registers executing, in
    every state visited (`VCommand`: the states the nested handler calls return, the states at the start of the
    rounds of `:g`, the states a `+cmd` starts from) the count lies between the count at the start and 16 -/
theorem ecAt_depth_bounded {f : Nat} {ed s : Ed} {ln : Bytes} (hd : ed.atDepth ≤ 16) (hv : VCommand f ed ln s) :
    ed.atDepth ≤ s.atDepth ∧ s.atDepth ≤ 16 :=
  (all_bound f).2.1 ed ln s hd hv

/-- the same for the states visited inside one handler call -/
theorem run_depth_bounded {f : Nat} {ed s : Ed} {hd : String} {loc cmd arg : Bytes} {txt : Option Bytes}
    (h16 : ed.atDepth ≤ 16) (hv : VRun f ed hd loc cmd arg txt s) : ed.atDepth ≤ s.atDepth ∧ s.atDepth ≤ 16 :=
  (all_bound f).2.2.1 ed hd loc cmd arg txt s h16 hv

/-- the editor starts at 0, so on the whole run: at most 16 -/
theorem depth_bounded_from_start {f : Nat} {ed s : Ed} {ln : Bytes} (hd : ed.atDepth = 0) (hv : VCommand f ed ln s) :
    s.atDepth ≤ 16 :=
  (ecAt_depth_bounded (by omega) hv).2

/-- **at the limit the register is not run**: with 16 registers executing, `@r` is the register lookup and the
    address evaluation (which may trap: `none`), and then returns 1 — `exCommand` does not occur -/
theorem ecAt_at_limit (f : Nat) (ed : Ed) (loc cmd arg : Bytes) (txt : Option Bytes) (hd : 16 ≤ ed.atDepth) :
    runCmd (f + 2) ed "ec_at" loc cmd arg txt =
      match regGet ed (regName arg) with
      | none => some (1, ed)
      | some _ =>
        match exRegion ed loc with
        | none => none
        | some ((rc, _, _), ed1) =>
          some (1, if rc != 0 then ed1 else ed1.show (strOf "register recursion too deep")) := by
  rw [C06c.ec_at_dispatch, ecAt]
  cases regGet ed (regName arg) with
  | none => rfl
  | some buf =>
    simp only []
    cases hr : exRegion ed loc with
    | none => rfl
    | some z =>
      obtain ⟨⟨rc, b, e⟩, ed1⟩ := z
      have e1 := exRegion_depth hr
      simp only []
      split
      · rfl
      · rw [if_pos (by omega)]

/-- whatever it returns at the limit, the return code is 1 -/
theorem ecAt_at_limit_returns_1 (f : Nat) (ed ed' : Ed) (loc cmd arg : Bytes) (txt : Option Bytes) (r : Int)
    (hd : 16 ≤ ed.atDepth) (h : runCmd (f + 2) ed "ec_at" loc cmd arg txt = some (r, ed')) : r = 1 := by
  rw [ecAt_at_limit f ed loc cmd arg txt hd] at h
  split at h
  · cases h; rfl
  · split at h
    · cases h
    · cases h; rfl

/-- and no state is visited inside the call: nothing is run -/
theorem ecAt_at_limit_runs_nothing (f : Nat) (ed s : Ed) (loc cmd arg : Bytes) (hd : 16 ≤ ed.atDepth) :
    ¬ VAt f ed loc cmd arg s := by
  intro hv
  cases hv with
  | cmd hreg hr hrc hdp hra hvc =>
    have := exRegion_depth hr
    omega

/-! ## 4. the mark motion `` ` `` -/

/-- **backtick_lands**: the motion `` `m `` to a set mark `m` whose line `p` exists: the row is the mark's row and
    the column is the mark's column `q` clamped to the line as it is now; both keys are consumed and nothing else
    changes (`s2` is what `vi_read` left) -/
theorem backtick_lands (row off : Int) (s s1 s2 : VS) (m p q : Int) (ln : Bytes)
    (hrd : viRead s = Res.ok 96 s1) (hrd2 : viRead s1 = Res.ok m s2) (hm : 0 < m)
    (hj : s1.ed.lb.bind (fun lb => jump lb m.toNat) = some (p, q)) (hl : lineAt (lines s1) p = some ln) :
    viMotion row off s = Res.ok (96, p, min q (max 0 ((ucSlen ln : Int) - 1))) s2 := by
  have h1 := C07d.viMotionln_char_key row s s1 96 hrd (by decide) (by decide) (by decide) (by decide)
  have hm' : ¬ m ≤ 0 := by omega
  unfold viMotion
  simp only [bind, Vi.get, h1, bne_self_eq_false, Bool.false_eq_true, if_false, C07d.viRead_back]
  simp [pure, hrd2, hm', hj, hl]

/-- **backtick_in_line**: the offset `o` the motion returns is at most `uc_slen(ln) - 1` (0 on a line without
    characters), so — for a mark column `q ≥ 0` — `0 ≤ o ≤ uc_slen(ln)`: `uc_chr(ln, o)` is a position of the line
    (`chrI`), and `uc_sub` with `o` as an end, or from `o` to the end of the line, does not trap (before the repair:
    `q` itself, and `subI ln b q = none` as soon as `uc_slen(ln) < q`, `C08.subI_out_of_range`) -/
theorem backtick_in_line (ln : Bytes) (q : Int) :
    let o := min q (max 0 ((ucSlen ln : Int) - 1))
    o ≤ max 0 ((ucSlen ln : Int) - 1) ∧ o ≤ ucSlen ln ∧ (0 ≤ q → 0 ≤ o) ∧
    (1 ≤ ucSlen ln → o < ucSlen ln) ∧
    (∃ i, chrI ln o = some i ∧ i ≤ ln.length) ∧
    (∀ b, 0 ≤ b → b ≤ o → ∃ x, subI ln b o = some x) ∧
    (∀ e, 0 ≤ o → o ≤ e → e ≤ ucSlen ln → ∃ x, subI ln o e = some x) ∧
    (0 ≤ o → ∃ x, subI ln o (-1) = some x) := by
  intro o
  have ho1 : o ≤ max 0 ((ucSlen ln : Int) - 1) := Int.min_le_right _ _
  have ho2 : o ≤ ucSlen ln := by omega
  refine ⟨ho1, ho2, fun h => by omega, fun h => by omega, ?_, ?_, ?_, ?_⟩
  · by_cases hn : o < 0
    · exact ⟨ln.length, Lemmas.C08.chrI_neg ln o hn, Nat.le_refl _⟩
    · obtain ⟨ib, ie, _, h2, _, h4, _⟩ := C08.subI_spec ln o o (by omega) (Int.le_refl _) ho2
      exact ⟨ie, by rw [Lemmas.C08.chrI_nonneg ln o (by omega)]; exact h2, h4⟩
  · intro b hb hbo
    obtain ⟨ib, ie, _, _, _, _, h⟩ := C08.subI_spec ln b o hb hbo ho2
    exact ⟨_, h⟩
  · intro e ho hoe he
    obtain ⟨ib, ie, _, _, _, _, h⟩ := C08.subI_spec ln o e ho hoe he
    exact ⟨_, h⟩
  · intro ho
    obtain ⟨ib, _, _, h⟩ := C08.subI_tail_spec ln o ho ho2
    exact ⟨_, h⟩

/-- the two together: after `` `m `` the returned position is inside the line it names -/
theorem backtick_position_valid (row off : Int) (s s1 s2 : VS) (m p q : Int) (ln : Bytes)
    (hrd : viRead s = Res.ok 96 s1) (hrd2 : viRead s1 = Res.ok m s2) (hm : 0 < m)
    (hj : s1.ed.lb.bind (fun lb => jump lb m.toNat) = some (p, q)) (hl : lineAt (lines s1) p = some ln) (hq : 0 ≤ q) :
    ∃ o, viMotion row off s = Res.ok (96, p, o) s2 ∧ 0 ≤ o ∧ o < max 1 (ucSlen ln : Int) ∧
      lineAt (lines s2) p = some ln ∧ ∃ i, chrI ln o = some i := by
  refine ⟨_, backtick_lands row off s s1 s2 m p q ln hrd hrd2 hm hj hl, ?_, ?_, ?_, ?_⟩
  · omega
  · omega
  · rw [(C07d.viRead_frame s1 s2 m hrd2).lines]; exact hl
  · obtain ⟨_, _, _, _, ⟨i, hi, _⟩, _⟩ := backtick_in_line ln q
    exact ⟨i, hi⟩

/-! ## 5. the NUL key -/

/-- **nul_key_no_motion**: at top level (`vi_motionln(row, 0)`, the call from `vi_motion`) a pending NUL key is
    not a line motion: `(0, row)` is returned — no motion, the row untouched — and the key is pushed back (it is
    the next key `vi_read` delivers).  Before the repair the key was taken for the "doubled operator letter" and
    moved the row by the count. -/
theorem nul_key_no_motion (row : Int) (s s1 : VS) (hrd : viRead s = Res.ok 0 s1) :
    viMotionln row 0 s = Res.ok (0, row) { s1 with vibuf := 0 :: s1.vibuf } ∧
    viRead { s1 with vibuf := 0 :: s1.vibuf } = Res.ok 0 s1 :=
  ⟨C07d.viMotionln_other row 0 s s1 0 hrd (by decide) (by decide) (fun h => absurd rfl h) (fun h => by cases h),
   C07d.viRead_back s1 0⟩

/-- the same for a NUL byte typed at the terminal: it stays the next key, `rest` still follows it -/
theorem nul_key_no_motion_pending (row : Int) (s : VS) (rest : Bytes) (hv : s.vibuf = [])
    (hp : Lemmas.C09.pending s = 0 :: rest) :
    ∃ s1, viMotionln row 0 s = Res.ok (0, row) s1 ∧ s1.vibuf = [0] ∧ Lemmas.C09.pending s1 = rest ∧
      viRead s1 = Res.ok 0 { s1 with vibuf := [] } := by
  obtain ⟨s1, h1, h2, h3, h4, _⟩ := C07d.viMotionln_other_pending row 0 s 0 rest hv hp (by decide) (by decide)
    (fun h => absurd rfl h) (fun h => by cases h)
  exact ⟨s1, h1, h2, h3, h4⟩

/-- with an operator pending (`cmd ≠ 0`) the doubled letter is still the line motion -/
theorem doubled_letter_still_a_motion (row cmd : Int) (s s1 : VS) (hrd : viRead s = Res.ok cmd s1) (hc : cmd ≠ 0)
    (hnk : C07d.lineKeyBefore cmd = false) (h0 : 0 ≤ row) (h1 : row < lenOf s) (hcnt : 1 ≤ cntOf s) :
    viMotionln row cmd s = Res.ok (cmd, min (row + cntOf s - 1) (lenOf s - 1)) s1 :=
  C07d.viMotionln_doubled row cmd s s1 hrd hc hnk h0 h1 hcnt

/-! ## 6. `:g`: the nesting level -/

/-- **xgdep_restored**: whatever the fuel, a command, a command line and a handler call return with the nesting
    level of `:g` they were called with (`ec_glob` counts it up for its scan and down again) -/
theorem xgdep_restored :
    (∀ f ed ln r ed', exCommand f ed ln = some (r, ed') → ed'.xgdep = ed.xgdep) ∧
    (∀ f ed ln r ed', exExec f ed ln = some (r, ed') → ed'.xgdep = ed.xgdep) ∧
    (∀ f ed h loc cmd arg txt r ed', runCmd f ed h loc cmd arg txt = some (r, ed') → ed'.xgdep = ed.xgdep) :=
  ⟨fun f => (all_gdep f).2.1, fun f => (all_gdep f).1, fun f => (all_gdep f).2.2.1⟩

theorem exStep_xgdep {ed ed' : Ed} {r : Int} (h : exStep ed = some (r, ed')) : ed'.xgdep = ed.xgdep := by
  unfold exStep at h
  split at h
  · cases h
  · simp only [] at h
    split at h
    · cases h
    · rename_i r1 ed1 hc
      cases h
      have := (all_gdep FUEL).2.1 _ _ _ _ hc
      exact this

/-- **at the limit `:g` does nothing**: with seven `:g` nested, the handler returns 1 at once, with the message;
    the buffer table (every buffer's text, marks, history), the files and the cursor are untouched -/
theorem glob_at_limit (f : Nat) (ed : Ed) (loc cmd arg : Bytes) (txt : Option Bytes) (hd : 7 ≤ ed.xgdep) :
    runCmd (f + 2) ed "ec_glob" loc cmd arg txt = some (1, ed.show (strOf "global commands nested too deep")) ∧
    (ed.show (strOf "global commands nested too deep")).bufs = ed.bufs ∧
    Lemmas.C06.lines (ed.show (strOf "global commands nested too deep")) = Lemmas.C06.lines ed ∧
    (ed.show (strOf "global commands nested too deep")).files = ed.files ∧
    (ed.show (strOf "global commands nested too deep")).xrow = ed.xrow ∧
    (ed.show (strOf "global commands nested too deep")).xgdep = ed.xgdep := by
  refine ⟨?_, rfl, rfl, rfl, rfl, rfl⟩
  rw [Lemmas.C05d.runCmd_glob, ecGlob, if_pos hd]

/-- and no state is visited inside the call: no command list is run -/
theorem glob_at_limit_runs_nothing (f : Nat) (ed s : Ed) (loc cmd arg : Bytes) (hd : 7 ≤ ed.xgdep) :
    ¬ VGlob f ed loc cmd arg s := by
  intro hv
  cases hv with
  | scan hlt _ _ _ _ _ => omega

/-- **glob_depth_bounded**: along any execution of a command that starts with at most seven `:g` nested, in every
    state visited (`VCommand`) the nesting level lies between the level at the start and 7 — so the mark bit
    `1 << xgdep` of `ec_glob` is one of the eight bits of a `char` — and with `xgdep = 7` the handler of `:g` returns
    `some (1, _)` leaving the buffer untouched -/
theorem glob_depth_bounded :
    (∀ {f : Nat} {ed s : Ed} {ln : Bytes}, ed.xgdep ≤ 7 → VCommand f ed ln s → ed.xgdep ≤ s.xgdep ∧ s.xgdep ≤ 7) ∧
    (∀ (f : Nat) (ed : Ed) (loc cmd arg : Bytes) (txt : Option Bytes), ed.xgdep = 7 →
      ∃ ed', runCmd (f + 2) ed "ec_glob" loc cmd arg txt = some (1, ed') ∧ ed'.bufs = ed.bufs ∧
        Lemmas.C06.lines ed' = Lemmas.C06.lines ed) := by
  refine ⟨fun hd hv => (all_gbound _).2.1 _ _ _ hd hv, ?_⟩
  intro f ed loc cmd arg txt h7
  obtain ⟨h1, h2, h3, _⟩ := glob_at_limit f ed loc cmd arg txt (by omega)
  exact ⟨_, h1, h2, h3⟩

/-- the same for the states visited inside one handler call -/
theorem run_gdepth_bounded {f : Nat} {ed s : Ed} {hd : String} {loc cmd arg : Bytes} {txt : Option Bytes}
    (h7 : ed.xgdep ≤ 7) (hv : VRun f ed hd loc cmd arg txt s) : ed.xgdep ≤ s.xgdep ∧ s.xgdep ≤ 7 :=
  (all_gbound f).2.2.1 ed hd loc cmd arg txt s h7 hv

/-- the editor starts at level 0, so on the whole run: at most 7 -/
theorem gdepth_bounded_from_start {f : Nat} {ed s : Ed} {ln : Bytes} (hd : ed.xgdep = 0) (hv : VCommand f ed ln s) :
    s.xgdep ≤ 7 :=
  (glob_depth_bounded.1 (by omega) hv).2

end Neatvi.Props.C05g
