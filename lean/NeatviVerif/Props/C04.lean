import NeatviVerif.Lemmas.HistInv
/-!
# C04  Undo and redo restore exact earlier texts, one step per command

For *every* history of commands (unbounded; proved by an invariant, not by enumeration) the model
of `lbuf.c` never traps and behaves like a zipper of whole texts (`Spec.Zipper`).
-/
namespace Neatvi.Props.C04
open Neatvi Neatvi.Lbuf Neatvi.Spec Neatvi.Lemmas.Hist

/-- one `lbuf_edit(lb, buf, beg, end)` call: `(beg, end, buf)` -/
abbrev Splice := Nat × Nat × Option Bytes

/-- one top-level editor command at the lbuf API -/
inductive HOp where
  | cmd (splices : List (Nat × Nat × Option Bytes))   -- lbuf_edit(buf, beg, end) calls, then the sequence counter is bumped
  | undo                                                -- lbuf_undo, then bump
  | redo                                                -- lbuf_redo, then bump

/-! ### the model run -/

def applySplices : List Splice → Lb → Option Lb
  | [], lb => some lb
  | s :: r, lb =>
    match edit lb s.2.2 s.1 s.2.1 with
    | none => none
    | some lb1 => applySplices r lb1

/-- `(C return code, state)`; `none` = trap -/
def step (lb : Lb) : HOp → Option (Nat × Lb)
  | .cmd ss => (applySplices ss lb).map (fun l => (0, (modified l).2))
  | .undo => (undo lb).map (fun r => (r.1, (modified r.2).2))
  | .redo => (redo lb).map (fun r => (r.1, (modified r.2).2))

def run : List HOp → Lb → Option (List Nat × Lb)
  | [], lb => some ([], lb)
  | op :: r, lb =>
    match step lb op with
    | none => none
    | some x => (run r x.2).map (fun y => (x.1 :: y.1, y.2))

/-! ### the reference run on the zipper of texts -/

/-- does `lbuf_edit` log a history entry for this splice on text `t`? -/
def logsAt (t : Text) (s : Splice) : Bool :=
  !(min s.1 t.length == min s.2.1 t.length && s.2.2.isNone)

/-- the text after the splice (positions clamped to the text) -/
def spliceText (t : Text) (s : Splice) : Text :=
  splice t (min s.1 t.length) (min s.2.1 t.length - min s.1 t.length)
    (match s.2.2 with | none => [] | some x => refLines x)

def refSplice (z : Zipper) (s : Splice) : Zipper :=
  if logsAt z.present s then z.edit (fun t => spliceText t s) else z

def refStep (z : Zipper) : HOp → Nat × Zipper
  | .cmd ss => (0, (ss.foldl refSplice z).commit)
  | .undo => match z.undo with | some z' => (0, z') | none => (1, z)
  | .redo => match z.redo with | some z' => (0, z') | none => (1, z)

def refRun : List HOp → Zipper → List Nat × Zipper
  | [], z => ([], z)
  | op :: r, z => ((refStep z op).1 :: (refRun r (refStep z op).2).1, (refRun r (refStep z op).2).2)

/-- callers never pass an inverted range -/
def GoodOp : HOp → Prop
  | .cmd ss => ∀ s ∈ ss, s.1 ≤ s.2.1
  | _ => True

instance : DecidablePred GoodOp := fun op => by
  cases op <;> unfold GoodOp <;> infer_instance

def Good (ops : List HOp) : Prop := ∀ op ∈ ops, GoodOp op

instance : DecidablePred Good := fun ops => by unfold Good; infer_instance

/-! ### what the reference `cmd` does, spelled out -/

/-- does at least one splice of the command log a history entry (starting from text `t`)? -/
def cmdLogs (t : Text) : List Splice → Bool
  | [] => false
  | s :: r => logsAt t s || cmdLogs (spliceText t s) r

theorem spliceText_nolog (t : Text) (s : Splice) (h : logsAt t s = false) : spliceText t s = t := by
  obtain ⟨b, e, buf⟩ := s
  simp only [logsAt, Bool.not_eq_false', Bool.and_eq_true, beq_iff_eq, Option.isNone_iff_eq_none] at h
  obtain ⟨h1, h2⟩ := h
  subst h2
  simp only [spliceText, h1, Nat.sub_self]
  exact splice_noop t _

theorem refSplice_present (z : Zipper) (s : Splice) : (refSplice z s).present = spliceText z.present s := by
  unfold refSplice
  cases hl : logsAt z.present s with
  | true =>
    simp only [if_true, Zipper.edit]
    cases z.open_ <;> rfl
  | false =>
    simp only [Bool.false_eq_true, if_false]
    exact (spliceText_nolog _ _ hl).symm

theorem fold_present (ss : List Splice) (z : Zipper) :
    (ss.foldl refSplice z).present = ss.foldl spliceText z.present := by
  induction ss generalizing z with
  | nil => rfl
  | cons s r ih => simp only [List.foldl_cons, ih, refSplice_present]

theorem fold_open (ss : List Splice) (z : Zipper) (ho : z.open_ = true) :
    (ss.foldl refSplice z).open_ = true ∧ (ss.foldl refSplice z).past = z.past ∧
      (ss.foldl refSplice z).future = z.future := by
  induction ss generalizing z with
  | nil => exact ⟨ho, rfl, rfl⟩
  | cons s r ih =>
    simp only [List.foldl_cons]
    have h1 : (refSplice z s).open_ = true ∧ (refSplice z s).past = z.past ∧ (refSplice z s).future = z.future := by
      unfold refSplice
      split
      · simp [Zipper.edit, ho]
      · exact ⟨ho, rfl, rfl⟩
    obtain ⟨a, b, c⟩ := ih (refSplice z s) h1.1
    exact ⟨a, by rw [b, h1.2.1], by rw [c, h1.2.2]⟩

theorem fold_nolog (ss : List Splice) (z : Zipper) (h : cmdLogs z.present ss = false) :
    ss.foldl refSplice z = z := by
  induction ss generalizing z with
  | nil => rfl
  | cons s r ih =>
    simp only [cmdLogs, Bool.or_eq_false_iff] at h
    have hz : refSplice z s = z := by simp [refSplice, h.1]
    simp only [List.foldl_cons, hz]
    apply ih
    rw [← spliceText_nolog _ _ h.1]; exact h.2

theorem fold_log (ss : List Splice) (z : Zipper) (ho : z.open_ = false) (h : cmdLogs z.present ss = true) :
    (ss.foldl refSplice z).open_ = true ∧ (ss.foldl refSplice z).past = z.present :: z.past ∧
      (ss.foldl refSplice z).future = [] := by
  induction ss generalizing z with
  | nil => simp [cmdLogs] at h
  | cons s r ih =>
    simp only [List.foldl_cons]
    cases hl : logsAt z.present s with
    | true =>
      have h1 : (refSplice z s).open_ = true ∧ (refSplice z s).past = z.present :: z.past ∧
          (refSplice z s).future = [] := by
        simp [refSplice, hl, Zipper.edit, ho]
      obtain ⟨a, b, c⟩ := fold_open r (refSplice z s) h1.1
      exact ⟨a, by rw [b, h1.2.1], by rw [c, h1.2.2]⟩
    | false =>
      have hz : refSplice z s = z := by simp [refSplice, hl]
      rw [hz]
      apply ih z ho
      simp only [cmdLogs, hl, Bool.false_or] at h
      rw [← spliceText_nolog _ _ hl]; exact h

theorem commit_closed (z : Zipper) (h : z.open_ = false) : z.commit = z := by
  cases z; simp_all [Zipper.commit]

/-- a command that logged at least one entry pushes the old text on `past`, clears `future`, and
    its new present is the old text with all the splices applied -/
theorem refStep_cmd_logs (z : Zipper) (ss : List Splice) (ho : z.open_ = false)
    (h : cmdLogs z.present ss = true) :
    refStep z (.cmd ss) =
      (0, { past := z.present :: z.past, present := ss.foldl spliceText z.present, future := [], open_ := false }) := by
  obtain ⟨_, b, c⟩ := fold_log ss z ho h
  have d := fold_present ss z
  simp only [refStep, Zipper.commit]
  rw [b, c, d]

/-- a command that logged nothing leaves the zipper unchanged -/
theorem refStep_cmd_nolog (z : Zipper) (ss : List Splice) (ho : z.open_ = false)
    (h : cmdLogs z.present ss = false) : refStep z (.cmd ss) = (0, z) := by
  simp only [refStep, fold_nolog ss z h, commit_closed z ho]

/-! ### simulation -/

/-- the state of the model at a command boundary is simulated by the zipper `z` -/
def RunInv (lb : Lb) (z : Zipper) : Prop := z.open_ = false ∧ ∃ pg fg, Inv [] lb z pg fg

theorem RunInv.lines {lb z} (h : RunInv lb z) : lb.lines = z.present := by
  obtain ⟨_, pg, fg, hi⟩ := h; exact hi.present.symm

theorem runInv_make : RunInv Lbuf.make {} := ⟨rfl, [], [], inv_make⟩

theorem optLines_ref (buf : Option Bytes) :
    (match buf with | none => [] | some x => refLines x) = optLines buf := by
  cases buf with
  | none => rfl
  | some x => exact refLines_eq x

theorem splices_inv (T0 : Text) (ss : List Splice) : ∀ (lb : Lb) (z : Zipper) (pg fg : List Group),
    Inv T0 lb z pg fg → (∀ s ∈ ss, s.1 ≤ s.2.1) →
    ∃ lb' pg' fg', applySplices ss lb = some lb' ∧ Inv T0 lb' (ss.foldl refSplice z) pg' fg' := by
  induction ss with
  | nil => intro lb z pg fg h _; exact ⟨lb, pg, fg, rfl, h⟩
  | cons s r ih =>
    intro lb z pg fg h hg
    obtain ⟨b, e, buf⟩ := s
    have hbe : b ≤ e := hg (b, e, buf) (by simp)
    have hr : ∀ s ∈ r, s.1 ≤ s.2.1 := fun s hs => hg s (by simp [hs])
    simp only [List.foldl_cons, applySplices]
    cases hl : logsAt z.present (b, e, buf) with
    | true =>
      have hlog : ¬ (min b lb.lines.length = min e lb.lines.length ∧ buf = none) := by
        intro hc
        rw [h.present] at hl
        simp [logsAt, hc.1, hc.2] at hl
      obtain ⟨lb1, pg1, e1, _, i1⟩ := inv_edit_log h buf b e hbe hlog (fun t => spliceText t (b, e, buf))
        (by simp only [spliceText, optLines_ref])
      obtain ⟨lb', pg', fg', a1, a2⟩ := ih lb1 _ pg1 [] i1 hr
      refine ⟨lb', pg', fg', ?_, ?_⟩
      · rw [e1]; exact a1
      · simp only [refSplice, hl, if_true]; exact a2
    | false =>
      have hz : refSplice z (b, e, buf) = z := by simp [refSplice, hl]
      rw [h.present] at hl
      simp only [logsAt, Bool.not_eq_false', Bool.and_eq_true, beq_iff_eq, Option.isNone_iff_eq_none] at hl
      obtain ⟨h1, h2⟩ := hl
      subst h2
      obtain ⟨lb', pg', fg', a1, a2⟩ := ih lb z pg fg h hr
      refine ⟨lb', pg', fg', ?_, ?_⟩
      · rw [edit_noop lb b e h1]; exact a1
      · rw [hz]; exact a2

/-- an undo step at a command boundary -/
theorem step_undo {lb z} (h : RunInv lb z) :
    (z.past = [] ∧ step lb .undo = some (1, (modified lb).2)) ∨
    (∃ p ps lb', z.past = p :: ps ∧ step lb .undo = some (0, lb') ∧ lb'.lines = p ∧
      RunInv lb' ⟨ps, p, z.present :: z.future, false⟩) := by
  obtain ⟨ho, pg, fg, hi⟩ := h
  rcases inv_undo hi ho with ⟨hpg, hu, _⟩ | ⟨g, ps, lb', z', hpg, hu, hz, ho', _, hi'⟩
  · left
    refine ⟨by rw [hi.past, hpg]; rfl, ?_⟩
    simp [step, hu]
  · right
    cases hp : z.past with
    | nil => simp [Zipper.undo, hp] at hz
    | cons p ps' =>
      have hz' : z' = ⟨ps', p, z.present :: z.future, false⟩ := by
        simp only [Zipper.undo, hp, Option.some.injEq] at hz; exact hz.symm
      have hb := inv_bump hi'
      rw [commit_closed z' ho'] at hb
      refine ⟨p, ps', (modified lb').2, rfl, by simp [step, hu], ?_, ?_⟩
      · show lb'.lines = p
        rw [← hi'.present, hz']
      · rw [← hz']; exact ⟨ho', ps, g :: fg, hb⟩

/-- a redo step at a command boundary -/
theorem step_redo {lb z} (h : RunInv lb z) :
    (z.future = [] ∧ step lb .redo = some (1, (modified lb).2)) ∨
    (∃ f fs lb', z.future = f :: fs ∧ step lb .redo = some (0, lb') ∧ lb'.lines = f ∧
      RunInv lb' ⟨z.present :: z.past, f, fs, false⟩) := by
  obtain ⟨ho, pg, fg, hi⟩ := h
  rcases inv_redo hi ho with ⟨hfg, hu, _⟩ | ⟨g, fs, lb', z', hfg, hu, hz, ho', _, hi'⟩
  · left
    refine ⟨by rw [hi.future, hfg]; rfl, ?_⟩
    simp [step, hu]
  · right
    cases hp : z.future with
    | nil => simp [Zipper.redo, hp] at hz
    | cons f fs' =>
      have hz' : z' = ⟨z.present :: z.past, f, fs', false⟩ := by
        simp only [Zipper.redo, hp, Option.some.injEq] at hz; exact hz.symm
      have hb := inv_bump hi'
      rw [commit_closed z' ho'] at hb
      refine ⟨f, fs', (modified lb').2, rfl, by simp [step, hu], ?_, ?_⟩
      · show lb'.lines = f
        rw [← hi'.present, hz']
      · rw [← hz']; exact ⟨ho', g :: pg, fs, hb⟩

/-- a command step at a command boundary -/
theorem step_cmd {lb z} (h : RunInv lb z) (ss : List Splice) (hg : ∀ s ∈ ss, s.1 ≤ s.2.1) :
    ∃ lb', step lb (.cmd ss) = some (0, lb') ∧ RunInv lb' (refStep z (.cmd ss)).2 := by
  obtain ⟨_, pg, fg, hi⟩ := h
  obtain ⟨lb1, pg', fg', a1, a2⟩ := splices_inv [] ss lb z pg fg hi hg
  exact ⟨(modified lb1).2, by simp [step, a1], rfl, pg', fg', inv_bump a2⟩

theorem step_inv {lb z} (h : RunInv lb z) (op : HOp) (hg : GoodOp op) :
    ∃ lb', step lb op = some ((refStep z op).1, lb') ∧ RunInv lb' (refStep z op).2 := by
  cases op with
  | cmd ss => exact step_cmd h ss hg
  | undo =>
    rcases step_undo h with ⟨hp, hs⟩ | ⟨p, ps, lb', hp, hs, _, hi⟩
    · have hb : RunInv (modified lb).2 z := by
        obtain ⟨ho, pg, fg, hi⟩ := h
        have := inv_bump hi
        rw [commit_closed z ho] at this
        exact ⟨ho, pg, fg, this⟩
      refine ⟨(modified lb).2, ?_, ?_⟩ <;> simp only [refStep, Zipper.undo, hp]
      · exact hs
      · exact hb
    · refine ⟨lb', ?_, ?_⟩ <;> simp only [refStep, Zipper.undo, hp]
      · exact hs
      · exact hi
  | redo =>
    rcases step_redo h with ⟨hp, hs⟩ | ⟨p, ps, lb', hp, hs, _, hi⟩
    · have hb : RunInv (modified lb).2 z := by
        obtain ⟨ho, pg, fg, hi⟩ := h
        have := inv_bump hi
        rw [commit_closed z ho] at this
        exact ⟨ho, pg, fg, this⟩
      refine ⟨(modified lb).2, ?_, ?_⟩ <;> simp only [refStep, Zipper.redo, hp]
      · exact hs
      · exact hb
    · refine ⟨lb', ?_, ?_⟩ <;> simp only [refStep, Zipper.redo, hp]
      · exact hs
      · exact hi

theorem run_inv (ops : List HOp) : ∀ (lb : Lb) (z : Zipper), RunInv lb z → Good ops →
    ∃ lb', run ops lb = some ((refRun ops z).1, lb') ∧ RunInv lb' (refRun ops z).2 := by
  induction ops with
  | nil => intro lb z h _; exact ⟨lb, rfl, h⟩
  | cons op r ih =>
    intro lb z h hg
    obtain ⟨lb1, s1, i1⟩ := step_inv h op (hg op (by simp))
    obtain ⟨lb', s2, i2⟩ := ih lb1 _ i1 (fun o ho => hg o (by simp [ho]))
    refine ⟨lb', ?_, i2⟩
    simp only [run, s1, s2, refRun]
    rfl

/-! ### the property -/

/-- **Main theorem.**  For every history of commands (with non-inverted ranges) the model never
    traps, its return codes are those of the zipper of texts, and its text is the zipper's present. -/
theorem refines_zipper (ops : List HOp) (hg : Good ops) :
    ∃ lb, run ops Lbuf.make = some ((refRun ops {}).1, lb) ∧ lb.lines = (refRun ops {}).2.present := by
  obtain ⟨lb, h1, h2⟩ := run_inv ops Lbuf.make {} runInv_make hg
  exact ⟨lb, h1, h2.lines⟩

/-- the state reached by a history is simulated by the zipper reached by the reference run -/
theorem reached_inv (ops : List HOp) (hg : Good ops) (rcs : List Nat) (lb : Lb)
    (hr : run ops Lbuf.make = some (rcs, lb)) : RunInv lb (refRun ops {}).2 := by
  obtain ⟨lb', h1, h2⟩ := run_inv ops Lbuf.make {} runInv_make hg
  rw [hr] at h1
  simp only [Option.some.injEq, Prod.mk.injEq] at h1
  rw [h1.2]; exact h2

/-- after any history, an undo that has something to undo succeeds and restores exactly the text
    before the most recent not-yet-undone modifying command (the head of the zipper's past) -/
theorem undo_exact (ops : List HOp) (hg : Good ops) (rcs : List Nat) (lb : Lb)
    (hr : run ops Lbuf.make = some (rcs, lb)) (p : Text) (ps : List Text)
    (hp : (refRun ops {}).2.past = p :: ps) :
    ∃ lb', step lb .undo = some (0, lb') ∧ lb'.lines = p := by
  rcases step_undo (reached_inv ops hg rcs lb hr) with ⟨h0, _⟩ | ⟨p', ps', lb', h1, h2, h3, _⟩
  · rw [hp] at h0; simp at h0
  · rw [hp] at h1
    simp only [List.cons.injEq] at h1
    exact ⟨lb', h2, by rw [h3, h1.1]⟩

/-- after any history, a redo that has something to redo succeeds and restores exactly the text
    after the most recently undone command (the head of the zipper's future) -/
theorem redo_exact (ops : List HOp) (hg : Good ops) (rcs : List Nat) (lb : Lb)
    (hr : run ops Lbuf.make = some (rcs, lb)) (f : Text) (fs : List Text)
    (hf : (refRun ops {}).2.future = f :: fs) :
    ∃ lb', step lb .redo = some (0, lb') ∧ lb'.lines = f := by
  rcases step_redo (reached_inv ops hg rcs lb hr) with ⟨h0, _⟩ | ⟨f', fs', lb', h1, h2, h3, _⟩
  · rw [hf] at h0; simp at h0
  · rw [hf] at h1
    simp only [List.cons.injEq] at h1
    exact ⟨lb', h2, by rw [h3, h1.1]⟩

/-- with nothing below the cursor, undo returns 1 and changes nothing (but the bump) -/
theorem undo_at_bottom_fails_unchanged (ops : List HOp) (hg : Good ops) (rcs : List Nat) (lb : Lb)
    (hr : run ops Lbuf.make = some (rcs, lb)) (hp : (refRun ops {}).2.past = []) :
    step lb .undo = some (1, (modified lb).2) ∧ (modified lb).2.lines = lb.lines := by
  rcases step_undo (reached_inv ops hg rcs lb hr) with ⟨_, h⟩ | ⟨p', ps', lb', h1, _⟩
  · exact ⟨h, rfl⟩
  · rw [hp] at h1; simp at h1

/-- with nothing above the cursor, redo returns 1 and changes nothing (but the bump) -/
theorem redo_at_top_fails_unchanged (ops : List HOp) (hg : Good ops) (rcs : List Nat) (lb : Lb)
    (hr : run ops Lbuf.make = some (rcs, lb)) (hf : (refRun ops {}).2.future = []) :
    step lb .redo = some (1, (modified lb).2) ∧ (modified lb).2.lines = lb.lines := by
  rcases step_redo (reached_inv ops hg rcs lb hr) with ⟨_, h⟩ | ⟨f', fs', lb', h1, _⟩
  · exact ⟨h, rfl⟩
  · rw [hf] at h1; simp at h1

/-- the state after one more modifying command -/
theorem after_cmd (ops : List HOp) (hg : Good ops) (rcs : List Nat) (lb : Lb)
    (hr : run ops Lbuf.make = some (rcs, lb)) (ss : List Splice) (hs : ∀ s ∈ ss, s.1 ≤ s.2.1)
    (hl : cmdLogs lb.lines ss = true) :
    ∃ lb1, step lb (.cmd ss) = some (0, lb1) ∧
      RunInv lb1 { past := lb.lines :: (refRun ops {}).2.past, present := ss.foldl spliceText lb.lines,
                   future := [], open_ := false } := by
  have hi := reached_inv ops hg rcs lb hr
  obtain ⟨lb1, h1, h2⟩ := step_cmd hi ss hs
  have hpres := hi.lines
  rw [refStep_cmd_logs _ ss hi.1 (by rw [← hpres]; exact hl), ← hpres] at h2
  exact ⟨lb1, h1, h2⟩

/-- after a modifying command the redo branch is gone: redo returns 1 and changes nothing -/
theorem edit_truncates_future (ops : List HOp) (hg : Good ops) (rcs : List Nat) (lb : Lb)
    (hr : run ops Lbuf.make = some (rcs, lb)) (ss : List Splice) (hs : ∀ s ∈ ss, s.1 ≤ s.2.1)
    (hl : cmdLogs lb.lines ss = true) :
    ∃ lb1, step lb (.cmd ss) = some (0, lb1) ∧ step lb1 .redo = some (1, (modified lb1).2) ∧
      (modified lb1).2.lines = lb1.lines := by
  obtain ⟨lb1, h1, h2⟩ := after_cmd ops hg rcs lb hr ss hs hl
  refine ⟨lb1, h1, ?_, rfl⟩
  rcases step_redo h2 with ⟨_, h⟩ | ⟨f', fs', lb', h3, _⟩
  · exact h
  · simp at h3

/-- a command made of any number of splices, at least one of which logs, is ONE undo step:
    a single undo returns 0 and restores exactly the text before the command (and a redo then
    restores exactly the text after it) -/
theorem compound_is_one_step (ops : List HOp) (hg : Good ops) (rcs : List Nat) (lb : Lb)
    (hr : run ops Lbuf.make = some (rcs, lb)) (ss : List Splice) (hs : ∀ s ∈ ss, s.1 ≤ s.2.1)
    (hl : cmdLogs lb.lines ss = true) :
    ∃ lb1 lb2 lb3, step lb (.cmd ss) = some (0, lb1) ∧ lb1.lines = ss.foldl spliceText lb.lines ∧
      step lb1 .undo = some (0, lb2) ∧ lb2.lines = lb.lines ∧
      step lb2 .redo = some (0, lb3) ∧ lb3.lines = lb1.lines := by
  obtain ⟨lb1, h1, h2⟩ := after_cmd ops hg rcs lb hr ss hs hl
  have hl1 : lb1.lines = ss.foldl spliceText lb.lines := h2.lines
  rcases step_undo h2 with ⟨h0, _⟩ | ⟨p, ps, lb2, h3, h4, h5, h6⟩
  · simp at h0
  · simp only [List.cons.injEq] at h3
    rcases step_redo h6 with ⟨h0, _⟩ | ⟨f, fs, lb3, h7, h8, h9, _⟩
    · simp at h0
    · simp only [List.cons.injEq] at h7
      exact ⟨lb1, lb2, lb3, h1, hl1, h4, by rw [h5, ← h3.1], h8, by rw [h9, ← h7.1, hl1]⟩

/-! ### non-vacuity: a concrete history with a compound command, undo, redo, and a truncating edit -/

def demo : List HOp :=
  [ .cmd [(0, 0, some [97, 10, 98, 10, 99])],                    -- insert a, b, c
    .cmd [(1, 2, none), (0, 0, none), (5, 9, some [100])],       -- delete b; no-op; append d (one command)
    .undo, .undo, .undo, .redo,
    .cmd [(0, 1, some [120, 10])],                               -- replace a by x: drops the redo branch
    .redo, .undo ]

example : Good demo := by decide

example : (refRun demo {}).1 = [0, 0, 0, 0, 1, 0, 0, 1, 0] ∧
    (refRun demo {}).2.present = [[97, 10], [98, 10], [99, 10]] := by decide

example : (run demo Lbuf.make).map (fun r => (r.1, r.2.lines)) =
    some ([0, 0, 0, 0, 1, 0, 0, 1, 0], [[97, 10], [98, 10], [99, 10]]) := by decide

end Neatvi.Props.C04
