import NeatviVerif.Model.ExCmd
import NeatviVerif.Lemmas.ExFrame
import NeatviVerif.Props.C14
/-!
# C15: `:g` — the marks travel with their lines, every marked line is visited once, one undo step
-/
namespace Neatvi.Props.C15
open Neatvi Neatvi.Lbuf Neatvi.Ex Neatvi.Rset Neatvi.Lemmas.ExFrame Neatvi.Lemmas.Hist Neatvi.Props.C01

/-! ## 6. the glob bits travel with their lines -/

/-- the table of marks is as long as the table of lines (`ln_glob` is allocated along with `ln`) -/
def GlobLen (lb : Lb) : Prop := lb.glob.length = lb.lines.length

theorem setMark_glob (lb : Lb) (c : Nat) (p o : Int) : (setMark lb c p o).glob = lb.glob := by
  unfold setMark; split <;> rfl

/-- the marks after `lbuf_replace` -/
theorem replace_glob {lb lb' : Lb} {s : Option Bytes} {pos nDel : Nat} (h : replace lb s pos nDel = some lb') :
    lb'.glob = lb.glob.take pos ++
      ((lb.glob.drop pos).take (min (optLines s).length nDel) ++
        List.replicate ((optLines s).length - min (optLines s).length nDel) 0) ++
      lb.glob.drop (pos + nDel) := by
  unfold replace at h
  simp only [] at h
  split at h
  · cases h
    rw [setMark_glob, setMark_glob]
    cases s <;> rfl
  · cases h

/-- **glob_bits_travel**: after a successful `lbuf_replace` of `nDel` lines at `pos` by `nIns` new ones,
    * the lines before `pos` keep their marks,
    * the first `min nIns nDel` new lines inherit the marks of the slots they replace,
    * every further new line is unmarked ("a line an execution inserted is never marked"),
    * the lines after the replaced range keep their marks, shifted with them,
    * and the table of marks is still as long as the table of lines -/
theorem glob_bits_travel {lb lb' : Lb} {s : Option Bytes} {pos nDel : Nat}
    (h : replace lb s pos nDel = some lb') (hg : GlobLen lb) (nIns : Nat) (hn : nIns = (optLines s).length) :
    (∀ i, i < pos → lb'.glob[i]? = lb.glob[i]?) ∧
    (∀ i, pos ≤ i → i < pos + min nIns nDel → lb'.glob[i]? = lb.glob[i]?) ∧
    (∀ i, pos + min nIns nDel ≤ i → i < pos + nIns → lb'.glob[i]? = some 0) ∧
    (∀ k, lb'.glob[pos + nIns + k]? = lb.glob[pos + nDel + k]?) ∧
    GlobLen lb' := by
  obtain ⟨hb, hlines, _⟩ := replace_lines h
  have hgl := replace_glob h
  rw [← hn] at hgl
  unfold GlobLen at hg
  have hl1 : (lb.glob.take pos).length = pos := by simp; omega
  have hl2 : ((lb.glob.drop pos).take (min nIns nDel)).length = min nIns nDel := by simp; omega
  have hl3 : ((lb.glob.drop pos).take (min nIns nDel) ++ List.replicate (nIns - min nIns nDel) 0).length = nIns := by
    rw [List.length_append, hl2, List.length_replicate]; omega
  refine ⟨?_, ?_, ?_, ?_, ?_⟩
  · intro i hi
    rw [hgl, List.append_assoc, List.getElem?_append_left (by omega), List.getElem?_take_of_lt hi]
  · intro i h1 h2
    rw [hgl, List.append_assoc, List.getElem?_append_right (by omega), hl1,
      List.getElem?_append_left (by omega), List.getElem?_append_left (by omega),
      List.getElem?_take_of_lt (by omega), List.getElem?_drop]
    congr 1; omega
  · intro i h1 h2
    rw [hgl, List.append_assoc, List.getElem?_append_right (by omega), hl1,
      List.getElem?_append_left (by omega), List.getElem?_append_right (by omega), hl2,
      List.getElem?_replicate, if_pos (by omega)]
  · intro k
    rw [hgl, List.getElem?_append_right (by rw [List.length_append, hl1, hl3]; omega),
      List.length_append, hl1, hl3, List.getElem?_drop]
    congr 1; omega
  · unfold GlobLen
    rw [hgl, hlines]
    simp only [List.length_append, hl1, hl3, List.length_drop, List.length_take, ← hn]
    omega

/-- `lbuf_replace` never sets a bit: every mark afterwards is a mark from before, or 0 -/
theorem replace_glob_mem {lb lb' : Lb} {s : Option Bytes} {pos nDel : Nat} (h : replace lb s pos nDel = some lb') :
    ∀ x ∈ lb'.glob, x ∈ lb.glob ∨ x = 0 := by
  intro x hx
  rw [replace_glob h] at hx
  simp only [List.mem_append, List.mem_replicate] at hx
  rcases hx with (hx | hx | hx) | hx
  · exact Or.inl (List.mem_of_mem_take hx)
  · exact Or.inl (List.mem_of_mem_drop (List.mem_of_mem_take hx))
  · exact Or.inr hx.2
  · exact Or.inl (List.mem_of_mem_drop hx)

theorem glob_len_inv {lb lb' : Lb} {s : Option Bytes} {pos nDel : Nat}
    (h : replace lb s pos nDel = some lb') (hg : GlobLen lb) : GlobLen lb' := (glob_bits_travel h hg _ rfl).2.2.2.2

/-- `lbuf_edit` keeps the invariant (`lbuf_opt` does not touch the marks) -/
theorem edit_globLen {lb lb' : Lb} {buf : Option Bytes} {b e : Nat} (h : edit lb buf b e = some lb') (hg : GlobLen lb) :
    GlobLen lb' := by
  unfold edit at h
  simp only [] at h
  split at h
  · cases h
  · split at h
    · cases h; exact hg
    · exact glob_len_inv h hg

theorem make_globLen : GlobLen Lbuf.make := rfl

/-- `:2,3c` with three new lines on a buffer whose lines carry the marks 1 2 4 8 16: the two replaced slots
    keep 2 and 4, the third new line is clear, 8 and 16 move down by one -/
example : (replace { lines := [[97, 10], [98, 10], [99, 10], [100, 10], [101, 10]], glob := [1, 2, 4, 8, 16] }
    (some [120, 10, 121, 10, 122, 10]) 1 2).map (·.glob) = some [1, 2, 4, 0, 8, 16] := by decide
/-- deleting two lines drops their marks -/
example : (replace { lines := [[97, 10], [98, 10], [99, 10], [100, 10]], glob := [1, 2, 4, 8] } none 1 2).map (·.glob) =
    some [1, 8] := by decide

/-! ## 7. `lbuf_globget` clears one bit, `lbuf_globset` sets one bit -/

/-- `x & ~(1 << dep)` on a `char` -/
def clr (x dep : Nat) : Nat := x &&& ((255 : Nat) ^^^ (1 <<< dep))

theorem and_two_pow_pos (x d : Nat) : (x &&& 2 ^ d > 0) ↔ x.testBit d = true := by
  constructor
  · intro h
    obtain ⟨i, hi⟩ := Nat.exists_testBit_of_ne_zero (x := x &&& 2 ^ d) (by omega)
    rw [Nat.testBit_and, Nat.testBit_two_pow] at hi
    simp only [Bool.and_eq_true, decide_eq_true_eq] at hi
    rw [hi.2]; exact hi.1
  · intro h
    apply Classical.byContradiction
    intro hn
    have h0 : x &&& 2 ^ d = 0 := by omega
    have : (x &&& 2 ^ d).testBit d = true := by
      rw [Nat.testBit_and, h, Nat.testBit_two_pow_self]; rfl
    rw [h0] at this
    simp at this

/-- bit `dep` is cleared, every other bit of a byte is kept -/
theorem clr_testBit (x dep k : Nat) (hx : x < 256) : (clr x dep).testBit k = (x.testBit k && k != dep) := by
  unfold clr
  rw [Nat.testBit_and, Nat.testBit_xor, Nat.one_shiftLeft, Nat.testBit_two_pow,
    show (255 : Nat) = 2 ^ 8 - 1 by rfl, Nat.testBit_two_pow_sub_one]
  by_cases hk : k < 8
  · by_cases hd : dep = k
    · subst hd; simp [hk]
    · have : k ≠ dep := fun h => hd h.symm
      simp [hk, hd, this]
  · have : x.testBit k = false := by
      apply Nat.testBit_lt_two_pow
      calc x < 2 ^ 8 := hx
        _ ≤ 2 ^ k := Nat.pow_le_pow_right (by omega) (by omega)
    simp [this]

theorem clr_lt (x dep : Nat) (hx : x < 256) : clr x dep < 256 := by
  unfold clr
  exact Nat.lt_of_le_of_lt Nat.and_le_left hx

/-- clearing a clear bit of a byte changes nothing -/
theorem clr_of_clear (x dep : Nat) (hx : x < 256) (h : x.testBit dep = false) : clr x dep = x := by
  apply Nat.eq_of_testBit_eq
  intro k
  rw [clr_testBit x dep k hx]
  by_cases hk : k = dep
  · subst hk; simp [h]
  · simp [hk]

theorem set_testBit (x dep k : Nat) : (x ||| (1 <<< dep)).testBit k = (x.testBit k || k == dep) := by
  rw [Nat.testBit_or, Nat.one_shiftLeft, Nat.testBit_two_pow]
  by_cases h : dep = k
  · subst h; simp
  · have : k ≠ dep := fun h' => h h'.symm
    simp [h, this]

theorem getD_set (l : List Nat) (i j v : Nat) (h : i < l.length ∨ v = 0) :
    (l.set i v).getD j 0 = if j = i then v else l.getD j 0 := by
  rw [List.getD_eq_getElem?_getD, List.getD_eq_getElem?_getD, List.getElem?_set]
  by_cases hij : i = j
  · subst hij
    rcases h with h | h
    · simp [h]
    · subst h
      by_cases hl : i < l.length
      · simp [hl]
      · simp [hl]
  · have : ¬ j = i := fun h' => hij h'.symm
    simp [hij, this]

/-- **globGet_clears** (the value read): the result is bit `dep` of entry `i` -/
theorem globGet_fst (lb : Lb) (i dep : Nat) : (globGet lb i dep).1 = (lb.glob.getD i 0).testBit dep := by
  unfold globGet
  simp only [Nat.one_shiftLeft]
  rw [Bool.eq_iff_iff, decide_eq_true_iff]
  exact and_two_pow_pos _ _

/-- **globGet_clears** (the table): entry `i` has bit `dep` cleared, every other entry is unchanged -/
theorem globGet_entry (lb : Lb) (i dep j : Nat) :
    (globGet lb i dep).2.glob.getD j 0 = if j = i then clr (lb.glob.getD i 0) dep else lb.glob.getD j 0 := by
  unfold globGet
  simp only []
  apply getD_set
  by_cases h : i < lb.glob.length
  · exact Or.inl h
  · right
    rw [List.getD_eq_getElem?_getD, List.getElem?_eq_none (by omega)]
    simp

/-- **globGet_clears** (bitwise): in the table after `lbuf_globget(lb, i, dep)`, bit `k` of entry `j` is
    what it was, except bit `dep` of entry `i`, which is clear -/
theorem globGet_clears (lb : Lb) (i dep j k : Nat) (hb : ∀ x ∈ lb.glob, x < 256) :
    ((globGet lb i dep).2.glob.getD j 0).testBit k =
      ((lb.glob.getD j 0).testBit k && !(j == i && k == dep)) := by
  rw [globGet_entry]
  have hx : lb.glob.getD i 0 < 256 := by
    rw [List.getD_eq_getElem?_getD]
    cases hget : lb.glob[i]? with
    | none => simp
    | some v => exact hb v (List.mem_of_getElem? hget)
  by_cases hj : j = i
  · subst hj
    rw [if_pos rfl, clr_testBit _ _ _ hx]
    by_cases hk : k = dep <;> simp [hk, bne]
  · rw [if_neg hj]
    simp [hj]

/-- nothing else in the buffer changes -/
theorem globGet_rest (lb : Lb) (i dep : Nat) :
    (globGet lb i dep).2.lines = lb.lines ∧ (globGet lb i dep).2.useq = lb.useq ∧
    (globGet lb i dep).2.hist = lb.hist ∧ (globGet lb i dep).2.histU = lb.histU ∧
    (globGet lb i dep).2.glob.length = lb.glob.length := by
  unfold globGet
  simp

/-- **globSet** sets bit `dep` of entry `pos` (when the entry exists) and nothing else -/
theorem globSet_sets (lb : Lb) (pos dep j k : Nat) (hp : pos < lb.glob.length) :
    ((globSet lb pos dep).glob.getD j 0).testBit k =
      ((lb.glob.getD j 0).testBit k || (j == pos && k == dep)) := by
  unfold globSet
  simp only []
  rw [getD_set _ _ _ _ (Or.inl hp)]
  by_cases hj : j = pos
  · subst hj
    rw [if_pos rfl, set_testBit]
    simp
  · rw [if_neg hj]
    simp [hj]

theorem globSet_rest (lb : Lb) (pos dep : Nat) :
    (globSet lb pos dep).lines = lb.lines ∧ (globSet lb pos dep).useq = lb.useq ∧
    (globSet lb pos dep).hist = lb.hist ∧ (globSet lb pos dep).histU = lb.histU ∧
    (globSet lb pos dep).glob.length = lb.glob.length := by
  unfold globSet
  simp

/-- the marks stay bytes under `lbuf_globget` -/
theorem globGet_bytes (lb : Lb) (i dep : Nat) (hb : ∀ x ∈ lb.glob, x < 256) :
    ∀ x ∈ (globGet lb i dep).2.glob, x < 256 := by
  intro x hx
  unfold globGet at hx
  simp only [] at hx
  rcases List.mem_or_eq_of_mem_set hx with h | h
  · exact hb x h
  · rw [h]
    apply clr_lt
    rw [List.getD_eq_getElem?_getD]
    cases hget : lb.glob[i]? with
    | none => simp
    | some v => exact hb v (List.mem_of_getElem? hget)

/-! ## 9. `ex_exec` does not bump the sequence counter: one `:g` is one undo step -/

/-- the sequence counter of the current buffer -/
def useqOf (ed : Ed) : Option Nat := ed.lb.map (·.useq)

theorem useq_of_bufs {ed ed' : Ed} (h : ed'.bufs = ed.bufs) : useqOf ed' = useqOf ed := by
  unfold useqOf; rw [lb_of_bufs h]

theorem useq_setLb (ed : Ed) (lb' : Lb) (h : ∀ lb, ed.lb = some lb → lb'.useq = lb.useq) :
    useqOf (ed.setLb lb') = useqOf ed := by
  unfold useqOf
  rw [setLb_lb]
  cases hl : ed.lb with
  | none => rfl
  | some lb => simp [h lb hl]

/-- an update of the current line buffer by a function that keeps `useq` -/
theorem useq_upd (ed : Ed) (F : Lb → Lb) (hF : ∀ lb, (F lb).useq = lb.useq) :
    useqOf (match ed.lb with | some lb => ed.setLb (F lb) | none => ed) = useqOf ed := by
  cases hl : ed.lb with
  | none => rfl
  | some lb => exact useq_setLb ed _ (fun lb0 h0 => by rw [hl] at h0; cases h0; exact hF lb)

theorem useq_edit {ed ed' : Ed} {s : Option Bytes} {b e : Int} (h : ed.edit s b e = some ed') :
    useqOf ed' = useqOf ed := by
  obtain ⟨_, _, lb, lb', hlb, hed, rfl, _⟩ := Ed_edit_some h
  exact useq_setLb ed lb' (fun lb0 h0 => by rw [hlb] at h0; cases h0; exact edit_useq hed)

theorem undoGo_useq (seq : Nat) : ∀ (f : Nat) (lb lb' : Lb), undoGo seq f lb = some lb' → lb'.useq = lb.useq := by
  intro f
  induction f with
  | zero => intro lb lb' h; cases h; rfl
  | succ f ih =>
    intro lb lb' h
    rw [undoGo] at h
    split at h
    · cases h; rfl
    · split at h
      · cases h
      · split at h
        · split at h
          · cases h
          · rename_i lb1 hr
            rw [ih _ _ h, loadMarks_useq]
            exact (replace_lines hr).2.2
        · cases h; rfl

theorem redoGo_useq (seq : Nat) : ∀ (f : Nat) (lb lb' : Lb), redoGo seq f lb = some lb' → lb'.useq = lb.useq := by
  intro f
  induction f with
  | zero => intro lb lb' h; cases h; rfl
  | succ f ih =>
    intro lb lb' h
    rw [redoGo] at h
    split at h
    · split at h
      · cases h
      · split at h
        · split at h
          · cases h
          · rename_i lb1 hr
            rw [ih _ _ h]
            exact (replace_lines hr).2.2
        · cases h; rfl
    · cases h; rfl

theorem undo_useq {lb lb' : Lb} {rc : Nat} (h : Lbuf.undo lb = some (rc, lb')) : lb'.useq = lb.useq := by
  unfold Lbuf.undo at h
  split at h
  · cases h; rfl
  · split at h
    · cases h
    · rename_i e _
      cases hg : undoGo e.seq lb.histU lb with
      | none => rw [hg] at h; cases h
      | some l => rw [hg] at h; cases h; exact undoGo_useq _ _ _ _ hg

theorem redo_useq {lb lb' : Lb} {rc : Nat} (h : Lbuf.redo lb = some (rc, lb')) : lb'.useq = lb.useq := by
  unfold Lbuf.redo at h
  split at h
  · cases h; rfl
  · split at h
    · cases h
    · rename_i e _
      cases hg : redoGo e.seq (lb.hist.length - lb.histU) lb with
      | none => rw [hg] at h; cases h
      | some l => rw [hg] at h; cases h; exact redoGo_useq _ _ _ _ hg

theorem rd_useq {lb lb' : Lb} {chunks : List Bytes} {fe : Bool} {b e rc : Nat}
    (h : LbufIo.rd lb chunks fe b e = some (rc, lb')) : lb'.useq = lb.useq := by
  unfold LbufIo.rd at h
  repeat' (split at h)
  all_goals (first | cases h | skip)
  · rfl
  · rename_i he; exact edit_useq he

theorem pathExpand_bufs {ed ed' : Ed} {src : Bytes} {sp : Bool} {r : Option Bytes}
    (h : pathExpand ed src sp = some (r, ed')) : ed'.bufs = ed.bufs := by
  unfold pathExpand at h
  frame_split h

theorem setOpt_bufs (ed : Ed) (v : String) (val : Int) : (setOpt ed v val).bufs = ed.bufs := by
  unfold setOpt
  repeat' split
  all_goals rfl

theorem exTxt_bufs (ed : Ed) (src ex : Bytes) : (exTxt ed src ex).2.bufs = ed.bufs := by
  unfold exTxt
  simp only []
  repeat' split
  all_goals rfl

theorem foldl_print_bufs (b : Int) : ∀ (l : List Nat) (ed : Ed),
    (l.foldl (fun (ed : Ed) (k : Nat) => match ed.line (b + (k : Int)) with | some l => ed.print l | none => ed) ed).bufs
      = ed.bufs := by
  intro l
  induction l with
  | nil => intro ed; rfl
  | cons k l ih =>
    intro ed
    rw [List.foldl_cons, ih]
    split <;> rfl

theorem substLoop_useq (re : RStr) (g : Bool) (b : Int) : ∀ (n : Nat) (ed ed' : Ed),
    C14.substLoop re g b n ed = some ed' → useqOf ed' = useqOf ed := by
  intro n
  induction n with
  | zero => intro ed ed' h; cases h; rfl
  | succ n ih =>
    intro ed ed' h
    rw [C14.substLoop_succ] at h
    cases hm : C14.substLoop re g b n ed with
    | none => rw [hm] at h; cases h
    | some em =>
      rw [hm] at h
      simp only [Option.bind_some] at h
      rw [← ih _ _ hm]
      unfold C14.substStep at h
      repeat' (split at h)
      all_goals (first | cases h | skip)
      · rfl
      · exact useq_edit h

/-- the `ec_print` branch, for any fuel -/
theorem runCmd_print_kept (f : Nat) (ed ed' : Ed) (loc cmd arg : Bytes) (txt : Option Bytes) (r : Int)
    (h : runCmd f ed "ec_print" loc cmd arg txt = some (r, ed')) : useqOf ed' = useqOf ed := by
  cases f with
  | zero => rw [runCmd] at h; cases h
  | succ f =>
    rw [runCmd] at h
    rw [if_neg (by decide), if_pos (by decide)] at h
    split at h
    · cases h; rfl
    · split at h
      · cases h
      · rename_i hr
        split at h
        · cases h; exact useq_of_bufs (exRegion_bufs hr)
        · cases h
          refine Eq.trans (useq_of_bufs ?_) (useq_of_bufs (exRegion_bufs hr))
          exact foldl_print_bufs _ _ _

/-- the handlers that may bump a sequence counter or switch buffers: `:@`/`:ra`, `:e`, `:!`, `:w`, `:q`, `:b` -/
def noisy (h : String) : Bool :=
  h == "ec_at" || h == "ec_edit" || h == "ec_exec" || h == "ec_write" || h == "ec_quit" || h == "ec_buffer"

/-- every branch of `runCmd` except the noisy ones keeps the sequence counter of the current buffer,
    given that the `:g` it may run does -/
theorem runCmd_kept (f : Nat) (ed ed' : Ed) (hd : String) (loc cmd arg : Bytes) (txt : Option Bytes) (r : Int)
    (hq : noisy hd = false)
    (hglob : hd = "ec_glob" → ∀ ed r ed', ecGlob f ed loc cmd arg = some (r, ed') → useqOf ed' = useqOf ed)
    (h : runCmd (f + 1) ed hd loc cmd arg txt = some (r, ed')) : useqOf ed' = useqOf ed := by
  by_cases hs : hd = "ec_substitute"
  · subst hs
    rw [C14.runCmd_subst_eq] at h
    split at h
    · cases h
    · rename_i hr
      have e1 := useq_of_bufs (exRegion_bufs hr)
      have e2 := useq_of_bufs (C14.substPrep_bufs ‹Ed› arg)
      repeat' (split at h)
      all_goals (first | cases h | skip)
      · exact e1
      · exact e2.trans e1
      · exact e2.trans e1
      · rename_i hl
        exact ((substLoop_useq _ _ _ _ _ _ hl).trans e2).trans e1
  rw [runCmd] at h
  by_cases c : (hd == "ec_insert") = true
  · rw [if_pos c] at h
    simp only [] at h
    split at h
    · cases h
    · rename_i hr
      have e1 := useq_of_bufs (exRegion_bufs hr)
      repeat' (split at h)
      all_goals (first | cases h | skip)
      all_goals (first | exact e1 | (have he := useq_edit (by assumption); exact he.trans e1))
  rw [if_neg c] at h; clear c
  by_cases c : (hd == "ec_print") = true
  · have : hd = "ec_print" := by simpa using c
    subst this
    have h' : runCmd (f + 1) ed "ec_print" loc cmd arg txt = some (r, ed') := by
      rw [runCmd, if_neg (by decide), if_pos (by decide)]
      rw [if_pos c] at h
      exact h
    exact runCmd_print_kept _ _ _ _ _ _ _ _ h'
  rw [if_neg c] at h; clear c
  by_cases c : (hd == "ec_null") = true
  · rw [if_pos c] at h
    split at h
    · exact (runCmd_print_kept _ _ _ _ _ _ _ _ h).trans (useq_of_bufs rfl)
    · split at h
      · cases h
      · rename_i hr
        have e1 := useq_of_bufs (exRegion_bufs hr)
        split at h
        · cases h; exact e1
        · cases h; exact e1
  rw [if_neg c] at h; clear c
  by_cases c : (hd == "ec_delete" || hd == "ec_yank") = true
  · rw [if_pos c] at h
    simp only [] at h
    split at h
    · cases h
    · rename_i hr
      have e1 := useq_of_bufs (exRegion_bufs hr)
      repeat' (split at h)
      all_goals (first | cases h | skip)
      all_goals (first | exact e1 | (have he := useq_edit (by assumption); exact he.trans e1))
  rw [if_neg c] at h; clear c
  by_cases c : (hd == "ec_put") = true
  · rw [if_pos c] at h
    simp only [] at h
    split at h
    · cases h; rfl
    · split at h
      · cases h
      · rename_i hr
        have e1 := useq_of_bufs (exRegion_bufs hr)
        repeat' (split at h)
        all_goals (first | cases h | skip)
        all_goals (first | exact e1 | (have he := useq_edit (by assumption); exact he.trans e1))
  rw [if_neg c] at h; clear c
  by_cases c : (hd == "ec_lnum") = true
  · rw [if_pos c] at h
    split at h
    · cases h
    · rename_i hr
      have e1 := useq_of_bufs (exRegion_bufs hr)
      split at h
      · cases h; exact e1
      · cases h; exact e1
  rw [if_neg c] at h; clear c
  by_cases c : (hd == "ec_undo") = true
  · rw [if_pos c] at h
    split at h
    · cases h
    · rename_i rc lb hu
      cases h
      apply useq_setLb
      intro lb0 h0
      rw [h0] at hu
      exact undo_useq hu
  rw [if_neg c] at h; clear c
  by_cases c : (hd == "ec_redo") = true
  · rw [if_pos c] at h
    split at h
    · cases h
    · rename_i rc lb hu
      cases h
      apply useq_setLb
      intro lb0 h0
      rw [h0] at hu
      exact redo_useq hu
  rw [if_neg c] at h; clear c
  by_cases c : (hd == "ec_mark") = true
  · rw [if_pos c] at h
    split at h
    · cases h
    · rename_i hr
      have e1 := useq_of_bufs (exRegion_bufs hr)
      split at h
      · cases h; exact e1
      · split at h
        · cases h
        · rename_i lb hlb
          cases h
          refine Eq.trans ?_ e1
          apply useq_setLb
          intro lb0 h0
          rw [hlb] at h0; cases h0
          exact setMark_useq _ _ _ _
  rw [if_neg c] at h; clear c
  by_cases c : (hd == "ec_rs") = true
  · rw [if_pos c] at h
    cases h; rfl
  rw [if_neg c] at h; clear c
  by_cases c : (hd == "ec_at") = true
  · simp [noisy, c] at hq
  rw [if_neg c] at h; clear c
  by_cases c : (hd == "ec_glob") = true
  · rw [if_pos c] at h
    exact hglob (by simpa using c) _ _ _ h
  rw [if_neg c] at h; clear c
  by_cases c : (hd == "ec_edit") = true
  · simp [noisy, c] at hq
  rw [if_neg c] at h; clear c
  by_cases c : (hd == "ec_substitute") = true
  · exact absurd (by simpa using c) hs
  rw [if_neg c] at h; clear c
  by_cases c : (hd == "ec_exec") = true
  · simp [noisy, c] at hq
  rw [if_neg c] at h; clear c
  by_cases c : (hd == "ec_read") = true
  · rw [if_pos c] at h
    simp only [] at h
    split at h
    · cases h
    · rename_i path ed1 hp
      have e0 : useqOf ed1 = useqOf ed := by
        split at hp
        · exact useq_of_bufs (pathExpand_bufs hp)
        · cases hp; rfl
      split at h
      · cases h
      · rename_i hr
        have e1 := (useq_of_bufs (exRegion_bufs hr)).trans e0
        repeat' (split at h)
        all_goals (first | cases h | skip)
        all_goals (first | exact e1 | skip)
        · rename_i hm
          split at hm
          · exact (useq_edit hm).trans e1
          · cases hm; exact e1
        · rename_i lb1 hrd
          refine Eq.trans ?_ e1
          show useqOf (Ed.setLb _ lb1) = _
          apply useq_setLb
          intro lb0 h0
          rw [h0] at hrd
          exact rd_useq hrd
  rw [if_neg c] at h; clear c
  by_cases c : (hd == "ec_write") = true
  · simp [noisy, c] at hq
  rw [if_neg c] at h; clear c
  by_cases c : (hd == "ec_quit") = true
  · simp [noisy, c] at hq
  rw [if_neg c] at h; clear c
  by_cases c : (hd == "ec_buffer") = true
  · simp [noisy, c] at hq
  rw [if_neg c] at h; clear c
  by_cases c : (hd == "ec_set") = true
  · rw [if_pos c] at h
    simp only [] at h
    repeat' (split at h)
    all_goals (first | cases h | skip)
    all_goals (first | rfl | exact useq_of_bufs (setOpt_bufs _ _ _))
  rw [if_neg c] at h; clear c
  by_cases c : (hd == "ec_echo") = true
  · rw [if_pos c] at h
    cases h; rfl
  rw [if_neg c] at h; clear c
  cases h; rfl

/-- running line `s` with fuel `f` keeps the sequence counter -/
def LineKept (f : Nat) (s : Bytes) : Prop := ∀ ed r ed', exExec f ed s = some (r, ed') → useqOf ed' = useqOf ed

theorem adv_kept (dep : Nat) : ∀ (h : Nat) (ed : Ed) (i : Int), useqOf (ecGlob.scan.adv dep h ed i).1 = useqOf ed := by
  intro h
  induction h with
  | zero => intro ed i; rw [ecGlob.scan.adv]
  | succ h ih =>
    intro ed i
    rw [ecGlob.scan.adv]
    split
    · rfl
    · split
      · rfl
      · rename_i lb hlb
        simp only []
        have e1 : useqOf (ed.setLb (globGet lb i.toNat dep).2) = useqOf ed :=
          useq_setLb ed _ (fun lb0 h0 => by rw [hlb] at h0; cases h0; rfl)
        split
        · exact e1
        · rw [ih]; exact e1

theorem scan_kept (f : Nat) (neg : Bool) (s : Bytes) (re : RStr) (dep : Nat) (hbody : LineKept f s) :
    ∀ (g : Nat) (ed : Ed) (i : Int) (ed' : Ed), ecGlob.scan f neg s re dep g ed i = some ed' → useqOf ed' = useqOf ed := by
  intro g
  induction g with
  | zero => intro ed i ed' h; rw [ecGlob.scan] at h; cases h
  | succ g ih =>
    intro ed i ed' h
    rw [ecGlob.scan] at h
    split at h
    · cases h; rfl
    · split at h
      · cases h
      · split at h
        · cases h
        · rename_i res _ _ hfind
          simp only [] at h
          split at h
          · cases h
          · rename_i edx _ hstep
            cases h
            split at hstep
            · split at hstep
              · cases hstep
              · rename_i hx
                split at hstep
                · cases hstep
                  exact (hbody _ _ _ hx).trans (useq_of_bufs rfl)
                · cases hstep
            · cases hstep
          · rename_i edx ix hstep
            have e1 : useqOf edx = useqOf ed := by
              split at hstep
              · split at hstep
                · cases hstep
                · rename_i hx
                  split at hstep
                  · cases hstep
                  · cases hstep
                    exact (hbody _ _ _ hx).trans (useq_of_bufs rfl)
              · cases hstep; rfl
            split at h
            · cases h
            · have := ih _ _ _ h
              rw [this, adv_kept]
              exact e1

theorem foldl_globSet_kept (b dep : Nat) : ∀ (l : List Nat) (ed : Ed),
    useqOf (l.foldl (fun (ed : Ed) k =>
      match ed.lb with | some lb => ed.setLb (globSet lb (b + 1 + k) dep) | none => ed) ed) = useqOf ed := by
  intro l
  induction l with
  | nil => intro ed; rfl
  | cons k l ih =>
    intro ed
    rw [List.foldl_cons, ih]
    exact useq_upd ed (fun lb => globSet lb (b + 1 + k) dep) (fun _ => rfl)

theorem foldl_globGet_useq (dep : Nat) : ∀ (l : List Nat) (lb : Lb),
    (l.foldl (fun lb k => (globGet lb k dep).2) lb).useq = lb.useq := by
  intro l
  induction l with
  | nil => intro lb; rfl
  | cons k l ih => intro lb; rw [List.foldl_cons, ih]; rfl

/-- the prologue of `ec_glob`: the pattern is remembered -/
def globPrep (ed : Ed) (arg : Bytes) : Ed :=
  match (reRead arg).1 with
  | some p => if !p.isEmpty then ed.kwdSet (some p) 1 else ed
  | none => ed

/-- one level deeper, the lines `b+1 .. e-1` marked with bit `dep` -/
def globMark (ed : Ed) (b e : Int) (dep : Nat) : Ed :=
  (List.range (e - (b + 1)).toNat).foldl (fun (ed : Ed) k =>
    match ed.lb with | some lb => ed.setLb (globSet lb (b.toNat + 1 + k) dep) | none => ed) { ed with xgdep := dep }

/-- the final sweep: bit `dep` is cleared everywhere -/
def globSweep (ed : Ed) (dep : Nat) : Ed :=
  match ed.lb with
  | some lb => ed.setLb ((List.range lb.lines.length).foldl (fun lb k => (globGet lb k dep).2) lb)
  | none => ed

/-- the step budget of the scan -/
def globBudget (ed : Ed) : Nat := 4 * (ed.len.toNat + 4) * (ed.len.toNat + 4) + 64

/-- `ec_glob` in terms of the pieces above -/
theorem ecGlob_eq (f : Nat) (ed : Ed) (loc cmd arg : Bytes) :
    ecGlob (f + 1) ed loc cmd arg =
      if ed.xgdep ≥ 7 then some ((1 : Int), ed.show (strOf "global commands nested too deep")) else
      match exRegion ed (if loc.isEmpty && ed.xgdep == 0 then [37] else loc) with
      | none => none
      | some ((rc, b, e), ed) =>
        if rc != 0 then some (1, ed) else
        if (globPrep ed arg).xkwddir == 0 then some (1, globPrep ed arg) else
        match (globPrep ed arg).mkRe (globPrep ed arg).xkwd with
        | none => none
        | some none => some (1, globPrep ed arg)
        | some (some re) =>
          match ecGlob.scan f (hasBang cmd || cmd.headD 0 == 118) (reRead arg).2 re ((globPrep ed arg).xgdep + 1)
              (globBudget (globMark (globPrep ed arg) b e ((globPrep ed arg).xgdep + 1)))
              (globMark (globPrep ed arg) b e ((globPrep ed arg).xgdep + 1)) b with
          | none => none
          | some ed2 =>
            some (0, { globSweep ed2 ((globPrep ed arg).xgdep + 1) with xgdep := (globPrep ed arg).xgdep + 1 - 1 }) := by
  rw [ecGlob]
  rfl

theorem globPrep_bufs (ed : Ed) (arg : Bytes) : (globPrep ed arg).bufs = ed.bufs := by
  unfold globPrep
  repeat' split
  all_goals rfl

/-- `:g` keeps the sequence counter when its command list does -/
theorem ecGlob_kept (f : Nat) (ed ed' : Ed) (loc cmd arg : Bytes) (r : Int)
    (hbody : LineKept f (reRead arg).2)
    (h : ecGlob (f + 1) ed loc cmd arg = some (r, ed')) : useqOf ed' = useqOf ed := by
  rw [ecGlob_eq] at h
  by_cases hdep : ed.xgdep ≥ 7
  · rw [if_pos hdep] at h; cases h; exact useq_of_bufs rfl
  rw [if_neg hdep] at h
  split at h
  · cases h
  · rename_i rc b e ed1 hr
    have e1 := useq_of_bufs (exRegion_bufs hr)
    have e2 := (useq_of_bufs (globPrep_bufs ed1 arg)).trans e1
    split at h
    · cases h; exact e1
    · split at h
      · cases h; exact e2
      · split at h
        · cases h
        · cases h; exact e2
        · split at h
          · cases h
          · rename_i ed2 hscan
            cases h
            have e3 := scan_kept f _ _ _ _ hbody _ _ _ _ hscan
            have e4 : useqOf (globMark (globPrep ed1 arg) b e ((globPrep ed1 arg).xgdep + 1)) = useqOf (globPrep ed1 arg) :=
              foldl_globSet_kept _ _ _ _
            have e5 : useqOf (globSweep ed2 ((globPrep ed1 arg).xgdep + 1)) = useqOf ed2 :=
              useq_upd ed2 _ (fun lb => foldl_globGet_useq _ _ lb)
            exact ((e5.trans e3).trans e4).trans e2

/-! ### command lines without noisy commands -/

/-- a handler is quiet: not one of the noisy ones, and if it is `:g`, its command list is accepted by `body` -/
def quietH (body : Bytes → Bool) (h : String) (arg : Bytes) : Bool :=
  !noisy h && (h != "ec_glob" || body (reRead arg).2)

/-- the commands `ex_exec` will dispatch on a line (the split of a line into commands does not depend on
    the editor state) are all quiet -/
def quietCmds (body : Bytes → Bool) : Nat → Bytes → Bool
  | 0, _ => true
  | g + 1, ln =>
    if ln.isEmpty then true else
    let (_, ln) := exLoc ln
    let (cmd, ln) := exCmd ln
    let idx := exIdx cmd
    let abbr := match idx with | some (a, _) => a | none => strOf "unknown"
    let (arg, ln) := exArg ln abbr
    let ln := (exTxt {} ln abbr).1.2
    match idx with
    | none => quietCmds body g ln
    | some (_, h) => quietH body h arg && quietCmds body g ln

/-- a quiet line, with `:g` nested at most `d` deep -/
def quietLine : Nat → Bytes → Bool
  | 0, ln => quietCmds (fun _ => false) (ln.length + 1) ln
  | d + 1, ln => quietCmds (quietLine d) (ln.length + 1) ln

theorem exTxt_rest (ed : Ed) (src ex : Bytes) : (exTxt ed src ex).1.2 = (exTxt {} src ex).1.2 := by
  unfold exTxt
  simp only []
  repeat' split
  all_goals rfl

theorem cmds_kept (f : Nat) (body : Bytes → Bool)
    (hrun : ∀ ed h loc cmd arg txt r ed', quietH body h arg = true →
      runCmd f ed h loc cmd arg txt = some (r, ed') → useqOf ed' = useqOf ed) :
    ∀ (g : Nat) (ed : Ed) (ln : Bytes) (ret r : Int) (ed' : Ed), quietCmds body g ln = true →
      exExec.cmds f g ed ln ret = some (r, ed') → useqOf ed' = useqOf ed := by
  intro g
  induction g with
  | zero => intro ed ln ret r ed' _ h; rw [exExec.cmds] at h; cases h; rfl
  | succ g ih =>
    intro ed ln ret r ed' hq h
    rw [exExec.cmds] at h
    rw [quietCmds] at hq
    split at h
    · cases h; rfl
    · rename_i hne
      rw [if_neg hne] at hq
      generalize exLoc ln = p1 at h hq
      obtain ⟨loc, l1⟩ := p1
      simp only [] at h hq
      generalize exCmd l1 = p2 at h hq
      obtain ⟨cmd, l2⟩ := p2
      simp only [] at h hq
      generalize exIdx cmd = idx at h hq
      cases idx with
      | none =>
        simp only [] at h hq
        generalize exArg l2 (strOf "unknown") = p3 at h hq
        obtain ⟨arg, l3⟩ := p3
        simp only [] at h hq
        have hb := exTxt_bufs ed l3 (strOf "unknown")
        have hrst := exTxt_rest ed l3 (strOf "unknown")
        generalize exTxt ed l3 (strOf "unknown") = T at h hb hrst
        obtain ⟨⟨txt, l4⟩, edT⟩ := T
        simp only [] at h hb hrst
        subst hrst
        have et : useqOf edT = useqOf ed := useq_of_bufs hb
        exact (ih _ _ _ _ _ hq h).trans ((useq_of_bufs rfl).trans et)
      | some ah =>
        obtain ⟨a, hh⟩ := ah
        simp only [] at h hq
        generalize exArg l2 a = p3 at h hq
        obtain ⟨arg, l3⟩ := p3
        simp only [] at h hq
        have hb := exTxt_bufs ed l3 a
        have hrst := exTxt_rest ed l3 a
        generalize exTxt ed l3 a = T at h hb hrst
        obtain ⟨⟨txt, l4⟩, edT⟩ := T
        simp only [] at h hb hrst
        subst hrst
        have et : useqOf edT = useqOf ed := useq_of_bufs hb
        simp only [Bool.and_eq_true] at hq
        split at h
        · cases h
        · rename_i r1 ed1 hr
          exact (ih _ _ _ _ _ hq.2 h).trans ((hrun _ _ _ _ _ _ _ _ hq.1 hr).trans et)

theorem quietH_cases {body : Bytes → Bool} {h : String} {arg : Bytes} (hq : quietH body h arg = true) :
    noisy h = false ∧ (h = "ec_glob" → body (reRead arg).2 = true) := by
  unfold quietH at hq
  simp only [Bool.and_eq_true, Bool.not_eq_true', Bool.or_eq_true, bne_iff_ne, ne_eq] at hq
  refine ⟨hq.1, fun he => ?_⟩
  rcases hq.2 with h1 | h1
  · exact absurd he h1
  · exact h1

/-- `ex_exec` of a quiet line keeps the sequence counter of the current buffer, whatever the fuel -/
theorem exExec_kept : ∀ (f d : Nat) (ln : Bytes), quietLine d ln = true → LineKept f ln := by
  intro f
  induction f using Nat.strongRecOn with
  | _ f ih =>
    intro d ln hq ed r ed' h
    cases f with
    | zero => rw [exExec] at h; cases h
    | succ f =>
      rw [exExec] at h
      split at h
      · cases h; rfl
      · -- `body` is the check for nested command lists; it implies `LineKept` at every smaller fuel
        have key : ∀ (body : Bytes → Bool), (∀ s, body s = true → ∀ f', f' < f + 1 → LineKept f' s) →
            quietCmds body (ln.length + 1) ln = true → useqOf ed' = useqOf ed := by
          intro body hbody hqc
          apply cmds_kept f body ?_ _ _ _ _ _ _ hqc h
          intro ed hdl loc cmd arg txt r ed' hqh hrun
          obtain ⟨hn, hg⟩ := quietH_cases hqh
          cases f with
          | zero => rw [runCmd] at hrun; cases hrun
          | succ f1 =>
            apply runCmd_kept f1 ed ed' hdl loc cmd arg txt r hn ?_ hrun
            intro he ed2 r2 ed2' hglob
            cases f1 with
            | zero => rw [ecGlob] at hglob; cases hglob
            | succ f2 =>
              exact ecGlob_kept f2 ed2 ed2' loc cmd arg r2 (hbody _ (hg he) f2 (by omega)) hglob
        cases d with
        | zero =>
          exact key (fun _ => false) (fun s hs => by cases hs) hq
        | succ d =>
          exact key (quietLine d) (fun s hs f' hf' => ih f' hf' d s hs) hq

/-- **one_undo_step**: `ex_exec` on a line without `:e`/`:b`/`:w`/`:q`/`:!`/`:@`/`:ra` commands (also inside
    nested `:g` command lists, `d` levels deep) never bumps the sequence counter of the current buffer -/
theorem one_undo_step (f d : Nat) (ed : Ed) (ln : Bytes) (hq : quietLine d ln = true) :
    (exExec f ed ln).map (fun r => r.2.lb.map (·.useq)) = (exExec f ed ln).map (fun _ => ed.lb.map (·.useq)) := by
  cases h : exExec f ed ln with
  | none => rfl
  | some x =>
    obtain ⟨r, ed'⟩ := x
    simp only [Option.map_some, Option.some.injEq]
    exact exExec_kept f d ln hq ed r ed' h

/-- so a whole `:g` with a quiet command list is one command for undo: `ex_command` bumps the counter once,
    at the end (`Props/C04`: one group of equal sequence numbers is one undo step) -/
theorem g_is_one_command (f d : Nat) (ed ed' : Ed) (ln : Bytes) (r : Int) (hq : quietLine d ln = true)
    (h : exCommand f ed ln = some (r, ed')) : useqOf ed' = (useqOf ed).map (· + 1) := by
  cases f with
  | zero => rw [exCommand] at h; cases h
  | succ f =>
    rw [exCommand] at h
    split at h
    · cases h
    · rename_i _ ed1 hx
      cases h
      rw [← exExec_kept f d ln hq ed r ed1 hx]
      unfold useqOf Ed.lb Ed.cur Ed.modifiedAt
      cases hb : ed1.bufs with
      | nil => simp [hb]
      | cons b0 rest =>
        cases b0 with
        | none => simp [hb]
        | some b => simp [modified]

/-- `:g/a/s/x/y/` and `:g/a/g/b/d` are quiet; `:g/a/w` is not -/
example : quietLine 1 [103, 47, 97, 47, 115, 47, 120, 47, 121, 47] = true := by decide +kernel
example : quietLine 2 [103, 47, 97, 47, 103, 47, 98, 47, 100] = true := by decide +kernel
example : quietLine 1 [103, 47, 97, 47, 119] = false := by decide +kernel

/-! ## 8. every marked line is visited once -/

theorem len_of_lb {ed : Ed} {lb : Lb} (h : ed.lb = some lb) : ed.len = lb.lines.length := by
  unfold Ed.len; rw [h]

/-- **visit_once**: the advance step of the `:g` scan, started at `i`, returns the first index `j ≥ i` whose
    entry carries bit `dep` (or the number of lines if there is none); every entry in `[i, j)` had the bit
    clear; the entries in `[i, j]` have been passed through `lbuf_globget`, i.e. the bit is cleared at `j`
    as well; nothing else changes.  So a line that has been found is not found again unless the bit is set again. -/
theorem visit_once (dep : Nat) : ∀ (h : Nat) (ed : Ed) (i : Int) (lb : Lb), ed.lb = some lb → 0 ≤ i →
    lb.lines.length - i.toNat < h →
    ∃ (j : Int) (lb' : Lb), (ecGlob.scan.adv dep h ed i).2 = j ∧ (ecGlob.scan.adv dep h ed i).1.lb = some lb' ∧
      i ≤ j ∧ (i < lb.lines.length → j ≤ lb.lines.length) ∧ ((lb.lines.length : Int) ≤ i → j = i) ∧
      (∀ k, i.toNat ≤ k → k < j.toNat → (lb.glob.getD k 0).testBit dep = false) ∧
      (j < lb.lines.length → (lb.glob.getD j.toNat 0).testBit dep = true) ∧
      lb'.lines = lb.lines ∧ lb'.useq = lb.useq ∧
      (∀ k, lb'.glob.getD k 0 =
        if i.toNat ≤ k ∧ k ≤ j.toNat ∧ k < lb.lines.length then clr (lb.glob.getD k 0) dep else lb.glob.getD k 0) := by
  intro h
  induction h with
  | zero => intro ed i lb _ _ hf; omega
  | succ h ih =>
    intro ed i lb hlb hi hf
    rw [ecGlob.scan.adv]
    by_cases hge : i ≥ ed.len
    · rw [if_pos hge]
      rw [len_of_lb hlb] at hge
      refine ⟨i, lb, rfl, hlb, by omega, by omega, fun _ => rfl, by omega, by omega, rfl, rfl, ?_⟩
      intro k
      rw [if_neg (by omega)]
    · rw [if_neg hge]
      rw [len_of_lb hlb] at hge
      simp only [hlb]
      have hlb1 : (ed.setLb (globGet lb i.toNat dep).2).lb = some (globGet lb i.toNat dep).2 := by
        rw [setLb_lb, hlb]; rfl
      have hent := globGet_entry lb i.toNat dep
      by_cases hm : (globGet lb i.toNat dep).1 = true
      · rw [if_pos hm]
        refine ⟨i, (globGet lb i.toNat dep).2, rfl, hlb1, by omega, by omega, fun _ => rfl, by omega, ?_, rfl, rfl, ?_⟩
        · intro _; rw [← globGet_fst]; exact hm
        · intro k
          rw [hent k]
          by_cases hk : k = i.toNat
          · subst hk; rw [if_pos rfl, if_pos (by omega)]
          · rw [if_neg hk, if_neg (by omega)]
      · rw [if_neg hm]
        have hm' : (lb.glob.getD i.toNat 0).testBit dep = false := by
          rw [← globGet_fst]; simpa using hm
        obtain ⟨j, lb', h1, h2, h3, h4, h5, h6, h7, h8, h9, h10⟩ :=
          ih (ed.setLb (globGet lb i.toNat dep).2) (i + 1) (globGet lb i.toNat dep).2 hlb1 (by omega)
            (by show lb.lines.length - (i + 1).toNat < h; omega)
        have hl : (globGet lb i.toNat dep).2.lines = lb.lines := rfl
        rw [hl] at h4 h5 h7 h10
        refine ⟨j, lb', h1, h2, by omega, by omega, fun hc => by omega, ?_, ?_, h8, h9, ?_⟩
        · intro k hk1 hk2
          by_cases hk : k = i.toNat
          · subst hk; exact hm'
          · have := h6 k (by omega) hk2
            rw [hent k, if_neg hk] at this
            exact this
        · intro hj
          have := h7 hj
          rw [hent j.toNat, if_neg (by omega)] at this
          exact this
        · intro k
          rw [h10 k, hent k]
          by_cases hk : k = i.toNat
          · subst hk
            rw [if_pos rfl, if_neg (by omega), if_pos (by omega)]
          · rw [if_neg hk]
            by_cases hc : (i + 1).toNat ≤ k ∧ k ≤ j.toNat ∧ k < lb.lines.length
            · rw [if_pos hc, if_pos (by omega)]
            · rw [if_neg hc, if_neg (by omega)]

/-- after the advance step no entry in `[i, j]` carries the bit any more -/
theorem adv_cleared (dep h : Nat) (ed : Ed) (i : Int) (lb : Lb) (hlb : ed.lb = some lb) (hi : 0 ≤ i)
    (hf : lb.lines.length - i.toNat < h) (hb : ∀ x ∈ lb.glob, x < 256) :
    ∃ lb', (ecGlob.scan.adv dep h ed i).1.lb = some lb' ∧
      ∀ k, i.toNat ≤ k → k ≤ (ecGlob.scan.adv dep h ed i).2.toNat → k < lb.lines.length →
        (lb'.glob.getD k 0).testBit dep = false := by
  obtain ⟨j, lb', h1, h2, _, _, _, _, _, _, _, h10⟩ := visit_once dep h ed i lb hlb hi hf
  refine ⟨lb', h2, ?_⟩
  intro k hk1 hk2 hk3
  rw [h1] at hk2
  rw [h10 k, if_pos ⟨hk1, hk2, hk3⟩, clr_testBit]
  · simp
  · rw [List.getD_eq_getElem?_getD]
    cases hget : lb.glob[k]? with
    | none => simp
    | some v => exact hb v (List.mem_of_getElem? hget)

end Neatvi.Props.C15
