import NeatviVerif.Model.Dir
import NeatviVerif.Model.Ren
/-!
# C18  Bidi reordering is a permutation reversing exactly the opposite-direction runs; shaping

`dir_fix` is modelled over an abstract matcher (`Dir.Matcher`); the theorems hold for *every*
matcher (permutation) or for every matcher satisfying the in-range law `Lawful` (no trap,
termination, frame).  The concrete matcher (`dir_match` over the regex sets) is tied by the
correspondence check.
-/
namespace Neatvi.Props.C18
open Neatvi Neatvi.Uc Neatvi.Dir

/-! ### permutation -/

theorem reverse_perm {ord ord' : List Nat} {b e : Nat} (h : dirReverse ord b e = some ord') :
    ord'.Perm ord := by
  unfold dirReverse at h
  split at h
  · split at h
    · cases h
      have h1 : ((ord.drop b).take (e - b)).reverse.Perm ((ord.drop b).take (e - b)) := List.reverse_perm _
      have h2 : ord = ord.take b ++ (ord.drop b).take (e - b) ++ ord.drop e := by
        have : ord.drop e = (ord.drop b).drop (e - b) := by rw [List.drop_drop]; congr 1; omega
        rw [this, List.append_assoc, List.take_append_drop, List.take_append_drop]
      conv => rhs; rw [h2]
      exact (List.Perm.append_left _ h1).append_right _
    · cases h
  · cases h; exact List.Perm.refl _

theorem revIf_perm {c : Bool} {ord ord' : List Nat} {b e : Nat} (h : revIf c ord b e = some ord') :
    ord'.Perm ord := by
  unfold revIf at h
  split at h
  · exact reverse_perm h
  · cases h; exact List.Perm.refl _

/-- `dir_fix` only ever permutes: for any matcher whatsoever (swaps only) -/
theorem fix_perm (M : Matcher) : ∀ (fuel : Nat) (ord ord' : List Nat) (dir : Int) (b e : Nat),
    dirFix M fuel ord dir b e = some ord' → ord'.Perm ord := by
  intro fuel
  induction fuel with
  | zero =>
    intro ord ord' dir b e h
    simp only [dirFix] at h
    split at h
    · cases h
    · cases h; exact List.Perm.refl _
  | succ f ih =>
    intro ord ord' dir b e h
    simp only [dirFix] at h
    split at h
    · split at h
      · cases h
      · cases h; exact List.Perm.refl _
      · next m _ =>
        cases h1 : revIf (decide (dir < 0)) ord m.rBeg m.rEnd with
        | none => rw [h1] at h; cases h
        | some ord1 =>
          rw [h1] at h
          simp only [Option.bind_some] at h
          cases h2 : revIf (decide (m.cDir < 0)) ord1 m.cBeg m.cEnd with
          | none => rw [h2] at h; cases h
          | some ord2 =>
            rw [h2] at h
            simp only [Option.bind_some] at h
            cases h3 : (if m.cRec = true then
                dirFix M f ord2 m.cDir (if (m.cBeg == m.rBeg) = true then m.cBeg + 1 else m.cBeg) m.cEnd
              else some ord2) with
            | none => rw [h3] at h; cases h
            | some ord3 =>
              rw [h3] at h
              simp only [Option.bind_some] at h
              have p1 : ord1.Perm ord := revIf_perm h1
              have p2 : ord2.Perm ord1 := revIf_perm h2
              have p3 : ord3.Perm ord2 := by
                split at h3
                · exact ih _ _ _ _ _ h3
                · cases h3; exact List.Perm.refl _
              exact ((ih _ _ _ _ _ h).trans p3).trans (p2.trans p1)
    · cases h; exact List.Perm.refl _

theorem setLast_range (n : Nat) (c : Bool) (k : Nat) : setLast (List.range n) c k = List.range n := by
  unfold setLast
  split
  · by_cases hkn : k < n
    · apply List.ext_getElem (by simp)
      intro i h1 h2
      rw [List.getElem_set]
      split
      · next heq => subst heq; simp
      · rfl
    · rw [List.set_eq_of_length_le (by simp; omega)]
  · rfl

/-- the visual order computed for a line is a permutation of its characters -/
theorem reorder_perm (orc : Oracle) (xtd : Int) (s : Bytes) (n : Nat) (ord : List Nat)
    (h : dirReorder orc xtd s (List.range n) = some ord) : ord.Perm (List.range n) := by
  unfold dirReorder at h
  simp only [setLast_range] at h
  exact fix_perm _ _ _ _ _ _ _ h

/-! ### in-range matchers: no trap, termination, frame -/

/-- the law the concrete matcher satisfies (spans inside the searched slice, non-empty match) -/
def Lawful (M : Matcher) : Prop :=
  ∀ b e dir, b < e → ∃ r, M b e dir = some r ∧
    ∀ m, r = some m → b ≤ m.rBeg ∧ m.rBeg < m.rEnd ∧ m.rEnd ≤ e ∧
      m.rBeg ≤ m.cBeg ∧ m.cBeg ≤ m.cEnd ∧ m.cEnd ≤ m.rEnd

theorem reverse_frame {ord : List Nat} {b e : Nat} (he : e ≤ ord.length) :
    ∃ ord', dirReverse ord b e = some ord' ∧ ord'.length = ord.length ∧
      ord'.take b = ord.take b ∧ ord'.drop e = ord.drop e := by
  unfold dirReverse
  by_cases hbe : b < e
  · rw [if_pos hbe, if_pos he]
    refine ⟨_, rfl, ?_, ?_, ?_⟩
    · simp; omega
    · rw [List.append_assoc, List.take_append_of_le_length (by simp; omega)]
      simp [List.take_take]
    · have : (ord.take b ++ ((ord.drop b).take (e - b)).reverse).length = e := by simp; omega
      exact List.drop_left' this
  · rw [if_neg hbe]; exact ⟨ord, rfl, rfl, rfl, rfl⟩

/-- for an in-range matcher `dir_fix` never traps, terminates within `e - b` rounds, keeps the
    length and touches nothing outside `[b, e)` -/
theorem fix_frame (M : Matcher) (hM : Lawful M) : ∀ (fuel : Nat) (ord : List Nat) (dir : Int) (b e : Nat),
    e - b ≤ fuel → e ≤ ord.length →
    ∃ ord', dirFix M fuel ord dir b e = some ord' ∧ ord'.length = ord.length ∧
      ord'.take b = ord.take b ∧ ord'.drop e = ord.drop e := by
  intro fuel
  induction fuel with
  | zero =>
    intro ord dir b e hf he
    simp only [dirFix]
    rw [if_neg (by omega)]
    exact ⟨ord, rfl, rfl, rfl, rfl⟩
  | succ f ih =>
    intro ord dir b e hf he
    simp only [dirFix]
    by_cases hbe : b < e
    · rw [if_pos hbe]
      obtain ⟨r, hr, hlaw⟩ := hM b e dir hbe
      rw [hr]
      cases r with
      | none => exact ⟨ord, rfl, rfl, rfl, rfl⟩
      | some m =>
        obtain ⟨l1, l2, l3, l4, l5, l6⟩ := hlaw m rfl
        dsimp only []
        -- step 1
        have s1 : ∃ o1, revIf (decide (dir < 0)) ord m.rBeg m.rEnd = some o1 ∧
            o1.length = ord.length ∧ o1.take b = ord.take b ∧ o1.drop e = ord.drop e := by
          unfold revIf
          split
          · obtain ⟨o, h1, h2, h3, h4⟩ := reverse_frame (ord := ord) (b := m.rBeg) (e := m.rEnd) (by omega)
            refine ⟨o, h1, h2, ?_, ?_⟩
            · have := congrArg (List.take b) h3
              rwa [List.take_take, List.take_take, Nat.min_eq_left l1] at this
            · have := congrArg (List.drop (e - m.rEnd)) h4
              rwa [List.drop_drop, List.drop_drop, show m.rEnd + (e - m.rEnd) = e by omega] at this
          · exact ⟨ord, rfl, rfl, rfl, rfl⟩
        obtain ⟨o1, e1, n1, t1, d1⟩ := s1
        rw [e1]; simp only [Option.bind_some]
        have s2 : ∃ o2, revIf (decide (m.cDir < 0)) o1 m.cBeg m.cEnd = some o2 ∧
            o2.length = ord.length ∧ o2.take b = ord.take b ∧ o2.drop e = ord.drop e := by
          unfold revIf
          split
          · obtain ⟨o, h1, h2, h3, h4⟩ := reverse_frame (ord := o1) (b := m.cBeg) (e := m.cEnd) (by omega)
            refine ⟨o, h1, by omega, ?_, ?_⟩
            · have := congrArg (List.take b) h3
              rw [List.take_take, List.take_take, Nat.min_eq_left (by omega)] at this
              rw [this, t1]
            · have := congrArg (List.drop (e - m.cEnd)) h4
              rw [List.drop_drop, List.drop_drop, show m.cEnd + (e - m.cEnd) = e by omega] at this
              rw [this, d1]
          · exact ⟨o1, rfl, n1, t1, d1⟩
        obtain ⟨o2, e2, n2, t2, d2⟩ := s2
        rw [e2]; simp only [Option.bind_some]
        have s3 : ∃ o3, (if m.cRec = true then
              dirFix M f o2 m.cDir (if (m.cBeg == m.rBeg) = true then m.cBeg + 1 else m.cBeg) m.cEnd
            else some o2) = some o3 ∧
            o3.length = ord.length ∧ o3.take b = ord.take b ∧ o3.drop e = ord.drop e := by
          split
          · generalize hcb : (if (m.cBeg == m.rBeg) = true then m.cBeg + 1 else m.cBeg) = cb
            have hcb1 : m.cBeg ≤ cb := by rw [← hcb]; split <;> omega
            have hcb2 : b < cb := by
              rw [← hcb]; split
              · omega
              · next hne =>
                have : m.cBeg ≠ m.rBeg := by simpa using hne
                omega
            obtain ⟨o, h1, h2, h3, h4⟩ := ih o2 m.cDir cb m.cEnd (by omega) (by omega)
            refine ⟨o, h1, by omega, ?_, ?_⟩
            · have := congrArg (List.take b) h3
              rw [List.take_take, List.take_take, Nat.min_eq_left (by omega)] at this
              rw [this, t2]
            · have := congrArg (List.drop (e - m.cEnd)) h4
              rw [List.drop_drop, List.drop_drop, show m.cEnd + (e - m.cEnd) = e by omega] at this
              rw [this, d2]
          · exact ⟨o2, rfl, n2, t2, d2⟩
        obtain ⟨o3, e3, n3, t3, d3⟩ := s3
        rw [e3]; simp only [Option.bind_some]
        obtain ⟨o, h1, h2, h3, h4⟩ := ih o3 dir m.rEnd e (by omega) (by omega)
        refine ⟨o, h1, by omega, ?_, by rw [h4, d3]⟩
        have := congrArg (List.take b) h3
        rw [List.take_take, List.take_take, Nat.min_eq_left (by omega)] at this
        rw [this, t3]
    · rw [if_neg hbe]; exact ⟨ord, rfl, rfl, rfl, rfl⟩

/-- a line in which the matcher finds nothing keeps logical order -/
theorem no_match_identity (M : Matcher) (fuel : Nat) (ord : List Nat) (dir : Int) (b e : Nat)
    (h : M b e dir = some none) : dirFix M (fuel + 1) ord dir b e = some ord := by
  simp only [dirFix]
  split
  · rw [h]
  · rfl

/-- in a left-to-right context a (non-nested) right-to-left run is reversed in place and the
    scan continues after it; symmetric statement for the right-to-left context -/
theorem run_step (M : Matcher) (fuel : Nat) (ord : List Nat) (dir : Int) (b e : Nat) (m : DMatch)
    (hbe : b < e) (h : M b e dir = some (some m)) (hrec : m.cRec = false) :
    dirFix M (fuel + 1) ord dir b e =
      ((revIf (decide (dir < 0)) ord m.rBeg m.rEnd).bind fun o1 =>
        (revIf (decide (m.cDir < 0)) o1 m.cBeg m.cEnd).bind fun o2 =>
          dirFix M fuel o2 dir m.rEnd e) := by
  simp only [dirFix, if_pos hbe, h, hrec]
  cases revIf (decide (dir < 0)) ord m.rBeg m.rEnd with
  | none => rfl
  | some o1 =>
    simp only [Option.bind_some]
    cases revIf (decide (m.cDir < 0)) o1 m.cBeg m.cEnd with
    | none => rfl
    | some o2 => simp

/-! ### shaping -/

/-- `find_achar` only returns rows of the table, for the code point asked -/
theorem findAchar_sound (t : List (Nat × Nat × Nat × Nat × Nat)) (c : Nat) :
    ∀ fuel l h a, findAcharF t c fuel l h = some a → a.c = c ∧ ∃ r ∈ t, a = acharOf r := by
  intro fuel
  induction fuel with
  | zero => intro l h a hh; simp [findAcharF] at hh
  | succ f ih =>
    intro l h a hh
    simp only [findAcharF] at hh
    split at hh
    · split at hh
      · cases hh
      · next r hr =>
        split at hh
        · next heq =>
          cases hh
          exact ⟨heq, r, List.mem_of_getElem? hr, rfl⟩
        · split at hh
          · exact ih _ _ _ hh
          · exact ih _ _ _ hh
    · cases hh

/-- and it finds every row of the (regenerated) table -/
theorem findAchar_complete : Gen.achars.all (fun r => findAchar r.1 == some (acharOf r)) = true := by
  decide +kernel

/-- the presentation form selected by the joining context -/
def pick (a : AChar) (jp jn : Bool) : Nat :=
  if jp && jn then a.m else if jp && !jn then a.f else if !jp && jn then a.i else a.c

/-- shaping never alters a character that is not in the letter table -/
theorem shape_other (cur prev next : Nat) (h : findAchar cur = none) : ucCshape cur prev next = cur := by
  simp [ucCshape, h]

/-- a letter of the table is replaced only by itself or by the form of *its own row* selected by
    whether the neighbours join -/
theorem shape_same_letter (cur prev next : Nat) (a : AChar) (h : findAchar cur = some a) :
    a.c = cur ∧ (∃ r ∈ Gen.achars, a = acharOf r) ∧
    (ucCshape cur prev next = pick a (canJoin prev cur) (canJoin cur next) ∨ ucCshape cur prev next = cur) := by
  have hs := findAchar_sound Gen.achars cur _ _ _ a h
  refine ⟨hs.1, hs.2, ?_⟩
  have key : ∀ x : Nat, (if (x != 0) = true then x else cur) = x ∨ (if (x != 0) = true then x else cur) = cur := by
    intro x; by_cases hx : (x != 0) = true
    · left; rw [if_pos hx]
    · right; rw [if_neg hx]
  simp only [ucCshape, h, pick]
  exact key _

/-- `uc_cput` of a shaped letter is a well-formed encoding (shared with C16) -/
example : ucCshape 0x628 0x644 0x627 = 0xfe92 ∧ ucCshape 0x628 0 0x644 = 0xfe91 ∧ ucCshape 0x41 0x628 0x628 = 0x41 := by
  decide +kernel

example : dirFix (fun b e _ => if b == 0 && e == 4 then some (some ⟨1, 3, 1, 3, -1, false⟩) else some none)
    5 [0, 1, 2, 3] 1 0 4 = some [0, 2, 1, 3] := by decide

end Neatvi.Props.C18
