namespace Neatvi.Props.C11
end Neatvi.Props.C11
