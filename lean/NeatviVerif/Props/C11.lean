import NeatviVerif.Lemmas.C11Parse
import NeatviVerif.Lemmas.C11Emit
import NeatviVerif.Lemmas.C11Wf
import NeatviVerif.Lemmas.C11VM
import NeatviVerif.Lemmas.C11Range
import NeatviVerif.Lemmas.C11cCount
/-!
# C11: the regex compiler and VM stay inside their bounds

All statements are for every pattern, every parse tree, every program state: the proofs are by
induction (on the parser fuel, the tree, and the measure of the VM), never by bounded checking.

* `parse_bounds`, `parse_bounds_parse`: repetition bounds of every parsed node are well formed;
* `emit_length`, `emitLen_le_count`, `program_fits`: the compiled program fits the allocation;
* `program_within_limit`, `regcomp_rejects_huge`: the allocation and the program never exceed
  `NCODE` instructions; nested repetitions beyond that are refused (the clamped count `countSat`
  of the C code equals `min (count t) NCODE`: `NeatviVerif/Lemmas/C11cCount.lean`);
* `jmpend_bounded`: the `jmpend[NREPS]` array of `rnode_emit` is never overrun;
* `emit_wf`, `regcomp_wf`: every edge of a compiled program stays inside the program and jumps and
  second fork targets go forward;
* `no_edge_trap`: on such programs the VM never takes the checked-edge trap;
* `atomMatch_range`, `offsets_in_range`, `offsets_shape`, `regcomp_offsets`: reported offsets
  satisfy `start = so ≤ eo ≤ length`, every group offset is `-1` or inside the subject.

The definitions `RepOk`, `TreeOk`, `InstOk`, `SegOk`, `EdgeOk`, `WfProg`, `MarksOk`, `AtomRange`,
`BodyInst`, `Shape` live in `NeatviVerif/Lemmas/C11*.lean`.
-/
namespace Neatvi.Props.C11
open Neatvi Neatvi.Regex

/-! ## 1. well-formed bounds from the parser -/

/-- Every tree the recursive-descent parser returns — from any of its four functions, for every
    pattern and every fuel — has well-formed repetition bounds on every `atom`/`grp` node. -/
theorem parse_bounds (f : Nat) :
    (∀ p t rest, parseAlt f p = some (some t, rest) → TreeOk t) ∧
    (∀ p t rest, parseSeq f p = some (some t, rest) → TreeOk t) ∧
    (∀ p t rest, parseAtom f p = some (some t, rest) → TreeOk t) ∧
    (∀ p t rest, parseGrp f p = some (some t, rest) → TreeOk t) :=
  parse_bounds_all f

/-- `rnode_parse` as `regcomp` calls it returns a tree with well-formed bounds. -/
theorem parse_bounds_parse (p : Bytes) (t : RNode) (h : parse p = some (some t)) : TreeOk t :=
  parse_ok h

/-- Group numbering keeps the bounds. -/
theorem grpnum_bounds (t : RNode) (num : Nat) (h : TreeOk t) : TreeOk (grpnum t num).1 :=
  grpnum_treeOk t num h

/-! ## 2.–4. the program fits its allocation -/

/-- The emitted code has length `emitLen t`, for every tree and base address. -/
theorem emit_length (t : RNode) (base : Nat) : (emit t base).length = emitLen t :=
  emit_length_aux t base

/-- For well-formed bounds the emitted code is within the estimate `rnode_count` that sizes the
    allocation. -/
theorem emitLen_le_count (t : RNode) (h : TreeOk t) : (emitLen t : Int) ≤ count t :=
  emitLen_le_count_aux t h

/-- What `regcomp` returns on success: the tree is well formed, its clamped size estimate passed
    the limit test — hence equals the unbounded estimate — and the program is the emitted code of
    the numbered tree with `rnode_count + 3` instructions allocated. -/
theorem regcomp_some (p : Bytes) (flg : Nat) (prog : Prog)
    (h : regcomp p flg = some (some prog)) :
    ∃ t, parse p = some (some t) ∧ TreeOk t ∧ countSat t + 3 ≤ (Gen.NCODE : Int) ∧
      countSat t = count t ∧
      prog = { code := [Inst.mark 0] ++ emit (grpnum t 1).1 1 ++ [Inst.mark 1, Inst.mtch],
               alloc := countSat t + 3, flg := flg } := by
  unfold regcomp at h
  split at h
  · cases h
  · cases h
  · rename_i t ht
    split at h
    · cases h
    rename_i hlim
    simp only [Option.some.injEq] at h
    have hle : countSat t + 3 ≤ (Gen.NCODE : Int) := by omega
    exact ⟨t, ht, parse_ok ht, hle, Lemmas.C11c.countSat_small t (parse_ok ht) hle, h.symm⟩

/-- The compiled program always fits the memory reserved for it (`rnode_count + 3` instructions),
    for every pattern and all flags. -/
theorem program_fits (p : Bytes) (flg : Nat) (prog : Prog)
    (h : regcomp p flg = some (some prog)) : prog.fits = true := by
  obtain ⟨t, _, hok, _, heq, rfl⟩ := regcomp_some p flg prog h
  have h1 := emitLen_le_count t hok
  have h2 := emitLen_grpnum t 1
  simp only [Prog.fits, decide_eq_true_eq, List.length_append, List.length_cons,
    List.length_nil, emit_length, h2]
  omega

/-- The allocation and the program never exceed `NCODE` instructions. -/
theorem program_within_limit (p : Bytes) (flg : Nat) (prog : Prog)
    (h : regcomp p flg = some (some prog)) :
    prog.alloc ≤ (Gen.NCODE : Int) ∧ (prog.code.length : Int) ≤ (Gen.NCODE : Int) := by
  have hf := program_fits p flg prog h
  obtain ⟨t, _, _, hle, _, rfl⟩ := regcomp_some p flg prog h
  simp only [Prog.fits, decide_eq_true_eq] at hf
  exact ⟨hle, Int.le_trans hf hle⟩

/-- `regcomp` refuses exactly the well-parsed patterns whose (unbounded) size estimate is beyond
    the limit: the clamping of the C arithmetic does not change the decision. -/
theorem regcomp_rejects_iff (p : Bytes) (flg : Nat) (t : RNode) (ht : parse p = some (some t)) :
    regcomp p flg = some none ↔ count t + 3 > (Gen.NCODE : Int) := by
  rw [Lemmas.C11c.countSat_big t (parse_ok ht)]
  unfold regcomp
  rw [ht]
  simp only
  split
  · simp [*]
  · simp [*]

/-! ## 5. the `jmpend` array -/

/-- The forks whose second target is patched at the end of a repetition (the leading fork of a
    `mn = 0` repetition and one per optional copy) number at most `NREPS`: `jmpend[NREPS]` is never
    overrun. -/
theorem jmpend_bounded (mn mx : Int) (h : RepOk mn mx) :
    (if mn = 0 then 1 else 0) + (mx - max 1 mn).toNat ≤ Gen.NREPS :=
  jmpend_bounded_aux mn mx h

/-! ## 6. edges -/

/-- Emitting `t` at address `a` writes only targets in `[a, a + emitLen t]`; jump targets and second
    fork targets are strictly forward (the first fork target of an unbounded repetition is the only
    backward edge). -/
theorem emit_segment (t : RNode) (a : Nat) : SegOk (emit t a) a a (a + emitLen t) :=
  segOk_emit t a

/-- The code `regcomp` builds around any tree is well formed.  (`TreeOk t` is not needed.) -/
theorem emit_wf (t : RNode) : WfProg ([Inst.mark 0] ++ emit t 1 ++ [Inst.mark 1, Inst.mtch]) :=
  emit_wf_aux t

/-- Every compiled program is well formed. -/
theorem regcomp_wf (p : Bytes) (flg : Nat) (prog : Prog)
    (h : regcomp p flg = some (some prog)) : WfProg prog.code := by
  unfold regcomp at h
  split at h
  · cases h
  · cases h
  · split at h
    · cases h
    simp only [Option.some.injEq] at h
    subst h
    exact emit_wf _

/-! ## 7. the checked edges never trap -/

/-- On a well-formed program, if no atom traps then neither `loop` nor `act` returns `trap`, from
    any state whose `pc` is inside the program. -/
theorem no_edge_trap (cx : Ctx) (hwf : WfProg cx.prog)
    (hat : ∀ a pos, atomMatch a cx.subj cx.flg pos ≠ AR.trap)
    (dep pc pos : Nat) (m : Marks) (cuts : Nat) (hpc : pc < cx.prog.length) :
    loop cx dep pc pos m cuts ≠ Res.trap ∧ act cx dep pc pos m cuts ≠ Res.trap :=
  ⟨loop_no_trap cx hwf hat dep pc hpc pos m cuts, act_no_trap cx hwf hat dep pc hpc pos m cuts⟩

/-! ## 8. offsets -/

/-- `ratom_match` moves forward and stays inside the subject, for every atom kind (the ICASE
    literal comparison included) and all flags. -/
theorem atomMatch_range (a : Atom) (subj : Bytes) (flg pos pos' : Nat) (hp : pos ≤ subj.length)
    (h : atomMatch a subj flg pos = AR.ok pos') : pos ≤ pos' ∧ pos' ≤ subj.length :=
  atomMatch_range_aux a subj flg pos pos' hp h

/-- Hence every context satisfies the atom hypothesis of the range lemmas. -/
theorem atomRange (cx : Ctx) : AtomRange cx := atomRange_all cx

/-- A successful match ends inside the subject, at or after its start position, and every mark is
    `-1` or an offset between the start position and the length of the subject — for every program,
    subject and flags. -/
theorem offsets_in_range (cx : Ctx) (start cuts pos : Nat) (m : Marks) (c : Nat)
    (hs : start ≤ cx.subj.length) (h : recmatch cx start cuts = Res.ok pos m c) :
    start ≤ pos ∧ pos ≤ cx.subj.length ∧
      ∀ x ∈ m, x = -1 ∨ ((start : Int) ≤ x ∧ x ≤ (cx.subj.length : Int)) :=
  recmatch_range cx (atomRange cx) hs h

/-- For a program of the shape `regcomp` produces (`mark 0` first, `mark 1` just before `mtch`, a
    body that sets no mark below 2 and only targets itself or the closing mark) run with at least
    two mark slots, the whole-match offsets are `m[0] = start` and `m[1] = pos`. -/
theorem offsets_shape (cx : Ctx) (hshape : Shape cx.prog) (hng : 2 ≤ cx.ngrps)
    (start cuts pos : Nat) (m : Marks) (c : Nat) (h : recmatch cx start cuts = Res.ok pos m c) :
    m[0]? = some (start : Int) ∧ m[1]? = some (pos : Int) :=
  recmatch_shape cx hshape hng h

/-- Every compiled program has that shape. -/
theorem regcomp_shape (p : Bytes) (flg : Nat) (prog : Prog)
    (h : regcomp p flg = some (some prog)) : Shape prog.code :=
  regcomp_shape_aux h

/-- End to end: for a compiled program, `so = start`, `eo = pos`, `0 ≤ so ≤ eo ≤ length`, and every
    group offset is `-1` or in `[so, length]`. -/
theorem regcomp_offsets (p : Bytes) (flg : Nat) (prog : Prog)
    (hc : regcomp p flg = some (some prog)) (cx : Ctx) (hprog : cx.prog = prog.code)
    (hng : 2 ≤ cx.ngrps) (start cuts pos : Nat) (m : Marks) (c : Nat)
    (hs : start ≤ cx.subj.length) (h : recmatch cx start cuts = Res.ok pos m c) :
    ∃ so eo : Int, m[0]? = some so ∧ m[1]? = some eo ∧ so = start ∧ eo = pos ∧
      0 ≤ so ∧ so ≤ eo ∧ eo ≤ (cx.subj.length : Int) ∧
      ∀ x ∈ m, x = -1 ∨ (so ≤ x ∧ x ≤ (cx.subj.length : Int)) := by
  have hsh : Shape cx.prog := by rw [hprog]; exact regcomp_shape p flg prog hc
  obtain ⟨h0, h1⟩ := offsets_shape cx hsh hng start cuts pos m c h
  obtain ⟨r1, r2, r3⟩ := offsets_in_range cx start cuts pos m c hs h
  exact ⟨start, pos, h0, h1, rfl, rfl, by omega, by omega, by omega, r3⟩

/-! ## concrete instances -/

/-- `((a{2,3}|b*)c)` compiles and fits. -/
example : (regcomp [40, 40, 97, 123, 50, 44, 51, 125, 124, 98, 42, 41, 99, 41] 0).map
    (·.map (fun p => (p.fits, p.code.length, p.alloc))) = some (some (true, 17, 19)) := by
  decide +kernel

/-- its parse tree has well-formed bounds -/
example : (parse [40, 40, 97, 123, 50, 44, 51, 125, 124, 98, 42, 41, 99, 41]).map
    (·.map (fun t => decide (TreeOk t))) = some (some true) := by
  decide +kernel

/-- a tree that is `TreeOk`, and one that is not (`a{3,2}` as a tree; the parser rejects it) -/
example : TreeOk (.grp (.alt (.atom ⟨AK.chr, [97]⟩ 2 3) (.atom ⟨AK.chr, [98]⟩ 0 (-1))) 1 1 1) := by
  decide
example : ¬ TreeOk (.atom ⟨AK.chr, [97]⟩ 3 2) := by decide

/-- `a{200}` is rejected, `a{128}` fits with 128 copies -/
example : (regcomp [97, 123, 50, 48, 48, 125] 0).map (·.isNone) = some true := by decide +kernel
example : (regcomp [97, 123, 49, 50, 56, 125] 0).map (·.map (fun p => (p.fits, p.code.length, p.alloc))) =
    some (some (true, 131, 259)) := by decide +kernel

/-- Five nested `{128}`: `(((((a{128}){128}){128}){128}){128})`.  The size estimate is beyond
    `2^40`: the `int` arithmetic of the C code used to wrap around. -/
def hugePat : Bytes :=
  [40, 40, 40, 40, 40, 97, 123, 49, 50, 56, 125, 41, 123, 49, 50, 56, 125, 41, 123, 49, 50, 56, 125,
   41, 123, 49, 50, 56, 125, 41, 123, 49, 50, 56, 125, 41]

example : hugePat = "(((((a{128}){128}){128}){128}){128})".toList.map Char.toNat := by decide

/-- its parse tree -/
def hugeTree : RNode :=
  .grp (.grp (.grp (.grp (.grp (.atom ⟨AK.chr, [97]⟩ 128 128) 0 128 128) 0 128 128) 0 128 128) 0 128 128) 0 1 1

theorem hugePat_parse : parse hugePat = some (some hugeTree) := by decide +kernel

/-- the unbounded estimate of that tree, and the clamped one -/
example : count hugeTree = 1108135248386 ∧ countSat hugeTree = (Gen.NCODE : Int) := by decide +kernel

/-- … and it is refused: `regcomp` returns 1. -/
theorem regcomp_rejects_huge : regcomp hugePat 0 = some none :=
  (regcomp_rejects_iff hugePat 0 hugeTree hugePat_parse).mpr (by decide +kernel)

/-- `((a{128}){2})` — `count = 1034` — compiles, fits, and nothing was clamped. -/
theorem regcomp_accepts_nested :
    (regcomp [40, 40, 97, 123, 49, 50, 56, 125, 41, 123, 50, 125, 41] 0).map
      (·.map (fun p => (p.fits, p.code.length, p.alloc))) = some (some (true, 265, 1037)) := by
  decide +kernel

end Neatvi.Props.C11

open Neatvi.Props.C11 in
section
end
