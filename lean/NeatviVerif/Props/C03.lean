namespace Neatvi.Props.C03
end Neatvi.Props.C03
